-- all modules of the library (regenerate with tools/mkroot)
import Kevo.Base.Bytes
import Kevo.Base.Hash
import Kevo.Gen.Consts
import Kevo.Model.Block
import Kevo.Model.Table
import Kevo.Model.Wal
import Kevo.Model.WalLog
import Kevo.Proofs.Table
import Kevo.Proofs.Wal
import Kevo.Proofs.WalCodec
import Kevo.Props.C09
import Kevo.Props.C11
import Kevo.Spec.Log
