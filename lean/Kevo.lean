import Kevo.Base.Bytes
