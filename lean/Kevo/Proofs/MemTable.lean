/-
  Kevo.Proofs.MemTable — the sequential memtable (C18): order facts about `entryLt`, sortedness and permutation of the
  level-0 list under arbitrary inserts, what `findIn` returns, full iteration, snapshot visibility, immutability, pool.
-/
import Kevo.Model.MemTable
import Kevo.Proofs.EngineLemmas
namespace Kevo.Proofs.MemTable
open Kevo Kevo.Engine Kevo.MemTable

/-! ### `ltB` / `entryLt` as orders -/

theorem ltB_tri (a b : Bytes) : ltB a b = true ∨ a = b ∨ ltB b a = true := by
  cases h1 : ltB a b with
  | true => exact Or.inl rfl
  | false =>
    cases h2 : ltB b a with
    | true => exact Or.inr (Or.inr rfl)
    | false => exact Or.inr (Or.inl (ltB_total h1 h2))

/-- `a < t` and `¬ b < t` give `a < b` -/
theorem ltB_of_lt_of_not_lt {a b t : Bytes} (h1 : ltB a t = true) (h2 : ltB b t = false) : ltB a b = true := by
  rcases ltB_tri t b with h | h | h
  · exact ltB_trans h1 h
  · subst h; exact h1
  · rw [h] at h2; contradiction

/-- the non-strict order of the level-0 list: key ascending, sequence number descending -/
def EntryLe (a b : MEntry) : Prop := ltB a.key b.key = true ∨ (a.key = b.key ∧ a.seq ≥ b.seq)

theorem entryLt_iff (a b : MEntry) :
    entryLt a b = true ↔ ltB a.key b.key = true ∨ (a.key = b.key ∧ a.seq > b.seq) := by
  unfold entryLt
  simp

theorem entryLt_irrefl (a : MEntry) : entryLt a a = false := by
  cases h : entryLt a a with
  | false => rfl
  | true =>
    rw [entryLt_iff] at h
    rcases h with h | ⟨_, h⟩
    · rw [ltB_irrefl] at h; contradiction
    · omega

theorem entryLt_trans {a b c : MEntry} (h1 : entryLt a b = true) (h2 : entryLt b c = true) : entryLt a c = true := by
  rw [entryLt_iff] at *
  rcases h1 with h1 | ⟨k1, s1⟩
  · rcases h2 with h2 | ⟨k2, _⟩
    · exact Or.inl (ltB_trans h1 h2)
    · exact Or.inl (k2 ▸ h1)
  · rcases h2 with h2 | ⟨k2, s2⟩
    · exact Or.inl (k1 ▸ h2)
    · exact Or.inr ⟨k1.trans k2, by omega⟩

theorem entryLt_asymm {a b : MEntry} (h : entryLt a b = true) : entryLt b a = false := by
  cases hb : entryLt b a with
  | false => rfl
  | true => have := entryLt_trans h hb; rw [entryLt_irrefl] at this; contradiction

/-- `¬ (b < a)` is `a ≤ b` -/
theorem not_entryLt_iff (a b : MEntry) : entryLt b a = false ↔ EntryLe a b := by
  unfold EntryLe
  constructor
  · intro h
    rcases ltB_tri a.key b.key with hk | hk | hk
    · exact Or.inl hk
    · right
      refine ⟨hk, ?_⟩
      cases hs : decide (a.seq ≥ b.seq) with
      | true => simpa using hs
      | false =>
        have hlt : b.seq > a.seq := by
          have := of_decide_eq_false hs; omega
        have : entryLt b a = true := (entryLt_iff b a).mpr (Or.inr ⟨hk.symm, hlt⟩)
        rw [h] at this; contradiction
    · have : entryLt b a = true := (entryLt_iff b a).mpr (Or.inl hk)
      rw [h] at this; contradiction
  · intro h
    cases hb : entryLt b a with
    | false => rfl
    | true =>
      rw [entryLt_iff] at hb
      rcases h with h | ⟨hk, hs⟩
      · rcases hb with hb | ⟨hk', _⟩
        · have := ltB_asymm h; rw [hb] at this; contradiction
        · rw [hk', ltB_irrefl] at h; contradiction
      · rcases hb with hb | ⟨_, hs'⟩
        · rw [hk, ltB_irrefl] at hb; contradiction
        · omega

theorem EntryLe.refl (a : MEntry) : EntryLe a a := Or.inr ⟨rfl, Nat.le_refl _⟩

theorem EntryLe.trans {a b c : MEntry} (h1 : EntryLe a b) (h2 : EntryLe b c) : EntryLe a c := by
  unfold EntryLe at *
  rcases h1 with h1 | ⟨k1, s1⟩
  · rcases h2 with h2 | ⟨k2, _⟩
    · exact Or.inl (ltB_trans h1 h2)
    · exact Or.inl (k2 ▸ h1)
  · rcases h2 with h2 | ⟨k2, s2⟩
    · exact Or.inl (k1 ▸ h2)
    · exact Or.inr ⟨k1.trans k2, by omega⟩

theorem EntryLe.of_lt {a b : MEntry} (h : entryLt a b = true) : EntryLe a b := by
  rw [entryLt_iff] at h
  rcases h with h | ⟨hk, hs⟩
  · exact Or.inl h
  · exact Or.inr ⟨hk, by omega⟩

theorem EntryLe.total (a b : MEntry) : EntryLe a b ∨ EntryLe b a := by
  cases h : entryLt b a with
  | false => exact Or.inl ((not_entryLt_iff a b).mp h)
  | true => exact Or.inr (EntryLe.of_lt h)

theorem entryLt_of_lt_of_le {a b c : MEntry} (h1 : entryLt a b = true) (h2 : EntryLe b c) : entryLt a c = true := by
  rw [entryLt_iff] at *
  unfold EntryLe at h2
  rcases h1 with h1 | ⟨k1, s1⟩
  · rcases h2 with h2 | ⟨k2, _⟩
    · exact Or.inl (ltB_trans h1 h2)
    · exact Or.inl (k2 ▸ h1)
  · rcases h2 with h2 | ⟨k2, s2⟩
    · exact Or.inl (k1 ▸ h2)
    · exact Or.inr ⟨k1.trans k2, by omega⟩

/-- the level-0 list is sorted: key ascending, newer versions (greater sequence number) first -/
def Sorted (L : List MEntry) : Prop := L.Pairwise EntryLe

/-! ### insertion keeps the list sorted and adds exactly the new entry -/

theorem mem_insertSorted {e x : MEntry} : ∀ {L : List MEntry}, x ∈ insertSorted e L ↔ x = e ∨ x ∈ L := by
  intro L
  induction L with
  | nil => simp [insertSorted]
  | cons y ys ih =>
    unfold insertSorted
    split
    · simp only [List.mem_cons, ih]
      constructor
      · rintro (h | h | h)
        · exact Or.inr (Or.inl h)
        · exact Or.inl h
        · exact Or.inr (Or.inr h)
      · rintro (h | h | h)
        · exact Or.inr (Or.inl h)
        · exact Or.inl h
        · exact Or.inr (Or.inr h)
    · simp [List.mem_cons]

theorem insertSorted_perm (e : MEntry) : ∀ (L : List MEntry), (insertSorted e L).Perm (e :: L) := by
  intro L
  induction L with
  | nil => exact List.Perm.refl _
  | cons y ys ih =>
    unfold insertSorted
    split
    · exact (List.Perm.cons y ih).trans (List.Perm.swap e y ys)
    · exact List.Perm.refl _

theorem insertSorted_sorted (e : MEntry) : ∀ (L : List MEntry), Sorted L → Sorted (insertSorted e L) := by
  intro L
  induction L with
  | nil => intro _; simp [insertSorted, Sorted]
  | cons y ys ih =>
    intro h
    unfold Sorted at h
    rw [List.pairwise_cons] at h
    unfold insertSorted
    split
    · rename_i hlt
      unfold Sorted
      rw [List.pairwise_cons]
      refine ⟨?_, ih h.2⟩
      intro x hx
      rcases mem_insertSorted.mp hx with rfl | hx
      · exact EntryLe.of_lt hlt
      · exact h.1 x hx
    · rename_i hlt
      have hle : EntryLe e y := (not_entryLt_iff e y).mp (by simpa using hlt)
      unfold Sorted
      rw [List.pairwise_cons, List.pairwise_cons]
      refine ⟨?_, h.1, h.2⟩
      intro x hx
      rcases List.mem_cons.mp hx with rfl | hx
      · exact hle
      · exact hle.trans (h.1 x hx)

theorem level0_sorted_aux : ∀ (ops L : List MEntry), Sorted L → Sorted (ops.foldl (fun acc e => insertSorted e acc) L) := by
  intro ops
  induction ops with
  | nil => intro L h; exact h
  | cons e es ih => intro L h; exact ih _ (insertSorted_sorted e L h)

theorem level0_sorted (ops : List MEntry) : Sorted (level0 ops) :=
  level0_sorted_aux ops [] List.Pairwise.nil

theorem level0_perm_aux : ∀ (ops L : List MEntry),
    (ops.foldl (fun acc e => insertSorted e acc) L).Perm (ops ++ L) := by
  intro ops
  induction ops with
  | nil => intro L; exact List.Perm.refl _
  | cons e es ih =>
    intro L
    refine (ih (insertSorted e L)).trans ?_
    refine ((List.Perm.append_left es (insertSorted_perm e L))).trans ?_
    simp

theorem level0_perm (ops : List MEntry) : (level0 ops).Perm ops := by
  simpa [level0] using level0_perm_aux ops []

/-! ### ties: among entries with the same key and sequence number the LATEST insert comes first -/

theorem filter_tie_insertSorted (p : MEntry → Bool) (e : MEntry)
    (hp : ∀ x, p x = true → p e = true → entryLt x e = false) : ∀ (L : List MEntry),
    (insertSorted e L).filter p = if p e then e :: L.filter p else L.filter p := by
  intro L
  induction L with
  | nil => by_cases h : p e = true <;> simp [insertSorted, h]
  | cons y ys ih =>
    unfold insertSorted
    split
    · rename_i hlt
      rw [List.filter_cons, ih]
      by_cases hpe : p e = true
      · have : p y = false := by
          cases hy : p y with
          | false => rfl
          | true => have := hp y hy hpe; rw [hlt] at this; contradiction
        simp [hpe, this]
      · simp [hpe, List.filter_cons]
    · by_cases hpe : p e = true <;> simp [hpe, List.filter_cons]

/-! ### what `findIn` returns -/

/-- the specification of a lookup over the insertion history: scanning the inserts in order, an entry of the key
    replaces the best so far iff its sequence number is at least as great (so the LATEST among equals wins). -/
def specStep (k : Bytes) (best : Option MEntry) (e : MEntry) : Option MEntry :=
  if e.key = k then
    match best with
    | none => some e
    | some b => if e.seq ≥ b.seq then some e else some b
  else best

def specFind (ops : List MEntry) (k : Bytes) : Option MEntry := ops.foldl (specStep k) none

theorem sorted_filter_seqs {L : List MEntry} (h : Sorted L) (k : Bytes) :
    ((L.filter (fun e => e.key == k)).map (·.seq)).Pairwise (· ≥ ·) := by
  rw [List.pairwise_map]
  have hsub : (L.filter (fun e => e.key == k)).Pairwise EntryLe := List.Pairwise.sublist List.filter_sublist h
  refine List.Pairwise.imp_of_mem ?_ hsub
  intro a b ha hb hab
  have hka : a.key = k := by simpa using (List.mem_filter.mp ha).2
  have hkb : b.key = k := by simpa using (List.mem_filter.mp hb).2
  rcases hab with hab | ⟨_, hs⟩
  · rw [hka, hkb, ltB_irrefl] at hab; contradiction
  · exact hs

theorem findIn_sorted {L : List MEntry} (h : Sorted L) (k : Bytes) :
    findIn L k = (L.filter (fun e => e.key == k)).head? :=
  Kevo.Proofs.Engine.findIn_eq_head L k (sorted_filter_seqs h k)

theorem filter_other_insertSorted (e : MEntry) (k : Bytes) (hk : e.key ≠ k) (L : List MEntry) :
    (insertSorted e L).filter (fun x => x.key == k) = L.filter (fun x => x.key == k) := by
  have := filter_tie_insertSorted (fun x => x.key == k) e (by
    intro x _ hpe
    exact absurd (by simpa using hpe) hk) L
  rw [this]
  simp [hk]

/-- the head of the versions of `e.key` after inserting `e` into a sorted list -/
theorem head_filter_insertSorted (e : MEntry) : ∀ (L : List MEntry), Sorted L →
    ((insertSorted e L).filter (fun x => x.key == e.key)).head? =
      (match (L.filter (fun x => x.key == e.key)).head? with
       | none => some e
       | some b => if e.seq ≥ b.seq then some e else some b) := by
  intro L
  induction L with
  | nil => intro _; simp [insertSorted]
  | cons y ys ih =>
    intro h
    unfold Sorted at h
    rw [List.pairwise_cons] at h
    unfold insertSorted
    split
    · rename_i hlt
      by_cases hy : y.key = e.key
      · -- y is a version of the key and stays in front: it is strictly newer
        have hseq : y.seq > e.seq := by
          rw [entryLt_iff] at hlt
          rcases hlt with hlt | ⟨_, hs⟩
          · rw [hy, ltB_irrefl] at hlt; contradiction
          · exact hs
        have : ¬ e.seq ≥ y.seq := by omega
        simp [hy, this]
      · have hy' : (y.key == e.key) = false := by simpa using hy
        simp only [List.filter_cons, hy']
        exact ih h.2
    · rename_i hlt
      have hle : EntryLe e y := (not_entryLt_iff e y).mp (by simpa using hlt)
      simp only [List.filter_cons, beq_self_eq_true, if_true, List.head?_cons]
      -- every version of the key in y :: ys is not newer than e
      have hall : ∀ b ∈ y :: ys, b.key = e.key → e.seq ≥ b.seq := by
        intro b hb hbk
        have hyb : EntryLe y b := by
          rcases List.mem_cons.mp hb with rfl | hb
          · exact EntryLe.refl _
          · exact h.1 b hb
        rcases hle.trans hyb with hlt' | ⟨_, hs⟩
        · rw [hbk, ltB_irrefl] at hlt'; contradiction
        · exact hs
      cases hh : (if (y.key == e.key) = true then y :: ys.filter (fun x => x.key == e.key) else ys.filter (fun x => x.key == e.key)).head? with
      | none => rfl
      | some b =>
        have hb : b ∈ (y :: ys).filter (fun x => x.key == e.key) := by
          rw [List.filter_cons]
          exact List.mem_of_mem_head? hh
        have := hall b (List.mem_filter.mp hb).1 (by simpa using (List.mem_filter.mp hb).2)
        simp [this]

theorem findIn_fold_aux (k : Bytes) : ∀ (ops L : List MEntry), Sorted L →
    findIn (ops.foldl (fun acc e => insertSorted e acc) L) k = ops.foldl (specStep k) (findIn L k) := by
  intro ops
  induction ops with
  | nil => intro L _; rfl
  | cons e es ih =>
    intro L h
    simp only [List.foldl_cons]
    rw [ih _ (insertSorted_sorted e L h)]
    congr 1
    rw [findIn_sorted (insertSorted_sorted e L h), findIn_sorted h]
    unfold specStep
    by_cases hk : e.key = k
    · subst hk
      simp only [if_true]
      exact head_filter_insertSorted e L h
    · simp only [hk, if_false]
      rw [filter_other_insertSorted e k hk]

theorem findIn_level0 (ops : List MEntry) (k : Bytes) : findIn (level0 ops) k = specFind ops k := by
  have := findIn_fold_aux k ops [] List.Pairwise.nil
  simpa [level0, specFind, findIn] using this

/-- what `specFind` means: an entry of the key with the greatest sequence number, none iff the key was never written -/
theorem specFind_aux (k : Bytes) : ∀ (ops : List MEntry) (best : Option MEntry) (pre : List MEntry),
    (match best with
     | none => ∀ x ∈ pre, x.key ≠ k
     | some b => b ∈ pre ∧ b.key = k ∧ ∀ x ∈ pre, x.key = k → x.seq ≤ b.seq) →
    (match ops.foldl (specStep k) best with
     | none => ∀ x ∈ pre ++ ops, x.key ≠ k
     | some b => b ∈ pre ++ ops ∧ b.key = k ∧ ∀ x ∈ pre ++ ops, x.key = k → x.seq ≤ b.seq) := by
  intro ops
  induction ops with
  | nil => intro best pre h; simpa using h
  | cons e es ih =>
    intro best pre h
    have := ih (specStep k best e) (pre ++ [e]) (by
      unfold specStep
      by_cases hk : e.key = k
      · simp only [hk, if_true]
        cases best with
        | none =>
          simp only at h ⊢
          refine ⟨by simp, hk, ?_⟩
          intro x hx hxk
          rcases List.mem_append.mp hx with hx | hx
          · exact absurd hxk (h x hx)
          · simp only [List.mem_singleton] at hx; subst hx; exact Nat.le_refl _
        | some b =>
          simp only at h ⊢
          obtain ⟨hb, hbk, hmax⟩ := h
          by_cases hs : e.seq ≥ b.seq
          · simp only [hs, if_true]
            refine ⟨by simp, hk, ?_⟩
            intro x hx hxk
            rcases List.mem_append.mp hx with hx | hx
            · have := hmax x hx hxk; omega
            · simp only [List.mem_singleton] at hx; subst hx; exact Nat.le_refl _
          · simp only [hs, if_false]
            refine ⟨by simp [hb], hbk, ?_⟩
            intro x hx hxk
            rcases List.mem_append.mp hx with hx | hx
            · exact hmax x hx hxk
            · simp only [List.mem_singleton] at hx; subst hx; omega
      · simp only [hk, if_false]
        cases best with
        | none =>
          simp only at h ⊢
          intro x hx
          rcases List.mem_append.mp hx with hx | hx
          · exact h x hx
          · simp only [List.mem_singleton] at hx; subst hx; exact hk
        | some b =>
          simp only at h ⊢
          obtain ⟨hb, hbk, hmax⟩ := h
          refine ⟨by simp [hb], hbk, ?_⟩
          intro x hx hxk
          rcases List.mem_append.mp hx with hx | hx
          · exact hmax x hx hxk
          · simp only [List.mem_singleton] at hx; subst hx; exact absurd hxk hk)
    simpa [List.append_assoc] using this

theorem specFind_spec (ops : List MEntry) (k : Bytes) :
    match specFind ops k with
    | none => ∀ x ∈ ops, x.key ≠ k
    | some b => b ∈ ops ∧ b.key = k ∧ ∀ x ∈ ops, x.key = k → x.seq ≤ b.seq := by
  have := specFind_aux k ops none [] (by simp)
  simpa [specFind] using this

/-- the latest among the entries with the greatest sequence number wins -/
theorem specFind_latest (k : Bytes) (pre post : List MEntry) (e : MEntry) (hk : e.key = k)
    (hpre : ∀ x ∈ pre, x.key = k → x.seq ≤ e.seq) (hpost : ∀ x ∈ post, x.key = k → x.seq < e.seq) :
    specFind (pre ++ e :: post) k = some e := by
  unfold specFind
  rw [List.foldl_append, List.foldl_cons]
  have h1 : specStep k (pre.foldl (specStep k) none) e = some e := by
    have := specFind_aux k pre none [] (by simp)
    simp only [List.nil_append] at this
    generalize pre.foldl (specStep k) none = best at this
    unfold specStep
    simp only [hk, if_true]
    cases best with
    | none => rfl
    | some b =>
      simp only at this
      have := hpre b this.1 this.2.1
      simp [this]
  rw [h1]
  clear h1 hpre
  induction post with
  | nil => rfl
  | cons y ys ih =>
    rw [List.foldl_cons]
    have : specStep k (some e) y = some e := by
      unfold specStep
      by_cases hy : y.key = k
      · have := hpost y (by simp) hy
        have h2 : ¬ y.seq ≥ e.seq := by omega
        simp [hy, h2]
      · simp [hy]
    rw [this]
    exact ih (fun x hx => hpost x (by simp [hx]))

/-! ### iterators -/

theorem skipFrom_of_ge (es : List MEntry) (snap i : Nat) (h : es.length ≤ i) : skipFrom es snap i = none := by
  unfold skipFrom
  rw [List.drop_eq_nil_of_le h]
  rfl

theorem skipFrom_lt (es : List MEntry) (snap i : Nat) (h : i < es.length) :
    skipFrom es snap i = if visibleAt snap es[i] then some i else skipFrom es snap (i + 1) := by
  unfold skipFrom
  rw [List.drop_eq_getElem_cons h]
  simp only [skipAux]

theorem skipFrom_some {es : List MEntry} {snap i j : Nat} (h : skipFrom es snap i = some j) :
    ∃ hj : j < es.length, i ≤ j ∧ visibleAt snap es[j] = true ∧ ∀ m, i ≤ m → (hm : m < j) → visibleAt snap (es[m]'(by omega)) = false := by
  generalize hn : es.length - i = n
  induction n generalizing i with
  | zero =>
    rw [skipFrom_of_ge es snap i (by omega)] at h
    contradiction
  | succ n ih =>
    have hi : i < es.length := by omega
    rw [skipFrom_lt es snap i hi] at h
    by_cases hv : visibleAt snap es[i] = true
    · simp only [hv, if_true, Option.some.injEq] at h
      subst h
      exact ⟨hi, Nat.le_refl _, hv, fun m h1 h2 => by omega⟩
    · simp only [hv] at h
      obtain ⟨hj, h1, h2, h3⟩ := ih h (by omega)
      refine ⟨hj, by omega, h2, ?_⟩
      intro m hm1 hm2
      by_cases hmi : m = i
      · subst hmi; simpa using hv
      · exact h3 m (by omega) hm2

theorem skipFrom_none {es : List MEntry} {snap i : Nat} (h : skipFrom es snap i = none) :
    ∀ m, i ≤ m → (hm : m < es.length) → visibleAt snap es[m] = false := by
  generalize hn : es.length - i = n
  induction n generalizing i with
  | zero => intro m h1 h2; omega
  | succ n ih =>
    have hi : i < es.length := by omega
    rw [skipFrom_lt es snap i hi] at h
    by_cases hv : visibleAt snap es[i] = true
    · simp [hv] at h
    · simp only [hv] at h
      intro m hm1 hm2
      by_cases hmi : m = i
      · subst hmi; simpa using hv
      · exact ih h (by omega) m (by omega) hm2

/-- full iteration from index i on yields the visible entries from there on -/
theorem collect_skipFrom (es : List MEntry) (snap : Nat) : ∀ (n i fuel : Nat), es.length - i = n → fuel > n →
    collect es fuel ({ snap := snap, atHead := false, pos := skipFrom es snap i } : Iter) =
      (es.drop i).filter (visibleAt snap) := by
  intro n
  induction n with
  | zero =>
    intro i fuel hn hf
    have hle : es.length ≤ i := by omega
    rw [skipFrom_of_ge es snap i hle, List.drop_eq_nil_of_le hle]
    cases fuel with
    | zero => rfl
    | succ f => simp [collect, Iter.valid, Iter.cur]
  | succ n ih =>
    intro i fuel hn hf
    have hi : i < es.length := by omega
    rw [skipFrom_lt es snap i hi, List.drop_eq_getElem_cons hi, List.filter_cons]
    by_cases hv : visibleAt snap es[i] = true
    · simp only [hv, if_true]
      cases fuel with
      | zero => omega
      | succ f =>
        have hget : es[i]? = some es[i] := List.getElem?_eq_getElem hi
        simp only [collect, Iter.valid, Iter.cur, hget, hv, if_true, Iter.next, Bool.false_eq_true, if_false]
        rw [ih (i + 1) f (by omega) (by omega)]
    · simp only [hv]
      exact ih (i + 1) fuel (by omega) (by omega)

theorem visible_eq_filter (m : MemTable) : m.visible = m.entries.filter (visibleAt (snapOf m)) := by
  unfold MemTable.visible snapOf visibleAt
  by_cases hi : m.immutable = true
  · simp only [hi, Bool.true_or, if_true, beq_self_eq_true]
    exact (List.filter_eq_self.mpr (by simp)).symm
  · by_cases h0 : m.nextSeq = 0
    · simp only [hi, h0, beq_self_eq_true, Bool.or_true, if_true, Bool.false_eq_true, if_false, Bool.true_or]
      exact (List.filter_eq_self.mpr (by simp)).symm
    · have : (m.nextSeq == 0) = false := by simpa using h0
      simp [hi, this]

theorem iterAll_eq (m : MemTable) : iterAll m = m.visible := by
  rw [visible_eq_filter]
  unfold iterAll Iter.first
  have := collect_skipFrom m.entries (snapOf m) m.entries.length 0 (m.entries.length + 1) (by omega) (by omega)
  simpa using this


/-! ### Seek and the adapter's SeekToLast -/

theorem takeWhile_length_spec (p : MEntry → Bool) : ∀ (L : List MEntry),
    (∀ m, (h : m < (L.takeWhile p).length) → (hm : m < L.length) → p L[m] = true) ∧
    (∀ h : (L.takeWhile p).length < L.length, p L[(L.takeWhile p).length] = false) := by
  intro L
  induction L with
  | nil => simp
  | cons x xs ih =>
    by_cases hx : p x = true
    · simp only [List.takeWhile_cons, hx, if_true, List.length_cons]
      constructor
      · intro m h hm
        cases m with
        | zero => simpa using hx
        | succ m => simpa using ih.1 m (by omega) (by simpa using hm)
      · intro h
        simpa using ih.2 (by simpa using h)
    · simp only [List.takeWhile_cons, hx]
      constructor
      · intro m h; simp at h
      · intro _; simpa using hx

theorem key_ge_of_le {a b : MEntry} {t : Bytes} (h : EntryLe a b) (ha : ltB a.key t = false) : ltB b.key t = false := by
  cases hb : ltB b.key t with
  | false => rfl
  | true =>
    rcases h with h | ⟨hk, _⟩
    · have := ltB_trans h hb; rw [ha] at this; contradiction
    · rw [hk, hb] at ha; contradiction

/-- Seek on a sorted level-0 list: the first visible entry whose key is not below the target -/
theorem seek_pos_spec (es : List MEntry) (hs : Sorted es) (snap : Nat) (t : Bytes) :
    match skipFrom es snap (seekIdx es t) with
    | some j => ∃ hj : j < es.length, visibleAt snap es[j] = true ∧ ltB es[j].key t = false ∧
        ∀ m, (hm : m < j) → visibleAt snap (es[m]'(by omega)) = true → ltB (es[m]'(by omega)).key t = true
    | none => ∀ m, (hm : m < es.length) → visibleAt snap es[m] = true → ltB es[m].key t = true := by
  have htw := takeWhile_length_spec (fun e => ltB e.key t) es
  have hge : ∀ m, seekIdx es t ≤ m → (hm : m < es.length) → ltB es[m].key t = false := by
    intro m h1 hm
    have hi : seekIdx es t < es.length := by omega
    have h0 := htw.2 hi
    by_cases heq : m = seekIdx es t
    · subst heq; exact h0
    · have := (List.pairwise_iff_getElem.mp hs) (seekIdx es t) m hi hm (by omega)
      exact key_ge_of_le this h0
  cases h : skipFrom es snap (seekIdx es t) with
  | some j =>
    obtain ⟨hj, h1, h2, h3⟩ := skipFrom_some h
    refine ⟨hj, h2, hge j h1 hj, ?_⟩
    intro m hm hv
    by_cases hmi : m < seekIdx es t
    · exact htw.1 m hmi (by omega)
    · have := h3 m (by omega) hm
      rw [this] at hv; contradiction
  | none =>
    intro m hm hv
    by_cases hmi : m < seekIdx es t
    · exact htw.1 m hmi hm
    · have := skipFrom_none h m (by omega) hm
      rw [this] at hv; contradiction

theorem scanLast_eq_collect (es : List MEntry) : ∀ (fuel : Nat) (it : Iter) (last : Option Bytes),
    scanLast es fuel it last = (match (collect es fuel it).getLast? with
      | some x => some x.key
      | none => last) := by
  intro fuel
  induction fuel with
  | zero => intro it last; rfl
  | succ f ih =>
    intro it last
    unfold scanLast collect
    cases (if it.valid es then it.cur es else none) with
    | none => rfl
    | some e =>
      simp only
      rw [ih, List.getLast?_cons]
      cases (collect es f (it.next es)).getLast? <;> rfl

/-- IteratorAdapter.SeekToLast on a sorted table: nothing visible → invalid; otherwise the FIRST visible version of the
    key of the last visible entry. -/
theorem last_pos_spec (es : List MEntry) (hs : Sorted es) (snap : Nat) :
    match (es.filter (visibleAt snap)).getLast? with
    | none => (({ snap := snap } : Iter).last es).valid es = false
    | some l => ∃ j, ∃ hj : j < es.length, (({ snap := snap } : Iter).last es).pos = some j ∧
        visibleAt snap es[j] = true ∧ es[j].key = l.key ∧
        ∀ m, (hm : m < j) → visibleAt snap (es[m]'(by omega)) = true → ltB (es[m]'(by omega)).key l.key = true := by
  have hcol := collect_skipFrom es snap es.length 0 (es.length + 1) (by omega) (by omega)
  simp only [List.drop_zero] at hcol
  have hfirst : (({ snap := snap } : Iter).first es) = { snap := snap, atHead := false, pos := skipFrom es snap 0 } := rfl
  cases hl : (es.filter (visibleAt snap)).getLast? with
  | none =>
    have hnil : es.filter (visibleAt snap) = [] := by simpa using hl
    have hnone : skipFrom es snap 0 = none := by
      cases h : skipFrom es snap 0 with
      | none => rfl
      | some j =>
        obtain ⟨hj, _, h2, _⟩ := skipFrom_some h
        have : es[j] ∈ es.filter (visibleAt snap) := List.mem_filter.mpr ⟨List.getElem_mem hj, h2⟩
        rw [hnil] at this; contradiction
    simp [Iter.last, hfirst, hnone, Iter.valid, Iter.cur]
  | some l =>
    have hlmem : l ∈ es.filter (visibleAt snap) := List.mem_of_getLast? hl
    obtain ⟨hles, hlv⟩ := List.mem_filter.mp hlmem
    -- the first visible entry exists
    have hsome : ∃ j0, skipFrom es snap 0 = some j0 := by
      cases h : skipFrom es snap 0 with
      | some j => exact ⟨j, rfl⟩
      | none =>
        obtain ⟨i, hi, rfl⟩ := List.getElem_of_mem hles
        have := skipFrom_none h i (by omega) hi
        rw [this] at hlv; contradiction
    obtain ⟨j0, hj0⟩ := hsome
    obtain ⟨hj0l, _, hj0v, _⟩ := skipFrom_some hj0
    have hvalid : (({ snap := snap, atHead := false, pos := some j0 } : Iter).valid es) = true := by
      simp [Iter.valid, Iter.cur, List.getElem?_eq_getElem hj0l, hj0v]
    have hscan : scanLast es (es.length + 1) { snap := snap, atHead := false, pos := skipFrom es snap 0 } none = some l.key := by
      rw [scanLast_eq_collect, hcol, hl]
    have hlast : (({ snap := snap } : Iter).last es) = { snap := snap, atHead := false, pos := skipFrom es snap (seekIdx es l.key) } := by
      unfold Iter.last
      simp only [hfirst, hscan]
      rw [hj0] at *
      simp [hvalid, Iter.seek]
    have hseek := seek_pos_spec es hs snap l.key
    rw [hlast]
    cases hp : skipFrom es snap (seekIdx es l.key) with
    | none =>
      rw [hp] at hseek
      obtain ⟨i, hi, rfl⟩ := List.getElem_of_mem hles
      have := hseek i hi hlv
      rw [ltB_irrefl] at this; contradiction
    | some j =>
      rw [hp] at hseek
      obtain ⟨hj, hv, hge, hbefore⟩ := hseek
      refine ⟨j, hj, rfl, hv, ?_, hbefore⟩
      -- es[j] is visible, hence in the filtered list, hence not after its last element l
      have hjmem : es[j] ∈ es.filter (visibleAt snap) := List.mem_filter.mpr ⟨List.getElem_mem hj, hv⟩
      have hsf : (es.filter (visibleAt snap)).Pairwise EntryLe := List.Pairwise.sublist List.filter_sublist hs
      have hle : EntryLe es[j] l := by
        obtain ⟨init, hinit⟩ : ∃ init, es.filter (visibleAt snap) = init ++ [l] := by
          have := List.getLast?_eq_some_iff.mp hl
          exact this
        rw [hinit] at hjmem hsf
        rcases List.mem_append.mp hjmem with hmem | hmem
        · exact (List.pairwise_append.mp hsf).2.2 _ hmem l (by simp)
        · simp only [List.mem_singleton] at hmem
          rw [hmem]; exact EntryLe.refl _
      rcases hle with hlt | ⟨hk, _⟩
      · rw [hlt] at hge; contradiction
      · exact hk

/-! ### the nextSeqNum rule -/

/-- every stored sequence number is at most nextSeqNum -/
def SeqBound (m : MemTable) : Prop := ∀ e ∈ m.entries, e.seq ≤ m.nextSeq

theorem SeqBound.add {m : MemTable} (h : SeqBound m) (e : MEntry) : SeqBound (m.add e) := by
  unfold MemTable.add
  split
  · exact h
  · intro x hx
    simp only at hx ⊢
    rcases mem_insertSorted.mp hx with rfl | hx
    · split <;> omega
    · have := h x hx
      split <;> omega

theorem SeqBound.foldl : ∀ (ops : List MEntry) (m : MemTable), SeqBound m → SeqBound (ops.foldl MemTable.add m) := by
  intro ops
  induction ops with
  | nil => intro m h; exact h
  | cons e es ih => intro m h; exact ih _ (h.add e)

theorem SeqBound.visible {m : MemTable} (h : SeqBound m) : m.visible = m.entries := by
  unfold MemTable.visible
  split
  · rfl
  · rw [List.filter_eq_self]
    intro e he
    simpa using h e he

/-! ### immutability -/

theorem add_immutable {m : MemTable} (h : m.immutable = true) (e : MEntry) : m.add e = m := by
  unfold MemTable.add
  simp [h]

theorem foldl_add_immutable {m : MemTable} (h : m.immutable = true) : ∀ (ops : List MEntry), ops.foldl MemTable.add m = m := by
  intro ops
  induction ops with
  | nil => rfl
  | cons e es ih => rw [List.foldl_cons, add_immutable h, ih]

/-! ### a mutable table's entries are the level-0 list of its inserts -/

theorem build_entries_aux : ∀ (ops : List MEntry) (m : MemTable), m.immutable = false →
    (ops.foldl MemTable.add m).entries = ops.foldl (fun acc e => insertSorted e acc) m.entries ∧
    (ops.foldl MemTable.add m).immutable = false := by
  intro ops
  induction ops with
  | nil => intro m h; exact ⟨rfl, h⟩
  | cons e es ih =>
    intro m h
    have h1 : (m.add e).immutable = false := by simp [MemTable.add, h]
    have h2 : (m.add e).entries = insertSorted e m.entries := by simp [MemTable.add, h]
    have := ih (m.add e) h1
    simp only [List.foldl_cons]
    rw [h2] at this
    exact this

theorem build_entries (ops : List MEntry) : (build ops).entries = level0 ops :=
  (build_entries_aux ops {} rfl).1

/-! ### pool -/

theorem get_nil_entries (m : MemTable) (k : Bytes) (h : m.entries = []) : m.get k = none := by
  simp [MemTable.get, findIn, h]

theorem pool_get_layers (p : Pool) (k : Bytes) : p.get k = (poolLayers p).findSome? (fun m => m.get k) :=
  Kevo.Proofs.Engine.Pool.get_eq p k

theorem pool_switch_get (p : Pool) (k : Bytes) : (p.switch.1).get k = p.get k := by
  rw [pool_get_layers, pool_get_layers]
  simp only [Pool.switch, poolLayers, List.reverse_append, List.reverse_cons, List.reverse_nil, List.nil_append,
    List.singleton_append, List.findSome?_cons]
  have h1 : ({} : MemTable).get k = none := rfl
  rw [h1]
  rfl

end Kevo.Proofs.MemTable
