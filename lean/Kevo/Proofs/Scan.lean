/-
  Kevo.Proofs.Scan — the iterators of the storage engine, of a transaction and of the service against the
  specification (mergeSpec / serviceSpec). Built on Kevo.Proofs.Merge (cursor ↦ list) and Kevo.Proofs.MergeSpec
  (lists ↦ specification).
-/
import Kevo.Proofs.Merge
namespace Kevo.Proofs.Merge
open Kevo Kevo.Merge

/-! ### generalities -/

theorem length_mergeRun_le : ∀ (n : Nat) (Ls : List (List KV)), (mergeRun n Ls).length ≤ n := by
  intro n
  induction n with
  | zero => intro Ls; simp [mergeRun_zero]
  | succ n ih =>
    intro Ls
    rw [mergeRun_succ]
    cases pickMin (heads Ls) with
    | none => simp
    | some e => simp only [List.length_cons]; have := ih (Ls.map (dropLE e.1)); omega

theorem length_le_total {L : List KV} : ∀ {Ls : List (List KV)}, L ∈ Ls → L.length ≤ total Ls := by
  intro Ls
  induction Ls with
  | nil => intro h; simp at h
  | cons M Ms ih =>
    intro h
    rw [total_cons]
    rcases List.mem_cons.mp h with rfl | h
    · omega
    · have := ih h; omega

theorem length_mergeSpec_le {Ls : List (List KV)} (h : SourcesOK Ls) : (mergeSpec Ls).length ≤ total Ls + 1 := by
  rw [← mergeRun_eq_mergeSpec h (Nat.lt_succ_self _)]
  exact length_mergeRun_le _ _

/-- a shorter collection fuel shows a prefix -/
theorem collect_emits_take {σ : Type} {O : Ops σ} : ∀ (L : List KV) (c : σ) (n : Nat), Emits O c L → collect O n c = L.take n := by
  intro L
  induction L with
  | nil =>
    intro c n h
    have hv : O.valid c = false := h
    cases n with
    | zero => rfl
    | succ n => simp [collect, hv]
  | cons e rest ih =>
    intro c n h
    cases n with
    | zero => rfl
    | succ n =>
      have hkv := emits_kv h
      have h' := emits_cons.mp h
      simp only [collect, h'.1, if_true, hkv, List.take_succ_cons]
      rw [ih _ n h'.2.2.2.2.2]

theorem asc_take {l : List KV} (h : Asc l) (n : Nat) : Asc (l.take n) := h.sublist (List.take_sublist n l)

/-- what a cursor shows at its current position, from what it emits -/
theorem emits_head {σ : Type} {O : Ops σ} {c : σ} {L : List KV} (h : Emits O c L) :
    (if O.valid c then some (O.k c, O.val c) else none) = L.head? := by
  cases L with
  | nil => have hv : O.valid c = false := h; simp [hv]
  | cons e rest => rw [emits_kv h]; simp [(emits_cons.mp h).1]

theorem emits_valid_iff {σ : Type} {O : Ops σ} {c : σ} {L : List KV} (h : Emits O c L) : O.valid c = !L.isEmpty := by
  cases L with
  | nil => have hv : O.valid c = false := h; simp [hv]
  | cons e rest => simp [(emits_cons.mp h).1]

/-! ### the storage iterator: HierarchicalIterator over memtable / sstable adapters -/

theorem emitsAll_first : ∀ (cs : List Src), EmitsAll srcOps (cs.map srcOps.first) (cs.map (·.es)) := by
  intro cs
  induction cs with
  | nil => trivial
  | cons c cs ih => exact ⟨src_first_emits c, ih⟩

theorem emitsAll_seek (t : Bytes) : ∀ (cs : List Src),
    EmitsAll srcOps (cs.map (fun c => (srcOps.seek c t).1)) ((cs.map (·.es)).map (dropLT t)) := by
  intro cs
  induction cs with
  | nil => trivial
  | cons c cs ih => exact ⟨src_seek_emits c t, ih⟩

theorem mkHier_over (srcs : List (List KV)) : (mkHier srcs).srcs.map (·.es) = srcs := by
  simp [mkHier, List.map_map, Function.comp_def]

theorem storage_first_emits (srcs : List (List KV)) (fuel n : Nat) (h : Hier) (hO : h.srcs.map (·.es) = srcs)
    (hf : total srcs ≤ fuel) (hn : total srcs < n) :
    Emits (storageOps fuel) ((storageOps fuel).first h) (mergeRun n srcs) := by
  apply hier_first_emits
  · rw [← hO]; exact emitsAll_first h.srcs
  · exact hn
  · intro L hL; have := length_le_total hL; omega

theorem heads_dropLT (t : Bytes) (Ls : List (List KV)) : ∀ x ∈ heads (Ls.map (dropLT t)), ltB x.1 t = false := by
  intro x hx
  rw [mem_heads] at hx
  obtain ⟨L, hL, hh⟩ := hx
  obtain ⟨L0, _, rfl⟩ := List.mem_map.mp hL
  exact head?_dropWhile _ L0 hh

theorem length_dropLT_le (t : Bytes) (L : List KV) : (dropLT t L).length ≤ L.length :=
  (List.dropWhile_sublist _).length_le

theorem storage_seek_emits (srcs : List (List KV)) (fuel n : Nat) (h : Hier) (hO : h.srcs.map (·.es) = srcs) (t : Bytes)
    (hf : total srcs ≤ fuel) (hn : total srcs < n) :
    Emits (storageOps fuel) ((storageOps fuel).seek h t).1 (mergeRun n (srcs.map (dropLT t))) ∧
    ((storageOps fuel).seek h t).2 = (storageOps fuel).valid ((storageOps fuel).seek h t).1 := by
  have htot : total (srcs.map (dropLT t)) ≤ total srcs := total_map_le _ (length_dropLT_le t) srcs
  apply hier_seek_emits
  · rw [← hO]; exact emitsAll_seek t h.srcs
  · exact heads_dropLT t srcs
  · omega
  · intro L hL
    have := length_le_total hL; omega

/-- (a) full forward iteration of the storage iterator = the newest-wins merge -/
theorem storage_collect (srcs : List (List KV)) (hok : SourcesOK srcs) (fuel n : Nat) (h : Hier)
    (hO : h.srcs.map (·.es) = srcs) (hf : total srcs ≤ fuel) (hn : total srcs < n) :
    collect (storageOps fuel) n ((storageOps fuel).first h) = mergeSpec srcs := by
  have he := storage_first_emits srcs fuel n h hO hf hn
  rw [collect_emits _ _ n he (length_mergeRun_le _ _), mergeRun_eq_mergeSpec hok hn]

/-- (b) whatever the sources hold, the keys shown by SeekToFirst/Next strictly ascend -/
theorem storage_ascending (srcs : List (List KV)) (fuel n : Nat) (h : Hier) (hO : h.srcs.map (·.es) = srcs)
    (hf : total srcs ≤ fuel) : Asc (collect (storageOps fuel) n ((storageOps fuel).first h)) := by
  have he := storage_first_emits srcs fuel (total srcs + 1) h hO hf (Nat.lt_succ_self _)
  rw [collect_emits_take _ _ n he]
  exact asc_take (mergeRun_asc _ _) n

theorem storage_seek_ascending (srcs : List (List KV)) (fuel n : Nat) (h : Hier) (hO : h.srcs.map (·.es) = srcs) (t : Bytes)
    (hf : total srcs ≤ fuel) : Asc (collect (storageOps fuel) n ((storageOps fuel).seek h t).1) := by
  have he := (storage_seek_emits srcs fuel (total srcs + 1) h hO t hf (Nat.lt_succ_self _)).1
  rw [collect_emits_take _ _ n he]
  exact asc_take (mergeRun_asc _ _) n

/-- (c) Seek(t): the iteration continues with exactly the merged entries whose key is ≥ t -/
theorem storage_seek_collect (srcs : List (List KV)) (hok : SourcesOK srcs) (fuel n : Nat) (h : Hier)
    (hO : h.srcs.map (·.es) = srcs) (t : Bytes) (hf : total srcs ≤ fuel) (hn : total srcs < n) :
    Emits (storageOps fuel) ((storageOps fuel).seek h t).1 ((mergeSpec srcs).filter (fun e => !ltB e.1 t)) := by
  have he := (storage_seek_emits srcs fuel n h hO t hf hn).1
  rwa [mergeRun_seek hok hn t] at he

/-! SeekToLast -/

theorem findIdx_get (p : KV → Bool) : ∀ (es : List KV), (es.findIdx? p).bind (fun i => es[i]?) = es.find? p := by
  intro es
  induction es with
  | nil => rfl
  | cons x xs ih =>
    rw [List.findIdx?_cons, List.find?_cons]
    by_cases hp : p x = true
    · simp [hp]
    · have hp' : p x = false := by simpa using hp
      simp only [hp', Bool.false_eq_true, if_false]
      rw [← ih]
      cases xs.findIdx? p <;> simp

theorem src_last_cur (s : Src) (hk : s.kind = .mem) : (srcOps.last s).cur = lastOf s.es := by
  show (Src.last s).cur = lastOf s.es
  unfold Src.last lastOf
  rw [hk]
  cases hl : s.es.getLast? with
  | none => simp [Src.cur]
  | some l =>
    simp only [Option.bind_some, Src.cur, Src.seek]
    exact findIdx_get _ _

theorem cands_cur : ∀ (cs : List Src), cands srcOps (fun _ => true) cs = cs.filterMap Src.cur := by
  intro cs
  induction cs with
  | nil => rfl
  | cons c cs ih =>
    simp only [cands, List.filterMap_cons] at ih ⊢
    rw [ih]
    cases hc : c.cur with
    | none => simp [srcOps, Src.valid, hc]
    | some e => simp [srcOps, Src.valid, Ops.k, hc]

theorem filterMap_congr_mem {α β : Type} (f g : α → Option β) : ∀ (l : List α), (∀ x ∈ l, f x = g x) → l.filterMap f = l.filterMap g := by
  intro l
  induction l with
  | nil => intro _; rfl
  | cons a l ih =>
    intro h
    rw [List.filterMap_cons, List.filterMap_cons, h a (by simp), ih (fun x hx => h x (by simp [hx]))]

/-- (c) SeekToLast lands on the greatest merged key with its newest value -/
theorem storage_last (srcs : List (List KV)) (hok : SourcesOK srcs) (fuel : Nat) (h : Hier)
    (hO : h.srcs.map (·.es) = srcs) (hk : ∀ s ∈ h.srcs, s.kind = .mem) :
    let h' := (storageOps fuel).last h
    (if h'.valid then some (h'.key, h'.val) else none) = (mergeSpec srcs).getLast? := by
  have hc : cands srcOps (fun _ => true) (h.srcs.map srcOps.last) = srcs.filterMap lastOf := by
    rw [cands_cur, ← hO, List.filterMap_map, List.filterMap_map]
    apply filterMap_congr_mem
    intro s hs
    exact src_last_cur s (hk s hs)
  rw [← pickMax_lastOf hok, ← hc]
  simp only [storageOps, hierOps]
  cases pickMax (cands srcOps (fun _ => true) (h.srcs.map srcOps.last)) with
  | none => simp
  | some e => simp

/-! ### the bounded iterator over the storage iterator -/

def bOps (lo hi : Option Bytes) (fuel : Nat) : Ops Hier := boundedOps (storageOps fuel) lo hi fuel

/-- (d) what the range iterator shows after SeekToFirst -/
theorem bounded_first_emits (srcs : List (List KV)) (hok : SourcesOK srcs) (lo hi : Option Bytes) (fuel n : Nat) (h : Hier)
    (hO : h.srcs.map (·.es) = srcs) (hf : total srcs ≤ fuel) (hn : total srcs < n) :
    Emits (bOps lo hi fuel) ((bOps lo hi fuel).first h) ((mergeSpec srcs).filter (fun e => inRange lo hi e.1)) := by
  cases lo with
  | none =>
    have he := storage_first_emits srcs fuel n h hO hf hn
    rw [mergeRun_eq_mergeSpec hok hn] at he
    have := bounded_emits (storageOps fuel) none hi fuel _ _ he
    rwa [takeWhile_inRange_none (mergeSpec_asc srcs) hi] at this
  | some l =>
    have he := storage_seek_collect srcs hok fuel n h hO l hf hn
    have := bounded_emits (storageOps fuel) (some l) hi fuel _ _ he
    rwa [takeWhile_inRange_some (mergeSpec_asc srcs) l hi] at this

theorem takeWhile_congr_mem {α : Type} (p q : α → Bool) : ∀ (l : List α), (∀ x ∈ l, p x = q x) → l.takeWhile p = l.takeWhile q := by
  intro l
  induction l with
  | nil => intro _; rfl
  | cons a l ih =>
    intro h
    rw [List.takeWhile_cons, List.takeWhile_cons, h a (by simp), ih (fun x hx => h x (by simp [hx]))]

/-- the target Bounded.Seek really seeks: max(t, start) -/
def clampLo (lo : Option Bytes) (t : Bytes) : Bytes :=
  match lo with
  | some l => if ltB t l then l else t
  | none => t

/-- Bounded.Seek refuses a target at or beyond the end bound -/
def refuses (hi : Option Bytes) (t : Bytes) : Bool :=
  match hi with
  | some e => !ltB t e
  | none => false

theorem bounded_seek_eq {σ : Type} (O : Ops σ) (lo hi : Option Bytes) (fuel : Nat) (c : σ) (t : Bytes) :
    (boundedOps O lo hi fuel).seek c t =
      if refuses hi (clampLo lo t) then (c, false)
      else if (O.seek c (clampLo lo t)).2 then ((O.seek c (clampLo lo t)).1, bcheck O lo hi (O.seek c (clampLo lo t)).1)
      else ((O.seek c (clampLo lo t)).1, false) := by
  cases lo <;> cases hi <;> rfl

theorem inRange_clamp (lo hi : Option Bytes) (t k : Bytes) :
    inRange (some (clampLo lo t)) hi k = (inRange lo hi k && !ltB k t) := by
  cases lo with
  | none => simp only [clampLo, inRange]; cases ltB k t <;> cases hi <;> simp
  | some l =>
    simp only [clampLo, inRange]
    by_cases htl : ltB t l = true
    · simp only [htl, if_true]
      cases hkl : ltB k l with
      | true => simp
      | false =>
        have : ltB k t = false := by
          cases hkt : ltB k t with
          | false => rfl
          | true => rw [ltB_trans hkt htl] at hkl; contradiction
        simp [this]
    · have htl' : ltB t l = false := by simpa using htl
      simp only [htl', Bool.false_eq_true, if_false]
      cases hkt : ltB k t with
      | true => simp
      | false =>
        have : ltB k l = false := leB_trans htl' hkt
        simp [this]

/-- (d) Seek(t) of the range iterator: true iff a merged key ≥ t lies in the range; the iteration then continues with
    exactly those entries (a refused Seek returns false and says nothing about the position) -/
theorem bounded_seek (srcs : List (List KV)) (hok : SourcesOK srcs) (lo hi : Option Bytes) (fuel n : Nat) (h : Hier)
    (hO : h.srcs.map (·.es) = srcs) (t : Bytes) (hf : total srcs ≤ fuel) (hn : total srcs < n) :
    let r := (bOps lo hi fuel).seek h t
    let want := (mergeSpec srcs).filter (fun e => inRange lo hi e.1 && !ltB e.1 t)
    r.2 = !want.isEmpty ∧ (r.2 = true → Emits (bOps lo hi fuel) r.1 want) := by
  intro r want
  have hwant : want = (mergeSpec srcs).filter (fun e => inRange (some (clampLo lo t)) hi e.1) := by
    show (mergeSpec srcs).filter _ = _
    congr 1; funext e; rw [inRange_clamp]
  have hseek : r = _ := bounded_seek_eq (storageOps fuel) lo hi fuel h t
  by_cases href : refuses hi (clampLo lo t) = true
  · -- refused: nothing in range is ≥ t
    have hr : r = (h, false) := by rw [hseek, if_pos href]
    have hw : want = [] := by
      rw [hwant, List.filter_eq_nil_iff]
      intro e _
      cases hi with
      | none => simp [refuses] at href
      | some hb =>
        simp only [refuses, Bool.not_eq_true'] at href
        simp only [inRange, Bool.and_eq_true, Bool.not_eq_true', not_and, Bool.not_eq_true]
        intro hge
        cases hlt : ltB e.1 hb with
        | false => rfl
        | true => rw [ltB_of_le_of_lt hge hlt] at href; contradiction
    rw [hr, hw]; simp
  · have hse := storage_seek_collect srcs hok fuel n h hO (clampLo lo t) hf hn
    have hret := (storage_seek_emits srcs fuel n h hO (clampLo lo t) hf hn).2
    have hbe := bounded_emits (storageOps fuel) lo hi fuel _ _ hse
    have htw : ((mergeSpec srcs).filter (fun e => !ltB e.1 (clampLo lo t))).takeWhile (fun e => inRange lo hi e.1) = want := by
      rw [hwant, ← takeWhile_inRange_some (mergeSpec_asc srcs) (clampLo lo t) hi]
      apply takeWhile_congr_mem
      intro x hx
      have hx' : ltB x.1 (clampLo lo t) = false := by simpa using (List.mem_filter.mp hx).2
      -- on keys ≥ max(t, start) the two range tests agree
      cases lo with
      | none =>
        simp only [clampLo] at hx'
        simp only [inRange, clampLo, hx', Bool.not_false, Bool.true_and]
      | some l =>
        have hl : ltB x.1 l = false := by
          simp only [clampLo] at hx'
          by_cases htl : ltB t l = true
          · simpa [htl] using hx'
          · have htl' : ltB t l = false := by simpa using htl
            simp only [htl', Bool.false_eq_true, if_false] at hx'
            exact leB_trans htl' hx'
        simp only [inRange, hx', hl, Bool.not_false, Bool.true_and]
    rw [htw] at hbe
    have hr1 : r.1 = ((storageOps fuel).seek h (clampLo lo t)).1 := by
      rw [hseek, if_neg href]; split <;> rfl
    have hr2 : r.2 = (bOps lo hi fuel).valid r.1 := by
      rw [hr1, hseek, if_neg href, hret]
      show _ = (boundedOps (storageOps fuel) lo hi fuel).valid _
      cases hv : (storageOps fuel).valid ((storageOps fuel).seek h (clampLo lo t)).1 <;> simp [boundedOps, bcheck, hv]
    refine ⟨?_, fun _ => by rw [hr1]; exact hbe⟩
    rw [hr2, hr1]
    exact emits_valid_iff hbe

/-- (d) SeekToLast of the range iterator WITHOUT an end bound: the greatest merged key if it is ≥ start, else invalid -/
theorem bounded_last_noend (srcs : List (List KV)) (hok : SourcesOK srcs) (lo : Option Bytes) (fuel : Nat) (h : Hier)
    (hO : h.srcs.map (·.es) = srcs) (hk : ∀ s ∈ h.srcs, s.kind = .mem) :
    let B := bOps lo none fuel
    let h' := B.last h
    (if B.valid h' then some (B.k h', B.val h') else none) = ((mergeSpec srcs).filter (fun e => inRange lo none e.1)).getLast? := by
  intro B h'
  have hl := storage_last srcs hok fuel h hO hk
  have hh : h' = (storageOps fuel).last h := rfl
  simp only at hl
  rw [← hh] at hl
  have hasc := mergeSpec_asc srcs
  generalize mergeSpec srcs = M at hl hasc
  -- the last element of an ascending list dominates the others
  have hdom : ∀ e, M.getLast? = some e → ∀ x ∈ M, ltB e.1 x.1 = false := by
    intro e he x hx
    obtain ⟨ys, rfl⟩ : ∃ ys, M = ys ++ [e] := by
      rcases List.getLast?_eq_some_iff.mp he with ⟨ys, hys⟩; exact ⟨ys, hys⟩
    rcases List.mem_append.mp hx with hx | hx
    · have := (List.pairwise_append.mp hasc).2.2 x hx e (by simp)
      exact ltB_asymm this
    · simp only [List.mem_singleton] at hx; subst hx; exact ltB_irrefl _
  have hBv : B.valid h' = (h'.valid && inRange lo none h'.key) := by
    show (boundedOps (storageOps fuel) lo none fuel).valid h' = _
    simp only [boundedOps, bcheck, storageOps, hierOps, Ops.k]
    cases hv : h'.valid <;> simp
  cases hv : h'.valid with
  | false =>
    rw [hv] at hl
    simp only [Bool.false_eq_true, if_false] at hl
    have hM : M = [] := by
      cases M with
      | nil => rfl
      | cons a l =>
        have : (a :: l).getLast? ≠ none := by simp
        exact absurd hl.symm this
    rw [hBv, hv, hM]; simp
  | true =>
    rw [hv] at hl
    simp only [if_true] at hl
    have hkv : (B.k h', B.val h') = (h'.key, h'.val) ∨ B.valid h' = false := by
      by_cases hb : B.valid h' = true
      · left
        have : (boundedOps (storageOps fuel) lo none fuel).val h' = h'.val := by
          have hb' : (boundedOps (storageOps fuel) lo none fuel).valid h' = true := hb
          simp only [boundedOps] at hb' ⊢
          rw [if_pos hb']
          simp [storageOps, hierOps, hv]
        have hk' : (boundedOps (storageOps fuel) lo none fuel).k h' = h'.key := by
          have hb' : (boundedOps (storageOps fuel) lo none fuel).valid h' = true := hb
          simp only [Ops.k, boundedOps] at hb' ⊢
          rw [if_pos hb']
          simp [storageOps, hierOps, hv]
        show ((boundedOps (storageOps fuel) lo none fuel).k h', (boundedOps (storageOps fuel) lo none fuel).val h') = _
        rw [this, hk']
      · right; simpa using hb
    have hmem : (h'.key, h'.val) ∈ M := List.mem_of_getLast? hl.symm
    by_cases hr : inRange lo none h'.key = true
    · have hb : B.valid h' = true := by rw [hBv, hv, hr]; rfl
      rcases hkv with hkv | hkv
      · rw [hb, if_pos rfl, hkv]
        symm
        apply getLast?_of_max (filter_asc hasc _)
        · exact List.mem_filter.mpr ⟨hmem, hr⟩
        · intro x hx
          exact hdom _ hl.symm x (List.mem_filter.mp hx).1
      · rw [hb] at hkv; contradiction
    · have hr' : inRange lo none h'.key = false := by simpa using hr
      have hb : B.valid h' = false := by rw [hBv, hv, hr']; rfl
      rw [hb]
      simp only [Bool.false_eq_true, if_false]
      symm
      rw [List.getLast?_eq_none_iff, List.filter_eq_nil_iff]
      intro x hx
      have hle := hdom _ hl.symm x hx
      cases lo with
      | none => simp [inRange] at hr'
      | some l =>
        have hr2 : ltB h'.key l = true := by simpa [inRange] using hr'
        have := ltB_of_le_of_lt hle hr2
        simp [inRange, this]

/-! ### filters over the storage iterator, and the service -/

theorem storage_filtered (srcs : List (List KV)) (hok : SourcesOK srcs) (f : Bytes → Bool) (fuel n : Nat) (h : Hier)
    (hO : h.srcs.map (·.es) = srcs) (hf : total srcs + 1 ≤ fuel) (hn : total srcs < n) :
    Emits (filteredOps (storageOps fuel) f fuel) ((filteredOps (storageOps fuel) f fuel).first h)
      ((mergeSpec srcs).filter (fun e => f e.1)) := by
  have he := storage_first_emits srcs fuel n h hO (by omega) hn
  rw [mergeRun_eq_mergeSpec hok hn] at he
  apply filtered_first_emits _ _ _ _ _ he
  have := length_mergeSpec_le hok; omega

theorem hasSuffix_nil (k : Bytes) : hasSuffix k [] = true := by simp [hasSuffix, List.isSuffixOf]
theorem hasPrefix_nil (k : Bytes) : hasPrefix k [] = true := by simp [hasPrefix]

theorem optB_nonempty {b : Bytes} (h : b.isEmpty = false) : optB b = some b := by simp [optB, h]
theorem optB_empty {b : Bytes} (h : b.isEmpty = true) : optB b = none := by simp [optB, h]

/-- the view a service scan selects, given the merged list M -/
def serviceView (o : ScanOpts) (M : List KV) : List KV :=
  M.filter (fun e => (if !o.pre.isEmpty || !o.suf.isEmpty then fun k => hasPrefix k o.pre && hasSuffix k o.suf
                      else inRange (optB o.start) (optB o.stop)) e.1)

theorem serviceSpec_eq (o : ScanOpts) (srcs : List (List KV)) :
    serviceSpec o srcs = if o.limit > 0 then (live (serviceView o (mergeSpec srcs))).take o.limit
                         else live (serviceView o (mergeSpec srcs)) := rfl

/-- the iterator the service builds, positioned by SeekToFirst, shows the selected view — for any base iterator
    that shows M and any range iterator that shows the range part of M -/
theorem serviceWrap_emits {σ : Type} (o : ScanOpts) (base range : Ops σ) (fuel : Nat) (c : σ) (M : List KV)
    (hb : Emits base (base.first c) M)
    (hr : Emits range (range.first c) (M.filter (fun e => inRange (optB o.start) (optB o.stop) e.1)))
    (hlen : M.length ≤ fuel) :
    Emits (serviceWrap o base range fuel) ((serviceWrap o base range fuel).first c) (serviceView o M) := by
  unfold serviceWrap serviceView
  by_cases hp : o.pre.isEmpty = true
  · by_cases hs : o.suf.isEmpty = true
    · simp only [hp, hs, Bool.not_true, Bool.false_and, Bool.or_self, Bool.false_eq_true, if_false]
      by_cases hse : (!o.start.isEmpty || !o.stop.isEmpty) = true
      · simp only [hse, if_true]; exact hr
      · simp only [hse]
        have h1 : o.start.isEmpty = true := by
          cases h : o.start.isEmpty <;> simp [h] at hse ⊢
        have h2 : o.stop.isEmpty = true := by
          cases h : o.stop.isEmpty <;> simp [h] at hse ⊢
        rw [optB_empty h1, optB_empty h2]
        have : M.filter (fun e => inRange none none e.1) = M := by simp [inRange]
        rw [this]; exact hb
    · have hs' : o.suf.isEmpty = false := by simpa using hs
      have hpre : o.pre = [] := by simpa using hp
      simp only [hp, hs', Bool.not_true, Bool.not_false, Bool.false_and, Bool.false_or, Bool.false_eq_true, if_false, if_true]
      have := filtered_first_emits base (fun k => hasSuffix k o.suf) fuel M c hb hlen
      unfold suffixOps
      simpa [hpre, hasPrefix_nil] using this
  · have hp' : o.pre.isEmpty = false := by simpa using hp
    by_cases hs : o.suf.isEmpty = true
    · have hsuf : o.suf = [] := by simpa using hs
      simp only [hp', hs, Bool.not_true, Bool.not_false, Bool.and_false, Bool.true_or, Bool.false_eq_true, if_false, if_true]
      have := filtered_first_emits base (fun k => hasPrefix k o.pre) fuel M c hb hlen
      unfold prefixOps
      simpa [hsuf, hasSuffix_nil] using this
    · have hs' : o.suf.isEmpty = false := by simpa using hs
      simp only [hp', hs', Bool.not_false, Bool.and_self, Bool.or_self, if_true]
      have h1 := filtered_first_emits base (fun k => hasPrefix k o.pre) fuel M c hb hlen
      have h2 := filtered_first_emits (prefixOps base o.pre fuel) (fun k => hasSuffix k o.suf) fuel _ c h1
        (by have := List.length_filter_le (fun x : KV => hasPrefix x.1 o.pre) M; omega)
      unfold suffixOps
      rw [List.filter_filter] at h2
      have hfun : (fun e : KV => (fun k => hasPrefix k o.pre && hasSuffix k o.suf) e.1) =
          (fun a : KV => hasSuffix a.1 o.suf && hasPrefix a.1 o.pre) := by
        funext e; exact Bool.and_comm _ _
      rw [hfun]
      exact h2

theorem runScan_emits {σ : Type} (O : Ops σ) (limit fuel : Nat) (c : σ) (V : List KV) (h : Emits O (O.first c) V)
    (hlen : V.length ≤ fuel) :
    runScan O limit fuel c = if limit > 0 then (live V).take limit else live V := by
  unfold runScan
  rw [consume_emits limit V _ fuel 0 h hlen]
  simp

theorem length_serviceView_le (o : ScanOpts) (M : List KV) : (serviceView o M).length ≤ M.length :=
  List.length_filter_le _ _

/-- (e) Scan of the service, every option combination and limit = the specification -/
theorem service_scan (o : ScanOpts) (srcs : List (List KV)) (hok : SourcesOK srcs) : serviceScan o srcs = serviceSpec o srcs := by
  rw [serviceSpec_eq]
  unfold serviceScan
  have hlen := length_mergeSpec_le hok
  have htl : totalLen srcs = total srcs := rfl
  simp only [htl]
  have hO := mkHier_over srcs
  have hb := storage_first_emits srcs (total srcs + 2) (total srcs + 1) (mkHier srcs) hO (by omega) (by omega)
  rw [mergeRun_eq_mergeSpec hok (Nat.lt_succ_self _)] at hb
  have hr := bounded_first_emits srcs hok (optB o.start) (optB o.stop) (total srcs + 2) (total srcs + 1) (mkHier srcs) hO
    (by omega) (by omega)
  have hw := serviceWrap_emits o (storageOps (total srcs + 2)) (bOps (optB o.start) (optB o.stop) (total srcs + 2))
    (total srcs + 2) (mkHier srcs) (mergeSpec srcs) hb hr (by omega)
  exact runScan_emits _ _ _ _ _ hw (by have := length_serviceView_le o (mergeSpec srcs); omega)

end Kevo.Proofs.Merge
