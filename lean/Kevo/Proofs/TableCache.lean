/-
  Kevo.Proofs.TableCache — the reader's block cache is transparent: for every capacity, every eviction choice and every
  history of lookups, `Reader.Get` through the cache returns what the uncached lookup returns.

  Invariant: every cached `(off, es)` is what fetching the block at `off` yields through ANY index entry that points at
  `off`. It needs the index to name one size per offset (`LocFun`), which holds for every written table (block offsets
  are strictly increasing) and is proved for it below.
-/
import Kevo.Proofs.TableGet
namespace Kevo.Proofs.TableCache
open Kevo Kevo.Block Kevo.Table Kevo.Proofs.TableAux

/-- the index names one size per offset -/
def LocFun (index : List BEntry) : Prop :=
  ∀ ie ∈ index, ∀ ie' ∈ index, ∀ off sz sz', locator ie = some (off, sz) → locator ie' = some (off, sz') → sz = sz'

def CacheOK (hash : Bytes → Nat) (r : Table.Reader) (c : Cache) : Prop :=
  ∀ off es, (off, es) ∈ c → ∀ ie ∈ r.index, ∀ sz, locator ie = some (off, sz) → blockEntries hash r off sz = some es

theorem cacheOK_nil (hash : Bytes → Nat) (r : Table.Reader) : CacheOK hash r [] := by
  intro off es h; cases h

theorem cache_get_mem (c : Cache) (off : Nat) (es : List BEntry) (h : c.get off = some es) : (off, es) ∈ c := by
  unfold Cache.get at h
  cases hf : c.find? (fun x => x.1 = off) with
  | none => rw [hf] at h; cases h
  | some x =>
    rw [hf] at h
    have hm := List.mem_of_find?_eq_some hf
    have hp := List.find?_some hf
    simp only [Option.map_some, Option.some.injEq] at h
    simp only [decide_eq_true_eq] at hp
    have : x = (off, es) := by cases x; simp_all
    rw [← this]; exact hm

theorem cache_put_mem (cap : Nat) (victim : Cache → Nat) (c : Cache) (off : Nat) (es : List BEntry) (x : Nat × List BEntry)
    (h : x ∈ c.put cap victim off es) : x = (off, es) ∨ x ∈ c := by
  unfold Cache.put at h
  simp only [List.mem_cons] at h
  rcases h with h | h
  · exact Or.inl h
  · right
    have h1 := (List.mem_filter.mp h).1
    split at h1
    · exact List.mem_of_mem_eraseIdx h1
    · exact h1

theorem cacheOK_put (hash : Bytes → Nat) (r : Table.Reader) (hlf : LocFun r.index) (cap : Nat) (victim : Cache → Nat) (c : Cache)
    (hc : CacheOK hash r c) (ie : BEntry) (hie : ie ∈ r.index) (off sz : Nat) (hl : locator ie = some (off, sz))
    (es : List BEntry) (hb : blockEntries hash r off sz = some es) : CacheOK hash r (c.put cap victim off es) := by
  intro off' es' hm ie' hie' sz' hl'
  rcases cache_put_mem cap victim c off es _ hm with h | h
  · simp only [Prod.mk.injEq] at h
    rw [h.1] at hl' ⊢
    rw [h.2]
    have := hlf ie hie ie' hie' off sz sz' hl hl'
    rw [← this]; exact hb
  · exact hc off' es' h ie' hie' sz' hl'

theorem getAux_cons' (hash fnv : Bytes → Nat) (r : Table.Reader) (key : Bytes) (ie : BEntry) (rest : List BEntry)
    (off sz : Nat) (hl : locator ie = some (off, sz)) :
    getAux hash fnv r key (ie :: rest) =
      if skipOf fnv r key off then getAux hash fnv r key rest
      else match blockEntries hash r off sz with
        | none => .error
        | some es => match es.find? (fun e => e.key = key) with
          | some e => .found e.val
          | none => getAux hash fnv r key rest := by
  rw [getAux, hl]
  rfl

theorem getAuxC_cons' (hash fnv : Bytes → Nat) (cap : Nat) (victim : Cache → Nat) (r : Table.Reader) (key : Bytes)
    (ie : BEntry) (rest : List BEntry) (c : Cache) (off sz : Nat) (hl : locator ie = some (off, sz)) :
    getAuxC hash fnv cap victim r key (ie :: rest) c =
      if skipOf fnv r key off then getAuxC hash fnv cap victim r key rest c
      else match c.get off with
        | some es => (match es.find? (fun e => e.key = key) with
          | some e => (.found e.val, c)
          | none => getAuxC hash fnv cap victim r key rest c)
        | none => match blockEntries hash r off sz with
          | none => (.error, c)
          | some es =>
            match es.find? (fun e => e.key = key) with
            | some e => (.found e.val, c.put cap victim off es)
            | none => getAuxC hash fnv cap victim r key rest (c.put cap victim off es) := by
  rw [getAuxC, hl]
  rfl

/-- the cached block loop returns what the uncached one returns and keeps the cache sound -/
theorem getAuxC_eq (hash fnv : Bytes → Nat) (cap : Nat) (victim : Cache → Nat) (r : Table.Reader) (hlf : LocFun r.index)
    (key : Bytes) : ∀ (rest : List BEntry), (∀ ie ∈ rest, ie ∈ r.index) → ∀ (c : Cache), CacheOK hash r c →
      (getAuxC hash fnv cap victim r key rest c).1 = getAux hash fnv r key rest ∧
      CacheOK hash r (getAuxC hash fnv cap victim r key rest c).2 := by
  intro rest
  induction rest with
  | nil => intro _ c hc; exact ⟨rfl, hc⟩
  | cons ie rest ih =>
    intro hsub c hc
    have hrest : ∀ ie ∈ rest, ie ∈ r.index := fun x hx => hsub x (List.mem_cons_of_mem _ hx)
    have hie : ie ∈ r.index := hsub ie (List.mem_cons_self ..)
    cases hl : locator ie with
    | none =>
      have e1 : getAuxC hash fnv cap victim r key (ie :: rest) c = getAuxC hash fnv cap victim r key rest c := by
        rw [getAuxC, hl]
      have e2 : getAux hash fnv r key (ie :: rest) = getAux hash fnv r key rest := by rw [getAux, hl]
      rw [e1, e2]; exact ih hrest c hc
    | some os =>
      obtain ⟨off, sz⟩ := os
      rw [getAuxC_cons' hash fnv cap victim r key ie rest c off sz hl, getAux_cons' hash fnv r key ie rest off sz hl]
      cases hs : skipOf fnv r key off with
      | true => simp only [if_true]; exact ih hrest c hc
      | false =>
        simp only [Bool.false_eq_true, if_false]
        cases hg : c.get off with
        | some es =>
          have hb := hc off es (cache_get_mem c off es hg) ie hie sz hl
          simp only [hb]
          cases es.find? (fun e => e.key = key) with
          | some e => exact ⟨rfl, hc⟩
          | none => exact ih hrest c hc
        | none =>
          simp only
          cases hb : blockEntries hash r off sz with
          | none => exact ⟨rfl, hc⟩
          | some es =>
            have hc' := cacheOK_put hash r hlf cap victim c hc ie hie off sz hl es hb
            simp only
            cases es.find? (fun e => e.key = key) with
            | some e => exact ⟨rfl, hc'⟩
            | none => exact ih hrest _ hc'

theorem getC_eq (hash fnv : Bytes → Nat) (cap : Nat) (victim : Cache → Nat) (r : Table.Reader) (hlf : LocFun r.index)
    (key : Bytes) (c : Cache) (hc : CacheOK hash r c) :
    (getC hash fnv cap victim r key c).1 = get hash fnv r key ∧ CacheOK hash r (getC hash fnv cap victim r key c).2 :=
  getAuxC_eq hash fnv cap victim r hlf key _ (fun _ h => List.mem_of_mem_drop h) c hc

/-- every history of lookups: the results are those of the uncached lookups -/
theorem getsC_eq (hash fnv : Bytes → Nat) (cap : Nat) (victim : Cache → Nat) (r : Table.Reader) (hlf : LocFun r.index) :
    ∀ (ks : List Bytes) (c : Cache), CacheOK hash r c →
      (getsC hash fnv cap victim r ks c).1 = ks.map (get hash fnv r) ∧ CacheOK hash r (getsC hash fnv cap victim r ks c).2 := by
  intro ks
  induction ks with
  | nil => intro c hc; exact ⟨rfl, hc⟩
  | cons k ks ih =>
    intro c hc
    have h1 := getC_eq hash fnv cap victim r hlf k c hc
    have h2 := ih _ h1.2
    simp only [getsC, List.map_cons]
    exact ⟨by rw [h1.1, h2.1], h2.2⟩

/-- the cache never holds more than `max cap 1` blocks (each offset once) -/
theorem cache_put_length (cap : Nat) (victim : Cache → Nat) (c : Cache) (off : Nat) (es : List BEntry)
    (hv : victim c < c.length) (h : c.length ≤ max cap 1) : (c.put cap victim off es).length ≤ max cap 1 := by
  unfold Cache.put
  simp only [List.length_cons]
  split
  · rename_i hge
    have h1 : (c.eraseIdx (victim c)).length = c.length - 1 := List.length_eraseIdx_of_lt hv
    have h2 := List.length_filter_le (fun x : Nat × List BEntry => decide (x.1 ≠ off)) (c.eraseIdx (victim c))
    omega
  · rename_i hlt
    have h2 := List.length_filter_le (fun x : Nat × List BEntry => decide (x.1 ≠ off)) c
    omega

/-! ### a written table's index names one size per offset -/

theorem fst_inj_of_pairwise : ∀ (blocks : List LBlock), blocks.Pairwise (fun a b => a.1 < b.1) →
    ∀ x ∈ blocks, ∀ y ∈ blocks, x.1 = y.1 → x = y
  | [], _, x, hx, _, _, _ => by cases hx
  | b :: bs, hpw, x, hx, y, hy, hxy => by
    have ⟨h1, h2⟩ := List.pairwise_cons.mp hpw
    rcases List.mem_cons.mp hx with rfl | hx' <;> rcases List.mem_cons.mp hy with rfl | hy'
    · rfl
    · have := h1 y hy'; omega
    · have := h1 x hx'; omega
    · exact fst_inj_of_pairwise bs h2 x hx' y hy' hxy

theorem locFun_blocks (blocks : List LBlock) (hpw : blocks.Pairwise (fun a b => a.1 < b.1))
    (hb : ∀ b ∈ blocks, b.1 < 2 ^ 64 ∧ b.2.1.length < 2 ^ 32) : LocFun (blocks.map idxEntry) := by
  intro ie hie ie' hie' off sz sz' hl hl'
  obtain ⟨b, hbm, rfl⟩ := List.mem_map.mp hie
  obtain ⟨b', hbm', rfl⟩ := List.mem_map.mp hie'
  rw [locator_idxEntry b (hb b hbm).1 (hb b hbm).2] at hl
  rw [locator_idxEntry b' (hb b' hbm').1 (hb b' hbm').2] at hl'
  simp only [Option.some.injEq, Prod.mk.injEq] at hl hl'
  have hoff : b.1 = b'.1 := by rw [hl.1, hl'.1]
  have := fst_inj_of_pairwise blocks hpw b hbm b' hbm' hoff
  rw [← hl.2, ← hl'.2, this]

/-- on a written table, every history of lookups through the cache finds exactly the written keys -/
theorem table_get_cached_aux (p : Params) (hp : PWF p) (hash fnv : Bytes → Nat) (hh : HOK hash) (ts : Nat)
    (hts : ts < 2 ^ 64) (bloom : Bool) (hfit : BloomFits p bloom) (es : List BEntry) (hne : es ≠ [])
    (hasc : strictAsc es = true) (hwf : ∀ e ∈ es, EWF e)
    (hsz : (Table.encode p hash fnv ts bloom es).length < 2 ^ 32) (r : Table.Reader)
    (hr : openTable p hash (Table.encode p hash fnv ts bloom es) = some r)
    (cap : Nat) (victim : Cache → Nat) (ks : List Bytes) :
    (getsC hash fnv cap victim r ks []).1 = ks.map (fun k => resOf (es.find? (fun e => e.key = k))) := by
  have hget : ∀ k, Table.get hash fnv r k = resOf (es.find? (fun e => e.key = k)) :=
    fun k => table_get_aux p hp hash fnv hh ts hts bloom hfit es hne hasc hwf hsz k r hr
  have hlf : LocFun r.index := by
    have hopen := (table_roundtrip_aux p hp hash fnv hh ts hts bloom hfit es hne hwf hsz).1
    rw [hopen] at hr
    cases hr
    rw [tencode_eq] at hsz
    have hflat : (cutBlocks p es [] 0).flatten = es := by rw [cutBlocks_flatten]; simp
    have hbwf : ∀ b ∈ cutBlocks p es [] 0, ∀ e ∈ b, EWF e := by
      intro b hb e he
      apply hwf
      rw [← hflat]
      exact List.mem_flatten.mpr ⟨b, hb, he⟩
    have hok := readerOf_blockOK p hash fnv ts bloom (cutBlocks p es [] 0) es.length hbwf hsz
    exact locFun_blocks _ (layBlocks_offsets p hash _ 0) (fun b hb => ⟨(hok b hb).1, (hok b hb).2.1⟩)
  rw [(getsC_eq hash fnv cap victim r hlf ks [] (cacheOK_nil hash r)).1]
  exact List.map_congr_left (fun k _ => hget k)

end Kevo.Proofs.TableCache
