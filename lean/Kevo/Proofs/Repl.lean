/-
  Proofs for the replication model (C14: invariants, progress, ranking argument; C15: writer progress, heartbeat).
-/
import Kevo.Model.Repl
namespace Kevo.Proofs.Repl
open Kevo.Repl Kevo.Gen.Repl

theorem seqFrom_append (s : Nat) (a b : List Entry) :
    seqFrom s (a ++ b) ↔ seqFrom s a ∧ seqFrom (s + a.length) b := by
  induction a generalizing s with
  | nil => simp [seqFrom]
  | cons e t ih =>
    simp only [List.cons_append, seqFrom, ih, List.length_cons]
    have : s + 1 + t.length = s + (t.length + 1) := by omega
    rw [this]; exact and_assoc.symm

theorem seqFrom_all_ge (s : Nat) (L : List Entry) (h : seqFrom s L) : ∀ e ∈ L, s ≤ e.seq := by
  induction L generalizing s with
  | nil => intro e he; cases he
  | cons x t ih =>
    intro e he
    rcases List.mem_cons.1 he with rfl | he
    · exact Nat.le_of_eq h.1.symm
    · exact Nat.le_trans (Nat.le_succ s) (ih (s + 1) h.2 e he)

theorem filter_seqFrom (s c : Nat) (L : List Entry) (h : seqFrom s L) :
    L.filter (fun e => decide (c ≤ e.seq)) = L.drop (c - s) := by
  induction L generalizing s with
  | nil => simp
  | cons x t ih =>
    have hx : x.seq = s := h.1
    by_cases hc : c ≤ s
    · have h0 : c - s = 0 := by omega
      rw [h0, List.drop_zero]
      apply List.filter_eq_self.2
      intro e he
      have := seqFrom_all_ge s (x :: t) h e he
      simp; omega
    · have : ¬ c ≤ x.seq := by omega
      rw [List.filter_cons_of_neg (by simpa using this)]
      rw [ih (s + 1) h.2]
      have : c - s = (c - (s + 1)) + 1 := by omega
      rw [this, List.drop_succ_cons]

theorem capCount_le (cap : Nat) : ∀ (l : List Entry) (i total : Nat), capCount cap i total l ≤ i + l.length := by
  intro l
  induction l with
  | nil => intro i total; simp [capCount]
  | cons e es ih =>
    intro i total
    simp only [capCount, List.length_cons]
    split
    · omega
    · have := ih (i + 1) (total + e.size); omega

theorem capCount_ge (cap : Nat) : ∀ (l : List Entry) (i total : Nat), i ≤ capCount cap i total l := by
  intro l
  induction l with
  | nil => intro i total; simp [capCount]
  | cons e es ih =>
    intro i total
    simp only [capCount]
    split
    · omega
    · have := ih (i + 1) (total + e.size); omega

theorem capCount_pos (cap : Nat) (e : Entry) (es : List Entry) : 0 < capCount cap 0 0 (e :: es) := by
  have h : capCount cap 0 0 (e :: es) = capCount cap (0 + 1) (0 + e.size) es := by simp [capCount]
  rw [h]
  exact Nat.lt_of_lt_of_le (by decide) (capCount_ge cap es (0 + 1) _)

/-- the cap never cuts a list whose total size fits it -/
theorem capCount_all (cap : Nat) : ∀ (l : List Entry) (i total : Nat), total + (l.map Entry.size).sum ≤ cap →
    capCount cap i total l = i + l.length := by
  intro l
  induction l with
  | nil => intro i total _; simp [capCount]
  | cons e es ih =>
    intro i total h
    simp only [List.map_cons, List.sum_cons] at h
    simp only [capCount, List.length_cons]
    rw [if_neg (by omega), ih (i + 1) (total + e.size) (by omega)]
    omega

/-- the window the primary cuts its answer from: the entries from position `c` on, at most `n` of them -/
abbrev window (L : List Entry) (c n : Nat) : List Entry := (L.drop (c - 1)).take n

theorem selectFrom_eq (L : List Entry) (c n : Nat) (h : NoSharedSeq L) :
    selectFrom L c n = (window L c n).take (capCount pollBytes 0 0 (window L c n)) := by
  unfold selectFrom; rw [filter_seqFrom 1 c L h]

theorem selectFrom_length (L : List Entry) (c n : Nat) (h : NoSharedSeq L) :
    (selectFrom L c n).length = capCount pollBytes 0 0 (window L c n) := by
  rw [selectFrom_eq L c n h, List.length_take]
  have := capCount_le pollBytes (window L c n) 0 0
  omega

theorem selectFrom_ne_nil (L : List Entry) (c n : Nat) (h : NoSharedSeq L) (hw : window L c n ≠ []) :
    selectFrom L c n ≠ [] := by
  intro hnil
  have hl := selectFrom_length L c n h
  rw [hnil] at hl
  cases hwd : window L c n with
  | nil => exact hw hwd
  | cons e t => rw [hwd] at hl; have := capCount_pos pollBytes e t; simp at hl; omega

theorem selectFrom_prefix (L : List Entry) (c n : Nat) (h : NoSharedSeq L) : selectFrom L c n <+: window L c n := by
  rw [selectFrom_eq L c n h]; exact List.take_prefix _ _

theorem applyRun_seqFrom (v : View) (p : Nat) (t : List Entry) (h : seqFrom (p + 1) t) :
    applyRun v p t = (t.foldl applyEntry v, p + t.length, false) := by
  induction t generalizing v p with
  | nil => simp [applyRun]
  | cons e t ih =>
    have he : e.seq = p + 1 := h.1
    simp only [applyRun, he, if_true, List.foldl_cons, List.length_cons]
    have h2 : seqFrom (e.seq + 1) t := by rw [he]; exact h.2
    rw [← he, ih (applyEntry v e) e.seq h2, he]
    congr 2; omega

theorem viewOf_append (a b : List Entry) : viewOf (a ++ b) = b.foldl applyEntry (viewOf a) := by
  simp [viewOf, List.foldl_append]


/-- relative to the log L the applier has applied exactly the first m entries -/
def AppliedPrefix (L : List Entry) (a : Applier) (m : Nat) : Prop :=
  m ≤ L.length ∧ a.exp = m + 1 ∧ a.view = viewOf (L.take m)

theorem drop_take_infix (L : List Entry) (i n : Nat) : (L.drop i).take n <:+: L := by
  refine ⟨L.take i, (L.drop i).drop n, ?_⟩
  rw [List.append_assoc, List.take_append_drop, List.take_append_drop]

theorem selectFrom_infix (L : List Entry) (c n : Nat) (h : NoSharedSeq L) : selectFrom L c n <:+: L :=
  List.IsInfix.trans (selectFrom_prefix L c n h).isInfix (drop_take_infix L _ _)

/-- applying any contiguous piece of a log without shared numbers keeps the applier on a prefix of that log, never moves
    it backwards, and moves it by the whole piece when the piece starts at the expected number -/
theorem applyBatch_infix (L es : List Entry) (a : Applier) (m : Nat) (hL : NoSharedSeq L) (hinf : es <:+: L)
    (ha : AppliedPrefix L a m) :
    ∃ m', m ≤ m' ∧ AppliedPrefix L (applyBatch a es).1 m' ∧
      (∀ e t, es = e :: t → e.seq = m + 1 → m' = m + es.length ∧ (applyBatch a es).2 = .ok) := by
  obtain ⟨pre, post, hcat⟩ := hinf
  cases es with
  | nil => exact ⟨m, Nat.le_refl _, by simpa [applyBatch] using ha, by intro e t h; cases h⟩
  | cons e t =>
    have hs : seqFrom 1 (pre ++ (e :: t) ++ post) := by rw [hcat]; exact hL
    rw [seqFrom_append, seqFrom_append] at hs
    obtain ⟨⟨_, hes⟩, _⟩ := hs
    have heseq : e.seq = 1 + pre.length := hes.1
    have htl : seqFrom (e.seq + 1) t := by rw [heseq]; exact hes.2
    obtain ⟨hm, hexp, hview⟩ := ha
    by_cases hc : e.seq = a.exp
    · have hpre : pre.length = m := by omega
      have hrun := applyRun_seqFrom (applyEntry a.view e) e.seq t htl
      have hab : applyBatch a (e :: t) = ({ exp := e.seq + t.length + 1, view := t.foldl applyEntry (applyEntry a.view e) }, .ok) := by
        simp only [applyBatch, hc, ne_eq, not_true_eq_false, if_false]
        rw [← hc, hrun]
      have hlen : L.length = pre.length + (t.length + 1) + post.length := by
        rw [← hcat]; simp; omega
      have htake1 : L.take m = pre := by
        rw [← hcat, List.append_assoc]; exact List.take_left' hpre
      have htake2 : L.take (m + (t.length + 1)) = pre ++ (e :: t) := by
        rw [← hcat]; exact List.take_left' (by simp; omega)
      refine ⟨m + (t.length + 1), by omega, ⟨by omega, ?_, ?_⟩, ?_⟩
      · rw [hab]; simp only; omega
      · rw [hab, htake2, viewOf_append]; simp only [List.foldl_cons]; rw [hview, htake1]
      · intro e' t' h _; rw [hab]; exact ⟨by simp, rfl⟩
    · refine ⟨m, Nat.le_refl _, ?_, ?_⟩
      · have : applyBatch a (e :: t) = (a, .gapStart) := by simp [applyBatch, hc]
        rw [this]; exact ⟨hm, hexp, hview⟩
      · intro e' t' h hseq
        cases h
        exact absurd (by omega) hc

def MsgOK (L : List Entry) : Msg → Prop
  | .batch es false => es <:+: L
  | _ => True

structure Inv (w : World) : Prop where
  noShared : NoSharedSeq w.log
  next : w.next = w.log.length + 1
  ap : ∃ m, AppliedPrefix w.log w.ap m
  chan : ∀ x ∈ w.chan, MsgOK w.log x
  obs : w.stable = true → w.obsNext = w.next

/-- what a step that is not a client operation leaves alone / moves forward only -/
structure Ext (w w' : World) : Prop where
  log : w'.log = w.log
  next : w'.next = w.next
  limit : w'.limit = w.limit
  stable : w'.stable = w.stable
  obsNext : w'.obsNext = w.obsNext
  mono : w.ap.exp ≤ w'.ap.exp

theorem Ext.refl (w : World) : Ext w w := ⟨rfl, rfl, rfl, rfl, rfl, Nat.le_refl _⟩
theorem Ext.trans {a b c : World} (h1 : Ext a b) (h2 : Ext b c) : Ext a c :=
  ⟨h2.log.trans h1.log, h2.next.trans h1.next, h2.limit.trans h1.limit, h2.stable.trans h1.stable,
   h2.obsNext.trans h1.obsNext, Nat.le_trans h1.mono h2.mono⟩

/-- frame: same log/counter/applier, every message of the new channel is an old one or fine -/
theorem Inv.frame {w w' : World} (h : Inv w) (hl : w'.log = w.log) (hn : w'.next = w.next) (ha : w'.ap = w.ap)
    (hs : w'.stable = w.stable) (ho : w'.obsNext = w.obsNext)
    (hc : ∀ x ∈ w'.chan, x ∈ w.chan ∨ MsgOK w.log x) : Inv w' := by
  refine ⟨by rw [hl]; exact h.noShared, by rw [hl, hn]; exact h.next, by rw [hl, ha]; exact h.ap, ?_,
    by rw [hs, ho, hn]; exact h.obs⟩
  intro x hx; rw [hl]
  rcases hc x hx with h1 | h1
  · exact h.chan x h1
  · exact h1

theorem fetch_ok {w : World} {c : Nat} {es : List Entry} (hL : NoSharedSeq w.log) (h : fetch w c = some es) :
    es <:+: w.log := by
  unfold fetch at h
  split at h
  · cases h; exact ⟨[], w.log, by simp⟩
  · split at h
    · cases h; exact selectFrom_infix _ _ _ hL
    · cases h

theorem inv_send {w : World} {m : Msg} (h : Inv w) (hm : MsgOK w.log m) : Inv (send w m) ∧ Ext w (send w m) := by
  unfold send
  split
  · refine ⟨h.frame rfl rfl rfl rfl rfl ?_, ⟨rfl, rfl, rfl, rfl, rfl, Nat.le_refl _⟩⟩
    intro x hx
    rcases List.mem_append.1 hx with h1 | h1
    · exact Or.inl h1
    · rw [List.mem_singleton.1 h1]; exact Or.inr hm
  · exact ⟨h, Ext.refl w⟩

theorem inv_nack {w : World} (h : Inv w) : Inv (nack w) ∧ Ext w (nack w) := by
  unfold nack
  split
  · next e t hf => exact inv_send h (fetch_ok h.noShared hf)
  · exact ⟨h, Ext.refl w⟩


/-- changing only the replica state -/
theorem inv_setSt {w : World} (h : Inv w) (s : Nat) : Inv { w with st := s } ∧ Ext w { w with st := s } :=
  ⟨h.frame rfl rfl rfl rfl rfl (fun _ hx => Or.inl hx), ⟨rfl, rfl, rfl, rfl, rfl, Nat.le_refl _⟩⟩

theorem inv_applyMsg {w : World} {es : List Entry} (h : Inv w) (hes : es <:+: w.log) :
    Inv (applyMsg w es).1 ∧ Ext w (applyMsg w es).1 := by
  obtain ⟨m, hm⟩ := h.ap
  obtain ⟨m', hle, hap', _⟩ := applyBatch_infix w.log es w.ap m h.noShared hes hm
  have h1 : Inv { w with ap := (applyBatch w.ap es).1 } :=
    ⟨h.noShared, h.next, ⟨m', hap'⟩, h.chan, h.obs⟩
  have e1 : Ext w { w with ap := (applyBatch w.ap es).1 } :=
    ⟨rfl, rfl, rfl, rfl, rfl, by show w.ap.exp ≤ (applyBatch w.ap es).1.exp; rw [hm.2.1, hap'.2.1]; omega⟩
  unfold applyMsg
  simp only
  split
  · obtain ⟨h2, e2⟩ := inv_nack h1
    exact ⟨h2, e1.trans e2⟩
  · exact ⟨h1, e1⟩

theorem inv_handleStreaming {w : World} {m : Msg} (h : Inv w) (hm : MsgOK w.log m) :
    Inv (handleStreaming w m) ∧ Ext w (handleStreaming w m) := by
  unfold handleStreaming
  split
  · exact inv_setSt h _
  · exact inv_setSt h _
  · exact inv_setSt h _
  · obtain ⟨h1, e1⟩ := inv_applyMsg h (es := _) hm
    obtain ⟨h2, e2⟩ := inv_setSt h1 (setState (applyMsg w _).1.st afterStreamingApply)
    exact ⟨h2, e1.trans e2⟩

theorem inv_handleWaiting {w : World} {m : Msg} (h : Inv w) (hm : MsgOK w.log m) :
    Inv (handleWaiting w m) ∧ Ext w (handleWaiting w m) := by
  unfold handleWaiting
  split
  · exact ⟨h, Ext.refl w⟩
  · exact ⟨h, Ext.refl w⟩
  · next e t c =>
    simp only
    split
    · exact inv_setSt h _
    · split
      · exact inv_setSt h _
      · next hc =>
        have hc' : c = false := by simpa using hc
        subst hc'
        obtain ⟨h1, e1⟩ := inv_applyMsg h (es := e :: t) hm
        split
        · obtain ⟨h2, e2⟩ := inv_setSt h1 (setState (setState w.st stApplyingEntries) stStreamingEntries)
          exact ⟨h2, e1.trans e2⟩
        · obtain ⟨h2, e2⟩ := inv_setSt h1 (setState (setState (setState (setState w.st stApplyingEntries) stFsyncPending) stAcknowledging) stStreamingEntries)
          exact ⟨h2, e1.trans e2⟩

theorem inv_step_internal {w : World} (a : Act) (h : Inv w) (ha : a.external = false) :
    Inv (step w a) ∧ Ext w (step w a) := by
  cases a with
  | put k v => cases ha
  | del k => cases ha
  | tx ops => cases ha
  | flush => cases ha
  | restart => cases ha
  | poll =>
    simp only [step]
    split
    · split
      · next e t hf => exact inv_send h (fetch_ok h.noShared hf)
      · exact ⟨h, Ext.refl w⟩
    · exact ⟨h, Ext.refl w⟩
  | connect =>
    simp only [step]
    split
    · have h1 : Inv { w with sessOpen := true, startSeq := w.ap.exp, lastAck := w.ap.exp - 1, chan := [], st := setState w.st afterConnect } :=
        h.frame rfl rfl rfl rfl rfl (fun x hx => by cases hx)
      have e1 : Ext w { w with sessOpen := true, startSeq := w.ap.exp, lastAck := w.ap.exp - 1, chan := [], st := setState w.st afterConnect } :=
        ⟨rfl, rfl, rfl, rfl, rfl, Nat.le_refl _⟩
      split
      · split
        · exact ⟨h1, e1⟩
        · next es hne hf =>
          refine ⟨h1.frame rfl rfl rfl rfl rfl ?_, ⟨rfl, rfl, rfl, rfl, rfl, Nat.le_refl _⟩⟩
          intro x hx
          rw [List.mem_singleton.1 hx]
          exact Or.inr (fetch_ok h.noShared hf)
        · refine ⟨h1.frame rfl rfl rfl rfl rfl ?_, ⟨rfl, rfl, rfl, rfl, rfl, Nat.le_refl _⟩⟩
          intro x hx
          rw [List.mem_singleton.1 hx]
          exact Or.inr trivial
      · exact ⟨h1, e1⟩
    · exact ⟨h, Ext.refl w⟩
  | recv =>
    simp only [step]
    split
    · exact ⟨h, Ext.refl w⟩
    · next m rest hch =>
      have hm : MsgOK w.log m := h.chan m (by rw [hch]; exact List.mem_cons_self)
      have h0 : Inv { w with chan := rest } :=
        h.frame rfl rfl rfl rfl rfl (fun x hx => Or.inl (by rw [hch]; exact List.mem_cons_of_mem _ hx))
      have e0 : Ext w { w with chan := rest } := ⟨rfl, rfl, rfl, rfl, rfl, Nat.le_refl _⟩
      split
      · obtain ⟨h1, e1⟩ := inv_handleStreaming h0 (m := m) hm
        exact ⟨h1, e0.trans e1⟩
      · split
        · obtain ⟨h1, e1⟩ := inv_handleWaiting h0 (m := m) hm
          exact ⟨h1, e0.trans e1⟩
        · exact ⟨h, Ext.refl w⟩
  | timeout =>
    simp only [step]
    split
    · exact inv_setSt h _
    · split
      · exact inv_setSt h _
      · exact ⟨h, Ext.refl w⟩
  | backoff =>
    simp only [step]
    split
    · exact ⟨h.frame rfl rfl rfl rfl rfl (fun x hx => by cases hx), ⟨rfl, rfl, rfl, rfl, rfl, Nat.le_refl _⟩⟩
    · exact ⟨h, Ext.refl w⟩
  | ack =>
    simp only [step]
    split
    · exact ⟨h.frame rfl rfl rfl rfl rfl (fun x hx => Or.inl hx), ⟨rfl, rfl, rfl, rfl, rfl, Nat.le_refl _⟩⟩
    · exact ⟨h, Ext.refl w⟩
  | swallow =>
    simp only [step]
    exact ⟨h.frame rfl rfl rfl rfl rfl (fun x hx => Or.inl (List.mem_of_mem_drop hx)), ⟨rfl, rfl, rfl, rfl, rfl, Nat.le_refl _⟩⟩
  | drop =>
    simp only [step]
    split
    · refine ⟨h.frame rfl rfl rfl rfl rfl ?_, ⟨rfl, rfl, rfl, rfl, rfl, Nat.le_refl _⟩⟩
      intro x hx; rw [List.mem_singleton.1 hx]; exact Or.inr trivial
    · exact ⟨h, Ext.refl w⟩

theorem msgOK_extend {L : List Entry} {x : Msg} (e : List Entry) (h : MsgOK L x) : MsgOK (L ++ e) x := by
  cases x with
  | fail => trivial
  | batch es c =>
    cases c with
    | true => trivial
    | false =>
      obtain ⟨pre, post, hcat⟩ := h
      exact ⟨pre, post ++ e, by rw [← hcat]; simp⟩

/-- appending ONE entry that carries the engine's next number (Put, Delete, a transaction with one operation) -/
theorem inv_append1 {w : World} (e : Entry) (p : Nat) (h : Inv w) (he : e.seq = w.next) :
    Inv (append w [e] p) ∧ w.ap.exp ≤ (append w [e] p).ap.exp ∧ (append w [e] p).log = w.log ++ [e] := by
  have hnext := h.next
  have hL : NoSharedSeq (w.log ++ [e]) := by
    unfold NoSharedSeq
    rw [seqFrom_append]
    exact ⟨h.noShared, by simp [seqFrom]; omega⟩
  have hap : ∃ m, AppliedPrefix (w.log ++ [e]) w.ap m := by
    obtain ⟨m, hm, hexp, hview⟩ := h.ap
    refine ⟨m, by simp; omega, hexp, ?_⟩
    rw [List.take_append_of_le_length hm]; exact hview
  have hchan : ∀ x ∈ w.chan, MsgOK (w.log ++ [e]) x := fun x hx => msgOK_extend [e] (h.chan x hx)
  unfold append
  simp only
  split
  · have base2 : Inv { w with log := w.log ++ [e], next := w.next + 1, obsNext := w.next + 1 } :=
      ⟨hL, by simp; omega, hap, hchan, fun _ => rfl⟩
    split
    · have hm : MsgOK (w.log ++ [e]) (.batch [e] pushFlaggedCompressed) := by
        cases hc : pushFlaggedCompressed with
        | true => trivial
        | false => exact ⟨w.log, [], by simp⟩
      obtain ⟨h2, e2⟩ := inv_send base2 hm
      exact ⟨h2, e2.mono, e2.log⟩
    · exact ⟨base2, Nat.le_refl _, rfl⟩
  · next hst =>
    have base : Inv { w with log := w.log ++ [e], next := w.next + 1 } :=
      ⟨hL, by simp; omega, hap, hchan, fun hh => absurd hh hst⟩
    exact ⟨base, Nat.le_refl _, rfl⟩

theorem inv_step_client {w : World} (a : Act) (h : Inv w) (hs : a.covered = true) :
    Inv (step w a) ∧ w.ap.exp ≤ (step w a).ap.exp := by
  by_cases hc : a.external = false
  · obtain ⟨h1, e1⟩ := inv_step_internal a h hc
    exact ⟨h1, e1.mono⟩
  · cases a with
    | put k v => simp only [step]; exact ⟨(inv_append1 _ _ h rfl).1, (inv_append1 _ _ h rfl).2.1⟩
    | del k => simp only [step]; exact ⟨(inv_append1 _ _ h rfl).1, (inv_append1 _ _ h rfl).2.1⟩
    | flush =>
      simp only [step]
      exact ⟨⟨h.noShared, h.next, h.ap, h.chan, fun hh => by cases hh⟩, Nat.le_refl _⟩
    | tx ops =>
      simp only [step]
      split
      · exact ⟨h, Nat.le_refl _⟩
      · match ops, hs with
        | [], _ => exact absurd rfl ‹_›
        | [o], _ => simp only [List.map]; exact ⟨(inv_append1 _ _ h rfl).1, (inv_append1 _ _ h rfl).2.1⟩
        | _ :: _ :: _, hs => simp [Act.covered] at hs; omega
    | restart => simp [Act.covered] at hs
    | _ => simp [Act.external] at hc

theorem inv_init (limit : Nat) : Inv (init limit) :=
  ⟨trivial, rfl, ⟨0, Nat.le_refl _, rfl, rfl⟩, (fun x hx => by cases hx), fun _ => rfl⟩

/-- whatever the primary executed (puts, deletes, single-operation transactions, flushes) and whenever the replica
    joined, reconnected, lost messages or connections: the invariant holds -/
theorem inv_run (w : World) (acts : List Act) (h : Inv w) (hs : ∀ a ∈ acts, a.covered = true) : Inv (run w acts) := by
  induction acts generalizing w with
  | nil => exact h
  | cons a t ih =>
    exact ih (step w a) (inv_step_client a h (hs a List.mem_cons_self)).1 (fun b hb => hs b (List.mem_cons_of_mem _ hb))

/-! ## executions, fairness, the ranking argument -/

/-- an execution of the model under a schedule of actions -/
structure Exec where
  w : Nat → World
  a : Nat → Act
  next : ∀ t, w (t + 1) = step (w t) (a t)

/-- the primary accepts no client operation any more (no writes, no flush) -/
def Quiescent (x : Exec) : Prop := ∀ t, (x.a t).external = false

/-- a fresh delivery: the replica, in STREAMING, takes from its stream the batch the primary selects for the replica's
    CURRENT cursor (what the initial send of a (re)connect and the answer to a NACK produce) -/
def Fresh (w : World) (a : Act) : Prop :=
  a = .recv ∧ w.st = stStreamingEntries ∧ w.chan.head? = some (.batch (selectFrom w.log w.ap.exp w.limit) false)

instance (w : World) (a : Act) : Decidable (Fresh w a) := by unfold Fresh; infer_instance

/-- weak fairness of connect/poll, deliver, apply: fresh deliveries keep happening -/
def Fair (x : Exec) : Prop := ∀ t, ∃ t', t ≤ t' ∧ Fresh (x.w t') (x.a t')

def freshCount (x : Exec) : Nat → Nat
  | 0 => 0
  | t + 1 => freshCount x t + (if Fresh (x.w t) (x.a t) then 1 else 0)

theorem head_drop_seq (L : List Entry) (m n : Nat) (e : Entry) (t : List Entry) (hL : seqFrom 1 L)
    (h : (L.drop m).take n = e :: t) : e.seq = m + 1 ∧ m < L.length := by
  have hlt : m < L.length := by
    apply Classical.byContradiction; intro hc
    rw [List.drop_eq_nil_of_le (by omega)] at h; simp at h
  have hsplit : L = L.take m ++ L.drop m := (List.take_append_drop m L).symm
  cases hd : L.drop m with
  | nil => rw [hd] at h; simp at h
  | cons e' t' =>
    rw [hd] at h
    cases n with
    | zero => simp at h
    | succ n =>
      simp only [List.take_succ_cons, List.cons.injEq] at h
      rw [hd] at hsplit
      rw [hsplit, seqFrom_append] at hL
      have : e'.seq = 1 + (L.take m).length := hL.2.1
      rw [List.length_take] at this
      rw [← h.1]
      exact ⟨by omega, hlt⟩

theorem exp_le (w : World) (h : Inv w) : 1 ≤ w.ap.exp ∧ w.ap.exp ≤ w.log.length + 1 := by
  obtain ⟨m, hm, hexp, _⟩ := h.ap; omega

theorem converged_of_caughtUp (w : World) (h : Inv w) (hc : caughtUp w) : converged w := by
  obtain ⟨m, hm, hexp, hview⟩ := h.ap
  unfold caughtUp at hc
  have : m = w.log.length := by omega
  subst this
  unfold converged; rw [hview, List.take_length]

theorem applyMsg_ok_ap (w : World) (a : Applier) (es : List Entry) (ha : w.ap = a) (h : (applyBatch a es).2 = .ok) :
    (applyMsg w es).1.ap = (applyBatch a es).1 := by
  subst ha; unfold applyMsg; simp [h]

/-- `q` entries per message are guaranteed: whatever window the primary cuts its answer from, the byte cap leaves at least
    `min q (window length)` entries. `q = 1` always holds (the first entry is always kept); `q = limit` holds when no
    window of the log exceeds the cap. -/
def Quantum (w : World) (q : Nat) : Prop :=
  q ≤ w.limit ∧ ∀ c, min q (window w.log c w.limit).length ≤ capCount pollBytes 0 0 (window w.log c w.limit)

theorem quantum_one (w : World) (hl : 0 < w.limit) : Quantum w 1 := by
  refine ⟨hl, fun c => ?_⟩
  cases hw : window w.log c w.limit with
  | nil => simp
  | cons e t => have := capCount_pos pollBytes e t; simp only [List.length_cons]; omega

theorem sum_take_le (l : List Nat) (n : Nat) : (l.take n).sum ≤ l.sum := by
  induction l generalizing n with
  | nil => simp
  | cons a t ih =>
    cases n with
    | zero => simp
    | succ n => simp only [List.take_succ_cons, List.sum_cons]; have := ih n; omega

theorem sum_drop_le (l : List Nat) (n : Nat) : (l.drop n).sum ≤ l.sum := by
  induction l generalizing n with
  | nil => simp
  | cons a t ih =>
    cases n with
    | zero => simp
    | succ n => simp only [List.drop_succ_cons, List.sum_cons]; have := ih n; omega

/-- a log whose entries together fit the response cap is never cut by it: the full poll limit is guaranteed -/
theorem quantum_limit (w : World) (hs : (w.log.map Entry.size).sum ≤ pollBytes) : Quantum w w.limit := by
  refine ⟨Nat.le_refl _, fun c => ?_⟩
  have h1 : ((window w.log c w.limit).map Entry.size).sum ≤ (w.log.map Entry.size).sum := by
    unfold window
    rw [List.map_take, List.map_drop]
    exact Nat.le_trans (sum_take_le _ _) (sum_drop_le _ _)
  rw [capCount_all pollBytes _ 0 0 (by omega)]
  omega

/-- a fresh delivery moves the cursor by min(q, backlog) -/
theorem fresh_progress (w : World) (h : Inv w) (q : Nat) (hq : Quantum w q) (hf : Fresh w .recv) :
    min (w.log.length + 1) (w.ap.exp + q) ≤ (step w .recv).ap.exp := by
  obtain ⟨_, hst, hhead⟩ := hf
  obtain ⟨m, hm, hexp, hview⟩ := h.ap
  cases hch : w.chan with
  | nil => rw [hch] at hhead; cases hhead
  | cons msg rest =>
    rw [hch] at hhead
    simp only [List.head?_cons, Option.some.injEq] at hhead
    subst hhead
    have hstep : step w .recv = handleStreaming { w with chan := rest } (.batch (selectFrom w.log w.ap.exp w.limit) false) := by
      simp only [step, hch]; rw [if_pos hst]
    rw [hstep]
    have hwin : window w.log w.ap.exp w.limit = (w.log.drop m).take w.limit := by
      unfold window; rw [hexp, Nat.add_sub_cancel]
    have hlen := selectFrom_length w.log w.ap.exp w.limit h.noShared
    have hqc := hq.2 w.ap.exp
    have hwl : (window w.log w.ap.exp w.limit).length = min w.limit (w.log.length - m) := by
      rw [hwin, List.length_take, List.length_drop]
    cases hes : selectFrom w.log w.ap.exp w.limit with
    | nil =>
      -- nothing selected: the window is empty (the limit is 0 or the cursor is at the end)
      simp only [handleStreaming]
      rw [hes] at hlen
      simp only [List.length_nil] at hlen
      have hq1 := hq.1
      show min (w.log.length + 1) (w.ap.exp + q) ≤ w.ap.exp
      omega
    | cons e t =>
      simp only [handleStreaming]
      have hinf : (e :: t) <:+: w.log := by rw [← hes]; exact selectFrom_infix _ _ _ h.noShared
      obtain ⟨t2, ht2⟩ := selectFrom_prefix w.log w.ap.exp w.limit h.noShared
      rw [hes, hwin] at ht2
      obtain ⟨hseq, _⟩ := head_drop_seq w.log m w.limit e (t ++ t2) h.noShared (by rw [← ht2]; rfl)
      obtain ⟨m', _, hap', hfull⟩ := applyBatch_infix w.log (e :: t) w.ap m h.noShared hinf ⟨hm, hexp, hview⟩
      obtain ⟨hm', hok⟩ := hfull e t rfl hseq
      rw [hes] at hlen
      have hexp' : (applyBatch w.ap (e :: t)).1.exp = m' + 1 := hap'.2.1
      rw [applyMsg_ok_ap { w with chan := rest } w.ap _ rfl hok]
      show min (w.log.length + 1) (w.ap.exp + q) ≤ (applyBatch w.ap (e :: t)).1.exp
      have hq1 := hq.1
      rw [hexp']; omega

theorem freshCount_succ (x : Exec) (t : Nat) :
    freshCount x (t + 1) = freshCount x t + (if Fresh (x.w t) (x.a t) then 1 else 0) := rfl

theorem exec_inv (x : Exec) (hq : Quiescent x) (h0 : Inv (x.w 0)) : ∀ t, Inv (x.w t) ∧ Ext (x.w 0) (x.w t) := by
  intro t
  induction t with
  | zero => exact ⟨h0, Ext.refl _⟩
  | succ t ih =>
    rw [x.next t]
    obtain ⟨h1, e1⟩ := inv_step_internal (x.a t) ih.1 (hq t)
    exact ⟨h1, ih.2.trans e1⟩

theorem exec_mono (x : Exec) (hq : Quiescent x) (h0 : Inv (x.w 0)) (t d : Nat) :
    (x.w t).ap.exp ≤ (x.w (t + d)).ap.exp := by
  induction d with
  | zero => exact Nat.le_refl _
  | succ d ih =>
    have := (inv_step_internal (x.a (t + d)) (exec_inv x hq h0 (t + d)).1 (hq (t + d))).2.mono
    rw [← x.next (t + d)] at this
    exact Nat.le_trans ih this

theorem Quantum.ext {w w' : World} {q : Nat} (h : Quantum w q) (e : Ext w w') : Quantum w' q := by
  unfold Quantum at *; rw [e.log, e.limit]; exact h

/-- the ranking argument: after k fresh deliveries the cursor has moved by k·q (or reached the end of the log) -/
theorem exp_lower_bound (x : Exec) (hq : Quiescent x) (h0 : Inv (x.w 0)) (q : Nat) (hqu : Quantum (x.w 0) q) (t : Nat) :
    min ((x.w 0).log.length + 1) ((x.w 0).ap.exp + q * freshCount x t) ≤ (x.w t).ap.exp := by
  induction t with
  | zero => simp [freshCount]; omega
  | succ t ih =>
    obtain ⟨hinv, hext⟩ := exec_inv x hq h0 t
    have hmono := (inv_step_internal (x.a t) hinv (hq t)).2.mono
    rw [← x.next t] at hmono
    rw [freshCount_succ]
    by_cases hf : Fresh (x.w t) (x.a t)
    · rw [if_pos hf, Nat.mul_add, Nat.mul_one]
      have ha : x.a t = .recv := hf.1
      have hp := fresh_progress (x.w t) hinv q (hqu.ext hext) (ha ▸ hf)
      rw [← ha, ← x.next t, hext.log] at hp
      generalize q * freshCount x t = z at *
      omega
    · rw [if_neg hf, Nat.add_zero]
      exact Nat.le_trans ih hmono

theorem freshCount_unbounded (x : Exec) (hf : Fair x) (n : Nat) : ∃ t, n ≤ freshCount x t := by
  induction n with
  | zero => exact ⟨0, Nat.zero_le _⟩
  | succ n ih =>
    obtain ⟨t, ht⟩ := ih
    obtain ⟨t', hle, hfr⟩ := hf t
    refine ⟨t' + 1, ?_⟩
    have hm : freshCount x t ≤ freshCount x t' := by
      obtain ⟨d, rfl⟩ := Nat.exists_eq_add_of_le hle
      clear hfr hle
      induction d with
      | zero => exact Nat.le_refl _
      | succ d ihd => exact Nat.le_trans ihd (by show freshCount x (t + d) ≤ freshCount x (t + d + 1); rw [freshCount_succ]; omega)
    rw [freshCount_succ, if_pos hfr]; omega

theorem ceil_mul_ge (b l : Nat) (hl : 0 < l) : b ≤ l * ((b + l - 1) / l) := by
  have h1 := Nat.div_add_mod (b + l - 1) l
  have h2 := Nat.mod_lt (b + l - 1) hl
  generalize l * ((b + l - 1) / l) = z at *
  omega

/-- number of fair rounds: with `q` entries per message guaranteed, ⌈backlog / q⌉ fresh deliveries are enough -/
theorem rounds_bound (x : Exec) (hq : Quiescent x) (h0 : Inv (x.w 0)) (q : Nat) (hl : 0 < q) (hqu : Quantum (x.w 0) q) (t : Nat)
    (hk : ((x.w 0).log.length + 1 - (x.w 0).ap.exp + q - 1) / q ≤ freshCount x t) :
    caughtUp (x.w t) ∧ converged (x.w t) := by
  obtain ⟨hinv, hext⟩ := exec_inv x hq h0 t
  have hb := exp_lower_bound x hq h0 q hqu t
  have hc := ceil_mul_ge ((x.w 0).log.length + 1 - (x.w 0).ap.exp) q hl
  have hmul : q * (((x.w 0).log.length + 1 - (x.w 0).ap.exp + q - 1) / q) ≤ q * freshCount x t := Nat.mul_le_mul_left _ hk
  have hup := (exp_le (x.w t) hinv).2
  rw [hext.log] at hup
  have hcu : caughtUp (x.w t) := by
    unfold caughtUp; rw [hext.log]
    generalize q * freshCount x t = z at *
    generalize q * (((x.w 0).log.length + 1 - (x.w 0).ap.exp + q - 1) / q) = y at *
    omega
  exact ⟨hcu, converged_of_caughtUp _ hinv hcu⟩

/-- safety: once caught up, no step of the protocol or of the environment leaves the converged state -/
theorem stays_converged (w : World) (a : Act) (h : Inv w) (hc : caughtUp w) (ha : a.external = false) :
    caughtUp (step w a) ∧ converged (step w a) ∧ (step w a).ap.view = w.ap.view := by
  obtain ⟨h1, e1⟩ := inv_step_internal a h ha
  have hup := (exp_le _ h1).2
  have hcu : caughtUp (step w a) := by
    unfold caughtUp at *; rw [e1.log] at *; have := e1.mono; omega
  have c1 := converged_of_caughtUp _ h1 hcu
  have c0 := converged_of_caughtUp _ h hc
  unfold converged at c0 c1
  exact ⟨hcu, converged_of_caughtUp _ h1 hcu, by rw [c1, c0, e1.log]⟩

/-- liveness: under a quiescent primary every fair schedule reaches the primary's state and stays there -/
theorem converges (x : Exec) (hq : Quiescent x) (h0 : Inv (x.w 0)) (hl : 0 < (x.w 0).limit) (hf : Fair x) :
    ∃ T, ∀ t, T ≤ t → caughtUp (x.w t) ∧ (x.w t).ap.view = viewOf (x.w 0).log := by
  obtain ⟨T, hT⟩ := freshCount_unbounded x hf
    (((x.w 0).log.length + 1 - (x.w 0).ap.exp + 1 - 1) / 1)
  refine ⟨T, fun t ht => ?_⟩
  obtain ⟨d, rfl⟩ := Nat.exists_eq_add_of_le ht
  obtain ⟨hcu, _⟩ := rounds_bound x hq h0 1 (by decide) (quantum_one _ hl) T hT
  obtain ⟨hinv, hext⟩ := exec_inv x hq h0 (T + d)
  obtain ⟨hinvT, hextT⟩ := exec_inv x hq h0 T
  have hm := exec_mono x hq h0 T d
  have hup := (exp_le _ hinv).2
  have hcu' : caughtUp (x.w (T + d)) := by
    unfold caughtUp at *; rw [hext.log]; rw [hextT.log] at hcu; rw [hext.log] at hup; omega
  have := converged_of_caughtUp _ hinv hcu'
  unfold converged at this
  exact ⟨hcu', by rw [this, hext.log]⟩

/-! ## the reconnect cycle realises a fresh delivery (non-vacuity of `Fair` on a stable log object) -/

theorem table_backoff : setState stError afterBackoff = stConnecting := by decide
theorem table_connect : setState stConnecting afterConnect = stStreamingEntries := by decide

theorem fresh_of_reconnect (w : World) (h : Inv w) (hs : w.stable = true) (hst : w.st = stError)
    (hl : 0 < w.limit) (hb : w.ap.exp ≤ w.log.length) :
    Fresh (run w [.backoff, .connect]) .recv ∧ Inv (run w [.backoff, .connect]) ∧ Ext w (run w [.backoff, .connect]) := by
  obtain ⟨m, hm, hexp, hview⟩ := h.ap
  have hobs := h.obs hs
  have hnext := h.next
  obtain ⟨i1, e1⟩ := inv_step_internal .backoff h rfl
  obtain ⟨i2, e2⟩ := inv_step_internal .connect i1 rfl
  have hrun : run w [.backoff, .connect] = step (step w .backoff) .connect := rfl
  rw [hrun]
  refine ⟨?_, i2, e1.trans e2⟩
  have hb1 : step w .backoff = { w with sessOpen := false, chan := [], st := stConnecting } := by
    simp only [step]; rw [if_pos hst, hst, table_backoff]
  have hne : selectFrom w.log w.ap.exp w.limit ≠ [] := by
    apply selectFrom_ne_nil _ _ _ h.noShared
    intro hnil
    have : (window w.log w.ap.exp w.limit).length = 0 := by rw [hnil]; rfl
    rw [List.length_take, List.length_drop] at this
    omega
  have hfetch : fetch { w with sessOpen := true, startSeq := w.ap.exp, lastAck := w.ap.exp - 1, chan := [], st := stStreamingEntries } w.ap.exp
      = some (selectFrom w.log w.ap.exp w.limit) := by
    unfold fetch
    simp only [hs, if_true]
    rw [if_neg (by rw [hobs, hnext]; omega)]
  rw [hb1]
  simp only [step, if_true, table_connect]
  rw [if_pos (by omega), hfetch]
  cases hes : selectFrom w.log w.ap.exp w.limit with
  | nil => exact absurd hes hne
  | cons e t =>
    simp only
    exact ⟨rfl, rfl, by simp [hes]⟩

/-- repaired tree (236f30e): for a connected replica in STREAMING that has applied nothing since it connected
    (`lastAck + 1 = expected`: what `connect` establishes) the periodic poll IS a fresh delivery — a write that arrives
    after the replica caught up is now fetched by the next poll -/
theorem poll_is_fresh (w : World) (h : Inv w) (hs : w.stable = true) (ho : w.sessOpen = true)
    (hst : w.st = stStreamingEntries) (hc : w.chan = []) (hla : w.lastAck + 1 = w.ap.exp) (hl : 0 < w.limit)
    (hb : w.ap.exp ≤ w.log.length) : Fresh (step w .poll) .recv := by
  have hobs := h.obs hs
  have hnext := h.next
  have hne : selectFrom w.log w.ap.exp w.limit ≠ [] := by
    apply selectFrom_ne_nil _ _ _ h.noShared
    intro hnil
    have : (window w.log w.ap.exp w.limit).length = 0 := by rw [hnil]; rfl
    rw [List.length_take, List.length_drop] at this
    have := (exp_le w h).1
    omega
  have hfetch : fetch w (w.lastAck + 1) = some (selectFrom w.log w.ap.exp w.limit) := by
    unfold fetch
    rw [hla, if_neg (by rw [hobs, hnext]; omega)]
    simp [hs]
  have hcond : w.sessOpen = true ∧ w.lastAck < w.obsNext - 1 := ⟨ho, by rw [hobs, hnext]; omega⟩
  simp only [step]
  rw [if_pos hcond, hfetch]
  cases hes : selectFrom w.log w.ap.exp w.limit with
  | nil => exact absurd hes hne
  | cons e t =>
    simp only [send, ho, if_true, hc, List.nil_append]
    exact ⟨rfl, hst, by simp [hes]⟩

/-! ## D30: once the primary's log object is gone, nothing the protocol or the environment does changes the replica -/

def NoPlainBatch (w : World) : Prop := ∀ e t, Msg.batch (e :: t) false ∉ w.chan

theorem noPlain_nil (w : World) (h : w.chan = []) : NoPlainBatch w := fun e t hx => by rw [h] at hx; cases hx
theorem noPlain_fail (w : World) (h : w.chan = [.fail]) : NoPlainBatch w := fun e t hx => by rw [h] at hx; simp at hx

def noPlainB (w : World) : Bool :=
  w.chan.all fun m => match m with
    | .batch (_ :: _) false => false
    | _ => true

theorem noPlain_of_bool (w : World) (h : noPlainB w = true) : NoPlainBatch w := by
  intro e t hx
  unfold noPlainB at h
  rw [List.all_eq_true] at h
  have := h _ hx
  simp at this

theorem fetch_unstable (w : World) (c : Nat) (hs : w.stable = false) : fetch w c = some [] ∨ fetch w c = none := by
  unfold fetch
  split
  · exact Or.inl rfl
  · simp [hs]

theorem frozen_step (w : World) (a : Act) (hs : w.stable = false) (hc : NoPlainBatch w) (ha : a.external = false) :
    (step w a).stable = false ∧ NoPlainBatch (step w a) ∧ (step w a).ap = w.ap ∧ (step w a).log = w.log := by
  have keepSt : ∀ s, NoPlainBatch { w with st := s } := fun s => hc
  cases a with
  | put k v => cases ha
  | del k => cases ha
  | tx ops => cases ha
  | flush => cases ha
  | restart => cases ha
  | poll =>
    simp only [step]
    split
    · rcases fetch_unstable w (w.lastAck + 1) hs with hf | hf <;> rw [hf] <;> exact ⟨hs, hc, rfl, rfl⟩
    · exact ⟨hs, hc, rfl, rfl⟩
  | connect =>
    simp only [step]
    split
    · split
      · rcases fetch_unstable { w with sessOpen := true, startSeq := w.ap.exp, lastAck := w.ap.exp - 1, chan := [], st := setState w.st afterConnect } w.ap.exp hs with hf | hf <;> rw [hf] <;> simp only
        · refine ⟨hs, noPlain_nil _ rfl, ?_, ?_⟩ <;> first | rfl | trivial
        · refine ⟨hs, noPlain_fail _ rfl, ?_, ?_⟩ <;> first | rfl | trivial
      · exact ⟨hs, noPlain_nil _ rfl, rfl, rfl⟩
    · exact ⟨hs, hc, rfl, rfl⟩
  | recv =>
    simp only [step]
    split
    · exact ⟨hs, hc, rfl, rfl⟩
    · next m rest hch =>
      have hrest : ∀ s, NoPlainBatch { w with chan := rest, st := s } :=
        fun s e t hx => hc e t (by rw [hch]; exact List.mem_cons_of_mem _ hx)
      have hrest0 : NoPlainBatch { w with chan := rest } :=
        fun e t hx => hc e t (by rw [hch]; exact List.mem_cons_of_mem _ hx)
      have hm : ∀ e t, m ≠ .batch (e :: t) false := fun e t hx => hc e t (by rw [hch, hx]; exact List.mem_cons_self)
      split
      · cases m with
        | fail => exact ⟨hs, hrest _, rfl, rfl⟩
        | batch es c =>
          cases es with
          | nil => exact ⟨hs, hrest _, rfl, rfl⟩
          | cons e t =>
            cases c with
            | true => exact ⟨hs, hrest _, rfl, rfl⟩
            | false => exact absurd rfl (hm e t)
      · split
        · cases m with
          | fail => exact ⟨hs, hrest0, rfl, rfl⟩
          | batch es c =>
            cases es with
            | nil => exact ⟨hs, hrest0, rfl, rfl⟩
            | cons e t =>
              cases c with
              | false => exact absurd rfl (hm e t)
              | true =>
                simp only [handleWaiting]
                split
                · exact ⟨hs, hrest _, rfl, rfl⟩
                · exact ⟨hs, hrest _, rfl, rfl⟩
        · exact ⟨hs, hc, rfl, rfl⟩
  | timeout =>
    simp only [step]
    split
    · exact ⟨hs, keepSt _, rfl, rfl⟩
    · split
      · exact ⟨hs, keepSt _, rfl, rfl⟩
      · exact ⟨hs, hc, rfl, rfl⟩
  | backoff =>
    simp only [step]
    split
    · exact ⟨hs, noPlain_nil _ rfl, rfl, rfl⟩
    · exact ⟨hs, hc, rfl, rfl⟩
  | ack =>
    simp only [step]
    split
    · exact ⟨hs, hc, rfl, rfl⟩
    · exact ⟨hs, hc, rfl, rfl⟩
  | swallow =>
    exact ⟨hs, fun e t hx => hc e t (List.mem_of_mem_drop hx), rfl, rfl⟩
  | drop =>
    simp only [step]
    split
    · exact ⟨hs, noPlain_fail _ rfl, rfl, rfl⟩
    · exact ⟨hs, hc, rfl, rfl⟩

theorem frozen_run (w : World) (acts : List Act) (hs : w.stable = false) (hc : NoPlainBatch w)
    (ha : ∀ a ∈ acts, a.external = false) : (run w acts).ap = w.ap ∧ (run w acts).log = w.log := by
  induction acts generalizing w with
  | nil => exact ⟨rfl, rfl⟩
  | cons a t ih =>
    obtain ⟨h1, h2, h3, h4⟩ := frozen_step w a hs hc (ha a List.mem_cons_self)
    obtain ⟨h5, h6⟩ := ih (step w a) h1 h2 (fun b hb => ha b (List.mem_cons_of_mem _ hb))
    exact ⟨h5.trans h3, h6.trans h4⟩

/-! ## fairness of the primitive steps only, and the round-robin schedule (used to refute the full C14 statement) -/

/-- every protocol step recurs, the network eventually stops losing things -/
def PrimFair (x : Exec) : Prop :=
  (∀ a ∈ [Act.poll, .connect, .recv, .timeout, .backoff, .ack], ∀ t, ∃ t', t ≤ t' ∧ x.a t' = a) ∧
  (∃ T, ∀ t, T ≤ t → x.a t ≠ .swallow ∧ x.a t ≠ .drop)

/-- the round-robin schedule of all protocol steps -/
def rrAct (t : Nat) : Act := [Act.poll, .connect, .recv, .timeout, .backoff, .ack].getD (t % 6) .poll

def rrWorld (w0 : World) : Nat → World
  | 0 => w0
  | t + 1 => step (rrWorld w0 t) (rrAct t)

def rrExec (w0 : World) : Exec := { w := rrWorld w0, a := rrAct, next := fun _ => rfl }

theorem rrAct_internal (t : Nat) : (rrAct t).external = false ∧ rrAct t ≠ .swallow ∧ rrAct t ≠ .drop := by
  unfold rrAct
  have h : t % 6 < 6 := Nat.mod_lt _ (by decide)
  generalize t % 6 = r at h
  match r, h with
  | 0, _ | 1, _ | 2, _ | 3, _ | 4, _ | 5, _ => decide

theorem rr_primFair (w0 : World) : PrimFair (rrExec w0) := by
  refine ⟨?_, ⟨0, fun t _ => (rrAct_internal t).2⟩⟩
  intro a ha t
  have pick : ∀ i, i < 6 → ∃ t', t ≤ t' ∧ t' % 6 = i := fun i hi =>
    ⟨6 * t + i, by omega, by omega⟩
  simp only [List.mem_cons, List.mem_nil_iff, or_false] at ha
  rcases ha with rfl | rfl | rfl | rfl | rfl | rfl
  · obtain ⟨t', h1, h2⟩ := pick 0 (by decide); exact ⟨t', h1, by show rrAct t' = _; unfold rrAct; rw [h2]; rfl⟩
  · obtain ⟨t', h1, h2⟩ := pick 1 (by decide); exact ⟨t', h1, by show rrAct t' = _; unfold rrAct; rw [h2]; rfl⟩
  · obtain ⟨t', h1, h2⟩ := pick 2 (by decide); exact ⟨t', h1, by show rrAct t' = _; unfold rrAct; rw [h2]; rfl⟩
  · obtain ⟨t', h1, h2⟩ := pick 3 (by decide); exact ⟨t', h1, by show rrAct t' = _; unfold rrAct; rw [h2]; rfl⟩
  · obtain ⟨t', h1, h2⟩ := pick 4 (by decide); exact ⟨t', h1, by show rrAct t' = _; unfold rrAct; rw [h2]; rfl⟩
  · obtain ⟨t', h1, h2⟩ := pick 5 (by decide); exact ⟨t', h1, by show rrAct t' = _; unfold rrAct; rw [h2]; rfl⟩

theorem rr_frozen (w0 : World) (hs : w0.stable = false) (hc : NoPlainBatch w0) (t : Nat) :
    (rrWorld w0 t).stable = false ∧ NoPlainBatch (rrWorld w0 t) ∧ (rrWorld w0 t).ap = w0.ap ∧ (rrWorld w0 t).log = w0.log := by
  induction t with
  | zero => exact ⟨hs, hc, rfl, rfl⟩
  | succ t ih =>
    obtain ⟨h1, h2, h3, h4⟩ := ih
    obtain ⟨g1, g2, g3, g4⟩ := frozen_step (rrWorld w0 t) (rrAct t) h1 h2 (rrAct_internal t).1
    exact ⟨g1, g2, g3.trans h3, g4.trans h4⟩

end Kevo.Proofs.Repl

namespace Kevo.Proofs.Repl.Fault
open Kevo.Repl.Fault

theorem sendTo_enabled (c : Cfg) (now : Nat) (x : Sess)
    (h : x.connected = true → x.broken = true ∨ x.inflight < c.window) : sendTo c now x ≠ none := by
  unfold sendTo
  cases hc : x.connected with
  | false => simp
  | true =>
    cases hb : x.broken with
    | true => simp
    | false =>
      rcases h hc with h1 | hw
      · rw [hb] at h1; cases h1
      · simp [hw]

theorem wstep_enabled (c : Cfg) (s : St) (h : SendOK c s) : ∃ s', wstep c s = some s' := by
  unfold wstep
  cases hpc : s.pc with
  | idle => exact ⟨_, rfl⟩
  | locked => exact ⟨_, rfl⟩
  | appended => exact ⟨_, rfl⟩
  | done => exact ⟨_, rfl⟩
  | notify i =>
    simp only
    cases hx : s.sess[i]? with
    | none => exact ⟨_, rfl⟩
    | some x =>
      simp only
      cases hs : sendTo c s.now x with
      | none => exact absurd hs (sendTo_enabled c s.now x (h x (List.mem_of_getElem? hx)))
      | some x' => exact ⟨_, rfl⟩

/-- one micro-step of the writer: never an error, one step closer to completion -/
theorem wstep_props (c : Cfg) (s s' : St) (h : wstep c s = some s') :
    s'.sess.length = s.sess.length ∧ s'.failedOps = s.failedOps ∧
    (s.pc = .done → s'.completed = s.completed + 1) ∧
    (s.pc ≠ .done → remaining s' + 1 = remaining s ∧ s'.completed = s.completed) := by
  unfold wstep at h
  cases hpc : s.pc with
  | idle => rw [hpc] at h; cases h; simp [remaining, hpc]
  | locked => rw [hpc] at h; cases h; simp [remaining, hpc]
  | appended => rw [hpc] at h; cases h; simp [remaining, hpc]
  | done => rw [hpc] at h; cases h; simp
  | notify i =>
    rw [hpc] at h
    simp only at h
    cases hx : s.sess[i]? with
    | none =>
      rw [hx] at h; cases h
      have : s.sess.length ≤ i := by
        rcases Nat.lt_or_ge i s.sess.length with hlt | hge
        · rw [List.getElem?_eq_getElem hlt] at hx; cases hx
        · exact hge
      simp [remaining, hpc]; omega
    | some x =>
      rw [hx] at h
      simp only at h
      cases hs : sendTo c s.now x with
      | none => rw [hs] at h; cases h
      | some x' =>
        rw [hs] at h; cases h
        have hlt : i < s.sess.length := by
          rcases Nat.lt_or_ge i s.sess.length with hlt | hge
          · exact hlt
          · rw [List.getElem?_eq_none hge] at hx; cases hx
        simp [remaining, hpc, List.length_set]; omega

theorem modifyAt_length (l : List Sess) (i : Nat) (f : Sess → Sess) : (modifyAt l i f).length = l.length := by
  unfold modifyAt; split <;> simp

theorem env_props (s : St) (e : Env) :
    (env s e).pc = s.pc ∧ (env s e).completed = s.completed ∧ (env s e).failedOps = s.failedOps ∧
    (env s e).sess.length = s.sess.length := by
  cases e <;> simp [env, modifyAt_length]

theorem remaining_env (s : St) (e : Env) : remaining (env s e) = remaining s := by
  obtain ⟨h1, _, _, h4⟩ := env_props s e
  unfold remaining; rw [h1, h4]

/-- C15 (conditional): if in every state the schedule reaches each connected session has room in its window or a broken
    connection, then the schedule never finds the writer blocked, no client write returns an error, and a write completes
    within its own `remaining` micro-steps however the environment steps (acks, no acks, slow apply, drops, time) are
    interleaved -/
theorem primary_ops_complete (c : Cfg) (evs : List Ev) (s : St)
    (hok : ∀ k s', exec c s (evs.take k) = some s' → SendOK c s') :
    ∃ s', exec c s evs = some s' ∧ s'.failedOps = s.failedOps ∧ s.completed ≤ s'.completed ∧
      (remaining s ≤ writerCount evs → s.completed < s'.completed) := by
  induction evs generalizing s with
  | nil => exact ⟨s, rfl, rfl, Nat.le_refl _, by intro h; simp [writerCount, remaining] at h; cases hp : s.pc <;> simp [hp] at h⟩
  | cons ev r ih =>
    have h0 : SendOK c s := hok 0 s rfl
    cases ev with
    | e x =>
      have hok' : ∀ k s', exec c (env s x) (r.take k) = some s' → SendOK c s' :=
        fun k s' h => hok (k + 1) s' (by simpa [exec] using h)
      obtain ⟨s', h1, h2, h3, h4⟩ := ih (env s x) hok'
      obtain ⟨_, e2, e3, _⟩ := env_props s x
      refine ⟨s', by simpa [exec] using h1, by rw [h2, e3], by rw [← e2]; exact h3, ?_⟩
      intro hr
      rw [← e2]; apply h4; rw [remaining_env]; simpa [writerCount] using hr
    | w =>
      obtain ⟨s1, hs1⟩ := wstep_enabled c s h0
      have hok' : ∀ k s', exec c s1 (r.take k) = some s' → SendOK c s' :=
        fun k s' h => hok (k + 1) s' (by simpa [exec, hs1] using h)
      obtain ⟨s', h1, h2, h3, h4⟩ := ih s1 hok'
      obtain ⟨_, p2, p3, p4⟩ := wstep_props c s s1 hs1
      refine ⟨s', by simpa [exec, hs1] using h1, by rw [h2, p2], ?_, ?_⟩
      · by_cases hd : s.pc = .done
        · have := p3 hd; omega
        · have := (p4 hd).2; omega
      · intro hr
        simp only [writerCount] at hr
        by_cases hd : s.pc = .done
        · have := p3 hd; omega
        · obtain ⟨q1, q2⟩ := p4 hd
          have := h4 (by omega); omega

theorem modifyAt_getElem? (l : List Sess) (i j : Nat) (f : Sess → Sess) :
    (modifyAt l j f)[i]? = if j = i then (l[i]?).map f else l[i]? := by
  unfold modifyAt
  cases hj : l[j]? with
  | none =>
    simp only
    by_cases h : j = i
    · subst h; simp [hj]
    · simp [h]
  | some x =>
    simp only
    rw [List.getElem?_set]
    by_cases h : j = i
    · subst h
      have hlt : j < l.length := by
        rcases Nat.lt_or_ge j l.length with hlt | hge
        · exact hlt
        · rw [List.getElem?_eq_none hge] at hj; cases hj
      have hxe : l[j] = x := by rw [List.getElem?_eq_getElem hlt] at hj; exact Option.some.inj hj
      simp [hlt, hxe]
    · simp [h]

/-- D32: a writer blocked in the Send of session i stays blocked (and every read with it) whatever else happens —
    acknowledgements, time, other sessions: only that replica draining its stream or its connection breaking helps -/
theorem blocked_stays_blocked (c : Cfg) (s : St) (i : Nat) (x : Sess) (e : Env)
    (hpc : s.pc = .notify i) (hx : s.sess[i]? = some x) (hc : x.connected = true) (hb : x.broken = false)
    (hw : c.window ≤ x.inflight) (h1 : e ≠ .drain i) (h2 : e ≠ .brk i) :
    wstep c (env s e) = none ∧ getEnabled (env s e) = false := by
  have hget : getEnabled (env s e) = false := by
    unfold getEnabled; rw [(env_props s e).1, hpc]; simp
  refine ⟨?_, hget⟩
  have key : ∃ y, (env s e).sess[i]? = some y ∧ y.connected = true ∧ y.broken = false ∧ c.window ≤ y.inflight := by
    cases e with
    | tick d => exact ⟨x, hx, hc, hb, hw⟩
    | drain j =>
      have : j ≠ i := fun h => h1 (by rw [h])
      exact ⟨x, by simp [env, modifyAt_getElem?, this, hx], hc, hb, hw⟩
    | brk j =>
      have : j ≠ i := fun h => h2 (by rw [h])
      exact ⟨x, by simp [env, modifyAt_getElem?, this, hx], hc, hb, hw⟩
    | ack j n =>
      by_cases hj : j = i
      · exact ⟨{ x with lastAck := max x.lastAck n, lastAct := s.now }, by simp [env, modifyAt_getElem?, hj, hx], hc, hb, hw⟩
      · exact ⟨x, by simp [env, modifyAt_getElem?, hj, hx], hc, hb, hw⟩
  obtain ⟨y, hy, yc, yb, yw⟩ := key
  unfold wstep
  rw [(env_props s e).1, hpc]
  simp only [hy]
  have : sendTo c (env s e).now y = none := by
    unfold sendTo; simp [yc, yb]; omega
  rw [this]

/-! ### heartbeat -/

theorem checkOne_drops (c : Cfg) (now : Nat) (x : Sess) (hc : x.connected = true) (ht : c.timeout < now - x.lastAct) :
    checkOne c now x = some { x with connected := false } := by
  simp [checkOne, hc, ht]

theorem checkOne_recent (c : Cfg) (now : Nat) (x y : Sess) (h : checkOne c now x = some y) (hy : y.connected = true) :
    now - y.lastAct ≤ c.timeout := by
  unfold checkOne at h
  split at h
  · next hn => cases h; simp [hy] at hn
  · split at h
    · cases h; simp at hy
    · next hto =>
      split at h
      · split at h
        · cases h; simp at hy
        · split at h
          · cases h; simp
          · cases h
      · cases h; omega

/-- after a completed check every session the primary still lists had activity within the timeout -/
theorem checkAll_recent (c : Cfg) (now : Nat) (l l' : List Sess) (h : checkAll c now l = some l') :
    ∀ y ∈ topology l', now - y.lastAct ≤ c.timeout := by
  induction l generalizing l' with
  | nil => simp [checkAll] at h; subst h; intro y hy; simp [topology] at hy
  | cons x t ih =>
    unfold checkAll at h
    cases h1 : checkOne c now x with
    | none => rw [h1] at h; simp at h
    | some x' =>
      cases h2 : checkAll c now t with
      | none => rw [h1, h2] at h; simp at h
      | some t' =>
        rw [h1, h2] at h; simp at h; subst h
        intro y hy
        unfold topology at hy
        rw [List.mem_filter] at hy
        rcases List.mem_cons.1 hy.1 with rfl | hm
        · exact checkOne_recent c now x y h1 (by simpa using hy.2)
        · exact ih t' h2 y (by unfold topology; rw [List.mem_filter]; exact ⟨hm, hy.2⟩)

/-- n heartbeat rounds, d ms apart, against a session whose replica reads every message and never acknowledges -/
def silentRounds (c : Cfg) (d : Nat) : Nat → Nat → Sess → Option Sess
  | 0, _, x => some x
  | n + 1, now, x =>
    match checkOne c (now + d) x with
    | some y => silentRounds c d n (now + d) { y with inflight := y.inflight - 1 }
    | none => none

theorem silent_reader_kept (c : Cfg) (d : Nat) (hc : c.sendEmpty = true) (hd1 : c.interval < d) (hd2 : d ≤ c.timeout)
    (hw : 0 < c.window) (n now a : Nat) :
    ∃ y, silentRounds c d n now { connected := true, broken := false, inflight := 0, lastAct := now, lastAck := a } = some y ∧
      y.connected = true ∧ y.lastAck = a := by
  induction n generalizing now with
  | zero => exact ⟨_, rfl, rfl, rfl⟩
  | succ n ih =>
    have h1 : checkOne c (now + d) { connected := true, broken := false, inflight := 0, lastAct := now, lastAck := a }
        = some { connected := true, broken := false, inflight := 1, lastAct := now + d, lastAck := a } := by
      unfold checkOne
      have e : now + d - now = d := by omega
      simp only [e, Bool.not_true, Bool.false_eq_true, if_false]
      rw [if_neg (by omega), if_pos ⟨hc, hd1⟩, if_pos hw]
    unfold silentRounds
    rw [h1]
    exact ih (now + d)

end Kevo.Proofs.Repl.Fault
