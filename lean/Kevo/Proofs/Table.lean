/-
  Kevo.Proofs.Table — proofs about the block / SSTable codec model (re-exported by Props/C11).
-/
import Kevo.Model.Table
namespace Kevo.Proofs.Table
open Kevo Kevo.Block Kevo.Table

/-- an entry the format can represent: non-empty key that fits the 16-bit length field, value shorter than the
    tombstone marker, 64-bit sequence number. -/
def EntryWF (e : BEntry) : Prop :=
  1 ≤ e.key.length ∧ e.key.length ≤ 65535 ∧ (∀ v, e.val = some v → v.length < 2 ^ 32 - 1) ∧ e.seq < 2 ^ 64

/-- the checksum function returns 64-bit values (xxhash.Sum64 does). -/
def HashOK (hash : Bytes → Nat) : Prop := ∀ bs, hash bs < 2 ^ 64

def Params.WF (p : Params) : Prop :=
  0 < p.ri ∧ p.footerSize = 68 ∧ 2 ≤ p.version ∧ p.version < 2 ^ 32 ∧ p.magic < 2 ^ 64 ∧ 0 < p.bloomBits ∧
  p.bloomBits < 2 ^ 32 ∧ p.bloomK < 2 ^ 32 ∧ p.bloomN < 2 ^ 64 ∧ 0 < p.blockCut

/-- forward iteration from a positioned block iterator: the entries visited by `Valid/Next` loops. -/
def collectB : Nat → Block.Iter → List BEntry
  | 0, _ => []
  | fuel + 1, it => match it.valid, it.cur with
    | true, some e => e :: collectB fuel it.next.1
    | _, _ => []

def collectT : Nat → Table.TIter → List BEntry
  | 0, _ => []
  | fuel + 1, it => match it.valid, it.cur with
    | true, some e => e :: collectT fuel it.next.1
    | _, _ => []

/-- (B1) a serialised block opens and decodes to exactly the entries written. -/
theorem block_roundtrip (ri : Nat) (hri : 0 < ri) (hash : Bytes → Nat) (hh : HashOK hash) (es : List BEntry)
    (hne : es ≠ []) (hwf : ∀ e ∈ es, EntryWF e) (hsz : (Block.encode ri hash es).length < 2 ^ 32) :
    ∃ r, Block.openBlock hash (Block.encode ri hash es) = some r ∧ Block.decodeAll r = es := by
  sorry

/-- (B2) forward iteration yields every entry exactly once, in order. -/
theorem block_iter_all (es : List BEntry) (hk : ∀ e ∈ es, e.key ≠ []) :
    collectB (es.length + 1) ({ es := es } : Block.Iter).first = es := by
  sorry

/-- (B3) Seek(t) lands on the first entry with key ≥ t, or is invalid if there is none. -/
theorem block_seek_spec (es : List BEntry) (hasc : Block.strictAsc es = true) (hk : ∀ e ∈ es, e.key ≠ []) (t : Bytes) :
    let r := ({ es := es } : Block.Iter).seek t
    match r.1.cur with
    | some e => r.2 = true ∧ r.1.valid = true ∧ e ∈ es ∧ ltB e.key t = false ∧ (∀ e' ∈ es, ltB e'.key t = false → ltB e'.key e.key = false)
    | none => r.2 = false ∧ r.1.valid = false ∧ ∀ e ∈ es, ltB e.key t = true := by
  sorry

/-- (T1) a table file written from a strictly ascending entry list opens, and reading its blocks in index order
    gives back exactly the entries written (any number of blocks, with or without bloom filters). -/
theorem table_roundtrip (p : Params) (hp : Params.WF p) (hash fnv : Bytes → Nat) (hh : HashOK hash) (ts : Nat)
    (hts : ts < 2 ^ 64) (bloom : Bool) (es : List BEntry) (hne : es ≠ []) (hasc : Block.strictAsc es = true)
    (hwf : ∀ e ∈ es, EntryWF e) (hsz : (Table.encode p hash fnv ts bloom es).length < 2 ^ 32) :
    ∃ r, Table.openTable p hash (Table.encode p hash fnv ts bloom es) = some r ∧ Table.allEntries hash r = some es := by
  sorry

/-- (T2) table-level iteration and seek over the flattened entries. -/
theorem table_iter_all (es : List BEntry) (hk : ∀ e ∈ es, e.key ≠ []) :
    collectT (es.length + 1) ({ es := es } : Table.TIter).first = es := by
  sorry

theorem table_seek_spec (es : List BEntry) (hasc : Block.strictAsc es = true) (hk : ∀ e ∈ es, e.key ≠ []) (t : Bytes) :
    let r := ({ es := es } : Table.TIter).seek t
    match r.1.cur with
    | some e => r.2 = true ∧ r.1.valid = true ∧ e ∈ es ∧ ltB e.key t = false ∧ (∀ e' ∈ es, ltB e'.key t = false → ltB e'.key e.key = false)
    | none => r.2 = false ∧ r.1.valid = false ∧ ∀ e ∈ es, ltB e.key t = true := by
  sorry

/-- (T3) point lookup finds every written key with its value / deletion flag, and nothing else
    (needs: no bloom false negatives + each filter keyed by its own block's offset + candidate block choice). -/
theorem table_get_spec (p : Params) (hp : Params.WF p) (hash fnv : Bytes → Nat) (hh : HashOK hash) (ts : Nat)
    (hts : ts < 2 ^ 64) (bloom : Bool) (es : List BEntry) (hne : es ≠ []) (hasc : Block.strictAsc es = true)
    (hwf : ∀ e ∈ es, EntryWF e) (hsz : (Table.encode p hash fnv ts bloom es).length < 2 ^ 32) (k : Bytes) :
    ∀ r, Table.openTable p hash (Table.encode p hash fnv ts bloom es) = some r →
      Table.get hash fnv r k = (match es.find? (fun e => e.key = k) with
        | some e => .found e.val
        | none => .notFound) := by
  sorry

end Kevo.Proofs.Table
