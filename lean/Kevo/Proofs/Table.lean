/-
  Kevo.Proofs.Table — proofs about the block / SSTable codec model (re-exported by Props/C11).
-/
import Kevo.Model.Table
import Kevo.Proofs.Sorted
import Kevo.Proofs.BlockCodec
import Kevo.Proofs.TableCodec
import Kevo.Proofs.TableCounter
import Kevo.Proofs.TableGet
namespace Kevo.Proofs.Table
open Kevo Kevo.Block Kevo.Table Kevo.Proofs.TableAux

/-- an entry the format can represent: key (possibly empty) that fits the 16-bit length field, value shorter than the
    tombstone marker, 64-bit sequence number. -/
def EntryWF (e : BEntry) : Prop :=
  e.key.length ≤ 65535 ∧ (∀ v, e.val = some v → v.length < 2 ^ 32 - 1) ∧ e.seq < 2 ^ 64

/-- the checksum function returns 64-bit values (xxhash.Sum64 does). -/
def HashOK (hash : Bytes → Nat) : Prop := ∀ bs, hash bs < 2 ^ 64

/-- the size conjunct is `validateBloomFilterSize`: a serialised filter (32-byte header + bit array) must not exceed
    64 MiB, otherwise OpenReader rejects the bloom section the writer produced (see `bloom_filter_size_limit_needed`).
    The last two conjuncts are what `LoadBloomFilter` requires of a filter header in order to keep the filter
    (at least one hash function, not more hash functions than bits); a filter failing them is skipped when the
    table is opened, and `Reader.Get` then treats every block as "definitely absent". -/
def Params.WF (p : Params) : Prop :=
  0 < p.ri ∧ p.footerSize = 68 ∧ 2 ≤ p.version ∧ p.version < 2 ^ 32 ∧ p.magic < 2 ^ 64 ∧ 0 < p.bloomBits ∧
  p.bloomBits < 2 ^ 32 ∧ p.bloomK < 2 ^ 32 ∧ p.bloomN < 2 ^ 64 ∧ 0 < p.blockCut ∧
  32 + (p.bloomBits + 7) / 8 ≤ 64 * 1024 * 1024 ∧ 0 < p.bloomK ∧ p.bloomK ≤ p.bloomBits

theorem Params.WF.split {p : Params} (hp : Params.WF p) : PWF p ∧ ∀ bloom, BloomFits p bloom := by
  obtain ⟨h1, h2, h3, h4, h5, h6, h7, h8, h9, h10, h11, h12, h13⟩ := hp
  exact ⟨⟨h1, h2, h3, h4, h5, h6, h7, h8, h9, h10⟩, fun _ _ => ⟨h11, h12, h13⟩⟩

/-- forward iteration from a positioned block iterator: the entries visited by `Valid/Next` loops. -/
def collectB : Nat → Block.Iter → List BEntry
  | 0, _ => []
  | fuel + 1, it => match it.valid, it.cur with
    | true, some e => e :: collectB fuel it.next.1
    | _, _ => []

def collectT : Nat → Table.TIter → List BEntry
  | 0, _ => []
  | fuel + 1, it => match it.valid, it.cur with
    | true, some e => e :: collectT fuel it.next.1
    | _, _ => []

/-- (B1) a serialised block opens and decodes to exactly the entries written. -/
theorem block_roundtrip (ri : Nat) (hri : 0 < ri) (hash : Bytes → Nat) (hh : HashOK hash) (es : List BEntry)
    (hne : es ≠ []) (hwf : ∀ e ∈ es, EntryWF e) (hsz : (Block.encode ri hash es).length < 2 ^ 32) :
    ∃ r, Block.openBlock hash (Block.encode ri hash es) = some r ∧ Block.decodeAll r = es := by
  have _ := hri; have _ := hne   -- neither side condition is needed
  exact block_roundtrip_aux ri hash hh es hwf hsz

theorem collectB_none (es : List BEntry) (fuel : Nat) :
    collectB fuel ({ es := es, pos := none, init := true } : Block.Iter) = [] := by
  cases fuel with
  | zero => rfl
  | succ f => simp [collectB, Block.Iter.cur, Block.Iter.valid]

theorem collectB_from (es : List BEntry) :
    ∀ (fuel i : Nat), i < es.length → es.length - i ≤ fuel →
      collectB fuel ({ es := es, pos := some i, init := true } : Block.Iter) = es.drop i := by
  intro fuel
  induction fuel with
  | zero => intro i hi hf; omega
  | succ f ih =>
    intro i hi hf
    have hcur : ({ es := es, pos := some i, init := true } : Block.Iter).cur = some es[i] := by
      simp [Block.Iter.cur, hi]
    have hval : ({ es := es, pos := some i, init := true } : Block.Iter).valid = true := by
      simp [Block.Iter.valid, hcur]
    rw [collectB]
    simp only [hcur, hval]
    rw [List.drop_eq_getElem_cons hi]
    congr 1
    by_cases h : i + 1 < es.length
    · simp only [Block.Iter.next, h]
      simpa using ih (i + 1) h (by omega)
    · simp only [Block.Iter.next, h]
      simp [collectB_none]
      omega

/-- (B2) forward iteration yields every entry exactly once, in order. -/
theorem block_iter_all (es : List BEntry) :
    collectB (es.length + 1) ({ es := es } : Block.Iter).first = es := by
  cases es with
  | nil => simp [collectB, Block.Iter.first, Block.Iter.cur, Block.Iter.valid]
  | cons e es =>
    have := collectB_from (e :: es) ((e :: es).length + 1) 0 (by simp) (by omega)
    simpa [Block.Iter.first] using this

/-- (B3) Seek(t) lands on the first entry with key ≥ t, or is invalid if there is none. -/
theorem block_seek_spec (es : List BEntry) (hasc : Block.strictAsc es = true) (t : Bytes) :
    let r := ({ es := es } : Block.Iter).seek t
    match r.1.cur with
    | some e => r.2 = true ∧ r.1.valid = true ∧ e ∈ es ∧ ltB e.key t = false ∧ (∀ e' ∈ es, ltB e'.key t = false → ltB e'.key e.key = false)
    | none => r.2 = false ∧ r.1.valid = false ∧ ∀ e ∈ es, ltB e.key t = true := by
  intro r
  by_cases hemp : es = []
  · subst hemp
    simp [r, Block.Iter.seek, Block.Iter.cur, Block.Iter.valid]
  · have hr : r = ({ es := es, pos := findGE es t, init := true }, (findGE es t).isSome) := by
      simp [r, Block.Iter.seek, hemp]
    rw [hr]
    cases hf : findGE es t with
    | none =>
      simp only [Block.Iter.cur, Block.Iter.valid, Option.bind_none, Option.isSome_none, true_and]
      exact findGE_none es t hf
    | some i =>
      obtain ⟨hi, h1, h2⟩ := findGE_some es hasc t i hf
      have hc : (Option.some i).bind (fun i => es[i]?) = some es[i] := by simp [hi]
      simp only [Block.Iter.cur, Block.Iter.valid, hc, Option.isSome_some, true_and]
      exact ⟨List.getElem_mem _, h1, h2⟩

/-- (T1) a table file written from a strictly ascending entry list opens, and reading its blocks in index order
    gives back exactly the entries written (any number of blocks, with or without bloom filters). -/
theorem table_roundtrip (p : Params) (hp : Params.WF p) (hash fnv : Bytes → Nat) (hh : HashOK hash) (ts : Nat)
    (hts : ts < 2 ^ 64) (bloom : Bool) (es : List BEntry) (hne : es ≠ []) (hasc : Block.strictAsc es = true)
    (hwf : ∀ e ∈ es, EntryWF e) (hsz : (Table.encode p hash fnv ts bloom es).length < 2 ^ 32) :
    ∃ r, Table.openTable p hash (Table.encode p hash fnv ts bloom es) = some r ∧ Table.allEntries hash r = some es := by
  have _ := hasc   -- not needed for the round trip
  have h := table_roundtrip_aux p hp.split.1 hash fnv hh ts hts bloom (hp.split.2 bloom) es hne hwf hsz
  exact ⟨_, h.1, h.2⟩

/-- the size conjunct of `Params.WF` cannot be dropped: without it `table_roundtrip` is refutable — parameters that
    satisfy all other conjuncts (bloomBits = 2^30 < 2^32), one well-formed entry, a 134 MB file (< 2^32), and
    `openTable` returns `none` because the filter (32 + 2^27 bytes) exceeds the 64 MiB limit of the loading loop. -/
theorem bloom_filter_size_limit_needed :
    ¬ (∀ (p : Params) (_ : PWF p) (hash fnv : Bytes → Nat) (_ : HashOK hash) (ts : Nat)
        (_ : ts < 2 ^ 64) (bloom : Bool) (es : List BEntry) (_ : es ≠ []) (_ : Block.strictAsc es = true)
        (_ : ∀ e ∈ es, EntryWF e) (_ : (Table.encode p hash fnv ts bloom es).length < 2 ^ 32),
        ∃ r, Table.openTable p hash (Table.encode p hash fnv ts bloom es) = some r ∧
          Table.allEntries hash r = some es) := by
  intro h
  obtain ⟨r, hr, _⟩ := h cxP cx_pwf cxHash (fun bs => bs.length) cx_hok 0 (by omega) true cxEs (by simp [cxEs])
    (by decide) cx_ewf (by rw [cx_len]; omega)
  rw [cx_open] at hr
  cases hr

theorem collectT_none (es : List BEntry) (fuel : Nat) :
    collectT fuel ({ es := es, pos := none, init := true } : Table.TIter) = [] := by
  cases fuel with
  | zero => rfl
  | succ f => simp [collectT, Table.TIter.cur, Table.TIter.valid]

theorem collectT_from (es : List BEntry) :
    ∀ (fuel i : Nat), i < es.length → es.length - i ≤ fuel →
      collectT fuel ({ es := es, pos := some i, init := true } : Table.TIter) = es.drop i := by
  intro fuel
  induction fuel with
  | zero => intro i hi hf; omega
  | succ f ih =>
    intro i hi hf
    have hcur : ({ es := es, pos := some i, init := true } : Table.TIter).cur = some es[i] := by
      simp [Table.TIter.cur, hi]
    have hval : ({ es := es, pos := some i, init := true } : Table.TIter).valid = true := by
      simp [Table.TIter.valid, hcur]
    rw [collectT]
    simp only [hcur, hval]
    rw [List.drop_eq_getElem_cons hi]
    congr 1
    by_cases h : i + 1 < es.length
    · simp only [Table.TIter.next, h]
      simpa using ih (i + 1) h (by omega)
    · simp only [Table.TIter.next, h]
      simp [collectT_none]
      omega

/-- (T2) table-level iteration and seek over the flattened entries. -/
theorem table_iter_all (es : List BEntry) :
    collectT (es.length + 1) ({ es := es } : Table.TIter).first = es := by
  cases es with
  | nil => simp [collectT, Table.TIter.first, Table.TIter.cur, Table.TIter.valid]
  | cons e es =>
    have := collectT_from (e :: es) ((e :: es).length + 1) 0 (by simp) (by omega)
    simpa [Table.TIter.first] using this

theorem table_seek_spec (es : List BEntry) (hasc : Block.strictAsc es = true) (t : Bytes) :
    let r := ({ es := es } : Table.TIter).seek t
    match r.1.cur with
    | some e => r.2 = true ∧ r.1.valid = true ∧ e ∈ es ∧ ltB e.key t = false ∧ (∀ e' ∈ es, ltB e'.key t = false → ltB e'.key e.key = false)
    | none => r.2 = false ∧ r.1.valid = false ∧ ∀ e ∈ es, ltB e.key t = true := by
  intro r
  have hr : r = ({ es := es, pos := findGE es t, init := true }, (findGE es t).isSome) := by
    simp [r, Table.TIter.seek]
  rw [hr]
  cases hf : findGE es t with
  | none =>
    simp only [Table.TIter.cur, Table.TIter.valid, Option.bind_none, Option.isSome_none, true_and, if_true]
    exact findGE_none es t hf
  | some i =>
    obtain ⟨hi, h1, h2⟩ := findGE_some es hasc t i hf
    have hc : (Option.some i).bind (fun i => es[i]?) = some es[i] := by simp [hi]
    simp only [Table.TIter.cur, Table.TIter.valid, hc, Option.isSome_some, true_and, if_true]
    exact ⟨List.getElem_mem _, h1, h2⟩

/-- (T3) point lookup finds every written key with its value / deletion flag, and nothing else
    (needs: no bloom false negatives + each filter keyed by its own block's offset + candidate block choice). -/
theorem table_get_spec (p : Params) (hp : Params.WF p) (hash fnv : Bytes → Nat) (hh : HashOK hash) (ts : Nat)
    (hts : ts < 2 ^ 64) (bloom : Bool) (es : List BEntry) (hne : es ≠ []) (hasc : Block.strictAsc es = true)
    (hwf : ∀ e ∈ es, EntryWF e) (hsz : (Table.encode p hash fnv ts bloom es).length < 2 ^ 32) (k : Bytes) :
    ∀ r, Table.openTable p hash (Table.encode p hash fnv ts bloom es) = some r →
      Table.get hash fnv r k = (match es.find? (fun e => e.key = k) with
        | some e => .found e.val
        | none => .notFound) := by
  intro r hr
  exact table_get_aux p hp.split.1 hash fnv hh ts hts bloom (hp.split.2 bloom) es hne hasc hwf hsz k r hr

end Kevo.Proofs.Table
