/-
  Kevo.Proofs.Compaction — C12: a compaction preserves the newest-wins merged view of the table directory.

  The argument is per key: `Top D k t` says that `t` is the newest file of `D` holding `k` (load order of the storage
  manager: deeper level first, then time stamp); the view of `k` is what that file holds. A compaction replaces the
  inputs holding `k` by at most one output holding the entry of the newest input; the hypotheses say where the
  untouched holders of `k` sit relative to the inputs and to the output position.
-/
import Kevo.Proofs.CompactionLemmas
import Kevo.Gen.Compaction
namespace Kevo.Proofs.Compaction
open Kevo Kevo.Engine Kevo.Compaction

/-! ### hypotheses -/

/-- the untouched files are recency-ordered around the inputs: an untouched file that shares a key with an input is
    either above the output level and newer than every input holding that key, or at/below the output level and older
    than every input holding it. -/
def RecencyOrdered (task : Task) (untouched : List SST) : Prop :=
  ∀ k, ∀ u ∈ untouched, has u k = true → (∃ i ∈ task.inputs, has i k = true) →
    (u.level < task.target ∧ ∀ i ∈ task.inputs, has i k = true → sstOlder i u = true) ∨
    (task.target ≤ u.level ∧ ∀ i ∈ task.inputs, has i k = true → sstOlder u i = true)

/-- the merged stream of a task -/
def merged (task : Task) : List KV := mergeSources ((sourceOrder task).map kvs)

/-- a deletion marker is dropped only if no untouched file at or below the output level holds the key -/
def TombstoneSafe (cfg : Kevo.Compaction.Cfg) (tr : Tracker) (now : Nat) (task : Task) (untouched : List SST) : Prop :=
  ∀ k e, lookup (merged task) k = some e → keepEntry cfg tr now task.target e.1 e.2 = false →
    ∀ u ∈ untouched, has u k = true → u.level < task.target

/-- side conditions that hold for every task the strategy builds: files are identified by their time stamps, the
    clock is ahead of every existing file, inputs are not below the output level -/
structure TaskWF (task : Task) (untouched : List SST) (clock : Nat) : Prop where
  distinct : DistinctTs (task.inputs ++ untouched)
  clock : ∀ t ∈ task.inputs ++ untouched, t.ts < clock
  levels : ∀ i ∈ task.inputs, i.level ≤ task.target

/-! ### source order -/

theorem newerFirst_iff (a b : SST) : newerFirst a b = true ↔ a.ts > b.ts ∨ (a.ts = b.ts ∧ a.fileNum ≥ b.fileNum) := by
  unfold newerFirst
  by_cases h : a.ts = b.ts
  · simp [h]
  · simp [h] <;> omega

theorem newerFirst_total (a b : SST) : newerFirst a b = true ∨ newerFirst b a = true := by
  rw [newerFirst_iff, newerFirst_iff]; omega

theorem newerFirst_trans (a b c : SST) (h1 : newerFirst a b = true) (h2 : newerFirst b c = true) : newerFirst a c = true := by
  rw [newerFirst_iff] at *; omega

theorem mem_sourceOrder (task : Task) (t : SST) : t ∈ sourceOrder task ↔ t ∈ task.inputs ∧ t.level ≤ task.target := by
  unfold sourceOrder
  simp only [List.mem_flatMap, List.mem_range, mem_sortBy newerFirst newerFirst_total newerFirst_trans, List.mem_filter,
    beq_iff_eq]
  constructor
  · rintro ⟨l, hl, ht, rfl⟩; exact ⟨ht, by omega⟩
  · rintro ⟨ht, hl⟩; exact ⟨t.level, by omega, ht, rfl⟩

theorem sourceOrder_pairwise (task : Task) : (sourceOrder task).Pairwise (fun a b => sstOlder b a = true) := by
  unfold sourceOrder
  rw [List.pairwise_flatMap]
  constructor
  · intro l _
    have hs := sortBy_pairwise newerFirst newerFirst_total newerFirst_trans (task.inputs.filter (·.level == l))
    have hm : ∀ x ∈ sortBy newerFirst (task.inputs.filter (·.level == l)), x.level = l := by
      intro x hx
      have := (mem_sortBy newerFirst newerFirst_total newerFirst_trans _ x).mp hx
      simpa using (List.mem_filter.mp this).2
    refine List.Pairwise.imp_of_mem ?_ hs
    intro a b ha hb hab
    have h1 := hm a ha
    have h2 := hm b hb
    rw [newerFirst_iff] at hab
    rw [sstOlder_iff]
    omega
  · refine List.Pairwise.imp ?_ List.pairwise_lt_range
    intro l1 l2 hlt x hx y hy
    have h1 : x.level = l1 := by
      have := (mem_sortBy newerFirst newerFirst_total newerFirst_trans _ x).mp hx
      simpa using (List.mem_filter.mp this).2
    have h2 : y.level = l2 := by
      have := (mem_sortBy newerFirst newerFirst_total newerFirst_trans _ y).mp hy
      simpa using (List.mem_filter.mp this).2
    exact sstOlder_of_level (by omega)

theorem lookup_merged (task : Task) (k : Bytes) :
    lookup (merged task) k = (sourceOrder task).findSome? (fun t => lookup (kvs t) k) := by
  unfold merged
  rw [lookup_mergeSources, List.findSome?_map]
  rfl

/-- the merged stream carries, for every key, the entry of the newest input that holds it -/
theorem lookup_merged_top {task : Task} (hlev : ∀ i ∈ task.inputs, i.level ≤ task.target)
    (hd : DistinctTs task.inputs) {k : Bytes} {n : SST} (hn : Top task.inputs k n) :
    lookup (merged task) k = lookup (kvs n) k := by
  obtain ⟨hmem, hhas, hmax⟩ := hn
  have hnS : n ∈ sourceOrder task := (mem_sourceOrder task n).mpr ⟨hmem, hlev n hmem⟩
  rw [has_iff_lookup] at hhas
  rw [lookup_merged]
  cases hv : (sourceOrder task).findSome? (fun t => lookup (kvs t) k) with
  | none =>
    rw [List.findSome?_eq_none_iff] at hv
    rw [hv n hnS] at hhas
    simp at hhas
  | some r =>
    have hp : (sourceOrder task).reverse.Pairwise (fun a b => sstOlder a b = true) :=
      List.pairwise_reverse.mpr (sourceOrder_pairwise task)
    have hv' : (sourceOrder task).reverse.reverse.findSome? (fun t => lookup (kvs t) k) = some r := by
      rw [List.reverse_reverse]; exact hv
    obtain ⟨t0, ht0, hf0, hmax0⟩ := findSome_rev_sorted _ _ hp r hv'
    have ht0S : t0 ∈ sourceOrder task := List.mem_reverse.mp ht0
    have ht0I : t0 ∈ task.inputs := ((mem_sourceOrder task t0).mp ht0S).1
    have h1 : sstOlder n t0 = true := hmax0 n (List.mem_reverse.mpr hnS) hhas
    have h2 : sstOlder t0 n = true := hmax t0 ht0I (by rw [has_iff_lookup, hf0]; rfl)
    have : t0 = n := eq_of_ts_eq hd ht0I hmem (sstOlder_antisymm h2 h1)
    rw [← this, hf0]

theorem lookup_merged_none {task : Task} {k : Bytes} (h : ∀ i ∈ task.inputs, has i k = false) :
    lookup (merged task) k = none := by
  rw [lookup_merged, List.findSome?_eq_none_iff]
  intro t ht
  have := h t ((mem_sourceOrder task t).mp ht).1
  rw [has_iff_lookup] at this
  cases hl : lookup (kvs t) k with
  | none => rfl
  | some v => rw [hl] at this; simp at this

/-! ### outputs -/

theorem keptEntries_eq (cfg : Kevo.Compaction.Cfg) (tr : Tracker) (now : Nat) (task : Task) :
    keptEntries cfg tr now task = (merged task).filter (fun e => keepEntry cfg tr now task.target e.1 e.2) := rfl

theorem kept_sorted (cfg : Kevo.Compaction.Cfg) (tr : Tracker) (now : Nat) (task : Task) : SortedKV (keptEntries cfg tr now task) := by
  rw [keptEntries_eq]
  exact List.Pairwise.filter _ (mergeSources_sorted _)

theorem lookup_kept (cfg : Kevo.Compaction.Cfg) (tr : Tracker) (now : Nat) (task : Task) (k : Bytes) :
    lookup (keptEntries cfg tr now task) k =
      (lookup (merged task) k).filter (fun e => keepEntry cfg tr now task.target e.1 e.2) := by
  rw [keptEntries_eq]
  exact lookup_filter_sorted (mergeSources_sorted _) _ k

theorem keepEntry_value (cfg : Kevo.Compaction.Cfg) (tr : Tracker) (now target : Nat) (k v : Bytes) :
    keepEntry cfg tr now target k (some v) = true := by
  unfold keepEntry
  simp

theorem output_props {cfg : Kevo.Compaction.Cfg} {tr : Tracker} {now clock : Nat} {task : Task} {o : SST}
    (ho : o ∈ compactFiles cfg tr now clock task) :
    o.level = task.target ∧ clock ≤ o.ts ∧ ∀ e ∈ kvs o, e ∈ keptEntries cfg tr now task := by
  unfold compactFiles at ho
  obtain ⟨h1, h2, h3⟩ := mem_mkOutputs _ 0 o ho
  refine ⟨h1, by omega, ?_⟩
  intro e he
  rw [← chunks_flatten cfg.sstMaxEntries (keptEntries cfg tr now task)]
  exact List.mem_flatten.mpr ⟨_, h3, he⟩

/-- an output that holds `k` holds exactly the surviving merged entry of `k` -/
theorem output_lookup {cfg : Kevo.Compaction.Cfg} {tr : Tracker} {now clock : Nat} {task : Task} {o : SST}
    (ho : o ∈ compactFiles cfg tr now clock task) {k : Bytes} (hk : has o k = true) :
    lookup (kvs o) k = lookup (keptEntries cfg tr now task) k := by
  rw [has_iff_lookup] at hk
  cases hl : lookup (kvs o) k with
  | none => rw [hl] at hk; simp at hk
  | some e =>
    obtain ⟨hek, hemem⟩ := lookup_key hl
    have := lookup_of_mem_sorted (kept_sorted cfg tr now task) ((output_props ho).2.2 e hemem)
    rw [hek] at this
    exact this.symm

theorem output_exists {cfg : Kevo.Compaction.Cfg} {tr : Tracker} {now clock : Nat} {task : Task} {k : Bytes} {e : KV}
    (h : lookup (keptEntries cfg tr now task) k = some e) :
    ∃ o ∈ compactFiles cfg tr now clock task, has o k = true := by
  obtain ⟨hek, hemem⟩ := lookup_key h
  rw [← chunks_flatten cfg.sstMaxEntries (keptEntries cfg tr now task)] at hemem
  obtain ⟨c, hc, hec⟩ := List.mem_flatten.mp hemem
  obtain ⟨o, ho, hkv⟩ := mkOutputs_covers (target := task.target) (clock := clock) _ 0 c hc
  refine ⟨o, ho, ?_⟩
  rw [has_iff_lookup, hkv]
  unfold lookup
  rw [List.find?_isSome]
  exact ⟨e, hec, by simpa using hek⟩

theorem outputs_distinct {cfg : Kevo.Compaction.Cfg} {tr : Tracker} {now clock : Nat} {task : Task} {U : List SST}
    (hU : DistinctTs U) (hclock : ∀ u ∈ U, u.ts < clock) :
    DistinctTs (compactFiles cfg tr now clock task ++ U) := by
  unfold DistinctTs
  rw [List.pairwise_append]
  refine ⟨mkOutputs_distinct _ 0, hU, ?_⟩
  intro o ho u hu
  have := (output_props ho).2.1
  have := hclock u hu
  omega

/-! ### the main theorem -/

theorem top_append_right {A B : List SST} {k : Bytes} {t : SST} (ht : Top B k t) (hA : ∀ a ∈ A, has a k = false) :
    Top (A ++ B) k t := by
  obtain ⟨h1, h2, h3⟩ := ht
  refine ⟨List.mem_append_right _ h1, h2, ?_⟩
  intro t' ht' hk
  rcases List.mem_append.mp ht' with h | h
  · rw [hA t' h] at hk; exact Bool.noConfusion hk
  · exact h3 t' h hk

theorem not_has_iff {t : SST} {k : Bytes} : ¬ has t k = true ↔ has t k = false := by
  cases has t k <;> simp

/-- view of one key after replacing the inputs by a set `O` of files that behave like compaction outputs -/
theorem compact_key (cfg : Kevo.Compaction.Cfg) (tr : Tracker) (now clock : Nat) (task : Task) (U : List SST)
    (hwf : TaskWF task U clock) (hro : RecencyOrdered task U) (hsafe : TombstoneSafe cfg tr now task U) (k : Bytes) :
    mergedView (compactFiles cfg tr now clock task ++ U) k = mergedView (task.inputs ++ U) k := by
  have hts := hwf.distinct
  have hlev := hwf.levels
  have hclock := hwf.clock
  have htsI : DistinctTs task.inputs := (List.pairwise_append.mp hts).1
  have htsU : DistinctTs U := (List.pairwise_append.mp hts).2.1
  have hcross : ∀ a ∈ task.inputs, ∀ b ∈ U, a.ts ≠ b.ts := (List.pairwise_append.mp hts).2.2
  have hclockU : ∀ u ∈ U, u.ts < clock := fun u hu => hclock u (List.mem_append_right _ hu)
  have htsO := outputs_distinct (cfg := cfg) (tr := tr) (now := now) (task := task) htsU hclockU
  unfold mergedView
  by_cases hI : ∃ i ∈ task.inputs, has i k = true
  · obtain ⟨n, hn⟩ := exists_top task.inputs k hI
    have hnk : has n k = true := hn.2.1
    have hnI : n ∈ task.inputs := hn.1
    have hmerged := lookup_merged_top hlev htsI hn
    by_cases hnew : ∃ u ∈ U, has u k = true ∧ u.level < task.target
    · -- an untouched holder above the output level decides the view before and after
      obtain ⟨u0, hu0, hu0k, hu0l⟩ := hnew
      obtain ⟨t, ht⟩ := exists_top (task.inputs ++ U) k ⟨n, List.mem_append_left _ hnI, hnk⟩
      obtain ⟨htm, htk, htmax⟩ := ht
      have hu0cls : ∀ i ∈ task.inputs, has i k = true → sstOlder i u0 = true := by
        rcases hro k u0 hu0 hu0k hI with h | h
        · exact h.2
        · omega
      have htU : t ∈ U := by
        rcases List.mem_append.mp htm with h | h
        · have h1 := hu0cls t h htk
          have h2 := htmax u0 (List.mem_append_right _ hu0) hu0k
          exact absurd (sstOlder_antisymm h1 h2) (hcross t h u0 hu0)
        · exact h
      have htl : t.level < task.target := by
        rcases hro k t htU htk hI with h | h
        · exact h.1
        · have h1 := h.2 n hnI hnk
          have h2 := htmax n (List.mem_append_left _ hnI) hnk
          exact absurd (sstOlder_antisymm h2 h1) (hcross n hnI t htU)
      have htop' : Top (compactFiles cfg tr now clock task ++ U) k t := by
        refine ⟨List.mem_append_right _ htU, htk, ?_⟩
        intro t' ht' hk'
        rcases List.mem_append.mp ht' with h | h
        · have := (output_props h).1
          exact sstOlder_of_level (by omega)
        · exact htmax t' (List.mem_append_right _ h) hk'
      rw [viewEntry_top htsO htop', viewEntry_top hts ⟨htm, htk, htmax⟩]
    · -- every untouched holder is at or below the output level and older than the inputs holding the key
      have hold : ∀ u ∈ U, has u k = true → task.target ≤ u.level ∧ sstOlder u n = true := by
        intro u hu huk
        rcases hro k u hu huk hI with h | h
        · exact absurd ⟨u, hu, huk, h.1⟩ hnew
        · exact ⟨h.1, h.2 n hnI hnk⟩
      have htopD : Top (task.inputs ++ U) k n := by
        refine ⟨List.mem_append_left _ hnI, hnk, ?_⟩
        intro t' ht' hk'
        rcases List.mem_append.mp ht' with h | h
        · exact hn.2.2 t' h hk'
        · exact (hold t' h hk').2
      rw [viewEntry_top hts htopD, get_eq_lookup, ← hmerged]
      rw [has_iff_lookup, ← hmerged] at hnk
      cases hm : lookup (merged task) k with
      | none => rw [hm] at hnk; simp at hnk
      | some e =>
        by_cases hkeep : keepEntry cfg tr now task.target e.1 e.2 = true
        · have hkept : lookup (keptEntries cfg tr now task) k = some e := by
            rw [lookup_kept, hm]; simp [Option.filter, hkeep]
          obtain ⟨o, ho⟩ := exists_top (compactFiles cfg tr now clock task) k (output_exists (clock := clock) hkept)
          have htop' : Top (compactFiles cfg tr now clock task ++ U) k o := by
            refine ⟨List.mem_append_left _ ho.1, ho.2.1, ?_⟩
            intro t' ht' hk'
            rcases List.mem_append.mp ht' with h | h
            · exact ho.2.2 t' h hk'
            · have h1 := (hold t' h hk').1
              have h2 := output_props ho.1
              have h3 := hclockU t' h
              rw [sstOlder_iff]
              omega
          rw [viewEntry_top htsO htop', get_eq_lookup, output_lookup ho.1 ho.2.1, hkept]
        · have hkeep' : keepEntry cfg tr now task.target e.1 e.2 = false := by simpa using hkeep
          have hkept : lookup (keptEntries cfg tr now task) k = none := by
            rw [lookup_kept, hm]; simp [Option.filter, hkeep']
          have he2 : e.2 = none := by
            cases h2 : e.2 with
            | none => rfl
            | some v => rw [h2, keepEntry_value] at hkeep'; exact Bool.noConfusion hkeep'
          have hnoU : ∀ u ∈ U, has u k = false := by
            intro u hu
            apply not_has_iff.mp
            intro huk
            have := hsafe k e hm hkeep' u hu huk
            have := (hold u hu huk).1
            omega
          have hnoO : ∀ o ∈ compactFiles cfg tr now clock task, has o k = false := by
            intro o ho
            apply not_has_iff.mp
            intro hok
            have := output_lookup ho hok
            rw [hkept] at this
            rw [has_iff_lookup, this] at hok
            simp at hok
          have hnone : viewEntry (compactFiles cfg tr now clock task ++ U) k = none := by
            apply viewEntry_none
            intro t ht
            rcases List.mem_append.mp ht with h | h
            · exact hnoO t h
            · exact hnoU t h
          rw [hnone]
          simp [he2]
  · -- no input holds the key: the outputs do not hold it either
    have hnoI : ∀ i ∈ task.inputs, has i k = false := by
      intro i hi
      apply not_has_iff.mp
      intro hk
      exact hI ⟨i, hi, hk⟩
    have hkept : lookup (keptEntries cfg tr now task) k = none := by
      rw [lookup_kept, lookup_merged_none hnoI]; rfl
    have hnoO : ∀ o ∈ compactFiles cfg tr now clock task, has o k = false := by
      intro o ho
      apply not_has_iff.mp
      intro hok
      have := output_lookup ho hok
      rw [hkept] at this
      rw [has_iff_lookup, this] at hok
      simp at hok
    by_cases hU : ∃ u ∈ U, has u k = true
    · obtain ⟨t, ht⟩ := exists_top U k hU
      rw [viewEntry_top htsO (top_append_right ht hnoO), viewEntry_top hts (top_append_right ht hnoI)]
    · have hnoU : ∀ u ∈ U, has u k = false := by
        intro u hu
        apply not_has_iff.mp
        intro hk
        exact hU ⟨u, hu, hk⟩
      have h1 : viewEntry (compactFiles cfg tr now clock task ++ U) k = none := by
        apply viewEntry_none
        intro t ht
        rcases List.mem_append.mp ht with h | h
        · exact hnoO t h
        · exact hnoU t h
      have h2 : viewEntry (task.inputs ++ U) k = none := by
        apply viewEntry_none
        intro t ht
        rcases List.mem_append.mp ht with h | h
        · exact hnoI t h
        · exact hnoU t h
      rw [h1, h2]

/-- C12 main theorem: the merged view of outputs + untouched files equals the merged view before. -/
theorem compact_preserves_merged_view (cfg : Kevo.Compaction.Cfg) (tr : Tracker) (now clock : Nat) (task : Task) (untouched : List SST)
    (hwf : TaskWF task untouched clock) (hro : RecencyOrdered task untouched)
    (hsafe : TombstoneSafe cfg tr now task untouched) :
    mergedView (compactFiles cfg tr now clock task ++ untouched) = mergedView (task.inputs ++ untouched) := by
  funext k
  exact compact_key cfg tr now clock task untouched hwf hro hsafe k

/-- a key whose newest version is a deletion marker (or that is absent) stays absent -/
theorem deleted_stays_deleted (cfg : Kevo.Compaction.Cfg) (tr : Tracker) (now clock : Nat) (task : Task) (untouched : List SST)
    (hwf : TaskWF task untouched clock) (hro : RecencyOrdered task untouched)
    (hsafe : TombstoneSafe cfg tr now task untouched) (k : Bytes)
    (hdel : mergedView (task.inputs ++ untouched) k = none) :
    mergedView (compactFiles cfg tr now clock task ++ untouched) k = none := by
  rw [compact_key cfg tr now clock task untouched hwf hro hsafe k]; exact hdel

/-- a selection that shares no key with the untouched files satisfies both hypotheses -/
def KeyDisjoint (task : Task) (untouched : List SST) : Prop :=
  ∀ k, ∀ u ∈ untouched, has u k = true → ∀ i ∈ task.inputs, has i k = false

theorem recencyOrdered_of_disjoint {task : Task} {U : List SST} (h : KeyDisjoint task U) : RecencyOrdered task U := by
  intro k u hu huk ⟨i, hi, hik⟩
  rw [h k u hu huk i hi] at hik
  exact Bool.noConfusion hik

theorem tombstoneSafe_of_disjoint {cfg : Kevo.Compaction.Cfg} {tr : Tracker} {now : Nat} {task : Task} {U : List SST}
    (h : KeyDisjoint task U) : TombstoneSafe cfg tr now task U := by
  intro k e hm _ u hu huk
  -- the key of a merged entry is held by some input
  rw [lookup_merged] at hm
  have : ∃ t ∈ sourceOrder task, lookup (kvs t) k = some e := by
    have := List.exists_of_findSome?_eq_some hm
    exact this
  obtain ⟨t, ht, hl⟩ := this
  have hti := ((mem_sourceOrder task t).mp ht).1
  have := h k u hu huk t hti
  rw [has_iff_lookup, hl] at this
  simp at this

/-! ### inputs and outputs side by side (the state between "outputs done" and "inputs deleted", and every state with
      only some of the outputs written): the view is the old one. No condition on deletion markers is needed. -/

theorem compact_mid_key (cfg : Kevo.Compaction.Cfg) (tr : Tracker) (now clock : Nat) (task : Task) (U : List SST)
    (hwf : TaskWF task U clock) (hro : RecencyOrdered task U) (O' : List SST)
    (hsub : ∀ o ∈ O', o ∈ compactFiles cfg tr now clock task) (hO' : DistinctTs O') (k : Bytes) :
    mergedView (O' ++ (task.inputs ++ U)) k = mergedView (task.inputs ++ U) k := by
  have hts := hwf.distinct
  have hlev := hwf.levels
  have hclock := hwf.clock
  have htsI : DistinctTs task.inputs := (List.pairwise_append.mp hts).1
  have hcross : ∀ a ∈ task.inputs, ∀ b ∈ U, a.ts ≠ b.ts := (List.pairwise_append.mp hts).2.2
  have htsD : DistinctTs (O' ++ (task.inputs ++ U)) := by
    unfold DistinctTs
    rw [List.pairwise_append]
    refine ⟨hO', hts, ?_⟩
    intro o ho t ht
    have := (output_props (hsub o ho)).2.1
    have := hclock t ht
    omega
  unfold mergedView
  by_cases hI : ∃ i ∈ task.inputs, has i k = true
  · obtain ⟨n, hn⟩ := exists_top task.inputs k hI
    have hnk : has n k = true := hn.2.1
    have hnI : n ∈ task.inputs := hn.1
    have hmerged := lookup_merged_top hlev htsI hn
    by_cases hnew : ∃ u ∈ U, has u k = true ∧ u.level < task.target
    · obtain ⟨u0, hu0, hu0k, hu0l⟩ := hnew
      obtain ⟨t, ht⟩ := exists_top (task.inputs ++ U) k ⟨n, List.mem_append_left _ hnI, hnk⟩
      obtain ⟨htm, htk, htmax⟩ := ht
      have hu0cls : ∀ i ∈ task.inputs, has i k = true → sstOlder i u0 = true := by
        rcases hro k u0 hu0 hu0k hI with h | h
        · exact h.2
        · omega
      have htU : t ∈ U := by
        rcases List.mem_append.mp htm with h | h
        · have h1 := hu0cls t h htk
          have h2 := htmax u0 (List.mem_append_right _ hu0) hu0k
          exact absurd (sstOlder_antisymm h1 h2) (hcross t h u0 hu0)
        · exact h
      have htl : t.level < task.target := by
        rcases hro k t htU htk hI with h | h
        · exact h.1
        · have h1 := h.2 n hnI hnk
          have h2 := htmax n (List.mem_append_left _ hnI) hnk
          exact absurd (sstOlder_antisymm h2 h1) (hcross n hnI t htU)
      have htop' : Top (O' ++ (task.inputs ++ U)) k t := by
        refine ⟨List.mem_append_right _ htm, htk, ?_⟩
        intro t' ht' hk'
        rcases List.mem_append.mp ht' with h | h
        · have := (output_props (hsub t' h)).1
          exact sstOlder_of_level (by omega)
        · exact htmax t' h hk'
      rw [viewEntry_top htsD htop', viewEntry_top hts ⟨htm, htk, htmax⟩]
    · have hold : ∀ u ∈ U, has u k = true → sstOlder u n = true := by
        intro u hu huk
        rcases hro k u hu huk hI with h | h
        · exact absurd ⟨u, hu, huk, h.1⟩ hnew
        · exact h.2 n hnI hnk
      have htopD : Top (task.inputs ++ U) k n := by
        refine ⟨List.mem_append_left _ hnI, hnk, ?_⟩
        intro t' ht' hk'
        rcases List.mem_append.mp ht' with h | h
        · exact hn.2.2 t' h hk'
        · exact hold t' h hk'
      obtain ⟨t, ht⟩ := exists_top (O' ++ (task.inputs ++ U)) k
        ⟨n, List.mem_append_right _ (List.mem_append_left _ hnI), hnk⟩
      have hget : t.get k = n.get k := by
        obtain ⟨htm, htk, htmax⟩ := ht
        have hnt : sstOlder n t = true := htmax n (List.mem_append_right _ (List.mem_append_left _ hnI)) hnk
        rcases List.mem_append.mp htm with h | h
        · -- an output holding k holds the merged entry, which is the entry of n
          have h1 := output_lookup (hsub t h) htk
          rw [lookup_kept, hmerged] at h1
          rw [has_iff_lookup] at htk
          rw [get_eq_lookup, get_eq_lookup, h1]
          cases hl : lookup (kvs n) k with
          | none => rw [h1, hl] at htk; simp [Option.filter] at htk
          | some e =>
            rw [h1, hl] at htk
            by_cases hkeep : keepEntry cfg tr now task.target e.1 e.2 = true
            · simp [Option.filter, hkeep]
            · simp [Option.filter, hkeep] at htk
        · rcases List.mem_append.mp h with h | h
          · have : t = n := eq_of_ts_eq htsI h hnI (sstOlder_antisymm (hn.2.2 t h htk) hnt)
            rw [this]
          · exact absurd (sstOlder_antisymm hnt (hold t h htk)) (hcross n hnI t h)
      rw [viewEntry_top htsD ht, viewEntry_top hts htopD, hget]
  · have hnoI : ∀ i ∈ task.inputs, has i k = false := by
      intro i hi
      apply not_has_iff.mp
      intro hk
      exact hI ⟨i, hi, hk⟩
    have hkept : lookup (keptEntries cfg tr now task) k = none := by
      rw [lookup_kept, lookup_merged_none hnoI]; rfl
    have hnoO : ∀ o ∈ O', has o k = false := by
      intro o ho
      apply not_has_iff.mp
      intro hok
      have := output_lookup (hsub o ho) hok
      rw [hkept] at this
      rw [has_iff_lookup, this] at hok
      simp at hok
    by_cases hD : ∃ t ∈ task.inputs ++ U, has t k = true
    · obtain ⟨t, ht⟩ := exists_top (task.inputs ++ U) k hD
      rw [viewEntry_top htsD (top_append_right ht hnoO), viewEntry_top hts ht]
    · have hnoD : ∀ t ∈ task.inputs ++ U, has t k = false := by
        intro t ht
        apply not_has_iff.mp
        intro hk
        exact hD ⟨t, ht, hk⟩
      have h1 : viewEntry (O' ++ (task.inputs ++ U)) k = none := by
        apply viewEntry_none
        intro t ht
        rcases List.mem_append.mp ht with h | h
        · exact hnoO t h
        · exact hnoD t h
      rw [h1, viewEntry_none hnoD]

/-! ### shape of the outputs -/

theorem map_kvs_mkOutputs (target clock : Nat) : ∀ (cs : List (List KV)) (i : Nat),
    (mkOutputs target clock i cs).map kvs = cs := by
  intro cs
  induction cs with
  | nil => intro i; rfl
  | cons c cs ih => intro i; simp [mkOutputs, kvs_mkOutput, ih]

theorem mkOutputs_seq0 {target clock : Nat} : ∀ (cs : List (List KV)) (i : Nat) (o : SST),
    o ∈ mkOutputs target clock i cs → ∀ e ∈ o.entries, e.seq = 0 := by
  intro cs
  induction cs with
  | nil => intro i o h; simp [mkOutputs] at h
  | cons c cs ih =>
    intro i o h
    unfold mkOutputs at h
    rcases List.mem_cons.mp h with rfl | h
    · intro e he
      unfold mkOutput at he
      simp only [List.mem_map] at he
      obtain ⟨x, _, rfl⟩ := he
      rfl
    · exact ih (i + 1) o h

/-- the outputs, read one after the other, are strictly ascending in the key: every output is sorted without duplicate
    keys and the outputs do not overlap; no output is empty; all entries carry sequence number 0 -/
theorem outputs_sorted_unique (cfg : Kevo.Compaction.Cfg) (tr : Tracker) (now clock : Nat) (task : Task) :
    SortedKV ((compactFiles cfg tr now clock task).flatMap kvs) ∧
    (∀ o ∈ compactFiles cfg tr now clock task, SortedKV (kvs o) ∧ kvs o ≠ [] ∧ ∀ e ∈ o.entries, e.seq = 0) := by
  have hflat : (compactFiles cfg tr now clock task).flatMap kvs = keptEntries cfg tr now task := by
    unfold compactFiles
    rw [List.flatMap_def, map_kvs_mkOutputs, chunks_flatten]
  have hs := kept_sorted cfg tr now task
  refine ⟨hflat ▸ hs, ?_⟩
  intro o ho
  have hmem : kvs o ∈ chunks cfg.sstMaxEntries (keptEntries cfg tr now task) := by
    unfold compactFiles at ho
    exact (mem_mkOutputs _ 0 o ho).2.2
  refine ⟨?_, cut_nonempty _ _ [] _ hmem, ?_⟩
  · have : SortedKV (chunks cfg.sstMaxEntries (keptEntries cfg tr now task)).flatten := by
      rw [chunks_flatten]; exact hs
    exact (List.pairwise_flatten.mp this).1 _ hmem
  · unfold compactFiles at ho
    exact mkOutputs_seq0 _ 0 o ho

/-! ### reopening on the directory with the log retired -/

/-- with no log entry left, the reopened engine reads exactly the merged view of the directory -/
theorem reopen_on_compacted_dir (c : CSt) (hlog : c.eng.wal.flatten = []) (k : Bytes) :
    Engine.get (creopen c).eng k = mergedView c.dir k := by
  unfold creopen reopen
  simp only [hlog]
  unfold Engine.get mergedView viewEntry
  simp [recoverTables, Pool.get, MemTable.get, findIn]
  cases (sortSSTs c.dir).reverse.findSome? (fun t => t.get k) <;> rfl

/-! ### order of the steps of a cycle -/

theorem mem_removeFiles {dir dels : List SST} {t : SST} : t ∈ removeFiles dir dels ↔ t ∈ dir ∧ isInput dels t = false := by
  unfold removeFiles
  simp [List.mem_filter]

/-- runCompactionCycle: the hook-site events are `outputFinished`* `outputsDone` `inputsMarked` `inputDeleted`*; every
    state before the first deletion still holds every old file, and every state from the first deletion on holds every
    output (the outputs are fresh files: they are not among the files being deleted). -/
theorem inputs_removed_after_outputs (dir : List SST) (ft : FileTracker) (task : Task) (outputs : List SST)
    (hfresh : ∀ o ∈ outputs, ∀ x ∈ ft.obsolete ++ task.inputs, sameFile o x = false) :
    (∃ m, (cycleSteps dir ft task outputs).1.map (·.1) =
        List.replicate outputs.length Ev.outputFinished ++ [Ev.outputsDone, Ev.inputsMarked] ++ List.replicate m Ev.inputDeleted) ∧
    (∀ s ∈ (cycleSteps dir ft task outputs).1, s.1 ≠ Ev.inputDeleted → ∀ t ∈ dir, t ∈ s.2) ∧
    (∀ s ∈ (cycleSteps dir ft task outputs).1, s.1 = Ev.inputDeleted → ∀ o ∈ outputs, o ∈ s.2) := by
  unfold cycleSteps
  simp only
  refine ⟨⟨((((ft.markPending task.inputs).unmarkPending task.inputs).markObsolete task.inputs).cleanup.2).length, ?_⟩, ?_, ?_⟩
  · simp only [List.map_append, List.map_map, List.map_cons, List.map_nil]
    congr 1
    · congr 1
      rw [show ((fun x : Ev × List SST => x.1) ∘ fun i => (Ev.outputFinished, dir ++ List.take (i + 1) outputs)) =
        fun _ => Ev.outputFinished from rfl, List.map_const', List.length_range]
    · rw [show ((fun x : Ev × List SST => x.1) ∘ fun i => (Ev.inputDeleted, removeFiles (dir ++ outputs)
          (List.take (i + 1) (((ft.markPending task.inputs).unmarkPending task.inputs).markObsolete task.inputs).cleanup.2))) =
        fun _ => Ev.inputDeleted from rfl, List.map_const', List.length_range]
  · intro s hs hne t ht
    simp only [List.mem_append, List.mem_map, List.mem_range, List.mem_cons, List.mem_nil_iff, or_false] at hs
    rcases hs with (⟨i, _, rfl⟩ | rfl | rfl) | ⟨i, _, rfl⟩
    · exact List.mem_append_left _ ht
    · exact List.mem_append_left _ ht
    · exact List.mem_append_left _ ht
    · exact absurd rfl hne
  · intro s hs heq o ho
    simp only [List.mem_append, List.mem_map, List.mem_range, List.mem_cons, List.mem_nil_iff, or_false] at hs
    rcases hs with (⟨i, _, rfl⟩ | rfl | rfl) | ⟨i, _, rfl⟩
    · cases heq
    · cases heq
    · cases heq
    · rw [mem_removeFiles]
      refine ⟨List.mem_append_right _ ho, ?_⟩
      unfold isInput
      rw [List.any_eq_false]
      intro x hx
      have hx1 := List.mem_of_mem_take hx
      unfold FileTracker.cleanup FileTracker.markObsolete FileTracker.unmarkPending FileTracker.markPending at hx1
      simp only [List.mem_filter] at hx1
      have := hfresh o ho x hx1.1
      simp [this]

/-! ### the cycle of the model ends in `outputs ++ untouched` (up to order), and the view does not depend on the order -/

theorem top_perm {D D' : List SST} (h : D.Perm D') {k : Bytes} {t : SST} (ht : Top D k t) : Top D' k t :=
  ⟨h.mem_iff.mp ht.1, ht.2.1, fun t' ht' hk => ht.2.2 t' (h.mem_iff.mpr ht') hk⟩

theorem distinctTs_perm {D D' : List SST} (h : D.Perm D') (hd : DistinctTs D) : DistinctTs D' :=
  (h.pairwise_iff (fun {_ _} hne => fun heq => hne heq.symm)).mp hd

/-- the merged view is a function of the SET of files -/
theorem mergedView_perm {D D' : List SST} (hd : DistinctTs D) (h : D.Perm D') : mergedView D = mergedView D' := by
  funext k
  unfold mergedView
  by_cases hk : ∃ t ∈ D, has t k = true
  · obtain ⟨t, ht⟩ := exists_top D k hk
    rw [viewEntry_top hd ht, viewEntry_top (distinctTs_perm h hd) (top_perm h ht)]
  · have h1 : ∀ t ∈ D, has t k = false := fun t ht => not_has_iff.mp (fun hh => hk ⟨t, ht, hh⟩)
    have h2 : ∀ t ∈ D', has t k = false := fun t ht => h1 t (h.mem_iff.mpr ht)
    rw [viewEntry_none h1, viewEntry_none h2]

theorem sameFile_self (t : SST) : sameFile t t = true := by simp [sameFile]

theorem isInput_of_mem {inputs : List SST} {t : SST} (h : t ∈ inputs) : isInput inputs t = true := by
  unfold isInput
  rw [List.any_eq_true]
  exact ⟨t, h, sameFile_self t⟩

theorem isInput_false_of_ts {inputs : List SST} {t : SST} (h : ∀ x ∈ inputs, x.ts ≠ t.ts) : isInput inputs t = false := by
  unfold isInput
  rw [List.any_eq_false]
  intro x hx
  have := h x hx
  simp only [sameFile, Bool.and_eq_true, beq_iff_eq, not_and]
  intro _ heq
  exact this heq.symm

theorem removeFiles_self (inputs : List SST) : removeFiles inputs inputs = [] := by
  unfold removeFiles
  rw [List.filter_eq_nil_iff]
  intro a ha
  simp [isInput_of_mem ha]

theorem removeFiles_keep {l inputs : List SST} (h : ∀ t ∈ l, ∀ x ∈ inputs, x.ts ≠ t.ts) : removeFiles l inputs = l := by
  unfold removeFiles
  rw [List.filter_eq_self]
  intro a ha
  simp [isInput_false_of_ts (h a ha)]

/-- removing the inputs from `dir ++ outputs` leaves `outputs ++ untouched`, up to order -/
theorem removeFiles_perm {dir inputs U outs : List SST} (hp : dir.Perm (inputs ++ U))
    (hU : ∀ t ∈ U, ∀ x ∈ inputs, x.ts ≠ t.ts) (hO : ∀ t ∈ outs, ∀ x ∈ inputs, x.ts ≠ t.ts) :
    (removeFiles (dir ++ outs) inputs).Perm (outs ++ U) := by
  have h1 : removeFiles (dir ++ outs) inputs = removeFiles dir inputs ++ removeFiles outs inputs := by
    unfold removeFiles; exact List.filter_append _ _
  have h2 : (removeFiles dir inputs).Perm (removeFiles (inputs ++ U) inputs) := by
    unfold removeFiles; exact hp.filter _
  have h3 : removeFiles (inputs ++ U) inputs = U := by
    have : removeFiles (inputs ++ U) inputs = removeFiles inputs inputs ++ removeFiles U inputs := by
      unfold removeFiles; exact List.filter_append _ _
    rw [this, removeFiles_self, removeFiles_keep hU]; rfl
  rw [h1, removeFiles_keep hO]
  rw [h3] at h2
  exact (h2.append_right outs).trans List.perm_append_comm

/-- the final directory of `ccompact` -/
theorem ccompact_dir (sizeOf : SST → Nat) (c : CSt) (hft : c.ft.pending = [] ∧ c.ft.obsolete = []) (task : Task)
    (hsel : selectCompaction c.cfg sizeOf c.dir = some task) :
    (ccompact sizeOf c).st.dir =
      removeFiles (c.dir ++ compactFiles c.cfg c.tracker c.now c.eng.clock task) task.inputs ∧
    (ccompact sizeOf c).outputs = compactFiles c.cfg c.tracker c.now c.eng.clock task := by
  unfold ccompact
  rw [hsel]
  simp only
  refine ⟨?_, trivial⟩
  unfold cycleSteps
  simp only
  have hdel : (((c.ft.markPending task.inputs).unmarkPending task.inputs).markObsolete task.inputs).cleanup.2 = task.inputs := by
    unfold FileTracker.cleanup FileTracker.markObsolete FileTracker.unmarkPending FileTracker.markPending
    simp only [hft.1, hft.2, List.nil_append, removeFiles_self]
    rw [List.filter_eq_self]
    intro a _
    simp [isInput]
  rw [hdel]
  cases hin : task.inputs with
  | nil =>
    simp [removeFiles, isInput]
    rw [List.filter_eq_self.mpr (fun _ _ => rfl), List.filter_eq_self.mpr (fun _ _ => rfl)]
  | cons i is =>
    rw [← hin]
    have hlen : task.inputs.length = is.length + 1 := by rw [hin]; rfl
    rw [hlen, List.range_succ, List.map_append, List.map_cons, List.map_nil, ← List.append_assoc, List.getLast?_concat]
    simp only
    rw [← hlen, List.take_length]

/-- C12 for the cycle of the model: if the selected task satisfies the hypotheses with respect to the rest of the
    directory, the merged view of the directory is unchanged by TriggerCompaction. -/
theorem ccompact_preserves_view (sizeOf : SST → Nat) (c : CSt) (hft : c.ft.pending = [] ∧ c.ft.obsolete = [])
    (task : Task) (hsel : selectCompaction c.cfg sizeOf c.dir = some task) (U : List SST)
    (hp : c.dir.Perm (task.inputs ++ U)) (hwf : TaskWF task U c.eng.clock) (hro : RecencyOrdered task U)
    (hsafe : TombstoneSafe c.cfg c.tracker c.now task U) :
    mergedView (ccompact sizeOf c).st.dir = mergedView c.dir := by
  have hcross : ∀ a ∈ task.inputs, ∀ b ∈ U, a.ts ≠ b.ts := (List.pairwise_append.mp hwf.distinct).2.2
  have hU : ∀ t ∈ U, ∀ x ∈ task.inputs, x.ts ≠ t.ts := fun t ht x hx => hcross x hx t ht
  have hO : ∀ t ∈ compactFiles c.cfg c.tracker c.now c.eng.clock task, ∀ x ∈ task.inputs, x.ts ≠ t.ts := by
    intro t ht x hx
    have := (output_props ht).2.1
    have := hwf.clock x (List.mem_append_left _ hx)
    omega
  have hperm := removeFiles_perm (outs := compactFiles c.cfg c.tracker c.now c.eng.clock task) hp hU hO
  have hdU : DistinctTs U := (List.pairwise_append.mp hwf.distinct).2.1
  have hdO := outputs_distinct (cfg := c.cfg) (tr := c.tracker) (now := c.now) (task := task) hdU
    (fun u hu => hwf.clock u (List.mem_append_right _ hu))
  rw [(ccompact_dir sizeOf c hft task hsel).1]
  rw [mergedView_perm (distinctTs_perm hperm.symm hdO) hperm]
  rw [compact_preserves_merged_view c.cfg c.tracker c.now c.eng.clock task U hwf hro hsafe]
  exact (mergedView_perm (distinctTs_perm hp.symm hwf.distinct) hp).symm

end Kevo.Proofs.Compaction
