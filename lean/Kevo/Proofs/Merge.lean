/-
  Kevo.Proofs.Merge — the cursor compositions of Kevo.Model.Merge against list functions.

  `Emits O c L`: from its current position the cursor `c` (operations `O`) shows exactly the entries of `L`,
  one per Next, and is invalid afterwards; Next reports validity; IsTombstone agrees with a nil value.
  Every wrapper is shown to transform what is emitted by the corresponding list function:
    hierarchical iterator  ↦ mergeRun (any children, any contents)
    bounded iterator       ↦ takeWhile inRange
    filtered iterator      ↦ filter
    consumer loop          ↦ live / take limit
-/
import Kevo.Proofs.MergeSpec
namespace Kevo.Proofs.Merge
open Kevo Kevo.Merge

variable {σ : Type}

def Emits (O : Ops σ) : σ → List KV → Prop
  | c, [] => O.valid c = false
  | c, e :: rest => O.valid c = true ∧ O.key c = some e.1 ∧ O.val c = e.2 ∧ O.tomb c = e.2.isNone ∧
      (O.next c).2 = O.valid (O.next c).1 ∧ Emits O (O.next c).1 rest

theorem emits_nil {O : Ops σ} {c : σ} : Emits O c [] ↔ O.valid c = false := Iff.rfl

theorem emits_cons {O : Ops σ} {c : σ} {e : KV} {rest : List KV} :
    Emits O c (e :: rest) ↔ (O.valid c = true ∧ O.key c = some e.1 ∧ O.val c = e.2 ∧ O.tomb c = e.2.isNone ∧
      (O.next c).2 = O.valid (O.next c).1 ∧ Emits O (O.next c).1 rest) := Iff.rfl

theorem emits_invalid {O : Ops σ} {c : σ} {L : List KV} (h : Emits O c L) (hv : O.valid c = false) : L = [] := by
  cases L with
  | nil => rfl
  | cons e rest => rw [emits_cons] at h; rw [h.1] at hv; contradiction

theorem emits_k {O : Ops σ} {c : σ} {e : KV} {rest : List KV} (h : Emits O c (e :: rest)) : O.k c = e.1 := by
  rw [emits_cons] at h
  simp [Ops.k, h.2.1]

theorem emits_kv {O : Ops σ} {c : σ} {e : KV} {rest : List KV} (h : Emits O c (e :: rest)) : (O.k c, O.val c) = e := by
  rw [emits_k h]
  rw [emits_cons] at h
  rw [h.2.2.1]

/-- full forward iteration shows the emitted list -/
theorem collect_emits {O : Ops σ} : ∀ (L : List KV) (c : σ) (n : Nat), Emits O c L → L.length ≤ n → collect O n c = L := by
  intro L
  induction L with
  | nil =>
    intro c n h _
    rw [emits_nil] at h
    cases n with
    | zero => rfl
    | succ n => simp [collect, h]
  | cons e rest ih =>
    intro c n h hn
    cases n with
    | zero => simp at hn
    | succ n =>
      have hkv := emits_kv h
      rw [emits_cons] at h
      simp only [collect, h.1, if_true, hkv]
      rw [ih _ n h.2.2.2.2.2 (by simpa using hn)]

/-! ### leaf cursors -/

theorem src_cur_some (es : List KV) (i : Nat) (k : SrcKind) (hi : i < es.length) :
    ({ es := es, pos := some i, kind := k } : Src).cur = some es[i] := by
  simp [Src.cur, hi]

theorem src_emits_none (es : List KV) (k : SrcKind) : Emits srcOps ({ es := es, pos := none, kind := k } : Src) [] := by
  rw [emits_nil]; rfl

theorem src_emits_drop (es : List KV) (k : SrcKind) : ∀ (d i : Nat), es.length - i = d → i < es.length →
    Emits srcOps ({ es := es, pos := some i, kind := k } : Src) (es.drop i) := by
  intro d
  induction d with
  | zero => intro i h1 h2; omega
  | succ d ih =>
    intro i hd hi
    rw [List.drop_eq_getElem_cons hi, emits_cons]
    have hc := src_cur_some es i k hi
    refine ⟨?_, ?_, ?_, ?_, rfl, ?_⟩
    · simp [srcOps, Src.valid, hc]
    · simp [srcOps, hc]
    · simp [srcOps, hc]
    · simp [srcOps, hc]
    · show Emits srcOps (Src.next { es := es, pos := some i, kind := k }) (es.drop (i + 1))
      by_cases hn : i + 1 < es.length
      · have : Src.next { es := es, pos := some i, kind := k } = { es := es, pos := some (i + 1), kind := k } := by
          simp [Src.next, hn]
        rw [this]
        exact ih (i + 1) (by omega) hn
      · have : Src.next { es := es, pos := some i, kind := k } = { es := es, pos := none, kind := k } := by
          simp [Src.next, hn]
        rw [this, List.drop_eq_nil_of_le (by omega)]
        exact src_emits_none es k

theorem src_first_emits (s : Src) : Emits srcOps (srcOps.first s) s.es := by
  show Emits srcOps (Src.first s) s.es
  cases hes : s.es with
  | nil =>
    have : Src.first s = { es := [], pos := none, kind := s.kind } := by simp [Src.first, hes]
    rw [this]; exact src_emits_none [] s.kind
  | cons x xs =>
    have : Src.first s = { es := x :: xs, pos := some 0, kind := s.kind } := by simp [Src.first, hes]
    rw [this]
    exact src_emits_drop (x :: xs) s.kind _ 0 rfl (by simp)

theorem findIdx_drop (p : KV → Bool) : ∀ (es : List KV),
    match es.findIdx? p with
    | some i => i < es.length ∧ es.drop i = es.dropWhile (fun x => !p x)
    | none => es.dropWhile (fun x => !p x) = [] := by
  intro es
  induction es with
  | nil => simp
  | cons x xs ih =>
    rw [List.findIdx?_cons]
    by_cases hp : p x = true
    · simp [hp]
    · have hp' : p x = false := by simpa using hp
      simp only [hp', Bool.false_eq_true, if_false]
      cases hf : xs.findIdx? p with
      | none =>
        rw [hf] at ih
        simp only [Option.map_none]
        simp [hp', ih]
      | some j =>
        rw [hf] at ih
        simp only [Option.map_some]
        refine ⟨by simp; exact ih.1, ?_⟩
        simp [hp', ih.2]

theorem src_seek_emits (s : Src) (t : Bytes) : Emits srcOps (srcOps.seek s t).1 (dropLT t s.es) := by
  show Emits srcOps (Src.seek s t) (dropLT t s.es)
  have h := findIdx_drop (fun e => !ltB e.1 t) s.es
  have hd : dropLT t s.es = s.es.dropWhile (fun x => !(fun e : KV => !ltB e.1 t) x) := by
    unfold dropLT; congr 1; funext x; simp
  cases hf : s.es.findIdx? (fun e => !ltB e.1 t) with
  | none =>
    rw [hf] at h
    have : Src.seek s t = { es := s.es, pos := none, kind := s.kind } := by simp [Src.seek, hf]
    rw [this, hd, h]; exact src_emits_none _ _
  | some i =>
    rw [hf] at h
    have : Src.seek s t = { es := s.es, pos := some i, kind := s.kind } := by simp [Src.seek, hf]
    rw [this, hd, ← h.2]
    exact src_emits_drop s.es s.kind _ i rfl h.1

theorem src_seek_ret (s : Src) (t : Bytes) : (srcOps.seek s t).2 = srcOps.valid (srcOps.seek s t).1 := rfl

/-! ### sums -/

theorem sum_emits_inl {α β : Type} (A : Ops α) (B : Ops β) : ∀ (L : List KV) (a : α), Emits A a L → Emits (sumOps A B) (.inl a) L := by
  intro L
  induction L with
  | nil => intro a h; exact h
  | cons e rest ih =>
    intro a h
    rw [emits_cons] at h ⊢
    exact ⟨h.1, h.2.1, h.2.2.1, h.2.2.2.1, h.2.2.2.2.1, ih _ h.2.2.2.2.2⟩

theorem sum_emits_inr {α β : Type} (A : Ops α) (B : Ops β) : ∀ (L : List KV) (b : β), Emits B b L → Emits (sumOps A B) (.inr b) L := by
  intro L
  induction L with
  | nil => intro a h; exact h
  | cons e rest ih =>
    intro a h
    rw [emits_cons] at h ⊢
    exact ⟨h.1, h.2.1, h.2.2.1, h.2.2.2.1, h.2.2.2.2.1, ih _ h.2.2.2.2.2⟩

/-! ### the hierarchical iterator -/

def EmitsAll (O : Ops σ) : List σ → List (List KV) → Prop
  | [], [] => True
  | c :: cs, L :: Ls => Emits O c L ∧ EmitsAll O cs Ls
  | _, _ => False

theorem emitsAll_map {O : Ops σ} (f : σ → σ) (g : List KV → List KV) (hfg : ∀ c L, Emits O c L → Emits O (f c) (g L)) :
    ∀ (cs : List σ) (Ls : List (List KV)), EmitsAll O cs Ls → EmitsAll O (cs.map f) (Ls.map g) := by
  intro cs
  induction cs with
  | nil => intro Ls h; cases Ls with
    | nil => trivial
    | cons _ _ => exact h.elim
  | cons c cs ih =>
    intro Ls h
    cases Ls with
    | nil => exact h.elim
    | cons L Ls => exact ⟨hfg c L h.1, ih Ls h.2⟩

/-- like emitsAll_map when the list function may use that the source list is a member of `Ls` -/
theorem emitsAll_map_mem {O : Ops σ} (f : σ → σ) (g : List KV → List KV) :
    ∀ (cs : List σ) (Ls : List (List KV)), (∀ c L, L ∈ Ls → Emits O c L → Emits O (f c) (g L)) →
      EmitsAll O cs Ls → EmitsAll O (cs.map f) (Ls.map g) := by
  intro cs
  induction cs with
  | nil => intro Ls _ h; cases Ls with
    | nil => trivial
    | cons _ _ => exact h.elim
  | cons c cs ih =>
    intro Ls hfg h
    cases Ls with
    | nil => exact h.elim
    | cons L Ls =>
      exact ⟨hfg c L (by simp) h.1, ih Ls (fun c' L' hL' => hfg c' L' (by simp [hL'])) h.2⟩

theorem cands_heads {O : Ops σ} : ∀ (cs : List σ) (Ls : List (List KV)), EmitsAll O cs Ls →
    cands O (fun _ => true) cs = heads Ls := by
  intro cs
  induction cs with
  | nil => intro Ls h; cases Ls with
    | nil => rfl
    | cons _ _ => exact h.elim
  | cons c cs ih =>
    intro Ls h
    cases Ls with
    | nil => exact h.elim
    | cons L Ls =>
      have ih' := ih Ls h.2
      cases L with
      | nil =>
        have hv : O.valid c = false := h.1
        rw [heads_cons_nil, ← ih']
        simp [cands, hv]
      | cons e rest =>
        have hkv := emits_kv h.1
        have hv : O.valid c = true := (emits_cons.mp h.1).1
        rw [heads_cons_cons, ← ih']
        simp [cands, hv, hkv]

theorem skipLoop_emits {O : Ops σ} (p : Bytes) : ∀ (L : List KV) (fuel : Nat) (c : σ), Emits O c L → L.length ≤ fuel →
    Emits O (skipLoop O p fuel c) (dropLE p L) := by
  intro L
  induction L with
  | nil =>
    intro fuel c h _
    have hv : O.valid c = false := h
    cases fuel with
    | zero => exact h
    | succ f => simp only [skipLoop, hv, Bool.false_and, Bool.false_eq_true, if_false]; exact h
  | cons e rest ih =>
    intro fuel c h hf
    cases fuel with
    | zero => simp at hf
    | succ f =>
      have hk := emits_k h
      have h' := emits_cons.mp h
      simp only [skipLoop, h'.1, hk, Bool.true_and, dropLE, List.dropWhile_cons]
      by_cases hp : (!ltB p e.1) = true
      · simp only [hp, if_true]
        by_cases hr : (O.next c).2 = true
        · simp only [hr, if_true]
          exact ih f _ h'.2.2.2.2.2 (by simpa using hf)
        · have hr' : (O.next c).2 = false := by simpa using hr
          simp only [hr', Bool.false_eq_true, if_false]
          have hv : O.valid (O.next c).1 = false := by rw [← h'.2.2.2.2.1]; exact hr'
          have := emits_invalid h'.2.2.2.2.2 hv
          subst this
          exact h'.2.2.2.2.2
      · simp only [hp]
        exact h

theorem length_dropLE (p : Bytes) (L : List KV) : (dropLE p L).length ≤ L.length := length_dropLE_le p L

/-- the heart of C05: whatever its children are and whatever they hold, the hierarchical iterator settled on
    children that emit `Ls` emits `mergeRun n Ls`. -/
theorem hier_emits (O : Ops σ) (fuel : Nat) : ∀ (n : Nat) (Ls : List (List KV)) (h : HierG σ),
    EmitsAll O h.srcs Ls → total Ls < n → (∀ L ∈ Ls, L.length ≤ fuel) →
    Emits (hierOps O fuel) (HierG.settle O (fun _ => true) h) (mergeRun n Ls) := by
  intro n
  induction n with
  | zero => intro Ls h _ hn _; omega
  | succ n ih =>
    intro Ls h hall hn hfuel
    have hc := cands_heads h.srcs Ls hall
    rw [mergeRun_succ]
    unfold HierG.settle
    rw [hc]
    cases hp : pickMin (heads Ls) with
    | none =>
      simp only
      rw [emits_nil]; rfl
    | some e =>
      simp only
      have hmem : e ∈ heads Ls := (pickMin_spec hp).1
      rw [emits_cons]
      refine ⟨rfl, by simp [hierOps], by simp [hierOps], by simp [hierOps], by simp [hierOps], ?_⟩
      have hnext : ((hierOps O fuel).next { h with key := e.1, val := e.2, valid := true }).1 =
          HierG.settle O (fun _ => true) { srcs := h.srcs.map (skipLoop O e.1 fuel), key := e.1, val := e.2, valid := true } := by
        simp [hierOps, HierG.findNext]
      rw [hnext]
      apply ih
      · exact emitsAll_map_mem (skipLoop O e.1 fuel) (dropLE e.1) h.srcs Ls
          (fun c L hL hcL => skipLoop_emits e.1 L fuel c hcL (hfuel L hL)) hall
      · have := total_map_dropLE_lt hmem; omega
      · intro L hL
        obtain ⟨L0, hL0, rfl⟩ := List.mem_map.mp hL
        have := length_dropLE e.1 L0
        have := hfuel L0 hL0
        omega

/-- SeekToFirst -/
theorem hier_first_emits (O : Ops σ) (fuel n : Nat) (h : HierG σ) (Ls : List (List KV))
    (hall : EmitsAll O (h.srcs.map O.first) Ls) (hn : total Ls < n) (hfuel : ∀ L ∈ Ls, L.length ≤ fuel) :
    Emits (hierOps O fuel) ((hierOps O fuel).first h) (mergeRun n Ls) := by
  have : (hierOps O fuel).first h = HierG.settle O (fun _ => true) { h with srcs := h.srcs.map O.first } := by
    simp [hierOps, HierG.findNext]
  rw [this]
  exact hier_emits O fuel n Ls _ hall hn hfuel

/-- Seek(t), for children whose Seek(t) lands on keys ≥ t -/
theorem cands_ok_eq {O : Ops σ} (t : Bytes) : ∀ (cs : List σ) (Ls : List (List KV)), EmitsAll O cs Ls →
    (∀ x ∈ heads Ls, ltB x.1 t = false) →
    cands O (fun c => !ltB (O.k c) t) cs = cands O (fun _ => true) cs := by
  intro cs
  induction cs with
  | nil => intro Ls _ _; rfl
  | cons c cs ih =>
    intro Ls h hge
    cases Ls with
    | nil => exact h.elim
    | cons L Ls =>
      cases L with
      | nil =>
        have hv : O.valid c = false := h.1
        have := ih Ls h.2 (by rw [heads_cons_nil] at hge; exact hge)
        simp only [cands, List.filterMap_cons, hv, Bool.false_and, Bool.false_eq_true, if_false] at this ⊢
        exact this
      | cons e rest =>
        have hk := emits_k h.1
        have hv : O.valid c = true := (emits_cons.mp h.1).1
        rw [heads_cons_cons] at hge
        have he : ltB e.1 t = false := hge e (by simp)
        have := ih Ls h.2 (fun x hx => hge x (by simp [hx]))
        simp only [cands, List.filterMap_cons, hv, hk, he, Bool.true_and, Bool.not_false] at this ⊢
        rw [this]

theorem hier_seek_emits (O : Ops σ) (fuel n : Nat) (h : HierG σ) (t : Bytes) (Ls : List (List KV))
    (hall : EmitsAll O (h.srcs.map (fun c => (O.seek c t).1)) Ls) (hge : ∀ x ∈ heads Ls, ltB x.1 t = false)
    (hn : total Ls < n) (hfuel : ∀ L ∈ Ls, L.length ≤ fuel) :
    Emits (hierOps O fuel) ((hierOps O fuel).seek h t).1 (mergeRun n Ls) ∧
    ((hierOps O fuel).seek h t).2 = (hierOps O fuel).valid ((hierOps O fuel).seek h t).1 := by
  have hs : ((hierOps O fuel).seek h t).1 =
      HierG.settle O (fun _ => true) { h with srcs := h.srcs.map (fun c => (O.seek c t).1) } := by
    simp only [hierOps, HierG.settle]
    rw [cands_ok_eq t _ Ls hall hge]
  refine ⟨?_, rfl⟩
  rw [hs]
  exact hier_emits O fuel n Ls _ hall hn hfuel

/-! ### the bounded iterator -/

theorem bounded_emits (O : Ops σ) (lo hi : Option Bytes) (fuel : Nat) : ∀ (L : List KV) (c : σ), Emits O c L →
    Emits (boundedOps O lo hi fuel) c (L.takeWhile (fun e => inRange lo hi e.1)) := by
  intro L
  induction L with
  | nil =>
    intro c h
    have hv : O.valid c = false := h
    rw [List.takeWhile_nil, emits_nil]
    simp [boundedOps, hv]
  | cons e rest ih =>
    intro c h
    have hk := emits_k h
    have h' := emits_cons.mp h
    rw [List.takeWhile_cons]
    by_cases hr : inRange lo hi e.1 = true
    · have hb : bcheck O lo hi c = true := by simp [bcheck, h'.1, hk, hr]
      simp only [hr, if_true]
      rw [emits_cons]
      refine ⟨by simp [boundedOps, h'.1, hb], by simp [boundedOps, h'.1, hb, h'.2.1], by simp [boundedOps, h'.1, hb, h'.2.2.1],
        by simp [boundedOps, h'.1, hb, h'.2.2.2.1], ?_, ?_⟩
      · simp only [boundedOps, hb, Bool.not_true, Bool.false_eq_true, if_false]
        by_cases hn : (O.next c).2 = true
        · have hv : O.valid (O.next c).1 = true := by rw [← h'.2.2.2.2.1]; exact hn
          simp [hn, hv]
        · have hn' : (O.next c).2 = false := by simpa using hn
          have hv : O.valid (O.next c).1 = false := by rw [← h'.2.2.2.2.1]; exact hn'
          simp [hn', hv]
      · have : ((boundedOps O lo hi fuel).next c).1 = (O.next c).1 := by
          simp only [boundedOps, hb, Bool.not_true, Bool.false_eq_true, if_false]
          by_cases hn : (O.next c).2 = true <;> simp [hn]
        rw [this]
        exact ih _ h'.2.2.2.2.2
    · have hr' : inRange lo hi e.1 = false := by simpa using hr
      simp only [hr', Bool.false_eq_true, if_false]
      rw [emits_nil]
      simp [boundedOps, bcheck, hk, hr']

/-! ### the filtered iterator -/

theorem filtNext_emits (O : Ops σ) (f : Bytes → Bool) (fuel : Nat) : ∀ (rest : List KV) (c : σ) (e : KV) (m : Nat),
    Emits O c (e :: rest) → rest.length < m → rest.length < fuel →
    Emits (filteredOps O f fuel) (filtNext O f m c).1 (rest.filter (fun x => f x.1)) ∧
    (filtNext O f m c).2 = (filteredOps O f fuel).valid (filtNext O f m c).1 := by
  intro rest
  induction rest with
  | nil =>
    intro c e m h hm _
    cases m with
    | zero => omega
    | succ m =>
      have h' := emits_cons.mp h
      have hv : O.valid (O.next c).1 = false := h'.2.2.2.2.2
      have hr : (O.next c).2 = false := by rw [h'.2.2.2.2.1]; exact hv
      simp only [filtNext, hr, Bool.not_false, if_true, List.filter_nil]
      refine ⟨?_, ?_⟩
      · rw [emits_nil]; simp [filteredOps, hv]
      · simp [filteredOps, hv]
  | cons x xs ih =>
    intro c e m h hm hfuel
    cases m with
    | zero => omega
    | succ m =>
      have h' := emits_cons.mp h
      have hx := h'.2.2.2.2.2
      have hx' := emits_cons.mp hx
      have hr : (O.next c).2 = true := by rw [h'.2.2.2.2.1]; exact hx'.1
      have hk := emits_k hx
      simp only [filtNext, hr, Bool.not_true, Bool.false_eq_true, if_false, hk, List.filter_cons]
      by_cases hf : f x.1 = true
      · simp only [hf, if_true]
        refine ⟨?_, by simp [filteredOps, hx'.1, hk, hf]⟩
        rw [emits_cons]
        have ihx := ih (O.next c).1 x fuel hx (by simp at hfuel; omega) (by simp at hfuel; omega)
        exact ⟨by simp [filteredOps, hx'.1, hk, hf], hx'.2.1, hx'.2.2.1, hx'.2.2.2.1, ihx.2, ihx.1⟩
      · have hf' : f x.1 = false := by simpa using hf
        simp only [hf', Bool.false_eq_true, if_false]
        exact ih (O.next c).1 x m hx (by simp at hm; omega) (by simp at hfuel; omega)

/-- positioned on an inner cursor that emits L, after skipping to the first match, the filter emits L.filter -/
theorem filtered_skip_emits (O : Ops σ) (f : Bytes → Bool) (fuel : Nat) (L : List KV) (c : σ) (h : Emits O c L)
    (hfuel : L.length ≤ fuel) :
    Emits (filteredOps O f fuel) (if O.valid c && !f (O.k c) then (filtNext O f fuel c).1 else c) (L.filter (fun x => f x.1)) := by
  cases L with
  | nil =>
    have hv : O.valid c = false := h
    simp only [hv, Bool.false_and, Bool.false_eq_true, if_false, List.filter_nil]
    rw [emits_nil]; simp [filteredOps, hv]
  | cons e rest =>
    have h' := emits_cons.mp h
    have hk := emits_k h
    simp only [h'.1, hk, Bool.true_and, List.filter_cons]
    have hlen : rest.length < fuel := by simp at hfuel; omega
    have hn := filtNext_emits O f fuel rest c e fuel h hlen hlen
    by_cases hf : f e.1 = true
    · simp only [hf, Bool.not_true, Bool.false_eq_true, if_false, if_true]
      rw [emits_cons]
      exact ⟨by simp [filteredOps, h'.1, hk, hf], h'.2.1, h'.2.2.1, h'.2.2.2.1, hn.2, hn.1⟩
    · have hf' : f e.1 = false := by simpa using hf
      simp only [hf', Bool.not_false, if_true, Bool.false_eq_true, if_false]
      exact hn.1

theorem filtered_first_emits (O : Ops σ) (f : Bytes → Bool) (fuel : Nat) (L : List KV) (c : σ)
    (h : Emits O (O.first c) L) (hfuel : L.length ≤ fuel) :
    Emits (filteredOps O f fuel) ((filteredOps O f fuel).first c) (L.filter (fun x => f x.1)) :=
  filtered_skip_emits O f fuel L (O.first c) h hfuel

/-! ### the consumer loop -/

theorem consume_emits {O : Ops σ} (limit : Nat) : ∀ (L : List KV) (c : σ) (n count : Nat), Emits O c L → L.length ≤ n →
    consume O limit n count c = if limit > 0 then (live L).take (limit - count) else live L := by
  intro L
  induction L with
  | nil =>
    intro c n count h _
    have hv : O.valid c = false := h
    cases n with
    | zero => simp [consume, live]
    | succ n => simp [consume, hv, live]
  | cons e rest ih =>
    intro c n count h hn
    cases n with
    | zero => simp at hn
    | succ n =>
      have hkv := emits_kv h
      have h' := emits_cons.mp h
      have ihr := ih (O.next c).1 n
      simp only [consume, h'.1, if_true, hkv, h'.2.2.2.1]
      by_cases hl : limit > 0 ∧ count ≥ limit
      · have : limit - count = 0 := by omega
        simp [hl.1, hl.2, this]
      · have hcond : (decide (limit > 0) && decide (count ≥ limit)) = false := by
          simp only [Bool.and_eq_false_iff, decide_eq_false_iff_not]
          by_cases h0 : limit > 0
          · right; omega
          · left; exact h0
        simp only [hcond, Bool.false_eq_true, if_false]
        cases hv : e.2 with
        | none =>
          simp only [Option.isNone_none, Bool.not_true, Bool.false_eq_true, if_false]
          rw [ihr count h'.2.2.2.2.2 (by simpa using hn)]
          simp [live, hv]
        | some v =>
          simp only [Option.isNone_some, Bool.not_false, if_true]
          rw [ihr (count + 1) h'.2.2.2.2.2 (by simpa using hn)]
          by_cases h0 : limit > 0
          · have hlt : count < limit := by omega
            have : limit - count = (limit - (count + 1)) + 1 := by omega
            simp [h0, live, hv, this, List.take_succ_cons]
          · simp [h0, live, hv]

end Kevo.Proofs.Merge
