/-
  Kevo.Proofs.Registry — invariants of the transaction registry / handler model (C17).
-/
import Kevo.Model.Registry
set_option linter.unusedSimpArgs false
namespace Kevo.Proofs.Registry
open Kevo Kevo.Conc Kevo.Registry
open Kevo.TxLock (Mode)

@[simp] theorem setFn_same {β : Type} (f : Nat → β) (t : Nat) (v : β) : setFn f t v t = v := by simp [setFn]
theorem setFn_other {β : Type} (f : Nat → β) (t u : Nat) (v : β) (h : u ≠ t) : setFn f t v u = f u := by simp [setFn, h]

structure Inv (s : State) : Prop where
  noPanic : s.panicked = false
  allocd : ∀ x, s.txs x = none ↔ s.nextTx ≤ x
  flags : ∀ x tx, s.txs x = some tx →
            (tx.hasR = true ↔ x ∈ s.lock.readers) ∧ (tx.hasW = true ↔ s.lock.writer = some x) ∧
            (tx.active = true ↔ (tx.hasR = true ∨ tx.hasW = true)) ∧
            (tx.mode = .ro → tx.hasW = false) ∧ (tx.mode = .rw → tx.hasR = false) ∧
            tx.unlocks = (if tx.active then 0 else 1)
  rdNodup : s.lock.readers.Nodup
  lockAlloc : ∀ x, s.lock.heldBy x → x < s.nextTx
  owned : ∀ x tx, s.txs x = some tx → tx.active = true → registered s x ∨ ∃ t, (s.th t).owns x
  handlesLe : ∀ e ∈ s.reg, e.handle ≤ s.nextId
  handlesNodup : (s.reg.map (·.handle)).Nodup
  refs : ∀ t h x, (s.th t = .finishing h x ∨ s.th t = .removing h x) →
            h ≤ s.nextId ∧ ∀ e ∈ s.reg, e.handle = h → e.tx = x
  removing : ∀ t h x, s.th t = .removing h x → ∀ tx, s.txs x = some tx → tx.active = false
  thAlloc : ∀ t x, (s.th t).mentions x → x < s.nextTx
  regAlloc : ∀ e ∈ s.reg, e.tx < s.nextTx

theorem inv_init (cfg : Cfg) : Inv (sys cfg).init := by
  constructor <;> simp [sys, RW.heldBy, registered, Th.mentions]

/-! ### finishTx -/

theorem finishTx_frame (s : State) (x : Nat) :
    (finishTx s x).th = s.th ∧ (finishTx s x).reg = s.reg ∧ (finishTx s x).nextId = s.nextId ∧
    (finishTx s x).nextTx = s.nextTx ∧ (finishTx s x).now = s.now ∧
    (∀ y, y ≠ x → (finishTx s x).txs y = s.txs y) := by
  unfold finishTx
  split
  · simp
  · next tx htx =>
    split
    · split
      · split
        · split
          · refine ⟨rfl, rfl, rfl, rfl, rfl, ?_⟩; intro y hy; simp [setFn, hy]
          · simp
        · refine ⟨rfl, rfl, rfl, rfl, rfl, ?_⟩; intro y hy; simp [setFn, hy]
      · split
        · split
          · refine ⟨rfl, rfl, rfl, rfl, rfl, ?_⟩; intro y hy; simp [setFn, hy]
          · simp
        · refine ⟨rfl, rfl, rfl, rfl, rfl, ?_⟩; intro y hy; simp [setFn, hy]
    · refine ⟨rfl, rfl, rfl, rfl, rfl, ?_⟩; intro y hy; simp [setFn, hy]

/-- what finishing an ACTIVE transaction does, given the invariant: exactly one unlock, no panic. -/
theorem finishTx_active {s : State} (h : Inv s) (x : Nat) (tx : TxS) (htx : s.txs x = some tx) (ha : tx.active = true) :
    ∃ l, finishTx s x = { s with lock := l, txs := setFn s.txs x (some { tx with active := false, hasR := false, hasW := false, unlocks := 1 }) } ∧
      (tx.mode = .ro → l = { s.lock with readers := s.lock.readers.erase x } ∧ x ∈ s.lock.readers) ∧
      (tx.mode = .rw → l = { s.lock with writer := none } ∧ s.lock.writer = some x) := by
  obtain ⟨f1, f2, f3, f4, f5, f6⟩ := h.flags x tx htx
  rw [ha] at f6; simp at f6
  cases hm : tx.mode with
  | ro =>
    have hW : tx.hasW = false := f4 hm
    have hR : tx.hasR = true := by
      have := f3.1 ha; rw [hW] at this; simpa using this
    have hx : x ∈ s.lock.readers := f1.1 hR
    refine ⟨{ s.lock with readers := s.lock.readers.erase x }, ?_, fun _ => ⟨rfl, hx⟩, fun e => by cases e⟩
    unfold finishTx
    simp only [htx, ha, hm, hR, RW.runlock, hx, if_true]
    simp [hW, f6]
  | rw =>
    have hR : tx.hasR = false := f5 hm
    have hW : tx.hasW = true := by
      have := f3.1 ha; rw [hR] at this; simpa using this
    have hx : s.lock.writer = some x := f2.1 hW
    refine ⟨{ s.lock with writer := none }, ?_, fun e => (by cases e), fun _ => ⟨rfl, hx⟩⟩
    unfold finishTx
    simp only [htx, ha, hm, hW, RW.unlock, hx, if_true]
    simp [hR, f6]

/-- finishing a transaction that already ended: ErrTransactionClosed, only the ghost counter moves. -/
theorem finishTx_closed (s : State) (x : Nat) (tx : TxS) (htx : s.txs x = some tx) (ha : tx.active = false) :
    finishTx s x = { s with txs := setFn s.txs x (some { tx with closedCalls := tx.closedCalls + 1 }) } := by
  unfold finishTx
  simp [htx, ha]

/-- changing only the time stamps / ghost counters of a transaction keeps the invariant. -/
theorem inv_txUpdate {s : State} (h : Inv s) (x : Nat) (tx tx' : TxS) (htx : s.txs x = some tx)
    (hm : tx'.mode = tx.mode) (ha : tx'.active = tx.active) (hr : tx'.hasR = tx.hasR) (hw : tx'.hasW = tx.hasW)
    (hu : tx'.unlocks = tx.unlocks) : Inv { s with txs := setFn s.txs x (some tx') } := by
  have key : ∀ y ty, setFn s.txs x (some tx') y = some ty →
      ∃ ty0, s.txs y = some ty0 ∧ ty.mode = ty0.mode ∧ ty.active = ty0.active ∧ ty.hasR = ty0.hasR ∧
        ty.hasW = ty0.hasW ∧ ty.unlocks = ty0.unlocks := by
    intro y ty hy
    by_cases hyx : y = x
    · subst hyx; simp at hy; subst hy; exact ⟨tx, htx, hm, ha, hr, hw, hu⟩
    · rw [setFn_other _ _ _ _ hyx] at hy; exact ⟨ty, hy, rfl, rfl, rfl, rfl, rfl⟩
  constructor
  · exact h.noPanic
  · intro y
    by_cases hyx : y = x
    · subst hyx; simp; rw [← Nat.not_le, ← h.allocd]; simp [htx]
    · simp only [setFn_other _ _ _ _ hyx]; exact h.allocd y
  · intro y ty hy
    obtain ⟨ty0, h0, e1, e2, e3, e4, e5⟩ := key y ty hy
    rw [e1, e2, e3, e4, e5]; exact h.flags y ty0 h0
  · exact h.rdNodup
  · exact h.lockAlloc
  · intro y ty hy hact
    obtain ⟨ty0, h0, _, e2, _⟩ := key y ty hy
    exact h.owned y ty0 h0 (by rw [← e2]; exact hact)
  · exact h.handlesLe
  · exact h.handlesNodup
  · exact h.refs
  · intro t hh y hrem ty hy
    obtain ⟨ty0, h0, _, e2, _⟩ := key y ty hy
    rw [e2]; exact h.removing t hh y hrem ty0 h0
  · exact h.thAlloc
  · exact h.regAlloc

theorem inv_finishTx {s : State} (h : Inv s) (x : Nat) : Inv (finishTx s x) := by
  cases htx : s.txs x with
  | none => unfold finishTx; simp [htx]; exact h
  | some tx =>
    cases ha : tx.active with
    | false =>
      rw [finishTx_closed s x tx htx ha]
      exact inv_txUpdate h x tx _ htx rfl rfl rfl rfl rfl
    | true =>
      obtain ⟨l, heq, hro, hrw⟩ := finishTx_active h x tx htx ha
      rw [heq]
      obtain ⟨f1, f2, f3, f4, f5, f6⟩ := h.flags x tx htx
      have hmem : ∀ y, y ≠ x → ((y ∈ l.readers ↔ y ∈ s.lock.readers) ∧ (l.writer = some y ↔ s.lock.writer = some y)) := by
        intro y hy
        cases hm : tx.mode with
        | ro =>
          obtain ⟨e, _⟩ := hro hm; subst e
          simp [List.mem_erase_of_ne hy]
        | rw =>
          obtain ⟨e, hwx⟩ := hrw hm; subst e
          simp [hwx]; exact fun e => hy e.symm
      have hx : x ∉ l.readers ∧ l.writer ≠ some x := by
        cases hm : tx.mode with
        | ro =>
          obtain ⟨e, _⟩ := hro hm; subst e
          refine ⟨?_, ?_⟩
          · simp [h.rdNodup.mem_erase_iff]
          · simp; intro hw'; have := f2.2 hw'; rw [f4 hm] at this; cases this
        | rw =>
          obtain ⟨e, _⟩ := hrw hm; subst e
          refine ⟨?_, by simp⟩
          simp; intro hr'; have := f1.2 hr'; rw [f5 hm] at this; cases this
      have hnd : l.readers.Nodup := by
        cases hm : tx.mode with
        | ro => obtain ⟨e, _⟩ := hro hm; subst e; exact h.rdNodup.erase x
        | rw => obtain ⟨e, _⟩ := hrw hm; subst e; exact h.rdNodup
      have hheld : ∀ y, l.heldBy y → s.lock.heldBy y := by
        intro y hy
        by_cases hyx : y = x
        · subst hyx; rcases hy with hy | hy
          · exact absurd hy hx.2
          · exact absurd hy hx.1
        · rcases hy with hy | hy
          · exact Or.inl ((hmem y hyx).2.1 hy)
          · exact Or.inr ((hmem y hyx).1.1 hy)
      constructor
      · exact h.noPanic
      · intro y
        by_cases hyx : y = x
        · subst hyx; simp; rw [← Nat.not_le, ← h.allocd]; simp [htx]
        · simp only [setFn_other _ _ _ _ hyx]; exact h.allocd y
      · intro y ty hy
        by_cases hyx : y = x
        · subst hyx; simp at hy; subst hy
          simp [hx.1, hx.2, f4, f5]
        · simp only [setFn_other _ _ _ _ hyx] at hy
          obtain ⟨g1, g2, g3⟩ := h.flags y ty hy
          simp only
          rw [(hmem y hyx).1, (hmem y hyx).2]
          exact ⟨g1, g2, g3⟩
      · exact hnd
      · intro y hy; exact h.lockAlloc y (hheld y hy)
      · intro y ty hy hact
        by_cases hyx : y = x
        · subst hyx; simp at hy; subst hy; simp at hact
        · simp only [setFn_other _ _ _ _ hyx] at hy
          exact h.owned y ty hy hact
      · exact h.handlesLe
      · exact h.handlesNodup
      · exact h.refs
      · intro t hh y hrem ty hy
        by_cases hyx : y = x
        · subst hyx; simp at hy; subst hy; rfl
        · simp only [setFn_other _ _ _ _ hyx] at hy
          exact h.removing t hh y hrem ty hy
      · exact h.thAlloc
      · exact h.regAlloc

/-- after finishTx the transaction is not active (whoever finished it first). -/
theorem finishTx_inactive {s : State} (h : Inv s) (x : Nat) (tx : TxS) (htx : (finishTx s x).txs x = some tx) :
    tx.active = false := by
  cases hs : s.txs x with
  | none => unfold finishTx at htx; simp [hs] at htx
  | some tx0 =>
    cases ha : tx0.active with
    | false => rw [finishTx_closed s x tx0 hs ha] at htx; simp at htx; subst htx; exact ha
    | true =>
      obtain ⟨l, heq, _⟩ := finishTx_active h x tx0 hs ha
      rw [heq] at htx; simp at htx; subst htx; rfl

/-- finishTx never re-activates anything. -/
theorem finishTx_mono {s : State} (h : Inv s) (x y : Nat) (ty : TxS) (hy : (finishTx s x).txs y = some ty)
    (hact : ty.active = true) : ∃ ty0, s.txs y = some ty0 ∧ ty0.active = true := by
  by_cases hyx : y = x
  · subst hyx; rw [finishTx_inactive h y ty hy] at hact; cases hact
  · rw [(finishTx_frame s x).2.2.2.2.2 y hyx] at hy; exact ⟨ty, hy, hact⟩

theorem inv_touchTx {s : State} (h : Inv s) (x : Nat) : Inv (touchTx s x) := by
  unfold touchTx
  split
  · exact h
  · next tx htx =>
    split
    · exact inv_txUpdate h x tx _ htx rfl rfl rfl rfl rfl
    · exact inv_txUpdate h x tx _ htx rfl rfl rfl rfl rfl

/-! ### thread-state changes -/

theorem inv_setTh {s : State} (h : Inv s) (t : Tid) (th' : Th)
    (hown : ∀ x tx, s.txs x = some tx → tx.active = true → (s.th t).owns x → th'.owns x ∨ registered s x)
    (href : ∀ hh x, (th' = .finishing hh x ∨ th' = .removing hh x) → hh ≤ s.nextId ∧ ∀ e ∈ s.reg, e.handle = hh → e.tx = x)
    (hrem : ∀ hh x, th' = .removing hh x → ∀ tx, s.txs x = some tx → tx.active = false)
    (hment : ∀ x, th'.mentions x → x < s.nextTx) :
    Inv (setTh s t th') := by
  constructor
  · exact h.noPanic
  · exact h.allocd
  · exact h.flags
  · exact h.rdNodup
  · exact h.lockAlloc
  · intro x tx htx hact
    rcases h.owned x tx htx hact with hr | ⟨u, hu⟩
    · exact Or.inl hr
    · by_cases hut : u = t
      · subst hut
        rcases hown x tx htx hact hu with h1 | h1
        · exact Or.inr ⟨u, by simp [setTh]; exact h1⟩
        · exact Or.inl h1
      · exact Or.inr ⟨u, by simp [setTh, setFn, hut]; exact hu⟩
  · exact h.handlesLe
  · exact h.handlesNodup
  · intro u hh x hu
    by_cases hut : u = t
    · subst hut; simp [setTh] at hu; exact href hh x hu
    · simp [setTh, setFn, hut] at hu; exact h.refs u hh x hu
  · intro u hh x hu
    by_cases hut : u = t
    · subst hut; simp [setTh] at hu; exact hrem hh x hu
    · simp [setTh, setFn, hut] at hu; exact h.removing u hh x hu
  · intro u x hu
    by_cases hut : u = t
    · subst hut; simp [setTh] at hu; exact hment x hu
    · simp [setTh, setFn, hut] at hu; exact h.thAlloc u x hu
  · exact h.regAlloc

theorem inv_alloc {cfg : Cfg} {s : State} (h : Inv s) (m : Mode) (t : Tid) (th' : Th)
    (hc : s.lock.compatible m = true)
    (hnew : th'.owns s.nextTx) (hkeep : ∀ x, (s.th t).owns x → th'.owns x)
    (hnf : ∀ hh x, th' ≠ .finishing hh x ∧ th' ≠ .removing hh x)
    (hment : ∀ x, th'.mentions x → x ≤ s.nextTx) :
    Inv (setTh (alloc cfg s m) t th') := by
  have hfresh : ¬ s.lock.heldBy s.nextTx := fun hh => Nat.lt_irrefl _ (h.lockAlloc _ hh)
  have hnone : s.txs s.nextTx = none := (h.allocd _).2 (Nat.le_refl _)
  have hw : s.lock.writer = none := by cases m <;> simp [RW.compatible] at hc <;> simp [hc]
  constructor
  · exact h.noPanic
  · intro x
    simp only [setTh, alloc]
    by_cases hx : x = s.nextTx
    · subst hx; simp
    · rw [setFn_other _ _ _ _ hx, h.allocd]
      omega
  · intro x tx hx
    simp only [setTh, alloc] at hx ⊢
    by_cases hxn : x = s.nextTx
    · subst hxn; simp at hx; subst hx
      have h1 : s.nextTx ∉ s.lock.readers := fun hh => hfresh (Or.inr hh)
      cases m <;> simp [RW.acquire, h1, hw]
    · rw [setFn_other _ _ _ _ hxn] at hx
      obtain ⟨g1, g2, g3⟩ := h.flags x tx hx
      refine ⟨?_, ?_, g3⟩
      · rw [g1]; cases m <;> simp [RW.acquire, hxn]
      · rw [g2, hw]; cases m <;> simp [RW.acquire, hw]
        exact fun e => hxn e.symm
  · simp only [setTh, alloc]
    cases m
    · simp [RW.acquire, h.rdNodup]; exact fun hh => hfresh (Or.inr hh)
    · simpa [RW.acquire] using h.rdNodup
  · intro x hx
    simp only [setTh, alloc] at hx ⊢
    have : x = s.nextTx ∨ s.lock.heldBy x := by
      cases m
      · rcases hx with hx | hx
        · exact Or.inr (Or.inl hx)
        · simp [RW.acquire] at hx; rcases hx with hx | hx
          · exact Or.inl hx
          · exact Or.inr (Or.inr hx)
      · rcases hx with hx | hx
        · simp [RW.acquire] at hx; exact Or.inl hx.symm
        · exact Or.inr (Or.inr hx)
    rcases this with e | hh
    · omega
    · exact Nat.lt_succ_of_lt (h.lockAlloc x hh)
  · intro x tx hx hact
    simp only [setTh, alloc] at hx ⊢
    by_cases hxn : x = s.nextTx
    · subst hxn; exact Or.inr ⟨t, by simp; exact hnew⟩
    · rw [setFn_other _ _ _ _ hxn] at hx
      rcases h.owned x tx hx hact with hr | ⟨u, hu⟩
      · exact Or.inl hr
      · by_cases hut : u = t
        · subst hut; exact Or.inr ⟨u, by simp; exact hkeep x hu⟩
        · exact Or.inr ⟨u, by simp [setFn, hut]; exact hu⟩
  · exact h.handlesLe
  · exact h.handlesNodup
  · intro u hh x hu
    by_cases hut : u = t
    · subst hut; simp [setTh] at hu
      rcases hu with hu | hu
      · exact absurd hu (hnf hh x).1
      · exact absurd hu (hnf hh x).2
    · simp [setTh, setFn, hut] at hu; exact h.refs u hh x hu
  · intro u hh x hu tx hx
    by_cases hut : u = t
    · subst hut; simp [setTh] at hu; exact absurd hu (hnf hh x).2
    · simp [setTh, setFn, hut] at hu
      simp only [setTh, alloc] at hx
      have hlt : x < s.nextTx := h.thAlloc u x (by rw [show s.th u = _ from hu]; simp [Th.mentions])
      have hxn : x ≠ s.nextTx := by omega
      rw [setFn_other _ _ _ _ hxn] at hx
      exact h.removing u hh x hu tx hx
  · intro u x hu
    simp only [setTh, alloc] at hu ⊢
    by_cases hut : u = t
    · subst hut; simp at hu; have := hment x hu; omega
    · simp [setFn, hut] at hu; exact Nat.lt_succ_of_lt (h.thAlloc u x hu)
  · intro e he
    exact Nat.lt_succ_of_lt (h.regAlloc e he)

/-! ### registry changes -/

/-- dropping registry entries whose transactions have ended keeps the invariant. -/
theorem inv_regFilter {s : State} (h : Inv s) (keep : Entry → Bool)
    (hdead : ∀ e ∈ s.reg, keep e = false → ∀ tx, s.txs e.tx = some tx → tx.active = false) :
    Inv { s with reg := s.reg.filter keep } := by
  constructor
  · exact h.noPanic
  · exact h.allocd
  · exact h.flags
  · exact h.rdNodup
  · exact h.lockAlloc
  · intro x tx htx hact
    rcases h.owned x tx htx hact with ⟨e, he, hex⟩ | hu
    · left
      refine ⟨e, ?_, hex⟩
      simp only [List.mem_filter]
      refine ⟨he, ?_⟩
      cases hk : keep e with
      | true => rfl
      | false =>
        have := hdead e he hk tx (by rw [hex]; exact htx)
        rw [this] at hact; cases hact
    · exact Or.inr hu
  · intro e he; exact h.handlesLe e (List.mem_filter.1 he).1
  · exact h.handlesNodup.sublist (List.filter_sublist.map _)
  · intro t hh x ht
    obtain ⟨h1, h2⟩ := h.refs t hh x ht
    exact ⟨h1, fun e he => h2 e (List.mem_filter.1 he).1⟩
  · exact h.removing
  · exact h.thAlloc
  · intro e he; exact h.regAlloc e (List.mem_filter.1 he).1

theorem inv_register {s : State} (h : Inv s) (t : Tid) (c : Nat) (m : Mode) (d : Bool) (x : Nat) (w : Worker)
    (ht : s.th t = .begin c m d (.got x) w) :
    Inv (setTh { s with reg := { handle := s.nextId + 1, tx := x, conn := c } :: s.reg, nextId := s.nextId + 1 } t
          (.begin c m d .left w)) := by
  constructor
  · exact h.noPanic
  · exact h.allocd
  · exact h.flags
  · exact h.rdNodup
  · exact h.lockAlloc
  · intro y ty hy hact
    rcases h.owned y ty hy hact with ⟨e, he, hex⟩ | ⟨u, hu⟩
    · exact Or.inl ⟨e, by simp [setTh, he], hex⟩
    · by_cases hut : u = t
      · subst hut
        rw [ht] at hu
        rcases hu with hu | hu
        · simp at hu; subst hu
          exact Or.inl ⟨_, by simp [setTh]; exact Or.inl rfl, rfl⟩
        · exact Or.inr ⟨u, by simp [setTh, Th.owns]; exact hu⟩
      · exact Or.inr ⟨u, by simp [setTh, setFn, hut]; exact hu⟩
  · intro e he
    simp [setTh] at he ⊢
    rcases he with he | he
    · subst he; simp
    · exact Nat.le_succ_of_le (h.handlesLe e he)
  · simp only [setTh, List.map_cons, List.nodup_cons]
    refine ⟨?_, h.handlesNodup⟩
    intro hm
    simp at hm
    obtain ⟨e, he, hee⟩ := hm
    have := h.handlesLe e he
    omega
  · intro u hh y hu
    have hut : u ≠ t := by
      intro e; subst e; simp [setTh] at hu
    simp [setTh, setFn, hut] at hu
    obtain ⟨h1, h2⟩ := h.refs u hh y hu
    refine ⟨Nat.le_succ_of_le h1, ?_⟩
    intro e he hee
    simp [setTh] at he
    rcases he with he | he
    · subst he; simp at hee; omega
    · exact h2 e he hee
  · intro u hh y hu
    have hut : u ≠ t := by
      intro e; subst e; simp [setTh] at hu
    simp [setTh, setFn, hut] at hu
    exact h.removing u hh y hu
  · intro u y hu
    by_cases hut : u = t
    · subst hut
      simp [setTh, Th.mentions] at hu
      exact h.thAlloc u y (by rw [ht]; simp [Th.mentions]; exact Or.inr hu)
    · simp [setTh, setFn, hut] at hu; exact h.thAlloc u y hu
  · intro e he
    simp [setTh] at he
    rcases he with he | he
    · subst he; exact h.thAlloc t x (by rw [ht]; simp [Th.mentions])
    · exact h.regAlloc e he

/-! ### finishAll (cleanup loops) -/

theorem finishAll_frame (s : State) (xs : List Nat) :
    (finishAll s xs).th = s.th ∧ (finishAll s xs).reg = s.reg ∧ (finishAll s xs).nextId = s.nextId ∧
    (finishAll s xs).nextTx = s.nextTx ∧ (finishAll s xs).now = s.now ∧
    (∀ y, y ∉ xs → (finishAll s xs).txs y = s.txs y) := by
  induction xs generalizing s with
  | nil => simp [finishAll]
  | cons a xs ih =>
    have f := finishTx_frame s a
    have g := ih (finishTx s a)
    simp only [finishAll, List.foldl] at g ⊢
    refine ⟨g.1.trans f.1, g.2.1.trans f.2.1, g.2.2.1.trans f.2.2.1, g.2.2.2.1.trans f.2.2.2.1,
      g.2.2.2.2.1.trans f.2.2.2.2.1, ?_⟩
    intro y hy
    simp at hy
    rw [g.2.2.2.2.2 y hy.2, f.2.2.2.2.2 y hy.1]

theorem inv_finishAll {s : State} (h : Inv s) (xs : List Nat) : Inv (finishAll s xs) := by
  induction xs generalizing s with
  | nil => exact h
  | cons a xs ih => simp only [finishAll, List.foldl]; exact ih (inv_finishTx h a)

theorem finishAll_mono {s : State} (h : Inv s) (xs : List Nat) (y : Nat) (ty : TxS)
    (hy : (finishAll s xs).txs y = some ty) (hact : ty.active = true) : ∃ ty0, s.txs y = some ty0 ∧ ty0.active = true := by
  induction xs generalizing s with
  | nil => exact ⟨ty, hy, hact⟩
  | cons a xs ih =>
    simp only [finishAll, List.foldl] at hy
    obtain ⟨ty1, h1, h2⟩ := ih (inv_finishTx h a) hy
    exact finishTx_mono h a y ty1 h1 h2

theorem finishAll_inactive {s : State} (h : Inv s) (xs : List Nat) (x : Nat) (hx : x ∈ xs) (tx : TxS)
    (htx : (finishAll s xs).txs x = some tx) : tx.active = false := by
  induction xs generalizing s with
  | nil => cases hx
  | cons a xs ih =>
    simp only [finishAll, List.foldl] at htx
    cases hact : tx.active with
    | false => rfl
    | true =>
      exfalso
      simp at hx
      rcases hx with hx | hx
      · subst hx
        obtain ⟨ty1, h1, h2⟩ := finishAll_mono (inv_finishTx h x) xs x tx htx hact
        rw [finishTx_inactive h x ty1 h1] at h2; cases h2
      · have := ih (inv_finishTx h a) hx htx
        rw [this] at hact; cases hact

/-- CleanupStale / CleanupConnection / GracefulShutdown: roll back a set of registered transactions, drop them. -/
theorem inv_cleanup {s : State} (h : Inv s) (keep : Entry → Bool) (xs : List Nat)
    (hxs : ∀ e ∈ s.reg, keep e = false → e.tx ∈ xs) :
    Inv { finishAll s xs with reg := s.reg.filter keep } := by
  have h1 := inv_finishAll h xs
  have hreg : (finishAll s xs).reg = s.reg := (finishAll_frame s xs).2.1
  have := inv_regFilter h1 keep (by
    intro e he hk tx htx
    rw [hreg] at he
    exact finishAll_inactive h xs e.tx (hxs e he hk) tx htx)
  rw [hreg] at this
  exact this

/-! ### every step keeps the invariant -/

theorem touchTx_frame (s : State) (x : Nat) :
    (touchTx s x).th = s.th ∧ (touchTx s x).reg = s.reg ∧ (touchTx s x).nextId = s.nextId ∧
    (touchTx s x).nextTx = s.nextTx := by
  unfold touchTx
  split
  · simp
  · split <;> simp

theorem nodup_map_inj {α β : Type} (f : α → β) (l : List α) (h : (l.map f).Nodup) (a b : α) (ha : a ∈ l) (hb : b ∈ l)
    (hab : f a = f b) : a = b := by
  induction l with
  | nil => cases ha
  | cons c l ih =>
    simp only [List.map_cons, List.nodup_cons, List.mem_map, not_exists, not_and] at h
    simp at ha hb
    rcases ha with ha | ha <;> rcases hb with hb | hb
    · rw [ha, hb]
    · subst ha; exact absurd hab.symm (h.1 b hb)
    · subst hb; exact absurd hab (h.1 a ha)
    · exact ih h.2 ha hb

theorem lookup_mem (reg : List Entry) (hh : Nat) (e : Entry) (h : lookup reg hh = some e) : e ∈ reg ∧ e.handle = hh := by
  unfold lookup at h
  have h1 := List.mem_of_find?_eq_some h
  have h2 := List.find?_some h
  simp at h2
  exact ⟨h1, h2⟩

theorem inv_advance {s : State} (h : Inv s) (d : Nat) : Inv { s with now := s.now + d } :=
  { noPanic := h.noPanic, allocd := h.allocd, flags := h.flags, rdNodup := h.rdNodup, lockAlloc := h.lockAlloc,
    owned := h.owned, handlesLe := h.handlesLe, handlesNodup := h.handlesNodup, refs := h.refs,
    removing := h.removing, thAlloc := h.thAlloc, regAlloc := h.regAlloc }

theorem inv_step (cfg : Cfg) (hcap : cfg.chanCap = 0) {s s' : State} (t : Tid) (a : Action) (h : Inv s)
    (hs : step cfg s t a = some s') : Inv s' := by
  cases a with
  | advance d => simp [step] at hs; subst hs; exact inv_advance h d
  | callBegin c m =>
    cases hth : s.th t <;> simp [step, hth] at hs
    subst hs
    refine inv_setTh h t _ ?_ ?_ ?_ ?_
    · intro x tx _ _ ho; rw [hth] at ho; cases ho
    · intro hh x hx; rcases hx with hx | hx <;> cases hx
    · intro hh x hx; cases hx
    · intro x hx; simp [Th.mentions] at hx
  | ctxFire =>
    cases hth : s.th t <;> simp [step, hth] at hs
    next c m d ca w =>
    subst hs
    refine inv_setTh h t _ ?_ ?_ ?_ ?_
    · intro x tx _ _ ho; rw [hth] at ho; exact Or.inl ho
    · intro hh x hx; rcases hx with hx | hx <;> cases hx
    · intro hh x hx; cases hx
    · intro x hx; exact h.thAlloc t x (by rw [hth]; exact hx)
  | workerAcquire =>
    cases hth : s.th t <;> simp [step, hth] at hs
    next c m d ca w =>
    cases w <;> simp at hs
    obtain ⟨hc, hs⟩ := hs
    subst hs
    refine inv_alloc h m t _ hc ?_ ?_ ?_ ?_
    · simp [Th.owns]
    · intro x ho; rw [hth] at ho; simp [Th.owns] at ho ⊢; exact Or.inl ho
    · intro hh x; simp
    · intro x hx
      simp [Th.mentions] at hx
      rcases hx with hx | hx
      · exact Nat.le_of_lt (h.thAlloc t x (by rw [hth]; simp [Th.mentions]; exact hx))
      · omega
  | handoff =>
    cases hth : s.th t <;> simp [step, hth] at hs
    next c m d ca w =>
    cases ca <;> cases w <;> simp at hs
    next x =>
    subst hs
    refine inv_setTh h t _ ?_ ?_ ?_ ?_
    · intro y ty _ _ ho; rw [hth] at ho; simp [Th.owns] at ho ⊢; exact Or.inl ho
    · intro hh y hy; rcases hy with hy | hy <;> cases hy
    · intro hh y hy; cases hy
    · intro y hy; simp [Th.mentions] at hy
      exact h.thAlloc t y (by rw [hth]; simp [Th.mentions]; exact hy)
  | workerPark =>
    cases hth : s.th t <;> simp [step, hth] at hs
    next c m d ca w =>
    cases w <;> simp at hs
    omega
  | recvParked =>
    cases hth : s.th t <;> simp [step, hth] at hs
    next c m d ca w =>
    cases ca <;> cases w <;> simp at hs
    next x =>
    subst hs
    refine inv_setTh h t _ ?_ ?_ ?_ ?_
    · intro y ty _ _ ho; rw [hth] at ho; simp [Th.owns] at ho
    · intro hh y hy; rcases hy with hy | hy <;> cases hy
    · intro hh y hy; cases hy
    · intro y hy; simp [Th.mentions] at hy
      exact h.thAlloc t y (by rw [hth]; simp [Th.mentions]; exact hy)
  | workerTimeout =>
    cases hth : s.th t <;> simp [step, hth] at hs
    next c m d ca w =>
    cases d <;> cases w <;> simp at hs
    next x =>
    subst hs
    have h1 := inv_finishTx h x
    have hf := finishTx_frame s x
    refine inv_setTh h1 t _ ?_ ?_ ?_ ?_
    · intro y ty hy hact ho
      rw [hf.1, hth] at ho
      simp [Th.owns] at ho ⊢
      rcases ho with ho | ho
      · exact Or.inl ho
      · rw [← ho] at hy; rw [finishTx_inactive h x ty hy] at hact; cases hact
    · intro hh y hy; rcases hy with hy | hy <;> cases hy
    · intro hh y hy; cases hy
    · intro y hy; simp [Th.mentions] at hy
      rw [hf.2.2.2.1]
      exact h.thAlloc t y (by rw [hth]; simp [Th.mentions]; exact Or.inl hy)
  | callerTimeout =>
    cases hth : s.th t <;> simp [step, hth] at hs
    next c m d ca w =>
    cases d <;> cases ca <;> simp at hs
    subst hs
    refine inv_setTh h t _ ?_ ?_ ?_ ?_
    · intro y ty _ _ ho; rw [hth] at ho; simp [Th.owns] at ho ⊢; exact Or.inl ho
    · intro hh y hy; rcases hy with hy | hy <;> cases hy
    · intro hh y hy; cases hy
    · intro y hy; simp [Th.mentions] at hy
      exact h.thAlloc t y (by rw [hth]; simp [Th.mentions]; exact hy)
  | register =>
    cases hth : s.th t <;> simp [step, hth] at hs
    next c m d ca w =>
    cases ca <;> simp at hs
    next x =>
    subst hs
    exact inv_register h t c m d x w hth
  | hGetOp hh =>
    cases hth : s.th t <;> simp [step, hth] at hs
    cases hl : lookup s.reg hh with
    | none => simp [hl] at hs; subst hs; exact h
    | some e =>
      simp [hl] at hs; subst hs
      obtain ⟨he, _⟩ := lookup_mem s.reg hh e hl
      refine inv_setTh h t _ ?_ ?_ ?_ ?_
      · intro y ty _ _ ho; rw [hth] at ho; cases ho
      · intro h' y hy; rcases hy with hy | hy <;> cases hy
      · intro h' y hy; cases hy
      · intro y hy; simp [Th.mentions] at hy; subst hy; exact h.regAlloc e he
  | hOp valid =>
    cases hth : s.th t <;> simp [step, hth] at hs
    next x =>
    subst hs
    have h1 : Inv (if valid = true then touchTx s x else s) := by
      split
      · exact inv_touchTx h x
      · exact h
    have hthe : (if valid = true then touchTx s x else s).th = s.th := by
      split
      · exact (touchTx_frame s x).1
      · rfl
    refine inv_setTh h1 t _ ?_ ?_ ?_ ?_
    · intro y ty _ _ ho; rw [hthe, hth] at ho; cases ho
    · intro h' y hy; rcases hy with hy | hy <;> cases hy
    · intro h' y hy; cases hy
    · intro y hy; simp [Th.mentions] at hy
  | hGetFinish hh =>
    cases hth : s.th t <;> simp [step, hth] at hs
    cases hl : lookup s.reg hh with
    | none => simp [hl] at hs; subst hs; exact h
    | some e =>
      simp [hl] at hs; subst hs
      obtain ⟨he, hee⟩ := lookup_mem s.reg hh e hl
      refine inv_setTh h t _ ?_ ?_ ?_ ?_
      · intro y ty _ _ ho; rw [hth] at ho; cases ho
      · intro h' y hy
        rcases hy with hy | hy
        · simp at hy
          obtain ⟨e1, e2⟩ := hy
          subst e1; subst e2
          refine ⟨by rw [← hee]; exact h.handlesLe e he, ?_⟩
          intro e' he' hee'
          have := nodup_map_inj (·.handle) s.reg h.handlesNodup e' e he' he (by simp [hee', hee])
          rw [this]
        · cases hy
      · intro h' y hy; cases hy
      · intro y hy; simp [Th.mentions] at hy; subst hy; exact h.regAlloc e he
  | hFinish =>
    cases hth : s.th t <;> simp [step, hth] at hs
    next hh x =>
    subst hs
    have h1 := inv_finishTx h x
    have hf := finishTx_frame s x
    refine inv_setTh h1 t _ ?_ ?_ ?_ ?_
    · intro y ty _ _ ho; rw [hf.1, hth] at ho; cases ho
    · intro h' y hy
      rcases hy with hy | hy
      · cases hy
      · simp at hy
        obtain ⟨e1, e2⟩ := hy
        cases e1; cases e2
        rw [hf.2.1, hf.2.2.1]
        exact h.refs t _ _ (Or.inl hth)
    · intro h' y hy ty hty
      simp at hy
      obtain ⟨_, e2⟩ := hy
      cases e2
      exact finishTx_inactive h _ ty hty
    · intro y hy; simp [Th.mentions] at hy; cases hy
      rw [hf.2.2.2.1]
      exact h.thAlloc t _ (by rw [hth]; simp [Th.mentions])
  | hRemove =>
    cases hth : s.th t <;> simp [step, hth] at hs
    next hh x =>
    subst hs
    have h1 := inv_regFilter h (fun e => e.handle != hh) (by
      intro e he hk tx htx
      simp at hk
      have := (h.refs t hh x (Or.inr hth)).2 e he hk
      rw [this] at htx
      exact h.removing t hh x hth tx htx)
    refine inv_setTh h1 t _ ?_ ?_ ?_ ?_
    · intro y ty _ _ ho; simp only [hth] at ho; cases ho
    · intro h' y hy; rcases hy with hy | hy <;> cases hy
    · intro h' y hy; cases hy
    · intro y hy; simp [Th.mentions] at hy
  | dBegin m =>
    cases hth : s.th t <;> simp [step, hth] at hs
    obtain ⟨hc, hs⟩ := hs
    subst hs
    refine inv_alloc h m t _ hc ?_ ?_ ?_ ?_
    · simp [Th.owns]
    · intro x ho; rw [hth] at ho; cases ho
    · intro hh x; simp
    · intro x hx; simp [Th.mentions] at hx; omega
  | dOp =>
    cases hth : s.th t <;> simp [step, hth] at hs
    next x => subst hs; exact inv_touchTx h x
  | dFinish =>
    cases hth : s.th t <;> simp [step, hth] at hs
    next x =>
    subst hs
    have h1 := inv_finishTx h x
    have hf := finishTx_frame s x
    refine inv_setTh h1 t _ ?_ ?_ ?_ ?_
    · intro y ty hy hact ho
      rw [hf.1, hth] at ho
      simp [Th.owns] at ho
      subst ho; rw [finishTx_inactive h x ty hy] at hact; cases hact
    · intro h' y hy; rcases hy with hy | hy <;> cases hy
    · intro h' y hy; cases hy
    · intro y hy; simp [Th.mentions] at hy
  | cleanupStale =>
    simp [step] at hs; subst hs
    have := inv_cleanup h (fun e => !stale cfg s e) ((s.reg.filter (stale cfg s)).map (·.tx)) (by
      intro e he hk
      simp at hk
      simp only [List.mem_map, List.mem_filter]
      exact ⟨e, ⟨he, hk⟩, rfl⟩)
    exact this
  | cleanupConn c =>
    simp [step] at hs; subst hs
    have := inv_cleanup h (fun e => e.conn != c) ((s.reg.filter (fun e => e.conn == c)).map (·.tx)) (by
      intro e he hk
      simp at hk
      simp only [List.mem_map, List.mem_filter]
      exact ⟨e, ⟨he, by simp [hk]⟩, rfl⟩)
    exact this
  | shutdown =>
    simp [step] at hs; subst hs
    have := inv_cleanup h (fun _ => false) (s.reg.map (·.tx)) (by
      intro e he _
      simp only [List.mem_map]
      exact ⟨e, he, rfl⟩)
    rw [show s.reg.filter (fun _ => false) = [] from List.filter_eq_nil_iff.2 (by simp)] at this
    exact this

theorem inv_reach (cfg : Cfg) (hcap : cfg.chanCap = 0) (sched : Sched) (s : State)
    (h : reach (sys cfg) sched = some s) : Inv s :=
  reach_invariant (sys cfg) Inv (inv_init cfg) (fun _ t a _ hi hs => inv_step cfg hcap t a hi hs) sched s h

/-! ### consequences -/

theorem held_iff_active {s : State} (h : Inv s) (x : Nat) (tx : TxS) (htx : s.txs x = some tx) :
    s.lock.heldBy x ↔ tx.active = true := by
  obtain ⟨f1, f2, f3, _⟩ := h.flags x tx htx
  rw [f3, f1, f2]
  unfold RW.heldBy
  exact Or.comm

theorem held_allocated {s : State} (h : Inv s) (x : Nat) (hx : s.lock.heldBy x) : ∃ tx, s.txs x = some tx := by
  have := h.lockAlloc x hx
  cases htx : s.txs x with
  | some tx => exact ⟨tx, rfl⟩
  | none => have := (h.allocd x).1 htx; omega

/-- finishTx keeps the time stamps. -/
theorem finishTx_times (s : State) (x y : Nat) (ty : TxS) (hy : (finishTx s x).txs y = some ty) :
    ∃ ty0, s.txs y = some ty0 ∧ ty.created = ty0.created ∧ ty.lastActive = ty0.lastActive ∧ ty.ttl = ty0.ttl := by
  by_cases hyx : y = x
  · subst hyx
    unfold finishTx at hy
    split at hy
    · next hn => rw [hn] at hy; cases hy
    · next tx htx =>
      refine ⟨tx, htx, ?_⟩
      split at hy
      · split at hy
        · split at hy
          · split at hy
            · simp at hy; subst hy; simp
            · rw [htx] at hy; simp at hy; subst hy; simp
          · simp at hy; subst hy; simp
        · split at hy
          · split at hy
            · simp at hy; subst hy; simp
            · rw [htx] at hy; simp at hy; subst hy; simp
          · simp at hy; subst hy; simp
      · simp at hy; subst hy; simp
  · rw [(finishTx_frame s x).2.2.2.2.2 y hyx] at hy; exact ⟨ty, hy, rfl, rfl, rfl⟩

theorem finishAll_times (s : State) (xs : List Nat) (y : Nat) (ty : TxS) (hy : (finishAll s xs).txs y = some ty) :
    ∃ ty0, s.txs y = some ty0 ∧ ty.created = ty0.created ∧ ty.lastActive = ty0.lastActive ∧ ty.ttl = ty0.ttl := by
  induction xs generalizing s with
  | nil => exact ⟨ty, hy, rfl, rfl, rfl⟩
  | cons a xs ih =>
    simp only [finishAll, List.foldl] at hy
    obtain ⟨t1, h1, e1, e2, e3⟩ := ih (finishTx s a) hy
    obtain ⟨t0, h0, g1, g2, g3⟩ := finishTx_times s a y t1 h1
    exact ⟨t0, h0, e1.trans g1, e2.trans g2, e3.trans g3⟩

/-- the common part of the three cleanup operations: every dropped transaction has been rolled back. -/
theorem cleanup_dropped {s : State} (h : Inv s) (keep : Entry → Bool) (xs : List Nat)
    (hxs : ∀ e ∈ s.reg, keep e = false → e.tx ∈ xs) (e : Entry) (he : e ∈ s.reg) (hk : keep e = false) (tx : TxS)
    (htx : ({ finishAll s xs with reg := s.reg.filter keep } : State).txs e.tx = some tx) :
    tx.active = false ∧ ¬ ({ finishAll s xs with reg := s.reg.filter keep } : State).lock.heldBy e.tx := by
  have hinv := inv_cleanup h keep xs hxs
  have hin : tx.active = false := finishAll_inactive h xs e.tx (hxs e he hk) tx htx
  refine ⟨hin, ?_⟩
  rw [held_iff_active hinv e.tx tx htx, hin]; simp

/-- any sequence of calls on ONE transaction by any callers: `true` = Commit/Rollback, `false` = Get/Put/Delete/scan. -/
def applyCalls (s : State) (x : Nat) : List Bool → State
  | [] => s
  | true :: cs => applyCalls (finishTx s x) x cs
  | false :: cs => applyCalls (touchTx s x) x cs

theorem touchTx_active (s : State) (x : Nat) (tx : TxS) (htx : s.txs x = some tx) :
    ∃ tx', (touchTx s x).txs x = some tx' ∧ tx'.active = tx.active := by
  unfold touchTx
  simp only [htx]
  split
  · exact ⟨{ tx with lastActive := s.now }, by simp, rfl⟩
  · exact ⟨{ tx with closedCalls := tx.closedCalls + 1 }, by simp, rfl⟩

theorem applyCalls_spec {s : State} (h : Inv s) (x : Nat) (tx : TxS) (htx : s.txs x = some tx) (cs : List Bool) :
    Inv (applyCalls s x cs) ∧ ∃ tx', (applyCalls s x cs).txs x = some tx' ∧
      tx'.active = (tx.active && !cs.any id) := by
  induction cs generalizing s tx with
  | nil => exact ⟨h, tx, htx, by simp⟩
  | cons c cs ih =>
    cases c with
    | true =>
      simp only [applyCalls]
      have h1 := inv_finishTx h x
      cases hfx : (finishTx s x).txs x with
      | none =>
        exfalso
        have := (h1.allocd x).1 hfx
        rw [(finishTx_frame s x).2.2.2.1] at this
        have h2 := (h.allocd x).2 this
        rw [htx] at h2; cases h2
      | some tx1 =>
        obtain ⟨hI, tx', e1, e2⟩ := ih h1 tx1 hfx
        refine ⟨hI, tx', e1, ?_⟩
        rw [e2, finishTx_inactive h x tx1 hfx]; simp
    | false =>
      simp only [applyCalls]
      obtain ⟨tx1, e1, e2⟩ := touchTx_active s x tx htx
      obtain ⟨hI, tx', f1, f2⟩ := ih (inv_touchTx h x) tx1 e1
      refine ⟨hI, tx', f1, ?_⟩
      rw [f2, e2]; simp

/-- Begin: the caller is gone only after the context is done, and whoever received the transaction has no worker left. -/
structure BeginInv (s : State) : Prop where
  left : ∀ t c m d w, s.th t = .begin c m d .left w → d = true ∨ w = .gone
  got : ∀ t c m d y w, s.th t = .begin c m d (.got y) w → w = .gone

theorem beginInv_step (cfg : Cfg) {s s' : State} (t : Tid) (a : Action) (h : BeginInv s)
    (hs : step cfg s t a = some s') : BeginInv s' := by
  have same : s'.th = s.th → BeginInv s' := by
    intro e; exact ⟨by rw [e]; exact h.left, by rw [e]; exact h.got⟩
  have upd : ∀ (s1 : State) (th' : Th), s1.th = s.th → s' = setTh s1 t th' →
      (∀ c m d w, th' = .begin c m d .left w → d = true ∨ w = .gone) →
      (∀ c m d y w, th' = .begin c m d (.got y) w → w = .gone) → BeginInv s' := by
    intro s1 th' e1 e2 p1 p2
    subst e2
    constructor
    · intro u c m d w hu
      by_cases hut : u = t
      · subst hut; simp [setTh] at hu; exact p1 c m d w hu
      · simp [setTh, setFn, hut, e1] at hu; exact h.left u c m d w hu
    · intro u c m d y w hu
      by_cases hut : u = t
      · subst hut; simp [setTh] at hu; exact p2 c m d y w hu
      · simp [setTh, setFn, hut, e1] at hu; exact h.got u c m d y w hu
  cases a with
  | advance d => simp [step] at hs; subst hs; exact same rfl
  | callBegin c m =>
    cases hth : s.th t <;> simp [step, hth] at hs
    exact upd s _ rfl hs.symm (by intro c m d w e; cases e) (by intro c m d y w e; cases e)
  | ctxFire =>
    cases hth : s.th t <;> simp [step, hth] at hs
    next c m d ca w =>
    refine upd s _ rfl hs.symm ?_ ?_
    · intro c' m' d' w' e; simp at e; exact Or.inl e.2.2.1
    · intro c' m' d' y w' e; simp at e
      obtain ⟨_, _, _, e4, e5⟩ := e
      subst e4; subst e5
      exact h.got t c m d y w hth
  | workerAcquire =>
    cases hth : s.th t <;> simp [step, hth] at hs
    next c m d ca w =>
    cases w <;> simp at hs
    obtain ⟨_, hs⟩ := hs
    refine upd (alloc cfg s m) _ rfl hs.symm ?_ ?_
    · intro c' m' d' w' e; simp at e
      obtain ⟨_, _, e3, e4, _⟩ := e
      subst e3; subst e4
      rcases h.left t c m d _ hth with h1 | h1
      · exact Or.inl h1
      · cases h1
    · intro c' m' d' y w' e; simp at e
      obtain ⟨_, _, _, e4, _⟩ := e
      subst e4
      have := h.got t c m d y _ hth
      cases this
  | handoff =>
    cases hth : s.th t <;> simp [step, hth] at hs
    next c m d ca w =>
    cases ca <;> cases w <;> simp at hs
    refine upd s _ rfl hs.symm ?_ ?_
    · intro c' m' d' w' e; simp at e
    · intro c' m' d' y w' e; simp at e; exact e.2.2.2.2.symm
  | workerPark =>
    cases hth : s.th t <;> simp [step, hth] at hs
    next c m d ca w =>
    cases w <;> simp at hs
    next x =>
    obtain ⟨_, hs⟩ := hs
    refine upd s _ rfl hs.symm ?_ ?_
    · intro c' m' d' w' e; simp at e
      obtain ⟨_, _, e3, e4, _⟩ := e
      subst e3; subst e4
      rcases h.left t c m d _ hth with h1 | h1
      · exact Or.inl h1
      · cases h1
    · intro c' m' d' y w' e; simp at e
      obtain ⟨_, _, _, e4, _⟩ := e
      subst e4
      have := h.got t c m d y _ hth
      cases this
  | recvParked =>
    cases hth : s.th t <;> simp [step, hth] at hs
    next c m d ca w =>
    cases ca <;> cases w <;> simp at hs
    refine upd s _ rfl hs.symm ?_ ?_
    · intro c' m' d' w' e; simp at e
    · intro c' m' d' y w' e; simp at e; exact e.2.2.2.2.symm
  | workerTimeout =>
    cases hth : s.th t <;> simp [step, hth] at hs
    next c m d ca w =>
    cases d <;> cases w <;> simp at hs
    next x =>
    refine upd (finishTx s x) _ (finishTx_frame s x).1 hs.symm ?_ ?_
    · intro c' m' d' w' e; simp at e; exact Or.inr e.2.2.2.2.symm
    · intro c' m' d' y w' e; simp at e; exact e.2.2.2.2.symm
  | callerTimeout =>
    cases hth : s.th t <;> simp [step, hth] at hs
    next c m d ca w =>
    cases d <;> cases ca <;> simp at hs
    refine upd s _ rfl hs.symm ?_ ?_
    · intro c' m' d' w' e; simp at e; exact Or.inl e.2.2.1
    · intro c' m' d' y w' e; simp at e
  | register =>
    cases hth : s.th t <;> simp [step, hth] at hs
    next c m d ca w =>
    cases ca <;> simp at hs
    next x =>
    refine upd { s with reg := { handle := s.nextId + 1, tx := x, conn := c } :: s.reg, nextId := s.nextId + 1 } _ rfl hs.symm ?_ ?_
    · intro c' m' d' w' e; simp at e
      obtain ⟨_, _, _, e4⟩ := e
      subst e4
      exact Or.inr (h.got t c m d x w hth)
    · intro c' m' d' y w' e; simp at e
  | hGetOp hh =>
    cases hth : s.th t <;> simp [step, hth] at hs
    cases hl : lookup s.reg hh with
    | none => simp [hl] at hs; subst hs; exact h
    | some e =>
      simp [hl] at hs
      exact upd s _ rfl hs.symm (by intro c m d w e; cases e) (by intro c m d y w e; cases e)
  | hOp valid =>
    cases hth : s.th t <;> simp [step, hth] at hs
    next x =>
    refine upd (if valid = true then touchTx s x else s) _ ?_ hs.symm (by intro c m d w e; cases e) (by intro c m d y w e; cases e)
    split
    · exact (touchTx_frame s x).1
    · rfl
  | hGetFinish hh =>
    cases hth : s.th t <;> simp [step, hth] at hs
    cases hl : lookup s.reg hh with
    | none => simp [hl] at hs; subst hs; exact h
    | some e =>
      simp [hl] at hs
      exact upd s _ rfl hs.symm (by intro c m d w e; cases e) (by intro c m d y w e; cases e)
  | hFinish =>
    cases hth : s.th t <;> simp [step, hth] at hs
    next hh x =>
    exact upd (finishTx s x) _ (finishTx_frame s x).1 hs.symm (by intro c m d w e; cases e) (by intro c m d y w e; cases e)
  | hRemove =>
    cases hth : s.th t <;> simp [step, hth] at hs
    next hh x =>
    exact upd { s with reg := s.reg.filter (fun e => e.handle != hh) } _ rfl hs.symm (by intro c m d w e; cases e) (by intro c m d y w e; cases e)
  | dBegin m =>
    cases hth : s.th t <;> simp [step, hth] at hs
    obtain ⟨_, hs⟩ := hs
    exact upd (alloc cfg s m) _ rfl hs.symm (by intro c m d w e; cases e) (by intro c m d y w e; cases e)
  | dOp =>
    cases hth : s.th t <;> simp [step, hth] at hs
    next x => subst hs; exact same (touchTx_frame s x).1
  | dFinish =>
    cases hth : s.th t <;> simp [step, hth] at hs
    next x =>
    exact upd (finishTx s x) _ (finishTx_frame s x).1 hs.symm (by intro c m d w e; cases e) (by intro c m d y w e; cases e)
  | cleanupStale => simp [step] at hs; subst hs; exact same (finishAll_frame s _).1
  | cleanupConn c => simp [step] at hs; subst hs; exact same (finishAll_frame s _).1
  | shutdown => simp [step] at hs; subst hs; exact same (finishAll_frame s _).1

theorem beginInv_reach (cfg : Cfg) (sched : Sched) (s : State) (h : reach (sys cfg) sched = some s) : BeginInv s :=
  reach_invariant (sys cfg) BeginInv ⟨by simp [sys], by simp [sys]⟩
    (fun _ t a _ hi hs => beginInv_step cfg t a hi hs) sched s h

end Kevo.Proofs.Registry
