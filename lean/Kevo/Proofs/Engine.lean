/-
  Kevo.Proofs.Engine — refinement of the logical storage engine model (Kevo.Model.Engine) to the abstract map.
-/
import Kevo.Model.Engine
import Kevo.Spec.Map
import Kevo.Proofs.EngineLemmas
namespace Kevo.Proofs.Engine
open Kevo Kevo.Engine Kevo.Spec

/-- one step of the engine model on a client operation -/
def engStep (s : St) : Op → St × Option (Option Bytes)
  | .put k v => (put s k v, none)
  | .del k => (delete s k, none)
  | .batch ops => (batch s ops, none)
  | .get k => (s, some (get s k))
  | .flush => (flushMemTables s, none)
  | .reopen => (reopenC s, none)

def engOutputs : St → List Op → List (Option Bytes)
  | _, [] => []
  | s, o :: rest =>
    let (s', out) := engStep s o
    match out with
    | some r => r :: engOutputs s' rest
    | none => engOutputs s' rest

def engRun (s : St) (ops : List Op) : St := ops.foldl (fun s o => (engStep s o).1) s

def init (cfg : Cfg) : St := { cfg := cfg }

/-- sequence numbers reported (`storage_last_sequence`) after each successful write of a program, in issue order -/
def stamps : St → List Op → List Nat
  | _, [] => []
  | s, o :: rest =>
    let s' := (engStep s o).1
    match o with
    | .put _ _ | .del _ => s'.lastSeq :: stamps s' rest
    | .batch ops => if ops.isEmpty then stamps s' rest else s'.lastSeq :: stamps s' rest
    | _ => stamps s' rest

/-- all sequence numbers stored anywhere in the state -/
def allSeqs (s : St) : List Nat :=
  s.wal.flatten.map (·.seq) ++ s.pool.active.entries.map (·.seq) ++ (s.pool.immutables.flatMap (·.entries)).map (·.seq) ++
  (s.ssts.flatMap (·.entries)).map (·.seq)


/-! ### the invariant along a program (helper lemmas in Kevo.Proofs.EngineLemmas) -/

/-- the history (all versions ever written, newest first) after one more operation -/
def histStep (s : St) (hist : List MEntry) : Op → List MEntry
  | .put k v => { key := k, seq := s.walNext, val := some v } :: hist
  | .del k => { key := k, seq := s.walNext, val := none } :: hist
  | .batch ops => (ops.map (mkE s.walNext)).reverse ++ hist
  | _ => hist

theorem init_inv (cfg : Cfg) : EInv (init cfg) [] :=
  ⟨⟨fun _ => rfl, rfl⟩, rfl, by simp [init], List.Pairwise.nil, by simp, Or.inl rfl, rfl, by simp [init],
    by simp [init]⟩

theorem step_inv {s : St} {hist : List MEntry} (h : EInv s hist) (o : Op) :
    EInv (engStep s o).1 (histStep s hist o) := by
  cases o with
  | put k v => exact put_inv h k v
  | del k => exact delete_inv h k
  | batch ops => exact batch_inv h ops
  | get k => exact h
  | flush => exact flushMemTables_inv h
  | reopen => exact (reopenC_inv h).1

theorem step_abs (s : St) (hist : List MEntry) (o : Op) :
    absOf (histStep s hist o) = (mapStep (absOf hist) o).1 := by
  cases o with
  | put k v => exact absOf_cons _ _
  | del k => exact absOf_cons _ _
  | batch ops => exact absOf_batch _ ops hist
  | get k => rfl
  | flush => rfl
  | reopen => rfl

theorem step_out {s : St} {hist : List MEntry} (h : EInv s hist) (o : Op) :
    (engStep s o).2 = (mapStep (absOf hist) o).2 := by
  cases o with
  | get k => simp only [engStep, mapStep, get_eq h k]
  | _ => rfl

theorem outputs_refine : ∀ (ops : List Op) (s : St) (hist : List MEntry), EInv s hist →
    engOutputs s ops = mapOutputs (absOf hist) ops := by
  intro ops
  induction ops with
  | nil => intro s hist _; rfl
  | cons o rest ih =>
    intro s hist h
    have h1 := ih _ _ (step_inv h o)
    rw [step_abs] at h1
    have h2 := step_out h o
    unfold engOutputs mapOutputs
    simp only [h2, h1]
    rfl

theorem engRun_cons (s : St) (o : Op) (ops : List Op) : engRun s (o :: ops) = engRun (engStep s o).1 ops := rfl

theorem engRun_snoc (s : St) (o : Op) (ops : List Op) : engRun s (ops ++ [o]) = (engStep (engRun s ops) o).1 := by
  simp [engRun, List.foldl_append]

theorem run_inv : ∀ (ops : List Op) (s : St) (hist : List MEntry), EInv s hist →
    ∃ hist', EInv (engRun s ops) hist' := by
  intro ops
  induction ops with
  | nil => intro s hist h; exact ⟨hist, h⟩
  | cons o rest ih =>
    intro s hist h
    exact ih _ _ (step_inv h o)

theorem put_frame (s : St) (k v : Bytes) : (put s k v).lastSeq = s.walNext ∧ (put s k v).walNext = s.walNext + 1 := by
  unfold put; exact maybeFlush_frame _

theorem delete_frame (s : St) (k : Bytes) : (delete s k).lastSeq = s.walNext ∧ (delete s k).walNext = s.walNext + 1 := by
  unfold delete; exact maybeFlush_frame _

theorem batch_frame (s : St) (ops : List (Bool × Bytes × Bytes)) (hne : ops ≠ []) :
    (batch s ops).lastSeq = s.walNext ∧ (batch s ops).walNext = s.walNext + 1 := by
  rw [batch_eq s ops hne]; exact maybeFlush_frame _

theorem batch_nil_frame (s : St) : (batch s []).lastSeq = s.lastSeq ∧ (batch s []).walNext = s.walNext :=
  maybeFlush_frame s

theorem step_frame {s : St} {hist : List MEntry} (h : EInv s hist) (o : Op) :
    s.lastSeq ≤ (engStep s o).1.lastSeq ∧ s.walNext ≤ (engStep s o).1.walNext := by
  have hn := h.next
  cases o with
  | put k v => have := put_frame s k v; simp only [engStep]; omega
  | del k => have := delete_frame s k; simp only [engStep]; omega
  | batch ops =>
    by_cases hne : ops = []
    · subst hne; have := batch_nil_frame s; simp only [engStep]; omega
    · have := batch_frame s ops hne; simp only [engStep]; omega
  | get k => simp [engStep]
  | flush => have := flushMemTables_frame s; simp only [engStep]; omega
  | reopen => have := (reopenC_inv h).2; simp only [engStep]; omega

theorem stamps_inv : ∀ (ops : List Op) (s : St) (hist : List MEntry), EInv s hist →
    (stamps s ops).Pairwise (· < ·) ∧ ∀ n ∈ stamps s ops, s.lastSeq < n := by
  intro ops
  induction ops with
  | nil => intro s hist _; simp [stamps]
  | cons o rest ih =>
    intro s hist h
    obtain ⟨ih1, ih2⟩ := ih _ _ (step_inv h o)
    have hf := step_frame h o
    have hn := h.next
    have hskip : (stamps (engStep s o).1 rest).Pairwise (· < ·) ∧ ∀ n ∈ stamps (engStep s o).1 rest, s.lastSeq < n :=
      ⟨ih1, fun n hn' => by have := ih2 n hn'; omega⟩
    have hkeep : s.lastSeq < (engStep s o).1.lastSeq →
        ((engStep s o).1.lastSeq :: stamps (engStep s o).1 rest).Pairwise (· < ·) ∧
        ∀ n ∈ (engStep s o).1.lastSeq :: stamps (engStep s o).1 rest, s.lastSeq < n := by
      intro hlt
      refine ⟨List.Pairwise.cons ih2 ih1, ?_⟩
      intro n hn'
      rcases List.mem_cons.mp hn' with rfl | hn'
      · exact hlt
      · have := ih2 n hn'; omega
    cases o with
    | put k v => exact hkeep (by have := put_frame s k v; simp only [engStep]; omega)
    | del k => exact hkeep (by have := delete_frame s k; simp only [engStep]; omega)
    | batch ops =>
      by_cases hne : ops = []
      · subst hne; exact hskip
      · have he : ops.isEmpty = false := by cases ops <;> simp_all
        simp only [stamps, he]
        exact hkeep (by have := batch_frame s ops hne; simp only [engStep]; omega)
    | get k => exact hskip
    | flush => exact hskip
    | reopen => exact hskip

theorem log_order_aux {s : St} {hist : List MEntry} (h : EInv s hist) :
    (s.wal.flatten.map (·.seq)).Pairwise (· ≤ ·) ∧ (∀ n ∈ allSeqs s, n < s.walNext) ∧ s.lastSeq < s.walNext := by
  have hn := h.next
  have hb : ∀ e ∈ hist, e.seq < s.walNext := fun e he => by have := h.bound e he; omega
  refine ⟨?_, ?_, by omega⟩
  · have : s.wal.flatten.map (·.seq) = (hist.map (·.seq)).reverse := by
      rw [← List.map_reverse, ← h.log, List.map_map]; rfl
    rw [this, List.pairwise_reverse]
    exact h.sorted
  · intro n hn'
    simp only [allSeqs, List.mem_append, List.mem_map] at hn'
    rcases hn' with ((⟨l, hl, rfl⟩ | ⟨e, he, rfl⟩) | ⟨e, he, rfl⟩) | ⟨e, he, rfl⟩
    · have : toM l ∈ hist := by
        rw [← List.mem_reverse, ← h.log]; exact List.mem_map_of_mem hl
      exact hb _ this
    · exact hb e (h.pool.mem (mem_poolList_active he))
    · refine hb e (h.pool.mem ?_)
      simp only [List.mem_flatMap] at he
      obtain ⟨m, hm, he⟩ := he
      simp only [poolList, List.flatMap_cons, List.mem_append, List.mem_flatMap, List.mem_reverse]
      exact Or.inr ⟨m, hm, he⟩
    · simp only [List.mem_flatMap] at he
      obtain ⟨t, ht, he⟩ := he
      exact hb e (h.sst t ht e he)

/-- C01: every get of every program returns what the abstract map returns — the latest preceding write of the
    key, or nothing if it was never written or its latest write is a delete — for every memtable size (every way
    the data moves between the active table, immutable tables and SSTables), across flushes and reopenings. -/
theorem get_refines (cfg : Cfg) (hcfg : 0 < cfg.memTableSize) (ops : List Op) :
    engOutputs (init cfg) ops = mapOutputs emptyMap ops := by
  have _ := hcfg
  have := outputs_refine ops (init cfg) [] (init_inv cfg)
  rwa [absOf_nil] at this

/-- C01 corollaries: maintenance never changes what any key reads as. -/
theorem flush_preserves_view (cfg : Cfg) (hcfg : 0 < cfg.memTableSize) (ops : List Op) (k : Bytes) :
    get (flushMemTables (engRun (init cfg) ops)) k = get (engRun (init cfg) ops) k := by
  have _ := hcfg
  obtain ⟨hist, h⟩ := run_inv ops (init cfg) [] (init_inv cfg)
  rw [get_eq h k, get_eq (flushMemTables_inv h) k]

theorem reopen_preserves_view (cfg : Cfg) (hcfg : 0 < cfg.memTableSize) (ops : List Op) (k : Bytes) :
    get (reopen (engRun (init cfg) ops)) k = get (engRun (init cfg) ops) k := by
  have _ := hcfg
  obtain ⟨hist, h⟩ := run_inv ops (init cfg) [] (init_inv cfg)
  rw [get_eq h k, get_eq (reopen_inv h).1 k]

/-- C08: the numbers stamped on successive successful writes are strictly increasing over the whole life of the
    database (flushes, rotations, reopenings included). -/
theorem seq_strictly_increasing (cfg : Cfg) (hcfg : 0 < cfg.memTableSize) (ops : List Op) :
    (stamps (init cfg) ops).Pairwise (· < ·) := by
  have _ := hcfg
  exact (stamps_inv ops (init cfg) [] (init_inv cfg)).1

/-- C08: the log, read in file order, carries non-decreasing numbers, and every number stored in any layer is
    below the counter; the reported last sequence never decreases along a program. -/
theorem log_order_is_seq_order (cfg : Cfg) (hcfg : 0 < cfg.memTableSize) (ops : List Op) :
    let s := engRun (init cfg) ops
    (s.wal.flatten.map (·.seq)).Pairwise (· ≤ ·) ∧ (∀ n ∈ allSeqs s, n < s.walNext) ∧ s.lastSeq < s.walNext := by
  have _ := hcfg
  obtain ⟨hist, h⟩ := run_inv ops (init cfg) [] (init_inv cfg)
  exact log_order_aux h

theorem last_seq_monotone (cfg : Cfg) (hcfg : 0 < cfg.memTableSize) (ops : List Op) (o : Op) :
    (engRun (init cfg) ops).lastSeq ≤ (engRun (init cfg) (ops ++ [o])).lastSeq ∧
    (engRun (init cfg) ops).walNext ≤ (engRun (init cfg) (ops ++ [o])).walNext := by
  have _ := hcfg
  obtain ⟨hist, h⟩ := run_inv ops (init cfg) [] (init_inv cfg)
  rw [engRun_snoc]
  exact step_frame h o

end Kevo.Proofs.Engine
