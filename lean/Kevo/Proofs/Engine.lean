/-
  Kevo.Proofs.Engine — refinement of the logical storage engine model (Kevo.Model.Engine) to the abstract map.
-/
import Kevo.Model.Engine
import Kevo.Spec.Map
namespace Kevo.Proofs.Engine
open Kevo Kevo.Engine Kevo.Spec

/-- one step of the engine model on a client operation -/
def engStep (s : St) : Op → St × Option (Option Bytes)
  | .put k v => (put s k v, none)
  | .del k => (delete s k, none)
  | .batch ops => (batch s ops, none)
  | .get k => (s, some (get s k))
  | .flush => (flushMemTables s, none)
  | .reopen => (reopen s, none)

def engOutputs : St → List Op → List (Option Bytes)
  | _, [] => []
  | s, o :: rest =>
    let (s', out) := engStep s o
    match out with
    | some r => r :: engOutputs s' rest
    | none => engOutputs s' rest

def engRun (s : St) (ops : List Op) : St := ops.foldl (fun s o => (engStep s o).1) s

def init (cfg : Cfg) : St := { cfg := cfg }

/-- sequence numbers reported (`storage_last_sequence`) after each successful write of a program, in issue order -/
def stamps : St → List Op → List Nat
  | _, [] => []
  | s, o :: rest =>
    let s' := (engStep s o).1
    match o with
    | .put _ _ | .del _ => s'.lastSeq :: stamps s' rest
    | .batch ops => if ops.isEmpty then stamps s' rest else s'.lastSeq :: stamps s' rest
    | _ => stamps s' rest

/-- all sequence numbers stored anywhere in the state -/
def allSeqs (s : St) : List Nat :=
  s.wal.flatten.map (·.seq) ++ s.pool.active.entries.map (·.seq) ++ (s.pool.immutables.flatMap (·.entries)).map (·.seq) ++
  (s.ssts.flatMap (·.entries)).map (·.seq)

/-- C01: every get of every program returns what the abstract map returns — the latest preceding write of the
    key, or nothing if it was never written or its latest write is a delete — for every memtable size (every way
    the data moves between the active table, immutable tables and SSTables), across flushes and reopenings. -/
theorem get_refines (cfg : Cfg) (hcfg : 0 < cfg.memTableSize) (ops : List Op) :
    engOutputs (init cfg) ops = mapOutputs emptyMap ops := by
  sorry

/-- C01 corollaries: maintenance never changes what any key reads as. -/
theorem flush_preserves_view (cfg : Cfg) (hcfg : 0 < cfg.memTableSize) (ops : List Op) (k : Bytes) :
    get (flushMemTables (engRun (init cfg) ops)) k = get (engRun (init cfg) ops) k := by
  sorry

theorem reopen_preserves_view (cfg : Cfg) (hcfg : 0 < cfg.memTableSize) (ops : List Op) (k : Bytes) :
    get (reopen (engRun (init cfg) ops)) k = get (engRun (init cfg) ops) k := by
  sorry

/-- C08: the numbers stamped on successive successful writes are strictly increasing over the whole life of the
    database (flushes, rotations, reopenings included). -/
theorem seq_strictly_increasing (cfg : Cfg) (hcfg : 0 < cfg.memTableSize) (ops : List Op) :
    (stamps (init cfg) ops).Pairwise (· < ·) := by
  sorry

/-- C08: the log, read in file order, carries non-decreasing numbers, and every number stored in any layer is
    below the counter; the reported last sequence never decreases along a program. -/
theorem log_order_is_seq_order (cfg : Cfg) (hcfg : 0 < cfg.memTableSize) (ops : List Op) :
    let s := engRun (init cfg) ops
    (s.wal.flatten.map (·.seq)).Pairwise (· ≤ ·) ∧ (∀ n ∈ allSeqs s, n < s.walNext) ∧ s.lastSeq < s.walNext := by
  sorry

theorem last_seq_monotone (cfg : Cfg) (hcfg : 0 < cfg.memTableSize) (ops : List Op) (o : Op) :
    (engRun (init cfg) ops).lastSeq ≤ (engRun (init cfg) (ops ++ [o])).lastSeq ∧
    (engRun (init cfg) ops).walNext ≤ (engRun (init cfg) (ops ++ [o])).walNext := by
  sorry

end Kevo.Proofs.Engine
