/-
  Kevo.Proofs.Retention — what sequence-based WAL retention can and cannot delete (C08, C02).
-/
import Kevo.Model.Retention
namespace Kevo.Proofs.Retention
open Kevo Kevo.Retention

def maxOf (l : List Nat) : Nat := l.foldl max 0

theorem foldl_max_ge (l : List Nat) (a : Nat) : a ≤ l.foldl max a ∧ ∀ x ∈ l, x ≤ l.foldl max a := by
  induction l generalizing a with
  | nil => exact ⟨Nat.le_refl _, fun x hx => by cases hx⟩
  | cons y ys ih =>
    obtain ⟨h1, h2⟩ := ih (max a y)
    refine ⟨Nat.le_trans (Nat.le_max_left a y) h1, ?_⟩
    intro x hx
    simp only [List.mem_cons] at hx
    rcases hx with rfl | hx
    · exact Nat.le_trans (Nat.le_max_right a x) h1
    · exact h2 x hx

theorem foldl_max_mem (l : List Nat) (a : Nat) : l.foldl max a = a ∨ l.foldl max a ∈ l := by
  induction l generalizing a with
  | nil => left; rfl
  | cons y ys ih =>
    rcases ih (max a y) with h | h
    · simp only [List.foldl_cons]
      rw [h]
      rcases Nat.le_total a y with hay | hya
      · right; rw [Nat.max_eq_right hay]; simp
      · left; exact Nat.max_eq_left hya
    · right; simp only [List.foldl_cons, List.mem_cons]; right; exact h

theorem le_maxOf {l : List Nat} {x : Nat} (h : x ∈ l) : x ≤ maxOf l := (foldl_max_ge l 0).2 x h

theorem maxOf_mem (l : List Nat) : maxOf l = 0 ∨ maxOf l ∈ l := foldl_max_mem l 0

/-- the greatest number of a non-empty file is the upper bound `getSequenceBounds` reports -/
theorem boundsOf_hi {f : List Nat} {lo hi : Nat} (h : boundsOf f = some (lo, hi)) : ∀ x ∈ f, x ≤ hi := by
  cases f with
  | nil => simp [boundsOf] at h
  | cons s rest =>
    simp only [boundsOf, Option.some.injEq, Prod.mk.injEq] at h
    obtain ⟨_, rfl⟩ := h
    intro x hx
    simp only [List.mem_cons] at hx
    rcases hx with rfl | hx
    · exact (foldl_max_ge rest x).1
    · exact (foldl_max_ge rest s).2 x hx

/-- with the count and age rules off, a candidate is deleted only if it has readable entries and the GREATEST number it
    holds is below `MinSequenceKeep` -/
theorem seq_rule_only (cfg : Cfg) (hc : cfg.maxFileCount = 0) (ha : cfg.maxAge = 0) (infos : List Info) (i : Nat)
    (x : Info) (h : deleted cfg infos i x = true) : ∃ lo hi, x.bounds = some (lo, hi) ∧ hi < cfg.minSeqKeep := by
  simp only [deleted, countRule, hc, ageRule, ha, seqRule, if_true, Bool.false_or, Nat.lt_irrefl, decide_false,
    Bool.false_and, Bool.and_eq_true, decide_eq_true_eq] at h
  obtain ⟨_, h2⟩ := h
  cases hb : x.bounds with
  | none => rw [hb] at h2; simp at h2
  | some b =>
    obtain ⟨lo, hi⟩ := b
    rw [hb] at h2
    exact ⟨lo, hi, rfl, by simpa using h2⟩

theorem mem_keptOf {cfg : Cfg} {closed : List (List Nat)} {ages : List Nat} {f : List Nat} :
    f ∈ keptOf cfg closed ages ↔
      ∃ i, closed[i]? = some f ∧ deleted cfg (infosOf closed ages) i (infoOf ages f i) = false := by
  unfold keptOf
  simp only [List.mem_filterMap, Prod.exists]
  constructor
  · rintro ⟨g, i, hmem, hif⟩
    have hget := List.mk_mem_zipIdx_iff_getElem?.mp hmem
    by_cases hd : deleted cfg (infosOf closed ages) i (infoOf ages g i) = true
    · rw [if_pos hd] at hif; cases hif
    · rw [if_neg hd] at hif
      cases hif
      exact ⟨i, hget, by simpa using hd⟩
  · rintro ⟨i, hget, hd⟩
    refine ⟨f, i, List.mk_mem_zipIdx_iff_getElem?.mpr hget, ?_⟩
    rw [if_neg (by rw [hd]; simp)]

theorem keptOf_subset {cfg : Cfg} {closed : List (List Nat)} {ages : List Nat} {f : List Nat}
    (h : f ∈ keptOf cfg closed ages) : f ∈ closed := by
  obtain ⟨i, hget, _⟩ := mem_keptOf.mp h
  exact List.mem_of_getElem? hget

/-- every file either is the current one or a closed one (non-empty directory) -/
theorem mem_split {files : List (List Nat)} {f : List Nat} (h : f ∈ files) :
    f ∈ files.dropLast ∨ files.getLast? = some f := by
  induction files with
  | nil => cases h
  | cons a rest ih =>
    cases rest with
    | nil =>
      simp only [List.mem_singleton] at h
      right; simp [h]
    | cons b rest' =>
      simp only [List.mem_cons] at h
      rcases h with rfl | h
      · left; simp [List.dropLast]
      · have := ih (by simpa using h)
        rcases this with h1 | h2
        · left; simp only [List.dropLast_cons₂, List.mem_cons]; right; exact h1
        · right; simpa using h2

/-- SEQUENCE-BASED RETENTION KEEPS THE HIGHEST NUMBER. With the count and age rules off and `MinSequenceKeep` not above
    the greatest number in the directory (an acknowledged number is a written number), the greatest sequence number is
    still in the directory after `ManageRetention`: the file that holds it is the current file, or a closed file whose
    upper bound is ≥ `MinSequenceKeep`. Reopening therefore restores the same counter (C08's hypothesis "the newest
    non-empty log file has not been retired" is discharged for this rule). -/
theorem retain_keeps_max (cfg : Cfg) (hc : cfg.maxFileCount = 0) (ha : cfg.maxAge = 0)
    (files : List (List Nat)) (ages : List Nat) (hM : cfg.minSeqKeep ≤ maxOf files.flatten) :
    maxOf (retainL cfg files ages).flatten = maxOf files.flatten := by
  unfold retainL
  split
  · rfl
  · rename_i hlen
    have hsub : ∀ x ∈ (keptOf cfg files.dropLast ages ++ [files.getLast?.getD []]).flatten, x ∈ files.flatten := by
      intro x hx
      simp only [List.mem_flatten, List.mem_append, List.mem_singleton] at hx ⊢
      obtain ⟨f, hf, hxf⟩ := hx
      rcases hf with hf | rfl
      · exact ⟨f, List.dropLast_subset _ (keptOf_subset hf), hxf⟩
      · cases hl : files.getLast? with
        | none => rw [hl] at hxf; simp at hxf
        | some g =>
          rw [hl] at hxf
          exact ⟨g, List.mem_of_getLast? hl, hxf⟩
    have hle : maxOf (keptOf cfg files.dropLast ages ++ [files.getLast?.getD []]).flatten ≤ maxOf files.flatten := by
      rcases maxOf_mem (keptOf cfg files.dropLast ages ++ [files.getLast?.getD []]).flatten with h0 | hm
      · rw [h0]; exact Nat.zero_le _
      · exact le_maxOf (hsub _ hm)
    apply Nat.le_antisymm hle
    rcases maxOf_mem files.flatten with h0 | hm
    · rw [h0]; exact Nat.zero_le _
    · -- the greatest number M lives in some file; that file survives
      apply le_maxOf
      simp only [List.mem_flatten] at hm
      obtain ⟨f, hf, hMf⟩ := hm
      simp only [List.mem_flatten, List.mem_append, List.mem_singleton]
      rcases mem_split hf with hcl | hcur
      · refine ⟨f, Or.inl ?_, hMf⟩
        obtain ⟨i, hi⟩ := List.getElem?_of_mem hcl
        refine mem_keptOf.mpr ⟨i, hi, ?_⟩
        by_cases hd : deleted cfg (infosOf files.dropLast ages) i (infoOf ages f i) = true
        · obtain ⟨lo, hi', hb, hlt⟩ := seq_rule_only cfg hc ha _ _ _ hd
          have := boundsOf_hi (f := f) hb _ hMf
          omega
        · simpa using hd
      · exact ⟨f, Or.inr (by rw [hcur]; rfl), hMf⟩

/-- … whereas the AGE rule (which `Primary.maybeManageWALRetention` also passes: 24 h) can delete the only file that
    holds the highest number while the current file is empty: after a restart the counter starts at 1 again. -/
theorem age_rule_can_lose_max_witness :
    let cfg : Cfg := { maxAge := 24, minSeqKeep := 5 }
    retainL cfg [[1, 2, 3, 4, 5], []] [25] = [[]] ∧ maxOf ([[1, 2, 3, 4, 5], []] : List (List Nat)).flatten = 5 ∧
    maxOf (retainL cfg [[1, 2, 3, 4, 5], []] [25]).flatten = 0 := by decide

/-- non-vacuity of `retain_keeps_max`: the replica acknowledged 5 = the highest number; the closed file survives although
    every number in it is acknowledged; with `MinSequenceKeep = 6 ≤` a highest number 6 in the current file it goes -/
example : retainL { minSeqKeep := 5 } [[1, 2, 3, 4, 5], []] [1] = [[1, 2, 3, 4, 5], []] ∧
    retainL { minSeqKeep := 6 } [[1, 2, 3, 4, 5], [6]] [1] = [[6]] := by decide

end Kevo.Proofs.Retention
