/-
  Kevo.Proofs.WalCodec — round-trip lemmas for the WAL record/entry codec (helper file for Proofs/Wal).
-/
import Kevo.Model.WalLog
import Kevo.Spec.Log
namespace Kevo.Proofs.Wal
open Kevo Kevo.Wal Kevo.Spec

/-- what the round trip really needs of an entry: like `EntryWF`, but the value length only matters
    when the value is stored (i.e. not for deletes). -/
def EntryOK (p : WalParams) (e : Entry) : Prop :=
  (e.op = p.opPut ∨ e.op = p.opDelete ∨ e.op = p.opMerge) ∧ e.seq < 2 ^ 64 ∧
  e.key.length < 2 ^ 32 ∧ (e.op ≠ p.opDelete → e.val.length < 2 ^ 32)

/-- the checksum fits the 4-byte field (true of CRC-32). -/
def CrcOK (crc : Bytes → Nat) : Prop := ∀ bs, crc bs < 2 ^ 32

theorem toNat_ofNat_lt (n : Nat) (h : n < 256) : (UInt8.ofNat n).toNat = n := by
  rw [UInt8.toNat_ofNat']; omega

theorem payload_length (p : WalParams) (e : Entry) : (payload p e).length = payloadSize p e := by
  unfold payload payloadSize
  split <;> simp <;> omega

theorem record_length (crc : Bytes → Nat) (ty : Nat) (data : Bytes) :
    (record crc ty data).length = 7 + data.length := by
  simp [record]; omega

theorem readRecord_hdr (p : WalParams) (hh : p.headerSize = 7) (crc : Bytes → Nat) (a b : Bytes) (t : UInt8)
    (tl : Bytes) (ha : a.length = 4) (hb : b.length = 2) :
    readRecord p crc (a ++ b ++ [t] ++ tl) =
      if t.toNat < p.tFull ∨ t.toNat > p.tLast then .error (.invalidType, tl)
      else if unle b > 0 ∧ tl.length = 0 then .error (.eof, [])
      else if tl.length < unle b then .error (.unexpectedEof, [])
      else if crc (tl.take (unle b)) ≠ unle a then .error (.corrupt, tl.drop (unle b))
      else .ok (t.toNat, tl.take (unle b), tl.drop (unle b)) := by
  have hlen : (a ++ b ++ [t]).length = 7 := by simp [ha, hb]
  have h4 : (a ++ b ++ [t]).take 4 = a := by
    rw [List.append_assoc]; exact List.take_left' ha
  have h2 : ((a ++ b ++ [t]).drop 4).take 2 = b := by
    rw [List.append_assoc, List.drop_left' ha]; exact List.take_left' hb
  have h6 : (a ++ b ++ [t]).getD 6 0 = t := by
    have : (a ++ b).length = 6 := by simp [ha, hb]
    rw [List.getD_eq_getElem?_getD, List.getElem?_append_right (by omega)]
    simp [this]
  unfold readRecord
  have hne : ¬ (a ++ b ++ [t] ++ tl).length = 0 := by simp
  have hge : ¬ (a ++ b ++ [t] ++ tl).length < p.headerSize := by
    rw [hh, List.length_append, hlen]; omega
  rw [if_neg hne, if_neg hge, hh]
  simp only [List.take_left' hlen, List.drop_left' hlen, h4, h2, h6]

theorem readRecord_record (p : WalParams) (hp : p.WF) (crc : Bytes → Nat) (hcrc : CrcOK crc)
    (ty : Nat) (h1 : 1 ≤ ty) (h4 : ty ≤ 4) (data rest : Bytes) (hd : data.length < 65536) :
    readRecord p crc (record crc ty data ++ rest) = .ok (ty, data, rest) := by
  obtain ⟨hh, _, _, hF, _, _, hL, _⟩ := hp
  have e1 : record crc ty data ++ rest =
      le 4 (crc data) ++ le 2 data.length ++ [UInt8.ofNat ty] ++ (data ++ rest) := by simp [record]
  rw [e1, readRecord_hdr p hh crc _ _ _ _ (le_length _ _) (le_length _ _)]
  have ht : (UInt8.ofNat ty).toNat = ty := toNat_ofNat_lt ty (by omega)
  have hl : unle (le 2 data.length) = data.length := unle_le 2 _ (by simpa using hd)
  have hc : unle (le 4 (crc data)) = crc data := unle_le 4 _ (by have := hcrc data; simpa using this)
  rw [ht, hl, hc, hF, hL]
  have t1 : (data ++ rest).take data.length = data := List.take_left' rfl
  have t2 : (data ++ rest).drop data.length = rest := List.drop_left' rfl
  rw [t1, t2]
  have c1 : ¬ (ty < 1 ∨ ty > 4) := by omega
  have c2 : ¬ (data.length > 0 ∧ (data ++ rest).length = 0) := by
    intro ⟨h, h'⟩; rw [List.length_append] at h'; omega
  have c3 : ¬ ((data ++ rest).length < data.length) := by simp
  simp only [if_neg c1, if_neg c2, if_neg c3, ne_eq, not_true, if_false]

theorem parse_shape (o : UInt8) (s k key tl : Bytes) (hs : s.length = 8) (hk : k.length = 4) :
    let data := [o] ++ s ++ k ++ key ++ tl
    data.length = 13 + key.length + tl.length ∧ data.getD 0 0 = o ∧ (data.drop 1).take 8 = s ∧
    (data.drop 9).take 4 = k ∧ (data.drop 13).take key.length = key ∧ data.drop (13 + key.length) = tl := by
  intro data
  have e1 : data = [o] ++ (s ++ (k ++ (key ++ tl))) := by simp [data]
  have e9 : data = ([o] ++ s) ++ (k ++ (key ++ tl)) := by simp [data]
  have e13 : data = ([o] ++ s ++ k) ++ (key ++ tl) := by simp [data]
  have ek : data = ([o] ++ s ++ k ++ key) ++ tl := by simp [data]
  have l9 : ([o] ++ s).length = 9 := by simp [hs]
  have l13 : ([o] ++ s ++ k).length = 13 := by simp [hs, hk]
  have lk : ([o] ++ s ++ k ++ key).length = 13 + key.length := by simp [hs, hk]; omega
  refine ⟨?_, ?_, ?_, ?_, ?_, ?_⟩
  · simp [data, hs, hk]; omega
  · simp [data]
  · rw [e1, List.drop_left' (by simp)]; exact List.take_left' hs
  · rw [e9, List.drop_left' l9]; exact List.take_left' hk
  · rw [e13, List.drop_left' l13]; exact List.take_left' rfl
  · rw [ek, List.drop_left' lk]

theorem parseEntry_payload (p : WalParams) (hp : p.WF) (e : Entry) (he : EntryOK p e) :
    parseEntry p (payload p e) = .ok (norm p e) := by
  obtain ⟨_, _, _, _, _, _, _, hP, hD, hM, _⟩ := hp
  obtain ⟨hop, hseq, hkl, hvl⟩ := he
  have hopn : (UInt8.ofNat e.op).toNat = e.op := toNat_ofNat_lt _ (by omega)
  have hsq : unle (le 8 e.seq) = e.seq := unle_le 8 _ (by simpa using hseq)
  have hky : unle (le 4 e.key.length) = e.key.length := unle_le 4 _ (by simpa using hkl)
  by_cases hdel : e.op = p.opDelete
  · have hpl : payload p e = [UInt8.ofNat e.op] ++ le 8 e.seq ++ le 4 e.key.length ++ e.key ++ [] := by
      simp [payload, hdel]
    obtain ⟨hl, h0, h1, h9, h13, _⟩ := parse_shape (UInt8.ofNat e.op) (le 8 e.seq) (le 4 e.key.length) e.key []
      (le_length _ _) (le_length _ _)
    rw [← hpl] at hl h0 h1 h9 h13
    unfold parseEntry
    simp only [hl, h0, h1, h9, h13, hopn, hsq, hky]
    have c1 : ¬ (13 + e.key.length + ([] : Bytes).length < 13) := by omega
    have c2 : ¬ (e.op ≠ p.opPut ∧ e.op ≠ p.opDelete ∧ e.op ≠ p.opMerge) := by omega
    have c3 : ¬ (13 + e.key.length > 13 + e.key.length + ([] : Bytes).length) := by omega
    simp only [if_neg c1, if_neg c2, if_neg c3, if_pos hdel, norm]
  · have hv := hvl hdel
    have hvn : unle (le 4 e.val.length) = e.val.length := unle_le 4 _ (by simpa using hv)
    have hpl : payload p e = [UInt8.ofNat e.op] ++ le 8 e.seq ++ le 4 e.key.length ++ e.key ++
        (le 4 e.val.length ++ e.val) := by
      simp [payload, hdel]
    obtain ⟨hl, h0, h1, h9, h13, hk⟩ := parse_shape (UInt8.ofNat e.op) (le 8 e.seq) (le 4 e.key.length) e.key
      (le 4 e.val.length ++ e.val) (le_length _ _) (le_length _ _)
    rw [← hpl] at hl h0 h1 h9 h13 hk
    have hv4 : ((payload p e).drop (13 + e.key.length)).take 4 = le 4 e.val.length := by
      rw [hk]; exact List.take_left' (le_length _ _)
    have hvv : ((payload p e).drop (13 + e.key.length + 4)).take e.val.length = e.val := by
      rw [← List.drop_drop, hk, List.drop_left' (le_length _ _)]; exact List.take_of_length_le (Nat.le_refl _)
    unfold parseEntry
    simp only [hl, h0, h1, h9, h13, hopn, hsq, hky, hv4, hvn, hvv]
    have hlen : (le 4 e.val.length ++ e.val).length = 4 + e.val.length := by simp
    have c1 : ¬ (13 + e.key.length + (le 4 e.val.length ++ e.val).length < 13) := by omega
    have c2 : ¬ (e.op ≠ p.opPut ∧ e.op ≠ p.opDelete ∧ e.op ≠ p.opMerge) := by omega
    have c3 : ¬ (13 + e.key.length > 13 + e.key.length + (le 4 e.val.length ++ e.val).length) := by omega
    have c4 : ¬ (13 + e.key.length + 4 > 13 + e.key.length + (le 4 e.val.length ++ e.val).length) := by omega
    have c5 : ¬ (13 + e.key.length + 4 + e.val.length > 13 + e.key.length + (le 4 e.val.length ++ e.val).length) := by omega
    simp only [if_neg c1, if_neg c2, if_neg c3, if_neg c4, if_neg c5, if_neg hdel, norm]

theorem readEntry_step (p : WalParams) (hp : p.WF) (crc : Bytes → Nat) (hcrc : CrcOK crc)
    (ty : Nat) (h1 : 1 ≤ ty) (h4 : ty ≤ 4) (data rest : Bytes) (hd : data.length < 65536) (st : RState) (f : Nat) :
    readEntry p crc (f + 1) st (record crc ty data ++ rest) =
      if ty = p.tFull then (parseEntry p data, st, rest)
      else if ty = p.tFirst then
        if data.length = 0 then (.error .panic, st, rest)
        else readEntry p crc f { frags := st.frags ++ [data] } rest
      else if ty = p.tMiddle then
        if st.frags.length = 0 then (.error .corrupt, st, rest)
        else readEntry p crc f { frags := st.frags ++ [data] } rest
      else
        if st.frags.length = 0 then (.error .corrupt, st, rest)
        else (parseEntry p (st.frags ++ [data]).flatten, { frags := [] }, rest) := by
  rw [readEntry, readRecord_record p hp crc hcrc ty h1 h4 data rest hd]

theorem readEntry_tail (p : WalParams) (hp : p.WF) (crc : Bytes → Nat) (hcrc : CrcOK crc) (rest : Bytes) :
    ∀ (tf : Nat) (chunk : Bytes) (fs : List Bytes) (fuel : Nat),
      fs ≠ [] → 0 < chunk.length → chunk.length < tf →
      (tailFragments p crc tf chunk).length ≤ fuel →
      readEntry p crc fuel { frags := fs } (tailFragments p crc tf chunk ++ rest) =
        (parseEntry p (fs.flatten ++ chunk), { frags := [] }, rest) := by
  have hp' := hp
  obtain ⟨hh, hM13, hM, hF, hFi, hMi, hL, _⟩ := hp'
  intro tf
  induction tf with
  | zero => intro chunk fs fuel _ _ h; omega
  | succ tf ih =>
    intro chunk fs fuel hfs hc htf hfuel
    have hfl : fs.length ≠ 0 := by
      intro h; exact hfs (List.length_eq_zero_iff.mp h)
    unfold tailFragments at hfuel ⊢
    by_cases hbig : chunk.length > p.maxRecord
    · simp only [if_pos hbig] at hfuel ⊢
      have htl : (chunk.take p.maxRecord).length = p.maxRecord := by
        rw [List.length_take]; omega
      rw [List.length_append, record_length, htl] at hfuel
      obtain ⟨f, rfl⟩ : ∃ f, fuel = f + 1 := ⟨fuel - 1, by omega⟩
      rw [List.append_assoc, readEntry_step p hp crc hcrc p.tMiddle (by omega) (by omega) _ _ (by omega)]
      have n1 : ¬ p.tMiddle = p.tFull := by omega
      have n2 : ¬ p.tMiddle = p.tFirst := by omega
      simp only [if_neg n1, if_neg n2, if_true, if_neg hfl]
      rw [ih (chunk.drop p.maxRecord) (fs ++ [chunk.take p.maxRecord]) f (by simp)
        (by rw [List.length_drop]; omega) (by rw [List.length_drop]; omega) (by omega)]
      simp [List.flatten_append, List.append_assoc]
    · have hpos : chunk.length > 0 := hc
      simp only [if_neg hbig, if_pos hpos] at hfuel ⊢
      rw [record_length] at hfuel
      obtain ⟨f, rfl⟩ : ∃ f, fuel = f + 1 := ⟨fuel - 1, by omega⟩
      rw [readEntry_step p hp crc hcrc p.tLast (by omega) (by omega) _ _ (by omega)]
      have n1 : ¬ p.tLast = p.tFull := by omega
      have n2 : ¬ p.tLast = p.tFirst := by omega
      have n3 : ¬ p.tLast = p.tMiddle := by omega
      simp only [if_neg n1, if_neg n2, if_neg n3, if_neg hfl]
      simp [List.flatten_append]

theorem encodeEntry_length_ge (p : WalParams) (crc : Bytes → Nat) (e : Entry) :
    7 ≤ (encodeEntry p crc e).length := by
  unfold encodeEntry
  simp only []
  split
  · rw [record_length]; omega
  · rw [List.length_append, record_length]; omega

theorem readEntry_encodeEntry_ok (p : WalParams) (hp : p.WF) (crc : Bytes → Nat) (hcrc : CrcOK crc) (e : Entry)
    (he : EntryOK p e) (rest : Bytes) (fuel : Nat) (hf : (encodeEntry p crc e).length < fuel) :
    readEntry p crc fuel {} (encodeEntry p crc e ++ rest) = (.ok (norm p e), {}, rest) := by
  have hp' := hp
  obtain ⟨hh, hM13, hM, hF, hFi, hMi, hL, _⟩ := hp'
  obtain ⟨f, rfl⟩ : ∃ f, fuel = f + 1 := ⟨fuel - 1, by omega⟩
  have hpl := payload_length p e
  unfold encodeEntry at hf ⊢
  simp only [] at hf ⊢
  by_cases hfit : payloadSize p e ≤ p.maxRecord
  · simp only [if_pos hfit] at hf ⊢
    rw [readEntry_step p hp crc hcrc p.tFull (by omega) (by omega) _ _ (by omega)]
    simp only [if_true, parseEntry_payload p hp e he]
  · simp only [if_neg hfit] at hf ⊢
    have hn : 13 + min e.key.length (p.maxRecord - 13) ≤ p.maxRecord := by omega
    have htl : ((payload p e).take (13 + min e.key.length (p.maxRecord - 13))).length =
        13 + min e.key.length (p.maxRecord - 13) := by
      rw [List.length_take]; omega
    rw [List.length_append, record_length, htl] at hf
    rw [List.append_assoc, readEntry_step p hp crc hcrc p.tFirst (by omega) (by omega) _ _ (by omega)]
    have n1 : ¬ p.tFirst = p.tFull := by omega
    have n2 : ¬ ((payload p e).take (13 + min e.key.length (p.maxRecord - 13))).length = 0 := by omega
    simp only [if_neg n1, if_true, if_neg n2]
    have : (({} : RState).frags ++ [(payload p e).take (13 + min e.key.length (p.maxRecord - 13))]) =
        [(payload p e).take (13 + min e.key.length (p.maxRecord - 13))] := rfl
    rw [this, readEntry_tail p hp crc hcrc rest _ _ _ f (by simp)
      (by rw [List.length_drop]; omega) (by rw [List.length_drop]; omega) (by omega)]
    simp [parseEntry_payload p hp e he]

/-! ### whole files -/

def encFile (p : WalParams) (crc : Bytes → Nat) (es : List Entry) : Bytes := es.flatMap (encodeEntry p crc)

theorem encFile_nil (p : WalParams) (crc : Bytes → Nat) : encFile p crc [] = [] := rfl

theorem encFile_cons (p : WalParams) (crc : Bytes → Nat) (e : Entry) (es : List Entry) :
    encFile p crc (e :: es) = encodeEntry p crc e ++ encFile p crc es := by
  simp [encFile]

theorem encFile_append (p : WalParams) (crc : Bytes → Nat) (es es' : List Entry) :
    encFile p crc (es ++ es') = encFile p crc es ++ encFile p crc es' := by
  simp [encFile]

theorem readEntry_nil (p : WalParams) (crc : Bytes → Nat) (f : Nat) :
    readEntry p crc (f + 1) {} [] = (.error .eof, {}, []) := by
  rw [readEntry]
  simp [readRecord]

theorem replayFileAux_wf (p : WalParams) (hp : p.WF) (crc : Bytes → Nat) (hcrc : CrcOK crc) :
    ∀ (es : List Entry) (fuel : Nat) (acc : Replay), (∀ e ∈ es, EntryOK p e) →
      (encFile p crc es).length < fuel →
      replayFileAux p crc fuel {} (encFile p crc es) acc =
        { acc with entries := acc.entries ++ es.map (norm p), processed := acc.processed + es.length } := by
  intro es
  induction es with
  | nil =>
    intro fuel acc _ hf
    obtain ⟨f, rfl⟩ : ∃ f, fuel = f + 1 := ⟨fuel - 1, by omega⟩
    rw [encFile_nil, replayFileAux, readEntry_nil]
    simp
  | cons e es ih =>
    intro fuel acc hes hf
    obtain ⟨f, rfl⟩ : ∃ f, fuel = f + 1 := ⟨fuel - 1, by omega⟩
    have hge := encodeEntry_length_ge p crc e
    rw [encFile_cons, List.length_append] at hf
    rw [encFile_cons, replayFileAux,
      readEntry_encodeEntry_ok p hp crc hcrc e (hes e (by simp)) _ _ (by rw [List.length_append]; omega)]
    simp only []
    rw [ih f _ (fun e' h => hes e' (by simp [h])) (by omega)]
    simp [List.append_assoc]; omega

theorem replayFile_wf (p : WalParams) (hp : p.WF) (crc : Bytes → Nat) (hcrc : CrcOK crc) (es : List Entry)
    (hes : ∀ e ∈ es, EntryOK p e) :
    replayFile p crc (encFile p crc es) =
      { entries := es.map (norm p), processed := es.length, skipped := 0, outcome := .ok } := by
  unfold replayFile
  rw [replayFileAux_wf p hp crc hcrc es _ _ hes (by omega)]
  simp

theorem entriesFromFileAux_wf (p : WalParams) (hp : p.WF) (crc : Bytes → Nat) (hcrc : CrcOK crc) (s : Nat) :
    ∀ (es : List Entry) (fuel : Nat) (acc : List Entry), (∀ e ∈ es, EntryOK p e) →
      (encFile p crc es).length < fuel →
      entriesFromFileAux p crc fuel {} (encFile p crc es) s acc =
        (acc ++ (es.map (norm p)).filter (fun e => e.seq ≥ s), true) := by
  intro es
  induction es with
  | nil =>
    intro fuel acc _ hf
    obtain ⟨f, rfl⟩ : ∃ f, fuel = f + 1 := ⟨fuel - 1, by omega⟩
    rw [encFile_nil, entriesFromFileAux, readEntry_nil]
    simp
  | cons e es ih =>
    intro fuel acc hes hf
    obtain ⟨f, rfl⟩ : ∃ f, fuel = f + 1 := ⟨fuel - 1, by omega⟩
    have hge := encodeEntry_length_ge p crc e
    rw [encFile_cons, List.length_append] at hf
    rw [encFile_cons, entriesFromFileAux,
      readEntry_encodeEntry_ok p hp crc hcrc e (hes e (by simp)) _ _ (by rw [List.length_append]; omega)]
    simp only []
    rw [ih f _ (fun e' h => hes e' (by simp [h])) (by omega)]
    by_cases h : (norm p e).seq ≥ s
    · simp [h]
    · simp [h]

theorem entriesFromFile_wf (p : WalParams) (hp : p.WF) (crc : Bytes → Nat) (hcrc : CrcOK crc) (s : Nat)
    (es : List Entry) (hes : ∀ e ∈ es, EntryOK p e) :
    entriesFromFile p crc (encFile p crc es) s = ((es.map (norm p)).filter (fun e => e.seq ≥ s), true) := by
  unfold entriesFromFile
  rw [entriesFromFileAux_wf p hp crc hcrc s es _ _ hes (by omega)]
  simp

def dirStep (p : WalParams) (crc : Bytes → Nat) (d : DirReplay) (f : Bytes) : DirReplay :=
  if d.fatal ∨ d.panic then d else
  let r := replayFile p crc f
  let d := { d with entries := d.entries ++ r.entries }
  match r.outcome with
  | .ok => { d with okFiles := d.okFiles + 1 }
  | .tooManyCorrupt => { d with hadErr := true }
  | .panic => { d with panic := true }
  | _ => { d with hadErr := true, fatal := true }

theorem replayDir_eq (p : WalParams) (crc : Bytes → Nat) (files : List Bytes) :
    replayDir p crc files = files.foldl (dirStep p crc) {} := rfl

theorem dirStep_wf (p : WalParams) (hp : p.WF) (crc : Bytes → Nat) (hcrc : CrcOK crc) (d : DirReplay)
    (es : List Entry) (hes : ∀ e ∈ es, EntryOK p e) (hf : d.fatal = false) (hpn : d.panic = false) :
    dirStep p crc d (encFile p crc es) =
      { d with entries := d.entries ++ es.map (norm p), okFiles := d.okFiles + 1 } := by
  unfold dirStep
  have c : ¬ (d.fatal = true ∨ d.panic = true) := by simp [hf, hpn]
  rw [if_neg c, replayFile_wf p hp crc hcrc es hes]

theorem replayDir_foldl_wf (p : WalParams) (hp : p.WF) (crc : Bytes → Nat) (hcrc : CrcOK crc) :
    ∀ (parts : List (List Entry)) (d : DirReplay), (∀ es ∈ parts, ∀ e ∈ es, EntryOK p e) →
      d.fatal = false → d.panic = false →
      (parts.map (encFile p crc)).foldl (dirStep p crc) d =
      { d with entries := d.entries ++ parts.flatten.map (norm p), okFiles := d.okFiles + parts.length } := by
  intro parts
  induction parts with
  | nil => intro d _ _ _; simp
  | cons es parts ih =>
    intro d hes hf hpn
    rw [List.map_cons, List.foldl_cons, dirStep_wf p hp crc hcrc d es (hes es (by simp)) hf hpn]
    rw [ih { d with entries := d.entries ++ es.map (norm p), okFiles := d.okFiles + 1 }
      (fun es' h => hes es' (by simp [h])) hf hpn]
    simp [List.append_assoc]; omega

theorem replayDir_wf (p : WalParams) (hp : p.WF) (crc : Bytes → Nat) (hcrc : CrcOK crc)
    (parts : List (List Entry)) (hes : ∀ es ∈ parts, ∀ e ∈ es, EntryOK p e) :
    replayDir p crc (parts.map (encFile p crc)) =
      { entries := parts.flatten.map (norm p), okFiles := parts.length, hadErr := false, fatal := false, panic := false } := by
  rw [replayDir_eq, replayDir_foldl_wf p hp crc hcrc parts {} hes rfl rfl]
  simp
