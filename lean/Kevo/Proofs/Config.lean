/-
  Kevo.Proofs.Config — proofs for C20 (statements re-exported by Kevo.Props.C20).
  `validate_iff` is proved against the REGENERATED `Kevo.Gen.Config.validate`: adding, dropping, loosening or
  tightening a guard of `Config.Validate` in the Go source makes this file fail to build.
-/
import Kevo.Model.Config
namespace Kevo.Proofs.Config
open Kevo.GoVal Kevo.Gen.Config Kevo.Config

/-! ### guard chains -/

theorem firstTrue_eq_none {l : List Bool} : firstTrue l = none ↔ ∀ b ∈ l, b = false := by
  induction l with
  | nil => simp [firstTrue]
  | cons b bs ih => cases b <;> simp [firstTrue, ih]

theorem firstTrue_eq_some {l : List Bool} {k : Nat} (h : firstTrue l = some k) :
    l[k]? = some true ∧ ∀ j, j < k → l[j]? = some false := by
  induction l generalizing k with
  | nil => simp [firstTrue] at h
  | cons b bs ih =>
    cases b with
    | true =>
      simp [firstTrue] at h
      subst h
      simp
    | false =>
      simp [firstTrue] at h
      obtain ⟨k', hk', rfl⟩ := h
      have := ih hk'
      refine ⟨by simpa using this.1, ?_⟩
      intro j hj
      cases j with
      | zero => simp
      | succ j => simpa using this.2 j (by omega)

/-! ### Valid as an explicit conjunction -/

theorem valid_iff_conj (c : Cfg) : Valid c ↔
    (0 < c.Version ∧ c.WALDir ≠ [] ∧ c.SSTDir ≠ [] ∧ 0 < c.MemTableSize ∧ 0 < c.MaxMemTables ∧
     0 < c.SSTableBlockSize ∧ 0 < c.SSTableIndexSize ∧ 0 < c.CompactionLevels ∧
     GreaterThanOne c.CompactionRatio ∧ Finite c.CompactionRatio ∧
     0 < c.ReadOnlyTxTTL ∧ 0 < c.ReadWriteTxTTL ∧ 0 < c.IdleTxTimeout ∧ 0 < c.TxCleanupInterval ∧
     (1 ≤ c.TxWarningThreshold ∧ c.TxWarningThreshold ≤ 99) ∧
     (c.TxWarningThreshold < c.TxCriticalThreshold ∧ c.TxCriticalThreshold ≤ 99) ∧
     (ValidUTF8 c.WALDir ∧ ValidUTF8 c.SSTDir)) := by
  constructor
  · intro h
    exact ⟨h 0 (by decide), h 1 (by decide), h 2 (by decide), h 3 (by decide), h 4 (by decide), h 5 (by decide),
      h 6 (by decide), h 7 (by decide), h 8 (by decide), h 9 (by decide), h 10 (by decide), h 11 (by decide),
      h 12 (by decide), h 13 (by decide), h 14 (by decide), h 15 (by decide), h 16 (by decide)⟩
  · rintro ⟨h0, h1, h2, h3, h4, h5, h6, h7, h8, h9, h10, h11, h12, h13, h14, h15, h16⟩ k hk
    match k, hk with
    | 0, _ => exact h0
    | 1, _ => exact h1
    | 2, _ => exact h2
    | 3, _ => exact h3
    | 4, _ => exact h4
    | 5, _ => exact h5
    | 6, _ => exact h6
    | 7, _ => exact h7
    | 8, _ => exact h8
    | 9, _ => exact h9
    | 10, _ => exact h10
    | 11, _ => exact h11
    | 12, _ => exact h12
    | 13, _ => exact h13
    | 14, _ => exact h14
    | 15, _ => exact h15
    | 16, _ => exact h16
    | k + 17, hk => exact absurd hk (by simp [numConstraints])

/-- the ratio guards (8 and 9) together say: finite and greater than one -/
theorem ratio_guards (r : Ratio) :
    (Ratio.le r (Ratio.fin 1) = false ∧ (Ratio.isNaN r || Ratio.isInf r 0) = false) ↔ (GreaterThanOne r ∧ Finite r) := by
  cases r <;> simp [Ratio.le, Ratio.isNaN, Ratio.isInf, GreaterThanOne, Finite, Rat.not_le]

/-- THE TIE: the translated guard chain accepts exactly the configurations satisfying every documented constraint. -/
theorem validate_iff (c : Cfg) : validate c = none ↔ Valid c := by
  rw [valid_iff_conj]
  unfold validate
  rw [firstTrue_eq_none]
  have hr := ratio_guards c.CompactionRatio
  simp only [guards, List.mem_cons, List.not_mem_nil, or_false, forall_eq_or_imp, forall_eq]
  constructor
  · rintro ⟨g0, g1, g2, g3, g4, g5, g6, g7, g8, g9, g10, g11, g12, g13, g14, g15, g16⟩
    have hr' := hr.1 ⟨g8, g9⟩
    simp only [decide_eq_false_iff_not, Bool.or_eq_false_iff] at g0 g1 g2 g3 g4 g5 g6 g7 g10 g11 g12 g13 g14 g15
    have hu : ValidUTF8 c.WALDir ∧ ValidUTF8 c.SSTDir := by
      simp only [Bool.or_eq_false_iff, Bool.not_eq_false', decide_eq_true_eq] at g16
      exact g16
    refine ⟨by omega, g1, g2, by omega, by omega, by omega, by omega, by omega, hr'.1, hr'.2, by omega, by omega,
      by omega, by omega, by omega, by omega, hu⟩
  · rintro ⟨h0, h1, h2, h3, h4, h5, h6, h7, h8, h9, h10, h11, h12, h13, h14, h15, h16⟩
    have hr' := hr.2 ⟨h8, h9⟩
    simp only [decide_eq_false_iff_not, Bool.or_eq_false_iff]
    refine ⟨by omega, h1, h2, by omega, by omega, by omega, by omega, by omega, hr'.1, Bool.or_eq_false_iff.1 hr'.2, by omega, by omega,
      by omega, by omega, by omega, by omega, ?_⟩
    simp only [Bool.not_eq_false', decide_eq_true_eq]
    exact h16

theorem guards_length (c : Cfg) : (guards c).length = numConstraints := by
  simp [guards, numConstraints]

/-- the message reported is the message of a constraint that is really violated, and it is the first guard that
    fires. (The converse attribution is not claimed: a NaN ratio violates "greater than 1.0" but is reported as
    "must be a finite number", because `NaN <= 1.0` is false.) -/
theorem validate_some_sound (c : Cfg) (k : Nat) (h : validate c = some k) :
    k < numConstraints ∧ ¬ Constraint c k := by
  have h1 := (firstTrue_eq_some h).1
  have hlt : k < numConstraints := by
    rw [← guards_length c]
    exact (List.getElem?_eq_some_iff.1 h1).1
  refine ⟨hlt, ?_⟩
  match k, hlt with
  | 0, _ | 1, _ | 2, _ | 3, _ | 4, _ | 5, _ | 6, _ | 7, _ | 10, _ | 11, _ | 12, _ | 13, _ | 14, _ | 15, _ =>
    simp [guards] at h1
    simp only [Constraint]
    first | omega | simp [h1]
  | 16, _ =>
    simp [guards] at h1
    simp only [Constraint]
    intro h
    rcases h1 with h1 | h1
    · exact h1 h.1
    · exact h1 h.2
  | 8, _ =>
    simp [guards] at h1
    simp only [Constraint]
    revert h1
    cases c.CompactionRatio <;> simp [Ratio.le, GreaterThanOne, Rat.not_lt]
  | 9, _ =>
    simp [guards] at h1
    simp only [Constraint]
    revert h1
    cases c.CompactionRatio <;> simp [Ratio.isNaN, Ratio.isInf, Finite]
  | k + 17, hk => exact absurd hk (by simp [numConstraints])

/-! ### save / load / open -/

variable {Doc : Type}

theorem save_of_invalid (J : Codec Doc) (c : Cfg) (d : Dir Doc) (h : ¬ Valid c) :
    ∃ k, validate c = some k ∧ save J c d = (some (.invalid k), d) := by
  cases hv : validate c with
  | none => exact absurd ((validate_iff c).1 hv) h
  | some k => exact ⟨k, rfl, by simp [save, hv]⟩

theorem save_ok_inv (J : Codec Doc) (c : Cfg) (d d' : Dir Doc) (h : save J c d = (none, d')) :
    validate c = none ∧ ∃ b, J.encode c = some b ∧ d'.manifest = .data b ∧ d'.tmp = none ∧ d'.present = true := by
  unfold save at h
  cases hv : validate c with
  | some k => simp [hv] at h
  | none =>
    simp only [hv] at h
    cases he : J.encode c with
    | none => simp [he] at h
    | some b =>
      simp only [he] at h
      cases hm : d.manifest <;> simp [hm] at h <;> (subst h; exact ⟨rfl, b, rfl, rfl, rfl, rfl⟩)

theorem load_ok_inv (J : Codec Doc) (d : Dir Doc) (c : Cfg) (h : load J d = .ok c) :
    ∃ b, d.manifest = .data b ∧ J.decode b = some c ∧ validate c = none := by
  unfold load at h
  cases hm : d.manifest with
  | absent => simp [hm] at h
  | unreadable => simp [hm] at h
  | data b =>
    simp only [hm] at h
    cases hd : J.decode b with
    | none => simp [hd] at h
    | some c' =>
      simp only [hd] at h
      cases hv : validate c' with
      | some k => simp [hv] at h
      | none =>
        simp [hv] at h
        subst h
        exact ⟨b, rfl, hd, hv⟩

theorem load_data (J : Codec Doc) (d : Dir Doc) (b : Doc) (c : Cfg)
    (hm : d.manifest = .data b) (hd : J.decode b = some c) (hv : validate c = none) : load J d = .ok c := by
  simp [load, hm, hd, hv]

theorem mapStrings_id (f : GoStr → GoStr) (c : Cfg) (h : ∀ s ∈ strings c, f s = s) : mapStrings f c = c := by
  cases c
  simp_all [mapStrings, strings]

theorem finite_isFinite (r : Ratio) : Finite r ↔ r.isFinite = true := by
  cases r <;> simp [Finite, Ratio.isFinite]

/-- the stand-in codec satisfies the assumed laws: they are consistent -/
theorem goCodec_laws : goCodec.Laws where
  roundtrip := by
    intro c ⟨hs, hr, _⟩
    have hf : allFinite c = true := by
      simp only [allFinite, List.all_eq_true]
      intro r hr'
      exact (finite_isFinite r).1 (hr r hr')
    refine ⟨⟨mapStrings sanitize c, true⟩, by simp [goCodec, hf], ?_⟩
    simp [goCodec, mapStrings_id sanitize c hs]
  prefix_undecodable := by
    intro c b _ n hn
    have : n = 0 := by
      have : n < 1 := hn
      omega
    subst this
    simp [goCodec]

/-! ### the property theorems -/

theorem save_rejects_invalid (J : Codec Doc) (c : Cfg) (d : Dir Doc) (h : ¬ Valid c) :
    ∃ k, k < numConstraints ∧ ¬ Constraint c k ∧ save J c d = (some (.invalid k), d) ∧ saveTrace J c d = [d] := by
  obtain ⟨k, hk, hs⟩ := save_of_invalid J c d h
  have := validate_some_sound c k hk
  exact ⟨k, this.1, this.2, hs, by simp [saveTrace, hk]⟩

theorem save_load_id (J : Codec Doc) (hJ : J.Laws) (c : Cfg) (d : Dir Doc) (hv : Valid c) (he : Encodable c)
    (hio : d.manifest ≠ .unreadable) :
    ∃ d', save J c d = (none, d') ∧ load J d' = .ok c ∧ d'.tmp = none ∧ d'.present = true := by
  have hval := (validate_iff c).2 hv
  obtain ⟨b, hb, hdec⟩ := hJ.roundtrip c he
  cases hm : d.manifest with
  | unreadable => exact absurd hm hio
  | absent =>
    refine ⟨{ present := true, manifest := .data b, tmp := none }, by simp [save, hval, hb, hm], ?_, rfl, rfl⟩
    exact load_data J _ b c rfl hdec hval
  | data b0 =>
    refine ⟨{ present := true, manifest := .data b, tmp := none }, by simp [save, hval, hb, hm], ?_, rfl, rfl⟩
    exact load_data J _ b c rfl hdec hval

theorem load_validates (J : Codec Doc) (d : Dir Doc) (c : Cfg) (h : load J d = .ok c) : Valid c := by
  obtain ⟨_, _, _, hv⟩ := load_ok_inv J d c h
  exact (validate_iff c).1 hv

theorem load_present (J : Codec Doc) (d : Dir Doc) (p : Bool) : load J { d with present := p } = load J d := rfl

theorem open_uses_stored (J : Codec Doc) (dflt : Cfg) (d : Dir Doc) (c : Cfg) (h : load J d = .ok c) :
    openConfig J dflt d = .ok (c, { d with present := true }) := by
  simp [openConfig, load_present, h]

theorem dir_present_eta (d : Dir Doc) (h : d.present = true) : { d with present := true } = d := by
  cases d
  simp_all

theorem reopen_same (J : Codec Doc) (hJ : J.Laws) (c : Cfg) (d d' : Dir Doc) (he : Encodable c)
    (hs : save J c d = (none, d')) (dflt : Cfg) : openConfig J dflt d' = .ok (c, d') := by
  obtain ⟨hval, b, hb, hm, _, hp⟩ := save_ok_inv J c d d' hs
  obtain ⟨b', hb', hdec⟩ := hJ.roundtrip c he
  have : b' = b := by rw [hb] at hb'; exact (Option.some.inj hb').symm
  subst this
  have hl : load J d' = .ok c := load_data J d' b' c hm hdec hval
  rw [open_uses_stored J dflt d' c hl, dir_present_eta d' hp]

theorem open_stable (J : Codec Doc) (hJ : J.Laws) (dflt : Cfg) (d d' : Dir Doc) (c : Cfg)
    (ho : openConfig J dflt d = .ok (c, d')) (he : Encodable c) (dflt' : Cfg) :
    openConfig J dflt' d' = .ok (c, d') := by
  unfold openConfig at ho
  simp only [load_present] at ho
  cases hl : load J d with
  | ok c0 =>
    simp [hl] at ho
    obtain ⟨rfl, rfl⟩ := ho
    have h2 : load J { d with present := true } = .ok c0 := by rw [load_present]; exact hl
    rw [open_uses_stored J dflt' _ c0 h2]
  | error e =>
    cases e with
    | notFound =>
      simp only [hl] at ho
      cases hsv : save J dflt { d with present := true } with
      | mk r dd =>
        cases r with
        | some e => simp [hsv] at ho
        | none =>
          simp [hsv] at ho
          obtain ⟨rfl, rfl⟩ := ho
          exact reopen_same J hJ _ _ _ he hsv dflt'
    | read => simp [hl] at ho
    | invalidManifest => simp [hl] at ho
    | invalidConfig k => simp [hl] at ho

theorem open_fails_on_bad_manifest (J : Codec Doc) (dflt : Cfg) (d : Dir Doc)
    (hbad : d.manifest = .unreadable ∨
            ∃ b, d.manifest = .data b ∧ (J.decode b = none ∨ ∃ c, J.decode b = some c ∧ ¬ Valid c)) :
    ∃ e, e ≠ .notFound ∧ load J d = .error e ∧ openConfig J dflt d = .error (.load e) := by
  have key : ∀ e, e ≠ LoadErr.notFound → load J d = .error e → openConfig J dflt d = .error (.load e) := by
    intro e hne hl
    cases e with
    | notFound => exact absurd rfl hne
    | read => simp [openConfig, load_present, hl]
    | invalidManifest => simp [openConfig, load_present, hl]
    | invalidConfig k => simp [openConfig, load_present, hl]
  rcases hbad with hu | ⟨b, hm, hnone | ⟨c, hc, hinv⟩⟩
  · have hl : load J d = .error .read := by simp [load, hu]
    exact ⟨.read, by simp, hl, key _ (by simp) hl⟩
  · have hl : load J d = .error .invalidManifest := by simp [load, hm, hnone]
    exact ⟨.invalidManifest, by simp, hl, key _ (by simp) hl⟩
  · cases hv : validate c with
    | none => exact absurd ((validate_iff c).1 hv) hinv
    | some k =>
      have hl : load J d = .error (.invalidConfig k) := by simp [load, hm, hc, hv]
      exact ⟨.invalidConfig k, by simp, hl, key _ (by simp) hl⟩

theorem open_default_only_when_absent (J : Codec Doc) (dflt : Cfg) (d d' : Dir Doc) (c : Cfg)
    (ho : openConfig J dflt d = .ok (c, d')) :
    load J d = .ok c ∨ (d.manifest = .absent ∧ c = dflt ∧ Valid dflt) := by
  unfold openConfig at ho
  simp only [load_present] at ho
  cases hl : load J d with
  | ok c0 =>
    simp [hl] at ho
    exact Or.inl (by rw [ho.1])
  | error e =>
    cases e with
    | notFound =>
      right
      simp only [hl] at ho
      have habs : d.manifest = .absent := by
        unfold load at hl
        cases hm : d.manifest with
        | absent => rfl
        | unreadable => simp [hm] at hl
        | data b =>
          simp only [hm] at hl
          cases hd : J.decode b with
          | none => simp [hd] at hl
          | some c' => cases hv : validate c' <;> simp [hd, hv] at hl
      cases hsv : save J dflt { d with present := true } with
      | mk r dd =>
        cases r with
        | some e => simp [hsv] at ho
        | none =>
          simp [hsv] at ho
          obtain ⟨hv, _⟩ := save_ok_inv J dflt _ dd hsv
          exact ⟨habs, ho.1.symm, (validate_iff dflt).1 hv⟩
    | read => simp [hl] at ho
    | invalidManifest => simp [hl] at ho
    | invalidConfig k => simp [hl] at ho

theorem truncation_never_silent (J : Codec Doc) (hJ : J.Laws) (c : Cfg) (d d' : Dir Doc)
    (hs : save J c d = (none, d')) :
    ∃ b, d'.manifest = .data b ∧ ∀ n, n < J.size b → ∀ dflt,
      load J { d' with manifest := .data (J.trunc b n) } = .error .invalidManifest ∧
      openConfig J dflt { d' with manifest := .data (J.trunc b n) } = .error (.load .invalidManifest) := by
  obtain ⟨_, b, hb, hm, _, _⟩ := save_ok_inv J c d d' hs
  refine ⟨b, hm, ?_⟩
  intro n hn dflt
  have hnone := hJ.prefix_undecodable c b hb n hn
  have hl : load J { d' with manifest := .data (J.trunc b n) } = .error .invalidManifest := by
    simp [load, hnone]
  refine ⟨hl, ?_⟩
  obtain ⟨e, _, hle, hoe⟩ := open_fails_on_bad_manifest J dflt { d' with manifest := .data (J.trunc b n) }
    (Or.inr ⟨_, rfl, Or.inl hnone⟩)
  rw [hl] at hle
  cases hle
  exact hoe

theorem load_congr (J : Codec Doc) (s d : Dir Doc) (h : s.manifest = d.manifest) : load J s = load J d := by
  unfold load
  rw [h]

/-- at every moment of a save the manifest is the old one or the complete new one (temp file + rename) -/
theorem save_atomic (J : Codec Doc) (c : Cfg) (d : Dir Doc) :
    ∀ s ∈ saveTrace J c d, s.manifest = d.manifest ∨
      (validate c = none ∧ ∃ b, J.encode c = some b ∧ s.manifest = .data b) := by
  intro s hs
  unfold saveTrace at hs
  cases hv : validate c with
  | some k => simp [hv] at hs; exact Or.inl (by rw [hs])
  | none =>
    simp only [hv] at hs
    cases he : J.encode c with
    | none =>
      simp [he] at hs
      rcases hs with rfl | rfl <;> exact Or.inl rfl
    | some b =>
      simp only [he] at hs
      cases hm : d.manifest with
      | unreadable =>
        simp [hm] at hs
        rcases hs with rfl | rfl | rfl <;> exact Or.inl (by first | rfl | exact hm | simp [hm])
      | absent =>
        simp [hm] at hs
        rcases hs with rfl | rfl | rfl | rfl
        · exact Or.inl (by first | rfl | exact hm | simp [hm])
        · exact Or.inl (by first | rfl | exact hm | simp [hm])
        · exact Or.inl (by first | rfl | exact hm | simp [hm])
        · exact Or.inr ⟨rfl, b, rfl, rfl⟩
      | data b0 =>
        simp [hm] at hs
        rcases hs with rfl | rfl | rfl | rfl
        · exact Or.inl (by first | rfl | exact hm | simp [hm])
        · exact Or.inl (by first | rfl | exact hm | simp [hm])
        · exact Or.inl (by first | rfl | exact hm | simp [hm])
        · exact Or.inr ⟨rfl, b, rfl, rfl⟩

theorem saveTrace_last (J : Codec Doc) (c : Cfg) (d : Dir Doc) :
    (saveTrace J c d).getLast? = some (save J c d).2 := by
  unfold saveTrace save
  cases validate c with
  | some k => simp
  | none =>
    cases J.encode c with
    | none => simp
    | some b => cases d.manifest <;> simp

theorem crash_during_save (J : Codec Doc) (hJ : J.Laws) (c : Cfg) (d : Dir Doc) (he : Encodable c) :
    ∀ s ∈ saveTrace J c d, load J s = load J d ∨ load J s = .ok c := by
  intro s hs
  rcases save_atomic J c d s hs with h | ⟨hv, b, hb, hm⟩
  · exact Or.inl (load_congr J s d h)
  · right
    obtain ⟨b', hb', hdec⟩ := hJ.roundtrip c he
    have : b' = b := by rw [hb] at hb'; exact (Option.some.inj hb').symm
    subst this
    exact load_data J s b' c hm hdec hv

theorem default_valid (sub : String → GoStr) (h : ∀ s, sub s ≠ []) (hu : ∀ s, ValidUTF8 (sub s)) :
    Valid (defaults sub) := by
  rw [valid_iff_conj]
  simp [defaults, zero, GreaterThanOne, Finite, h, hu]
  decide

/-- since the repair of KF-C20-utf8 a VALID configuration is encodable as soon as its integers are values of their Go
    types (always true of a value a Go program holds): strings are valid UTF-8 (constraint 16), the float is finite (9) -/
theorem valid_encodable (c : Cfg) (hv : Valid c) (hr : representable c) : Encodable c := by
  rw [valid_iff_conj] at hv
  obtain ⟨_, _, _, _, _, _, _, _, _, h9, _, _, _, _, _, _, h16⟩ := hv
  refine ⟨?_, ?_, hr⟩
  · intro s hs
    simp only [strings, List.mem_cons, List.not_mem_nil, or_false] at hs
    rcases hs with rfl | rfl
    · exact h16.1
    · exact h16.2
  · intro r hr'
    simp only [ratios, List.mem_cons, List.not_mem_nil, or_false] at hr'
    subst hr'
    exact h9

end Kevo.Proofs.Config
