/-
  Kevo.Proofs.ConcTable — lifting the decidable table checks to the generic theorems of Kevo.Proofs.ConcCore.
-/
import Kevo.Model.ConcTable
import Kevo.Proofs.ConcCore
namespace Kevo.LConc

theorem mem_rowsOf {tbl : List Site} {x : Var} {r : Site} (h : r ∈ tbl) (hx : r.field = x) : r ∈ rowsOf tbl x := by
  unfold rowsOf
  simp [List.mem_filter, h, hx]

theorem pairProtected_of_table {tbl : List Site} {x : Var} {P : Prog} (hok : fieldOK tbl x = true)
    (hc : Conforms tbl P) : PairProtected P x := by
  intro t1 i1 e1 t2 i2 e2 _ h1 h2 hconf
  obtain ⟨w1, a1, w2, a2, ha1, ha2, hw, hna⟩ := hconf
  obtain ⟨r1, hr1, hf1, hw1, hat1, hl1⟩ := hc t1 i1 e1 x w1 a1 h1 ha1
  obtain ⟨r2, hr2, hf2, hw2, hat2, hl2⟩ := hc t2 i2 e2 x w2 a2 h2 ha2
  unfold fieldOK at hok
  rw [List.all_eq_true] at hok
  have h3 := hok r1 (mem_rowsOf hr1 hf1)
  rw [List.all_eq_true] at h3
  have h4 := h3 r2 (mem_rowsOf hr2 hf2)
  unfold siteCompat at h4
  rw [Bool.or_eq_true, Bool.or_eq_true] at h4
  rcases h4 with (h4 | h4) | h4
  · rw [Bool.and_eq_true] at h4
    rw [hw1, hw2] at h4
    rcases hw with hw | hw <;> simp [hw] at h4
  · rw [Bool.and_eq_true] at h4
    rw [hat1, hat2] at h4
    exact absurd h4 hna
  · rw [List.any_eq_true] at h4
    obtain ⟨l1, hm1, h5⟩ := h4
    rw [List.any_eq_true] at h5
    obtain ⟨l2, hm2, h6⟩ := h5
    rw [Bool.and_eq_true] at h6
    obtain ⟨h7, h8⟩ := h6
    have heq : l1.1 = l2.1 := by simpa using h7
    refine ⟨l1.1, l1.2, l2.2, hl1 l1 hm1, ?_, ?_⟩
    · rw [heq]; exact hl2 l2 hm2
    · rw [Bool.or_eq_true] at h8
      rcases h8 with h8 | h8
      · left; simpa using h8
      · right; simpa using h8

/-- table instance of `pairwise_drf`. -/
theorem table_drf (tbl : List Site) (x : Var) (hok : fieldOK tbl x = true) (P : Prog) (hc : Conforms tbl P) :
    ∀ sched s, reach P sched = some s → ¬ Race P s x :=
  pairwise_drf P x (pairProtected_of_table hok hc)

theorem protects_of_table {tbl : List Site} {m : Lock} {x : Var} {P : Prog} (hok : protectsB tbl m x = true)
    (hc : Conforms tbl P) : Protects P m x := by
  intro t i e w a h1 ha
  obtain ⟨r, hr, hf, hw, _, hl⟩ := hc t i e x w a h1 ha
  unfold protectsB at hok
  rw [List.all_eq_true] at hok
  have h3 := hok r (mem_rowsOf hr hf)
  rw [Bool.or_eq_true] at h3
  rcases h3 with h3 | h3
  · left
    exact hl _ (by simpa using h3)
  · right
    rw [Bool.and_eq_true] at h3
    refine ⟨?_, hl _ (by simpa using h3.2)⟩
    rw [← hw]
    simpa using h3.1

theorem allAtomic_of_table {tbl : List Site} {x : Var} {P : Prog} (hok : allAtomicB tbl x = true)
    (hc : Conforms tbl P) : AllAtomic P x := by
  intro t i e w a h1 ha
  obtain ⟨r, hr, hf, _, hat, _⟩ := hc t i e x w a h1 ha
  unfold allAtomicB at hok
  rw [List.all_eq_true] at hok
  rw [← hat]
  exact hok r (mem_rowsOf hr hf)

/-- table instance of `lockset_drf` (the classic discipline). -/
theorem table_lockset_drf (tbl : List Site) (nLocks : Nat) (x : Var) (hok : disciplineOK tbl nLocks x = true)
    (P : Prog) (hc : Conforms tbl P) : ∀ sched s, reach P sched = some s → ¬ Race P s x := by
  apply lockset_drf
  unfold disciplineOK at hok
  rw [Bool.or_eq_true] at hok
  rcases hok with hok | hok
  · rw [List.any_eq_true] at hok
    obtain ⟨m, _, hm⟩ := hok
    exact Or.inl ⟨m, protects_of_table hm hc⟩
  · exact Or.inr (allAtomic_of_table hok hc)

theorem rank_of_table {edges : List (Lock × Lock)} {ranks : List Nat} {P : Prog} (hr : ranksOK edges ranks = true)
    (hc : EdgeConforms edges P) : ∀ a b, Edge P a b → rankOf ranks a < rankOf ranks b := by
  intro a b he
  unfold ranksOK at hr
  rw [List.all_eq_true] at hr
  simpa using hr (a, b) (hc a b he)

/-- table instance of `lockorder_no_deadlock`. -/
theorem table_no_deadlock (edges : List (Lock × Lock)) (ranks : List Nat) (hr : ranksOK edges ranks = true)
    (P : Prog) (hc : EdgeConforms edges P) (hp : Paired P) : ∀ sched s, reach P sched = some s → ¬ Deadlock P s :=
  lockorder_no_deadlock P (acyclic_of_rank _ (rankOf ranks) (rank_of_table hr hc)) hp

theorem rankOf_le (ranks : List Nat) (m : Lock) : rankOf ranks m ≤ ranks.foldl max 0 := by
  unfold rankOf
  have gen : ∀ (l : List Nat) (acc : Nat) (k : Nat), l.getD k 0 ≤ l.foldl max acc ∧ acc ≤ l.foldl max acc := by
    intro l
    induction l with
    | nil => intro acc k; simp
    | cons a rest ih =>
      intro acc k
      simp only [List.foldl_cons]
      have h1 := ih (max acc a)
      constructor
      · cases k with
        | zero =>
          simp only [List.getD_cons_zero]
          have := (h1 0).2
          omega
        | succ k =>
          simp only [List.getD_cons_succ]
          exact (h1 k).1
      · have := (h1 0).2
        omega
  exact (gen ranks 0 m).1

/-- table instance of `lockorder_progress`: while some thread is unfinished, some thread can move. -/
theorem table_progress (edges : List (Lock × Lock)) (ranks : List Nat) (hr : ranksOK edges ranks = true)
    (P : Prog) (hc : EdgeConforms edges P) (hp : Paired P) :
    ∀ sched s, reach P sched = some s → ∀ t, Unfinished P s t → ∃ u, (step P s u).isSome :=
  lockorder_progress P (rankOf ranks) (ranks.foldl max 0) (rank_of_table hr hc) (rankOf_le ranks) hp

/-- the table check is not vacuous: two writing rows of a field that hold different single locks admit a conforming
    program with a reachable race (used for the known racy fields). -/
def twoWriters (f : Var) (m1 m2 : Lock) : Prog := fun t =>
  if t = 0 then [.acq m1 .ex, .wr f] else if t = 1 then [.acq m2 .ex, .wr f] else []

theorem race_of_disjoint_writers (tbl : List Site) (f : Var) (m1 m2 : Lock) (hne : m1 ≠ m2)
    (h1 : { field := f, write := true, atomic := false, held := [(m1, Mode.ex)] } ∈ tbl)
    (h2 : { field := f, write := true, atomic := false, held := [(m2, Mode.ex)] } ∈ tbl) :
    ∃ P, Conforms tbl P ∧ ∃ sched s, reach P sched = some s ∧ Race P s f := by
  refine ⟨twoWriters f m1 m2, ?_, [0, 1], ?_⟩
  · intro t i e x w a he ha
    by_cases ht0 : t = 0
    · subst ht0
      simp only [twoWriters, if_true] at he
      match i, he with
      | 0, he =>
        simp at he; subst he; simp [Ev.access] at ha
      | 1, he =>
        simp at he; subst he
        simp only [Ev.access, Option.some.injEq, Prod.mk.injEq] at ha
        obtain ⟨rfl, rfl, rfl⟩ := ha
        refine ⟨_, h1, rfl, rfl, rfl, ?_⟩
        intro l hl
        simp only [List.mem_singleton] at hl
        subst hl
        simp [heldAt, twoWriters, locksAfter, lockStep]
      | n + 2, he => simp at he
    · by_cases ht1 : t = 1
      · subst ht1
        simp only [twoWriters] at he
        match i, he with
        | 0, he =>
          simp at he; subst he; simp [Ev.access] at ha
        | 1, he =>
          simp at he; subst he
          simp only [Ev.access, Option.some.injEq, Prod.mk.injEq] at ha
          obtain ⟨rfl, rfl, rfl⟩ := ha
          refine ⟨_, h2, rfl, rfl, rfl, ?_⟩
          intro l hl
          simp only [List.mem_singleton] at hl
          subst hl
          simp [heldAt, twoWriters, locksAfter, lockStep]
        | n + 2, he => simp at he
      · simp [twoWriters, ht0, ht1] at he
  · have hne' : ¬ m2 = m1 := fun h => hne h.symm
    refine ⟨apply (apply St.init 0 (.acq m1 .ex)) 1 (.acq m2 .ex), ?_, 0, 1, .wr f, .wr f, by decide, ?_, ?_, ?_⟩
    · simp [reach, reachFrom, step, next, twoWriters, St.init, enabled, apply, hne']
    · simp [next, twoWriters, apply, St.init]
    · simp [next, twoWriters, apply, St.init]
    · exact ⟨true, false, true, false, rfl, rfl, Or.inl rfl, by simp⟩

end Kevo.LConc
