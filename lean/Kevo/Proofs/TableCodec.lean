/-
  Kevo.Proofs.TableCodec — layout / round trip of the SSTable file (helper file for Proofs/Table).
-/
import Kevo.Model.Table
import Kevo.Proofs.BlockCodec
import Kevo.Proofs.Sorted
namespace Kevo.Proofs.TableAux
open Kevo Kevo.Block Kevo.Table

/-- `Kevo.Proofs.Table.Params.WF` without its last conjunct (the 64 MiB filter size limit, see `BloomFits`). -/
def PWF (p : Params) : Prop :=
  0 < p.ri ∧ p.footerSize = 68 ∧ 2 ≤ p.version ∧ p.version < 2 ^ 32 ∧ p.magic < 2 ^ 64 ∧ 0 < p.bloomBits ∧
  p.bloomBits < 2 ^ 32 ∧ p.bloomK < 2 ^ 32 ∧ p.bloomN < 2 ^ 64 ∧ 0 < p.blockCut

/-! ### slices of a sequence of fixed-width fields -/

theorem slice_le_skip (w x : Nat) (l : Bytes) (off m : Nat) (h : w ≤ off) :
    slice (le w x ++ l) off m = slice l (off - w) m := by
  unfold slice
  have : off = (le w x).length + (off - w) := by simp; omega
  conv => lhs; rw [this, ← List.drop_drop, List.drop_left]

theorem slice_le_zero (w x : Nat) (l : Bytes) : slice (le w x ++ l) 0 w = le w x :=
  slice_zero _ _ _ (le_length _ _)

theorem slice_le_zero' (w x : Nat) : slice (le w x) 0 w = le w x := by
  have := slice_le_zero w x []
  simpa using this

theorem slice_append_left (a b : Bytes) (off m : Nat) (h : off + m ≤ a.length) :
    slice (a ++ b) off m = slice a off m := by
  unfold slice
  rw [List.drop_append_of_le_length (by omega), List.take_append_of_le_length (by simp; omega)]

/-! ### footer -/

theorem footerBytes_eq (p : Params) (hash : Bytes → Nat) (ts io is n bo bs : Nat) :
    footerBytes p hash ts io is n bo bs =
      (le 8 p.magic ++ (le 4 p.version ++ (le 8 ts ++ (le 8 io ++ (le 4 is ++ (le 4 n ++
        (le 4 0 ++ (le 4 0 ++ (le 8 bo ++ (le 4 bs ++ le 4 0)))))))))) ++
      le 8 (hash (le 8 p.magic ++ (le 4 p.version ++ (le 8 ts ++ (le 8 io ++ (le 4 is ++ (le 4 n ++
        (le 4 0 ++ (le 4 0 ++ (le 8 bo ++ (le 4 bs ++ le 4 0))))))))))) := by
  simp [footerBytes]

theorem footerBytes_length (p : Params) (hash : Bytes → Nat) (ts io is n bo bs : Nat) :
    (footerBytes p hash ts io is n bo bs).length = 68 := by
  simp [footerBytes]

theorem decodeFooter_footerBytes (p : Params) (hp : PWF p) (hash : Bytes → Nat) (hh : HOK hash)
    (ts io is n bo bs : Nat) (hts : ts < 2 ^ 64) (hio : io < 2 ^ 64) (his : is < 2 ^ 32) (hn : n < 2 ^ 32)
    (hbo : bo < 2 ^ 64) (hbs : bs < 2 ^ 32) :
    decodeFooter p hash (footerBytes p hash ts io is n bo bs) =
      some { magic := p.magic, version := p.version, ts := ts, indexOff := io, indexSize := is,
             numEntries := n, bloomOff := bo, bloomSize := bs } := by
  obtain ⟨_, hfs, hv2, hv, hm, _⟩ := hp
  have hlen := footerBytes_length p hash ts io is n bo bs
  rw [footerBytes_eq] at hlen ⊢
  generalize hpre : (le 8 p.magic ++ (le 4 p.version ++ (le 8 ts ++ (le 8 io ++ (le 4 is ++ (le 4 n ++
        (le 4 0 ++ (le 4 0 ++ (le 8 bo ++ (le 4 bs ++ le 4 0)))))))))) = pre at *
  have hprel : pre.length = 60 := by rw [← hpre]; simp
  have s0 : slice (pre ++ le 8 (hash pre)) 0 8 = le 8 p.magic := by
    rw [slice_append_left _ _ _ _ (by omega), ← hpre]; simp [slice_le_zero]
  have s8 : slice (pre ++ le 8 (hash pre)) 8 4 = le 4 p.version := by
    rw [slice_append_left _ _ _ _ (by omega), ← hpre]; simp [slice_le_zero, slice_le_skip]
  have s12 : slice (pre ++ le 8 (hash pre)) 12 8 = le 8 ts := by
    rw [slice_append_left _ _ _ _ (by omega), ← hpre]; simp [slice_le_zero, slice_le_skip]
  have s20 : slice (pre ++ le 8 (hash pre)) 20 8 = le 8 io := by
    rw [slice_append_left _ _ _ _ (by omega), ← hpre]; simp [slice_le_zero, slice_le_skip]
  have s28 : slice (pre ++ le 8 (hash pre)) 28 4 = le 4 is := by
    rw [slice_append_left _ _ _ _ (by omega), ← hpre]; simp [slice_le_zero, slice_le_skip]
  have s32 : slice (pre ++ le 8 (hash pre)) 32 4 = le 4 n := by
    rw [slice_append_left _ _ _ _ (by omega), ← hpre]; simp [slice_le_zero, slice_le_skip]
  have s44 : slice (pre ++ le 8 (hash pre)) 44 8 = le 8 bo := by
    rw [slice_append_left _ _ _ _ (by omega), ← hpre]; simp [slice_le_zero, slice_le_skip]
  have s52 : slice (pre ++ le 8 (hash pre)) 52 4 = le 4 bs := by
    rw [slice_append_left _ _ _ _ (by omega), ← hpre]; simp [slice_le_zero, slice_le_skip]
  have s60 : slice (pre ++ le 8 (hash pre)) 60 8 = le 8 (hash pre) := slice_mid' _ _ _ _ hprel (le_length _ _)
  have t60 : (pre ++ le 8 (hash pre)).take 60 = pre := List.take_left' hprel
  have u0 : unle (le 8 p.magic) = p.magic := unle_le 8 _ (by omega)
  have u8 : unle (le 4 p.version) = p.version := unle_le 4 _ (by omega)
  have u12 : unle (le 8 ts) = ts := unle_le 8 _ (by omega)
  have u20 : unle (le 8 io) = io := unle_le 8 _ (by omega)
  have u28 : unle (le 4 is) = is := unle_le 4 _ (by omega)
  have u32 : unle (le 4 n) = n := unle_le 4 _ (by omega)
  have u44 : unle (le 8 bo) = bo := unle_le 8 _ (by omega)
  have u52 : unle (le 4 bs) = bs := unle_le 4 _ (by omega)
  have u60 : unle (le 8 (hash pre)) = hash pre := unle_le 8 _ (by have := hh pre; omega)
  unfold decodeFooter
  have c1 : ¬ ((pre ++ le 8 (hash pre)).length < p.footerSize) := by omega
  have c2 : p.version ≥ 2 := hv2
  simp only [if_neg c1, s0, s8, s12, s20, s28, s32, s44, s52, s60, t60, u0, u8, u12, u20, u28, u32, u44, u52, u60,
    if_pos c2, ne_eq, not_true, if_false]

/-! ### OpenReader on a file of the shape `data ++ bloom ++ index ++ footer` -/

theorem validHeader_ok (p : Params) (hfs : p.footerSize = 68) (f : Footer) (fileSize : Nat)
    (h1 : f.indexOff + f.indexSize + 68 ≤ fileSize) (h2 : 0 < f.indexSize) (h3 : 0 < f.numEntries)
    (h4 : f.bloomOff = 0 ∨ (0 < f.bloomSize ∧ f.bloomOff + f.bloomSize + 68 ≤ fileSize)) :
    validHeader p f fileSize = true := by
  simp only [validHeader, hfs]
  by_cases hb : f.bloomOff > 0
  · have h5 : 0 < f.bloomSize ∧ f.bloomOff + f.bloomSize + 68 ≤ fileSize := by omega
    simp only [if_pos hb]
    simp
    omega
  · simp only [if_neg hb]
    simp
    omega

theorem openTable_shape (p : Params) (hp : PWF p) (hash : Bytes → Nat) (hh : HOK hash)
    (D B I : Bytes) (ts n : Nat) (ir : Block.Reader) (fl : List Filter)
    (hts : ts < 2 ^ 64) (hn0 : 0 < n) (hn : n < 2 ^ 32) (hD : 0 < D.length) (hI : 0 < I.length)
    (hlen : D.length + B.length + I.length + 68 < 2 ^ 32)
    (hidx : Block.openBlock hash I = some ir)
    (hB : (B = [] ∧ fl = []) ∨ (B ≠ [] ∧ loadFilters B (B.length + 1) 0 = some fl)) :
    openTable p hash (D ++ B ++ I ++
        footerBytes p hash ts (D.length + B.length) I.length n (if B.isEmpty then 0 else D.length) B.length) =
      some { file := D ++ B ++ I ++
               footerBytes p hash ts (D.length + B.length) I.length n (if B.isEmpty then 0 else D.length) B.length,
             footer := { magic := p.magic, version := p.version, ts := ts, indexOff := D.length + B.length,
                         indexSize := I.length, numEntries := n,
                         bloomOff := if B.isEmpty then 0 else D.length, bloomSize := B.length },
             index := Block.decodeAll ir, filters := fl, hasBloom := !B.isEmpty } := by
  have hfs : p.footerSize = 68 := hp.2.1
  generalize hbo : (if B.isEmpty then 0 else D.length) = bo
  have hbo' : bo ≤ D.length := by rw [← hbo]; split <;> omega
  have hdf := decodeFooter_footerBytes p hp hash hh ts (D.length + B.length) I.length n bo B.length hts
    (by omega) (by omega) hn (by omega) (by omega)
  have hfl := footerBytes_length p hash ts (D.length + B.length) I.length n bo B.length
  generalize hF : footerBytes p hash ts (D.length + B.length) I.length n bo B.length = F at *
  have hfile : (D ++ B ++ I ++ F).length = D.length + B.length + I.length + 68 := by simp [hfl]; omega
  have hdrop : (D ++ B ++ I ++ F).drop ((D ++ B ++ I ++ F).length - p.footerSize) = F := by
    rw [hfile, hfs]; exact List.drop_left' (by simp; omega)
  have hsI : slice (D ++ B ++ I ++ F) (D.length + B.length) I.length = I :=
    slice_mid _ _ _ _ _ (by simp) rfl
  have hsB : slice (D ++ B ++ I ++ F) D.length B.length = B := by
    have : D ++ B ++ I ++ F = D ++ B ++ (I ++ F) := by simp
    rw [this]; exact slice_mid _ _ _ _ _ rfl rfl
  unfold openTable
  have c1 : ¬ ((D ++ B ++ I ++ F).length < p.footerSize) := by omega
  rw [if_neg c1, hdrop, hdf]
  simp only
  have hvalid : validHeader p { magic := p.magic, version := p.version, ts := ts, indexOff := D.length + B.length, indexSize := I.length, numEntries := n, bloomOff := bo, bloomSize := B.length }
      (D ++ B ++ I ++ F).length = true := by
    apply validHeader_ok p hfs
    · simp only [hfile]; omega
    · exact hI
    · exact hn0
    · simp only [hfile]
      rcases hB with ⟨hBe, _⟩ | ⟨hBne, _⟩
      · left; rw [← hbo, hBe]; rfl
      · right; exact ⟨List.length_pos_iff.mpr hBne, by omega⟩
  rw [hvalid]
  simp only [Bool.not_true, Bool.false_eq_true, if_false, hsI, hidx]
  rcases hB with ⟨hBe, hfle⟩ | ⟨hBne, hload⟩
  · subst hBe hfle
    have : bo = 0 := by rw [← hbo]; rfl
    subst this
    simp
  · have hBl : 0 < B.length := List.length_pos_iff.mpr hBne
    have : bo = D.length := by rw [← hbo]; simp [hBne]
    subst this
    have c : D.length > 0 ∧ B.length > 0 := ⟨hD, hBl⟩
    simp only [c, and_self, if_true, hsB, hload]
    simp [hBne]

theorem openTable_shape_none (p : Params) (hp : PWF p) (hash : Bytes → Nat) (hh : HOK hash)
    (D B I : Bytes) (ts n : Nat) (ir : Block.Reader)
    (hts : ts < 2 ^ 64) (hn0 : 0 < n) (hn : n < 2 ^ 32) (hD : 0 < D.length) (hI : 0 < I.length)
    (hlen : D.length + B.length + I.length + 68 < 2 ^ 32)
    (hidx : Block.openBlock hash I = some ir)
    (hBne : B ≠ []) (hload : loadFilters B (B.length + 1) 0 = none) :
    openTable p hash (D ++ B ++ I ++
        footerBytes p hash ts (D.length + B.length) I.length n (if B.isEmpty then 0 else D.length) B.length) =
      none := by
  have hfs : p.footerSize = 68 := hp.2.1
  generalize hbo : (if B.isEmpty then 0 else D.length) = bo
  have hbo' : bo ≤ D.length := by rw [← hbo]; split <;> omega
  have hdf := decodeFooter_footerBytes p hp hash hh ts (D.length + B.length) I.length n bo B.length hts
    (by omega) (by omega) hn (by omega) (by omega)
  have hfl := footerBytes_length p hash ts (D.length + B.length) I.length n bo B.length
  generalize hF : footerBytes p hash ts (D.length + B.length) I.length n bo B.length = F at *
  have hfile : (D ++ B ++ I ++ F).length = D.length + B.length + I.length + 68 := by simp [hfl]; omega
  have hdrop : (D ++ B ++ I ++ F).drop ((D ++ B ++ I ++ F).length - p.footerSize) = F := by
    rw [hfile, hfs]; exact List.drop_left' (by simp; omega)
  have hsI : slice (D ++ B ++ I ++ F) (D.length + B.length) I.length = I :=
    slice_mid _ _ _ _ _ (by simp) rfl
  have hsB : slice (D ++ B ++ I ++ F) D.length B.length = B := by
    have : D ++ B ++ I ++ F = D ++ B ++ (I ++ F) := by simp
    rw [this]; exact slice_mid _ _ _ _ _ rfl rfl
  unfold openTable
  have c1 : ¬ ((D ++ B ++ I ++ F).length < p.footerSize) := by omega
  rw [if_neg c1, hdrop, hdf]
  simp only
  have hvalid : validHeader p { magic := p.magic, version := p.version, ts := ts, indexOff := D.length + B.length, indexSize := I.length, numEntries := n, bloomOff := bo, bloomSize := B.length }
      (D ++ B ++ I ++ F).length = true := by
    apply validHeader_ok p hfs
    · simp only [hfile]; omega
    · exact hI
    · exact hn0
    · simp only [hfile]
      right; exact ⟨List.length_pos_iff.mpr hBne, by omega⟩
  rw [hvalid]
  simp only [Bool.not_true, Bool.false_eq_true, if_false, hsI, hidx]
  have hBl : 0 < B.length := List.length_pos_iff.mpr hBne
  have : bo = D.length := by rw [← hbo]; simp [hBne]
  subst this
  have c : D.length > 0 ∧ B.length > 0 := ⟨hD, hBl⟩
  simp only [c, and_self, if_true, hsB, hload]

/-! ### bloom section -/

def filterOf (off : Nat) (f : Bytes) : Filter :=
  { blockOff := off, bits := unle (slice f 0 8), k := unle (slice f 8 8), data := f.drop 32 }

/-- LoadBloomFilter's acceptance test on a serialised filter: the 32-byte header describes the data that follows
    (a record failing it is skipped by `loadFilters`). -/
def filterOk (f : Bytes) : Bool :=
  decide (f.length ≥ 32 ∧ unle (slice f 0 8) ≠ 0 ∧ unle (slice f 8 8) ≠ 0 ∧ unle (slice f 8 8) ≤ unle (slice f 0 8) ∧
          f.length - 32 = unle (slice f 0 8) / 8 + (unle (slice f 0 8) % 8 + 7) / 8)

def bloomRec (r : Nat × Bytes) : Bytes := le 8 r.1 ++ le 4 r.2.length ++ r.2

def bloomRecs (recs : List (Nat × Bytes)) : Bytes := recs.flatMap bloomRec

theorem bloomRecs_length_ge (recs : List (Nat × Bytes)) : 12 * recs.length ≤ (bloomRecs recs).length := by
  induction recs with
  | nil => simp [bloomRecs]
  | cons r recs ih =>
    simp only [bloomRecs, List.flatMap_cons, List.length_append, List.length_cons] at ih ⊢
    simp only [bloomRec, List.length_append, le_length]
    omega

theorem loadFilters_step (sec pfx f rest : Bytes) (off fuel : Nat)
    (hsec : sec = pfx ++ bloomRec (off, f) ++ rest) (hoff : off < 2 ^ 64) (hf0 : 0 < f.length)
    (hf32 : f.length < 2 ^ 32) :
    loadFilters sec (fuel + 1) pfx.length =
      if f.length > 64 * 1024 * 1024 then none
      else match loadFilters sec fuel (pfx.length + 12 + f.length) with
        | none => none
        | some r => some (if filterOk f then filterOf off f :: r else r) := by
  have hl : sec.length = pfx.length + 12 + f.length + rest.length := by
    rw [hsec]; simp [bloomRec]; omega
  have e1 : sec = pfx ++ le 8 off ++ (le 4 f.length ++ f ++ rest) := by rw [hsec]; simp [bloomRec]
  have e2 : sec = (pfx ++ le 8 off) ++ le 4 f.length ++ (f ++ rest) := by rw [hsec]; simp [bloomRec]
  have e3 : sec = (pfx ++ le 8 off ++ le 4 f.length) ++ f ++ rest := by rw [hsec]; simp [bloomRec]
  have s1 : slice sec pfx.length 8 = le 8 off := by
    rw [e1]; exact slice_mid _ _ _ _ _ rfl (le_length _ _)
  have s2 : slice sec (pfx.length + 8) 4 = le 4 f.length := by
    rw [e2]; exact slice_mid _ _ _ _ _ (by simp) (le_length _ _)
  have s3 : slice sec (pfx.length + 12) f.length = f := by
    rw [e3]; exact slice_mid _ _ _ _ _ (by simp) rfl
  have u1 : unle (le 8 off) = off := unle_le 8 _ (by omega)
  have u2 : unle (le 4 f.length) = f.length := unle_le 4 _ (by omega)
  rw [loadFilters]
  have c1 : ¬ (pfx.length ≥ sec.length) := by omega
  have c2 : ¬ (pfx.length + 12 > sec.length) := by omega
  simp only [if_neg c1, if_neg c2, s1, s2, s3, u1, u2]
  by_cases hbig : f.length > 64 * 1024 * 1024
  · have c3 : f.length = 0 ∨ f.length > sec.length ∨ pfx.length + 12 + f.length > sec.length ∨
        f.length > 64 * 1024 * 1024 := by omega
    rw [if_pos c3, if_pos hbig]
  · have c3 : ¬ (f.length = 0 ∨ f.length > sec.length ∨ pfx.length + 12 + f.length > sec.length ∨
        f.length > 64 * 1024 * 1024) := by omega
    rw [if_neg c3, if_neg hbig]
    rfl

theorem loadFilters_recs (sec : Bytes) : ∀ (recs : List (Nat × Bytes)) (pfx : Bytes) (fuel : Nat),
    sec = pfx ++ bloomRecs recs → recs.length < fuel →
    (∀ r ∈ recs, r.1 < 2 ^ 64 ∧ 0 < r.2.length ∧ r.2.length ≤ 64 * 1024 * 1024 ∧ filterOk r.2 = true) →
    loadFilters sec fuel pfx.length = some (recs.map (fun r => filterOf r.1 r.2)) := by
  intro recs
  induction recs with
  | nil =>
    intro pfx fuel hsec hfuel _
    obtain ⟨f, rfl⟩ : ∃ f, fuel = f + 1 := ⟨fuel - 1, by simp at hfuel; omega⟩
    have : sec.length = pfx.length := by rw [hsec]; simp [bloomRecs]
    rw [loadFilters, if_pos (by omega)]
    rfl
  | cons r recs ih =>
    intro pfx fuel hsec hfuel hr
    obtain ⟨f, rfl⟩ : ∃ f, fuel = f + 1 := ⟨fuel - 1, by simp at hfuel; omega⟩
    obtain ⟨off, fb⟩ := r
    obtain ⟨h1, h2, h3, h4⟩ := hr (off, fb) (by simp)
    simp only at h1 h2 h3 h4
    have hsec' : sec = pfx ++ bloomRec (off, fb) ++ bloomRecs recs := by
      rw [hsec]; simp [bloomRecs]
    rw [loadFilters_step sec pfx fb (bloomRecs recs) off f hsec' h1 h2 (by omega), if_neg (by omega)]
    have := ih (pfx ++ bloomRec (off, fb)) f (by rw [hsec']) (by simp at hfuel; omega)
      (fun r' hr' => hr r' (by simp [hr']))
    have hl : (pfx ++ bloomRec (off, fb)).length = pfx.length + 12 + fb.length := by
      simp [bloomRec]; omega
    rw [hl] at this
    rw [this, h4]
    rfl

/-! ### block cutting and layout -/

theorem cutBlocks_flatten (p : Params) : ∀ (es cur : List BEntry) (sz : Nat),
    (cutBlocks p es cur sz).flatten = cur.reverse ++ es := by
  intro es
  induction es with
  | nil =>
    intro cur sz
    cases cur <;> simp [cutBlocks]
  | cons e es ih =>
    intro cur sz
    simp only [cutBlocks]
    split
    · simp [ih]
    · rw [ih]; simp

theorem cutBlocks_ne_nil (p : Params) : ∀ (es cur : List BEntry) (sz : Nat),
    ∀ b ∈ cutBlocks p es cur sz, b ≠ [] := by
  intro es
  induction es with
  | nil =>
    intro cur sz b hb
    cases cur with
    | nil => simp [cutBlocks] at hb
    | cons c cur => simp [cutBlocks] at hb; subst hb; simp
  | cons e es ih =>
    intro cur sz b hb
    simp only [cutBlocks] at hb
    split at hb
    · rcases List.mem_cons.mp hb with rfl | hb
      · simp
      · exact ih _ _ b hb
    · exact ih _ _ b hb

abbrev LBlock := Nat × Bytes × List BEntry

def dataOf (bs : List LBlock) : Bytes := bs.flatMap (fun b => b.2.1)

theorem layBlocks_cons (p : Params) (hash : Bytes → Nat) (b : List BEntry) (bl : List (List BEntry)) (off : Nat) :
    layBlocks p hash (b :: bl) off =
      (off, Block.encode p.ri hash b, b) :: layBlocks p hash bl (off + (Block.encode p.ri hash b).length) := rfl

theorem layBlocks_ents (p : Params) (hash : Bytes → Nat) : ∀ (bl : List (List BEntry)) (off : Nat),
    (layBlocks p hash bl off).map (fun b => b.2.2) = bl := by
  intro bl
  induction bl with
  | nil => intro off; rfl
  | cons b bl ih => intro off; rw [layBlocks_cons, List.map_cons, ih]

theorem layBlocks_mem (p : Params) (hash : Bytes → Nat) : ∀ (bl : List (List BEntry)) (off : Nat),
    ∀ b ∈ layBlocks p hash bl off, b.2.1 = Block.encode p.ri hash b.2.2 ∧ b.2.2 ∈ bl := by
  intro bl
  induction bl with
  | nil => intro off b hb; simp [layBlocks] at hb
  | cons b0 bl ih =>
    intro off b hb
    rw [layBlocks_cons] at hb
    rcases List.mem_cons.mp hb with rfl | hb
    · simp
    · have := ih _ b hb
      exact ⟨this.1, by simp [this.2]⟩

theorem layBlocks_slice (p : Params) (hash : Bytes → Nat) : ∀ (bl : List (List BEntry)) (off : Nat) (pfx rest : Bytes),
    pfx.length = off → ∀ b ∈ layBlocks p hash bl off,
      slice (pfx ++ dataOf (layBlocks p hash bl off) ++ rest) b.1 b.2.1.length = b.2.1 ∧
      off ≤ b.1 ∧ b.1 + b.2.1.length ≤ off + (dataOf (layBlocks p hash bl off)).length := by
  intro bl
  induction bl with
  | nil => intro off pfx rest _ b hb; simp [layBlocks] at hb
  | cons b0 bl ih =>
    intro off pfx rest hoff b hb
    rw [layBlocks_cons] at hb ⊢
    simp only [dataOf, List.flatMap_cons, List.length_append]
    rcases List.mem_cons.mp hb with rfl | hb
    · refine ⟨?_, Nat.le_refl _, by simp⟩
      simp only
      have : pfx ++ (Block.encode p.ri hash b0 ++ List.flatMap (fun b => b.2.1)
          (layBlocks p hash bl (off + (Block.encode p.ri hash b0).length))) ++ rest =
          pfx ++ Block.encode p.ri hash b0 ++ (List.flatMap (fun b => b.2.1)
          (layBlocks p hash bl (off + (Block.encode p.ri hash b0).length)) ++ rest) := by simp
      rw [this]
      exact slice_mid _ _ _ _ _ hoff rfl
    · have := ih (off + (Block.encode p.ri hash b0).length) (pfx ++ Block.encode p.ri hash b0) rest
        (by simp [hoff]) b hb
      simp only [dataOf] at this
      refine ⟨Eq.trans ?_ this.1, by omega, by omega⟩
      congr 1
      simp

theorem layBlocks_data_ge (p : Params) (hash : Bytes → Nat) : ∀ (bl : List (List BEntry)) (off : Nat),
    14 * bl.flatten.length + 12 * bl.length ≤ (dataOf (layBlocks p hash bl off)).length := by
  intro bl
  induction bl with
  | nil => intro off; simp
  | cons b bl ih =>
    intro off
    rw [layBlocks_cons]
    simp only [dataOf, List.flatMap_cons, List.length_append, List.flatten_cons, List.length_cons]
    have h1 := ih (off + (Block.encode p.ri hash b).length)
    have h2 := encode_length_ge p.ri hash b
    simp only [dataOf] at h1
    omega

/-! ### the file as a function of the laid-out blocks -/

def idxEntry (b : LBlock) : BEntry :=
  { key := (b.2.2.headD { key := [], val := none, seq := 0 }).key, val := some (le 8 b.1 ++ le 4 b.2.1.length), seq := 0 }

def filterRec (p : Params) (fnv : Bytes → Nat) (b : LBlock) : Nat × Bytes :=
  (b.1, bloomBytes p fnv (b.2.2.map (·.key)))

def bloomOf (p : Params) (fnv : Bytes → Nat) (bloom : Bool) (blocks : List LBlock) : Bytes :=
  if bloom then bloomRecs (blocks.map (filterRec p fnv)) else []

def indexOf (p : Params) (hash : Bytes → Nat) (blocks : List LBlock) : Bytes :=
  Block.encode p.ri hash (blocks.map idxEntry)

def tableOf (p : Params) (hash fnv : Bytes → Nat) (ts : Nat) (bloom : Bool) (blocks : List LBlock) (n : Nat) : Bytes :=
  dataOf blocks ++ bloomOf p fnv bloom blocks ++ indexOf p hash blocks ++
    footerBytes p hash ts ((dataOf blocks).length + (bloomOf p fnv bloom blocks).length) (indexOf p hash blocks).length n
      (if (bloomOf p fnv bloom blocks).isEmpty then 0 else (dataOf blocks).length) (bloomOf p fnv bloom blocks).length

theorem bloomRecs_map (p : Params) (fnv : Bytes → Nat) (blocks : List LBlock) :
    bloomRecs (blocks.map (filterRec p fnv)) = blocks.flatMap (fun b => bloomRec (filterRec p fnv b)) := by
  simp [bloomRecs, List.flatMap_map]

theorem tencode_eq (p : Params) (hash fnv : Bytes → Nat) (ts : Nat) (bloom : Bool) (es : List BEntry) :
    Table.encode p hash fnv ts bloom es =
      tableOf p hash fnv ts bloom (layBlocks p hash (cutBlocks p es [] 0) 0) es.length := by
  unfold tableOf bloomOf
  rw [bloomRecs_map]
  rfl

/-! ### index entries, block fetch, allEntries -/

theorem idxEntry_wf (b : LBlock) (hne : b.2.2 ≠ []) (hwf : ∀ e ∈ b.2.2, EWF e) : EWF (idxEntry b) := by
  obtain ⟨off, data, ents⟩ := b
  cases ents with
  | nil => exact absurd rfl hne
  | cons e ents =>
    obtain ⟨h2, _, _⟩ := hwf e (by simp)
    refine ⟨h2, ?_, by simp [idxEntry]⟩
    intro v hv
    simp only [idxEntry, Option.some.injEq] at hv
    subst hv
    simp

theorem locator_idxEntry (b : LBlock) (h1 : b.1 < 2 ^ 64) (h2 : b.2.1.length < 2 ^ 32) :
    locator (idxEntry b) = some (b.1, b.2.1.length) := by
  have t8 : (le 8 b.1 ++ le 4 b.2.1.length).take 8 = le 8 b.1 := List.take_left' (le_length _ _)
  have s8 : slice (le 8 b.1 ++ le 4 b.2.1.length) 8 4 = le 4 b.2.1.length :=
    slice_mid' _ _ _ _ (le_length _ _) (le_length _ _)
  have u1 : unle (le 8 b.1) = b.1 := unle_le 8 _ (by omega)
  have u2 : unle (le 4 b.2.1.length) = b.2.1.length := unle_le 4 _ (by omega)
  simp only [locator, idxEntry, t8, s8, u1, u2]
  simp

def BlockOK (ri : Nat) (hash : Bytes → Nat) (file : Bytes) (b : LBlock) : Prop :=
  b.1 < 2 ^ 64 ∧ b.2.1.length < 2 ^ 32 ∧ slice file b.1 b.2.1.length = b.2.1 ∧
  b.2.1 = Block.encode ri hash b.2.2 ∧ ∀ e ∈ b.2.2, EWF e

theorem blockEntries_ok (ri : Nat) (hash : Bytes → Nat) (hh : HOK hash) (r : Table.Reader) (b : LBlock)
    (hb : BlockOK ri hash r.file b) : blockEntries hash r b.1 b.2.1.length = some b.2.2 := by
  obtain ⟨_, h2, h3, h4, h5⟩ := hb
  obtain ⟨br, hbr, hdec⟩ := block_roundtrip_aux ri hash hh b.2.2 h5 (by rw [← h4]; exact h2)
  unfold blockEntries
  simp only [h3, ne_eq, not_true, if_false]
  rw [h4, hbr]
  simp [hdec]

theorem allEntries_fold (ri : Nat) (hash : Bytes → Nat) (hh : HOK hash) (r : Table.Reader) :
    ∀ (bs : List LBlock) (acc : List BEntry), (∀ b ∈ bs, BlockOK ri hash r.file b) →
      (bs.map idxEntry).foldl (fun acc ie => match acc, locator ie with
        | some es, some (off, sz) => (blockEntries hash r off sz).map (es ++ ·)
        | _, _ => none) (some acc) = some (acc ++ bs.flatMap (fun b => b.2.2)) := by
  intro bs
  induction bs with
  | nil => intro acc _; simp
  | cons b bs ih =>
    intro acc hb
    have hb0 := hb b (by simp)
    rw [List.map_cons, List.foldl_cons, locator_idxEntry b hb0.1 hb0.2.1]
    simp only [blockEntries_ok ri hash hh r b hb0, Option.map_some]
    rw [ih _ (fun b' h => hb b' (by simp [h]))]
    simp

/-! ### bloom filter bytes -/

theorem foldl_setBit_size (ps : List Nat) (a : Array UInt8) : (ps.foldl setBit a).size = a.size := by
  induction ps generalizing a with
  | nil => rfl
  | cons x ps ih => rw [List.foldl_cons, ih]; simp [setBit]

theorem bloomBits_size (p : Params) (fnv : Bytes → Nat) (keys : List Bytes) (a : Array UInt8) :
    (keys.foldl (fun a k => (bloomPositions p fnv k).foldl setBit a) a).size = a.size := by
  induction keys generalizing a with
  | nil => rfl
  | cons k keys ih => rw [List.foldl_cons, ih, foldl_setBit_size]

theorem bloomBytes_length (p : Params) (fnv : Bytes → Nat) (keys : List Bytes) :
    (bloomBytes p fnv keys).length = 32 + (p.bloomBits + 7) / 8 := by
  simp [bloomBytes, bloomBits_size]; omega

theorem bloomBytes_eq (p : Params) (fnv : Bytes → Nat) (keys : List Bytes) :
    bloomBytes p fnv keys =
      le 8 p.bloomBits ++ (le 8 p.bloomK ++ (le 8 p.bloomN ++ (le 8 keys.length ++
        (keys.foldl (fun a k => (bloomPositions p fnv k).foldl setBit a)
          (Array.replicate ((p.bloomBits + 7) / 8) (0 : UInt8))).toList))) := by
  simp [bloomBytes]

/-- the header fields and the bit array a reader sees in a written filter. -/
theorem bloomBytes_hdr (p : Params) (hp : PWF p) (fnv : Bytes → Nat) (keys : List Bytes) :
    unle (slice (bloomBytes p fnv keys) 0 8) = p.bloomBits ∧ unle (slice (bloomBytes p fnv keys) 8 8) = p.bloomK ∧
    (bloomBytes p fnv keys).drop 32 =
      (keys.foldl (fun a k => (bloomPositions p fnv k).foldl setBit a)
        (Array.replicate ((p.bloomBits + 7) / 8) (0 : UInt8))).toList := by
  obtain ⟨_, _, _, _, _, _, hb, hk, _, _⟩ := hp
  rw [bloomBytes_eq]
  generalize (keys.foldl (fun a k => (bloomPositions p fnv k).foldl setBit a)
          (Array.replicate ((p.bloomBits + 7) / 8) (0 : UInt8))).toList = bl
  have s0 : slice (le 8 p.bloomBits ++ (le 8 p.bloomK ++ (le 8 p.bloomN ++ (le 8 keys.length ++ bl)))) 0 8 =
      le 8 p.bloomBits := slice_le_zero _ _ _
  have s8 : slice (le 8 p.bloomBits ++ (le 8 p.bloomK ++ (le 8 p.bloomN ++ (le 8 keys.length ++ bl)))) 8 8 =
      le 8 p.bloomK := by
    rw [slice_le_skip _ _ _ _ _ (Nat.le_refl _)]; exact slice_le_zero _ _ _
  have d32 : (le 8 p.bloomBits ++ (le 8 p.bloomK ++ (le 8 p.bloomN ++ (le 8 keys.length ++ bl)))).drop 32 = bl := by
    have : le 8 p.bloomBits ++ (le 8 p.bloomK ++ (le 8 p.bloomN ++ (le 8 keys.length ++ bl))) =
        (le 8 p.bloomBits ++ le 8 p.bloomK ++ le 8 p.bloomN ++ le 8 keys.length) ++ bl := by simp
    rw [this]; exact List.drop_left' (by simp)
  have u0 : unle (le 8 p.bloomBits) = p.bloomBits := unle_le 8 _ (by omega)
  have u8 : unle (le 8 p.bloomK) = p.bloomK := unle_le 8 _ (by omega)
  rw [s0, s8, d32, u0, u8]
  exact ⟨rfl, rfl, rfl⟩

theorem filterOf_bloomBytes (p : Params) (hp : PWF p) (fnv : Bytes → Nat) (keys : List Bytes) (off : Nat) :
    filterOf off (bloomBytes p fnv keys) =
      { blockOff := off, bits := p.bloomBits, k := p.bloomK,
        data := (keys.foldl (fun a k => (bloomPositions p fnv k).foldl setBit a)
          (Array.replicate ((p.bloomBits + 7) / 8) (0 : UInt8))).toList } := by
  obtain ⟨h1, h2, h3⟩ := bloomBytes_hdr p hp fnv keys
  simp only [filterOf, h1, h2, h3]

/-- a written filter passes LoadBloomFilter's acceptance test as soon as it has at least one hash function and not
    more hash functions than bits (its header describes its data by construction). -/
theorem filterOk_bloomBytes (p : Params) (hp : PWF p) (hk0 : 0 < p.bloomK) (hkb : p.bloomK ≤ p.bloomBits)
    (fnv : Bytes → Nat) (keys : List Bytes) : filterOk (bloomBytes p fnv keys) = true := by
  obtain ⟨h1, h2, _⟩ := bloomBytes_hdr p hp fnv keys
  have hl := bloomBytes_length p fnv keys
  simp only [filterOk, h1, h2, hl, decide_eq_true_eq]
  omega

/-! ### OpenReader on a written table -/

def filtersOf (p : Params) (fnv : Bytes → Nat) (bloom : Bool) (blocks : List LBlock) : List Filter :=
  if bloom then (blocks.map (filterRec p fnv)).map (fun r => filterOf r.1 r.2) else []

def readerOf (p : Params) (hash fnv : Bytes → Nat) (ts : Nat) (bloom : Bool) (blocks : List LBlock) (n : Nat) :
    Table.Reader :=
  { file := tableOf p hash fnv ts bloom blocks n,
    footer := { magic := p.magic, version := p.version, ts := ts,
                indexOff := (dataOf blocks).length + (bloomOf p fnv bloom blocks).length,
                indexSize := (indexOf p hash blocks).length, numEntries := n,
                bloomOff := if (bloomOf p fnv bloom blocks).isEmpty then 0 else (dataOf blocks).length,
                bloomSize := (bloomOf p fnv bloom blocks).length },
    index := blocks.map idxEntry, filters := filtersOf p fnv bloom blocks, hasBloom := bloom }

theorem tableOf_length (p : Params) (hash fnv : Bytes → Nat) (ts : Nat) (bloom : Bool) (blocks : List LBlock) (n : Nat) :
    (tableOf p hash fnv ts bloom blocks n).length =
      (dataOf blocks).length + (bloomOf p fnv bloom blocks).length + (indexOf p hash blocks).length + 68 := by
  simp only [tableOf, List.length_append, footerBytes_length]

/-- the condition under which `loadFilters` accepts and keeps the written filters (validateBloomFilterSize: ≤ 64 MiB;
    LoadBloomFilter: at least one hash function, not more hash functions than bits). -/
def BloomFits (p : Params) (bloom : Bool) : Prop :=
  bloom = true → 32 + (p.bloomBits + 7) / 8 ≤ 64 * 1024 * 1024 ∧ 0 < p.bloomK ∧ p.bloomK ≤ p.bloomBits

theorem openTable_tableOf (p : Params) (hp : PWF p) (hash fnv : Bytes → Nat) (hh : HOK hash) (ts : Nat)
    (hts : ts < 2 ^ 64) (bloom : Bool) (hfit : BloomFits p bloom) (bl : List (List BEntry)) (n : Nat)
    (hbl : bl ≠ []) (hne : ∀ b ∈ bl, b ≠ []) (hwf : ∀ b ∈ bl, ∀ e ∈ b, EWF e) (hn0 : 0 < n) (hn : n < 2 ^ 32)
    (hsz : (tableOf p hash fnv ts bloom (layBlocks p hash bl 0) n).length < 2 ^ 32) :
    openTable p hash (tableOf p hash fnv ts bloom (layBlocks p hash bl 0) n) =
      some (readerOf p hash fnv ts bloom (layBlocks p hash bl 0) n) := by
  generalize hblocks : layBlocks p hash bl 0 = blocks at *
  rw [tableOf_length] at hsz
  have hents : blocks.map (fun b => b.2.2) = bl := by rw [← hblocks]; exact layBlocks_ents p hash bl 0
  have hblen : blocks.length = bl.length := by rw [← hents]; simp
  have hbpos : 0 < bl.length := List.length_pos_iff.mpr hbl
  have hDge : 12 * bl.length ≤ (dataOf blocks).length := by
    have := layBlocks_data_ge p hash bl 0
    rw [hblocks] at this; omega
  have hmem : ∀ b ∈ blocks, b.2.1 = Block.encode p.ri hash b.2.2 ∧ b.2.2 ∈ bl := by
    rw [← hblocks]; exact layBlocks_mem p hash bl 0
  have hoffs : ∀ b ∈ blocks, b.1 + b.2.1.length ≤ (dataOf blocks).length := by
    intro b hb
    rw [← hblocks] at hb ⊢
    have := (layBlocks_slice p hash bl 0 [] [] rfl b hb).2.2
    omega
  -- index block
  have hiwf : ∀ e ∈ blocks.map idxEntry, EWF e := by
    intro e he
    obtain ⟨b, hb, rfl⟩ := List.mem_map.mp he
    have := (hmem b hb).2
    exact idxEntry_wf b (hne _ this) (hwf _ this)
  obtain ⟨ir, hir, hdec⟩ := block_roundtrip_aux p.ri hash hh (blocks.map idxEntry) hiwf
    (by have : (indexOf p hash blocks).length < 2 ^ 32 := by omega
        exact this)
  have hIge : 12 ≤ (indexOf p hash blocks).length := by
    have := encode_length_ge p.ri hash (blocks.map idxEntry)
    unfold indexOf; omega
  -- bloom section
  have hB : (bloomOf p fnv bloom blocks = [] ∧ filtersOf p fnv bloom blocks = []) ∨
      (bloomOf p fnv bloom blocks ≠ [] ∧
        loadFilters (bloomOf p fnv bloom blocks) ((bloomOf p fnv bloom blocks).length + 1) 0 =
          some (filtersOf p fnv bloom blocks)) := by
    cases bloom with
    | false => left; simp [bloomOf, filtersOf]
    | true =>
      right
      have hfit' := hfit rfl
      simp only [bloomOf, filtersOf, if_true]
      have hge := bloomRecs_length_ge (blocks.map (filterRec p fnv))
      rw [List.length_map] at hge
      refine ⟨?_, ?_⟩
      · intro h; rw [h] at hge; simp at hge; omega
      · apply loadFilters_recs _ _ [] _ (by simp) (by rw [List.length_map]; omega)
        intro r hr
        obtain ⟨b, hb, rfl⟩ := List.mem_map.mp hr
        simp only [filterRec, bloomBytes_length]
        have := hoffs b hb
        exact ⟨by omega, by omega, by omega, filterOk_bloomBytes p hp hfit'.2.1 hfit'.2.2 fnv _⟩
  have hopen := openTable_shape p hp hash hh (dataOf blocks) (bloomOf p fnv bloom blocks) (indexOf p hash blocks)
    ts n ir (filtersOf p fnv bloom blocks) hts hn0 hn (by omega) (by omega) hsz hir hB
  unfold tableOf readerOf
  rw [hopen, hdec]
  congr 2
  cases bloom with
  | false => simp [bloomOf]
  | true =>
    simp only [bloomOf, if_true]
    have hge := bloomRecs_length_ge (blocks.map (filterRec p fnv))
    rw [List.length_map] at hge
    cases hb : bloomRecs (blocks.map (filterRec p fnv)) with
    | nil => rw [hb] at hge; simp at hge; omega
    | cons _ _ => rfl

theorem readerOf_blockOK (p : Params) (hash fnv : Bytes → Nat) (ts : Nat) (bloom : Bool) (bl : List (List BEntry)) (n : Nat)
    (hwf : ∀ b ∈ bl, ∀ e ∈ b, EWF e)
    (hsz : (tableOf p hash fnv ts bloom (layBlocks p hash bl 0) n).length < 2 ^ 32) :
    ∀ b ∈ layBlocks p hash bl 0,
      BlockOK p.ri hash (readerOf p hash fnv ts bloom (layBlocks p hash bl 0) n).file b := by
  intro b hb
  rw [tableOf_length] at hsz
  have hs := layBlocks_slice p hash bl 0 []
    (bloomOf p fnv bloom (layBlocks p hash bl 0) ++ (indexOf p hash (layBlocks p hash bl 0) ++
      footerBytes p hash ts ((dataOf (layBlocks p hash bl 0)).length + (bloomOf p fnv bloom (layBlocks p hash bl 0)).length)
        (indexOf p hash (layBlocks p hash bl 0)).length n
        (if (bloomOf p fnv bloom (layBlocks p hash bl 0)).isEmpty then 0 else (dataOf (layBlocks p hash bl 0)).length)
        (bloomOf p fnv bloom (layBlocks p hash bl 0)).length)) rfl b hb
  have hm := layBlocks_mem p hash bl 0 b hb
  refine ⟨by omega, by omega, Eq.trans ?_ hs.1, hm.1, hwf _ hm.2⟩
  congr 1
  simp [readerOf, tableOf]

theorem table_roundtrip_aux (p : Params) (hp : PWF p) (hash fnv : Bytes → Nat) (hh : HOK hash) (ts : Nat)
    (hts : ts < 2 ^ 64) (bloom : Bool) (hfit : BloomFits p bloom) (es : List BEntry) (hne : es ≠ [])
    (hwf : ∀ e ∈ es, EWF e) (hsz : (Table.encode p hash fnv ts bloom es).length < 2 ^ 32) :
    openTable p hash (Table.encode p hash fnv ts bloom es) =
      some (readerOf p hash fnv ts bloom (layBlocks p hash (cutBlocks p es [] 0) 0) es.length) ∧
    allEntries hash (readerOf p hash fnv ts bloom (layBlocks p hash (cutBlocks p es [] 0) 0) es.length) = some es := by
  rw [tencode_eq] at hsz ⊢
  have hflat : (cutBlocks p es [] 0).flatten = es := by rw [cutBlocks_flatten]; simp
  have hbl : cutBlocks p es [] 0 ≠ [] := by
    intro h; rw [h] at hflat; simp at hflat; exact hne hflat
  have hbne := cutBlocks_ne_nil p es [] 0
  have hbwf : ∀ b ∈ cutBlocks p es [] 0, ∀ e ∈ b, EWF e := by
    intro b hb e he
    apply hwf
    rw [← hflat]
    exact List.mem_flatten.mpr ⟨b, hb, he⟩
  have hn0 : 0 < es.length := List.length_pos_iff.mpr hne
  have hn : es.length < 2 ^ 32 := by
    have := layBlocks_data_ge p hash (cutBlocks p es [] 0) 0
    rw [hflat] at this
    rw [tableOf_length] at hsz
    omega
  refine ⟨openTable_tableOf p hp hash fnv hh ts hts bloom hfit _ _ hbl hbne hbwf hn0 hn hsz, ?_⟩
  have hok := readerOf_blockOK p hash fnv ts bloom (cutBlocks p es [] 0) es.length hbwf hsz
  have := allEntries_fold p.ri hash hh _ (layBlocks p hash (cutBlocks p es [] 0) 0) [] hok
  refine Eq.trans this ?_
  have h2 := layBlocks_ents p hash (cutBlocks p es [] 0) 0
  have h3 : (layBlocks p hash (cutBlocks p es [] 0) 0).flatMap (fun b => b.2.2) =
      ((layBlocks p hash (cutBlocks p es [] 0) 0).map (fun b => b.2.2)).flatten := by
    rw [List.flatMap_def]
  rw [h3, h2, hflat]
  simp

/-! ### the size limit of `loadFilters` is necessary: a written table with larger filters does not open -/

theorem openTable_tableOf_none (p : Params) (hp : PWF p) (hash fnv : Bytes → Nat) (hh : HOK hash) (ts : Nat)
    (hts : ts < 2 ^ 64) (hbig : 32 + (p.bloomBits + 7) / 8 > 64 * 1024 * 1024) (bl : List (List BEntry)) (n : Nat)
    (hbl : bl ≠ []) (hne : ∀ b ∈ bl, b ≠ []) (hwf : ∀ b ∈ bl, ∀ e ∈ b, EWF e) (hn0 : 0 < n) (hn : n < 2 ^ 32)
    (hsz : (tableOf p hash fnv ts true (layBlocks p hash bl 0) n).length < 2 ^ 32) :
    openTable p hash (tableOf p hash fnv ts true (layBlocks p hash bl 0) n) = none := by
  generalize hblocks : layBlocks p hash bl 0 = blocks at *
  rw [tableOf_length] at hsz
  have hents : blocks.map (fun b => b.2.2) = bl := by rw [← hblocks]; exact layBlocks_ents p hash bl 0
  have hblen : blocks.length = bl.length := by rw [← hents]; simp
  have hbpos : 0 < bl.length := List.length_pos_iff.mpr hbl
  have hDge : 12 * bl.length ≤ (dataOf blocks).length := by
    have := layBlocks_data_ge p hash bl 0
    rw [hblocks] at this; omega
  have hmem : ∀ b ∈ blocks, b.2.1 = Block.encode p.ri hash b.2.2 ∧ b.2.2 ∈ bl := by
    rw [← hblocks]; exact layBlocks_mem p hash bl 0
  have hoffs : ∀ b ∈ blocks, b.1 + b.2.1.length ≤ (dataOf blocks).length := by
    intro b hb
    rw [← hblocks] at hb ⊢
    have := (layBlocks_slice p hash bl 0 [] [] rfl b hb).2.2
    omega
  have hiwf : ∀ e ∈ blocks.map idxEntry, EWF e := by
    intro e he
    obtain ⟨b, hb, rfl⟩ := List.mem_map.mp he
    have := (hmem b hb).2
    exact idxEntry_wf b (hne _ this) (hwf _ this)
  obtain ⟨ir, hir, hdec⟩ := block_roundtrip_aux p.ri hash hh (blocks.map idxEntry) hiwf
    (by have : (indexOf p hash blocks).length < 2 ^ 32 := by omega
        exact this)
  have hIge : 12 ≤ (indexOf p hash blocks).length := by
    have := encode_length_ge p.ri hash (blocks.map idxEntry)
    unfold indexOf; omega
  have hge := bloomRecs_length_ge (blocks.map (filterRec p fnv))
  rw [List.length_map] at hge
  have hBne : bloomOf p fnv true blocks ≠ [] := by
    simp only [bloomOf, if_true]
    intro h; rw [h] at hge; simp at hge; omega
  have hload : loadFilters (bloomOf p fnv true blocks) ((bloomOf p fnv true blocks).length + 1) 0 = none := by
    cases hb : blocks with
    | nil => rw [hb] at hblen; simp at hblen; omega
    | cons b0 rest =>
      have hl := bloomBytes_length p fnv (b0.2.2.map (·.key))
      have hB32 : (bloomOf p fnv true blocks).length < 2 ^ 32 := by omega
      have hBeq : bloomOf p fnv true (b0 :: rest) =
          [] ++ bloomRec (b0.1, bloomBytes p fnv (b0.2.2.map (·.key))) ++ bloomRecs (rest.map (filterRec p fnv)) := by
        simp [bloomOf, bloomRecs, filterRec]
      rw [hb] at hB32
      have hfl : (bloomBytes p fnv (b0.2.2.map (·.key))).length < 2 ^ 32 := by
        rw [hBeq] at hB32
        simp only [List.nil_append, List.length_append, bloomRec, le_length] at hB32
        omega
      have h0 := hoffs b0 (by rw [hb]; simp)
      have := loadFilters_step (bloomOf p fnv true (b0 :: rest)) [] _ _ b0.1
        (bloomOf p fnv true (b0 :: rest)).length hBeq (by omega) (by omega) hfl
      rw [List.length_nil] at this
      rw [this, if_pos (by omega)]
  have hopen := openTable_shape_none p hp hash hh (dataOf blocks) (bloomOf p fnv true blocks) (indexOf p hash blocks)
    ts n ir hts hn0 hn (by omega) (by omega) hsz hir hBne hload
  unfold tableOf
  exact hopen

end Kevo.Proofs.TableAux
