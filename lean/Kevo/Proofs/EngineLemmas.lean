/-
  Kevo.Proofs.EngineLemmas — invariant of the logical storage engine model and its preservation by every
  primitive (helper lemmas for Kevo.Proofs.Engine).

  The history `hist` of a state is the list of all versions ever written, NEWEST FIRST.
-/
import Kevo.Model.Engine
import Kevo.Spec.Map
namespace Kevo.Proofs.Engine
open Kevo Kevo.Engine Kevo.Spec

/-! ### one memtable: insertSorted / findIn -/

theorem entryLt_key_ne {x e : MEntry} (h : entryLt x e = true) (hs : x.key = e.key → x.seq ≤ e.seq) :
    x.key ≠ e.key := by
  intro hk
  have h1 := hs hk
  unfold entryLt at h
  rw [hk, ltB_irrefl] at h
  simp at h
  omega

theorem filter_insertSorted (e : MEntry) (k : Bytes) : ∀ (L : List MEntry),
    (∀ x ∈ L, x.key = e.key → x.seq ≤ e.seq) →
    (insertSorted e L).filter (fun x => x.key == k) =
      if e.key = k then e :: L.filter (fun x => x.key == k) else L.filter (fun x => x.key == k) := by
  intro L
  induction L with
  | nil =>
    intro _
    by_cases hk : e.key = k <;> simp [insertSorted, hk]
  | cons x xs ih =>
    intro hs
    have ih' := ih (fun y hy => hs y (by simp [hy]))
    unfold insertSorted
    by_cases hlt : entryLt x e = true
    · have hne := entryLt_key_ne hlt (hs x (by simp))
      rw [if_pos hlt, List.filter_cons, ih']
      by_cases hk : e.key = k
      · have : (x.key == k) = false := by
          rw [← hk]; simpa using hne
        simp [hk, this]
      · by_cases hx : (x.key == k) = true
        · simp [hk, hx]
        · simp [hk, hx]
    · rw [if_neg hlt]
      by_cases hk : e.key = k
      · simp [hk]
      · simp [hk]

theorem foldl_best_some (b : MEntry) : ∀ (l : List MEntry), (∀ x ∈ l, x.seq ≤ b.seq) →
    l.foldl (fun best e => match best with
      | none => some e
      | some b => if e.seq > b.seq then some e else some b) (some b) = some b := by
  intro l
  induction l with
  | nil => intro _; rfl
  | cons x xs ih =>
    intro h
    have hx : ¬ x.seq > b.seq := by have := h x (by simp); omega
    simp only [List.foldl_cons, hx, if_false]
    exact ih (fun y hy => h y (by simp [hy]))

theorem findIn_eq_head (L : List MEntry) (k : Bytes)
    (hp : ((L.filter (fun e => e.key == k)).map (·.seq)).Pairwise (· ≥ ·)) :
    findIn L k = (L.filter (fun e => e.key == k)).head? := by
  unfold findIn
  generalize L.filter (fun e => e.key == k) = F at hp
  cases F with
  | nil => rfl
  | cons e rest =>
    simp only [List.foldl_cons, List.head?_cons]
    apply foldl_best_some
    intro x hx
    simp only [List.map_cons, List.pairwise_cons] at hp
    exact hp.1 x.seq (List.mem_map_of_mem hx)

/-! ### a stack of memtables searched in order -/

theorem tabsGet_eq (k : Bytes) : ∀ (ts : List MemTable),
    (((ts.flatMap (·.entries)).filter (fun e => e.key == k)).map (·.seq)).Pairwise (· ≥ ·) →
    ts.findSome? (fun m => m.get k) =
      (((ts.flatMap (·.entries)).filter (fun e => e.key == k)).head?).map (·.val) := by
  intro ts
  induction ts with
  | nil => intro _; rfl
  | cons m ms ih =>
    intro hp
    simp only [List.flatMap_cons, List.filter_append, List.map_append, List.pairwise_append] at hp
    obtain ⟨h1, h2, _⟩ := hp
    have ih' := ih h2
    simp only [List.findSome?_cons, List.flatMap_cons, List.filter_append]
    rw [ih']
    simp only [MemTable.get]
    rw [findIn_eq_head _ _ h1]
    cases hF : m.entries.filter (fun e => e.key == k) with
    | nil => simp
    | cons x xs => simp

def poolList (p : Pool) : List MEntry := (p.active :: p.immutables.reverse).flatMap (·.entries)

theorem Pool.get_eq (p : Pool) (k : Bytes) :
    p.get k = (p.active :: p.immutables.reverse).findSome? (fun m => m.get k) := by
  unfold Pool.get
  simp only [List.findSome?_cons]
  cases p.active.get k <;> rfl


/-! ### the pool against the history -/

/-- the pool holds exactly the history, key by key and in order (newest first) -/
def PInv (p : Pool) (hist : List MEntry) : Prop :=
  (∀ k, (poolList p).filter (fun e => e.key == k) = hist.filter (fun e => e.key == k)) ∧
  p.active.immutable = false

theorem mem_of_filter_eq {l₁ l₂ : List MEntry}
    (h : ∀ k, l₁.filter (fun e => e.key == k) = l₂.filter (fun e => e.key == k)) {x : MEntry} (hx : x ∈ l₁) :
    x ∈ l₂ := by
  have : x ∈ l₁.filter (fun e => e.key == x.key) := by simp [hx]
  rw [h] at this
  exact (List.mem_filter.mp this).1

theorem PInv.mem {p : Pool} {hist : List MEntry} (h : PInv p hist) {x : MEntry} (hx : x ∈ poolList p) : x ∈ hist :=
  mem_of_filter_eq h.1 hx

theorem mem_poolList_active {p : Pool} {x : MEntry} (hx : x ∈ p.active.entries) : x ∈ poolList p := by
  simp [poolList, hx]

theorem PInv.add {p : Pool} {hist : List MEntry} (cfg : Cfg) (h : PInv p hist) (e : MEntry)
    (hs : ∀ x ∈ hist, x.seq ≤ e.seq) : PInv (p.add cfg e) (e :: hist) := by
  obtain ⟨h1, h2⟩ := h
  have hins : ∀ x ∈ p.active.entries, x.key = e.key → x.seq ≤ e.seq :=
    fun x hx _ => hs x (PInv.mem ⟨h1, h2⟩ (mem_poolList_active hx))
  constructor
  · intro k
    have := filter_insertSorted e k p.active.entries hins
    have h1k := h1 k
    simp only [poolList, Pool.add, MemTable.add, h2, List.flatMap_cons, List.filter_append] at this h1k ⊢
    simp only [Bool.false_eq_true, if_false]
    rw [this, List.filter_cons]
    by_cases hk : e.key = k
    · simp [hk, ← h1k]
    · simp [hk, ← h1k]
  · simp [Pool.add, MemTable.add, h2]

/-- the version written by one element of a batch -/
def mkE (seq : Nat) (o : Bool × Bytes × Bytes) : MEntry :=
  { key := o.2.1, seq := seq, val := if o.1 then none else some o.2.2 }

def mkL (seq : Nat) (o : Bool × Bytes × Bytes) : LogEntry :=
  { op := if o.1 then 2 else 1, seq := seq, key := o.2.1, val := if o.1 then [] else o.2.2 }

theorem PInv.batch (cfg : Cfg) (seq : Nat) : ∀ (ops : List (Bool × Bytes × Bytes)) (p : Pool) (hist : List MEntry),
    PInv p hist → (∀ x ∈ hist, x.seq ≤ seq) →
    PInv (ops.foldl (fun p o => p.add cfg (mkE seq o)) p) ((ops.map (mkE seq)).reverse ++ hist) := by
  intro ops
  induction ops with
  | nil => intro p hist h _; simpa using h
  | cons o os ih =>
    intro p hist h hs
    have h' := PInv.add cfg h (mkE seq o) hs
    have := ih (p.add cfg (mkE seq o)) (mkE seq o :: hist) h' (by
      intro x hx
      rcases List.mem_cons.mp hx with rfl | hx
      · exact Nat.le_refl _
      · exact hs x hx)
    simpa using this

/-! ### the state invariant -/

def toM (e : LogEntry) : MEntry := { key := e.key, seq := e.seq, val := if e.op = 2 then none else some e.val }

structure EInv (s : St) (hist : List MEntry) : Prop where
  pool : PInv s.pool hist
  log : s.wal.flatten.map toM = hist.reverse
  logop : ∀ e ∈ s.wal.flatten, e.op = 1 ∨ e.op = 2
  sorted : (hist.map (·.seq)).Pairwise (· ≥ ·)
  bound : ∀ e ∈ hist, e.seq ≤ s.lastSeq
  last : s.lastSeq = 0 ∨ ∃ e ∈ hist, e.seq = s.lastSeq
  next : s.walNext = s.lastSeq + 1
  imm : ∀ m ∈ s.mgrImm, ∀ e ∈ m.entries, e ∈ hist
  sst : ∀ t ∈ s.ssts, ∀ e ∈ t.entries, e ∈ hist

theorem flatten_appendLog (wal : List (List LogEntry)) (es : List LogEntry) :
    (appendLog wal es).flatten = wal.flatten ++ es := by
  unfold appendLog
  split
  · rename_i h
    have : wal = [] := by simpa using h
    simp [this]
  · rename_i cur older h
    have : wal = older.reverse ++ [cur] := by
      have := congrArg List.reverse h
      simpa using this
    simp [this]

/-! ### flushing -/

theorem mem_newestPerKeyAux {e : MEntry} : ∀ (es : List MEntry) (prev : Option Bytes),
    e ∈ newestPerKeyAux prev es → e ∈ es := by
  intro es
  induction es with
  | nil => intro prev h; simp [newestPerKeyAux] at h
  | cons x xs ih =>
    intro prev h
    unfold newestPerKeyAux at h
    split at h
    · exact List.mem_cons_of_mem _ (ih _ h)
    · rcases List.mem_cons.mp h with rfl | h
      · simp
      · exact List.mem_cons_of_mem _ (ih _ h)

theorem mem_visible {m : MemTable} {e : MEntry} (h : e ∈ m.visible) : e ∈ m.entries := by
  unfold MemTable.visible at h
  split at h
  · exact h
  · exact (List.mem_filter.mp h).1

theorem flushOne_inv {s : St} {hist : List MEntry} (h : EInv s hist) (m : MemTable)
    (hm : ∀ e ∈ m.entries, e ∈ hist) : EInv (flushOne s m) hist := by
  unfold flushOne
  split
  · exact h
  · dsimp only
    split
    · exact ⟨h.pool, h.log, h.logop, h.sorted, h.bound, h.last, h.next, h.imm, h.sst⟩
    · refine ⟨h.pool, h.log, h.logop, h.sorted, h.bound, h.last, h.next, h.imm, ?_⟩
      intro t ht e he
      rcases List.mem_append.mp ht with ht | ht
      · exact h.sst t ht e he
      · simp only [List.mem_singleton] at ht
        subst ht
        exact hm e (mem_visible (mem_newestPerKeyAux _ _ he))

theorem flushOne_frame (s : St) (m : MemTable) :
    (flushOne s m).lastSeq = s.lastSeq ∧ (flushOne s m).walNext = s.walNext ∧ (flushOne s m).mgrImm = s.mgrImm := by
  unfold flushOne
  split
  · simp
  · dsimp only
    split <;> simp

theorem foldl_flushOne_inv {hist : List MEntry} : ∀ (ms : List MemTable) (s : St), EInv s hist →
    (∀ m ∈ ms, ∀ e ∈ m.entries, e ∈ hist) → EInv (ms.foldl flushOne s) hist := by
  intro ms
  induction ms with
  | nil => intro s h _; exact h
  | cons m ms ih =>
    intro s h hm
    exact ih _ (flushOne_inv h m (hm m (by simp))) (fun m' hm' => hm m' (by simp [hm']))

theorem foldl_flushOne_frame : ∀ (ms : List MemTable) (s : St),
    (ms.foldl flushOne s).lastSeq = s.lastSeq ∧ (ms.foldl flushOne s).walNext = s.walNext := by
  intro ms
  induction ms with
  | nil => intro s; simp
  | cons m ms ih =>
    intro s
    have := ih (flushOne s m)
    have := flushOne_frame s m
    simp only [List.foldl_cons]
    omega

theorem rotate_inv {s : St} {hist : List MEntry} (h : EInv s hist) : EInv (rotate s) hist := by
  have hfl : (rotate s).wal.flatten = s.wal.flatten := by simp [rotate]
  exact ⟨h.pool, by rw [hfl]; exact h.log, by rw [hfl]; exact h.logop, h.sorted, h.bound, h.last, h.next, h.imm, h.sst⟩

theorem flushMemTables_inv {s : St} {hist : List MEntry} (h : EInv s hist) : EInv (flushMemTables s) hist := by
  unfold flushMemTables
  split
  · split
    · exact flushOne_inv (rotate_inv h) _ (fun e he => h.pool.mem (mem_poolList_active he))
    · exact h
  · have h' := foldl_flushOne_inv s.mgrImm (rotate s) (rotate_inv h) h.imm
    exact ⟨h'.pool, h'.log, h'.logop, h'.sorted, h'.bound, h'.last, h'.next, by simp, h'.sst⟩

theorem flushMemTables_frame (s : St) :
    (flushMemTables s).lastSeq = s.lastSeq ∧ (flushMemTables s).walNext = s.walNext := by
  unfold flushMemTables
  split
  · split
    · have := flushOne_frame (rotate s) s.pool.active
      simp only [rotate] at this ⊢
      omega
    · simp
  · have := foldl_flushOne_frame s.mgrImm (rotate s)
    simp only [rotate] at this ⊢
    omega

theorem maybeFlush_inv {s : St} {hist : List MEntry} (h : EInv s hist) : EInv (maybeFlush s) hist := by
  unfold maybeFlush
  split
  · apply flushMemTables_inv
    refine ⟨?_, h.log, h.logop, h.sorted, h.bound, h.last, h.next, ?_, h.sst⟩
    · refine ⟨?_, rfl⟩
      intro k
      rw [← h.pool.1 k]
      simp [poolList]
    · intro m hm e he
      rcases List.mem_append.mp hm with hm | hm
      · exact h.imm m hm e he
      · simp only [List.mem_singleton] at hm
        subst hm
        exact h.pool.mem (mem_poolList_active he)
  · exact h

theorem maybeFlush_frame (s : St) :
    (maybeFlush s).lastSeq = s.lastSeq ∧ (maybeFlush s).walNext = s.walNext := by
  unfold maybeFlush
  split
  · exact flushMemTables_frame _
  · simp

/-! ### writes -/

theorem write_inv {s : St} {hist : List MEntry} (h : EInv s hist) (les : List LogEntry) (new : List MEntry)
    (pool' : Pool) (hne : new ≠ []) (hseq : ∀ e ∈ new, e.seq = s.walNext) (hlog : les.map toM = new.reverse)
    (hop : ∀ e ∈ les, e.op = 1 ∨ e.op = 2) (hp : PInv pool' (new ++ hist)) :
    EInv { s with wal := appendLog s.wal les, walNext := s.walNext + 1, pool := pool', lastSeq := s.walNext }
      (new ++ hist) := by
  have hnext := h.next
  refine ⟨hp, ?_, ?_, ?_, ?_, ?_, rfl, ?_, ?_⟩
  · simp only [flatten_appendLog, List.map_append, h.log, hlog, List.reverse_append]
  · intro e he
    simp only [flatten_appendLog] at he
    rcases List.mem_append.mp he with he | he
    · exact h.logop e he
    · exact hop e he
  · simp only [List.map_append, List.pairwise_append]
    refine ⟨?_, h.sorted, ?_⟩
    · rw [List.pairwise_map]
      apply List.Pairwise.imp_of_mem (R := fun _ _ => True)
      · intro a b ha hb _
        show a.seq ≥ b.seq
        rw [hseq a ha, hseq b hb]
        exact Nat.le_refl _
      · exact List.pairwise_of_forall (fun _ _ => trivial)
    · intro a ha b hb
      obtain ⟨x, hx, rfl⟩ := List.mem_map.mp ha
      obtain ⟨y, hy, rfl⟩ := List.mem_map.mp hb
      have := h.bound y hy
      have := hseq x hx
      show x.seq ≥ y.seq
      omega
  · intro e he
    rcases List.mem_append.mp he with he | he
    · have := hseq e he
      show e.seq ≤ s.walNext
      omega
    · have := h.bound e he
      show e.seq ≤ s.walNext
      omega
  · right
    cases new with
    | nil => exact absurd rfl hne
    | cons e rest => exact ⟨e, by simp, hseq e (by simp)⟩
  · intro m hm e he
    exact List.mem_append_right _ (h.imm m hm e he)
  · intro t ht e he
    exact List.mem_append_right _ (h.sst t ht e he)


theorem put_inv {s : St} {hist : List MEntry} (h : EInv s hist) (k v : Bytes) :
    EInv (put s k v) ({ key := k, seq := s.walNext, val := some v } :: hist) := by
  unfold put
  apply maybeFlush_inv
  have hb : ∀ x ∈ hist, x.seq ≤ s.walNext := fun x hx => by have := h.bound x hx; have := h.next; omega
  exact write_inv h [{ op := 1, seq := s.walNext, key := k, val := v }] [{ key := k, seq := s.walNext, val := some v }]
    _ (by simp) (by simp) (by simp [toM]) (by simp) (PInv.add s.cfg h.pool _ hb)

theorem delete_inv {s : St} {hist : List MEntry} (h : EInv s hist) (k : Bytes) :
    EInv (delete s k) ({ key := k, seq := s.walNext, val := none } :: hist) := by
  unfold delete
  apply maybeFlush_inv
  have hb : ∀ x ∈ hist, x.seq ≤ s.walNext := fun x hx => by have := h.bound x hx; have := h.next; omega
  exact write_inv h [{ op := 2, seq := s.walNext, key := k, val := [] }] [{ key := k, seq := s.walNext, val := none }]
    _ (by simp) (by simp) (by simp [toM]) (by simp) (PInv.add s.cfg h.pool _ hb)

theorem batch_eq (s : St) (ops : List (Bool × Bytes × Bytes)) (hne : ops ≠ []) :
    batch s ops = maybeFlush
      { s with wal := appendLog s.wal (ops.map (mkL s.walNext))
               walNext := s.walNext + 1
               pool := ops.foldl (fun p o => p.add s.cfg (mkE s.walNext o)) s.pool
               lastSeq := s.walNext } := by
  unfold batch
  have : ops.isEmpty = false := by cases ops <;> simp_all
  simp only [this]
  rfl

theorem batch_inv {s : St} {hist : List MEntry} (h : EInv s hist) (ops : List (Bool × Bytes × Bytes)) :
    EInv (batch s ops) ((ops.map (mkE s.walNext)).reverse ++ hist) := by
  by_cases hne : ops = []
  · subst hne
    simp only [batch, List.isEmpty_nil, if_true, List.map_nil, List.reverse_nil, List.nil_append]
    exact maybeFlush_inv h
  · rw [batch_eq s ops hne]
    apply maybeFlush_inv
    have hb : ∀ x ∈ hist, x.seq ≤ s.walNext := fun x hx => by have := h.bound x hx; have := h.next; omega
    refine write_inv h _ _ _ (by simpa using hne) ?_ ?_ ?_ (PInv.batch s.cfg s.walNext ops s.pool hist h.pool hb)
    · intro e he
      simp only [List.mem_reverse, List.mem_map] at he
      obtain ⟨o, _, rfl⟩ := he
      rfl
    · simp only [List.map_map, List.reverse_reverse]
      apply List.map_congr_left
      intro o _
      rcases o with ⟨d, k, v⟩
      cases d <;> simp [mkL, mkE, toM]
    · intro e he
      simp only [List.mem_map] at he
      obtain ⟨o, _, rfl⟩ := he
      rcases o with ⟨d, k, v⟩
      cases d <;> simp [mkL]


/-! ### reopen -/

def recStep (cfg : Cfg) (acc : List MemTable × MemTable × Nat) (e : LogEntry) : List MemTable × MemTable × Nat :=
  let (done, cur, mx) := acc
  let mx := max mx e.seq
  let (done, cur) := if cur.size ≥ cfg.memTableSize then (done ++ [{ cur with immutable := true }], ({} : MemTable)) else (done, cur)
  let me : MEntry := { key := e.key, seq := e.seq, val := if e.op = 2 then none else some e.val }
  (done, if e.op = 1 || e.op = 2 then cur.add me else cur, mx)

theorem recoverTables_eq (cfg : Cfg) (es : List LogEntry) :
    recoverTables cfg es =
      ((es.foldl (recStep cfg) ([], {}, 0)).1 ++ [(es.foldl (recStep cfg) ([], {}, 0)).2.1],
       (es.foldl (recStep cfg) ([], {}, 0)).2.2) := rfl

/-- invariant of the replay loop after the prefix `pre` of the log -/
structure RInv (pre : List LogEntry) (acc : List MemTable × MemTable × Nat) : Prop where
  filt : ∀ k, (((acc.2.1 :: acc.1.reverse).flatMap (·.entries)).filter (fun e => e.key == k)) =
      ((pre.map toM).reverse).filter (fun e => e.key == k)
  act : acc.2.1.immutable = false
  szc : acc.2.1.size = 0 → acc.2.1.entries = []
  szd : ∀ t ∈ acc.1, t.size = 0 → t.entries = []
  mxb : ∀ e ∈ pre, e.seq ≤ acc.2.2
  mxl : acc.2.2 = 0 ∨ ∃ e ∈ pre, e.seq = acc.2.2

theorem entry_size_pos (e : MEntry) : 0 < e.size := by unfold MEntry.size; omega

theorem recStep_inv (cfg : Cfg) {pre : List LogEntry} {acc : List MemTable × MemTable × Nat} (h : RInv pre acc)
    (e : LogEntry) (hs : ∀ x ∈ pre, x.seq ≤ e.seq) (hop : e.op = 1 ∨ e.op = 2) :
    RInv (pre ++ [e]) (recStep cfg acc e) := by
  obtain ⟨done, cur, mx⟩ := acc
  obtain ⟨filt, act, szc, szd, mxb, mxl⟩ := h
  simp only at filt act szc szd mxb mxl
  have hop' : (e.op = 1 || e.op = 2) = true := by simpa using hop
  have hmx1 : ∀ x ∈ pre ++ [e], x.seq ≤ max mx e.seq := by
    intro x hx
    rcases List.mem_append.mp hx with hx | hx
    · have := mxb x hx; omega
    · simp only [List.mem_singleton] at hx; subst hx; omega
  have hmx2 : max mx e.seq = 0 ∨ ∃ x ∈ pre ++ [e], x.seq = max mx e.seq := by
    by_cases hle : e.seq ≤ mx
    · rcases mxl with h0 | ⟨x, hx, hxe⟩
      · left; omega
      · right; exact ⟨x, by simp [hx], by omega⟩
    · right; exact ⟨e, by simp, by omega⟩
  have htoM : ({ key := e.key, seq := e.seq, val := if e.op = 2 then none else some e.val } : MEntry) = toM e := rfl
  by_cases hsz : cur.size ≥ cfg.memTableSize
  · simp only [recStep, hsz, if_true, hop', htoM]
    refine ⟨?_, ?_, ?_, ?_, hmx1, hmx2⟩
    · intro k
      have := filt k
      simp only [List.flatMap_cons, List.filter_append] at this
      simp [MemTable.add, List.filter_cons, this, insertSorted]
    · simp [MemTable.add]
    · intro h0
      have := entry_size_pos (toM e)
      simp [MemTable.add] at h0
      omega
    · intro t ht
      rcases List.mem_append.mp ht with ht | ht
      · exact szd t ht
      · simp only [List.mem_singleton] at ht
        subst ht
        exact szc
  · simp only [recStep, hsz, if_false, hop', htoM, if_true]
    have hins : ∀ x ∈ cur.entries, x.key = (toM e).key → x.seq ≤ (toM e).seq := by
      intro x hx _
      have hx' : x ∈ (cur :: done.reverse).flatMap (·.entries) := by simp [hx]
      have := mem_of_filter_eq filt hx'
      simp only [List.mem_reverse, List.mem_map] at this
      obtain ⟨y, hy, rfl⟩ := this
      exact hs y hy
    refine ⟨?_, ?_, ?_, szd, hmx1, hmx2⟩
    · intro k
      have h1 := filt k
      have h2 := filter_insertSorted (toM e) k cur.entries hins
      simp only [List.flatMap_cons, List.filter_append] at h1
      simp only [MemTable.add, act, Bool.false_eq_true, if_false, List.flatMap_cons, List.filter_append,
        List.map_append, List.reverse_append, List.map_cons, List.map_nil, List.reverse_cons, List.reverse_nil,
        List.nil_append, List.singleton_append, List.filter_cons]
      rw [h2]
      by_cases hk : (toM e).key = k
      · simp [hk, ← h1]
      · simp [hk, ← h1]
    · simp [MemTable.add, act]
    · intro h0
      have := entry_size_pos (toM e)
      simp [MemTable.add, act] at h0
      omega

theorem foldl_recStep_inv (cfg : Cfg) : ∀ (es pre : List LogEntry) (acc : List MemTable × MemTable × Nat),
    RInv pre acc → (∀ x ∈ pre, ∀ y ∈ es, x.seq ≤ y.seq) → (es.map (·.seq)).Pairwise (· ≤ ·) →
    (∀ e ∈ es, e.op = 1 ∨ e.op = 2) → RInv (pre ++ es) (es.foldl (recStep cfg) acc) := by
  intro es
  induction es with
  | nil => intro pre acc h _ _ _; simpa using h
  | cons e es ih =>
    intro pre acc h hx hp hop
    simp only [List.map_cons, List.pairwise_cons] at hp
    have h1 := recStep_inv cfg h e (fun x hx' => hx x hx' e (by simp)) (hop e (by simp))
    have := ih (pre ++ [e]) (recStep cfg acc e) h1 (by
      intro x hx' y hy
      rcases List.mem_append.mp hx' with hx' | hx'
      · exact hx x hx' y (by simp [hy])
      · simp only [List.mem_singleton] at hx'
        subst hx'
        exact hp.1 y.seq (List.mem_map_of_mem hy)) hp.2 (fun e' he' => hop e' (by simp [he']))
    simpa using this

def poolStep (p : Pool) (t : MemTable) : Pool :=
  if p.active.size > 0 then { p with active := t, immutables := p.immutables ++ [{ p.active with immutable := true }] }
  else { p with active := t }

theorem poolList_poolStep (p : Pool) (t : MemTable) (h : p.active.size = 0 → p.active.entries = []) :
    poolList (poolStep p t) = t.entries ++ poolList p := by
  unfold poolStep
  split
  · simp [poolList]
  · have : p.active.entries = [] := h (by omega)
    simp [poolList, this]

theorem poolList_foldl_poolStep : ∀ (ts : List MemTable) (p : Pool), (p.active.size = 0 → p.active.entries = []) →
    (∀ t ∈ ts, t.size = 0 → t.entries = []) →
    poolList (ts.foldl poolStep p) = ts.reverse.flatMap (·.entries) ++ poolList p := by
  intro ts
  induction ts with
  | nil => intro p _ _; simp
  | cons t ts ih =>
    intro p hp hts
    have hact : (poolStep p t).active = t := by unfold poolStep; split <;> rfl
    rw [List.foldl_cons, ih (poolStep p t) (by rw [hact]; exact hts t (by simp)) (fun t' ht' => hts t' (by simp [ht'])),
      poolList_poolStep p t hp]
    simp

theorem active_foldl_poolStep (ts : List MemTable) (c : MemTable) (p : Pool) :
    ((ts ++ [c]).foldl poolStep p).active = c := by
  rw [List.foldl_append]
  simp only [List.foldl_cons, List.foldl_nil]
  unfold poolStep; split <;> rfl

theorem mem_insertSST {t t' : SST} : ∀ (l : List SST), t' ∈ insertSST t l → t' = t ∨ t' ∈ l := by
  intro l
  induction l with
  | nil => intro h; simpa [insertSST] using h
  | cons x xs ih =>
    intro h
    unfold insertSST at h
    split at h
    · rcases List.mem_cons.mp h with rfl | h
      · simp
      · rcases ih h with rfl | h
        · simp
        · right; simp [h]
    · rcases List.mem_cons.mp h with rfl | h
      · simp
      · right; exact h

theorem mem_sortSSTs_aux {t' : SST} : ∀ (ts acc : List SST), t' ∈ ts.foldl (fun acc t => insertSST t acc) acc →
    t' ∈ ts ∨ t' ∈ acc := by
  intro ts
  induction ts with
  | nil => intro acc h; right; exact h
  | cons t ts ih =>
    intro acc h
    rcases ih _ h with h | h
    · left; simp [h]
    · rcases mem_insertSST _ h with rfl | h
      · left; simp
      · right; exact h

theorem mem_sortSSTs {t' : SST} {ts : List SST} (h : t' ∈ sortSSTs ts) : t' ∈ ts := by
  rcases mem_sortSSTs_aux ts [] h with h | h
  · exact h
  · simp at h

theorem reopen_eq (s : St) :
    reopen s =
      let r := s.wal.flatten.foldl (recStep s.cfg) ([], {}, 0)
      { cfg := s.cfg, wal := s.wal, walNext := if r.2.2 > 0 then max 1 (r.2.2 + 1) else 1,
        pool := (r.1 ++ [r.2.1]).foldl poolStep {},
        mgrImm := (r.1 ++ [r.2.1]).dropLast.map (fun t => { t with immutable := true }),
        ssts := sortSSTs s.ssts,
        nextFileNum := (sortSSTs s.ssts).foldl (fun n t => if t.fileNum ≥ n then t.fileNum + 1 else n) 1,
        lastSeq := r.2.2, clock := s.clock } := rfl

theorem reopen_inv {s : St} {hist : List MEntry} (h : EInv s hist) : EInv (reopen s) hist ∧
    (reopen s).lastSeq = s.lastSeq ∧ (reopen s).walNext = s.walNext := by
  rw [reopen_eq]
  have hsorted : (s.wal.flatten.map (·.seq)).Pairwise (· ≤ ·) := by
    have : s.wal.flatten.map (·.seq) = (hist.map (·.seq)).reverse := by
      rw [← List.map_reverse, ← h.log, List.map_map]; rfl
    rw [this, List.pairwise_reverse]
    exact h.sorted
  have h0 : RInv [] (([] : List MemTable), ({} : MemTable), 0) :=
    ⟨by intro k; simp, rfl, fun _ => rfl, by simp, by simp, Or.inl rfl⟩
  have hr := foldl_recStep_inv s.cfg s.wal.flatten [] _ h0 (by simp) hsorted h.logop
  simp only [List.nil_append] at hr
  generalize s.wal.flatten.foldl (recStep s.cfg) ([], {}, 0) = r at hr
  obtain ⟨done, cur, mx⟩ := r
  obtain ⟨filt, act, szc, szd, mxb, mxl⟩ := hr
  simp only at filt act szc szd mxb mxl
  rw [h.log, List.reverse_reverse] at filt
  have hmem : ∀ e, e ∈ hist ↔ ∃ l ∈ s.wal.flatten, toM l = e := by
    intro e
    rw [← List.mem_reverse, ← h.log, List.mem_map]
  have hmx : mx = s.lastSeq := by
    apply Nat.le_antisymm
    · rcases mxl with h0 | ⟨l, hl, hle⟩
      · omega
      · have := h.bound (toM l) ((hmem _).mpr ⟨l, hl, rfl⟩)
        rw [← hle]; exact this
    · rcases h.last with h0 | ⟨e, he, hee⟩
      · omega
      · obtain ⟨l, hl, rfl⟩ := (hmem e).mp he
        rw [← hee]; exact mxb l hl
  have hpl : poolList ((done ++ [cur]).foldl poolStep {}) = (cur :: done.reverse).flatMap (·.entries) := by
    rw [poolList_foldl_poolStep _ _ (fun _ => rfl)]
    · simp [poolList]
    · intro t ht
      rcases List.mem_append.mp ht with ht | ht
      · exact szd t ht
      · simp only [List.mem_singleton] at ht; subst ht; exact szc
  have hnext := h.next
  refine ⟨⟨⟨?_, ?_⟩, h.log, h.logop, h.sorted, ?_, ?_, ?_, ?_, ?_⟩, hmx, ?_⟩
  · intro k
    simp only [hpl]
    exact filt k
  · simp only [active_foldl_poolStep]
    exact act
  · simpa only [hmx] using h.bound
  · simpa only [hmx] using h.last
  · simp only [hmx]
    split <;> omega
  · intro m hm e he
    simp only [List.dropLast_concat, List.mem_map] at hm
    obtain ⟨t, ht, rfl⟩ := hm
    apply mem_of_filter_eq filt (l₁ := (cur :: done.reverse).flatMap (·.entries))
    simp only [List.flatMap_cons, List.mem_append, List.mem_flatMap, List.mem_reverse]
    exact Or.inr ⟨t, ht, he⟩
  · intro t ht e he
    exact h.sst t (mem_sortSSTs ht) e he
  · simp only [hmx]
    split <;> omega


theorem reopenFresh_inv {s : St} {hist : List MEntry} (h : EInv s hist) : EInv (reopenFresh s) hist ∧
    (reopenFresh s).lastSeq = s.lastSeq ∧ (reopenFresh s).walNext = s.walNext := by
  obtain ⟨hi, h1, h2⟩ := reopen_inv h
  unfold reopenFresh
  split
  · exact ⟨hi, h1, h2⟩
  · refine ⟨?_, h1, h2⟩
    have hfl : ((reopen s).wal ++ [[]]).flatten = (reopen s).wal.flatten := by simp
    obtain ⟨a, b, c, d, e, f, g, i, j⟩ := hi
    exact ⟨a, by simp only [hfl]; exact b, by simp only [hfl]; exact c, d, e, f, g, i, j⟩

theorem reopenC_inv {s : St} {hist : List MEntry} (h : EInv s hist) : EInv (reopenC s) hist ∧
    (reopenC s).lastSeq = s.lastSeq ∧ (reopenC s).walNext = s.walNext := by
  unfold reopenC
  split
  · exact reopenFresh_inv h
  · exact reopen_inv h


/-! ### the abstract map of a history, and what `get` returns -/

def absOf (hist : List MEntry) : KVMap := fun k => (hist.find? (fun e => e.key == k)).bind (·.val)

theorem absOf_nil : absOf [] = emptyMap := rfl

theorem absOf_cons (e : MEntry) (hist : List MEntry) : absOf (e :: hist) = (absOf hist).set e.key e.val := by
  funext x
  unfold absOf KVMap.set
  by_cases hx : x = e.key
  · simp [hx]
  · have : (e.key == x) = false := by simpa using fun h => hx h.symm
    simp [this, hx]

theorem absOf_batch (seq : Nat) : ∀ (ops : List (Bool × Bytes × Bytes)) (hist : List MEntry),
    absOf ((ops.map (mkE seq)).reverse ++ hist) = applyBatch (absOf hist) ops := by
  intro ops
  induction ops with
  | nil => intro hist; rfl
  | cons o os ih =>
    intro hist
    have := ih (mkE seq o :: hist)
    rw [absOf_cons] at this
    rcases o with ⟨d, k, v⟩
    simp only [List.map_cons, List.reverse_cons, List.append_assoc, List.singleton_append, applyBatch, List.foldl_cons]
    exact this

theorem get_eq {s : St} {hist : List MEntry} (h : EInv s hist) (k : Bytes) : get s k = absOf hist k := by
  have hp : (((poolList s.pool).filter (fun e => e.key == k)).map (·.seq)).Pairwise (· ≥ ·) := by
    rw [h.pool.1 k]
    exact (h.sorted.sublist (List.Sublist.map _ List.filter_sublist))
  have hpg : s.pool.get k = (hist.find? (fun e => e.key == k)).map (·.val) := by
    rw [Pool.get_eq, tabsGet_eq k _ hp]
    show (((poolList s.pool).filter (fun e => e.key == k)).head?).map (·.val) = _
    rw [h.pool.1 k, List.head?_filter]
  unfold Engine.get absOf
  rw [hpg]
  cases hf : hist.find? (fun e => e.key == k) with
  | some e => simp
  | none =>
    have hnone : s.ssts.reverse.findSome? (fun t => t.get k) = none := by
      rw [List.findSome?_eq_none_iff]
      intro t ht
      simp only [List.mem_reverse] at ht
      unfold SST.get
      cases hft : t.entries.find? (fun e => e.key == k) with
      | none => rfl
      | some e =>
        exfalso
        have hmem := h.sst t ht e (List.mem_of_find?_eq_some hft)
        have hkey := List.find?_some hft
        rw [List.find?_eq_none] at hf
        exact hf e hmem hkey
    simp [hnone]

end Kevo.Proofs.Engine
