/-
  Kevo.Proofs.CrashCut — combinatorics of cutting log files at flushed lengths (helper file for Proofs/Crash).
-/
import Kevo.Model.Crash
import Kevo.Proofs.CrashTrunc
namespace Kevo.Proofs.CrashAux
open Kevo Kevo.Wal Kevo.Crash Kevo.Spec Kevo.Proofs.Wal
open Kevo.Engine (LogEntry)

/-! ### wholeB -/

theorem wholeB_zero (p : WalParams) (crc : Bytes → Nat) (es : List Entry) : wholeB p crc 0 es = [] := by
  cases es with
  | nil => rfl
  | cons e es =>
    have := encodeEntry_length_ge p crc e
    simp only [wholeB]
    rw [if_neg (by omega)]

theorem wholeB_append_ge (p : WalParams) (crc : Bytes → Nat) : ∀ (es es' : List Entry) (n : Nat),
    (encFile p crc es).length ≤ n →
    wholeB p crc n (es ++ es') = es ++ wholeB p crc (n - (encFile p crc es).length) es' := by
  intro es
  induction es with
  | nil => intro es' n _; simp [encFile_nil]
  | cons e es ih =>
    intro es' n h
    rw [encFile_cons, List.length_append] at h ⊢
    simp only [List.cons_append, wholeB]
    rw [if_pos (by omega), ih es' _ (by omega)]
    congr 3
    omega

theorem wholeB_full (p : WalParams) (crc : Bytes → Nat) (es : List Entry) :
    wholeB p crc (encFile p crc es).length es = es := by
  have := wholeB_append_ge p crc es [] _ (Nat.le_refl _)
  simpa [wholeB] using this

theorem wholeB_append_le (p : WalParams) (crc : Bytes → Nat) : ∀ (es es' : List Entry) (n : Nat),
    n ≤ (encFile p crc es).length → wholeB p crc n (es ++ es') = wholeB p crc n es := by
  intro es
  induction es with
  | nil =>
    intro es' n h
    have : n = 0 := by simpa [encFile_nil] using h
    subst this
    simp [wholeB_zero, wholeB]
  | cons e es ih =>
    intro es' n h
    rw [encFile_cons, List.length_append] at h
    simp only [List.cons_append, wholeB]
    by_cases hl : (encodeEntry p crc e).length ≤ n
    · rw [if_pos hl, if_pos hl, ih es' _ (by omega)]
    · rw [if_neg hl, if_neg hl]

/-! ### files of engine log entries -/

def encL (p : WalParams) (crc : Bytes → Nat) (es : List LogEntry) : Bytes := encFile p crc (es.map toWal)

theorem encL_nil (p : WalParams) (crc : Bytes → Nat) : encL p crc [] = [] := rfl

theorem encL_append (p : WalParams) (crc : Bytes → Nat) (es es' : List LogEntry) :
    encL p crc (es ++ es') = encL p crc es ++ encL p crc es' := by
  simp [encL, encFile_append]

theorem encL_singleton (p : WalParams) (crc : Bytes → Nat) (e : LogEntry) :
    encL p crc [e] = encodeEntry p crc (toWal e) := by
  simp [encL, encFile]

/-- the entries recovered from the files `L` cut at the lengths `fl` (files beyond `fl` do not exist) -/
def cutList (p : WalParams) (crc : Bytes → Nat) (L : List (List LogEntry)) (fl : List Nat) : List Entry :=
  (L.zip fl).flatMap (fun x => wholeB p crc x.2 (x.1.map toWal))

/-- the cut recovers exactly the entries numbered at most `s` -/
def Good (p : WalParams) (crc : Bytes → Nat) (L : List (List LogEntry)) (fl : List Nat) (s : Nat) : Prop :=
  cutList p crc L fl = (L.flatten.filter (fun e => e.seq ≤ s)).map toWal

/-- no cut exceeds its file -/
def Fits (p : WalParams) (crc : Bytes → Nat) (L : List (List LogEntry)) (fl : List Nat) : Prop :=
  ∀ x ∈ L.zip fl, x.2 ≤ (encL p crc x.1).length

theorem cutList_nil_right (p : WalParams) (crc : Bytes → Nat) (L : List (List LogEntry)) : cutList p crc L [] = [] := by
  simp [cutList]

theorem cutList_cons (p : WalParams) (crc : Bytes → Nat) (a : List LogEntry) (L : List (List LogEntry)) (n : Nat) (fl : List Nat) :
    cutList p crc (a :: L) (n :: fl) = wholeB p crc n (a.map toWal) ++ cutList p crc L fl := by
  simp [cutList]

theorem fits_cons (p : WalParams) (crc : Bytes → Nat) (a : List LogEntry) (L : List (List LogEntry)) (n : Nat) (fl : List Nat) :
    Fits p crc (a :: L) (n :: fl) ↔ n ≤ (encL p crc a).length ∧ Fits p crc L fl := by
  simp [Fits]

/-- stability: appending entries to the last file does not change what an earlier cut recovers -/
theorem cutList_ext (p : WalParams) (crc : Bytes → Nat) (last new : List LogEntry) :
    ∀ (L0 : List (List LogEntry)) (fl : List Nat), Fits p crc (L0 ++ [last]) fl →
      cutList p crc (L0 ++ [last ++ new]) fl = cutList p crc (L0 ++ [last]) fl := by
  intro L0
  induction L0 with
  | nil =>
    intro fl h
    cases fl with
    | nil => simp [cutList]
    | cons n fl =>
      simp only [List.nil_append, cutList_cons] at h ⊢
      rw [fits_cons] at h
      rw [List.map_append, wholeB_append_le p crc _ _ _ h.1]
  | cons a L0 ih =>
    intro fl h
    cases fl with
    | nil => simp [cutList]
    | cons n fl =>
      simp only [List.cons_append, cutList_cons]
      rw [List.cons_append, fits_cons] at h
      rw [ih fl h.2]

theorem fits_ext (p : WalParams) (crc : Bytes → Nat) (last new : List LogEntry) :
    ∀ (L0 : List (List LogEntry)) (fl : List Nat), Fits p crc (L0 ++ [last]) fl → Fits p crc (L0 ++ [last ++ new]) fl := by
  intro L0
  induction L0 with
  | nil =>
    intro fl h
    cases fl with
    | nil => simp [Fits]
    | cons n fl =>
      simp only [List.nil_append] at h ⊢
      rw [fits_cons] at h ⊢
      refine ⟨?_, by simp [Fits]⟩
      rw [encL_append, List.length_append]; omega
  | cons a L0 ih =>
    intro fl h
    cases fl with
    | nil => simp [Fits]
    | cons n fl =>
      simp only [List.cons_append] at h ⊢
      rw [fits_cons] at h ⊢
      exact ⟨h.1, ih fl h.2⟩

theorem good_ext (p : WalParams) (crc : Bytes → Nat) (L0 : List (List LogEntry)) (last new : List LogEntry)
    (fl : List Nat) (s : Nat) (hf : Fits p crc (L0 ++ [last]) fl) (hg : Good p crc (L0 ++ [last]) fl s)
    (hnew : ∀ e ∈ new, s < e.seq) : Good p crc (L0 ++ [last ++ new]) fl s := by
  unfold Good at hg ⊢
  rw [cutList_ext p crc last new L0 fl hf, hg]
  have : new.filter (fun e => decide (e.seq ≤ s)) = [] := by
    rw [List.filter_eq_nil_iff]
    intro e he
    have := hnew e he
    simp only [decide_eq_true_eq]; omega
  simp [List.filter_append, this]

/-- a new empty file changes nothing -/
theorem cutList_newfile (p : WalParams) (crc : Bytes → Nat) :
    ∀ (L : List (List LogEntry)) (fl : List Nat), cutList p crc (L ++ [[]]) fl = cutList p crc L fl := by
  intro L
  induction L with
  | nil =>
    intro fl
    cases fl with
    | nil => simp [cutList]
    | cons n fl => simp [cutList, wholeB]
  | cons a L ih =>
    intro fl
    cases fl with
    | nil => simp [cutList]
    | cons n fl =>
      simp only [List.cons_append, cutList_cons, ih]

theorem cutList_snoc_cut (p : WalParams) (crc : Bytes → Nat) :
    ∀ (L : List (List LogEntry)) (fl : List Nat) (x : List Nat), fl.length = L.length →
      cutList p crc L (fl ++ x) = cutList p crc L fl := by
  intro L
  induction L with
  | nil => intro fl x _; simp [cutList]
  | cons a L ih =>
    intro fl x h
    cases fl with
    | nil => simp at h
    | cons n fl =>
      simp only [List.cons_append, cutList_cons]
      rw [ih fl x (by simpa using h)]

theorem fits_newfile (p : WalParams) (crc : Bytes → Nat) :
    ∀ (L : List (List LogEntry)) (fl : List Nat), fl.length ≤ L.length → Fits p crc L fl → Fits p crc (L ++ [[]]) fl := by
  intro L
  induction L with
  | nil =>
    intro fl h _
    cases fl with
    | nil => simp [Fits]
    | cons n fl => simp at h
  | cons a L ih =>
    intro fl h hf
    cases fl with
    | nil => simp [Fits]
    | cons n fl =>
      simp only [List.cons_append] at hf ⊢
      rw [fits_cons] at hf ⊢
      exact ⟨hf.1, ih fl (by simpa using h) hf.2⟩

theorem fits_snoc_zero (p : WalParams) (crc : Bytes → Nat) :
    ∀ (L : List (List LogEntry)) (fl : List Nat), fl.length = L.length → Fits p crc L fl →
      Fits p crc (L ++ [[]]) (fl ++ [0]) := by
  intro L
  induction L with
  | nil =>
    intro fl h _
    cases fl with
    | nil => simp [Fits]
    | cons n fl => simp at h
  | cons a L ih =>
    intro fl h hf
    cases fl with
    | nil => simp at h
    | cons n fl =>
      simp only [List.cons_append] at hf ⊢
      rw [fits_cons] at hf ⊢
      exact ⟨hf.1, ih fl (by simpa using h) hf.2⟩

theorem good_newfile (p : WalParams) (crc : Bytes → Nat) (L : List (List LogEntry)) (fl : List Nat) (s : Nat)
    (hg : Good p crc L fl s) : Good p crc (L ++ [[]]) fl s := by
  unfold Good at hg ⊢
  rw [cutList_newfile, hg]
  simp

theorem good_snoc_zero (p : WalParams) (crc : Bytes → Nat) (L : List (List LogEntry)) (fl : List Nat) (s : Nat)
    (hl : fl.length = L.length) (hg : Good p crc L fl s) : Good p crc (L ++ [[]]) (fl ++ [0]) s := by
  unfold Good at hg ⊢
  rw [cutList_newfile, cutList_snoc_cut p crc L fl [0] hl, hg]
  simp

/-! ### the cut vector of a state whose earlier files are completely flushed -/

def fullVec (p : WalParams) (crc : Bytes → Nat) (L0 : List (List LogEntry)) : List Nat :=
  L0.map (fun es => (encL p crc es).length)

theorem cutList_fullVec (p : WalParams) (crc : Bytes → Nat) (last : List LogEntry) (n : Nat) :
    ∀ (L0 : List (List LogEntry)),
      cutList p crc (L0 ++ [last]) (fullVec p crc L0 ++ [n]) = L0.flatten.map toWal ++ wholeB p crc n (last.map toWal) := by
  intro L0
  induction L0 with
  | nil => simp [cutList, fullVec]
  | cons a L0 ih =>
    simp only [fullVec, List.map_cons, List.cons_append, cutList_cons] at ih ⊢
    rw [ih]
    simp only [encL, wholeB_full]
    simp

theorem fits_fullVec (p : WalParams) (crc : Bytes → Nat) (last : List LogEntry) (n : Nat) (hn : n ≤ (encL p crc last).length) :
    ∀ (L0 : List (List LogEntry)), Fits p crc (L0 ++ [last]) (fullVec p crc L0 ++ [n]) := by
  intro L0
  induction L0 with
  | nil => simp [Fits, fullVec, hn]
  | cons a L0 ih =>
    simp only [fullVec, List.map_cons, List.cons_append] at ih ⊢
    rw [fits_cons]
    exact ⟨Nat.le_refl _, ih⟩

theorem filter_all {α} (q : α → Bool) (l : List α) (h : ∀ x ∈ l, q x = true) : l.filter q = l :=
  List.filter_eq_self.mpr h

/-- everything flushed: all entries are recovered -/
theorem good_full (p : WalParams) (crc : Bytes → Nat) (L0 : List (List LogEntry)) (last : List LogEntry) (s : Nat)
    (hs : ∀ es ∈ L0 ++ [last], ∀ e ∈ es, e.seq ≤ s) :
    Good p crc (L0 ++ [last]) (fullVec p crc L0 ++ [(encL p crc last).length]) s := by
  unfold Good
  rw [cutList_fullVec, encL, wholeB_full, filter_all]
  · simp
  · intro e he
    simp only [List.mem_flatten] at he
    obtain ⟨es, hes, he⟩ := he
    simpa using hs es hes e he

/-- the torn tail of a single write: everything before it is recovered, the entry itself is not -/
theorem good_torn (p : WalParams) (crc : Bytes → Nat) (L0 : List (List LogEntry)) (last : List LogEntry) (e : LogEntry)
    (n s : Nat) (h1 : (encL p crc last).length ≤ n) (h2 : n < (encL p crc (last ++ [e])).length)
    (hs : ∀ es ∈ L0 ++ [last], ∀ e ∈ es, e.seq ≤ s) (he : s < e.seq) :
    Good p crc (L0 ++ [last ++ [e]]) (fullVec p crc L0 ++ [n]) s := by
  unfold Good
  rw [cutList_fullVec, List.map_append, wholeB_append_ge p crc _ _ _ h1]
  have hw : wholeB p crc (n - (encFile p crc (last.map toWal)).length) ([e].map toWal) = [] := by
    simp only [List.map_cons, List.map_nil, wholeB]
    rw [encL_append, List.length_append, encL_singleton] at h2
    rw [if_neg]
    simp only [encL] at h1 h2
    omega
  rw [hw]
  have hflat : (L0 ++ [last ++ [e]]).flatten = (L0 ++ [last]).flatten ++ [e] := by simp
  rw [hflat, List.filter_append, filter_all]
  · have : [e].filter (fun e => decide (e.seq ≤ s)) = [] := by
      simp only [List.filter_cons, List.filter_nil]
      rw [if_neg]; simp only [decide_eq_true_eq]; omega
    rw [this]; simp
  · intro e' he'
    simp only [List.mem_flatten] at he'
    obtain ⟨es, hes, he'⟩ := he'
    simpa using hs es hes e' he'

/-! ### replaying a directory of cut files -/

theorem dirStep_trunc (p : WalParams) (hp : p.WF) (crc : Bytes → Nat) (hcrc : CrcOK crc) (d : DirReplay)
    (es : List LogEntry) (n : Nat) (hes : ∀ e ∈ es, EntryOK p (toWal e)) (hf : d.fatal = false) (hpn : d.panic = false) :
    dirStep p crc d ((encL p crc es).take n) =
      { d with entries := d.entries ++ (wholeB p crc n (es.map toWal)).map (norm p), okFiles := d.okFiles + 1 } := by
  unfold dirStep
  have c : ¬ (d.fatal = true ∨ d.panic = true) := by simp [hf, hpn]
  rw [if_neg c, encL, replayFile_trunc p hp crc hcrc _ (by simpa using hes)]

theorem replayDir_foldl_cut (p : WalParams) (hp : p.WF) (crc : Bytes → Nat) (hcrc : CrcOK crc) :
    ∀ (xs : List (List LogEntry × Nat)) (d : DirReplay), (∀ x ∈ xs, ∀ e ∈ x.1, EntryOK p (toWal e)) →
      d.fatal = false → d.panic = false →
      (xs.map (fun x => (encL p crc x.1).take x.2)).foldl (dirStep p crc) d =
      { d with entries := d.entries ++ (xs.flatMap (fun x => wholeB p crc x.2 (x.1.map toWal))).map (norm p),
               okFiles := d.okFiles + xs.length } := by
  intro xs
  induction xs with
  | nil => intro d _ _ _; simp
  | cons x xs ih =>
    intro d hes hf hpn
    rw [List.map_cons, List.foldl_cons, dirStep_trunc p hp crc hcrc d x.1 x.2 (hes x (by simp)) hf hpn]
    rw [ih { d with entries := d.entries ++ (wholeB p crc x.2 (x.1.map toWal)).map (norm p), okFiles := d.okFiles + 1 }
      (fun x' h => hes x' (by simp [h])) hf hpn]
    simp [List.append_assoc]; omega

theorem replayDir_cut (p : WalParams) (hp : p.WF) (crc : Bytes → Nat) (hcrc : CrcOK crc)
    (L : List (List LogEntry)) (fl : List Nat) (hes : ∀ es ∈ L, ∀ e ∈ es, EntryOK p (toWal e)) :
    replayDir p crc ((L.zip fl).map (fun x => (encL p crc x.1).take x.2)) =
      { entries := (cutList p crc L fl).map (norm p), okFiles := (L.zip fl).length,
        hadErr := false, fatal := false, panic := false } := by
  rw [replayDir_eq, replayDir_foldl_cut p hp crc hcrc (L.zip fl) {} ?_ rfl rfl]
  · simp [cutList]
  · intro x hx
    exact hes x.1 (List.of_mem_zip hx).1

/-- the disk image in terms of the logical files -/
theorem disk_eq (p : WalParams) (crc : Bytes → Nat) : ∀ (files : List WFile) (L : List (List LogEntry)) (fl : List Nat),
    files.map (·.stream) = L.map (encL p crc) →
    (files.zip fl).map (fun (x : WFile × Nat) => x.1.stream.take x.2) =
      (L.zip fl).map (fun x => (encL p crc x.1).take x.2) := by
  intro files
  induction files with
  | nil =>
    intro L fl h
    cases L with
    | nil => simp
    | cons a L => simp at h
  | cons f files ih =>
    intro L fl h
    cases L with
    | nil => simp at h
    | cons a L =>
      cases fl with
      | nil => simp
      | cons n fl =>
        simp only [List.map_cons, List.cons.injEq] at h
        simp only [List.zip_cons_cons, List.map_cons, h.1, ih L fl h.2]

end Kevo.Proofs.CrashAux
