/-
  Kevo.Proofs.ConcCore — proofs about the generic interleaving semantics of Kevo.Model.ConcCore:
  lock-set data-race freedom, lock-order deadlock freedom and progress.
-/
import Kevo.Model.ConcCore

namespace Kevo.LConc

/-! ### syntactic lock sets -/

theorem heldAt_zero (P : Prog) (t : Tid) : heldAt P t 0 = [] := by
  simp [heldAt, locksAfter]

theorem heldAt_succ (P : Prog) (t : Tid) (i : Nat) (e : Ev) (h : (P t)[i]? = some e) :
    heldAt P t (i + 1) = lockStep (heldAt P t i) e := by
  unfold heldAt locksAfter
  rw [List.take_add_one, List.foldl_append, h]
  rfl

theorem heldAt_of_done (P : Prog) (t : Tid) (i : Nat) (h : (P t)[i]? = none) :
    heldAt P t i = locksAfter (P t) := by
  unfold heldAt
  rw [List.take_of_length_le]
  exact List.getElem?_eq_none_iff.mp h

/-! ### the semantics, unfolded -/

theorem step_eq {P : Prog} {s s' : St} {t : Tid} (h : step P s t = some s') :
    ∃ e, (P t)[s.pc t]? = some e ∧ enabled s e = true ∧ s' = apply s t e := by
  unfold step at h
  split at h
  · cases h
  · rename_i e he
    split at h
    · rename_i hen
      exact ⟨e, he, hen, (Option.some.inj h).symm⟩
    · cases h

theorem step_isSome {P : Prog} {s : St} {t : Tid} {e : Ev} (hn : next P s t = some e)
    (hen : enabled s e = true) : (step P s t).isSome := by
  simp [step, hn, hen]

theorem apply_pc (s : St) (t u : Tid) (e : Ev) :
    (apply s t e).pc u = if u = t then s.pc t + 1 else s.pc u := by
  cases e <;> rfl

theorem blocked_is_acq {s : St} {e : Ev} (h : enabled s e = false) : ∃ m mode, e = .acq m mode := by
  cases e with
  | acq m mode => exact ⟨m, mode, rfl⟩
  | rel m mode => simp [enabled] at h
  | rd x => simp [enabled] at h
  | wr x => simp [enabled] at h
  | atomic x st => simp [enabled] at h

theorem holder_of_blocked {s : St} {m : Lock} {mode : Mode} (h : enabled s (.acq m mode) = false) :
    ∃ u mo, (u, mo) ∈ s.held m := by
  cases mode with
  | ex =>
    cases hl : s.held m with
    | nil => simp [enabled, hl] at h
    | cons a l => exact ⟨a.1, a.2, by simp⟩
  | sh =>
    cases hl : s.held m with
    | nil => simp [enabled, hl] at h
    | cons a l => exact ⟨a.1, a.2, by simp⟩

/-! ### the key invariant -/

structure Inv (P : Prog) (s : St) : Prop where
  /-- (I) the runtime holders are exactly the syntactic lock sets -/
  cnt : ∀ t m mode, (s.held m).count (t, mode) = (heldAt P t (s.pc t)).count (m, mode)
  /-- (II) an exclusive holder is alone -/
  excl : ∀ m, (∀ h ∈ s.held m, h.2 = Mode.sh) ∨ (∃ t, s.held m = [(t, Mode.ex)])

theorem Inv.mem_iff {P : Prog} {s : St} (inv : Inv P s) (t : Tid) (m : Lock) (mode : Mode) :
    (t, mode) ∈ s.held m ↔ (m, mode) ∈ heldAt P t (s.pc t) := by
  rw [← List.count_pos_iff, ← List.count_pos_iff, inv.cnt]

theorem inv_init (P : Prog) : Inv P St.init := by
  constructor
  · intro t m mode
    simp [St.init, heldAt_zero]
  · intro m
    left
    intro h hh
    simp [St.init] at hh

theorem inv_cnt_step {P : Prog} {s : St} (inv : Inv P s) (t : Tid) (e : Ev)
    (he : (P t)[s.pc t]? = some e) (u : Tid) (m : Lock) (mode : Mode) :
    ((apply s t e).held m).count (u, mode)
      = (heldAt P u ((apply s t e).pc u)).count (m, mode) := by
  rw [apply_pc]
  have hI := inv.cnt u m mode
  by_cases hu : u = t
  · subst hu
    simp only [if_true]
    rw [heldAt_succ P u _ e he]
    cases e with
    | acq m0 mode0 =>
      simp only [apply, lockStep]
      by_cases hm : m = m0
      · subst hm
        by_cases hmo : mode0 = mode
        · subst hmo; simp [hI]
        · simp [hI, hmo]
      · have : ¬ m0 = m := fun h => hm h.symm
        simp [hI, hm, this]
    | rel m0 mode0 =>
      simp only [apply, lockStep]
      by_cases hm : m = m0
      · subst hm
        by_cases hmo : mode0 = mode
        · subst hmo; simp [List.count_erase_self, hI]
        · have h1 : (u, mode) ≠ (u, mode0) := fun h => hmo (Prod.mk.inj h).2.symm
          have h2 : (m, mode) ≠ (m, mode0) := fun h => hmo (Prod.mk.inj h).2.symm
          simp only [if_true]
          rw [List.count_erase_of_ne h1, List.count_erase_of_ne h2, hI]
      · have h2 : (m, mode) ≠ (m0, mode0) := fun h => hm (Prod.mk.inj h).1
        simp only [hm, if_false]
        rw [List.count_erase_of_ne h2, hI]
    | rd x => simpa [apply, lockStep] using hI
    | wr x => simpa [apply, lockStep] using hI
    | atomic x st => simpa [apply, lockStep] using hI
  · simp only [hu, if_false]
    cases e with
    | acq m0 mode0 =>
      simp only [apply]
      by_cases hm : m = m0
      · subst hm
        have : ¬ t = u := fun h => hu h.symm
        simp [hI, this]
      · simp [hm, hI]
    | rel m0 mode0 =>
      simp only [apply]
      by_cases hm : m = m0
      · subst hm
        have h1 : (u, mode) ≠ (t, mode0) := fun h => hu (Prod.mk.inj h).1
        simp only [if_true]
        rw [List.count_erase_of_ne h1, hI]
      · simp [hm, hI]
    | rd x => simpa [apply] using hI
    | wr x => simpa [apply] using hI
    | atomic x st => simpa [apply] using hI

theorem inv_excl_step {P : Prog} {s : St} (inv : Inv P s) (t : Tid) (e : Ev)
    (hen : enabled s e = true) (m : Lock) :
    (∀ h ∈ (apply s t e).held m, h.2 = Mode.sh) ∨ (∃ t', (apply s t e).held m = [(t', Mode.ex)]) := by
  have hII := inv.excl m
  cases e with
  | acq m0 mode0 =>
    simp only [apply]
    by_cases hm : m = m0
    · subst hm
      simp only [if_true]
      cases mode0 with
      | ex =>
        right
        have : s.held m = [] := by simpa [enabled] using hen
        exact ⟨t, by rw [this]⟩
      | sh =>
        left
        have hall : ∀ h ∈ s.held m, h.2 = Mode.sh := by simpa [enabled] using hen
        intro h hh
        rcases List.mem_cons.mp hh with rfl | hh
        · rfl
        · exact hall h hh
    · simpa [hm] using hII
  | rel m0 mode0 =>
    simp only [apply]
    by_cases hm : m = m0
    · subst hm
      simp only [if_true]
      rcases hII with hall | ⟨t', ht'⟩
      · left
        intro h hh
        exact hall h (List.mem_of_mem_erase hh)
      · rw [ht']
        by_cases hq : (t', Mode.ex) = (t, mode0)
        · left
          rw [hq]
          simp
        · right
          refine ⟨t', ?_⟩
          rw [List.erase_cons_tail]
          · rfl
          · simpa using hq
    · simpa [hm] using hII
  | rd x => simpa [apply] using hII
  | wr x => simpa [apply] using hII
  | atomic x st => simpa [apply] using hII

theorem inv_step {P : Prog} {s s' : St} {t : Tid} (inv : Inv P s) (h : step P s t = some s') :
    Inv P s' := by
  obtain ⟨e, he, hen, rfl⟩ := step_eq h
  exact ⟨fun u m mode => inv_cnt_step inv t e he u m mode, fun m => inv_excl_step inv t e hen m⟩

theorem inv_reachFrom (P : Prog) : ∀ (sched : List Tid) (s s' : St),
    Inv P s → reachFrom P s sched = some s' → Inv P s'
  | [], s, s', inv, h => by
    simp only [reachFrom] at h
    cases h
    exact inv
  | t :: rest, s, s', inv, h => by
    simp only [reachFrom] at h
    split at h
    · cases h
    · rename_i s1 hs1
      exact inv_reachFrom P rest s1 s' (inv_step inv hs1) h

theorem inv_reach (P : Prog) (sched : List Tid) (s : St) (h : reach P sched = some s) : Inv P s :=
  inv_reachFrom P sched St.init s (inv_init P) h

/-! ### data-race freedom -/

theorem no_race_of_inv {P : Prog} {x : Var} (h : PairProtected P x) {s : St} (inv : Inv P s) :
    ¬ Race P s x := by
  rintro ⟨t1, t2, e1, e2, hne, h1, h2, hc⟩
  obtain ⟨m, mo1, mo2, hm1, hm2, hex⟩ := h t1 (s.pc t1) e1 t2 (s.pc t2) e2 hne h1 h2 hc
  have r1 := (inv.mem_iff t1 m mo1).mpr hm1
  have r2 := (inv.mem_iff t2 m mo2).mpr hm2
  rcases inv.excl m with hall | ⟨t, ht⟩
  · have a1 : mo1 = Mode.sh := hall _ r1
    have a2 : mo2 = Mode.sh := hall _ r2
    subst a1 a2
    rcases hex with h | h <;> cases h
  · rw [ht] at r1 r2
    simp at r1 r2
    exact hne (r1.1.trans r2.1.symm)

theorem pairwise_drf (P : Prog) (x : Var) (h : PairProtected P x) :
    ∀ sched s, reach P sched = some s → ¬ Race P s x :=
  fun sched s hr => no_race_of_inv h (inv_reach P sched s hr)

theorem pairProtected_of_protects {P : Prog} {m : Lock} {x : Var} (h : Protects P m x) :
    PairProtected P x := by
  intro t1 i1 e1 t2 i2 e2 _ h1 h2 hc
  obtain ⟨w1, a1, w2, a2, ha1, ha2, hw, _⟩ := hc
  have p1 := h t1 i1 e1 w1 a1 h1 ha1
  have p2 := h t2 i2 e2 w2 a2 h2 ha2
  rcases p1 with p1 | ⟨hw1, p1⟩
  · rcases p2 with p2 | ⟨_, p2⟩
    · exact ⟨m, _, _, p1, p2, Or.inl rfl⟩
    · exact ⟨m, _, _, p1, p2, Or.inl rfl⟩
  · rcases p2 with p2 | ⟨hw2, p2⟩
    · exact ⟨m, _, _, p1, p2, Or.inr rfl⟩
    · subst hw1 hw2
      rcases hw with h | h <;> cases h

theorem pairProtected_of_allAtomic {P : Prog} {x : Var} (h : AllAtomic P x) : PairProtected P x := by
  intro t1 i1 e1 t2 i2 e2 _ h1 h2 hc
  obtain ⟨w1, a1, w2, a2, ha1, ha2, _, hna⟩ := hc
  exact absurd ⟨h t1 i1 e1 w1 a1 h1 ha1, h t2 i2 e2 w2 a2 h2 ha2⟩ hna

theorem lockset_drf (P : Prog) (x : Var) (h : (∃ m, Protects P m x) ∨ AllAtomic P x) :
    ∀ sched s, reach P sched = some s → ¬ Race P s x := by
  rcases h with ⟨m, hm⟩ | ha
  · exact pairwise_drf P x (pairProtected_of_protects hm)
  · exact pairwise_drf P x (pairProtected_of_allAtomic ha)

/-! ### deadlock freedom -/

theorem Path.append {E : Lock → Lock → Prop} {a b c : Lock} (h1 : Path E a b) (h2 : Path E b c) :
    Path E a c := by
  induction h1 with
  | single e => exact Path.cons e h2
  | cons e _ ih => exact Path.cons e (ih h2)

theorem path_rank {E : Lock → Lock → Prop} (rank : Lock → Nat) (h : ∀ a b, E a b → rank a < rank b)
    {a b : Lock} (p : Path E a b) : rank a < rank b := by
  induction p with
  | single e => exact h _ _ e
  | cons e _ ih => exact Nat.lt_trans (h _ _ e) ih

theorem acyclic_of_rank (E : Lock → Lock → Prop) (rank : Lock → Nat)
    (h : ∀ a b, E a b → rank a < rank b) : Acyclic E :=
  fun _ p => Nat.lt_irrefl _ (path_rank rank h p)

theorem waitChain_path {P : Prog} {s : St} (inv : Inv P s) {p q : Tid × Lock}
    (h : WaitChain P s p q) : Path (Edge P) p.2 q.2 := by
  induction h with
  | @step t m u m' _ hh hw' =>
    obtain ⟨mode, hmem⟩ := hh
    obtain ⟨mode', hn, _⟩ := hw'
    exact Path.single ⟨u, s.pc u, mode', mode, hn, (inv.mem_iff u m mode).mp hmem⟩
  | trans _ _ ih1 ih2 => exact Path.append ih1 ih2

theorem lockorder_no_deadlock (P : Prog) (hac : Acyclic (Edge P)) (_hp : Paired P) :
    ∀ sched s, reach P sched = some s → ¬ Deadlock P s := by
  rintro sched s hr ⟨p, hp⟩
  exact hac p.2 (waitChain_path (inv_reach P sched s hr) hp)

/-! ### progress -/

/-- a blocked thread waits for a lock whose holder either can move or is itself blocked further up the lock order. -/
theorem waits_next {P : Prog} {s : St} (hp : Paired P) (inv : Inv P s) {t : Tid} {m : Lock}
    (hw : Waits P s t m) :
    (∃ u, (step P s u).isSome) ∨ ∃ u m', Waits P s u m' ∧ Edge P m m' := by
  obtain ⟨mode, _, hen⟩ := hw
  obtain ⟨u, mo, hmem⟩ := holder_of_blocked hen
  have hsyn := (inv.mem_iff u m mo).mp hmem
  cases hn : (P u)[s.pc u]? with
  | none =>
    rw [heldAt_of_done P u _ hn, (hp u).1] at hsyn
    cases hsyn
  | some e =>
    cases hen' : enabled s e with
    | true => exact Or.inl ⟨u, step_isSome hn hen'⟩
    | false =>
      obtain ⟨m', mode', rfl⟩ := blocked_is_acq hen'
      exact Or.inr ⟨u, m', ⟨mode', hn, hen'⟩, ⟨u, s.pc u, mode', mo, hn, hsyn⟩⟩

theorem progress_aux {P : Prog} {s : St} (rank : Lock → Nat) (N : Nat)
    (hrank : ∀ a b, Edge P a b → rank a < rank b) (hN : ∀ a, rank a ≤ N) (hp : Paired P)
    (inv : Inv P s) :
    ∀ (k : Nat) (t : Tid) (m : Lock), Waits P s t m → N - rank m ≤ k → ∃ u, (step P s u).isSome := by
  intro k
  induction k with
  | zero =>
    intro t m hw hk
    rcases waits_next hp inv hw with h | ⟨u, m', _, he⟩
    · exact h
    · have h1 := hrank _ _ he
      have h2 := hN m'
      omega
  | succ k ih =>
    intro t m hw hk
    rcases waits_next hp inv hw with h | ⟨u, m', hw', he⟩
    · exact h
    · have h1 := hrank _ _ he
      have h2 := hN m'
      exact ih u m' hw' (by omega)

theorem lockorder_progress (P : Prog) (rank : Lock → Nat) (N : Nat)
    (hrank : ∀ a b, Edge P a b → rank a < rank b) (hN : ∀ a, rank a ≤ N) (hp : Paired P) :
    ∀ sched s, reach P sched = some s → ∀ t, Unfinished P s t → ∃ u, (step P s u).isSome := by
  intro sched s hr t hu
  have inv := inv_reach P sched s hr
  unfold Unfinished at hu
  cases hn : next P s t with
  | none => simp [hn] at hu
  | some e =>
    cases hen : enabled s e with
    | true => exact ⟨t, step_isSome hn hen⟩
    | false =>
      obtain ⟨m, mode, rfl⟩ := blocked_is_acq hen
      exact progress_aux rank N hrank hN hp inv (N - rank m) t m ⟨mode, hn, hen⟩ (Nat.le_refl _)

/-! ### non-vacuity -/

/-- writer under `Lock`, reader under `RLock`. -/
def exP : Prog := fun t => match t with
  | 0 => [.acq 0 .ex, .wr 0, .rel 0 .ex]
  | 1 => [.acq 0 .sh, .rd 0, .rel 0 .sh]
  | _ => []

theorem exP_protects : Protects exP 0 0 := by
  intro t i e w a hi ha
  match t, i with
  | 0, 0 => simp [exP] at hi; subst hi; simp [Ev.access] at ha
  | 0, 1 => exact Or.inl (by decide)
  | 0, 2 => simp [exP] at hi; subst hi; simp [Ev.access] at ha
  | 0, i + 3 => simp [exP] at hi
  | 1, 0 => simp [exP] at hi; subst hi; simp [Ev.access] at ha
  | 1, 1 =>
    simp [exP] at hi; subst hi
    simp [Ev.access] at ha
    exact Or.inr ⟨ha.1, by decide⟩
  | 1, 2 => simp [exP] at hi; subst hi; simp [Ev.access] at ha
  | 1, i + 3 => simp [exP] at hi
  | t + 2, i => simp [exP] at hi

example : ∃ m, Protects exP m 0 := ⟨0, exP_protects⟩

/-- the hypotheses of `lockset_drf` are satisfiable and its conclusion applies to a program with real schedules. -/
example : ∀ sched s, reach exP sched = some s → ¬ Race exP s 0 :=
  lockset_drf exP 0 (Or.inl ⟨0, exP_protects⟩)

/-- a complete run: the writer, then the reader. -/
example : (reach exP [0, 0, 0, 1, 1, 1]).isSome = true := by decide

/-- the two critical sections may also run in the other order. -/
example : (reach exP [1, 1, 1, 0, 0, 0]).isSome = true := by decide

/-- the reader is blocked while the writer is inside its critical section. -/
example : (reach exP [0, 0, 1]).isSome = false := by decide

/-- two unprotected writers. -/
def exR : Prog := fun t => match t with
  | 0 => [.wr 0]
  | 1 => [.wr 0]
  | _ => []

/-- `Race` is satisfiable: the race-freedom theorems are not vacuous. -/
example : Race exR St.init 0 :=
  ⟨0, 1, .wr 0, .wr 0, by decide, rfl, rfl, true, false, true, false, rfl, rfl, Or.inl rfl, by simp⟩

/-- opposite lock orders. -/
def exD : Prog := fun t => match t with
  | 0 => [.acq 0 .ex, .acq 1 .ex, .rel 1 .ex, .rel 0 .ex]
  | 1 => [.acq 1 .ex, .acq 0 .ex, .rel 0 .ex, .rel 1 .ex]
  | _ => []

/-- both threads took their first lock. -/
def exDs : St := apply (apply St.init 0 (.acq 0 .ex)) 1 (.acq 1 .ex)

theorem exD_reach : reach exD [0, 1] = some exDs := rfl

/-- `Deadlock` is satisfiable in a reachable state. -/
example : ∃ s, reach exD [0, 1] = some s ∧ Deadlock exD s := by
  refine ⟨exDs, exD_reach, (0, 1), ?_⟩
  have h01 : WaitChain exD exDs (0, 1) (1, 0) :=
    WaitChain.step ⟨.ex, rfl, rfl⟩ ⟨.ex, by decide⟩ ⟨.ex, rfl, rfl⟩
  have h10 : WaitChain exD exDs (1, 0) (0, 1) :=
    WaitChain.step ⟨.ex, rfl, rfl⟩ ⟨.ex, by decide⟩ ⟨.ex, rfl, rfl⟩
  exact WaitChain.trans h01 h10

/-- ... and nobody can move there: the conclusion of `lockorder_progress` fails without the rank hypothesis. -/
example : ∃ s, reach exD [0, 1] = some s ∧ Unfinished exD s 0 ∧ ∀ u, (step exD s u).isSome = false := by
  refine ⟨exDs, exD_reach, rfl, ?_⟩
  intro u
  match u with
  | 0 => rfl
  | 1 => rfl
  | u + 2 => rfl

/-- every thread (unboundedly many) takes two nested locks in the same order. -/
def exN : Prog := fun _ => [.acq 0 .ex, .acq 1 .ex, .rel 1 .ex, .rel 0 .ex]

def exRank (a : Lock) : Nat := if a = 0 then 0 else 1

theorem exN_edge {a b : Lock} (h : Edge exN a b) : a = 0 ∧ b = 1 := by
  obtain ⟨t, i, mode, mode', h1, h2⟩ := h
  match i with
  | 0 => simp [heldAt_zero] at h2
  | 1 =>
    simp [exN] at h1
    simp [heldAt, locksAfter, lockStep, exN] at h2
    exact ⟨h2.1, h1.1.symm⟩
  | 2 => simp [exN] at h1
  | 3 => simp [exN] at h1
  | i + 4 => simp [exN] at h1

theorem exN_rank : ∀ a b, Edge exN a b → exRank a < exRank b := by
  intro a b h
  obtain ⟨rfl, rfl⟩ := exN_edge h
  decide

theorem exN_paired : Paired exN := by
  intro t
  refine ⟨rfl, ?_⟩
  intro i m mode h
  match i with
  | 0 => simp [exN] at h
  | 1 => simp [exN] at h
  | 2 =>
    simp [exN] at h
    obtain ⟨rfl, rfl⟩ := h
    simp [heldAt, locksAfter, lockStep, exN]
  | 3 =>
    simp [exN] at h
    obtain ⟨rfl, rfl⟩ := h
    simp [heldAt, locksAfter, lockStep, exN]
  | i + 4 => simp [exN] at h

/-- the hypotheses of the deadlock and progress theorems are satisfiable (with a non-empty lock order). -/
example : Edge exN 0 1 := ⟨0, 1, .ex, .ex, rfl, by decide⟩

example : ∀ sched s, reach exN sched = some s → ¬ Deadlock exN s :=
  lockorder_no_deadlock exN (acyclic_of_rank _ exRank exN_rank) exN_paired

example : ∀ sched s, reach exN sched = some s → ∀ t, Unfinished exN s t → ∃ u, (step exN s u).isSome :=
  lockorder_progress exN exRank 1 exN_rank (by intro a; unfold exRank; split <;> omega) exN_paired

example : (reach exN [0, 0, 0, 0, 5, 5, 5, 5, 7]).isSome = true := by decide

end Kevo.LConc
