/-
  Kevo.Proofs.ServiceApi — the lemmas of Kevo.Proofs.Service instantiated with the GENERATED API table (Kevo.Gen.Api):
  what each handler is once the guard chain of its row is spelled out, read-only engines, request limits, handles.
  Everything here is re-checked against the regenerated table on every run: a guard that disappears from the source
  changes a row and the corresponding lemma no longer type-checks.
-/
import Kevo.Proofs.Service
import Kevo.Gen.Api
namespace Kevo.Proofs.ServiceApi
open Kevo Kevo.Service Kevo.Proofs.Service

abbrev R : Rows := Kevo.Gen.rows
abbrev L : Limits := Kevo.Gen.limits

/-! ## facade rows used by the handlers -/

theorem run_fBegin (e : Eng) (b : Bool) : run R.fBegin (.flag b) e =
     if e.closed then { err := some .closed, eng := e }
     else if wouldBlock (b || e.readOnly) e then { blocked := true, eng := e }
     else { val := .tx (b || e.readOnly), eng := (applyOp .txBegin (.flag (b || e.readOnly)) e).2 } := by
  simp only [run, R, Kevo.Gen.rows, Kevo.Gen.f_BeginTransaction, guardErr, effArg]
  cases e.closed <;> simp [applyOp]

theorem run_fGet_open (e : Eng) (hc : e.closed = false) (k : Bytes) :
    run R.fGet (.key k) e = { val := .got (Kevo.Engine.get e.store k), eng := e } := by
  rw [run_unguarded R.fGet (by decide) (by decide) _ e hc]; rfl

/-- after a successful begin -/
def beginEng (ro : Bool) (e : Eng) : Eng := (applyOp .txBegin (.flag ro) e).2

theorem beginEng_fields (ro : Bool) (e : Eng) :
    (beginEng ro e).store = e.store ∧ (beginEng ro e).closed = e.closed ∧ (beginEng ro e).readOnly = e.readOnly := by
  cases ro <;> simp [beginEng, applyOp]

theorem unlock_begin (t : Tx) (e : Eng) (hb : wouldBlock t.ro e = false) : unlock t (beginEng t.ro e) = e := by
  obtain ⟨c, r, s, rl, wl⟩ := e
  cases hro : t.ro
  · rw [hro] at hb
    simp only [wouldBlock, Bool.false_eq_true, ↓reduceIte, Bool.or_eq_false_iff] at hb
    simp [unlock, beginEng, applyOp, hro, hb.1]
  · simp [unlock, beginEng, applyOp, hro]

theorem withTx_eq (ro : Bool) (st : Svc) (f : Tx → Eng → Resp × Eng) :
    withTx R ro st f =
      if st.eng.closed then (.err .closed, st)
      else if wouldBlock (ro || st.eng.readOnly) st.eng then (.blocked, st)
      else ((f { ro := ro || st.eng.readOnly } (beginEng (ro || st.eng.readOnly) st.eng)).1,
            { st with eng := (f { ro := ro || st.eng.readOnly } (beginEng (ro || st.eng.readOnly) st.eng)).2 }) := by
  unfold withTx
  rw [run_fBegin]
  cases st.eng.closed <;> cases wouldBlock (ro || st.eng.readOnly) st.eng <;> simp [beginEng]

theorem svc_eta (st : Svc) : ({ st with eng := st.eng } : Svc) = st := by cases st; rfl

/-! ## the handlers with their guard chains spelled out -/

theorem handle_get (k : Bytes) (st : Svc) :
    handle R (.get k) st = if keyBad 4096 k then (.err .keySize, st) else delegate R (.get k) st := by
  simp only [handle, rowOf, R, Kevo.Gen.rows, Kevo.Gen.s_Get, svcGuards, svcGuard, Req.key?]
  cases keyBad 4096 k <;> rfl

theorem handle_put (k v : Bytes) (st : Svc) :
    handle R (.put k v) st =
      if keyBad 4096 k then (.err .keySize, st)
      else if valBad 10485760 v then (.err .valueSize, st)
      else delegate R (.put k v) st := by
  simp only [handle, rowOf, R, Kevo.Gen.rows, Kevo.Gen.s_Put, svcGuards, svcGuard, Req.key?, Req.value?]
  cases keyBad 4096 k <;> cases valBad 10485760 v <;> rfl

theorem handle_delete (k : Bytes) (st : Svc) :
    handle R (.delete k) st = if keyBad 4096 k then (.err .keySize, st) else delegate R (.delete k) st := by
  simp only [handle, rowOf, R, Kevo.Gen.rows, Kevo.Gen.s_Delete, svcGuards, svcGuard, Req.key?]
  cases keyBad 4096 k <;> rfl

theorem handle_batch (ops : List BOp) (st : Svc) :
    handle R (.batchWrite ops) st =
      if ops.length == 0 then (.ok, st)
      else if tooMany 1000 ops.length then (.err .batchSize, st)
      else delegate R (.batchWrite ops) st := by
  simp only [handle, rowOf, R, Kevo.Gen.rows, Kevo.Gen.s_BatchWrite, svcGuards, svcGuard, Req.nops?]
  cases (ops.length == 0) <;> cases tooMany 1000 ops.length <;> rfl

theorem handle_noguard (req : Req) (st : Svc) (h : (rowOf R req).guards = []) : handle R req st = delegate R req st := by
  simp only [handle, h, svcGuards]

theorem handle_scan (o : ScanOpts) (st : Svc) : handle R (.scan o) st = delegate R (.scan o) st := handle_noguard _ _ rfl
theorem handle_begin (ro : Bool) (st : Svc) : handle R (.begin ro) st = delegate R (.begin ro) st := handle_noguard _ _ rfl
theorem handle_getStats (st : Svc) : handle R .getStats st = delegate R .getStats st := handle_noguard _ _ rfl
theorem handle_compact (f : Bool) (st : Svc) : handle R (.compact f) st = delegate R (.compact f) st := handle_noguard _ _ rfl

theorem handle_commit (id : Nat) (st : Svc) :
    handle R (.commit id) st = match st.tx? id with
      | none => (.err .noHandle, st)
      | some _ => delegate R (.commit id) st := by
  simp only [handle, rowOf, R, Kevo.Gen.rows, Kevo.Gen.s_CommitTransaction, svcGuards, svcGuard, Req.handle?]
  cases st.tx? id <;> rfl

theorem handle_rollback (id : Nat) (st : Svc) :
    handle R (.rollback id) st = match st.tx? id with
      | none => (.err .noHandle, st)
      | some _ => delegate R (.rollback id) st := by
  simp only [handle, rowOf, R, Kevo.Gen.rows, Kevo.Gen.s_RollbackTransaction, svcGuards, svcGuard, Req.handle?]
  cases st.tx? id <;> rfl

theorem handle_txGet (id : Nat) (k : Bytes) (st : Svc) :
    handle R (.txGet id k) st = match st.tx? id with
      | none => (.err .noHandle, st)
      | some _ => if keyBad 4096 k then (.err .keySize, st) else delegate R (.txGet id k) st := by
  simp only [handle, rowOf, R, Kevo.Gen.rows, Kevo.Gen.s_TxGet, svcGuards, svcGuard, Req.handle?, Req.key?]
  cases st.tx? id <;> cases keyBad 4096 k <;> rfl

theorem handle_txPut (id : Nat) (k v : Bytes) (st : Svc) :
    handle R (.txPut id k v) st = match st.tx? id with
      | none => (.err .noHandle, st)
      | some t => if t.ro then (.err .svcRoTx, st)
        else if keyBad 4096 k then (.err .keySize, st)
        else if valBad 10485760 v then (.err .valueSize, st)
        else delegate R (.txPut id k v) st := by
  simp only [handle, rowOf, R, Kevo.Gen.rows, Kevo.Gen.s_TxPut, svcGuards, svcGuard, Req.handle?, Req.key?, Req.value?]
  cases h : st.tx? id with
  | none => rfl
  | some t => obtain ⟨ro, buf, act⟩ := t; cases ro <;> cases keyBad 4096 k <;> cases valBad 10485760 v <;> rfl

theorem handle_txDelete (id : Nat) (k : Bytes) (st : Svc) :
    handle R (.txDelete id k) st = match st.tx? id with
      | none => (.err .noHandle, st)
      | some t => if t.ro then (.err .svcRoTx, st)
        else if keyBad 4096 k then (.err .keySize, st)
        else delegate R (.txDelete id k) st := by
  simp only [handle, rowOf, R, Kevo.Gen.rows, Kevo.Gen.s_TxDelete, svcGuards, svcGuard, Req.handle?, Req.key?]
  cases h : st.tx? id with
  | none => rfl
  | some t => obtain ⟨ro, buf, act⟩ := t; cases ro <;> cases keyBad 4096 k <;> rfl

theorem handle_txScan (id : Nat) (o : ScanOpts) (st : Svc) :
    handle R (.txScan id o) st = match st.tx? id with
      | none => (.err .noHandle, st)
      | some _ => delegate R (.txScan id o) st := by
  simp only [handle, rowOf, R, Kevo.Gen.rows, Kevo.Gen.s_TxScan, svcGuards, svcGuard, Req.handle?]
  cases st.tx? id <;> rfl

theorem handle_getNodeInfo (st : Svc) :
    handle R .getNodeInfo st = (.node (nodeInfo st.mgr st.eng.readOnly), st) := by
  simp only [handle, rowOf, R, Kevo.Gen.rows, Kevo.Gen.s_GetNodeInfo, svcGuards, svcGuard, delegate, nodeInfo]
  cases st.mgr <;> rfl

/-! ## handles -/

theorem unknown_handle_rejected (st : Svc) (id : Nat) (h : st.tx? id = none) (req : Req) (hr : req.handle? = some id) :
    handle R req st = (.err .noHandle, st) := by
  cases req <;> simp only [Req.handle?, Option.some.injEq, reduceCtorEq] at hr <;> subst hr
  · rw [handle_commit, h]
  · rw [handle_rollback, h]
  · rw [handle_txGet, h]
  · rw [handle_txPut, h]
  · rw [handle_txDelete, h]
  · rw [handle_txScan, h]

theorem removeTx_dead (st : Svc) (id : Nat) : (st.removeTx id).tx? id = none := by
  simp only [Svc.removeTx, Svc.tx?]; exact lookup_filter_ne st.txs id

theorem commit_kills_handle (st : Svc) (id : Nat) : (handle R (.commit id) st).2.tx? id = none := by
  rw [handle_commit]
  cases h : st.tx? id with
  | none => exact h
  | some t => simp only [delegate, h]; exact removeTx_dead _ id

theorem rollback_kills_handle (st : Svc) (id : Nat) : (handle R (.rollback id) st).2.tx? id = none := by
  rw [handle_rollback]
  cases h : st.tx? id with
  | none => exact h
  | some t => simp only [delegate, h]; exact removeTx_dead _ id

/-- every handle of the table was issued by the counter -/
def HandlesIssued (st : Svc) : Prop := ∀ p ∈ st.txs, p.1 ≤ st.nextID

theorem withTx_frame (R' : Rows) (ro : Bool) (st : Svc) (f : Tx → Eng → Resp × Eng) :
    (withTx R' ro st f).2.txs = st.txs ∧ (withTx R' ro st f).2.nextID = st.nextID := by
  unfold withTx
  simp only []
  split
  · exact ⟨rfl, rfl⟩
  · split <;> exact ⟨rfl, rfl⟩

/-- a step of the service never re-issues an old number: a dead handle at or below the counter stays dead, the counter
    never decreases, handles stay below the counter. (For any table of rows.) -/
theorem delegate_frame (R' : Rows) (req : Req) (st : Svc) (hi : HandlesIssued st) :
    st.nextID ≤ (delegate R' req st).2.nextID ∧ HandlesIssued (delegate R' req st).2 ∧
    ∀ id, id ≤ st.nextID → st.tx? id = none → (delegate R' req st).2.tx? id = none := by
  have same : ∀ st' : Svc, st'.txs = st.txs → st'.nextID = st.nextID →
      st.nextID ≤ st'.nextID ∧ HandlesIssued st' ∧ ∀ id, id ≤ st.nextID → st.tx? id = none → st'.tx? id = none := by
    intro st' h1 h2
    refine ⟨by omega, ?_, ?_⟩
    · intro p hp; rw [h1] at hp; rw [h2]; exact hi p hp
    · intro id _ h; simp only [Svc.tx?, h1]; exact h
  have filt : ∀ (e : Eng) (j : Nat),
      let st' := ({ st with eng := e } : Svc).removeTx j
      st.nextID ≤ st'.nextID ∧ HandlesIssued st' ∧ ∀ id, id ≤ st.nextID → st.tx? id = none → st'.tx? id = none := by
    intro e j
    refine ⟨Nat.le_refl _, ?_, ?_⟩
    · intro p hp
      simp only [Svc.removeTx, List.mem_filter] at hp
      exact hi p hp.1
    · intro id _ h
      simp only [Svc.removeTx, Svc.tx?]
      exact lookup_filter_none st.txs id j h
  have setx : ∀ (j : Nat) (t : Tx), st.tx? j = some t → ∀ t' : Tx,
      let st' := st.setTx j t'
      st.nextID ≤ st'.nextID ∧ HandlesIssued st' ∧ ∀ id, id ≤ st.nextID → st.tx? id = none → st'.tx? id = none := by
    intro j t hj t'
    refine ⟨Nat.le_refl _, ?_, ?_⟩
    · intro p hp
      simp only [Svc.setTx, List.mem_map] at hp
      obtain ⟨q, hq, rfl⟩ := hp
      split
      · rename_i hqj
        have : q.1 = j := by simpa using hqj
        show j ≤ st.nextID
        rw [← this]; exact hi q hq
      · exact hi q hq
    · intro id _ h
      simp only [Svc.setTx, Svc.tx?]
      exact lookup_map_none st.txs id j t' h
  cases req with
  | get k => simp only [delegate]; split <;> exact same st rfl rfl
  | put k v => exact same _ rfl rfl
  | delete k => exact same _ rfl rfl
  | batchWrite ops => simp only [delegate]; exact same _ (withTx_frame _ _ _ _).1 (withTx_frame _ _ _ _).2
  | scan o => simp only [delegate]; exact same _ (withTx_frame _ _ _ _).1 (withTx_frame _ _ _ _).2
  | getStats => simp only [delegate]; exact same _ (withTx_frame _ _ _ _).1 (withTx_frame _ _ _ _).2
  | compact f => simp only [delegate]; exact same _ (withTx_frame _ _ _ _).1 (withTx_frame _ _ _ _).2
  | getNodeInfo => exact same st rfl rfl
  | begin ro =>
    simp only [delegate]
    split
    · exact same st rfl rfl
    · split
      · exact same st rfl rfl
      · refine ⟨Nat.le_succ _, ?_, ?_⟩
        · intro p hp
          simp only [List.mem_cons] at hp
          rcases hp with rfl | hp
          · exact Nat.le_refl _
          · exact Nat.le_succ_of_le (hi p hp)
        · intro id hid h
          simp only [Svc.tx?, List.lookup]
          have : (id == st.nextID + 1) = false := by simp only [beq_eq_false_iff_ne, ne_eq]; omega
          simp only [this]
          exact h
      · exact same st rfl rfl
  | commit j =>
    simp only [delegate]
    cases hj : st.tx? j with
    | none => exact same st rfl rfl
    | some t => exact filt _ j
  | rollback j =>
    simp only [delegate]
    cases hj : st.tx? j with
    | none => exact same st rfl rfl
    | some t => exact filt _ j
  | txGet j k =>
    simp only [delegate]
    cases hj : st.tx? j with
    | none => exact same st rfl rfl
    | some t => simp only []; split <;> exact same st rfl rfl
  | txPut j k v =>
    simp only [delegate]
    cases hj : st.tx? j with
    | none => exact same st rfl rfl
    | some t =>
      simp only []
      split
      · exact same st rfl rfl
      · exact setx j t hj _
  | txDelete j k =>
    simp only [delegate]
    cases hj : st.tx? j with
    | none => exact same st rfl rfl
    | some t =>
      simp only []
      split
      · exact same st rfl rfl
      · exact setx j t hj _
  | txScan j o =>
    simp only [delegate]
    cases hj : st.tx? j with
    | none => exact same st rfl rfl
    | some t => exact same st rfl rfl

theorem handle_frame (R' : Rows) (req : Req) (st : Svc) (hi : HandlesIssued st) :
    st.nextID ≤ (handle R' req st).2.nextID ∧ HandlesIssued (handle R' req st).2 ∧
    ∀ id, id ≤ st.nextID → st.tx? id = none → (handle R' req st).2.tx? id = none := by
  unfold handle
  split
  · exact ⟨Nat.le_refl _, hi, fun _ _ h => h⟩
  · exact delegate_frame R' req st hi

/-- a sequence of requests -/
def runReqs (R' : Rows) : Svc → List Req → Svc
  | st, [] => st
  | st, r :: rs => runReqs R' (handle R' r st).2 rs

theorem dead_stays_dead (R' : Rows) (reqs : List Req) : ∀ (st : Svc), HandlesIssued st → ∀ id, id ≤ st.nextID →
    st.tx? id = none → (runReqs R' st reqs).tx? id = none := by
  induction reqs with
  | nil => intro st _ id _ h; exact h
  | cons r rs ih =>
    intro st hi id hid h
    have hf := handle_frame R' r st hi
    exact ih _ hf.2.1 id (Nat.le_trans hid hf.1) (hf.2.2 id hid h)

/-! ## the BatchWrite loop -/

theorem put_inv (t : Tx) (k v : Bytes) : (t.put k v).2.ro = t.ro ∧ (t.put k v).2.active = t.active := by
  unfold Tx.put; split
  · exact ⟨rfl, rfl⟩
  · split <;> exact ⟨rfl, rfl⟩

theorem delete_inv (t : Tx) (k : Bytes) : (t.delete k).2.ro = t.ro ∧ (t.delete k).2.active = t.active := by
  unfold Tx.delete; split
  · exact ⟨rfl, rfl⟩
  · split <;> exact ⟨rfl, rfl⟩

theorem batchStep_inv (lg : List Guard) (t : Tx) (op : BOp) :
    (batchStep lg t op).2.ro = t.ro ∧ (batchStep lg t op).2.active = t.active := by
  unfold batchStep; split
  · exact ⟨rfl, rfl⟩
  · cases op with
    | put k v => exact put_inv t k v
    | del k => exact delete_inv t k
    | bad k => exact ⟨rfl, rfl⟩

theorem batchLoop_inv (lg : List Guard) (ops : List BOp) : ∀ t : Tx,
    (batchLoop lg t ops).2.ro = t.ro ∧ (batchLoop lg t ops).2.active = t.active := by
  induction ops with
  | nil => intro t; exact ⟨rfl, rfl⟩
  | cons op rest ih =>
    intro t
    have hs := batchStep_inv lg t op
    simp only [batchLoop]
    split
    · rename_i e t' heq; rw [heq] at hs; exact hs
    · rename_i t' heq; rw [heq] at hs
      have := ih t'
      exact ⟨this.1.trans hs.1, this.2.trans hs.2⟩

abbrev LG : List Guard := R.sBatchWrite.loopGuards

theorem opGuards_ok (op : BOp) (h : bopOk L op = true) : opGuards LG op = none := by
  cases op with
  | put k v =>
    simp only [bopOk, keyOk, valOk, Bool.and_eq_true, Bool.not_eq_true'] at h
    have h1 : keyBad 4096 k = false := h.1
    have h2 : valBad 10485760 v = false := h.2
    simp [LG, R, Kevo.Gen.rows, Kevo.Gen.s_BatchWrite, opGuards, opGuard, BOp.key, h1, h2]
  | del k =>
    simp only [bopOk, keyOk, Bool.not_eq_true'] at h
    have h1 : keyBad 4096 k = false := h
    simp [LG, R, Kevo.Gen.rows, Kevo.Gen.s_BatchWrite, opGuards, opGuard, BOp.key, h1]
  | bad k => simp [bopOk] at h

theorem batchStep_ok (t : Tx) (op : BOp) (h : bopOk L op = true) : batchStep LG t op = embOp t op := by
  unfold batchStep
  rw [opGuards_ok op h]
  cases op <;> rfl

theorem batchStep_bad (t : Tx) (op : BOp) (h : bopOk L op = false) : ∃ e, batchStep LG t op = (some e, t) := by
  cases op with
  | put k v =>
    simp only [bopOk, keyOk, valOk, Bool.and_eq_false_iff, Bool.not_eq_false'] at h
    by_cases h1 : keyBad 4096 k = true
    · exact ⟨.keySize, by simp [batchStep, LG, R, Kevo.Gen.rows, Kevo.Gen.s_BatchWrite, opGuards, opGuard, BOp.key, h1]⟩
    · have h1' : keyBad 4096 k = false := by simpa using h1
      have h2 : valBad 10485760 v = true := by
        rcases h with h | h
        · exact absurd h h1
        · exact h
      exact ⟨.valueSize, by simp [batchStep, LG, R, Kevo.Gen.rows, Kevo.Gen.s_BatchWrite, opGuards, opGuard, BOp.key, h1', h2]⟩
  | del k =>
    simp only [bopOk, keyOk, Bool.not_eq_false'] at h
    have h1 : keyBad 4096 k = true := h
    exact ⟨.keySize, by simp [batchStep, LG, R, Kevo.Gen.rows, Kevo.Gen.s_BatchWrite, opGuards, opGuard, BOp.key, h1]⟩
  | bad k =>
    by_cases h1 : keyBad 4096 k = true
    · exact ⟨.keySize, by simp [batchStep, LG, R, Kevo.Gen.rows, Kevo.Gen.s_BatchWrite, opGuards, opGuard, BOp.key, h1]⟩
    · have h1' : keyBad 4096 k = false := by simpa using h1
      exact ⟨.badOp, by simp [batchStep, LG, R, Kevo.Gen.rows, Kevo.Gen.s_BatchWrite, opGuards, opGuard, BOp.key, h1']⟩

theorem batchLoop_ok (ops : List BOp) (h : ops.all (bopOk L) = true) : ∀ t : Tx, batchLoop LG t ops = embOps t ops := by
  induction ops with
  | nil => intro t; rfl
  | cons op rest ih =>
    intro t
    simp only [List.all_cons, Bool.and_eq_true] at h
    simp only [batchLoop, embOps, batchStep_ok t op h.1]
    obtain ⟨r, t'⟩ := embOp t op
    cases r with
    | none => exact ih h.2 t'
    | some e => rfl

theorem batchLoop_bad (ops : List BOp) (h : ops.all (bopOk L) = false) : ∀ t : Tx, ∃ e, (batchLoop LG t ops).1 = some e := by
  induction ops with
  | nil => simp at h
  | cons op rest ih =>
    intro t
    simp only [batchLoop]
    split
    · rename_i e t' heq; exact ⟨e, rfl⟩
    · rename_i t' heq
      cases hop : bopOk L op with
      | false =>
        obtain ⟨e, he⟩ := batchStep_bad t op hop
        rw [he] at heq; cases heq
      | true =>
        simp only [List.all_cons, hop, Bool.true_and] at h
        exact ih h t'

/-- a read-only transaction: the loop stops at its first operation -/
theorem batchLoop_ro (op : BOp) (rest : List BOp) (t : Tx) (hro : t.ro = true) (ha : t.active = true) :
    ∃ e, batchLoop LG t (op :: rest) = (some e, t) ∧ (bopOk L op = true → e = .roTx) := by
  cases hop : bopOk L op with
  | false =>
    obtain ⟨e, he⟩ := batchStep_bad t op hop
    exact ⟨e, by simp only [batchLoop, he], fun h => by cases h⟩
  | true =>
    refine ⟨.roTx, ?_, fun _ => rfl⟩
    simp only [batchLoop, batchStep_ok t op hop]
    cases op with
    | put k v => simp only [embOp, put_ro t hro, ha, ↓reduceIte]
    | del k => simp only [embOp, delete_ro t hro, ha, ↓reduceIte]
    | bad k => simp [bopOk] at hop

theorem rollback_active (t : Tx) (e : Eng) (ha : t.active = true) : (t.rollback e).2.2 = unlock t e := by
  simp [Tx.rollback, ha]

theorem unlock_ro_only (t t' : Tx) (e : Eng) (h : t'.ro = t.ro) : unlock t' e = unlock t e := by
  simp [unlock, h]

/-! ## requests outside the limits -/

def Rejected (r : Resp) : Prop := (∃ e, r = .err e) ∨ r = .blocked

theorem keyBad_of (k : Bytes) (h : keyOk L k = false) : keyBad 4096 k = true := by
  have h' : (!keyBad 4096 k) = false := h
  simpa using h'

theorem valBad_of (v : Bytes) (h : valOk L v = false) : valBad 10485760 v = true := by
  have h' : (!valBad 10485760 v) = false := h
  simpa using h'

theorem keyOk_of (k : Bytes) (h : keyOk L k = true) : keyBad 4096 k = false := by
  have h' : (!keyBad 4096 k) = true := h
  simpa using h'

theorem valOk_of (v : Bytes) (h : valOk L v = true) : valBad 10485760 v = false := by
  have h' : (!valBad 10485760 v) = true := h
  simpa using h'

theorem kv_bad (k v : Bytes) (h : (keyOk L k && valOk L v) = false) (hk : keyBad 4096 k = false) : valBad 10485760 v = true := by
  have : keyOk L k = true := by
    show (!keyBad 4096 k) = true
    rw [hk]; rfl
  rw [this, Bool.true_and] at h
  exact valBad_of v h

theorem reject_no_effect (req : Req) (st : Svc) (h : withinLimits L req = false) :
    (handle R req st).2 = st ∧ Rejected (handle R req st).1 := by
  cases req with
  | get k =>
    rw [handle_get, keyBad_of k h]; exact ⟨rfl, Or.inl ⟨_, rfl⟩⟩
  | delete k =>
    rw [handle_delete, keyBad_of k h]; exact ⟨rfl, Or.inl ⟨_, rfl⟩⟩
  | put k v =>
    rw [handle_put]
    cases hk : keyBad 4096 k with
    | true => exact ⟨rfl, Or.inl ⟨_, rfl⟩⟩
    | false => rw [kv_bad k v h hk]; exact ⟨rfl, Or.inl ⟨_, rfl⟩⟩
  | txGet id k =>
    rw [handle_txGet]
    cases st.tx? id with
    | none => exact ⟨rfl, Or.inl ⟨_, rfl⟩⟩
    | some t => rw [keyBad_of k h]; exact ⟨rfl, Or.inl ⟨_, rfl⟩⟩
  | txDelete id k =>
    rw [handle_txDelete]
    cases st.tx? id with
    | none => exact ⟨rfl, Or.inl ⟨_, rfl⟩⟩
    | some t =>
      obtain ⟨ro, buf, act⟩ := t
      rw [keyBad_of k h]
      cases ro <;> exact ⟨rfl, Or.inl ⟨_, rfl⟩⟩
  | txPut id k v =>
    rw [handle_txPut]
    cases st.tx? id with
    | none => exact ⟨rfl, Or.inl ⟨_, rfl⟩⟩
    | some t =>
      obtain ⟨ro, buf, act⟩ := t
      cases ro with
      | true => exact ⟨rfl, Or.inl ⟨_, rfl⟩⟩
      | false =>
        cases hk : keyBad 4096 k with
        | true => exact ⟨rfl, Or.inl ⟨_, rfl⟩⟩
        | false => rw [kv_bad k v h hk]; exact ⟨rfl, Or.inl ⟨_, rfl⟩⟩
  | batchWrite ops =>
    rw [handle_batch]
    cases h0 : (ops.length == 0) with
    | true =>
      -- an empty batch is within the limits
      have : ops = [] := by simpa using h0
      subst this
      simp [withinLimits, tooMany] at h
    | false =>
      cases hm : tooMany 1000 ops.length with
      | true => exact ⟨rfl, Or.inl ⟨_, rfl⟩⟩
      | false =>
        have hall : ops.all (bopOk L) = false := by
          have h' : (!tooMany 1000 ops.length && ops.all (bopOk L)) = false := h
          rw [hm] at h'
          simpa using h'
        show (delegate R (.batchWrite ops) st).2 = st ∧ Rejected (delegate R (.batchWrite ops) st).1
        simp only [delegate, withTx_eq]
        cases hc : st.eng.closed with
        | true => exact ⟨rfl, Or.inl ⟨_, rfl⟩⟩
        | false =>
          rw [Bool.false_or]
          cases hb : wouldBlock st.eng.readOnly st.eng with
          | true => exact ⟨rfl, Or.inr rfl⟩
          | false =>
            obtain ⟨e, he⟩ := batchLoop_bad ops hall { ro := st.eng.readOnly }
            have hinv := batchLoop_inv LG ops { ro := st.eng.readOnly }
            generalize hres : batchLoop LG { ro := st.eng.readOnly } ops = res at he hinv
            obtain ⟨r1, t'⟩ := res
            have he' : r1 = some e := he
            subst he'
            have hres' : batchLoop R.sBatchWrite.loopGuards { ro := st.eng.readOnly } ops = (some e, t') := hres
            simp only [Bool.false_eq_true, ↓reduceIte]
            refine ⟨?_, Or.inl ⟨_, rfl⟩⟩
            have hu := unlock_begin { ro := st.eng.readOnly } st.eng hb
            rw [rollback_active t' _ hinv.2, unlock_ro_only { ro := st.eng.readOnly } t' _ hinv.1, hu]
  | scan o => simp [withinLimits] at h
  | begin ro => simp [withinLimits] at h
  | commit id => simp [withinLimits] at h
  | rollback id => simp [withinLimits] at h
  | txScan id o => simp [withinLimits] at h
  | getStats => simp [withinLimits] at h
  | compact f => simp [withinLimits] at h
  | getNodeInfo => simp [withinLimits] at h

/-! ## service = embedded -/

/-- every transaction of the handle table is open (commit / rollback remove the handle in the same step) -/
def AllActive (st : Svc) : Prop := ∀ p ∈ st.txs, p.2.active = true
/-- the node was put into read-only mode by its replication manager (the only caller of SetReadOnly in the server) -/
def Wired (st : Svc) : Prop := st.mgr.isSome = true ∨ st.eng.readOnly = false

def notCompact : Req → Bool
  | .compact _ => false
  | _ => true

theorem lookup_mem (l : List (Nat × Tx)) (id : Nat) (t : Tx) (h : l.lookup id = some t) : (id, t) ∈ l := by
  induction l with
  | nil => simp at h
  | cons p r ih =>
    obtain ⟨a, b⟩ := p
    simp only [List.lookup] at h
    split at h
    · rename_i heq
      have : id = a := by simpa using heq
      cases h; subst this; exact List.mem_cons_self
    · exact List.mem_cons_of_mem _ (ih h)

theorem tx_active (st : Svc) (ha : AllActive st) (id : Nat) (t : Tx) (h : st.tx? id = some t) : t.active = true :=
  ha (id, t) (lookup_mem st.txs id t h)

theorem svc_equiv_partial (req : Req) (st : Svc) (hl : withinLimits L req = true) (hc : st.eng.closed = false)
    (ha : AllActive st) (hw : Wired st) (hn : notCompact req = true) :
    (handle R req st).1.norm = (embed R req st).1.norm ∧ (handle R req st).2 = (embed R req st).2 := by
  cases req with
  | get k =>
    rw [handle_get, keyOk_of k hl]
    cases hg : Kevo.Engine.get st.eng.store k <;> constructor <;> simp [delegate, embed, run_fGet_open _ hc, hg]
  | put k v =>
    have h' : (keyOk L k && valOk L v) = true := hl
    rw [Bool.and_eq_true] at h'
    rw [handle_put, keyOk_of k h'.1, valOk_of v h'.2]
    exact ⟨rfl, rfl⟩
  | delete k =>
    rw [handle_delete, keyOk_of k hl]
    exact ⟨rfl, rfl⟩
  | batchWrite ops =>
    cases ops with
    | nil => rw [handle_batch]; exact ⟨rfl, rfl⟩
    | cons op rest =>
      have h' : (!tooMany 1000 (op :: rest).length && (op :: rest).all (bopOk L)) = true := hl
      rw [Bool.and_eq_true] at h'
      have hm : tooMany 1000 (op :: rest).length = false := by simpa using h'.1
      rw [handle_batch, hm]
      have h0 : ((op :: rest).length == 0) = false := by simp
      rw [h0]
      simp only [Bool.false_eq_true, ↓reduceIte, delegate, embed]
      have hfun : (fun (t : Tx) (e : Eng) =>
            match batchLoop R.sBatchWrite.loopGuards t (op :: rest) with
            | (some err, t') => (Resp.err err, (t'.rollback e).2.2)
            | (none, t') => (respOf (t'.commit e).1, (t'.commit e).2.2)) =
          (fun (t : Tx) (e : Eng) =>
            match embOps t (op :: rest) with
            | (some err, t') => (Resp.err err, (t'.rollback e).2.2)
            | (none, t') => (respOf (t'.commit e).1, (t'.commit e).2.2)) := by
        funext t e
        rw [show batchLoop R.sBatchWrite.loopGuards t (op :: rest) = embOps t (op :: rest) from batchLoop_ok _ h'.2 t]
      exact ⟨congrArg (fun f => (withTx R false st f).1.norm) hfun, congrArg (fun f => (withTx R false st f).2) hfun⟩
  | scan o =>
    rw [handle_scan]
    constructor <;> simp only [delegate, embed, scanOf, scanEmb, scanRun_eq_scanSpec]
  | begin ro => rw [handle_begin]; exact ⟨rfl, rfl⟩
  | commit id =>
    rw [handle_commit]
    cases h : st.tx? id with
    | none => constructor <;> simp only [embed, delegate, h]
    | some t => exact ⟨rfl, rfl⟩
  | rollback id =>
    rw [handle_rollback]
    cases h : st.tx? id with
    | none => constructor <;> simp only [embed, delegate, h]
    | some t => exact ⟨rfl, rfl⟩
  | txGet id k =>
    rw [handle_txGet]
    cases h : st.tx? id with
    | none => constructor <;> simp only [embed, h]
    | some t =>
      have hact := tx_active st ha id t h
      rw [keyOk_of k hl]
      cases hb : bufGet t.buf k with
      | some r => cases r <;> constructor <;> simp [delegate, embed, h, Tx.get, hact, hb]
      | none =>
        cases hg : Kevo.Engine.get st.eng.store k <;> constructor <;> simp [delegate, embed, h, Tx.get, hact, hc, hb, hg]
  | txPut id k v =>
    have h' : (keyOk L k && valOk L v) = true := hl
    rw [Bool.and_eq_true] at h'
    rw [handle_txPut]
    cases h : st.tx? id with
    | none => constructor <;> simp only [embed, delegate, h]
    | some t =>
      have hact := tx_active st ha id t h
      obtain ⟨ro, buf, act⟩ := t
      have hact' : act = true := hact
      subst hact'
      cases ro with
      | true => constructor <;> simp [embed, delegate, h, Tx.put, Resp.norm]
      | false =>
        rw [keyOk_of k h'.1, valOk_of v h'.2]
        exact ⟨rfl, rfl⟩
  | txDelete id k =>
    rw [handle_txDelete]
    cases h : st.tx? id with
    | none => constructor <;> simp only [embed, delegate, h]
    | some t =>
      have hact := tx_active st ha id t h
      obtain ⟨ro, buf, act⟩ := t
      have hact' : act = true := hact
      subst hact'
      cases ro with
      | true => constructor <;> simp [embed, delegate, h, Tx.delete, Resp.norm]
      | false =>
        rw [keyOk_of k hl]
        exact ⟨rfl, rfl⟩
  | txScan id o =>
    rw [handle_txScan]
    cases h : st.tx? id with
    | none => constructor <;> simp only [embed, h]
    | some t => constructor <;> simp only [delegate, embed, h, scanOf, scanEmb, scanRun_eq_scanSpec]
  | getStats => rw [handle_getStats]; exact ⟨rfl, rfl⟩
  | compact f => simp [notCompact] at hn
  | getNodeInfo =>
    rw [handle_getNodeInfo]
    cases hm : st.mgr with
    | some m => constructor <;> simp [embed, hm, nodeInfo, nodeTruth]
    | none =>
      have : st.eng.readOnly = false := by
        rcases hw with h | h
        · rw [hm] at h; cases h
        · exact h
      constructor <;> simp [embed, hm, nodeInfo, nodeTruth, this]

/-! ## a read-only engine behind the service -/

theorem svc_put_readonly (k v : Bytes) (st : Svc) (hro : st.eng.readOnly = true) :
    (handle R (.put k v) st).2 = st ∧ ∃ e, (handle R (.put k v) st).1 = .err e ∧
      (st.eng.closed = false → withinLimits L (.put k v) = true → e = .readOnlyMode) := by
  obtain ⟨h1, h2, h3⟩ := ro_rejects R.fPut (by decide) (.kv k v) st.eng hro
  rw [handle_put]
  cases hk : keyBad 4096 k with
  | true =>
    refine ⟨rfl, _, rfl, ?_⟩
    intro _ hl
    have h' : (keyOk L k && valOk L v) = true := hl
    rw [Bool.and_eq_true] at h'
    rw [keyOk_of k h'.1] at hk; cases hk
  | false =>
    cases hv : valBad 10485760 v with
    | true =>
      refine ⟨rfl, _, rfl, ?_⟩
      intro _ hl
      have h' : (keyOk L k && valOk L v) = true := hl
      rw [Bool.and_eq_true] at h'
      rw [valOk_of v h'.2] at hv; cases hv
    | false =>
      simp only [Bool.false_eq_true, ↓reduceIte, delegate, h1]
      cases he : (run R.fPut (.kv k v) st.eng).err with
      | none => rw [he] at h2; cases h2
      | some e => exact ⟨by trivial, e, rfl, fun hc _ => by have := h3 hc; rw [he] at this; cases this; rfl⟩

theorem svc_delete_readonly (k : Bytes) (st : Svc) (hro : st.eng.readOnly = true) :
    (handle R (.delete k) st).2 = st ∧ ∃ e, (handle R (.delete k) st).1 = .err e ∧
      (st.eng.closed = false → withinLimits L (.delete k) = true → e = .readOnlyMode) := by
  obtain ⟨h1, h2, h3⟩ := ro_rejects R.fDelete (by decide) (.key k) st.eng hro
  rw [handle_delete]
  cases hk : keyBad 4096 k with
  | true =>
    refine ⟨rfl, _, rfl, ?_⟩
    intro _ hl
    rw [keyOk_of k hl] at hk; cases hk
  | false =>
    simp only [Bool.false_eq_true, ↓reduceIte, delegate, h1]
    cases he : (run R.fDelete (.key k) st.eng).err with
    | none => rw [he] at h2; cases h2
    | some e => exact ⟨by trivial, e, rfl, fun hc _ => by have := h3 hc; rw [he] at this; cases this; rfl⟩

/-- BatchWrite on a read-only engine: the state is exactly what it was; a non-empty batch within the limits is refused
    with the read-only-transaction error (unless the engine is closed or the call has to wait for the lock) -/
theorem svc_batch_readonly (ops : List BOp) (st : Svc) (hro : st.eng.readOnly = true) :
    (handle R (.batchWrite ops) st).2 = st ∧
    (st.eng.closed = false → (handle R (.batchWrite ops) st).1 ≠ .blocked → ops ≠ [] → withinLimits L (.batchWrite ops) = true →
      (handle R (.batchWrite ops) st).1 = .err .roTx) := by
  rw [handle_batch]
  cases ops with
  | nil => exact ⟨rfl, fun _ _ h => absurd rfl h⟩
  | cons op rest =>
    have h0 : ((op :: rest).length == 0) = false := by simp
    rw [h0]
    cases hm : tooMany 1000 (op :: rest).length with
    | true =>
      refine ⟨rfl, ?_⟩
      intro _ _ _ hl
      have h' : (!tooMany 1000 (op :: rest).length && (op :: rest).all (bopOk L)) = true := hl
      rw [hm] at h'; cases h'
    | false =>
      show (delegate R (.batchWrite (op :: rest)) st).2 = st ∧ _
      simp only [delegate, withTx_eq, hro, Bool.or_true, Bool.false_eq_true, ↓reduceIte]
      cases hc : st.eng.closed with
      | true => exact ⟨rfl, fun h => by cases h⟩
      | false =>
        cases hb : wouldBlock true st.eng with
        | true => exact ⟨rfl, fun _ h => absurd rfl h⟩
        | false =>
          obtain ⟨e, he, hok⟩ := batchLoop_ro op rest { ro := true } rfl rfl
          have he' : batchLoop R.sBatchWrite.loopGuards { ro := true } (op :: rest) = (some e, { ro := true }) := he
          simp only [Bool.false_eq_true, ↓reduceIte, he']
          have hu := unlock_begin { ro := true } st.eng hb
          rw [rollback_active _ _ rfl, hu]
          refine ⟨rfl, ?_⟩
          intro _ _ _ hl
          have h' : (!tooMany 1000 (op :: rest).length && (op :: rest).all (bopOk L)) = true := hl
          rw [Bool.and_eq_true, List.all_cons, Bool.and_eq_true] at h'
          rw [hok h'.2.1]

theorem commit_active_ro (t : Tx) (e : Eng) (hro : t.ro = true) (ha : t.active = true) :
    t.commit e = (none, { t with active := false }, unlock t e) := by
  simp [Tx.commit, hro, ha]

/-- Compact on a read-only engine: nothing changes; with the force flag the request is refused -/
theorem svc_compact_readonly (force : Bool) (st : Svc) (hro : st.eng.readOnly = true) :
    (handle R (.compact force) st).2 = st ∧
    (st.eng.closed = false → (handle R (.compact force) st).1 ≠ .blocked → force = true →
      (handle R (.compact force) st).1 = .err .roTx) := by
  rw [handle_compact]
  simp only [delegate, withTx_eq, hro, Bool.or_true]
  cases hc : st.eng.closed with
  | true => exact ⟨rfl, fun h => by cases h⟩
  | false =>
    cases hb : wouldBlock true st.eng with
    | true => exact ⟨rfl, fun _ h => absurd rfl h⟩
    | false =>
      have hu := unlock_begin { ro := true } st.eng hb
      cases force with
      | true =>
        simp only [Bool.false_eq_true, ↓reduceIte, put_ro { ro := true } rfl]
        rw [rollback_active _ _ rfl, hu]
        exact ⟨by trivial, fun _ _ _ => by trivial⟩
      | false =>
        simp only [Bool.false_eq_true, ↓reduceIte, commit_active_ro { ro := true } _ rfl rfl, hu]
        exact ⟨by trivial, fun _ _ h => by cases h⟩

/-! ## reads on a replica: the answers are functions of the data alone (the read-only flag does not occur) -/

theorem view_fresh (e : Eng) (hc : e.closed = false) (ro : Bool) :
    ({ ro := ro } : Tx).view e = storeView e.store ∧ ({ ro := ro } : Tx).rangeView e = storeRangeView e.store := by
  constructor
  · simp [Tx.view, hc]
  · funext lo hi; simp [Tx.rangeView, hc]

theorem svc_get_served (st : Svc) (k : Bytes) (hl : withinLimits L (.get k) = true) (hc : st.eng.closed = false) :
    handle R (.get k) st = (match Kevo.Engine.get st.eng.store k with | some v => .found v | none => .notFound, st) := by
  rw [handle_get, keyOk_of k hl]
  simp only [Bool.false_eq_true, ↓reduceIte, delegate, run_fGet_open _ hc]
  cases Kevo.Engine.get st.eng.store k <;> rfl

theorem svc_scan_served (st : Svc) (o : ScanOpts) (hc : st.eng.closed = false) (hw : st.eng.wlock = false) :
    handle R (.scan o) st = (.pairs (scanSpec o (storeView st.eng.store) (storeRangeView st.eng.store)), st) := by
  rw [handle_scan]
  have hb : wouldBlock true st.eng = false := by simp [wouldBlock, hw]
  have hcl : (beginEng true st.eng).closed = false := by rw [(beginEng_fields true st.eng).2.1]; exact hc
  have hv := view_fresh (beginEng true st.eng) hcl true
  have hu := unlock_begin { ro := true } st.eng hb
  have hr : (({ ro := true } : Tx).rollback (beginEng true st.eng)).2.2 = st.eng := by
    rw [rollback_active _ _ rfl]; exact hu
  simp only [delegate, withTx_eq, hc, Bool.true_or, hb, Bool.false_eq_true, ↓reduceIte, scanOf, scanRun_eq_scanSpec, hv.1, hv.2,
    (beginEng_fields true st.eng).1, hr]

theorem svc_txGet_served (st : Svc) (id : Nat) (t : Tx) (h : st.tx? id = some t) (ha : t.active = true) (k : Bytes)
    (hl : withinLimits L (.txGet id k) = true) (hc : st.eng.closed = false) :
    handle R (.txGet id k) st =
      (match bufGet t.buf k with
        | some (some v) => .found v
        | some none => .notFound
        | none => match Kevo.Engine.get st.eng.store k with | some v => .found v | none => .notFound, st) := by
  rw [handle_txGet, h, keyOk_of k hl]
  simp only [Bool.false_eq_true, ↓reduceIte, delegate, h, Tx.get, ha, Bool.not_true, hc]
  cases bufGet t.buf k with
  | some r => cases r <;> rfl
  | none => simp only []; cases Kevo.Engine.get st.eng.store k <;> rfl

theorem svc_txScan_served (st : Svc) (id : Nat) (t : Tx) (h : st.tx? id = some t) (o : ScanOpts) :
    handle R (.txScan id o) st = (.pairs (scanSpec o (t.view st.eng) (t.rangeView st.eng)), st) := by
  rw [handle_txScan, h]
  simp only [delegate, h, scanOf, scanRun_eq_scanSpec]

/-! ## the replication path on a replica -/

theorem eng_eta_ro (e : Eng) (s : Store) (h : e.readOnly = true) :
    ({ ({ e with readOnly := false, store := s } : Eng) with readOnly := true } : Eng) = { e with store := s } := by
  obtain ⟨c, r, st, rl, wl⟩ := e
  cases h; rfl

theorem replicated_apply (e : Eng) (hro : e.readOnly = true) (hc : e.closed = false) (k v : Bytes) :
    applyEntry R 1 k v e = (none, { e with store := Kevo.Engine.put e.store k v }) ∧
    applyEntry R 2 k v e = (none, { e with store := Kevo.Engine.delete e.store k }) ∧
    applyEntry R 3 k v e = (none, { e with store := Kevo.Engine.put e.store k v }) := by
  have hflag : (run R.fIsReadOnly .none e).val = .flag true := by
    rw [run_unguarded R.fIsReadOnly (by decide) (by decide) _ e hc]
    show Val.flag e.readOnly = _
    rw [hro]
  have hput := run_unguarded R.fPutInternal (by decide) (by decide) (.kv k v) e hc
  have hdel := run_unguarded R.fDeleteInternal (by decide) (by decide) (.key k) e hc
  refine ⟨?_, ?_, ?_⟩
  · simp only [applyEntry, hflag, ↓reduceIte, hput]; rfl
  · simp only [applyEntry, hflag, hdel]; rfl
  · have h1 : run R.fSetReadOnly (.flag false) e = { eng := { e with readOnly := false } } := by
      rw [run_unguarded R.fSetReadOnly (by decide) (by decide) _ e hc]; rfl
    have h2 : run R.fPut (.kv k v) { e with readOnly := false } =
        { eng := { e with readOnly := false, store := Kevo.Engine.put e.store k v } } := by
      simp [run, R, Kevo.Gen.rows, Kevo.Gen.f_Put, guardErr, effArg, applyOp, hc]
    have h3 : ∀ e' : Eng, e'.closed = false → run R.fSetReadOnly (.flag true) e' = { eng := { e' with readOnly := true } } := by
      intro e' hc'
      rw [run_unguarded R.fSetReadOnly (by decide) (by decide) _ e' hc']; rfl
    simp only [applyEntry, hflag, h1, h2]
    rw [h3 { closed := e.closed, store := Kevo.Engine.put e.store k v, rlocks := e.rlocks, wlock := e.wlock } hc]
    obtain ⟨c, r, st, rl, wl⟩ := e
    cases hro
    rfl

/-! ## BeginTransaction(readOnly = false) on a read-only engine (D33, as coded) -/

theorem begin_downgraded (e : Eng) (hro : e.readOnly = true) (hc : e.closed = false) (hw : e.wlock = false) :
    run R.fBegin (.flag false) e = { val := .tx true, eng := { e with rlocks := e.rlocks + 1 } } := by
  rw [run_fBegin]
  simp [hc, hro, wouldBlock, hw, applyOp]

/-- over the service: the handle that BeginTransaction(read_only = false) returns is a read-only transaction -/
theorem svc_begin_downgraded (st : Svc) (hro : st.eng.readOnly = true) (hc : st.eng.closed = false) (hw : st.eng.wlock = false) :
    handle R (.begin false) st =
      (.txid (st.nextID + 1),
       { st with eng := { st.eng with rlocks := st.eng.rlocks + 1 }, nextID := st.nextID + 1,
                 txs := (st.nextID + 1, { ro := true }) :: st.txs }) := by
  rw [handle_begin]
  simp only [delegate, begin_downgraded st.eng hro hc hw]
  rfl

/-- writes through a read-only handle are refused and change nothing; its commit leaves the data alone -/
theorem svc_ro_handle (st : Svc) (id : Nat) (t : Tx) (h : st.tx? id = some t) (hro : t.ro = true) (k v : Bytes) :
    handle R (.txPut id k v) st = (.err .svcRoTx, st) ∧ handle R (.txDelete id k) st = (.err .svcRoTx, st) ∧
    (handle R (.commit id) st).2.eng.store = st.eng.store ∧ (handle R (.rollback id) st).2.eng.store = st.eng.store := by
  obtain ⟨ro, buf, act⟩ := t
  have hro' : ro = true := hro
  subst hro'
  refine ⟨?_, ?_, ?_, ?_⟩
  · rw [handle_txPut, h]; rfl
  · rw [handle_txDelete, h]; rfl
  · rw [handle_commit, h]
    simp only [delegate, h, Svc.removeTx]
    exact commit_ro _ rfl _
  · rw [handle_rollback, h]
    simp only [delegate, h, Svc.removeTx]
    exact rollback_store _ _

/-! ## the two places where the service is NOT the embedded API -/

/-- a forced Compact writes the key "__compact_marker__" into the user's key space -/
theorem compact_marker_written (st : Svc) (hc : st.eng.closed = false) (hro : st.eng.readOnly = false)
    (hw : st.eng.wlock = false) (hr : st.eng.rlocks = 0) :
    (handle R (.compact true) st).2.eng.store = Kevo.Engine.batch st.eng.store [(false, compactMarker, compactForce)] := by
  rw [handle_compact]
  simp only [delegate, withTx_eq, hc, hro, Bool.or_false, Bool.false_eq_true, ↓reduceIte]
  have hb : wouldBlock false st.eng = false := by simp [wouldBlock, hw, hr]
  simp only [hb, Bool.false_eq_true, ↓reduceIte]
  have hcl : (beginEng false st.eng).closed = false := by rw [(beginEng_fields false st.eng).2.1]; exact hc
  have hfit : batchEntryFits (false, compactMarker, compactForce) = true := by decide
  simp [Tx.put, Tx.commit, bufSet, bufOps, hcl, hfit, (unlock_store _ _).1, (beginEng_fields false st.eng).1]

end Kevo.Proofs.ServiceApi
