/-
  Kevo.Proofs.CrashTx — the transaction buffer keeps the last operation of every key (helper file for Proofs/Crash).
-/
import Kevo.Model.Crash
namespace Kevo.Proofs.CrashAux
open Kevo Kevo.Crash

theorem mem_insertKey (k x : Bytes) : ∀ (l : List Bytes), x ∈ insertKey k l ↔ x = k ∨ x ∈ l := by
  intro l
  induction l with
  | nil => simp [insertKey]
  | cons y ys ih =>
    unfold insertKey
    by_cases h1 : ltB k y = true
    · rw [if_pos h1]; simp
    · rw [if_neg h1]
      by_cases h2 : (k == y) = true
      · rw [if_pos h2]
        have : k = y := by simpa using h2
        subst this
        simp
      · rw [if_neg h2]
        simp only [List.mem_cons, ih]
        constructor
        · rintro (h | h | h)
          · right; left; exact h
          · left; exact h
          · right; right; exact h
        · rintro (h | h | h)
          · right; left; exact h
          · left; exact h
          · right; right; exact h

theorem mem_keys (x : Bytes) : ∀ (ops : List (Bool × Bytes × Bytes)) (init : List Bytes),
    x ∈ ops.foldl (fun acc (t : Bool × Bytes × Bytes) => insertKey t.2.1 acc) init ↔ x ∈ init ∨ ∃ t ∈ ops, t.2.1 = x := by
  intro ops
  induction ops with
  | nil => intro init; simp
  | cons t ops ih =>
    intro init
    rw [List.foldl_cons, ih, mem_insertKey]
    simp only [List.mem_cons, exists_eq_or_imp]
    constructor
    · rintro ((h | h) | h)
      · right; left; exact h.symm
      · left; exact h
      · right; right; exact h
    · rintro (h | h | h)
      · left; right; exact h
      · left; left; exact h.symm
      · right; exact h

theorem find_filterMap (k : Bytes) (f : Bytes → Option (Bool × Bytes × Bytes))
    (hf : ∀ k' t, f k' = some t → t.2.1 = k') : ∀ (keys : List Bytes),
    (keys.filterMap f).find? (fun t => t.2.1 == k) = if k ∈ keys then f k else none := by
  intro keys
  induction keys with
  | nil => simp
  | cons k0 ks ih =>
    rw [List.filterMap_cons]
    cases hk0 : f k0 with
    | none =>
      simp only []
      rw [ih]
      by_cases h : k = k0
      · subst h
        simp [hk0]
      · simp [h]
    | some t =>
      simp only []
      have ht := hf k0 t hk0
      rw [List.find?_cons]
      by_cases h : k0 = k
      · subst h
        have : (t.2.1 == k0) = true := by simp [ht]
        rw [this]
        simp [hk0]
      · have : (t.2.1 == k) = false := by
          rw [ht]; simpa using h
        rw [this, ih]
        have h' : ¬ k = k0 := fun e => h e.symm
        simp [h']

theorem bufferOps_find (ops : List (Bool × Bytes × Bytes)) (k : Bytes) :
    (bufferOps ops).find? (fun t => t.2.1 == k) = ops.reverse.find? (fun t => t.2.1 == k) := by
  have e1 : ∀ k : Bytes, (fun (x : Bool × Bytes × Bytes) => match x with | (_, k', _) => k' == k) =
      fun t => t.2.1 == k := by
    intro k; funext ⟨a, b, c⟩; rfl
  have e2 : (fun (acc : List Bytes) (x : Bool × Bytes × Bytes) => match x with | (_, k, _) => insertKey k acc) =
      fun acc t => insertKey t.2.1 acc := by
    funext acc ⟨a, b, c⟩; rfl
  unfold bufferOps
  simp only [e1, e2]
  rw [find_filterMap k (fun k => ops.reverse.find? (fun t => t.2.1 == k))]
  · split
    · rfl
    · rename_i hnot
      symm
      rw [List.find?_eq_none]
      intro t ht hk
      apply hnot
      rw [mem_keys]
      right
      exact ⟨t, by simpa using ht, by simpa using hk⟩
  · intro k' t hfind
    have := List.find?_some hfind
    simpa using this

end Kevo.Proofs.CrashAux
