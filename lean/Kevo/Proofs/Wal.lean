/-
  Kevo.Proofs.Wal — proofs about the WAL codec model (helper lemmas + the theorems re-exported by Props/C09).
-/
import Kevo.Model.WalLog
import Kevo.Spec.Log
import Kevo.Proofs.WalCodec
namespace Kevo.Proofs.Wal
open Kevo Kevo.Wal Kevo.Spec

def EntryWF (p : WalParams) (e : Entry) : Prop :=
  (e.op = p.opPut ∨ e.op = p.opDelete ∨ e.op = p.opMerge) ∧ e.seq < 2 ^ 64 ∧
  e.key.length < 2 ^ 32 ∧ e.val.length < 2 ^ 32

def OpWF (p : WalParams) : LogOp → Prop
  | .append op k v => (op = p.opPut ∨ op = p.opDelete ∨ op = p.opMerge) ∧ k.length < 2 ^ 32 ∧ v.length < 2 ^ 32
  | .batch es => ∀ t ∈ es, (t.1 = p.opPut ∨ t.1 = p.opDelete ∨ t.1 = p.opMerge) ∧
      payloadSize p { op := t.1, seq := 0, key := t.2.1, val := t.2.2 } ≤ p.maxRecord
  | .rotate => True
  | .reopen => True

def runLog (p : WalParams) (crc : Bytes → Nat) (ops : List LogOp) : Log :=
  ops.foldl (fun l o => match o with
    | .append op k v => (l.append p crc op k v).2
    | .batch es => (l.batch p crc es).2
    | .rotate => l.rotate
    | .reopen => l.reopen p crc) {}

theorem EntryWF.ok {p : WalParams} {e : Entry} (h : EntryWF p e) : EntryOK p e :=
  ⟨h.1, h.2.1, h.2.2.1, fun _ => h.2.2.2⟩

/-! ### the abstract log alone -/

def stamp (seq : Nat) : Nat × Bytes × Bytes → Entry := fun (op, k, v) => { op, seq, key := k, val := v }

theorem stamp_seq (seq : Nat) (t : Nat × Bytes × Bytes) : (stamp seq t).seq = seq := rfl

theorem step_batch (a : ALog) (es : List (Nat × Bytes × Bytes)) (h : es ≠ []) :
    a.step (.batch es) = { entries := a.entries ++ es.map (stamp a.next), next := a.next + 1 } := by
  have : es.isEmpty = false := by cases es <;> simp_all
  simp only [ALog.step, this]
  rfl

theorem step_batch_nil (a : ALog) : a.step (.batch []) = a := rfl

def SeqInv (a : ALog) : Prop :=
  a.entries.Pairwise (fun x y => x.seq ≤ y.seq) ∧ (∀ e ∈ a.entries, e.seq < a.next) ∧
  maxSeqOf a.entries + 1 = a.next

theorem pairwise_const (n : Nat) : ∀ (es : List Entry), (∀ e ∈ es, e.seq = n) →
    es.Pairwise (fun x y => x.seq ≤ y.seq) := by
  intro es
  induction es with
  | nil => intro _; exact List.Pairwise.nil
  | cons e es ih =>
    intro h
    refine List.Pairwise.cons ?_ (ih (fun e' h' => h e' (by simp [h'])))
    intro e' he'
    rw [h e (by simp), h e' (by simp [he'])]
    exact Nat.le_refl _

theorem foldl_max_const (n : Nat) : ∀ (es : List Entry) (m : Nat), (∀ e ∈ es, e.seq = n) → m ≤ n → es ≠ [] →
    es.foldl (fun m e => max m e.seq) m = n := by
  intro es
  induction es with
  | nil => intro m _ _ h; exact absurd rfl h
  | cons e es ih =>
    intro m h hm _
    rw [List.foldl_cons, h e (by simp)]
    have hmax : max m n = n := by omega
    rw [hmax]
    cases es with
    | nil => rfl
    | cons e' es' => exact ih n (fun e'' h' => h e'' (by simp [h'])) (Nat.le_refl _) (by simp)

theorem maxSeqOf_append_const (es es' : List Entry) (n : Nat) (h : ∀ e ∈ es', e.seq = n)
    (hm : maxSeqOf es ≤ n) (hne : es' ≠ []) : maxSeqOf (es ++ es') = n := by
  unfold maxSeqOf at hm ⊢
  rw [List.foldl_append]
  exact foldl_max_const n es' _ h hm hne

theorem norm_seq (p : WalParams) (e : Entry) : (norm p e).seq = e.seq := by
  unfold norm; split <;> rfl

theorem foldl_max_map_norm (p : WalParams) : ∀ (es : List Entry) (m : Nat),
    (es.map (norm p)).foldl (fun m e => max m e.seq) m = es.foldl (fun m e => max m e.seq) m := by
  intro es
  induction es with
  | nil => intro m; rfl
  | cons e es ih => intro m; simp only [List.map_cons, List.foldl_cons, norm_seq, ih]

theorem maxSeqOf_map_norm (p : WalParams) (es : List Entry) : maxSeqOf (es.map (norm p)) = maxSeqOf es :=
  foldl_max_map_norm p es 0

theorem SeqInv.add (a : ALog) (h : SeqInv a) (es' : List Entry) (hs : ∀ e ∈ es', e.seq = a.next) (hne : es' ≠ []) :
    SeqInv { entries := a.entries ++ es', next := a.next + 1 } := by
  obtain ⟨h1, h2, h3⟩ := h
  refine ⟨?_, ?_, ?_⟩
  · rw [List.pairwise_append]
    refine ⟨h1, pairwise_const _ es' hs, ?_⟩
    intro x hx y hy
    have := h2 x hx
    have := hs y hy
    omega
  · intro e he
    simp only [List.mem_append] at he
    rcases he with he | he
    · have := h2 e he; simp only; omega
    · have := hs e he; simp only; omega
  · simp only
    rw [maxSeqOf_append_const a.entries es' a.next hs (by omega) hne]

theorem SeqInv.step (a : ALog) (h : SeqInv a) (o : LogOp) : SeqInv (a.step o) := by
  cases o with
  | append op k v =>
    exact h.add a [{ op, seq := a.next, key := k, val := v }] (by intro e he; simp at he; rw [he]) (by simp)
  | batch es =>
    by_cases hes : es = []
    · subst hes; exact h
    · rw [step_batch a es hes]
      refine h.add a _ ?_ (by simpa using hes)
      intro e he
      simp only [List.mem_map] at he
      obtain ⟨t, _, rfl⟩ := he
      rfl
  | rotate => exact h
  | reopen => exact h

theorem SeqInv.foldl (ops : List LogOp) : ∀ (a : ALog), SeqInv a → SeqInv (ops.foldl ALog.step a) := by
  induction ops with
  | nil => intro a h; exact h
  | cons o ops ih => intro a h; exact ih _ (h.step a o)

theorem SeqInv.init : SeqInv {} := ⟨List.Pairwise.nil, by intro e he; simp at he, rfl⟩

theorem SeqInv.run (ops : List LogOp) : SeqInv (ALog.run ops) := SeqInv.foldl ops {} SeqInv.init

set_option linter.unusedVariables false in
theorem seq_of_program (p : WalParams) (ops : List LogOp) :
    (ALog.run ops).entries.Pairwise (fun a b => a.seq ≤ b.seq) ∧ ∀ e ∈ (ALog.run ops).entries, e.seq < (ALog.run ops).next :=
  ⟨(SeqInv.run ops).1, (SeqInv.run ops).2.1⟩

/-! ### batches -/

theorem payloadSize_seq (p : WalParams) (op s s' : Nat) (k v : Bytes) :
    payloadSize p { op, seq := s, key := k, val := v } = payloadSize p { op, seq := s', key := k, val := v } := rfl

theorem batchFits_too_large (p : WalParams) (seq : Nat) :
    ∀ (es : List (Nat × Bytes × Bytes)),
      (∃ t ∈ es, payloadSize p { op := t.1, seq := 0, key := t.2.1, val := t.2.2 } > p.maxRecord) →
      batchFits p seq es = false := by
  intro es ⟨t, ht, hbig⟩
  unfold batchFits
  rw [Bool.eq_false_iff]
  intro hall
  rw [List.all_eq_true] at hall
  have := hall t ht
  obtain ⟨op, k, v⟩ := t
  simp only [decide_eq_true_eq] at this
  rw [payloadSize_seq p op seq 0 k v] at this
  simp only at hbig
  omega

/-- a batch with an entry beyond the record limit is rejected as a whole: the log is left exactly as it was. -/
theorem batch_too_large (p : WalParams) (crc : Bytes → Nat) (l : Log) (es : List (Nat × Bytes × Bytes))
    (hne : es ≠ []) (hseq : l.next < p.maxSeq)
    (h : ∃ t ∈ es, payloadSize p { op := t.1, seq := 0, key := t.2.1, val := t.2.2 } > p.maxRecord) :
    (l.batch p crc es).1 = .error .tooLarge ∧ (l.batch p crc es).2 = l := by
  have hemp : es.isEmpty = false := by cases es <;> simp_all
  have hb := batchFits_too_large p l.next es h
  unfold Log.batch
  have c : ¬ l.next ≥ p.maxSeq := by omega
  rw [hemp]
  simp only [Bool.false_eq_true, if_false, if_neg c, hb, Bool.not_false, if_true, and_self]

/-! ### the log as files of encoded entries -/

def stepL (p : WalParams) (crc : Bytes → Nat) (l : Log) (o : LogOp) : Log :=
  match o with
  | .append op k v => (l.append p crc op k v).2
  | .batch es => (l.batch p crc es).2
  | .rotate => l.rotate
  | .reopen => l.reopen p crc

theorem runLog_eq (p : WalParams) (crc : Bytes → Nat) (ops : List LogOp) :
    runLog p crc ops = ops.foldl (stepL p crc) {} := rfl

theorem write_files (l : Log) (pre : List Bytes) (cur bs : Bytes) (h : l.files = pre ++ [cur]) :
    (l.write bs).files = pre ++ [cur ++ bs] ∧ (l.write bs).next = l.next := by
  unfold Log.write
  rw [h]
  simp

/-- the files are the encodings of `init ++ [last]` (lists of entries), which together are the abstract log. -/
structure Inv (p : WalParams) (crc : Bytes → Nat) (l : Log) (a : ALog) (n : Nat)
    (init : List (List Entry)) (last : List Entry) : Prop where
  files : l.files = init.map (encFile p crc) ++ [encFile p crc last]
  ok : ∀ es ∈ init ++ [last], ∀ e ∈ es, EntryOK p e
  entries : init.flatten ++ last = a.entries
  next : l.next = a.next
  bound : a.next ≤ n + 1
  seq : SeqInv a

theorem Inv.init (p : WalParams) (crc : Bytes → Nat) : Inv p crc {} {} 0 [] [] :=
  ⟨rfl, by simp, rfl, rfl, Nat.le_refl _, SeqInv.init⟩

theorem Inv.add (p : WalParams) (crc : Bytes → Nat) (l : Log) (a : ALog) (n : Nat)
    (init : List (List Entry)) (last : List Entry) (h : Inv p crc l a n init last)
    (es' : List Entry) (hne : es' ≠ []) (hs : ∀ e ∈ es', e.seq = a.next) (hok : ∀ e ∈ es', EntryOK p e) :
    Inv p crc { (l.write (encFile p crc es')) with next := l.next + 1 }
      { entries := a.entries ++ es', next := a.next + 1 } (n + 1) init (last ++ es') := by
  obtain ⟨hw, _⟩ := write_files l _ _ (encFile p crc es') h.files
  refine ⟨?_, ?_, ?_, ?_, ?_, h.seq.add a es' hs hne⟩
  · simp only [hw, encFile_append]
  · intro es hes e he
    simp only [List.mem_append, List.mem_singleton] at hes
    rcases hes with hes | rfl
    · exact h.ok es (by simp [hes]) e he
    · simp only [List.mem_append] at he
      rcases he with he | he
      · exact h.ok last (by simp) e he
      · exact hok e he
  · simp only [← h.entries, List.append_assoc]
  · simp only [h.next]
  · have := h.bound; simp only; omega

theorem batchFits_fit (p : WalParams) (seq : Nat) (es : List (Nat × Bytes × Bytes))
    (h : ∀ t ∈ es, payloadSize p { op := t.1, seq := 0, key := t.2.1, val := t.2.2 } ≤ p.maxRecord) :
    batchFits p seq es = true := by
  unfold batchFits
  rw [List.all_eq_true]
  intro t ht
  have := h t ht
  obtain ⟨op, k, v⟩ := t
  simp only [decide_eq_true_eq]
  rw [payloadSize_seq p op seq 0 k v]
  exact this

theorem batchBytes_fit (p : WalParams) (crc : Bytes → Nat) (seq : Nat) :
    ∀ (es : List (Nat × Bytes × Bytes)),
      (∀ t ∈ es, payloadSize p { op := t.1, seq := 0, key := t.2.1, val := t.2.2 } ≤ p.maxRecord) →
      batchBytes p crc seq es = encFile p crc (es.map (stamp seq)) := by
  intro es
  induction es with
  | nil => intro _; rfl
  | cons t es ih =>
    intro h
    obtain ⟨op, k, v⟩ := t
    have hfit : payloadSize p { op, seq, key := k, val := v } ≤ p.maxRecord := h (op, k, v) (by simp)
    unfold batchBytes
    rw [ih (fun t ht => h t (by simp [ht]))]
    simp only [List.map_cons, encFile_cons]
    have : encodeEntry p crc (stamp seq (op, k, v)) = record crc p.tFull (payload p { op, seq, key := k, val := v }) := by
      unfold encodeEntry
      simp only [stamp]
      exact if_pos hfit
    rw [this]

theorem Inv.step (p : WalParams) (hp : p.WF) (crc : Bytes → Nat) (hcrc : CrcOK crc) (l : Log) (a : ALog) (n : Nat)
    (init : List (List Entry)) (last : List Entry) (h : Inv p crc l a n init last)
    (o : LogOp) (ho : OpWF p o) (hn : n + 1 < p.maxSeq) :
    ∃ init' last', Inv p crc (stepL p crc l o) (a.step o) (n + 1) init' last' := by
  have hp' := hp
  obtain ⟨_, hM13, hM, _, _, _, _, hP, hD, hMg, hmaxSeq⟩ := hp'
  have hnext : ¬ l.next ≥ p.maxSeq := by have := h.bound; have := h.next; omega
  cases o with
  | append op k v =>
    obtain ⟨hop, hk, hv⟩ := ho
    have hvalid : validOp p op = true := by
      unfold validOp; simp only [Bool.or_eq_true, beq_iff_eq]
      rcases hop with h | h | h <;> simp [h]
    refine ⟨init, last ++ [{ op, seq := a.next, key := k, val := v }], ?_⟩
    have hI := h.add p crc l a n init last [{ op, seq := a.next, key := k, val := v }] (by simp)
      (by intro e he; simp at he; rw [he])
      (by
        intro e he; simp at he; rw [he]
        refine ⟨hop, ?_, hk, fun _ => hv⟩
        have := h.bound; simp only; omega)
    have e1 : encFile p crc [{ op, seq := a.next, key := k, val := v }] =
        encodeEntry p crc { op, seq := a.next, key := k, val := v } := by
      simp [encFile]
    simp only [stepL, Log.append, hvalid, Bool.not_true, Bool.false_eq_true, if_false, if_neg hnext, ALog.step]
    rw [e1, ← h.next] at hI
    rw [h.next] at hI ⊢
    exact hI
  | batch es =>
    by_cases hes : es = []
    · subst hes
      refine ⟨init, last, ?_⟩
      have : stepL p crc l (.batch []) = l := rfl
      rw [this, step_batch_nil]
      exact { h with bound := Nat.le_succ_of_le h.bound }
    · have hemp : es.isEmpty = false := by cases es <;> simp_all
      refine ⟨init, last ++ es.map (stamp a.next), ?_⟩
      have hI := h.add p crc l a n init last (es.map (stamp a.next)) (by simpa using hes)
        (by intro e he; simp only [List.mem_map] at he; obtain ⟨t, _, rfl⟩ := he; rfl)
        (by
          intro e he; simp only [List.mem_map] at he; obtain ⟨t, ht, rfl⟩ := he
          obtain ⟨hop, hsz⟩ := ho t ht
          obtain ⟨op, k, v⟩ := t
          simp only [payloadSize] at hsz
          refine ⟨hop, ?_, ?_, ?_⟩
          · have := h.bound; simp only [stamp]; omega
          · simp only [stamp]; omega
          · intro hnd
            simp only [stamp] at hnd ⊢
            rw [if_neg hnd] at hsz; omega)
      rw [step_batch a es hes]
      have hbb := batchBytes_fit p crc l.next es (fun t ht => (ho t ht).2)
      have hbf := batchFits_fit p l.next es (fun t ht => (ho t ht).2)
      simp only [stepL, Log.batch, hemp, Bool.false_eq_true, if_false, if_neg hnext, hbb, hbf, Bool.not_true]
      rw [h.next]
      rw [h.next] at hI
      exact hI
  | rotate =>
    refine ⟨init ++ [last], [], ?_⟩
    refine ⟨?_, ?_, ?_, h.next, Nat.le_succ_of_le h.bound, h.seq⟩
    · simp only [stepL, Log.rotate, h.files, List.map_append, List.map_cons, List.map_nil, encFile_nil]
    · intro es hes e he
      simp only [List.mem_append, List.mem_singleton] at hes
      rcases hes with hes | rfl
      · exact h.ok es (by simpa using hes) e he
      · simp at he
    · show (init ++ [last]).flatten ++ [] = a.entries
      rw [← h.entries]; simp
  | reopen =>
    refine ⟨init, last, ?_⟩
    have hfiles : l.files = (init ++ [last]).map (encFile p crc) := by
      rw [h.files]; simp
    have hrep : (l.replay p crc).entries = (init ++ [last]).flatten.map (norm p) := by
      unfold Log.replay
      rw [hfiles, replayDir_wf p hp crc hcrc _ h.ok]
    have hmax : maxSeqOf ((init ++ [last]).flatten.map (norm p)) = maxSeqOf a.entries := by
      rw [maxSeqOf_map_norm]
      congr 1
      rw [← h.entries]; simp
    have hnx : (stepL p crc l .reopen).next = a.next := by
      simp only [stepL, Log.reopen, hrep, hmax]
      have := h.seq.2.2
      omega
    exact ⟨h.files, h.ok, h.entries, hnx, Nat.le_succ_of_le h.bound, h.seq⟩

theorem Inv.foldl (p : WalParams) (hp : p.WF) (crc : Bytes → Nat) (hcrc : CrcOK crc) :
    ∀ (ops : List LogOp) (l : Log) (a : ALog) (n : Nat) (init : List (List Entry)) (last : List Entry),
      Inv p crc l a n init last → (∀ o ∈ ops, OpWF p o) → n + ops.length < p.maxSeq →
      ∃ init' last', Inv p crc (ops.foldl (stepL p crc) l) (ops.foldl ALog.step a) (n + ops.length) init' last' := by
  intro ops
  induction ops with
  | nil => intro l a n init last h _ _; exact ⟨init, last, h⟩
  | cons o ops ih =>
    intro l a n init last h hops hn
    simp only [List.length_cons] at hn
    obtain ⟨init1, last1, h1⟩ := h.step p hp crc hcrc l a n init last o (hops o (by simp)) (by omega)
    obtain ⟨init2, last2, h2⟩ := ih _ _ (n + 1) init1 last1 h1 (fun o' ho' => hops o' (by simp [ho'])) (by omega)
    refine ⟨init2, last2, ?_⟩
    have e : n + (o :: ops).length = n + 1 + ops.length := by simp only [List.length_cons]; omega
    rw [e]
    exact h2

theorem run_inv (p : WalParams) (hp : p.WF) (crc : Bytes → Nat) (hcrc : CrcOK crc) (ops : List LogOp)
    (hops : ∀ o ∈ ops, OpWF p o) (hov : ops.length + 1 < p.maxSeq) :
    ∃ init last, Inv p crc (runLog p crc ops) (ALog.run ops) ops.length init last := by
  obtain ⟨init, last, h⟩ := Inv.foldl p hp crc hcrc ops {} {} 0 [] [] (Inv.init p crc) hops (by omega)
  refine ⟨init, last, ?_⟩
  rw [Nat.zero_add] at h
  exact h

/-! ### the six statements

  Four of them (`readEntry_encodeEntry`, `replay_file`, `replay_program`, `entriesFrom_spec`) are FALSE for an
  arbitrary `crc : Bytes → Nat`: `record` stores only the low 32 bits (`le 4 (crc data)`) while `readRecord`
  compares the stored field with the untruncated `crc data`. Counterexample: `crc := fun _ => 2 ^ 32`, any
  well-formed entry (see `crc_counterexample` below). The `_corrected` versions add `∀ bs, crc bs < 2 ^ 32`. -/

theorem readEntry_encodeEntry (p : WalParams) (hp : p.WF) (crc : Bytes → Nat)
    (hcrc : ∀ bs, crc bs < 2 ^ 32) (e : Entry) (he : EntryWF p e)
    (rest : Bytes) (fuel : Nat) (hf : (encodeEntry p crc e).length < fuel) :
    readEntry p crc fuel {} (encodeEntry p crc e ++ rest) = (.ok (norm p e), {}, rest) :=
  readEntry_encodeEntry_ok p hp crc hcrc e he.ok rest fuel hf

theorem replay_file (p : WalParams) (hp : p.WF) (crc : Bytes → Nat) (hcrc : ∀ bs, crc bs < 2 ^ 32)
    (es : List Entry) (hes : ∀ e ∈ es, EntryWF p e) :
    let r := replayFile p crc (es.flatMap (encodeEntry p crc))
    r.entries = es.map (norm p) ∧ r.skipped = 0 ∧ r.outcome = .ok := by
  intro r
  have h : r = _ := replayFile_wf p hp crc hcrc es (fun e he => (hes e he).ok)
  rw [h]
  exact ⟨rfl, rfl, rfl⟩

theorem replay_program (p : WalParams) (hp : p.WF) (crc : Bytes → Nat) (hcrc : ∀ bs, crc bs < 2 ^ 32)
    (ops : List LogOp) (hops : ∀ o ∈ ops, OpWF p o) (hov : ops.length + 1 < p.maxSeq) :
    let l := runLog p crc ops
    let a := ALog.run ops
    (l.replay p crc).entries = a.entries.map (norm p) ∧ (l.replay p crc).isErr = false ∧ l.next = a.next := by
  intro l a
  obtain ⟨init, last, h⟩ := run_inv p hp crc hcrc ops hops hov
  have hfiles : l.files = (init ++ [last]).map (encFile p crc) := by
    rw [h.files]; simp
  have hrep : l.replay p crc =
      { entries := (init ++ [last]).flatten.map (norm p), okFiles := (init ++ [last]).length,
        hadErr := false, fatal := false, panic := false } := by
    unfold Log.replay
    rw [hfiles, replayDir_wf p hp crc hcrc _ h.ok]
  have hent : (init ++ [last]).flatten = a.entries := by
    rw [← h.entries]; simp
  rw [hrep]
  refine ⟨?_, ?_, h.next⟩
  · simp only [hent]
  · simp [DirReplay.isErr]

theorem entriesFrom_foldl (p : WalParams) (crc : Bytes → Nat) (s : Nat)
    (F : List Entry → Bytes → List Entry)
    (hF : ∀ acc es, (∀ e ∈ es, EntryOK p e) →
      F acc (encFile p crc es) = acc ++ (es.map (norm p)).filter (fun e => e.seq ≥ s)) :
    ∀ (parts : List (List Entry)) (acc : List Entry), (∀ es ∈ parts, ∀ e ∈ es, EntryOK p e) →
      (parts.map (encFile p crc)).foldl F acc = acc ++ (parts.flatten.map (norm p)).filter (fun e => e.seq ≥ s) := by
  intro parts
  induction parts with
  | nil => intro acc _; simp
  | cons es parts ih =>
    intro acc h
    rw [List.map_cons, List.foldl_cons, hF acc es (h es (by simp)), ih _ (fun es' h' => h es' (by simp [h']))]
    simp [List.append_assoc]

theorem entriesFrom_spec (p : WalParams) (hp : p.WF) (crc : Bytes → Nat) (hcrc : ∀ bs, crc bs < 2 ^ 32)
    (ops : List LogOp) (hops : ∀ o ∈ ops, OpWF p o) (hov : ops.length + 1 < p.maxSeq) (s : Nat) :
    (runLog p crc ops).entriesFrom p crc s =
      some (((ALog.run ops).entries.map (norm p)).filter (fun e => e.seq ≥ s)) := by
  obtain ⟨init, last, h⟩ := run_inv p hp crc hcrc ops hops hov
  unfold Log.entriesFrom
  by_cases hs : s ≥ (runLog p crc ops).next
  · rw [if_pos hs]
    congr 1
    symm
    rw [List.filter_eq_nil_iff]
    intro e he
    simp only [List.mem_map] at he
    obtain ⟨e', he', rfl⟩ := he
    have := h.seq.2.1 e' he'
    have := h.next
    rw [norm_seq]
    simp only [ge_iff_le, decide_eq_true_eq]
    omega
  · rw [if_neg hs]
    have hrev : (runLog p crc ops).files.reverse = encFile p crc last :: (init.map (encFile p crc)).reverse := by
      rw [h.files]; simp
    rw [hrev]
    simp only [List.reverse_reverse]
    rw [entriesFrom_foldl p crc s _ ?_ init [] (fun es hes => h.ok es (by simp [hes]))]
    · rw [entriesFromFile_wf p hp crc hcrc s last (h.ok last (by simp))]
      simp only [if_true, List.nil_append]
      rw [← h.entries]
      simp
    · intro acc es hes
      rw [entriesFromFile_wf p hp crc hcrc s es hes]
      simp only [if_true]

/-! ### the four statements as originally given (false for arbitrary `crc`, see above) and their refutation -/

/-- tiny well-formed parameters for the counterexample -/
def cexParams : WalParams :=
  { headerSize := 7, maxRecord := 20, tFull := 1, tFirst := 2, tMiddle := 3, tLast := 4,
    opPut := 1, opDelete := 2, opMerge := 3, maxSeq := 1000, skip := 1 }

/-- a "checksum" that does not fit the 4-byte field -/
def cexCrc : Bytes → Nat := fun _ => 2 ^ 32

def cexEntry : Entry := { op := 1, seq := 1, key := [], val := [] }

theorem cexParams_wf : cexParams.WF := by decide

theorem cexEntry_wf : EntryWF cexParams cexEntry := by unfold EntryWF; decide

/-- machine-checked counterexample: with `crc := fun _ => 2 ^ 32` the freshly written record is read back as
    `corrupt`, so `readEntry_encodeEntry` (and with it `replay_file`, `replay_program`, `entriesFrom_spec`)
    cannot hold for every `crc : Bytes → Nat`. -/
theorem crc_counterexample :
    (readEntry cexParams cexCrc 100 {} (encodeEntry cexParams cexCrc cexEntry ++ [])).1 = .error .corrupt := by
  rfl

theorem readEntry_encodeEntry_false :
    ¬ (∀ (p : WalParams) (_ : p.WF) (crc : Bytes → Nat) (e : Entry) (_ : EntryWF p e)
        (rest : Bytes) (fuel : Nat) (_ : (encodeEntry p crc e).length < fuel),
        readEntry p crc fuel {} (encodeEntry p crc e ++ rest) = (.ok (norm p e), {}, rest)) := by
  intro h
  have h1 := h cexParams cexParams_wf cexCrc cexEntry cexEntry_wf [] 100 (by decide)
  have h2 := crc_counterexample
  rw [h1] at h2
  exact absurd h2 (by intro h3; cases h3)

theorem replay_file_false :
    ¬ (∀ (p : WalParams) (_ : p.WF) (crc : Bytes → Nat) (es : List Entry) (_ : ∀ e ∈ es, EntryWF p e),
        let r := replayFile p crc (es.flatMap (encodeEntry p crc))
        r.entries = es.map (norm p) ∧ r.skipped = 0 ∧ r.outcome = .ok) := by
  intro h
  have h1 := (h cexParams cexParams_wf cexCrc [cexEntry] (by intro e he; simp at he; rw [he]; exact cexEntry_wf)).2.1
  have h2 : (replayFile cexParams cexCrc ([cexEntry].flatMap (encodeEntry cexParams cexCrc))).skipped = 1 := by rfl
  rw [h2] at h1
  exact absurd h1 (by decide)

def cexOps : List LogOp := [.append 1 [] []]

theorem cexOps_wf : ∀ o ∈ cexOps, OpWF cexParams o := by
  intro o ho
  simp only [cexOps, List.mem_singleton] at ho
  rw [ho]
  exact ⟨Or.inl rfl, by decide, by decide⟩

theorem replay_program_false :
    ¬ (∀ (p : WalParams) (_ : p.WF) (crc : Bytes → Nat) (ops : List LogOp)
        (_ : ∀ o ∈ ops, OpWF p o) (_ : ops.length + 1 < p.maxSeq),
        let l := runLog p crc ops
        let a := ALog.run ops
        (l.replay p crc).entries = a.entries.map (norm p) ∧ (l.replay p crc).isErr = false ∧ l.next = a.next) := by
  intro h
  have h1 := (h cexParams cexParams_wf cexCrc cexOps cexOps_wf (by decide)).1
  have h2 : (((runLog cexParams cexCrc cexOps).replay cexParams cexCrc).entries).length = 0 := by rfl
  rw [h1] at h2
  exact absurd h2 (by decide)

theorem entriesFrom_spec_false :
    ¬ (∀ (p : WalParams) (_ : p.WF) (crc : Bytes → Nat) (ops : List LogOp)
        (_ : ∀ o ∈ ops, OpWF p o) (_ : ops.length + 1 < p.maxSeq) (s : Nat),
        (runLog p crc ops).entriesFrom p crc s =
          some (((ALog.run ops).entries.map (norm p)).filter (fun e => e.seq ≥ s))) := by
  intro h
  have h1 := h cexParams cexParams_wf cexCrc cexOps cexOps_wf (by decide) 0
  have h2 : (runLog cexParams cexCrc cexOps).entriesFrom cexParams cexCrc 0 = some [] := by rfl
  rw [h2] at h1
  exact absurd h1 (by decide)

end Kevo.Proofs.Wal
