/-
  Kevo.Proofs.Wal — proofs about the WAL codec model (helper lemmas + the theorems re-exported by Props/C09).
-/
import Kevo.Model.WalLog
import Kevo.Spec.Log
namespace Kevo.Proofs.Wal
open Kevo Kevo.Wal Kevo.Spec

def EntryWF (p : WalParams) (e : Entry) : Prop :=
  (e.op = p.opPut ∨ e.op = p.opDelete ∨ e.op = p.opMerge) ∧ e.seq < 2 ^ 64 ∧
  e.key.length < 2 ^ 32 ∧ e.val.length < 2 ^ 32

def OpWF (p : WalParams) : LogOp → Prop
  | .append op k v => (op = p.opPut ∨ op = p.opDelete ∨ op = p.opMerge) ∧ k.length < 2 ^ 32 ∧ v.length < 2 ^ 32
  | .batch es => ∀ t ∈ es, (t.1 = p.opPut ∨ t.1 = p.opDelete ∨ t.1 = p.opMerge) ∧
      payloadSize p { op := t.1, seq := 0, key := t.2.1, val := t.2.2 } ≤ p.maxRecord
  | .rotate => True
  | .reopen => True

def runLog (p : WalParams) (crc : Bytes → Nat) (ops : List LogOp) : Log :=
  ops.foldl (fun l o => match o with
    | .append op k v => (l.append p crc op k v).2
    | .batch es => (l.batch p crc es).2
    | .rotate => l.rotate
    | .reopen => l.reopen p crc) {}

theorem readEntry_encodeEntry (p : WalParams) (hp : p.WF) (crc : Bytes → Nat) (e : Entry) (he : EntryWF p e)
    (rest : Bytes) (fuel : Nat) (hf : (encodeEntry p crc e).length < fuel) :
    readEntry p crc fuel {} (encodeEntry p crc e ++ rest) = (.ok (norm p e), {}, rest) := by
  sorry

theorem replay_file (p : WalParams) (hp : p.WF) (crc : Bytes → Nat) (es : List Entry) (hes : ∀ e ∈ es, EntryWF p e) :
    let r := replayFile p crc (es.flatMap (encodeEntry p crc))
    r.entries = es.map (norm p) ∧ r.skipped = 0 ∧ r.outcome = .ok := by
  sorry

theorem replay_program (p : WalParams) (hp : p.WF) (crc : Bytes → Nat) (ops : List LogOp)
    (hops : ∀ o ∈ ops, OpWF p o) (hov : ops.length + 1 < p.maxSeq) :
    let l := runLog p crc ops
    let a := ALog.run ops
    (l.replay p crc).entries = a.entries.map (norm p) ∧ (l.replay p crc).isErr = false ∧ l.next = a.next := by
  sorry

theorem entriesFrom_spec (p : WalParams) (hp : p.WF) (crc : Bytes → Nat) (ops : List LogOp)
    (hops : ∀ o ∈ ops, OpWF p o) (hov : ops.length + 1 < p.maxSeq) (s : Nat) :
    (runLog p crc ops).entriesFrom p crc s =
      some (((ALog.run ops).entries.map (norm p)).filter (fun e => e.seq ≥ s)) := by
  sorry

theorem seq_of_program (p : WalParams) (ops : List LogOp) :
    (ALog.run ops).entries.Pairwise (fun a b => a.seq ≤ b.seq) ∧ ∀ e ∈ (ALog.run ops).entries, e.seq < (ALog.run ops).next := by
  sorry

theorem batch_too_large (p : WalParams) (crc : Bytes → Nat) (l : Log) (es : List (Nat × Bytes × Bytes))
    (hne : es ≠ []) (hseq : l.next < p.maxSeq)
    (h : ∃ t ∈ es, payloadSize p { op := t.1, seq := 0, key := t.2.1, val := t.2.2 } > p.maxRecord) :
    (l.batch p crc es).1 = .error .tooLarge ∧ (l.batch p crc es).2.next = l.next := by
  sorry

end Kevo.Proofs.Wal
