/-
  Kevo.Proofs.Sorted — strictAsc / findGE lemmas (helper file for Proofs/Table).
-/
import Kevo.Model.Table
namespace Kevo.Proofs.TableAux
open Kevo Kevo.Block Kevo.Table

theorem strictAsc_cons (a : BEntry) (l : List BEntry) (h : strictAsc (a :: l) = true) :
    (∀ b ∈ l, ltB a.key b.key = true) ∧ strictAsc l = true := by
  induction l generalizing a with
  | nil => simp [strictAsc]
  | cons b l ih =>
    simp only [strictAsc, Bool.and_eq_true] at h
    obtain ⟨hab, hbl⟩ := h
    obtain ⟨h1, h2⟩ := ih b hbl
    refine ⟨?_, hbl⟩
    intro c hc
    rcases List.mem_cons.mp hc with rfl | hc
    · exact hab
    · exact ltB_trans hab (h1 c hc)

theorem strictAsc_pairwise (es : List BEntry) (h : strictAsc es = true) :
    es.Pairwise (fun a b => ltB a.key b.key = true) := by
  induction es with
  | nil => exact List.Pairwise.nil
  | cons a l ih =>
    obtain ⟨h1, h2⟩ := strictAsc_cons a l h
    exact List.Pairwise.cons h1 (ih h2)

theorem findGE_some (es : List BEntry) (hasc : strictAsc es = true) (t : Bytes) (i : Nat)
    (h : findGE es t = some i) :
    ∃ hi : i < es.length, ltB es[i].key t = false ∧
      ∀ e' ∈ es, ltB e'.key t = false → ltB e'.key es[i].key = false := by
  unfold findGE at h
  rw [List.findIdx?_eq_some_iff_getElem] at h
  obtain ⟨hi, hp, hlt⟩ := h
  refine ⟨hi, by simpa using hp, ?_⟩
  intro e' he' hge
  obtain ⟨j, hj, rfl⟩ := List.getElem_of_mem he'
  have hpw := strictAsc_pairwise es hasc
  rw [List.pairwise_iff_getElem] at hpw
  rcases Nat.lt_trichotomy j i with hji | hji | hji
  · have := hlt j hji
    simp [hge] at this
  · subst hji; exact ltB_irrefl _
  · exact ltB_asymm (hpw i j hi hj hji)

theorem findGE_none (es : List BEntry) (t : Bytes) (h : findGE es t = none) :
    ∀ e ∈ es, ltB e.key t = true := by
  unfold findGE at h
  rw [List.findIdx?_eq_none_iff] at h
  intro e he
  simpa using h e he


end Kevo.Proofs.TableAux
