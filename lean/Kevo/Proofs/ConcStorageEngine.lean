/-
  Kevo.Proofs.ConcStorageEngine — the `Store` axioms of the concurrent model (Kevo.Model.ConcStorage) hold for the
  sequential logical engine model of C01 (Kevo.Model.Engine: log files, memtable pool, manager's immutable list,
  SSTables), with the writer's critical section and the flush goroutine's work split into the micro-steps that run
  concurrently in the code. Uses the invariant EInv and its preservation lemmas from Kevo.Proofs.EngineLemmas
  (the lemmas behind `get_refines` / `flush_preserves_view`).
-/
import Kevo.Model.ConcStorage
import Kevo.Proofs.Engine
namespace Kevo.ConcStorage
open Kevo Kevo.Engine Kevo.Spec Kevo.Proofs.Engine

/-- the log record of a write -/
def engLog (seq : Nat) (k : Bytes) : Option Bytes → LogEntry
  | some x => { op := 1, seq := seq, key := k, val := x }
  | none => { op := 2, seq := seq, key := k, val := [] }

/-- log append + memtable insert of Manager.Put / Manager.Delete (inside mu.Lock) -/
def engInsert (s : Engine.St) (k : Bytes) (v : Option Bytes) : Engine.St :=
  { s with wal := appendLog s.wal [engLog s.walNext k v], walNext := s.walNext + 1,
           pool := s.pool.add s.cfg { key := k, seq := s.walNext, val := v }, lastSeq := s.walNext }

/-- Manager.scheduleFlush when the pool asks for it: pool switch + append to the manager's list (still inside mu.Lock).
    The flush itself is the background goroutine's work. -/
def engSchedule (s : Engine.St) : Engine.St :=
  if s.pool.flushPending then { s with pool := s.pool.switch.1, mgrImm := s.mgrImm ++ [s.pool.switch.2] } else s

def engWrite (s : Engine.St) (k : Bytes) (v : Option Bytes) : Engine.St := engSchedule (engInsert s k v)

/-- micro-steps of FlushMemTables: 0 = rotateWAL; 1 = truncate the manager's list (D21: a table appended meanwhile is
    dropped from the LIST, it stays in the pool); n+2 = flush table n of (list ++ [active table]) and publish it. -/
def engBg (n : Nat) (s : Engine.St) : Engine.St :=
  match n with
  | 0 => rotate s
  | 1 => { s with mgrImm := [] }
  | n + 2 => match (s.mgrImm ++ [s.pool.active])[n]? with
    | some m => flushOne s m
    | none => s

theorem engInsert_inv {s : Engine.St} {hist : List MEntry} (h : EInv s hist) (k : Bytes) (v : Option Bytes) :
    EInv (engInsert s k v) ({ key := k, seq := s.walNext, val := v } :: hist) := by
  have hb : ∀ x ∈ hist, x.seq ≤ s.walNext := fun x hx => by have := h.bound x hx; have := h.next; omega
  have := write_inv h [engLog s.walNext k v] [{ key := k, seq := s.walNext, val := v }]
    (s.pool.add s.cfg { key := k, seq := s.walNext, val := v }) (by simp) (by simp)
    (by cases v <;> simp [engLog, toM]) (by cases v <;> simp [engLog]) (PInv.add s.cfg h.pool _ hb)
  simpa [engInsert] using this

theorem engSchedule_inv {s : Engine.St} {hist : List MEntry} (h : EInv s hist) : EInv (engSchedule s) hist := by
  unfold engSchedule
  split
  · refine ⟨?_, h.log, h.logop, h.sorted, h.bound, h.last, h.next, ?_, h.sst⟩
    · refine ⟨?_, rfl⟩
      intro k
      rw [← h.pool.1 k]
      simp [poolList, Pool.switch]
    · intro m hm e he
      rcases List.mem_append.mp hm with hm | hm
      · exact h.imm m hm e he
      · simp only [List.mem_singleton] at hm
        subst hm
        exact h.pool.mem (mem_poolList_active he)
  · exact h

theorem engBg_inv {s : Engine.St} {hist : List MEntry} (h : EInv s hist) (n : Nat) : EInv (engBg n s) hist := by
  unfold engBg
  split
  · exact rotate_inv h
  · exact ⟨h.pool, h.log, h.logop, h.sorted, h.bound, h.last, h.next, by simp, h.sst⟩
  · split
    · rename_i m hm
      apply flushOne_inv h
      have hmem := List.mem_of_getElem? hm
      intro e he
      rcases List.mem_append.mp hmem with hmem | hmem
      · exact h.imm m hmem e he
      · simp only [List.mem_singleton] at hmem
        subst hmem
        exact h.pool.mem (mem_poolList_active he)
    · exact h

theorem view_of_inv {s : Engine.St} {hist : List MEntry} (h : EInv s hist) : (fun k => Engine.get s k) = absOf hist := by
  funext k
  exact get_eq h k

/-- the sequential engine model as a `Store` of the concurrent model. -/
def engineStore (cfg : Engine.Cfg) : Store where
  σ := Engine.St
  init := Kevo.Proofs.Engine.init cfg
  inv := fun s => ∃ hist, EInv s hist
  view := fun s k => Engine.get s k
  write := engWrite
  bg := engBg
  needsMu := fun n => decide (n ≥ 2)
  inv_init := ⟨[], init_inv cfg⟩
  view_init := by rw [view_of_inv (init_inv cfg)]; rfl
  inv_write := fun s k v ⟨hist, h⟩ => ⟨_, engSchedule_inv (engInsert_inv h k v)⟩
  view_write := by
    intro s k v ⟨hist, h⟩
    show (fun k' => Engine.get (engSchedule (engInsert s k v)) k') = KVMap.set (fun k' => Engine.get s k') k v
    rw [view_of_inv (engSchedule_inv (engInsert_inv h k v)), view_of_inv h]
    exact absOf_cons _ _
  inv_bg := fun n s ⟨hist, h⟩ => ⟨hist, engBg_inv h n⟩
  view_bg := by
    intro n s ⟨hist, h⟩
    rw [view_of_inv (engBg_inv h n), view_of_inv h]

end Kevo.ConcStorage
