/-
  Kevo.Proofs.CrashInv — the invariant of the process-death model and its preservation by the primitive steps
  (helper file for Proofs/Crash).
-/
import Kevo.Proofs.CrashBuf
import Kevo.Proofs.CrashCut
namespace Kevo.Proofs.CrashAux
open Kevo Kevo.Wal Kevo.Crash Kevo.Spec Kevo.Proofs.Wal
open Kevo.Engine (LogEntry)

/-! ### `CSt.at` -/

@[simp] theorem at_files (c : CSt) (s : String) : (c.at s).files = c.files := rfl
@[simp] theorem at_eng (c : CSt) (s : String) : (c.at s).eng = c.eng := rfl
@[simp] theorem at_buffered (c : CSt) (s : String) : (c.at s).buffered = c.buffered := rfl
@[simp] theorem at_cap (c : CSt) (s : String) : (c.at s).cap = c.cap := rfl
@[simp] theorem at_sync (c : CSt) (s : String) : (c.at s).sync = c.sync := rfl
@[simp] theorem at_syncBytes (c : CSt) (s : String) : (c.at s).syncBytes = c.syncBytes := rfl
@[simp] theorem at_batchBytes (c : CSt) (s : String) : (c.at s).batchBytes = c.batchBytes := rfl
theorem at_events (c : CSt) (s : String) : (c.at s).events =
    { site := s, flushed := c.files.map (·.flushed), walNext := c.eng.walNext,
      ackedSeq := if s == "harness.ack" then c.eng.lastSeq else c.ackedSeq } :: c.events := rfl
theorem at_ackedSeq (c : CSt) (s : String) :
    (c.at s).ackedSeq = if s == "harness.ack" then c.eng.lastSeq else c.ackedSeq := rfl

/-! ### the invariant -/

def fullFile (p : WalParams) (crc : Bytes → Nat) (es : List LogEntry) : WFile :=
  { stream := encL p crc es, flushed := (encL p crc es).length }

/-- an event is good w.r.t. the logical log `L`: cutting the files at its flushed lengths recovers exactly the
    entries numbered at most `s`, for some `s` below `nx`. -/
def EvGood (p : WalParams) (crc : Bytes → Nat) (sync : Nat) (L : List (List LogEntry)) (nx : Nat) (ev : Event) : Prop :=
  ∃ s, Good p crc L ev.flushed s ∧ Fits p crc L ev.flushed ∧ ev.flushed.length ≤ L.length ∧
    s ≤ ev.walNext ∧ s < nx ∧ (sync = 2 → ev.ackedSeq ≤ s)

/-! power loss: the synced image, viewed as a pseudo-event so that the same `EvGood` lemmas apply -/

/-- the event `CSt.at` records -/
def newEv (c : CSt) (s : String) : Event :=
  { site := s, flushed := c.files.map (·.flushed), walNext := c.eng.walNext,
    ackedSeq := if s == "harness.ack" then c.eng.lastSeq else c.ackedSeq }

theorem at_events' (c : CSt) (s : String) : (c.at s).events = newEv c s :: c.events := rfl

theorem syncedOf_at (c : CSt) (s : String) :
    syncedOf (c.at s).events = if isSyncSite s then c.files.map (·.flushed) else syncedOf c.events := by
  rw [at_events]; simp only [syncedOf]

/-- the currently synced image -/
def pcurEv (c : CSt) : Event :=
  { site := "", flushed := syncedOf c.events, walNext := c.eng.walNext, ackedSeq := c.eng.lastSeq }

/-- the synced image right at event `ev` (whose predecessors are `rest`, newest first) -/
def pev (ev : Event) (rest : List Event) : Event := { ev with flushed := syncedOf (ev :: rest) }

theorem EvGood.ext {p : WalParams} {crc : Bytes → Nat} {sync : Nat} {L0 : List (List LogEntry)} {last new : List LogEntry}
    {nx nx' : Nat} {ev : Event} (h : EvGood p crc sync (L0 ++ [last]) nx ev)
    (hnew : ∀ e ∈ new, nx ≤ e.seq) (hnx : nx ≤ nx') : EvGood p crc sync (L0 ++ [last ++ new]) nx' ev := by
  obtain ⟨s, hg, hf, hl, hw, hn, ha⟩ := h
  exact ⟨s, good_ext p crc L0 last new _ s hf hg (fun e he => by have := hnew e he; omega),
    fits_ext p crc last new L0 _ hf, by simpa using hl, hw, by omega, ha⟩

theorem EvGood.newfile {p : WalParams} {crc : Bytes → Nat} {sync : Nat} {L : List (List LogEntry)} {nx : Nat} {ev : Event}
    (h : EvGood p crc sync L nx ev) : EvGood p crc sync (L ++ [[]]) nx ev := by
  obtain ⟨s, hg, hf, hl, hw, hn, ha⟩ := h
  exact ⟨s, good_newfile p crc L _ s hg, fits_newfile p crc L _ hl hf, by simp only [List.length_append]; omega,
    hw, hn, ha⟩

structure Inv (p : WalParams) (crc : Bytes → Nat) (sync : Nat) (c : CSt) (L : List (List LogEntry)) (nx : Nat) : Prop where
  streams : c.files.map (·.stream) = L.map (encL p crc)
  fits : ∀ f ∈ c.files, f.flushed ≤ f.stream.length
  ok : ∀ es ∈ L, ∀ e ∈ es, EntryOK p (toWal e)
  lt : ∀ es ∈ L, ∀ e ∈ es, e.seq < nx
  nx_le : nx ≤ c.eng.walNext + 1
  evs : ∀ ev ∈ c.events, EvGood p crc sync L nx ev
  cur : ∃ s, Good p crc L (c.files.map (·.flushed)) s ∧ s < nx ∧ (sync = 2 → c.eng.lastSeq ≤ s)
  acked : c.ackedSeq ≤ c.eng.lastSeq
  last_lt : c.eng.lastSeq < nx
  syn : c.sync = sync
  pcur : EvGood p crc sync L nx (pcurEv c)
  pevs : ∀ ev rest, (ev :: rest) <:+ c.events → EvGood p crc sync L nx (pev ev rest)

/-- earlier files completely flushed, the current one consistent with the writer's buffer -/
def Tight (p : WalParams) (crc : Bytes → Nat) (c : CSt) (L0 : List (List LogEntry)) (last : List LogEntry) : Prop :=
  ∃ fl, Shape c (L0.map (fullFile p crc)) (encL p crc last) fl

theorem fits_of_files (p : WalParams) (crc : Bytes → Nat) : ∀ (files : List WFile) (L : List (List LogEntry)),
    files.map (·.stream) = L.map (encL p crc) → (∀ f ∈ files, f.flushed ≤ f.stream.length) →
    Fits p crc L (files.map (·.flushed)) := by
  intro files
  induction files with
  | nil => intro L _ _; simp [Fits]
  | cons f files ih =>
    intro L h hf
    cases L with
    | nil => simp at h
    | cons a L =>
      simp only [List.map_cons, List.cons.injEq] at h
      simp only [List.map_cons]
      rw [fits_cons]
      refine ⟨?_, ih L h.2 (fun f' hf' => hf f' (by simp [hf']))⟩
      rw [← h.1]; exact hf f (by simp)

theorem Inv.vec_length {p : WalParams} {crc : Bytes → Nat} {sync : Nat} {c : CSt} {L : List (List LogEntry)} {nx : Nat}
    (h : Inv p crc sync c L nx) : (c.files.map (·.flushed)).length = L.length := by
  have := congrArg List.length h.streams
  simpa using this

theorem Inv.at {p : WalParams} {crc : Bytes → Nat} {sync : Nat} {c : CSt} {L : List (List LogEntry)} {nx : Nat}
    (h : Inv p crc sync c L nx) (site : String) : Inv p crc sync (c.at site) L nx := by
  have hnew : EvGood p crc sync L nx (newEv c site) := by
    unfold newEv
    obtain ⟨s, hg, hs, hl⟩ := h.cur
    refine ⟨s, hg, fits_of_files p crc _ _ h.streams h.fits, Nat.le_of_eq h.vec_length, ?_, hs, ?_⟩
    · have := h.nx_le; simp only; omega
    · intro h2
      have := hl h2
      have := h.acked
      simp only
      split <;> omega
  refine ⟨h.streams, h.fits, h.ok, h.lt, h.nx_le, ?_, h.cur, ?_, h.last_lt, h.syn, ?_, ?_⟩
  · intro ev hev
    rw [at_events] at hev
    simp only [List.mem_cons] at hev
    rcases hev with rfl | hev
    · exact hnew
    · exact h.evs ev hev
  · rw [at_ackedSeq]
    have := h.acked
    simp only [at_eng]
    split <;> omega
  · -- the synced image after the new site
    unfold pcurEv
    rw [syncedOf_at]
    by_cases hs : isSyncSite site = true
    · rw [if_pos hs]
      obtain ⟨s, hg, hf, hl, hw, hn, ha⟩ := hnew
      obtain ⟨s0, _, _, hl0⟩ := h.cur
      obtain ⟨s1, hg1, hs1, hl1⟩ := h.cur
      exact ⟨s1, hg1, fits_of_files p crc _ _ h.streams h.fits, Nat.le_of_eq h.vec_length,
        by have := h.nx_le; simp only [at_eng]; omega, hs1, hl1⟩
    · rw [if_neg hs]; exact h.pcur
  · intro ev rest hsuf
    rw [at_events] at hsuf
    rcases List.suffix_cons_iff.mp hsuf with heq | hsuf'
    · injection heq with h1 h2
      subst h1 h2
      unfold pev
      simp only [syncedOf]
      by_cases hs : isSyncSite site = true
      · rw [if_pos hs]; exact hnew
      · rw [if_neg hs]
        obtain ⟨s, hg, hf, hl, hw, hn, ha⟩ := h.pcur
        refine ⟨s, hg, hf, hl, hw, hn, ?_⟩
        intro h2
        have h3 : c.eng.lastSeq ≤ s := ha h2
        have := h.acked
        show (if site == "harness.ack" then c.eng.lastSeq else c.ackedSeq) ≤ s
        split <;> omega
    · exact h.pevs ev rest hsuf'

/-- `Inv` only looks at the files, the events, the counters -/
theorem Inv.congr {p : WalParams} {crc : Bytes → Nat} {sync : Nat} {c c' : CSt} {L : List (List LogEntry)} {nx : Nat}
    (h : Inv p crc sync c L nx) (hf : c'.files = c.files) (he : c'.events = c.events)
    (hw : nx ≤ c'.eng.walNext + 1) (hl : c'.eng.lastSeq = c.eng.lastSeq) (ha : c'.ackedSeq = c.ackedSeq)
    (hs : c'.sync = c.sync) : Inv p crc sync c' L nx := by
  refine ⟨by rw [hf]; exact h.streams, by rw [hf]; exact h.fits, h.ok, h.lt, hw, by rw [he]; exact h.evs, ?_,
    by rw [ha, hl]; exact h.acked, by rw [hl]; exact h.last_lt, by rw [hs]; exact h.syn, ?_, by rw [he]; exact h.pevs⟩
  · rw [hf, hl]; exact h.cur
  · obtain ⟨s, hg, hfi, hle, _, hn, hac⟩ := h.pcur
    unfold pcurEv at hg hfi hle hac ⊢
    rw [he, hl]
    exact ⟨s, hg, hfi, hle, by simp only; omega, hn, hac⟩

theorem Tight.congr {p : WalParams} {crc : Bytes → Nat} {c c' : CSt} {L0 : List (List LogEntry)} {last : List LogEntry}
    (h : Tight p crc c L0 last) (hf : c'.files = c.files) (hb : c'.buffered = c.buffered) (hc : c.cap ≤ c'.cap) :
    Tight p crc c' L0 last := by
  obtain ⟨fl, h1, h2, h3⟩ := h
  exact ⟨fl, by rw [hf]; exact h1, by rw [hb]; exact h2, by rw [hb]; omega⟩

theorem Tight.at {p : WalParams} {crc : Bytes → Nat} {c : CSt} {L0 : List (List LogEntry)} {last : List LogEntry}
    (h : Tight p crc c L0 last) (site : String) : Tight p crc (c.at site) L0 last :=
  h.congr rfl rfl (Nat.le_refl _)

theorem map_fullFile_flushed (p : WalParams) (crc : Bytes → Nat) (L0 : List (List LogEntry)) :
    (L0.map (fullFile p crc)).map (·.flushed) = fullVec p crc L0 := by
  simp [fullVec, fullFile]

theorem map_fullFile_stream (p : WalParams) (crc : Bytes → Nat) (L0 : List (List LogEntry)) :
    (L0.map (fullFile p crc)).map (·.stream) = L0.map (encL p crc) := by
  simp [fullFile]

theorem shape_vec {p : WalParams} {crc : Bytes → Nat} {c : CSt} {L0 : List (List LogEntry)} {last : List LogEntry} {fl : Nat}
    (h : Shape c (L0.map (fullFile p crc)) (encL p crc last) fl) :
    c.files.map (·.flushed) = fullVec p crc L0 ++ [fl] := by
  rw [h.1, List.map_append, map_fullFile_flushed]; rfl

/-- when nothing is buffered the current cut recovers everything, so `s` may be chosen as large as allowed -/
theorem cur_of_full {p : WalParams} {crc : Bytes → Nat} {c : CSt} {L0 : List (List LogEntry)} {last : List LogEntry}
    {fl nx : Nat} (h : Shape c (L0.map (fullFile p crc)) (encL p crc last) fl) (hb : c.buffered = 0)
    (hlt : ∀ es ∈ L0 ++ [last], ∀ e ∈ es, e.seq < nx) :
    Good p crc (L0 ++ [last]) (c.files.map (·.flushed)) (nx - 1) := by
  rw [shape_vec h]
  have : fl = (encL p crc last).length := by have := h.2.1; omega
  rw [this]
  apply good_full
  intro es hes e he
  have := hlt es hes e he
  omega

/-! ### writing one entry (Put / Delete) -/

theorem Inv.write {p : WalParams} {crc : Bytes → Nat} {sync : Nat} {c : CSt} {L0 : List (List LogEntry)}
    {last : List LogEntry} (hp : p.WF) (h : Inv p crc sync c (L0 ++ [last]) c.eng.walNext) (ht : Tight p crc c L0 last)
    (e : LogEntry) (hseq : e.seq = c.eng.walNext) (hok : EntryOK p (toWal e)) :
    Inv p crc sync (writeEntry p crc c (toWal e)) (L0 ++ [last ++ [e]]) (c.eng.walNext + 1) ∧
    Tight p crc (writeEntry p crc c (toWal e)) L0 (last ++ [e]) ∧
    (writeEntry p crc c (toWal e)).eng = c.eng := by
  obtain ⟨fl, hsh⟩ := ht
  obtain ⟨fl', b', bb, heq, hsum, hcap, _, hor⟩ := writeEntry_spec p hp crc c _ _ fl hsh (toWal e)
  have hsh' : Shape (writeEntry p crc c (toWal e)) (L0.map (fullFile p crc)) (encL p crc (last ++ [e])) fl' := by
    rw [heq]
    refine ⟨by rw [encL_append, encL_singleton], ?_, hcap⟩
    rw [encL_append, encL_singleton, List.length_append]; exact hsum
  refine ⟨?_, ⟨fl', hsh'⟩, by rw [heq]⟩
  have hfits := fits_of_files p crc _ _ h.streams h.fits
  obtain ⟨s0, hg0, hs0, hl0⟩ := h.cur
  have hlen : (encL p crc (last ++ [e])).length = (encL p crc last).length + (encodeEntry p crc (toWal e)).length := by
    rw [encL_append, encL_singleton, List.length_append]
  have hnewseq : ∀ e' ∈ [e], c.eng.walNext ≤ e'.seq := by
    intro e' he'
    simp only [List.mem_singleton] at he'
    subst he'; omega
  have hpc : pcurEv (writeEntry p crc c (toWal e)) = pcurEv c := by rw [heq]; rfl
  refine ⟨?_, ?_, ?_, ?_, ?_, ?_, ?_, ?_, ?_, ?_, by rw [hpc]; exact h.pcur.ext hnewseq (Nat.le_succ _),
    fun ev rest hsuf => (h.pevs ev rest (by rw [heq] at hsuf; exact hsuf)).ext hnewseq (Nat.le_succ _)⟩
  · rw [hsh'.1, List.map_append, map_fullFile_stream]; simp
  · intro f hf
    rw [hsh'.1] at hf
    simp only [List.mem_append, List.mem_map, List.mem_singleton] at hf
    rcases hf with ⟨es, _, rfl⟩ | rfl
    · exact Nat.le_refl _
    · have := hsh'.2.1; simp only; omega
  · intro es hes e' he'
    simp only [List.mem_append, List.mem_singleton] at hes
    rcases hes with hes | rfl
    · exact h.ok es (by simp [hes]) e' he'
    · simp only [List.mem_append, List.mem_singleton] at he'
      rcases he' with he' | rfl
      · exact h.ok last (by simp) e' he'
      · exact hok
  · intro es hes e' he'
    simp only [List.mem_append, List.mem_singleton] at hes
    rcases hes with hes | rfl
    · have := h.lt es (by simp [hes]) e' he'; omega
    · simp only [List.mem_append, List.mem_singleton] at he'
      rcases he' with he' | rfl
      · have := h.lt last (by simp) e' he'; omega
      · omega
  · rw [heq]; exact Nat.le_refl _
  · intro ev hev
    rw [heq] at hev
    obtain ⟨s, hg, hf, hl, hw, hn, ha⟩ := h.evs ev hev
    refine ⟨s, good_ext p crc L0 last [e] _ s hf hg ?_, fits_ext p crc last [e] L0 _ hf, by simpa using hl, hw,
      by omega, ha⟩
    intro e' he'
    simp only [List.mem_singleton] at he'
    subst he'; omega
  · rcases hor with hsame | hpast
    · refine ⟨s0, ?_, by omega, ?_⟩
      · rw [shape_vec hsh', hsame, ← shape_vec hsh]
        refine good_ext p crc L0 last [e] _ s0 hfits hg0 ?_
        intro e' he'
        simp only [List.mem_singleton] at he'
        subst he'; omega
      · rw [heq]; exact hl0
    · by_cases hfull : fl' = (encL p crc (last ++ [e])).length
      · refine ⟨c.eng.walNext, ?_, by omega, ?_⟩
        · rw [shape_vec hsh', hfull]
          apply good_full
          intro es hes e' he'
          simp only [List.mem_append, List.mem_singleton] at hes
          rcases hes with hes | rfl
          · have := h.lt es (by simp [hes]) e' he'; omega
          · simp only [List.mem_append, List.mem_singleton] at he'
            rcases he' with he' | rfl
            · have := h.lt last (by simp) e' he'; omega
            · omega
        · intro _; rw [heq]; have := h.last_lt; simp only; omega
      · refine ⟨c.eng.walNext - 1, ?_, by omega, ?_⟩
        · rw [shape_vec hsh']
          apply good_torn p crc L0 last e fl' _ hpast
          · have := hsh'.2.1; omega
          · intro es hes e' he'
            have := h.lt es hes e' he'; omega
          · omega
        · intro _; rw [heq]; have := h.last_lt; simp only; omega
  · rw [heq]; exact h.acked
  · rw [heq]; have := h.last_lt; simp only; omega
  · rw [heq]; exact h.syn

/-! ### flushing the current file -/

theorem flushCur_shape {p : WalParams} {crc : Bytes → Nat} {c : CSt} {L0 : List (List LogEntry)} {last : List LogEntry}
    {fl : Nat} (h : Shape c (L0.map (fullFile p crc)) (encL p crc last) fl) :
    Shape (flushCur c) (L0.map (fullFile p crc)) (encL p crc last) (encL p crc last).length := by
  unfold flushCur
  refine ⟨?_, rfl, Nat.zero_le _⟩
  simp only
  rw [h.1, modifyLast_snoc]

theorem inv_flushCur {p : WalParams} {crc : Bytes → Nat} {sync : Nat} {c : CSt} {L0 : List (List LogEntry)}
    {last : List LogEntry} {nx : Nat} (h : Inv p crc sync c (L0 ++ [last]) nx) (ht : Tight p crc c L0 last) :
    Inv p crc sync (flushCur c) (L0 ++ [last]) nx ∧ Tight p crc (flushCur c) L0 last ∧ (flushCur c).buffered = 0 := by
  obtain ⟨fl, hsh⟩ := ht
  have hsh' := flushCur_shape hsh
  refine ⟨?_, ⟨_, hsh'⟩, rfl⟩
  refine ⟨?_, ?_, h.ok, h.lt, h.nx_le, h.evs, ?_, h.acked, h.last_lt, h.syn, h.pcur, h.pevs⟩
  · rw [hsh'.1, List.map_append, map_fullFile_stream]; simp
  · intro f hf
    rw [hsh'.1] at hf
    simp only [List.mem_append, List.mem_map, List.mem_singleton] at hf
    rcases hf with ⟨es, _, rfl⟩ | rfl
    · exact Nat.le_refl _
    · exact Nat.le_refl _
  · refine ⟨nx - 1, cur_of_full hsh' rfl h.lt, ?_, ?_⟩
    · have := h.last_lt; omega
    · intro _; have := h.last_lt
      show c.eng.lastSeq ≤ nx - 1
      omega

theorem inv_maybeSync {p : WalParams} {crc : Bytes → Nat} {sync : Nat} {c : CSt} {L0 : List (List LogEntry)}
    {last : List LogEntry} {nx : Nat} (h : Inv p crc sync c (L0 ++ [last]) nx) (ht : Tight p crc c L0 last) :
    Inv p crc sync (maybeSync c) (L0 ++ [last]) nx ∧ Tight p crc (maybeSync c) L0 last ∧
    (sync = 2 → (maybeSync c).buffered = 0) ∧ (maybeSync c).eng = c.eng ∧
    (sync = 2 → syncedOf (maybeSync c).events = (maybeSync c).files.map (·.flushed)) := by
  unfold maybeSync
  by_cases hc : c.sync = 2 ∨ (c.sync = 1 ∧ c.batchBytes ≥ c.syncBytes)
  · rw [if_pos hc]
    obtain ⟨h1, t1, b1⟩ := inv_flushCur h ht
    have h2 := (h1.at "wal.sync.flushed").at "wal.sync.synced"
    have t2 := (t1.at "wal.sync.flushed").at "wal.sync.synced"
    refine ⟨h2.congr rfl rfl h2.nx_le rfl rfl rfl, t2.congr rfl rfl (Nat.le_refl _), fun _ => b1, rfl, fun _ => ?_⟩
    show syncedOf (((flushCur c).at "wal.sync.flushed").at "wal.sync.synced").events = _
    rw [syncedOf_at, if_pos (by decide)]
    rfl
  · rw [if_neg hc]
    have hcontra : ¬ sync = 2 := by
      intro h2
      have := h.syn
      exact absurd (Or.inl (by omega)) hc
    exact ⟨h, ht, fun h2 => absurd h2 hcontra, rfl, fun h2 => absurd h2 hcontra⟩


/-! ### changing the last acknowledged-able sequence number -/

theorem Inv.setLast {p : WalParams} {crc : Bytes → Nat} {sync : Nat} {c c' : CSt} {L0 : List (List LogEntry)}
    {last : List LogEntry} {nx : Nat} (h : Inv p crc sync c (L0 ++ [last]) nx) (ht : Tight p crc c L0 last)
    (hb : sync = 2 → c.buffered = 0) (hps : sync = 2 → syncedOf c.events = c.files.map (·.flushed))
    (hf : c'.files = c.files) (he : c'.events = c.events)
    (hw : nx ≤ c'.eng.walNext + 1) (hl : c'.eng.lastSeq = nx - 1) (ha : c'.ackedSeq = c.ackedSeq)
    (hs : c'.sync = c.sync) : Inv p crc sync c' (L0 ++ [last]) nx := by
  have hpos : c.eng.lastSeq < nx := h.last_lt
  refine ⟨by rw [hf]; exact h.streams, by rw [hf]; exact h.fits, h.ok, h.lt, hw, by rw [he]; exact h.evs, ?_,
    ?_, by omega, by rw [hs]; exact h.syn, ?_, by rw [he]; exact h.pevs⟩
  rotate_left 2
  · -- the synced image covers the new last sequence number: with synchronous logging the record was synced
    by_cases h2 : sync = 2
    · obtain ⟨fl, hsh⟩ := ht
      have hv : syncedOf c'.events = c.files.map (·.flushed) := by rw [he]; exact hps h2
      refine ⟨nx - 1, ?_, ?_, ?_, ?_, by omega, fun _ => ?_⟩
      · show Good p crc _ (syncedOf c'.events) (nx - 1)
        rw [hv]; exact cur_of_full hsh (hb h2) h.lt
      · show Fits p crc _ (syncedOf c'.events)
        rw [hv]; exact fits_of_files p crc _ _ h.streams h.fits
      · show (syncedOf c'.events).length ≤ _
        rw [hv]; exact Nat.le_of_eq h.vec_length
      · show nx - 1 ≤ c'.eng.walNext
        omega
      · show c'.eng.lastSeq ≤ nx - 1
        omega
    · obtain ⟨s, hg, hfi, hle, _, hn, _⟩ := h.pcur
      refine ⟨s, ?_, ?_, ?_, ?_, hn, fun h' => absurd h' h2⟩
      · show Good p crc _ (syncedOf c'.events) s
        rw [he]; exact hg
      · show Fits p crc _ (syncedOf c'.events)
        rw [he]; exact hfi
      · show (syncedOf c'.events).length ≤ _
        rw [he]; exact hle
      · show s ≤ c'.eng.walNext
        omega
  · rw [hf, hl]
    by_cases h2 : sync = 2
    · obtain ⟨fl, hsh⟩ := ht
      exact ⟨nx - 1, cur_of_full hsh (hb h2) h.lt, by omega, fun _ => Nat.le_refl _⟩
    · obtain ⟨s, hg, hs, _⟩ := h.cur
      exact ⟨s, hg, hs, fun h' => absurd h' h2⟩
  · rw [ha, hl]; have := h.acked; omega

/-! ### a batch: no flush can happen while its records are written -/

theorem syncedOf_append_nonsync : ∀ (news rest : List Event), (∀ ev ∈ news, isSyncSite ev.site = false) →
    syncedOf (news ++ rest) = syncedOf rest := by
  intro news
  induction news with
  | nil => intro rest _; rfl
  | cons a news ih =>
    intro rest h
    simp only [List.cons_append, syncedOf]
    rw [if_neg (by rw [h a (by simp)]; decide)]
    exact ih rest (fun ev hev => h ev (by simp [hev]))

theorem suffix_append_cases {α} {x : α} {rest : List α} : ∀ {news old : List α}, (x :: rest) <:+ news ++ old →
    (x :: rest) <:+ old ∨ ∃ pre post, news = pre ++ x :: post ∧ rest = post ++ old := by
  intro news
  induction news with
  | nil => intro old h; left; simpa using h
  | cons a news ih =>
    intro old h
    rw [List.cons_append] at h
    rcases List.suffix_cons_iff.mp h with heq | h'
    · injection heq with h1 h2
      right
      exact ⟨[], news, by rw [h1]; rfl, h2⟩
    · rcases ih h' with hold | ⟨pre, post, hp, hr⟩
      · left; exact hold
      · right; exact ⟨a :: pre, post, by rw [hp]; rfl, hr⟩

theorem batchFold_spec (p : WalParams) (hp : p.WF) (crc : Bytes → Nat) :
    ∀ (les : List LogEntry) (c : CSt) (A : List WFile) (st : Bytes) (fl : Nat),
    Shape c A st fl → (∀ e ∈ les, payloadSize p (toWal e) ≤ p.maxRecord) →
    (encL p crc les).length ≤ c.cap - c.buffered →
    ∃ bb evs, les.foldl (fun c e => writeEntry p crc (c.at "wal.batch.record") (toWal e)) c =
        { c with files := A ++ [{ stream := st ++ encL p crc les, flushed := fl }],
                 buffered := c.buffered + (encL p crc les).length, batchBytes := bb, events := evs } ∧
      (∀ ev ∈ evs, ev ∈ c.events ∨
        (ev.flushed = c.files.map (·.flushed) ∧ ev.walNext = c.eng.walNext ∧ ev.ackedSeq = c.ackedSeq)) ∧
      (∃ news, evs = news ++ c.events ∧
        ∀ ev ∈ news, ev.site = "wal.batch.record" ∧ ev.walNext = c.eng.walNext ∧ ev.ackedSeq = c.ackedSeq) := by
  intro les
  induction les with
  | nil =>
    intro c A st fl h _ _
    refine ⟨c.batchBytes, c.events, ?_, fun ev hev => Or.inl hev, [], rfl, fun ev hev => by cases hev⟩
    simp only [List.foldl_nil, encL_nil, List.append_nil, List.length_nil, Nat.add_zero]
    rw [← h.1]
  | cons e les ih =>
    intro c A st fl h hfit hroom
    have hlen : (encL p crc (e :: les)).length = (encodeEntry p crc (toWal e)).length + (encL p crc les).length := by
      have : e :: les = [e] ++ les := rfl
      rw [this, encL_append, encL_singleton, List.length_append]
    have h1 : Shape (c.at "wal.batch.record") A st fl := h
    obtain ⟨fl', b', bb, heq, _, hcap, hfits, _⟩ := writeEntry_spec p hp crc _ A st fl h1 (toWal e)
    obtain ⟨hfl, hb'⟩ := hfits (by simp only [at_cap, at_buffered]; omega)
    rw [hfl, hb'] at heq
    clear hfl hb' hcap hfits
    have hcap := h.2.2
    have h2 : Shape (writeEntry p crc (c.at "wal.batch.record") (toWal e)) A (st ++ encodeEntry p crc (toWal e)) fl := by
      rw [heq]
      refine ⟨rfl, ?_, ?_⟩
      · have := h.2.1
        simp only [at_buffered, List.length_append]; omega
      · simp only [at_buffered, at_cap]; omega
    obtain ⟨bb2, evs2, heq2, hev2, news2, hn1, hn2⟩ := ih _ A _ fl h2 (fun e' he' => hfit e' (by simp [he']))
      (by rw [heq]; simp only [at_cap, at_buffered]; omega)
    refine ⟨bb2, evs2, ?_, ?_, news2 ++ [newEv c "wal.batch.record"], ?_, ?_⟩
    rotate_left 2
    · rw [hn1, heq]
      show news2 ++ (c.at "wal.batch.record").events = _
      rw [at_events', List.append_assoc]; rfl
    · intro ev hev
      simp only [List.mem_append, List.mem_singleton] at hev
      rcases hev with hev | rfl
      · obtain ⟨a1, a2, a3⟩ := hn2 ev hev
        rw [heq] at a2 a3
        exact ⟨a1, a2, a3⟩
      · exact ⟨rfl, rfl, rfl⟩
    · rw [List.foldl_cons, heq2, heq]
      have : e :: les = [e] ++ les := rfl
      rw [this, encL_append, encL_singleton]
      simp only [at_buffered, at_cap, at_eng, at_sync, at_syncBytes, List.length_append, List.append_assoc]
      have e1 : (c.at "wal.batch.record").ackedSeq = c.ackedSeq := rfl
      rw [e1]
      congr 1
      omega
    · intro ev hev
      rcases hev2 ev hev with h' | ⟨h1', h2', h3'⟩
      · rw [heq, at_events] at h'
        simp only [List.mem_cons] at h'
        rcases h' with rfl | h'
        · right; exact ⟨rfl, rfl, rfl⟩
        · left; exact h'
      · right
        rw [heq] at h1' h2' h3'
        refine ⟨?_, h2', h3'⟩
        rw [h1', h.1]
        simp

theorem Inv.batch {p : WalParams} {crc : Bytes → Nat} {sync : Nat} {c : CSt} {L0 : List (List LogEntry)}
    {last : List LogEntry} (hp : p.WF) (h : Inv p crc sync c (L0 ++ [last]) c.eng.walNext) (ht : Tight p crc c L0 last)
    (les : List LogEntry) (hseq : ∀ e ∈ les, e.seq = c.eng.walNext) (hok : ∀ e ∈ les, EntryOK p (toWal e))
    (hfit : ∀ e ∈ les, payloadSize p (toWal e) ≤ p.maxRecord) (hroom : (encL p crc les).length ≤ c.cap - c.buffered) :
    Inv p crc sync (les.foldl (fun c e => writeEntry p crc (c.at "wal.batch.record") (toWal e)) c)
      (L0 ++ [last ++ les]) (c.eng.walNext + 1) ∧
    Tight p crc (les.foldl (fun c e => writeEntry p crc (c.at "wal.batch.record") (toWal e)) c) L0 (last ++ les) ∧
    (les.foldl (fun c e => writeEntry p crc (c.at "wal.batch.record") (toWal e)) c).eng = c.eng := by
  obtain ⟨fl, hsh⟩ := ht
  obtain ⟨bb, evs, heq, hevs, news, hnews, hnprop⟩ := batchFold_spec p hp crc les c _ _ fl hsh hfit hroom
  have hnonsync : ∀ ev ∈ news, isSyncSite ev.site = false := by
    intro ev hev; rw [(hnprop ev hev).1]; decide
  have hsyn : syncedOf evs = syncedOf c.events := by rw [hnews]; exact syncedOf_append_nonsync news _ hnonsync
  have hsh' : Shape (les.foldl (fun c e => writeEntry p crc (c.at "wal.batch.record") (toWal e)) c)
      (L0.map (fullFile p crc)) (encL p crc (last ++ les)) fl := by
    rw [heq]
    refine ⟨by rw [encL_append], ?_, ?_⟩
    · have := hsh.2.1
      rw [encL_append, List.length_append]; simp only; omega
    · have := hsh.2.2; simp only; omega
  refine ⟨?_, ⟨fl, hsh'⟩, by rw [heq]⟩
  have hfits := fits_of_files p crc _ _ h.streams h.fits
  obtain ⟨s0, hg0, hs0, hl0⟩ := h.cur
  have hnew : ∀ s, s < c.eng.walNext → ∀ e ∈ les, s < e.seq := by
    intro s hs e he; rw [hseq e he]; exact hs
  have hnewseq : ∀ e' ∈ les, c.eng.walNext ≤ e'.seq := fun e' he' => Nat.le_of_eq (hseq e' he').symm
  refine ⟨?_, ?_, ?_, ?_, ?_, ?_, ?_, ?_, ?_, ?_, ?_, ?_⟩
  rotate_left 10
  · -- the synced image: no sync site inside a batch
    have hpc : pcurEv (les.foldl (fun c e => writeEntry p crc (c.at "wal.batch.record") (toWal e)) c) = pcurEv c := by
      rw [heq]; unfold pcurEv; simp only; rw [hsyn]
    rw [hpc]; exact h.pcur.ext hnewseq (Nat.le_succ _)
  · intro ev rest hsuf
    rw [heq] at hsuf
    have hsuf' : (ev :: rest) <:+ news ++ c.events := by rw [← hnews]; exact hsuf
    rcases suffix_append_cases hsuf' with hold | ⟨pre, post, hpre, hrest⟩
    · exact (h.pevs ev rest hold).ext hnewseq (Nat.le_succ _)
    · have hmem : ev ∈ news := by rw [hpre]; simp
      obtain ⟨_, b2, b3⟩ := hnprop ev hmem
      have hsv : syncedOf (ev :: rest) = syncedOf c.events := by
        rw [hrest]
        have : ev :: (post ++ c.events) = (ev :: post) ++ c.events := rfl
        rw [this]
        apply syncedOf_append_nonsync
        intro ev' hev'
        exact hnonsync ev' (by rw [hpre]; simp only [List.mem_append]; right; exact hev')
      obtain ⟨s, hg, hfi, hle, hw, hn, hac⟩ := h.pcur.ext (new := les) hnewseq (Nat.le_succ c.eng.walNext)
      refine ⟨s, ?_, ?_, ?_, ?_, hn, ?_⟩
      · show Good p crc _ (syncedOf (ev :: rest)) s
        rw [hsv]; exact hg
      · show Fits p crc _ (syncedOf (ev :: rest))
        rw [hsv]; exact hfi
      · show (syncedOf (ev :: rest)).length ≤ _
        rw [hsv]; exact hle
      · show s ≤ ev.walNext
        rw [b2]; exact hw
      · intro h2
        show ev.ackedSeq ≤ s
        rw [b3]
        have h3 : c.eng.lastSeq ≤ s := hac h2
        have := h.acked
        omega
  · rw [hsh'.1, List.map_append, map_fullFile_stream]; simp
  · intro f hf
    rw [hsh'.1] at hf
    simp only [List.mem_append, List.mem_map, List.mem_singleton] at hf
    rcases hf with ⟨es, _, rfl⟩ | rfl
    · exact Nat.le_refl _
    · have := hsh'.2.1; simp only; omega
  · intro es hes e' he'
    simp only [List.mem_append, List.mem_singleton] at hes
    rcases hes with hes | rfl
    · exact h.ok es (by simp [hes]) e' he'
    · simp only [List.mem_append] at he'
      rcases he' with he' | he'
      · exact h.ok last (by simp) e' he'
      · exact hok e' he'
  · intro es hes e' he'
    simp only [List.mem_append, List.mem_singleton] at hes
    rcases hes with hes | rfl
    · have := h.lt es (by simp [hes]) e' he'; omega
    · simp only [List.mem_append] at he'
      rcases he' with he' | he'
      · have := h.lt last (by simp) e' he'; omega
      · have := hseq e' he'; omega
  · rw [heq]; exact Nat.le_refl _
  · intro ev hev
    rw [heq] at hev
    rcases hevs ev hev with hold | ⟨e1, e2, e3⟩
    · obtain ⟨s, hg, hf, hl, hw, hn, ha⟩ := h.evs ev hold
      exact ⟨s, good_ext p crc L0 last les _ s hf hg (hnew s hn), fits_ext p crc last les L0 _ hf, by simpa using hl, hw,
        by omega, ha⟩
    · refine ⟨s0, ?_, ?_, ?_, by omega, by omega, ?_⟩
      · rw [e1]; exact good_ext p crc L0 last les _ s0 hfits hg0 (hnew s0 hs0)
      · rw [e1]; exact fits_ext p crc last les L0 _ hfits
      · rw [e1]; have := h.vec_length; simp only [List.length_append, List.length_cons, List.length_nil] at this ⊢; omega
      · intro h2; rw [e3]; have := hl0 h2; have := h.acked; omega
  · refine ⟨s0, ?_, by omega, ?_⟩
    · rw [shape_vec hsh', ← shape_vec hsh]
      exact good_ext p crc L0 last les _ s0 hfits hg0 (hnew s0 hs0)
    · rw [heq]; exact hl0
  · rw [heq]; exact h.acked
  · rw [heq]; have := h.last_lt; simp only; omega
  · rw [heq]; exact h.syn

/-! ### log rotation -/

def rotOpen (c : CSt) : CSt := { c with files := c.files ++ [({} : WFile)], eng := Engine.rotate c.eng }

def rotClose (c : CSt) : CSt :=
  { c with files := c.files.mapIdx (fun i f => if i + 2 = c.files.length then { f with flushed := f.stream.length } else f),
           buffered := 0, cap := 65536, batchBytes := 0 }

theorem rotateSites_eq (c : CSt) :
    rotateSites c = ((((rotClose (((rotOpen (c.at "mgr.rotate.setRotating")).at "mgr.rotate.newWAL").at
      "mgr.rotate.swapped")).at "wal.close.flushed").at "wal.close.synced").at "wal.close.closed").at "mgr.rotate.closed" := rfl

theorem Inv.rotOpen {p : WalParams} {crc : Bytes → Nat} {sync : Nat} {c : CSt} {L : List (List LogEntry)} {nx : Nat}
    (h : Inv p crc sync c L nx) : Inv p crc sync (rotOpen c) (L ++ [[]]) nx := by
  refine ⟨?_, ?_, ?_, ?_, h.nx_le, ?_, ?_, h.acked, h.last_lt, h.syn, h.pcur.newfile,
    fun ev rest hsuf => (h.pevs ev rest hsuf).newfile⟩
  · simp only [CrashAux.rotOpen, List.map_append, h.streams]; rfl
  · intro f hf
    simp only [CrashAux.rotOpen, List.mem_append, List.mem_singleton] at hf
    rcases hf with hf | rfl
    · exact h.fits f hf
    · exact Nat.le_refl _
  · intro es hes e he
    simp only [List.mem_append, List.mem_singleton] at hes
    rcases hes with hes | rfl
    · exact h.ok es hes e he
    · simp at he
  · intro es hes e he
    simp only [List.mem_append, List.mem_singleton] at hes
    rcases hes with hes | rfl
    · exact h.lt es hes e he
    · simp at he
  · intro ev hev
    obtain ⟨s, hg, hf, hl, hw, hn, ha⟩ := h.evs ev hev
    exact ⟨s, good_newfile p crc L _ s hg, fits_newfile p crc L _ hl hf, by simp only [List.length_append]; omega,
      hw, hn, ha⟩
  · obtain ⟨s, hg, hs, hl⟩ := h.cur
    refine ⟨s, ?_, hs, hl⟩
    have : (CrashAux.rotOpen c).files.map (·.flushed) = c.files.map (·.flushed) ++ [0] := by
      simp [CrashAux.rotOpen]
    rw [this]
    exact good_snoc_zero p crc L _ s h.vec_length hg

theorem mapIdx_self {α} (l : List α) (f : Nat → α → α) (h : ∀ i (hi : i < l.length), f i l[i] = l[i]) :
    l.mapIdx f = l := by
  apply List.ext_getElem
  · simp
  · intro i h1 h2
    simp only [List.getElem_mapIdx]
    exact h i h2

theorem rotClose_files {p : WalParams} {crc : Bytes → Nat} (c : CSt) (L0 : List (List LogEntry)) (last : List LogEntry)
    (fl : Nat) (hf : c.files = L0.map (fullFile p crc) ++ [{ stream := encL p crc last, flushed := fl }] ++ [({} : WFile)]) :
    (rotClose c).files = (L0 ++ [last]).map (fullFile p crc) ++ [{ stream := encL p crc [], flushed := 0 }] := by
  simp only [rotClose]
  rw [hf]
  simp only [List.mapIdx_append, List.length_append, List.length_map, List.length_cons, List.length_nil,
    List.mapIdx_cons, List.mapIdx_nil, List.map_append, List.map_cons, List.map_nil]
  congr 1
  · congr 1
    · apply mapIdx_self
      intro i hi
      simp only [List.getElem_map, fullFile, ite_self]
    · simp [fullFile]
  · simp [encL_nil]

theorem Inv.rotClose {p : WalParams} {crc : Bytes → Nat} {sync : Nat} {c : CSt} {L0 : List (List LogEntry)}
    {last : List LogEntry} {nx : Nat} (h : Inv p crc sync c (L0 ++ [last] ++ [[]]) nx) (fl : Nat)
    (hf : c.files = L0.map (fullFile p crc) ++ [{ stream := encL p crc last, flushed := fl }] ++ [({} : WFile)]) :
    Inv p crc sync (rotClose c) (L0 ++ [last] ++ [[]]) nx ∧ Tight p crc (rotClose c) (L0 ++ [last]) [] := by
  have hfiles := rotClose_files (p := p) (crc := crc) c L0 last fl hf
  have hsh : Shape (CrashAux.rotClose c) ((L0 ++ [last]).map (fullFile p crc)) (encL p crc []) 0 :=
    ⟨hfiles, rfl, Nat.zero_le _⟩
  refine ⟨?_, ⟨0, hsh⟩⟩
  refine ⟨?_, ?_, h.ok, h.lt, h.nx_le, h.evs, ?_, h.acked, h.last_lt, h.syn, h.pcur, h.pevs⟩
  · rw [hfiles, List.map_append, map_fullFile_stream]; simp
  · intro f hf'
    rw [hfiles] at hf'
    simp only [List.mem_append, List.mem_map, List.mem_singleton] at hf'
    rcases hf' with ⟨es, _, rfl⟩ | rfl
    · exact Nat.le_refl _
    · exact Nat.le_refl _
  · refine ⟨nx - 1, cur_of_full hsh rfl h.lt, ?_, ?_⟩
    · have := h.last_lt; omega
    · intro _; have := h.last_lt
      show c.eng.lastSeq ≤ nx - 1
      omega

theorem inv_rotateSites {p : WalParams} {crc : Bytes → Nat} {sync : Nat} {c : CSt} {L0 : List (List LogEntry)}
    {last : List LogEntry} {nx : Nat} (h : Inv p crc sync c (L0 ++ [last]) nx) (ht : Tight p crc c L0 last) :
    Inv p crc sync (rotateSites c) (L0 ++ [last] ++ [[]]) nx ∧ Tight p crc (rotateSites c) (L0 ++ [last]) [] ∧
    (rotateSites c).eng = Engine.rotate c.eng ∧ (rotateSites c).buffered = 0 := by
  obtain ⟨fl, hsh⟩ := ht
  have h1 := (((h.at "mgr.rotate.setRotating").rotOpen).at "mgr.rotate.newWAL").at "mgr.rotate.swapped"
  obtain ⟨h2, t2⟩ := h1.rotClose fl (by simp [CrashAux.rotOpen, hsh.1])
  rw [rotateSites_eq]
  exact ⟨(((h2.at _).at _).at _).at _, (((t2.at _).at _).at _).at _, rfl, rfl⟩

end Kevo.Proofs.CrashAux
