/-
  Kevo.Proofs.Lin — a well-formed witness trace (call / linearization point / return events) whose linearization
  log is legal for the sequential specification proves that the client-visible history is linearizable.
-/
import Kevo.Spec.Lin
namespace Kevo.Lin
open Kevo Kevo.Spec

/-! ### `legalTo` -/

theorem legalTo_append {Op Out : Type} (S : SeqSpec Op Out) (l1 l2 : List (Op × Out)) (s m s' : S.σ) :
    legalTo S s l1 m → legalTo S m l2 s' → legalTo S s (l1 ++ l2) s' := by
  induction l1 generalizing s with
  | nil => intro h1 h2; simp only [legalTo] at h1; subst h1; simpa using h2
  | cons x rest ih =>
    obtain ⟨op, out⟩ := x
    intro h1 h2
    simp only [legalTo] at h1
    obtain ⟨n, hstep, hrest⟩ := h1
    simp only [List.cons_append, legalTo]
    exact ⟨n, hstep, ih n hrest h2⟩

theorem legalTo_snoc {Op Out : Type} (S : SeqSpec Op Out) (s m s' : S.σ) (l : List (Op × Out)) (op : Op) (out : Out) :
    legalTo S s l m → S.step m op out s' → legalTo S s (l ++ [(op, out)]) s' := by
  intro h1 h2
  apply legalTo_append S l [(op, out)] s m s' h1
  simp only [legalTo]
  exact ⟨s', h2, rfl⟩

/-! ### projections of a trace extended by one event -/

theorem linlog_cons_lin {Op Out : Type} (i : Nat) (op : Op) (out : Out) (rtr : List (TEv Op Out)) :
    linlog (TEv.lin i op out :: rtr) = linlog rtr ++ [(i, op, out)] := by
  simp [linlog, List.filterMap_append, TEv.toLin]

theorem linlog_cons_call {Op Out : Type} (i : Nat) (op : Op) (rtr : List (TEv Op Out)) :
    linlog (TEv.call i op :: rtr) = linlog rtr := by
  simp [linlog, List.filterMap_append, TEv.toLin]

theorem linlog_cons_ret {Op Out : Type} (i : Nat) (out : Out) (rtr : List (TEv Op Out)) :
    linlog (TEv.ret i out :: rtr) = linlog rtr := by
  simp [linlog, List.filterMap_append, TEv.toLin]

theorem history_cons_lin {Op Out : Type} (i : Nat) (op : Op) (out : Out) (rtr : List (TEv Op Out)) :
    history (TEv.lin i op out :: rtr) = history rtr := by
  simp [history, List.filterMap_append, TEv.toEv]

theorem history_cons_call {Op Out : Type} (i : Nat) (op : Op) (rtr : List (TEv Op Out)) :
    history (TEv.call i op :: rtr) = history rtr ++ [Ev.call i op] := by
  simp [history, List.filterMap_append, TEv.toEv]

theorem history_cons_ret {Op Out : Type} (i : Nat) (out : Out) (rtr : List (TEv Op Out)) :
    history (TEv.ret i out :: rtr) = history rtr ++ [Ev.ret i out] := by
  simp [history, List.filterMap_append, TEv.toEv]

/-! ### membership in the projections -/

theorem mem_linlog {Op Out : Type} (rtr : List (TEv Op Out)) (i : Nat) (op : Op) (out : Out) :
    (i, op, out) ∈ linlog rtr ↔ TEv.lin i op out ∈ rtr := by
  simp only [linlog, List.mem_filterMap, List.mem_reverse]
  constructor
  · rintro ⟨e, he, hf⟩
    cases e <;> simp [TEv.toLin] at hf
    obtain ⟨h1, h2, h3⟩ := hf
    subst h1; subst h2; subst h3; exact he
  · intro h; exact ⟨_, h, rfl⟩

theorem mem_history_call {Op Out : Type} (rtr : List (TEv Op Out)) (i : Nat) (op : Op) :
    Ev.call i op ∈ history rtr ↔ TEv.call i op ∈ rtr := by
  simp only [history, List.mem_filterMap, List.mem_reverse]
  constructor
  · rintro ⟨e, he, hf⟩
    cases e <;> simp [TEv.toEv] at hf
    obtain ⟨h1, h2⟩ := hf
    subst h1; subst h2; exact he
  · intro h; exact ⟨_, h, rfl⟩

theorem mem_history_ret {Op Out : Type} (rtr : List (TEv Op Out)) (i : Nat) (out : Out) :
    Ev.ret i out ∈ history rtr ↔ TEv.ret i out ∈ rtr := by
  simp only [history, List.mem_filterMap, List.mem_reverse]
  constructor
  · rintro ⟨e, he, hf⟩
    cases e <;> simp [TEv.toEv] at hf
    obtain ⟨h1, h2⟩ := hf
    subst h1; subst h2; exact he
  · intro h; exact ⟨_, h, rfl⟩

/-- the ids of the linearization log are the ids of the lin events, in whatever order -/
theorem mem_linlog_ids {Op Out : Type} (rtr : List (TEv Op Out)) (i : Nat) :
    i ∈ (linlog rtr).map (·.1) ↔ i ∈ (rtr.filterMap TEv.toLin).map (·.1) := by
  simp [linlog, List.mem_map, List.mem_filterMap, List.mem_reverse]

/-! ### consequences of well-formedness -/

theorem WF_tail {Op Out : Type} (e : TEv Op Out) (rest : List (TEv Op Out)) : WF (e :: rest) → WF rest := by
  intro h; cases e <;> exact h.1

theorem WF_suffix {Op Out : Type} (a b : List (TEv Op Out)) : WF (a ++ b) → WF b := by
  induction a with
  | nil => intro h; exact h
  | cons e a ih => intro h; exact ih (WF_tail e (a ++ b) h)

/-- a linearization point is preceded by the call of that operation -/
theorem WF_lin_call {Op Out : Type} (rtr : List (TEv Op Out)) (hwf : WF rtr) (i : Nat) (op : Op) (out : Out) :
    TEv.lin i op out ∈ rtr → TEv.call i op ∈ rtr := by
  induction rtr with
  | nil => intro h; cases h
  | cons e rest ih =>
    intro h
    rcases List.mem_cons.mp h with heq | hin
    · subst heq
      exact List.mem_cons_of_mem _ hwf.2.1
    · exact List.mem_cons_of_mem _ (ih (WF_tail e rest hwf) hin)

/-- a return is preceded by a linearization point with the returned output -/
theorem WF_ret_lin {Op Out : Type} (rtr : List (TEv Op Out)) (hwf : WF rtr) (i : Nat) (out : Out) :
    TEv.ret i out ∈ rtr → ∃ op, TEv.lin i op out ∈ rtr := by
  induction rtr with
  | nil => intro h; cases h
  | cons e rest ih =>
    intro h
    rcases List.mem_cons.mp h with heq | hin
    · subst heq
      obtain ⟨op, hop⟩ := hwf.2
      exact ⟨op, List.mem_cons_of_mem _ hop⟩
    · obtain ⟨op, hop⟩ := ih (WF_tail e rest hwf) hin
      exact ⟨op, List.mem_cons_of_mem _ hop⟩

theorem WF_linlog_nodup {Op Out : Type} (rtr : List (TEv Op Out)) (hwf : WF rtr) :
    ((linlog rtr).map (·.1)).Nodup := by
  induction rtr with
  | nil => simp [linlog]
  | cons e rest ih =>
    have ih' := ih (WF_tail e rest hwf)
    cases e with
    | call i op => rw [linlog_cons_call]; exact ih'
    | ret i out => rw [linlog_cons_ret]; exact ih'
    | lin i op out =>
      rw [linlog_cons_lin, List.map_append, List.nodup_append]
      refine ⟨ih', by simp, ?_⟩
      intro a ha b hb hab
      simp only [List.map_cons, List.map_nil, List.mem_singleton] at hb
      subst hb; subst hab
      exact hwf.2.2 ((mem_linlog_ids rest a).mp ha)

/-! ### `Before` and appending -/

theorem Before_append_left {α : Type} (l m : List α) (x y : α) : Before l x y → Before (l ++ m) x y := by
  rintro ⟨l1, l2, l3, h⟩
  exact ⟨l1, l2, l3 ++ m, by simp [h]⟩

theorem Before_snoc_of_mem {α : Type} (l : List α) (x z : α) : x ∈ l → Before (l ++ [z]) x z := by
  intro h
  obtain ⟨s, t, hst⟩ := List.append_of_mem h
  exact ⟨s, t, [], by simp [hst]⟩

theorem Before_snoc {α : Type} (l : List α) (x y z : α) :
    Before (l ++ [z]) x y → Before l x y ∨ (x ∈ l ∧ y = z) := by
  rintro ⟨l1, l2, l3, h⟩
  rcases List.eq_nil_or_concat l3 with hnil | ⟨l3', w, hw⟩
  · subst hnil
    have h' : l ++ [z] = (l1 ++ x :: l2) ++ [y] := by simp [h]
    obtain ⟨hl, hz⟩ := List.append_singleton_inj.mp h'
    right
    exact ⟨by simp [hl], hz.symm⟩
  · subst hw
    have h' : l ++ [z] = (l1 ++ x :: (l2 ++ y :: l3')) ++ [w] := by simp [h, List.concat_eq_append]
    obtain ⟨hl, _⟩ := List.append_singleton_inj.mp h'
    left
    exact ⟨l1, l2, l3', hl⟩

theorem Before_mem_left {α : Type} (l : List α) (x y : α) : Before l x y → x ∈ l := by
  rintro ⟨l1, l2, l3, h⟩; simp [h]

/-! ### real-time order -/

theorem WF_realtime {Op Out : Type} (rtr : List (TEv Op Out)) (hwf : WF rtr)
    (pa pb : Nat × Op × Out) (oa : Out) :
    pa ∈ linlog rtr → pb ∈ linlog rtr →
    Before (history rtr) (Ev.ret pa.1 oa) (Ev.call pb.1 pb.2.1) → Before (linlog rtr) pa pb := by
  induction rtr with
  | nil => intro h; simp [linlog] at h
  | cons e rest ih =>
    have hwf' := WF_tail e rest hwf
    obtain ⟨a, opa, outa⟩ := pa
    obtain ⟨b, opb, outb⟩ := pb
    cases e with
    | call i op =>
      rw [linlog_cons_call, history_cons_call]
      intro ha hb hbef
      rcases Before_snoc _ _ _ _ hbef with h | ⟨_, heq⟩
      · exact ih hwf' ha hb h
      · exfalso
        simp only [Ev.call.injEq] at heq
        obtain ⟨hbi, hop⟩ := heq
        subst hbi; subst hop
        have hcall := WF_lin_call rest hwf' _ _ _ ((mem_linlog rest _ _ _).mp hb)
        apply hwf.2
        exact List.mem_filterMap.mpr ⟨_, hcall, rfl⟩
    | ret i out =>
      rw [linlog_cons_ret, history_cons_ret]
      intro ha hb hbef
      rcases Before_snoc _ _ _ _ hbef with h | ⟨_, heq⟩
      · exact ih hwf' ha hb h
      · cases heq
    | lin i op out =>
      rw [linlog_cons_lin, history_cons_lin]
      intro ha hb hbef
      rcases List.mem_append.mp ha with ha | ha
      · rcases List.mem_append.mp hb with hb | hb
        · exact Before_append_left _ _ _ _ (ih hwf' ha hb hbef)
        · simp only [List.mem_singleton] at hb
          rw [hb]
          exact Before_snoc_of_mem _ _ _ ha
      · exfalso
        simp only [List.mem_singleton, Prod.mk.injEq] at ha
        obtain ⟨hai, _, _⟩ := ha
        subst hai
        have hret := (mem_history_ret rest _ _).mp (Before_mem_left _ _ _ hbef)
        obtain ⟨op', hlin⟩ := WF_ret_lin rest hwf' _ _ hret
        apply hwf.2.2
        exact List.mem_map.mpr ⟨_, List.mem_filterMap.mpr ⟨_, hlin, rfl⟩, rfl⟩

/-! ### the theorem -/

theorem witness_linearizable {Op Out : Type} (S : SeqSpec Op Out) (rtr : List (TEv Op Out))
    (hwf : WF rtr) (hlegal : legal S ((linlog rtr).map (·.2))) : linearizable S (history rtr) := by
  refine ⟨linlog rtr, WF_linlog_nodup rtr hwf, ?_, ?_, ?_, hlegal⟩
  · rintro ⟨i, op, out⟩ hp
    exact (mem_history_call rtr i op).mpr (WF_lin_call rtr hwf i op out ((mem_linlog rtr i op out).mp hp))
  · intro i out hret
    obtain ⟨op, hlin⟩ := WF_ret_lin rtr hwf i out ((mem_history_ret rtr i out).mp hret)
    exact ⟨op, (mem_linlog rtr i op out).mpr hlin⟩
  · intro pa pb oa ha hb hbef
    exact WF_realtime rtr hwf pa pb oa ha hb hbef

/-! ### non-vacuity: a concrete witness, and a history that is not linearizable -/

/-- put [1] [7] and get [1] overlap; the put is linearized first, the get reads [7] (newest event first) -/
def exTrace : List (TEv COp COut) :=
  [.ret 1 (.val (some [7])), .ret 0 .ok, .lin 1 (.get [1]) (.val (some [7])), .lin 0 (.put [1] [7]) .ok,
   .call 1 (.get [1]), .call 0 (.put [1] [7])]

example : WF exTrace := by
  simp [exTrace, WF, TEv.toLin, TEv.callId]

example : history exTrace =
    [.call 0 (.put [1] [7]), .call 1 (.get [1]), .ret 0 .ok, .ret 1 (.val (some [7]))] := rfl

example : linearizable mapSpec (history exTrace) := by
  apply witness_linearizable
  · simp [exTrace, WF, TEv.toLin, TEv.callId]
  · have hl : linlog exTrace = [(0, .put [1] [7], .ok), (1, .get [1], .val (some [7]))] := rfl
    rw [hl]
    refine ⟨_, _, rfl, _, ⟨?_, rfl⟩, rfl⟩
    simp [KVMap.set]

theorem nodup_map_split {α β : Type} (f : α → β) (l r : List α) (x : α) :
    ((l ++ x :: r).map f).Nodup → ∀ p, p ∈ l ∨ p ∈ r → f p ≠ f x := by
  intro h p hp
  rw [List.map_append, List.map_cons, List.nodup_append, List.nodup_cons] at h
  obtain ⟨_, ⟨hx, _⟩, hd⟩ := h
  rcases hp with hp | hp
  · exact hd (f p) (List.mem_map_of_mem hp) (f x) (by simp)
  · intro heq
    apply hx
    rw [← heq]
    exact List.mem_map_of_mem hp

/-- the get starts after the put has returned, but reads nothing -/
def exBad : List (Ev COp COut) :=
  [.call 0 (.put [1] [7]), .ret 0 .ok, .call 1 (.get [1]), .ret 1 (.val none)]

example : ¬ linearizable mapSpec exBad := by
  rintro ⟨π, hnd, hsub, hcompl, hrt, hleg⟩
  obtain ⟨op0, h0⟩ := hcompl 0 .ok (by simp [exBad])
  obtain ⟨op1, h1⟩ := hcompl 1 (.val none) (by simp [exBad])
  have e0 : op0 = .put [1] [7] := by
    have := hsub _ h0; simp [exBad] at this; exact this
  have e1 : op1 = .get [1] := by
    have := hsub _ h1; simp [exBad] at this; exact this
  subst e0; subst e1
  have hids : ∀ p ∈ π, p.1 = 0 ∨ p.1 = 1 := by
    intro p hp
    have := hsub p hp
    simp [exBad] at this
    rcases this with h | h
    · exact Or.inl h.1
    · exact Or.inr h.1
  have hbef : Before π (0, .put [1] [7], .ok) (1, .get [1], .val none) := by
    apply hrt _ _ .ok h0 h1
    exact ⟨[.call 0 (.put [1] [7])], [], [.ret 1 (.val none)], rfl⟩
  obtain ⟨l1, l2, l3, hπ⟩ := hbef
  subst hπ
  -- every other element of π would repeat id 0 or id 1
  have hA := nodup_map_split (·.1) l1 (l2 ++ (1, COp.get [1], COut.val none) :: l3) _ hnd
  have hnd' : ((((l1 ++ (0, COp.put [1] [7], COut.ok) :: l2) ++ (1, COp.get [1], COut.val none) :: l3)).map
      (·.1)).Nodup := by simpa using hnd
  have hB := nodup_map_split (·.1) (l1 ++ (0, COp.put [1] [7], COut.ok) :: l2) l3 _ hnd'
  have hno : ∀ p, p ∈ l1 ∨ p ∈ l2 ∨ p ∈ l3 → False := by
    intro p hp
    have h01 := hids p (by rcases hp with h | h | h <;> simp [h])
    have hne0 : p.1 ≠ 0 := hA p (by rcases hp with h | h | h <;> simp [h])
    have hne1 : p.1 ≠ 1 := hB p (by rcases hp with h | h | h <;> simp [h])
    omega
  have hl1 : l1 = [] := List.eq_nil_iff_forall_not_mem.mpr (fun p hp => hno p (Or.inl hp))
  have hl2 : l2 = [] := List.eq_nil_iff_forall_not_mem.mpr (fun p hp => hno p (Or.inr (Or.inl hp)))
  have hl3 : l3 = [] := List.eq_nil_iff_forall_not_mem.mpr (fun p hp => hno p (Or.inr (Or.inr hp)))
  subst hl1; subst hl2; subst hl3
  obtain ⟨s', m, hput, m', hget, _⟩ := hleg
  have hm : m = emptyMap.set [1] (some [7]) := hput
  have hg : (none : Option Bytes) = m [1] := hget.1
  rw [hm] at hg
  simp [KVMap.set] at hg

end Kevo.Lin
