/-
  Kevo.Proofs.ConcSkipList — invariants of the concurrent skip-list model (one writer, any number of readers, any
  schedule): level lists stay strictly sorted, each level is contained in the one below, level 0 is the sequential
  level-0 list of the completed inserts; every reader walks forward through nodes of level 0 and skips nothing that
  was there when it started.
-/
import Kevo.Model.ConcSkipList
import Kevo.Model.MemTable
import Kevo.Proofs.MemTable
namespace Kevo.Proofs.ConcSkipList
open Kevo Kevo.ConcSkipList
open Kevo.Engine (MEntry entryLt insertSorted)
open Kevo.Proofs.MemTable

/-! ### the order of a level list -/

abbrev NLt (a b : Node) : Prop := nodeLt a b = true

theorem nodeLt_iff (a b : Node) :
    nodeLt a b = true ↔ entryLt a.e b.e = true ∨ (entryLt b.e a.e = false ∧ a.id > b.id) := by
  unfold nodeLt
  simp

theorem entryLt_of_le_of_lt {a b c : MEntry} (h1 : EntryLe a b) (h2 : entryLt b c = true) : entryLt a c = true := by
  rw [entryLt_iff] at *
  unfold EntryLe at h1
  rcases h1 with h1 | ⟨k1, s1⟩
  · rcases h2 with h2 | ⟨k2, _⟩
    · exact Or.inl (ltB_trans h1 h2)
    · exact Or.inl (k2 ▸ h1)
  · rcases h2 with h2 | ⟨k2, s2⟩
    · exact Or.inl (k1 ▸ h2)
    · exact Or.inr ⟨k1.trans k2, by omega⟩

theorem nodeLt_irrefl (a : Node) : nodeLt a a = false := by
  cases h : nodeLt a a with
  | false => rfl
  | true =>
    rw [nodeLt_iff] at h
    rcases h with h | ⟨_, h⟩
    · rw [entryLt_irrefl] at h; contradiction
    · omega

theorem nodeLt_trans {a b c : Node} (h1 : NLt a b) (h2 : NLt b c) : NLt a c := by
  unfold NLt at *
  rw [nodeLt_iff] at *
  rcases h1 with h1 | ⟨h1, i1⟩
  · rcases h2 with h2 | ⟨h2, _⟩
    · exact Or.inl (entryLt_trans h1 h2)
    · exact Or.inl (entryLt_of_lt_of_le h1 ((not_entryLt_iff _ _).mp h2))
  · rcases h2 with h2 | ⟨h2, i2⟩
    · exact Or.inl (entryLt_of_le_of_lt ((not_entryLt_iff _ _).mp h1) h2)
    · right
      refine ⟨?_, by omega⟩
      exact (not_entryLt_iff _ _).mpr (((not_entryLt_iff _ _).mp h1).trans ((not_entryLt_iff _ _).mp h2))

theorem nodeLt_asymm {a b : Node} (h : NLt a b) : nodeLt b a = false := by
  cases hb : nodeLt b a with
  | false => rfl
  | true => have := nodeLt_trans h hb; unfold NLt at this; rw [nodeLt_irrefl] at this; contradiction

theorem nodeLt_le {a b : Node} (h : NLt a b) : EntryLe a.e b.e := by
  unfold NLt at h
  rw [nodeLt_iff] at h
  rcases h with h | ⟨h, _⟩
  · exact EntryLe.of_lt h
  · exact (not_entryLt_iff _ _).mp h

theorem nodeLt_of_key_lt {a b : Node} (h : ltB a.e.key b.e.key = true) : NLt a b := by
  unfold NLt
  rw [nodeLt_iff]
  exact Or.inl ((entryLt_iff _ _).mpr (Or.inl h))

theorem key_le_of_le {a b : MEntry} (h : EntryLe a b) : ltB b.key a.key = false := by
  cases hb : ltB b.key a.key with
  | false => rfl
  | true =>
    rcases h with h | ⟨hk, _⟩
    · have := ltB_asymm h; rw [hb] at this; contradiction
    · rw [hk, ltB_irrefl] at hb; contradiction

/-- members of a strictly sorted list are comparable -/
theorem mem_trichotomy {L : List Node} (hs : L.Pairwise NLt) {a b : Node} (ha : a ∈ L) (hb : b ∈ L) :
    a = b ∨ NLt a b ∨ NLt b a := by
  induction L with
  | nil => simp at ha
  | cons x xs ih =>
    rw [List.pairwise_cons] at hs
    rcases List.mem_cons.mp ha with hax | hax
    · rcases List.mem_cons.mp hb with hbx | hbx
      · exact Or.inl (hax.trans hbx.symm)
      · exact Or.inr (Or.inl (hax ▸ hs.1 b hbx))
    · rcases List.mem_cons.mp hb with hbx | hbx
      · exact Or.inr (Or.inr (hbx ▸ hs.1 a hax))
      · exact ih hs.2 hax hbx

/-- two strictly sorted lists: containment as sets is containment as sublists -/
theorem sublist_of_subset_sorted : ∀ (L1 L2 : List Node), L1.Pairwise NLt → L2.Pairwise NLt →
    (∀ x ∈ L1, x ∈ L2) → L1.Sublist L2 := by
  intro L1
  induction L1 with
  | nil => intro L2 _ _ _; exact List.nil_sublist _
  | cons a t ih =>
    intro L2 h1 h2 hsub
    rw [List.pairwise_cons] at h1
    obtain ⟨p, q, rfl⟩ := List.append_of_mem (hsub a (by simp))
    have h2' := List.pairwise_append.mp h2
    have hq : q.Pairwise NLt := (List.pairwise_cons.mp h2'.2.1).2
    have haq : ∀ x ∈ q, NLt a x := (List.pairwise_cons.mp h2'.2.1).1
    have hpa : ∀ x ∈ p, NLt x a := fun x hx => h2'.2.2 x hx a (by simp)
    have htq : ∀ x ∈ t, x ∈ q := by
      intro x hx
      have hax : NLt a x := h1.1 x hx
      rcases List.mem_append.mp (hsub x (by simp [hx])) with hxp | hxa
      · have := nodeLt_asymm (hpa x hxp)
        unfold NLt at hax; rw [hax] at this; contradiction
      · rcases List.mem_cons.mp hxa with rfl | hxq
        · unfold NLt at hax; rw [nodeLt_irrefl] at hax; contradiction
        · exact hxq
    have := ih q h1.2 hq htq
    exact (List.Sublist.cons_cons a this).trans (List.sublist_append_right p (a :: q))

/-! ### the writer's splice -/

def insertNode (n : Node) : List Node → List Node
  | [] => [n]
  | x :: xs => if entryLt x.e n.e then x :: insertNode n xs else n :: x :: xs

theorem insertAt_walkLen (n : Node) : ∀ (L : List Node), insertAt (walkLen L n.e) n L = insertNode n L := by
  intro L
  induction L with
  | nil => rfl
  | cons x xs ih =>
    unfold insertNode
    by_cases h : entryLt x.e n.e = true
    · simp only [h, if_true]
      rw [← ih]
      simp [insertAt, walkLen, h]
    · simp [insertAt, walkLen, h]

theorem mem_insertNode {n x : Node} : ∀ {L : List Node}, x ∈ insertNode n L ↔ x = n ∨ x ∈ L := by
  intro L
  induction L with
  | nil => simp [insertNode]
  | cons y ys ih =>
    unfold insertNode
    split
    · simp only [List.mem_cons, ih]
      constructor
      · rintro (h | h | h)
        · exact Or.inr (Or.inl h)
        · exact Or.inl h
        · exact Or.inr (Or.inr h)
      · rintro (h | h | h)
        · exact Or.inr (Or.inl h)
        · exact Or.inl h
        · exact Or.inr (Or.inr h)
    · simp [List.mem_cons]

theorem insertNode_sorted (n : Node) : ∀ (L : List Node), (∀ x ∈ L, x.id < n.id) → L.Pairwise NLt →
    (insertNode n L).Pairwise NLt := by
  intro L
  induction L with
  | nil => intro _ _; simp [insertNode]
  | cons y ys ih =>
    intro hid h
    rw [List.pairwise_cons] at h
    unfold insertNode
    split
    · rename_i hlt
      rw [List.pairwise_cons]
      refine ⟨?_, ih (fun x hx => hid x (by simp [hx])) h.2⟩
      intro x hx
      rcases mem_insertNode.mp hx with rfl | hx
      · exact (nodeLt_iff _ _).mpr (Or.inl hlt)
      · exact h.1 x hx
    · rename_i hlt
      have hny : NLt n y := (nodeLt_iff _ _).mpr (Or.inr ⟨by simpa using hlt, hid y (by simp)⟩)
      rw [List.pairwise_cons, List.pairwise_cons]
      refine ⟨?_, h.1, h.2⟩
      intro x hx
      rcases List.mem_cons.mp hx with rfl | hx
      · exact hny
      · exact nodeLt_trans hny (h.1 x hx)

theorem map_insertNode (n : Node) : ∀ (L : List Node),
    (insertNode n L).map (·.e) = insertSorted n.e (L.map (·.e)) := by
  intro L
  induction L with
  | nil => rfl
  | cons y ys ih =>
    unfold insertNode
    simp only [List.map_cons, insertSorted]
    split
    · simp [ih]
    · simp

/-! ### the atomic load -/

def gtCur : Option Node → Node → Bool
  | none, _ => true
  | some c, x => nodeLt c x

theorem succIn_eq_find : ∀ (L : List Node), L.Pairwise NLt → ∀ (cur : Option Node), (∀ c, cur = some c → c ∈ L) →
    succIn L cur = L.find? (gtCur cur) := by
  intro L hs cur hc
  cases cur with
  | none =>
    cases L with
    | nil => rfl
    | cons x xs => simp [succIn, List.find?_cons, gtCur]
  | some c =>
    have hcL := hc c rfl
    clear hc
    induction L with
    | nil => simp at hcL
    | cons x xs ih =>
      rw [List.pairwise_cons] at hs
      by_cases hx : x = c
      · subst hx
        have h1 : gtCur (some x) x = false := nodeLt_irrefl x
        simp only [succIn, List.dropWhile_cons, decide_true, Bool.not_true, Bool.false_eq_true, if_false,
          List.find?_cons, h1]
        cases xs with
        | nil => rfl
        | cons y ys =>
          have : gtCur (some x) y = true := hs.1 y (by simp)
          simp [this]
      · have hcx : c ∈ xs := by
          rcases List.mem_cons.mp hcL with h | h
          · exact absurd h.symm hx
          · exact h
        have h1 : gtCur (some c) x = false := nodeLt_asymm (hs.1 c hcx)
        have h2 : (!decide (x = c)) = true := by simp [hx]
        have := ih hs.2 hcx
        simp only [succIn, List.dropWhile_cons, h2, if_true, List.find?_cons, h1] at this ⊢
        exact this

theorem find_least {p : Node → Bool} : ∀ {L : List Node}, L.Pairwise NLt → ∀ {y : Node}, L.find? p = some y →
    y ∈ L ∧ p y = true ∧ ∀ m ∈ L, p m = true → m = y ∨ NLt y m := by
  intro L
  induction L with
  | nil => intro _ y h; simp at h
  | cons x xs ih =>
    intro hs y h
    rw [List.pairwise_cons] at hs
    rw [List.find?_cons] at h
    cases hp : p x with
    | true =>
      rw [hp] at h
      simp only [Option.some.injEq] at h
      subst h
      refine ⟨by simp, hp, ?_⟩
      intro m hm _
      rcases List.mem_cons.mp hm with rfl | hm
      · exact Or.inl rfl
      · exact Or.inr (hs.1 m hm)
    | false =>
      rw [hp] at h
      obtain ⟨h1, h2, h3⟩ := ih hs.2 h
      refine ⟨by simp [h1], h2, ?_⟩
      intro m hm hpm
      rcases List.mem_cons.mp hm with rfl | hm
      · rw [hp] at hpm; contradiction
      · exact h3 m hm hpm

theorem load_some {L : List Node} (hs : L.Pairwise NLt) {cur : Option Node} (hc : ∀ c, cur = some c → c ∈ L)
    {y : Node} (h : succIn L cur = some y) :
    y ∈ L ∧ gtCur cur y = true ∧ ∀ m ∈ L, gtCur cur m = true → m = y ∨ NLt y m := by
  rw [succIn_eq_find L hs cur hc] at h
  exact find_least hs h

theorem load_none {L : List Node} (hs : L.Pairwise NLt) {cur : Option Node} (hc : ∀ c, cur = some c → c ∈ L)
    (h : succIn L cur = none) : ∀ m ∈ L, gtCur cur m = false := by
  rw [succIn_eq_find L hs cur hc] at h
  intro m hm
  have := List.find?_eq_none.mp h m hm
  simpa using this

/-! ### the shared structure: invariant of every writer step -/

structure LevelsOK (s : St) : Prop where
  sorted : ∀ l, (s.levels l).Pairwise NLt
  chain : ∀ l, ∀ n ∈ s.levels (l + 1), n ∈ s.levels l
  done : ∀ n, n ∈ s.levels 0 ↔ n ∈ s.done
  refines : (s.levels 0).map (·.e) = Kevo.MemTable.level0 (s.done.map (·.e))
  ids : ∀ n ∈ s.levels 0, n.id < s.nextId
  wr : ∀ w, s.writer = some w →
        w.lvl < w.height ∧ w.node.id < s.nextId ∧
        (∀ l, l < w.lvl → w.node ∈ s.levels l) ∧
        (∀ l, w.lvl ≤ l → ∀ x ∈ s.levels l, x.id < w.node.id) ∧
        (∀ l, w.lvl ≤ l → w.pos l = walkLen (s.levels l) w.node.e)

theorem mem_level0_of_chain {lv : Nat → List Node} (hc : ∀ l, ∀ n ∈ lv (l + 1), n ∈ lv l) {n : Node} :
    ∀ {l : Nat}, n ∈ lv l → n ∈ lv 0 := by
  intro l
  induction l with
  | zero => exact id
  | succ l ih => intro h; exact ih (hc l n h)

theorem LevelsOK.init : LevelsOK init := by
  refine ⟨?_, ?_, ?_, ?_, ?_, ?_⟩
  · intro l; exact List.Pairwise.nil
  · intro l n h; simp [ConcSkipList.init] at h
  · intro n; simp [ConcSkipList.init]
  · rfl
  · intro n h; simp [ConcSkipList.init] at h
  · intro w h; simp [ConcSkipList.init] at h

theorem level0_snoc (ops : List MEntry) (e : MEntry) :
    Kevo.MemTable.level0 (ops ++ [e]) = insertSorted e (Kevo.MemTable.level0 ops) := by
  simp [Kevo.MemTable.level0, List.foldl_append]

theorem LevelsOK.wBegin {s : St} (h : LevelsOK s) (e : MEntry) (ht : Nat) : LevelsOK (step rl s (.wBegin e ht)) := by
  unfold step
  cases hw : s.writer with
  | some w => simp only; exact h
  | none =>
    simp only
    by_cases h0 : ht = 0
    · simp only [h0, if_true]; exact h
    · simp only [h0, if_false]
      refine ⟨h.sorted, h.chain, h.done, h.refines, ?_, ?_⟩
      · intro n hn
        have := h.ids n hn
        show n.id < s.nextId + 1
        omega
      · intro w hw'
        simp only [Option.some.injEq] at hw'
        subst hw'
        refine ⟨by show 0 < ht; omega, by show s.nextId < s.nextId + 1; omega, ?_, ?_, ?_⟩
        · intro l hl; simp at hl
        · intro l _ x hx
          exact h.ids x (mem_level0_of_chain h.chain hx)
        · intro l _; rfl

theorem LevelsOK.wLink {s : St} (h : LevelsOK s) : LevelsOK (step rl s .wLink) := by
  unfold step
  cases hw : s.writer with
  | none => simp only; exact h
  | some w =>
    simp only
    obtain ⟨hlt, hid, hbelow, habove, hpos⟩ := h.wr w hw
    have hins : insertAt (w.pos w.lvl) w.node (s.levels w.lvl) = insertNode w.node (s.levels w.lvl) := by
      rw [hpos w.lvl (Nat.le_refl _)]
      exact insertAt_walkLen w.node _
    have hlev : ∀ l, (if l = w.lvl then insertAt (w.pos l) w.node (s.levels l) else s.levels l) =
        if l = w.lvl then insertNode w.node (s.levels w.lvl) else s.levels l := by
      intro l
      by_cases hl : l = w.lvl
      · subst hl; simp [hins]
      · simp [hl]
    refine ⟨?_, ?_, ?_, ?_, ?_, ?_⟩
    · intro l
      show (if l = w.lvl then insertAt (w.pos l) w.node (s.levels l) else s.levels l).Pairwise NLt
      rw [hlev]
      by_cases hl : l = w.lvl
      · simp only [hl, if_true]
        exact insertNode_sorted w.node _ (habove w.lvl (Nat.le_refl _)) (h.sorted w.lvl)
      · simp only [hl, if_false]
        exact h.sorted l
    · intro l n hn
      show n ∈ (if l = w.lvl then insertAt (w.pos l) w.node (s.levels l) else s.levels l)
      have hn' : n ∈ (if l + 1 = w.lvl then insertAt (w.pos (l + 1)) w.node (s.levels (l + 1)) else s.levels (l + 1)) := hn
      rw [hlev] at hn' ⊢
      by_cases h1 : l + 1 = w.lvl
      · have hl : ¬ l = w.lvl := by omega
        simp only [h1, if_true] at hn'
        simp only [hl, if_false]
        rcases mem_insertNode.mp hn' with rfl | hn'
        · exact hbelow l (by omega)
        · exact h.chain l n (h1 ▸ hn')
      · simp only [h1, if_false] at hn'
        by_cases hl : l = w.lvl
        · simp only [hl, if_true]
          exact mem_insertNode.mpr (Or.inr (hl ▸ h.chain l n hn'))
        · simp only [hl, if_false]
          exact h.chain l n hn'
    · intro n
      show n ∈ (if 0 = w.lvl then insertAt (w.pos 0) w.node (s.levels 0) else s.levels 0) ↔
        n ∈ (if w.lvl = 0 then s.done ++ [w.node] else s.done)
      rw [hlev]
      by_cases h0 : w.lvl = 0
      · have h0' : 0 = w.lvl := h0.symm
        simp only [h0, if_true]
        rw [mem_insertNode, List.mem_append, List.mem_singleton, h.done n]
        constructor
        · rintro (h | h)
          · exact Or.inr h
          · exact Or.inl h
        · rintro (h | h)
          · exact Or.inr h
          · exact Or.inl h
      · have h0' : ¬ 0 = w.lvl := fun hh => h0 hh.symm
        simp only [h0, h0', if_false]
        exact h.done n
    · show (if 0 = w.lvl then insertAt (w.pos 0) w.node (s.levels 0) else s.levels 0).map (·.e) =
        Kevo.MemTable.level0 ((if w.lvl = 0 then s.done ++ [w.node] else s.done).map (·.e))
      rw [hlev]
      by_cases h0 : w.lvl = 0
      · simp only [h0, if_true, List.map_append, List.map_cons, List.map_nil]
        rw [level0_snoc, map_insertNode, h.refines]
      · have h0' : ¬ 0 = w.lvl := fun hh => h0 hh.symm
        simp only [h0, h0', if_false]
        exact h.refines
    · intro n hn
      have hn' : n ∈ (if 0 = w.lvl then insertAt (w.pos 0) w.node (s.levels 0) else s.levels 0) := hn
      rw [hlev] at hn'
      show n.id < s.nextId
      by_cases h0 : 0 = w.lvl
      · simp only [h0, if_true] at hn'
        rcases mem_insertNode.mp hn' with rfl | hn'
        · exact hid
        · exact h.ids n (h0 ▸ hn')
      · simp only [h0, if_false] at hn'
        exact h.ids n hn'
    · intro w' hw'
      have hw'' : (if w.lvl + 1 < w.height then some { w with lvl := w.lvl + 1 } else none) = some w' := hw'
      by_cases hh : w.lvl + 1 < w.height
      · simp only [hh, if_true, Option.some.injEq] at hw''
        subst hw''
        refine ⟨hh, hid, ?_, ?_, ?_⟩
        · intro l hl
          show w.node ∈ (if l = w.lvl then insertAt (w.pos l) w.node (s.levels l) else s.levels l)
          rw [hlev]
          by_cases hl' : l = w.lvl
          · simp only [hl', if_true]
            exact mem_insertNode.mpr (Or.inl rfl)
          · simp only [hl', if_false]
            exact hbelow l (by have : l < w.lvl + 1 := hl; omega)
        · intro l hl x hx
          have hl' : ¬ l = w.lvl := by have : w.lvl + 1 ≤ l := hl; omega
          have hx' : x ∈ (if l = w.lvl then insertAt (w.pos l) w.node (s.levels l) else s.levels l) := hx
          simp only [hl', if_false] at hx'
          exact habove l (by have : w.lvl + 1 ≤ l := hl; omega) x hx'
        · intro l hl
          have hl' : ¬ l = w.lvl := by have : w.lvl + 1 ≤ l := hl; omega
          show w.pos l = walkLen (if l = w.lvl then insertAt (w.pos l) w.node (s.levels l) else s.levels l) w.node.e
          simp only [hl', if_false]
          exact hpos l (by have : w.lvl + 1 ≤ l := hl; omega)
      · simp only [hh, if_false] at hw''
        contradiction

/-- what a writer step does to the level lists: they only grow -/
theorem levels_mono (rl : Bool) {s : St} (h : LevelsOK s) (a : Act) :
    ∀ l n, n ∈ s.levels l → n ∈ (step rl s a).levels l := by
  intro l n hn
  cases a with
  | wBegin e ht =>
    unfold step
    cases hw : s.writer with
    | some w => exact hn
    | none => simp only; split <;> exact hn
  | wLink =>
    unfold step
    cases hw : s.writer with
    | none => exact hn
    | some w =>
      show n ∈ (if l = w.lvl then insertAt (w.pos l) w.node (s.levels l) else s.levels l)
      by_cases hl : l = w.lvl
      · simp only [hl, if_true]
        rw [(h.wr w hw).2.2.2.2 w.lvl (Nat.le_refl _), insertAt_walkLen]
        exact mem_insertNode.mpr (Or.inr (hl ▸ hn))
      · simp only [hl, if_false]; exact hn
  | rStart r op lvl => exact hn
  | rStep r => exact hn

theorem LevelsOK.step {s : St} (rl : Bool) (h : LevelsOK s) (a : Act) : LevelsOK (step rl s a) := by
  cases a with
  | wBegin e ht => exact h.wBegin e ht
  | wLink => exact h.wLink
  | rStart r op lvl => exact ⟨h.sorted, h.chain, h.done, h.refines, h.ids, h.wr⟩
  | rStep r => exact ⟨h.sorted, h.chain, h.done, h.refines, h.ids, h.wr⟩

theorem LevelsOK.run (rl : Bool) : ∀ (acts : List Act) {s : St}, LevelsOK s → LevelsOK (run rl s acts) := by
  intro acts
  induction acts with
  | nil => intro s h; exact h
  | cons a as ih => intro s h; exact ih (h.step rl a)

/-! ### readers -/

/-- the part of the snapshot an iteration has to deliver -/
def inRange : Op → Node → Bool
  | .seek t, m => !ltB m.e.key t
  | _, _ => true

/-- where `Seek(t)` landed (the first element of `out`): nothing of the snapshot at or above the target lies before it;
    it is at or above the target if the code does not re-load; in any case a landing BELOW the target is on a node that
    was linked after the operation started. -/
def Landed (rl : Bool) (r : Reader) (t : Bytes) : Prop :=
  ∀ y, r.out.head? = some y →
    (∀ m ∈ r.snap, ltB m.e.key t = false → nodeLt m y = false) ∧
    (rl = false → ltB y.e.key t = false) ∧
    (ltB y.e.key t = false ∨ y ∉ r.snap)

/-- what `Find(k)` returned -/
def FindRes (rl : Bool) (lv0 : List Node) (r : Reader) (k : Bytes) : Option Node → Prop
  | some b => b ∈ lv0 ∧ b.e.key = k ∧ ∀ m ∈ r.snap, m.e.key = k → m.e.seq ≤ b.e.seq
  | none => (∀ m ∈ r.snap, m.e.key ≠ k) ∨ (rl = true ∧ ∃ y ∈ lv0, y ∉ r.snap ∧ ltB y.e.key k = true)

def ModeInv (rl : Bool) (lv : Nat → List Node) (r : Reader) : Prop :=
  match r.mode with
  | .idle => r.out = []
  | .search l => r.out = [] ∧ r.op ≠ .first ∧ ∀ c, r.cur = some c → c ∈ lv l ∧ ltB c.e.key (tgt r.op) = true
  | .reload => rl = true ∧ r.out = [] ∧ r.op ≠ .first ∧ (∀ c, r.cur = some c → ltB c.e.key (tgt r.op) = true) ∧
      (∀ m ∈ r.snap, gtCur r.cur m = true → ltB m.e.key (tgt r.op) = false)
  | .scan => (∀ k, r.op ≠ .find k) ∧
      (∀ m ∈ r.snap, inRange r.op m = true → gtCur r.cur m = false → m ∈ r.out) ∧
      (∀ t, r.op = .seek t → r.out ≠ [] ∧ Landed rl r t)
  | .fscan best => ∃ k c, r.op = .find k ∧ r.cur = some c ∧ c.e.key = k ∧ best ∈ lv 0 ∧ best.e.key = k ∧
      ∀ m ∈ r.snap, m.e.key = k → gtCur r.cur m = false → m.e.seq ≤ best.e.seq
  | .finished res => (∀ k, r.op = .find k → FindRes rl (lv 0) r k res) ∧
      ((∀ k, r.op ≠ .find k) → (∀ m ∈ r.snap, inRange r.op m = true → m ∈ r.out) ∧ ∀ t, r.op = .seek t → Landed rl r t)

structure Basic (lv0 : List Node) (r : Reader) : Prop where
  tmem : ∀ n ∈ r.trace, n ∈ lv0
  tsorted : r.trace.Pairwise NLt
  tnone : r.cur = none → r.trace = []
  tsome : ∀ c, r.cur = some c → c ∈ r.trace ∧ ∀ n ∈ r.trace, n = c ∨ NLt n c
  smem : ∀ n ∈ r.snap, n ∈ lv0
  omem : ∀ n ∈ r.out, n ∈ r.trace
  osorted : r.out.Pairwise NLt

structure RInv (rl : Bool) (lv : Nat → List Node) (r : Reader) : Prop where
  basic : Basic (lv 0) r
  mode : ModeInv rl lv r

theorem Basic.setMode {lv0 : List Node} {r : Reader} (hb : Basic lv0 r) (m : Mode) : Basic lv0 { r with mode := m } :=
  ⟨hb.tmem, hb.tsorted, hb.tnone, hb.tsome, hb.smem, hb.omem, hb.osorted⟩

theorem Basic.cur_mem {lv0 : List Node} {r : Reader} (hb : Basic lv0 r) : ∀ c, r.cur = some c → c ∈ lv0 :=
  fun c hc => hb.tmem c (hb.tsome c hc).1

theorem Basic.trace_lt {lv0 : List Node} {r : Reader} (hb : Basic lv0 r) {y : Node} (hy : gtCur r.cur y = true) :
    ∀ n ∈ r.trace, NLt n y := by
  intro n hn
  cases hc : r.cur with
  | none => rw [hb.tnone hc] at hn; simp at hn
  | some c =>
    rw [hc] at hy
    rcases (hb.tsome c hc).2 n hn with h | h
    · rw [h]; exact hy
    · exact nodeLt_trans h hy

theorem Basic.advance {lv0 : List Node} {r r' : Reader} (hb : Basic lv0 r) {y : Node} (hy0 : y ∈ lv0)
    (hy : gtCur r.cur y = true) (hcur : r'.cur = some y) (htr : r'.trace = r.trace ++ [y]) (hsn : r'.snap = r.snap)
    (hout : r'.out = r.out ∨ r'.out = r.out ++ [y]) : Basic lv0 r' := by
  have hlt := hb.trace_lt hy
  refine ⟨?_, ?_, ?_, ?_, ?_, ?_, ?_⟩
  · intro n hn
    rw [htr] at hn
    rcases List.mem_append.mp hn with h | h
    · exact hb.tmem n h
    · rw [List.mem_singleton] at h; rw [h]; exact hy0
  · rw [htr, List.pairwise_append]
    refine ⟨hb.tsorted, List.pairwise_singleton _ _, ?_⟩
    intro a ha b hb'
    rw [List.mem_singleton] at hb'
    rw [hb']; exact hlt a ha
  · intro hnone; rw [hcur] at hnone; contradiction
  · intro c hc
    rw [hcur] at hc
    have hc' : y = c := by injection hc
    rw [← hc', htr]
    refine ⟨by simp, ?_⟩
    intro n hn
    rcases List.mem_append.mp hn with h | h
    · exact Or.inr (hlt n h)
    · rw [List.mem_singleton] at h; exact Or.inl h
  · rw [hsn]; exact hb.smem
  · intro n hn
    rw [htr]
    rcases hout with ho | ho
    · rw [ho] at hn; exact List.mem_append_left _ (hb.omem n hn)
    · rw [ho] at hn
      rcases List.mem_append.mp hn with h | h
      · exact List.mem_append_left _ (hb.omem n h)
      · exact List.mem_append_right _ h
  · rcases hout with ho | ho
    · rw [ho]; exact hb.osorted
    · rw [ho, List.pairwise_append]
      refine ⟨hb.osorted, List.pairwise_singleton _ _, ?_⟩
      intro a ha b hb'
      rw [List.mem_singleton] at hb'
      rw [hb']; exact hlt a (hb.omem a ha)

theorem gtCur_of_key {cur : Option Node} {t : Bytes} (hkey : ∀ c, cur = some c → ltB c.e.key t = true) {m : Node}
    (hm : ltB m.e.key t = false) : gtCur cur m = true := by
  cases cur with
  | none => rfl
  | some c => exact nodeLt_of_key_lt (ltB_of_lt_of_not_lt (hkey c rfl) hm)

/-- the reader invariant only refers positively to the contents of the level lists: it survives their growth -/
theorem RInv.mono {rl : Bool} {lv lv' : Nat → List Node} {r : Reader} (hmono : ∀ l n, n ∈ lv l → n ∈ lv' l)
    (h : RInv rl lv r) : RInv rl lv' r := by
  obtain ⟨hb, hm⟩ := h
  refine ⟨⟨fun n hn => hmono 0 n (hb.tmem n hn), hb.tsorted, hb.tnone, hb.tsome,
    fun n hn => hmono 0 n (hb.smem n hn), hb.omem, hb.osorted⟩, ?_⟩
  unfold ModeInv at hm ⊢
  cases hmode : r.mode with
  | idle => rw [hmode] at hm; exact hm
  | search l =>
    rw [hmode] at hm
    simp only at hm ⊢
    exact ⟨hm.1, hm.2.1, fun c hc => ⟨hmono l c (hm.2.2 c hc).1, (hm.2.2 c hc).2⟩⟩
  | reload => rw [hmode] at hm; exact hm
  | scan => rw [hmode] at hm; exact hm
  | fscan best =>
    rw [hmode] at hm
    simp only at hm ⊢
    obtain ⟨k, c, h1, h2, h3, h4, h5, h6⟩ := hm
    exact ⟨k, c, h1, h2, h3, hmono 0 best h4, h5, h6⟩
  | finished res =>
    rw [hmode] at hm
    simp only at hm ⊢
    refine ⟨?_, hm.2⟩
    intro k hk
    have := hm.1 k hk
    cases res with
    | some b => exact ⟨hmono 0 b this.1, this.2⟩
    | none =>
      rcases this with h | ⟨h1, y, hy, h2⟩
      · exact Or.inl h
      · exact Or.inr ⟨h1, y, hmono 0 y hy, h2⟩

theorem RInv.start (rl : Bool) (lv : Nat → List Node) (op : Op) (lvl : Nat) : RInv rl lv (startReader op lvl (lv 0)) := by
  refine ⟨⟨by simp [startReader], by simp [startReader], by simp [startReader], by simp [startReader],
    by simp [startReader], by simp [startReader], by simp [startReader]⟩, ?_⟩
  unfold ModeInv
  cases op with
  | first =>
    simp only [startReader]
    refine ⟨(by intro k h; cases h), ?_, (by intro t h; cases h)⟩
    intro m _ _ h
    simp [gtCur] at h
  | seek t => simp [startReader]
  | find k => simp [startReader]

theorem key_ge_of_nodeLt {y m : Node} {t : Bytes} (h : NLt y m) (hy : ltB y.e.key t = false) : ltB m.e.key t = false :=
  key_ge_of_le (nodeLt_le h) hy

/-- the node the search hands over (`cand` = the result of the load `current.getNext(0)` that positions the reader) -/
theorem land_inv {rl : Bool} {lv : Nat → List Node} {r : Reader} (hs0 : (lv 0).Pairwise NLt) (hb : Basic (lv 0) r)
    (hout : r.out = []) (hop : r.op ≠ .first) (hkey : ∀ c, r.cur = some c → ltB c.e.key (tgt r.op) = true)
    (G : ∀ m ∈ r.snap, gtCur r.cur m = true → ltB m.e.key (tgt r.op) = false)
    (hge : rl = false → ∀ y, succIn (lv 0) r.cur = some y → ltB y.e.key (tgt r.op) = false) :
    RInv rl lv (land r (succIn (lv 0) r.cur)) := by
  cases hcand : succIn (lv 0) r.cur with
  | none =>
    have hnone := load_none hs0 hb.cur_mem hcand
    refine ⟨hb.setMode _, ?_⟩
    show ModeInv rl lv { r with mode := .finished none }
    unfold ModeInv
    simp only
    constructor
    · intro k hk
      left
      intro m hm hmk
      have htg : tgt r.op = k := by rw [hk]; rfl
      have : gtCur r.cur m = true := gtCur_of_key hkey (by rw [htg, hmk]; exact ltB_irrefl k)
      rw [hnone m (hb.smem m hm)] at this; contradiction
    · intro hnf
      constructor
      · intro m hm hr
        exfalso
        cases hop' : r.op with
        | first => exact hop hop'
        | find k => exact hnf k hop'
        | seek t =>
          rw [hop'] at hr
          have hr' : ltB m.e.key t = false := by simpa [inRange] using hr
          have htg : tgt r.op = t := by rw [hop']; rfl
          have : gtCur r.cur m = true := gtCur_of_key hkey (by rw [htg]; exact hr')
          rw [hnone m (hb.smem m hm)] at this; contradiction
      · intro t _ y hy
        rw [hout] at hy
        simp at hy
  | some y =>
    obtain ⟨hy0, hygt, hleast⟩ := load_some hs0 hb.cur_mem hcand
    have hge' : rl = false → ltB y.e.key (tgt r.op) = false := fun h => hge h y hcand
    cases hop' : r.op with
    | first => exact absurd hop' hop
    | seek t =>
      have htg : tgt r.op = t := by rw [hop']; rfl
      rw [htg] at hkey G hge'
      simp only [land, hop']
      refine ⟨hb.advance hy0 hygt rfl rfl rfl (Or.inr rfl), ?_⟩
      unfold ModeInv
      simp only [hout, List.nil_append]
      refine ⟨(by intro k h; cases h), ?_, ?_⟩
      · intro m hm hr hngt
        have hr' : ltB m.e.key t = false := by simpa [inRange] using hr
        have hgt : gtCur r.cur m = true := gtCur_of_key hkey hr'
        rcases hleast m (hb.smem m hm) hgt with h | h
        · simp [h]
        · have : gtCur (some y) m = true := h
          rw [this] at hngt; contradiction
      · intro t' ht'
        have htt : t = t' := by injection ht'
        subst htt
        refine ⟨by simp, ?_⟩
        intro y' hy'
        simp only [List.head?_cons, Option.some.injEq] at hy'
        subst hy'
        refine ⟨?_, hge', ?_⟩
        · intro m hm hmk
          have hgt : gtCur r.cur m = true := gtCur_of_key hkey hmk
          rcases hleast m (hb.smem m hm) hgt with h | h
          · rw [h]; exact nodeLt_irrefl _
          · exact nodeLt_asymm h
        · by_cases hys : y ∈ r.snap
          · exact Or.inl (G y hys hygt)
          · exact Or.inr hys
    | find k =>
      have htg : tgt r.op = k := by rw [hop']; rfl
      rw [htg] at hkey G hge'
      simp only [land, hop']
      by_cases hyk : y.e.key = k
      · simp only [hyk, if_true]
        refine ⟨hb.advance hy0 hygt rfl rfl rfl (Or.inl rfl), ?_⟩
        unfold ModeInv
        simp only
        refine ⟨k, y, rfl, rfl, hyk, hy0, hyk, ?_⟩
        intro m hm hmk hngt
        have hgt : gtCur r.cur m = true := gtCur_of_key hkey (by rw [hmk]; exact ltB_irrefl k)
        rcases hleast m (hb.smem m hm) hgt with h | h
        · rw [h]; exact Nat.le_refl _
        · have : gtCur (some y) m = true := h
          rw [this] at hngt; contradiction
      · simp only [hyk, if_false]
        refine ⟨⟨hb.tmem, hb.tsorted, hb.tnone, hb.tsome, hb.smem, hb.omem, hb.osorted⟩, ?_⟩
        unfold ModeInv
        simp only
        constructor
        · intro k' hk'
          have hkk : k = k' := by injection hk'
          subst hkk
          show FindRes rl (lv 0) _ k none
          unfold FindRes
          by_cases hall : ∀ m ∈ r.snap, m.e.key ≠ k
          · exact Or.inl hall
          · right
            have hex : ∃ m, m ∈ r.snap ∧ m.e.key = k := by
              apply Classical.byContradiction
              intro hne
              apply hall
              intro m hm hmk
              exact hne ⟨m, hm, hmk⟩
            obtain ⟨m, hm, hmk⟩ := hex
            have hgt : gtCur r.cur m = true := gtCur_of_key hkey (by rw [hmk]; exact ltB_irrefl k)
            have hylt : ltB y.e.key k = true := by
              rcases hleast m (hb.smem m hm) hgt with h | h
              · exact absurd (h ▸ hmk) hyk
              · -- y ≤ m in entry order, so y.key ≤ k; it is not k
                have hle := key_le_of_le (nodeLt_le h)
                rw [hmk] at hle
                rcases ltB_tri y.e.key k with h1 | h1 | h1
                · exact h1
                · exact absurd h1 hyk
                · rw [h1] at hle; contradiction
            have hrl : rl = true := by
              cases rl with
              | true => rfl
              | false => have := hge' rfl; rw [hylt] at this; contradiction
            refine ⟨hrl, y, hy0, ?_, hylt⟩
            intro hys
            have := G y hys hygt
            rw [hylt] at this; contradiction
        · intro hnf
          exact absurd rfl (hnf k)

theorem endSearch_inv {rl : Bool} {lv : Nat → List Node} {r : Reader} (hs0 : (lv 0).Pairwise NLt) (hb : Basic (lv 0) r)
    (hout : r.out = []) (hop : r.op ≠ .first) (hkey : ∀ c, r.cur = some c → ltB c.e.key (tgt r.op) = true)
    (hload : ∀ y, succIn (lv 0) r.cur = some y → ltB y.e.key (tgt r.op) = false) :
    RInv rl lv (endSearch rl r (succIn (lv 0) r.cur)) := by
  have G : ∀ m ∈ r.snap, gtCur r.cur m = true → ltB m.e.key (tgt r.op) = false := by
    intro m hm hgt
    cases hld : succIn (lv 0) r.cur with
    | none =>
      have := load_none hs0 hb.cur_mem hld m (hb.smem m hm)
      rw [this] at hgt; contradiction
    | some y =>
      obtain ⟨_, _, hleast⟩ := load_some hs0 hb.cur_mem hld
      rcases hleast m (hb.smem m hm) hgt with h | h
      · rw [h]; exact hload y hld
      · exact key_ge_of_nodeLt h (hload y hld)
  unfold endSearch
  cases rl with
  | true =>
    simp only [if_true]
    refine ⟨hb.setMode _, ?_⟩
    unfold ModeInv
    simp only
    exact ⟨trivial, hout, hop, hkey, G⟩
  | false =>
    simp only [Bool.false_eq_true, if_false]
    exact land_inv hs0 hb hout hop hkey G (fun _ => hload)

/-- one atomic load of a reader preserves its invariant -/
theorem rstep_inv {rl : Bool} {lv : Nat → List Node} {r : Reader} (hs : ∀ l, (lv l).Pairwise NLt)
    (hc : ∀ l, ∀ n ∈ lv (l + 1), n ∈ lv l) (h : RInv rl lv r) : RInv rl lv (rstep rl lv r) := by
  obtain ⟨hb, hm⟩ := h
  unfold ModeInv at hm
  unfold rstep
  cases hmode : r.mode with
  | idle => simp only; exact ⟨hb, by unfold ModeInv; rw [hmode] at hm ⊢; exact hm⟩
  | finished res =>
    simp only
    refine ⟨hb, ?_⟩
    unfold ModeInv
    rw [hmode] at hm ⊢
    exact hm
  | search l =>
    rw [hmode] at hm
    simp only at hm ⊢
    obtain ⟨hout, hop, hcur⟩ := hm
    have hcl : ∀ c, r.cur = some c → c ∈ lv l := fun c hc => (hcur c hc).1
    have hkey : ∀ c, r.cur = some c → ltB c.e.key (tgt r.op) = true := fun c hc => (hcur c hc).2
    have hdown : l ≠ 0 → RInv rl lv { r with mode := .search (l - 1) } := by
      intro hl
      refine ⟨hb.setMode _, ?_⟩
      unfold ModeInv
      simp only
      refine ⟨hout, hop, fun c hcc => ⟨?_, hkey c hcc⟩⟩
      have h1 : l - 1 + 1 = l := by omega
      have h2 := hcl c hcc
      rw [← h1] at h2
      exact hc (l - 1) c h2
    cases hld : succIn (lv l) r.cur with
    | none =>
      simp only
      by_cases hl0 : l = 0
      · subst hl0
        simp only [if_true]
        have := endSearch_inv (rl := rl) (hs 0) hb hout hop hkey (by intro y hy; rw [hld] at hy; contradiction)
        rw [hld] at this
        exact this
      · simp only [hl0, if_false]
        exact hdown hl0
    | some y =>
      obtain ⟨hyl, hygt, _⟩ := load_some (hs l) hcl hld
      simp only
      cases hlt : ltB y.e.key (tgt r.op) with
      | true =>
        simp only [if_true]
        refine ⟨hb.advance (mem_level0_of_chain hc hyl) hygt rfl rfl rfl (Or.inl rfl), ?_⟩
        unfold ModeInv
        simp only
        refine ⟨hout, hop, ?_⟩
        intro c hc'
        have : y = c := by injection hc'
        rw [← this]
        exact ⟨hyl, hlt⟩
      | false =>
        simp only [Bool.false_eq_true, if_false]
        by_cases hl0 : l = 0
        · subst hl0
          simp only [if_true]
          have := endSearch_inv (rl := rl) (hs 0) hb hout hop hkey (by
            intro y' hy'
            rw [hld] at hy'
            have : y = y' := by injection hy'
            rw [← this]; exact hlt)
          rw [hld] at this
          exact this
        · simp only [hl0, if_false]
          exact hdown hl0
  | reload =>
    rw [hmode] at hm
    simp only at hm ⊢
    obtain ⟨hrl, hout, hop, hkey, G⟩ := hm
    exact land_inv (hs 0) hb hout hop hkey G (fun h => by rw [hrl] at h; contradiction)
  | scan =>
    rw [hmode] at hm
    simp only at hm ⊢
    obtain ⟨hnf, hcomp, hland⟩ := hm
    cases hld : succIn (lv 0) r.cur with
    | none =>
      have hnone := load_none (hs 0) hb.cur_mem hld
      simp only
      refine ⟨hb.setMode _, ?_⟩
      unfold ModeInv
      simp only
      refine ⟨fun k hk => absurd hk (hnf k), fun _ => ⟨?_, fun t ht => (hland t ht).2⟩⟩
      intro m hm' hr
      exact hcomp m hm' hr (hnone m (hb.smem m hm'))
    | some y =>
      obtain ⟨hy0, hygt, hleast⟩ := load_some (hs 0) hb.cur_mem hld
      simp only
      refine ⟨hb.advance hy0 hygt rfl rfl rfl (Or.inr rfl), ?_⟩
      unfold ModeInv
      simp only
      refine ⟨hnf, ?_, ?_⟩
      · intro m hm' hr hngt
        cases hg : gtCur r.cur m with
        | true =>
          rcases hleast m (hb.smem m hm') hg with h | h
          · simp [h]
          · have : gtCur (some y) m = true := h
            rw [this] at hngt; contradiction
        | false => exact List.mem_append_left _ (hcomp m hm' hr hg)
      · intro t ht
        obtain ⟨hne, hl⟩ := hland t ht
        refine ⟨by simp, ?_⟩
        intro y' hy'
        have hhead : (r.out ++ [y]).head? = r.out.head? := by
          cases hro : r.out with
          | nil => exact absurd hro hne
          | cons a t => rfl
        rw [hhead] at hy'
        exact hl y' hy'
  | fscan best =>
    rw [hmode] at hm
    simp only at hm ⊢
    obtain ⟨k, c, hop, hcur, hck, hbest0, hbk, hcl⟩ := hm
    have htg : tgt r.op = k := by rw [hop]; rfl
    have hfin : (∀ m ∈ r.snap, m.e.key = k → gtCur r.cur m = true → False) →
        RInv rl lv { r with mode := .finished (some best) } := by
      intro hno
      refine ⟨hb.setMode _, ?_⟩
      unfold ModeInv
      simp only
      constructor
      · intro k' hk'
        rw [hop] at hk'
        have hkk : k = k' := by injection hk'
        subst hkk
        refine ⟨hbest0, hbk, ?_⟩
        intro m hm' hmk
        cases hg : gtCur r.cur m with
        | true => exact absurd hg (fun hg => hno m hm' hmk hg)
        | false => exact hcl m hm' hmk hg
      · intro hnf
        exact absurd hop (hnf k)
    cases hld : succIn (lv 0) r.cur with
    | none =>
      have hnone := load_none (hs 0) hb.cur_mem hld
      simp only
      apply hfin
      intro m hm' _ hg
      rw [hnone m (hb.smem m hm')] at hg; contradiction
    | some y =>
      obtain ⟨hy0, hygt, hleast⟩ := load_some (hs 0) hb.cur_mem hld
      simp only
      rw [htg]
      by_cases hyk : y.e.key = k
      · simp only [hyk, if_true]
        refine ⟨hb.advance hy0 hygt rfl rfl rfl (Or.inl rfl), ?_⟩
        unfold ModeInv
        simp only
        refine ⟨k, y, hop, rfl, hyk, ?_, ?_, ?_⟩
        · split
          · exact hy0
          · exact hbest0
        · split
          · exact hyk
          · exact hbk
        · intro m hm' hmk hngt
          cases hg : gtCur r.cur m with
          | true =>
            rcases hleast m (hb.smem m hm') hg with h | h
            · rw [h]; split <;> omega
            · have : gtCur (some y) m = true := h
              rw [this] at hngt; contradiction
          | false =>
            have := hcl m hm' hmk hg
            split <;> omega
      · simp only [hyk, if_false]
        apply hfin
        intro m hm' hmk hg
        rcases hleast m (hb.smem m hm') hg with h | h
        · exact hyk (h ▸ hmk)
        · -- c < y < m with c.key = m.key = k forces y.key = k
          rw [hcur] at hygt
          have h1 := key_le_of_le (nodeLt_le (show NLt c y from hygt))
          have h2 := key_le_of_le (nodeLt_le h)
          rw [hck] at h1
          rw [hmk] at h2
          exact hyk (ltB_total h1 h2)

/-! ### the global invariant of every schedule -/

structure Inv (rl : Bool) (s : ConcSkipList.St) : Prop where
  levels : LevelsOK s
  readers : ∀ r, RInv rl s.levels (s.readers r)

theorem Inv.init (rl : Bool) : Inv rl init := by
  refine ⟨LevelsOK.init, ?_⟩
  intro r
  refine ⟨⟨?_, ?_, ?_, ?_, ?_, ?_, ?_⟩, ?_⟩ <;> simp [ConcSkipList.init, ModeInv]

theorem readers_wBegin (rl : Bool) (s : ConcSkipList.St) (e : MEntry) (ht : Nat) :
    (step rl s (.wBegin e ht)).readers = s.readers := by
  unfold step
  cases s.writer with
  | some w => rfl
  | none => simp only; split <;> rfl

theorem readers_wLink (rl : Bool) (s : ConcSkipList.St) : (step rl s .wLink).readers = s.readers := by
  unfold step
  cases s.writer with
  | some w => rfl
  | none => rfl

theorem Inv.step {rl : Bool} {s : ConcSkipList.St} (h : Inv rl s) (a : Act) : Inv rl (step rl s a) := by
  refine ⟨h.levels.step rl a, ?_⟩
  intro i
  cases a with
  | wBegin e ht =>
    rw [readers_wBegin]
    exact (h.readers i).mono (levels_mono rl h.levels (.wBegin e ht))
  | wLink =>
    rw [readers_wLink]
    exact (h.readers i).mono (levels_mono rl h.levels .wLink)
  | rStart r op lvl =>
    show RInv rl s.levels (if i = r then startReader op lvl (s.levels 0) else s.readers i)
    by_cases hi : i = r
    · simp only [hi, if_true]
      exact RInv.start rl s.levels op lvl
    · simp only [hi, if_false]
      exact h.readers i
  | rStep r =>
    show RInv rl s.levels (if i = r then rstep rl s.levels (s.readers r) else s.readers i)
    by_cases hi : i = r
    · simp only [hi, if_true]
      exact rstep_inv h.levels.sorted h.levels.chain (h.readers r)
    · simp only [hi, if_false]
      exact h.readers i

theorem Inv.run (rl : Bool) : ∀ (acts : List Act) {s : ConcSkipList.St}, Inv rl s → Inv rl (run rl s acts) := by
  intro acts
  induction acts with
  | nil => intro s h; exact h
  | cons a as ih => intro s h; exact ih (h.step a)

/-- every state of every schedule -/
theorem inv_reachable (rl : Bool) (acts : List Act) : Inv rl (run rl init acts) := Inv.run rl acts (Inv.init rl)

/-- each level is a sublist of level 0 -/
theorem LevelsOK.sublist {s : ConcSkipList.St} (h : LevelsOK s) (l : Nat) : (s.levels l).Sublist (s.levels 0) :=
  sublist_of_subset_sorted _ _ (h.sorted l) (h.sorted 0) (fun _ hx => mem_level0_of_chain h.chain hx)

/-- level 0 in entry order -/
theorem LevelsOK.entries_sorted {s : ConcSkipList.St} (h : LevelsOK s) : Sorted ((s.levels 0).map (·.e)) := by
  rw [h.refines]
  exact level0_sorted _

/-- an immutable table: without writer steps nothing changes -/
theorem levels_reader_step (rl : Bool) (s : ConcSkipList.St) (a : Act) (ha : ∀ e h, a ≠ .wBegin e h) (hl : a ≠ .wLink) :
    (step rl s a).levels = s.levels ∧ (step rl s a).done = s.done := by
  cases a with
  | wBegin e ht => exact absurd rfl (ha e ht)
  | wLink => exact absurd rfl hl
  | rStart r op lvl => exact ⟨rfl, rfl⟩
  | rStep r => exact ⟨rfl, rfl⟩

end Kevo.Proofs.ConcSkipList
