/-
  Kevo.Proofs.CrashBI — the buffer invariant alone (no assumption on the format parameters): flushed lengths never
  exceed the streams (helper file for Proofs/Crash, `flushed_le_stream`).
-/
import Kevo.Proofs.CrashOps
namespace Kevo.Proofs.CrashAux
open Kevo Kevo.Wal Kevo.Crash Kevo.Spec Kevo.Proofs.Wal
open Kevo.Engine (LogEntry MemTable Pool appendLog)

def BI (c : CSt) : Prop :=
  ∃ A st fl, Shape c A st fl ∧ ∀ f ∈ A, f.flushed ≤ f.stream.length

theorem BI.congr {c c' : CSt} (h : BI c) (hf : c'.files = c.files) (hb : c'.buffered = c.buffered)
    (hc : c.cap ≤ c'.cap) : BI c' := by
  obtain ⟨A, st, fl, ⟨h1, h2, h3⟩, h4⟩ := h
  exact ⟨A, st, fl, ⟨by rw [hf]; exact h1, by rw [hb]; exact h2, by rw [hb]; omega⟩, h4⟩

theorem BI.at {c : CSt} (h : BI c) (site : String) : BI (c.at site) := h.congr rfl rfl (Nat.le_refl _)

theorem BI.ats : ∀ (sites : List String) {c : CSt}, BI c → BI (sites.foldl CSt.at c) := by
  intro sites
  induction sites with
  | nil => intro c h; exact h
  | cons s sites ih => intro c h; exact ih (h.at s)

theorem BI.eng {c : CSt} (h : BI c) (e' : Engine.St) : BI { c with eng := e' } := h.congr rfl rfl (Nat.le_refl _)

theorem bi_writeEntry (p : WalParams) (crc : Bytes → Nat) {c : CSt} (h : BI c) (e : Entry) :
    BI (writeEntry p crc c e) := by
  obtain ⟨A, st, fl, hs, h4⟩ := h
  obtain ⟨fl', b', e1, s1, c1, _, _⟩ := writeChunks_spec
    (chunkPairs p crc ((recordPayloads p e).zip (entryTypes p (recordPayloads p e).length))) c A st fl hs
  rw [writeEntry_eq, e1]
  exact ⟨A, _, fl', ⟨rfl, by simp only [List.length_append]; omega, c1⟩, h4⟩

theorem bi_flushCur {c : CSt} (h : BI c) : BI (flushCur c) ∧ (flushCur c).buffered = 0 := by
  obtain ⟨A, st, fl, hs, h4⟩ := h
  refine ⟨⟨A, st, st.length, ⟨?_, rfl, Nat.zero_le _⟩, h4⟩, rfl⟩
  unfold flushCur
  simp only
  rw [hs.1, modifyLast_snoc]

theorem bi_maybeSync {c : CSt} (h : BI c) : BI (maybeSync c) := by
  unfold maybeSync
  split
  · exact (((bi_flushCur h).1.at "wal.sync.flushed").at "wal.sync.synced").congr rfl rfl (Nat.le_refl _)
  · exact h

theorem bi_rotateSites {c : CSt} (h : BI c) : BI (rotateSites c) := by
  rw [rotateSites_eq]
  refine BI.at (BI.at (BI.at (BI.at ?_ _) _) _) _
  obtain ⟨A, st, fl, hs, h4⟩ := h
  have hf : (((rotOpen (c.at "mgr.rotate.setRotating")).at "mgr.rotate.newWAL").at "mgr.rotate.swapped").files =
      A ++ [{ stream := st, flushed := fl }] ++ [({} : WFile)] := by
    show c.files ++ [({} : WFile)] = _
    rw [hs.1]
  refine ⟨A ++ [{ stream := st, flushed := st.length }], [], 0, ⟨?_, rfl, Nat.zero_le _⟩, ?_⟩
  · simp only [rotClose]
    rw [hf]
    simp only [List.mapIdx_append, List.length_append, List.length_cons, List.length_nil,
      List.mapIdx_cons, List.mapIdx_nil]
    congr 1
    · congr 1
      · apply mapIdx_self
        intro i hi
        rw [if_neg (by omega)]
      · simp
    · simp
  · intro f hf'
    simp only [List.mem_append, List.mem_singleton] at hf'
    rcases hf' with hf' | rfl
    · exact h4 f hf'
    · exact Nat.le_refl _

theorem bi_flushOneSites {c : CSt} (h : BI c) (m : MemTable) : BI (flushOneSites c m) := by
  unfold flushOneSites
  split
  · exact h
  · simp only []
    exact BI.at (BI.eng ((((((h.at _).at _).at _).at _).at _).at _) _) _

theorem bi_flushFold : ∀ (ms : List MemTable) {c : CSt}, BI c → BI (ms.foldl flushOneSites c) := by
  intro ms
  induction ms with
  | nil => intro c h; exact h
  | cons m ms ih => intro c h; exact ih (bi_flushOneSites h m)

theorem bi_flushSites {c : CSt} (h : BI c) : BI (flushSites c) := by
  unfold flushSites
  simp only []
  have h1 := h.at "mgr.flush.start"
  split
  · split
    · exact bi_flushOneSites (bi_rotateSites h1) _
    · exact h1
  · exact BI.eng ((bi_flushFold _ (bi_rotateSites h1)).at _) _

theorem bi_schedule {c : CSt} (h : BI c) : BI (schedule c).1 := by
  unfold schedule
  split
  · simp only []
    exact BI.at (BI.eng (BI.at (BI.eng h _) _) _) _
  · exact h

theorem bi_opTail {c : CSt} (h : BI c) (sites : List String) : BI (opTail c sites) := by
  unfold opTail
  have h1 := bi_schedule h
  rcases hs : schedule c with ⟨c', sched⟩
  rw [hs] at h1
  simp only []
  split
  · exact bi_flushSites (BI.ats sites h1)
  · exact BI.ats sites h1

theorem bi_reopenSites {c : CSt} (h : BI c) : BI (reopenSites c) := by
  rw [reopenSites_eq]
  refine BI.at ?_ _
  obtain ⟨f1, b1⟩ := bi_flushCur h
  obtain ⟨A, st, fl, ⟨s1, s2, s3⟩, h4⟩ := ((f1.at "wal.close.flushed").at "wal.close.synced").at "wal.close.closed"
  have b1' : ((((flushCur c).at "wal.close.flushed").at "wal.close.synced").at "wal.close.closed").buffered = 0 := b1
  exact ⟨A, st, fl, ⟨s1, by rw [b1'] at s2; exact s2, Nat.zero_le _⟩, h4⟩

theorem bi_writeOne (p : WalParams) (crc : Bytes → Nat) {c : CSt} (h : BI c) (isDel : Bool) (k v : Bytes) :
    BI (writeOne p crc c isDel k v) := by
  rw [writeOne_eq]
  apply bi_opTail
  unfold wMem wLog wPre
  exact BI.at (BI.eng (BI.at (BI.eng (BI.at (bi_maybeSync (BI.at (bi_writeEntry p crc (h.at _) _) _)) _) _) _) _) _

theorem bi_preFlush {c : CSt} (h : BI c) (total : Nat) : BI (preFlush c total) := by
  unfold preFlush
  split
  · simp only []
    split
    · exact (bi_flushCur h).1.congr rfl rfl (by show (flushCur c).cap ≤ total + 1024; omega)
    · exact (bi_flushCur h).1
  · exact h

theorem bi_batchFold (p : WalParams) (crc : Bytes → Nat) : ∀ (les : List LogEntry) {c : CSt}, BI c →
    BI (les.foldl (fun c e => writeEntry p crc (c.at "wal.batch.record") (toWal e)) c) := by
  intro les
  induction les with
  | nil => intro c h; exact h
  | cons e les ih => intro c h; exact ih (bi_writeEntry p crc (h.at _) _)

theorem bi_memFold (sq : Nat) : ∀ (bo : List (Bool × Bytes × Bytes)) {c : CSt}, BI c → BI (memFold bo sq c) := by
  intro bo
  induction bo with
  | nil => intro c h; exact h
  | cons t bo ih =>
    intro c h
    obtain ⟨d, k, v⟩ := t
    unfold memFold
    rw [List.foldl_cons]
    exact ih (BI.at (BI.eng h _) _)

theorem bi_txCommit (p : WalParams) (crc : Bytes → Nat) {c : CSt} (h : BI c) (ops : List (Bool × Bytes × Bytes)) :
    BI (txCommit p crc c ops) := by
  rw [txCommit_eq]
  split
  · exact (((h.at _).at _).at _).at _
  · apply bi_opTail
    apply bi_memFold
    unfold wLog tPre
    exact BI.at (BI.eng (BI.at (bi_maybeSync (BI.at (bi_batchFold p crc _
      (bi_preFlush ((((h.at _).at _).at _).at _) _)) _)) _) _) _

theorem bi_runOp (p : WalParams) (crc : Bytes → Nat) {c : CSt} (h : BI c) (o : WOp) : BI (runOp p crc c o) := by
  cases o with
  | put k v => exact bi_writeOne p crc h false k v
  | del k => exact bi_writeOne p crc h true k []
  | tx ops => exact bi_txCommit p crc h ops
  | flush => exact (bi_flushSites h).at _
  | reopen => exact bi_reopenSites h

theorem bi_run (p : WalParams) (crc : Bytes → Nat) : ∀ (ops : List WOp) {c : CSt}, BI c →
    BI (ops.foldl (runOp p crc) c) := by
  intro ops
  induction ops with
  | nil => intro c h; exact h
  | cons o ops ih => intro c h; exact ih (bi_runOp p crc h o)

theorem bi_flushed_le {c : CSt} (h : BI c) : ∀ f ∈ c.files, f.flushed ≤ f.stream.length := by
  obtain ⟨A, st, fl, ⟨s1, s2, _⟩, h4⟩ := h
  intro f hf
  rw [s1] at hf
  simp only [List.mem_append, List.mem_singleton] at hf
  rcases hf with hf | rfl
  · exact h4 f hf
  · simp only; omega

theorem bi_init (eng : Engine.St) (sync : Nat) : BI { eng := eng, sync := sync } :=
  ⟨[], [], 0, ⟨rfl, rfl, Nat.zero_le _⟩, by simp⟩

end Kevo.Proofs.CrashAux
