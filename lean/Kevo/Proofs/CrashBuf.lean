/-
  Kevo.Proofs.CrashBuf — the buffered writer of the crash model: what `bufWrite` / `writeEntry` do to the byte
  stream and to the flushed length (helper file for Proofs/Crash).
-/
import Kevo.Model.Crash
import Kevo.Proofs.WalCodec
namespace Kevo.Proofs.CrashAux
open Kevo Kevo.Wal Kevo.Crash Kevo.Proofs.Wal

theorem modifyLast_snoc (f : WFile → WFile) (A : List WFile) (x : WFile) :
    modifyLast f (A ++ [x]) = A ++ [f x] := by
  simp [modifyLast]

theorem go_eq (c : CSt) (f n b fl : Nat) :
    bufWrite.go c (f + 2) n b fl =
      if n > c.cap - b then
        if b = 0 then (0, fl + n)
        else if n - (c.cap - b) > c.cap then (0, fl + c.cap + (n - (c.cap - b)))
        else (n - (c.cap - b), fl + c.cap)
      else (b + n, fl) := by
  unfold bufWrite.go
  by_cases h1 : n > c.cap - b
  · by_cases h2 : b = 0
    · simp [h2]
    · unfold bufWrite.go
      by_cases h3 : n - (c.cap - b) > c.cap
      · simp [h1, h2, h3]
      · simp [h1, h2, h3]
  · simp [h1]

theorem go_spec (c : CSt) (f n b fl : Nat) (hb : b ≤ c.cap) :
    (bufWrite.go c (f + 2) n b fl).2 + (bufWrite.go c (f + 2) n b fl).1 = fl + b + n ∧
    (bufWrite.go c (f + 2) n b fl).1 ≤ c.cap ∧
    (n ≤ c.cap - b → bufWrite.go c (f + 2) n b fl = (b + n, fl)) ∧
    ((bufWrite.go c (f + 2) n b fl).2 = fl ∨ fl + b ≤ (bufWrite.go c (f + 2) n b fl).2) := by
  rw [go_eq]
  by_cases h1 : n > c.cap - b
  · by_cases h2 : b = 0
    · simp only [if_pos h1, if_pos h2]; omega
    · by_cases h3 : n - (c.cap - b) > c.cap
      · simp only [if_pos h1, if_neg h2, if_pos h3]; omega
      · simp only [if_pos h1, if_neg h2, if_neg h3]; omega
  · simp only [if_neg h1]
    refine ⟨by omega, by omega, fun _ => trivial, Or.inl trivial⟩

/-- shape of the file list: earlier files `A`, current file with stream `st` of which `fl` bytes are flushed -/
def Shape (c : CSt) (A : List WFile) (st : Bytes) (fl : Nat) : Prop :=
  c.files = A ++ [{ stream := st, flushed := fl }] ∧ fl + c.buffered = st.length ∧ c.buffered ≤ c.cap

theorem bufWrite_spec (c : CSt) (A : List WFile) (st : Bytes) (fl : Nat) (h : Shape c A st fl) (bs : Bytes) :
    ∃ fl' b', bufWrite c bs = { c with files := A ++ [{ stream := st ++ bs, flushed := fl' }], buffered := b' } ∧
      fl' + b' = st.length + bs.length ∧ b' ≤ c.cap ∧
      (bs.length ≤ c.cap - c.buffered → fl' = fl ∧ b' = c.buffered + bs.length) ∧ (fl' = fl ∨ st.length ≤ fl') := by
  obtain ⟨hf, hb, hc⟩ := h
  have hlast : c.files.getLast?.getD ({} : WFile) = { stream := st, flushed := fl } := by
    rw [hf]; simp
  obtain ⟨g1, g2, g3, g4⟩ := go_spec c bs.length bs.length c.buffered fl hc
  refine ⟨(bufWrite.go c (bs.length + 2) bs.length c.buffered fl).2,
    (bufWrite.go c (bs.length + 2) bs.length c.buffered fl).1, ?_, by omega, g2, ?_, by omega⟩
  · unfold bufWrite
    simp only [hlast]
    rw [hf, modifyLast_snoc]
  · intro hfit
    rw [g3 hfit]
    exact ⟨rfl, rfl⟩

theorem writeChunks_spec : ∀ (bss : List Bytes) (c : CSt) (A : List WFile) (st : Bytes) (fl : Nat),
    Shape c A st fl →
    ∃ fl' b', bss.foldl bufWrite c =
        { c with files := A ++ [{ stream := st ++ bss.flatten, flushed := fl' }], buffered := b' } ∧
      fl' + b' = st.length + bss.flatten.length ∧ b' ≤ c.cap ∧
      (bss.flatten.length ≤ c.cap - c.buffered → fl' = fl ∧ b' = c.buffered + bss.flatten.length) ∧
      (fl' = fl ∨ st.length ≤ fl') := by
  intro bss
  induction bss with
  | nil =>
    intro c A st fl h
    obtain ⟨hf, hb, hc⟩ := h
    refine ⟨fl, c.buffered, ?_, by simpa using hb, hc, fun _ => ⟨rfl, by simp⟩, Or.inl rfl⟩
    simp only [List.foldl_nil, List.flatten_nil, List.append_nil]
    rw [← hf]
  | cons bs bss ih =>
    intro c A st fl h
    obtain ⟨fl1, b1, e1, s1, c1, fit1, or1⟩ := bufWrite_spec c A st fl h bs
    have h1 : Shape (bufWrite c bs) A (st ++ bs) fl1 := by
      rw [e1]; exact ⟨rfl, by simp only [List.length_append]; omega, c1⟩
    obtain ⟨fl2, b2, e2, s2, c2, fit2, or2⟩ := ih (bufWrite c bs) A (st ++ bs) fl1 h1
    refine ⟨fl2, b2, ?_, ?_, ?_, ?_, ?_⟩
    · rw [List.foldl_cons, e2, e1]
      simp [List.append_assoc]
    · simp only [List.flatten_cons, List.length_append] at s2 ⊢; omega
    · rw [e1] at c2; exact c2
    · intro hfit
      simp only [List.flatten_cons, List.length_append] at hfit ⊢
      obtain ⟨f1, f1'⟩ := fit1 (by omega)
      have : (bufWrite c bs).cap = c.cap ∧ (bufWrite c bs).buffered = b1 := by rw [e1]; exact ⟨rfl, rfl⟩
      obtain ⟨f2, f2'⟩ := fit2 (by rw [this.1, this.2]; omega)
      rw [this.2] at f2'
      exact ⟨by omega, by omega⟩
    · simp only [List.length_append] at or2
      rcases or2 with o | o
      · rcases or1 with o1 | o1
        · left; omega
        · right; omega
      · right; omega

/-! ### the physical records of an entry -/

/-- the byte chunks `writeEntry` hands to the buffered writer -/
def chunkPairs (p : WalParams) (crc : Bytes → Nat) (l : List (Bytes × Nat)) : List Bytes :=
  l.flatMap (fun x => [(record crc x.2 x.1).take p.headerSize, (record crc x.2 x.1).drop p.headerSize])

theorem foldl_pairs (p : WalParams) (crc : Bytes → Nat) : ∀ (l : List (Bytes × Nat)) (c : CSt),
    l.foldl (fun c (x : Bytes × Nat) =>
      match x with
      | (pl, ty) =>
        let rec_ := Wal.record crc ty pl
        let c := bufWrite c (rec_.take p.headerSize)
        bufWrite c (rec_.drop p.headerSize)) c = (chunkPairs p crc l).foldl bufWrite c := by
  intro l
  induction l with
  | nil => intro c; rfl
  | cons x l ih =>
    intro c
    obtain ⟨pl, ty⟩ := x
    simp only [List.foldl_cons, chunkPairs, List.flatMap_cons, List.foldl_append, List.foldl_nil]
    rw [ih]
    rfl

theorem chunkPairs_flatten (p : WalParams) (crc : Bytes → Nat) (l : List (Bytes × Nat)) :
    (chunkPairs p crc l).flatten = l.flatMap (fun x => record crc x.2 x.1) := by
  induction l with
  | nil => rfl
  | cons x l ih =>
    simp only [chunkPairs, List.flatMap_cons] at ih ⊢
    rw [List.flatten_append, ih]
    simp

def entryTypes (p : WalParams) (n : Nat) : List Nat :=
  if n ≤ 1 then [p.tFull] else [p.tFirst] ++ List.replicate (n - 2) p.tMiddle ++ [p.tLast]

theorem chunks_tail (p : WalParams) (hM : 0 < p.maxRecord) (crc : Bytes → Nat) :
    ∀ (fuel : Nat) (rest : Bytes), 0 < rest.length → rest.length < fuel →
      recordPayloads.chunks p fuel rest ≠ [] ∧
      ((recordPayloads.chunks p fuel rest).zip
        (List.replicate ((recordPayloads.chunks p fuel rest).length - 1) p.tMiddle ++ [p.tLast])).flatMap
          (fun x => record crc x.2 x.1) = tailFragments p crc fuel rest := by
  intro fuel
  induction fuel with
  | zero => intro rest _ h; omega
  | succ f ih =>
    intro rest hpos hf
    unfold recordPayloads.chunks tailFragments
    by_cases hbig : rest.length > p.maxRecord
    · simp only [if_pos hbig]
      obtain ⟨hne, heq⟩ := ih (rest.drop p.maxRecord) (by rw [List.length_drop]; omega) (by rw [List.length_drop]; omega)
      refine ⟨by simp, ?_⟩
      have hlen : (rest.take p.maxRecord :: recordPayloads.chunks p f (rest.drop p.maxRecord)).length - 1 =
          ((recordPayloads.chunks p f (rest.drop p.maxRecord)).length - 1) + 1 := by
        have : 0 < (recordPayloads.chunks p f (rest.drop p.maxRecord)).length := List.length_pos_iff.mpr hne
        simp only [List.length_cons]; omega
      rw [hlen, List.replicate_succ, List.cons_append, List.zip_cons_cons, List.flatMap_cons, heq]
    · simp only [if_neg hbig, if_pos hpos]
      refine ⟨by simp, ?_⟩
      simp

theorem records_eq_encodeEntry (p : WalParams) (hp : p.WF) (crc : Bytes → Nat) (e : Entry) :
    ((recordPayloads p e).zip (entryTypes p (recordPayloads p e).length)).flatMap (fun x => record crc x.2 x.1) =
      encodeEntry p crc e := by
  obtain ⟨hh, hM13, hM, _⟩ := hp
  have hpl := payload_length p e
  unfold recordPayloads encodeEntry
  simp only []
  by_cases hfit : payloadSize p e ≤ p.maxRecord
  · simp [if_pos hfit, entryTypes]
  · simp only [if_neg hfit]
    obtain ⟨hne, heq⟩ := chunks_tail p (by omega) crc ((payload p e).length + 1)
      ((payload p e).drop (13 + min e.key.length (p.maxRecord - 13)))
      (by rw [List.length_drop]; omega) (by rw [List.length_drop]; omega)
    have hpos : 0 < (recordPayloads.chunks p ((payload p e).length + 1)
        ((payload p e).drop (13 + min e.key.length (p.maxRecord - 13)))).length := List.length_pos_iff.mpr hne
    unfold entryTypes
    have hn : ¬ ((payload p e).take (13 + min e.key.length (p.maxRecord - 13)) ::
        recordPayloads.chunks p ((payload p e).length + 1)
          ((payload p e).drop (13 + min e.key.length (p.maxRecord - 13)))).length ≤ 1 := by
      simp only [List.length_cons]; omega
    rw [if_neg hn]
    simp only [List.length_cons, List.cons_append, List.nil_append, List.zip_cons_cons, List.flatMap_cons]
    have : (recordPayloads.chunks p ((payload p e).length + 1)
        ((payload p e).drop (13 + min e.key.length (p.maxRecord - 13)))).length + 1 - 2 =
        (recordPayloads.chunks p ((payload p e).length + 1)
        ((payload p e).drop (13 + min e.key.length (p.maxRecord - 13)))).length - 1 := by omega
    rw [this, heq]

theorem writeEntry_eq (p : WalParams) (crc : Bytes → Nat) (c : CSt) (e : Entry) :
    writeEntry p crc c e =
      { (chunkPairs p crc ((recordPayloads p e).zip (entryTypes p (recordPayloads p e).length))).foldl bufWrite c
        with batchBytes :=
          ((chunkPairs p crc ((recordPayloads p e).zip (entryTypes p (recordPayloads p e).length))).foldl bufWrite c).batchBytes +
          ((recordPayloads p e).map (fun pl => p.headerSize + pl.length)).foldl (· + ·) 0 } := by
  unfold writeEntry
  simp only []
  rw [← foldl_pairs]
  rfl

/-- `writeEntry` appends exactly `encodeEntry` to the current stream; the flushed length either stays or moves
    past everything that was in the stream before; if the encoding fits the free buffer space nothing is flushed. -/
theorem writeEntry_spec (p : WalParams) (hp : p.WF) (crc : Bytes → Nat) (c : CSt) (A : List WFile) (st : Bytes) (fl : Nat)
    (h : Shape c A st fl) (e : Entry) :
    ∃ fl' b' bb, writeEntry p crc c e =
        { c with files := A ++ [{ stream := st ++ encodeEntry p crc e, flushed := fl' }], buffered := b', batchBytes := bb } ∧
      fl' + b' = st.length + (encodeEntry p crc e).length ∧ b' ≤ c.cap ∧
      ((encodeEntry p crc e).length ≤ c.cap - c.buffered → fl' = fl ∧ b' = c.buffered + (encodeEntry p crc e).length) ∧
      (fl' = fl ∨ st.length ≤ fl') := by
  have hw := writeEntry_eq p crc c e
  obtain ⟨fl', b', e1, s1, c1, fit1, or1⟩ := writeChunks_spec
    (chunkPairs p crc ((recordPayloads p e).zip (entryTypes p (recordPayloads p e).length))) c A st fl h
  rw [chunkPairs_flatten, records_eq_encodeEntry p hp crc e] at e1 s1 fit1
  refine ⟨fl', b', c.batchBytes +
    ((recordPayloads p e).map (fun pl => p.headerSize + pl.length)).foldl (· + ·) 0, ?_, s1, c1, fit1, or1⟩
  rw [hw, e1]

end Kevo.Proofs.CrashAux
