/-
  Kevo.Proofs.MergeDefs — notions shared by the proofs about the scan path (C05):
  sortedness of sources, lookup in a merged list, and the merge as the hierarchical iterator performs it, on lists.
-/
import Kevo.Model.Merge
namespace Kevo.Proofs.Merge
open Kevo Kevo.Merge

/-- keys strictly ascending -/
def Asc (l : List KV) : Prop := l.Pairwise (fun a b => ltB a.1 b.1 = true)

/-- keys non-decreasing (a memtable source may repeat a key, newest version first) -/
def Nondec (l : List KV) : Prop := l.Pairwise (fun a b => ltB b.1 a.1 = false)

def SourcesOK (srcs : List (List KV)) : Prop := ∀ s ∈ srcs, Nondec s

/-- the entry a merged list holds for key `k` -/
def lookup (l : List KV) (k : Bytes) : Option KV := l.find? (fun e => e.1 == k)

/-- the current entries of the sources -/
def heads (Ls : List (List KV)) : List KV := Ls.filterMap List.head?

/-- what the skip loop of findNextUniqueKey(p) leaves of a source: leading entries with key ≤ p are passed -/
def dropLE (p : Bytes) (l : List KV) : List KV := l.dropWhile (fun x => !ltB p x.1)

/-- what Seek(t) leaves of a source: leading entries with key < t are passed -/
def dropLT (t : Bytes) (l : List KV) : List KV := l.dropWhile (fun x => ltB x.1 t)

/-- the merge as the hierarchical iterator performs it, on lists: emit the first smallest head, pass everything
    ≤ that key in every source, repeat. -/
def mergeRun : Nat → List (List KV) → List KV
  | 0, _ => []
  | n + 1, Ls => match pickMin (heads Ls) with
    | none => []
    | some e => e :: mergeRun n (Ls.map (dropLE e.1))

/-- where SeekToLast of a memtable/sstable adapter lands: the first version of the greatest key -/
def lastOf (es : List KV) : Option KV := es.getLast?.bind (fun l => es.find? (fun e => !ltB e.1 l.1))

end Kevo.Proofs.Merge
