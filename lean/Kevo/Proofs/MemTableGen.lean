/-
  Kevo.Proofs.MemTableGen — the functions TRANSLATED from pkg/memtable/skiplist.go by kvfacts (Kevo.Gen.MemTable,
  regenerated on every run) are the comparison / visibility test of the model.
-/
import Kevo.Gen.MemTable
import Kevo.Model.MemTable
import Kevo.Proofs.MemTable
namespace Kevo.Proofs.MemTableGen
open Kevo Kevo.Engine Kevo.Proofs.MemTable

theorem cmpB_eq_zero_iff (a b : Bytes) : cmpB a b = 0 ↔ a = b := by
  unfold cmpB
  constructor
  · intro h
    cases h1 : ltB a b with
    | true => simp [h1] at h
    | false =>
      cases h2 : ltB b a with
      | true => simp [h1, h2] at h
      | false => exact ltB_total h1 h2
  · intro h
    subst h
    simp [ltB_irrefl]

theorem cmpB_neg_iff (a b : Bytes) : cmpB a b < 0 ↔ ltB a b = true := by
  unfold cmpB
  cases h1 : ltB a b with
  | true => simp
  | false =>
    cases h2 : ltB b a <;> simp

/-- `next.entry.compareWithEntry(e) < 0` — the condition of Insert's walk — is `entryLt next e` -/
theorem compareWithEntry_neg_iff (a b : MEntry) :
    Kevo.Gen.MemTable.compareWithEntry a b < 0 ↔ entryLt a b = true := by
  rw [entryLt_iff]
  unfold Kevo.Gen.MemTable.compareWithEntry
  simp only [beq_iff_eq, cmpB_eq_zero_iff]
  by_cases hk : a.key = b.key
  · simp only [hk, if_true, ltB_irrefl, true_and, Bool.false_eq_true, false_or, decide_eq_true_eq]
    by_cases h1 : a.seq > b.seq
    · simp [h1]
    · by_cases h2 : a.seq < b.seq
      · simp [h1, h2]
      · simp [h1, h2]
  · simp only [hk, if_false, false_and, or_false]
    exact cmpB_neg_iff a.key b.key

/-- `compareWithEntry == 0` only for entries equal in key and sequence number -/
theorem compareWithEntry_zero_iff (a b : MEntry) :
    Kevo.Gen.MemTable.compareWithEntry a b = 0 ↔ a.key = b.key ∧ a.seq = b.seq := by
  unfold Kevo.Gen.MemTable.compareWithEntry
  simp only [beq_iff_eq, cmpB_eq_zero_iff]
  by_cases hk : a.key = b.key
  · simp only [hk, if_true, true_and, decide_eq_true_eq]
    by_cases h1 : a.seq > b.seq
    · simp [h1]; omega
    · by_cases h2 : a.seq < b.seq
      · simp [h1, h2]; omega
      · simp [h1, h2]; omega
  · simp only [hk, if_false, false_and, iff_false]
    intro h
    exact hk ((cmpB_eq_zero_iff _ _).mp h)

theorem isVisible_eq (snap : Nat) (e : MEntry) :
    Kevo.Gen.MemTable.isVisible snap e.seq = Kevo.MemTable.visibleAt snap e := by
  unfold Kevo.Gen.MemTable.isVisible Kevo.MemTable.visibleAt
  by_cases h : snap = 0
  · simp [h]
  · have : (snap == 0) = false := by simpa using h
    simp [this]

end Kevo.Proofs.MemTableGen
