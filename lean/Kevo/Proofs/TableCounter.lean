/-
  Kevo.Proofs.TableCounter — a concrete written table that OpenReader rejects: its bloom filter is larger than the
  64 MiB limit of the loading loop although all size fields fit (helper file for Proofs/Table).
-/
import Kevo.Proofs.TableCodec
namespace Kevo.Proofs.TableAux
open Kevo Kevo.Block Kevo.Table

def cxP : Params :=
  { ri := 2, blockCut := 40, footerSize := 68, magic := 1, version := 2, bloomBits := 2 ^ 30, bloomK := 1, bloomN := 1 }
def cxHash : Bytes → Nat := fun bs => bs.length % 7
def cxEs : List BEntry := [{ key := [1], val := none, seq := 0 }]

theorem cx_cut : cutBlocks cxP cxEs [] 0 = [cxEs] := by decide
theorem cx_blocks : layBlocks cxP cxHash [cxEs] 0 = [(0, Block.encode 2 cxHash cxEs, cxEs)] := rfl
theorem cx_dlen : (Block.encode 2 cxHash cxEs).length = 31 := by decide
theorem cx_ilen : (indexOf cxP cxHash [(0, Block.encode 2 cxHash cxEs, cxEs)]).length = 43 := by decide

theorem cx_pwf : PWF cxP := by unfold PWF cxP; decide
theorem cx_hok : HOK cxHash := by intro bs; unfold cxHash; omega
theorem cx_ewf : ∀ e ∈ cxEs, EWF e := by
  intro e he
  simp [cxEs] at he
  subst he
  simp [EWF]

theorem cx_len (fnv : Bytes → Nat) : (Table.encode cxP cxHash fnv 0 true cxEs).length = 134217914 := by
  rw [tencode_eq, tableOf_length, cx_cut, cx_blocks, cx_ilen]
  simp only [dataOf, bloomOf, bloomRecs, bloomRec, filterRec, List.flatMap_cons, List.flatMap_nil, List.map_cons,
    List.map_nil, List.length_append, le_length, bloomBytes_length, cx_dlen, if_true, List.length_nil]
  decide

theorem cx_open (fnv : Bytes → Nat) : openTable cxP cxHash (Table.encode cxP cxHash fnv 0 true cxEs) = none := by
  have hl := cx_len fnv
  rw [tencode_eq] at hl ⊢
  rw [cx_cut] at hl ⊢
  exact openTable_tableOf_none cxP cx_pwf cxHash fnv cx_hok 0 (by omega) (by unfold cxP; decide) [cxEs] _
    (by simp) (by simp [cxEs]) (by intro b hb; simp at hb; subst hb; exact cx_ewf) (by simp [cxEs]) (by simp [cxEs])
    (by rw [hl]; omega)
end Kevo.Proofs.TableAux
