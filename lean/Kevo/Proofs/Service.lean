/-
  Kevo.Proofs.Service — lemmas behind C16 / C19: guard chains that return before the delegate, transactions on a
  read-only engine, filtered iterators and the consumer loop, the handle table.
-/
import Kevo.Model.Service
namespace Kevo.Proofs.Service
open Kevo Kevo.Service

/-! ## Filtered iterators and the consumer loop -/

/-- position at the first entry whose key passes `P` -/
def skip (P : Bytes → Bool) : List KV → List KV
  | [] => []
  | x :: r => if P x.1 then x :: r else skip P r

theorem skip_length_le (P : Bytes → Bool) (l : List KV) : (skip P l).length ≤ l.length := by
  induction l with
  | nil => simp [skip]
  | cons x r ih => simp only [skip]; split <;> simp <;> omega

theorem skip_idem (P : Bytes → Bool) (l : List KV) : skip P (skip P l) = skip P l := by
  induction l with
  | nil => rfl
  | cons x r ih =>
    simp only [skip]
    split
    · rename_i h; simp [skip, h]
    · exact ih

theorem filter_skip (P : Bytes → Bool) (l : List KV) : (skip P l).filter (fun kv => P kv.1) = l.filter (fun kv => P kv.1) := by
  induction l with
  | nil => rfl
  | cons x r ih =>
    simp only [skip]
    split
    · rfl
    · rename_i h; simp [List.filter, h, ih]

theorem skip_head (P : Bytes → Bool) (l : List KV) (x : KV) (r : List KV) (h : skip P l = x :: r) : P x.1 = true := by
  induction l with
  | nil => simp [skip] at h
  | cons y t ih =>
    simp only [skip] at h
    split at h
    · rename_i hy; cases h; exact hy
    · exact ih h

theorem skip_true (l : List KV) : skip (fun _ => true) l = l := by
  cases l <;> simp [skip]

/-- one step: drop the current entry, then position at the next entry that passes -/
def adv (P : Bytes → Bool) (c : Cur) : Cur := { c with rest := skip P c.rest.tail }

/-- an iterator that behaves as "the entries whose key passes `P`" -/
structure Good (ops : IterOps) (P : Bytes → Bool) : Prop where
  next : ∀ c, ops.next c = (adv P c, (adv P c).valid)
  first : ∀ c, ops.first c = { c with rest := skip P c.all }
  valid : ∀ c, ops.valid c = (c.valid && P c.key)

theorem good_base : Good baseOps (fun _ => true) := by
  refine ⟨?_, ?_, ?_⟩
  · intro c
    obtain ⟨all, rest⟩ := c
    cases rest with
    | nil => simp [baseOps, Cur.next, adv, skip, Cur.valid]
    | cons x r => simp [baseOps, Cur.next, adv, skip_true, Cur.valid]
  · intro c; simp [baseOps, Cur.first, skip_true]
  · intro c; simp [baseOps]

theorem skip_and (P q : Bytes → Bool) (r : List KV) :
    skip (fun k => P k && q k) r = skip (fun k => P k && q k) (skip P r) := by
  induction r with
  | nil => rfl
  | cons z u ih =>
    by_cases hz : P z.1 = true
    · simp [skip, hz]
    · have hz' : P z.1 = false := by simpa using hz
      simp only [skip, hz', Bool.false_and, Bool.false_eq_true, ↓reduceIte]
      exact ih

theorem filtNext_succ (inner : IterOps) (q : Bytes → Bool) (n : Nat) (c : Cur) :
    filtNext inner q (n + 1) c =
      (if !(inner.next c).2 then ((inner.next c).1, false)
       else if q (inner.next c).1.key then ((inner.next c).1, true) else filtNext inner q n (inner.next c).1) := rfl

theorem filtNext_spec {inner : IterOps} {P : Bytes → Bool} (hg : Good inner P) (q : Bytes → Bool) :
    ∀ (fuel : Nat) (c : Cur), c.rest.length ≤ fuel → 1 ≤ fuel →
      filtNext inner q fuel c = (adv (fun k => P k && q k) c, (adv (fun k => P k && q k) c).valid) := by
  intro fuel
  induction fuel with
  | zero => intro c _ h1; omega
  | succ n ih =>
    intro c hlen _
    rw [filtNext_succ, hg.next]
    obtain ⟨all, rest⟩ := c
    have key : ∀ s : List KV, s.length + 1 ≤ n + 1 ∨ s = [] → (∀ x r, s = x :: r → P x.1 = true) →
        (if !(({ all := all, rest := s } : Cur).valid) then (({ all := all, rest := s } : Cur), false)
         else if q ({ all := all, rest := s } : Cur).key then (({ all := all, rest := s } : Cur), true)
         else filtNext inner q n { all := all, rest := s }) =
        (({ all := all, rest := skip (fun k => P k && q k) s } : Cur),
          ({ all := all, rest := skip (fun k => P k && q k) s } : Cur).valid) := by
      intro s hs hhead
      cases s with
      | nil => simp [skip, Cur.valid]
      | cons y t =>
        have hy : P y.1 = true := hhead y t rfl
        by_cases hq : q y.1 = true
        · simp [Cur.valid, Cur.key, skip, hy, hq]
        · have hq' : q y.1 = false := by simpa using hq
          have hlen' : (y :: t).length ≤ n := by
            rcases hs with h | h
            · omega
            · cases h
          have h1 : 1 ≤ n := by simp only [List.length_cons] at hlen'; omega
          have hrec := ih { all := all, rest := y :: t } hlen' h1
          simp only [Cur.valid, List.isEmpty_cons, Bool.not_false, Bool.not_true, Bool.false_eq_true, ↓reduceIte, Cur.key, hq']
          rw [hrec]
          simp [adv, skip, hy, hq', Cur.valid]
    have hand := skip_and P q rest.tail
    simp only [adv]
    rw [hand]
    apply key
    · have hle := skip_length_le P rest.tail
      cases rest with
      | nil => right; rfl
      | cons a b => left; simp only [List.tail_cons, List.length_cons] at hle hlen ⊢; omega
    · exact skip_head P rest.tail

theorem good_filt {inner : IterOps} {P : Bytes → Bool} (hg : Good inner P) (q : Bytes → Bool) :
    Good (filtOps inner q) (fun k => P k && q k) := by
  refine ⟨?_, ?_, ?_⟩
  · intro c
    exact filtNext_spec hg q (c.rest.length + 1) c (by omega) (by omega)
  · intro c
    obtain ⟨all, rest⟩ := c
    simp only [filtOps, hg.first, hg.valid]
    have key : ∀ s : List KV, (∀ x r, s = x :: r → P x.1 = true) →
        (if (({ all := all, rest := s } : Cur).valid && P ({ all := all, rest := s } : Cur).key && !q ({ all := all, rest := s } : Cur).key) = true
          then (filtNext inner q (({ all := all, rest := s } : Cur).rest.length + 1) { all := all, rest := s }).1
          else ({ all := all, rest := s } : Cur)) = { all := all, rest := skip (fun k => P k && q k) s } := by
      intro s hhead
      cases s with
      | nil => simp [skip, Cur.valid]
      | cons y t =>
        have hy : P y.1 = true := hhead y t rfl
        by_cases hq : q y.1 = true
        · simp [Cur.valid, Cur.key, skip, hy, hq]
        · have hq' : q y.1 = false := by simpa using hq
          simp only [Cur.valid, List.isEmpty_cons, Bool.not_false, Cur.key, hy, hq', Bool.and_self, ↓reduceIte]
          rw [filtNext_spec hg q ((y :: t).length + 1) { all := all, rest := y :: t } (Nat.le_succ _) (by omega)]
          simp [adv, skip, hy, hq']
    rw [skip_and P q all]
    exact key _ (skip_head P all)
  · intro c
    simp only [filtOps, hg.valid, Bool.and_assoc]

/-- what the consumer still emits: with a limit, at most `lim - count` more entries -/
def remaining (lim count : Nat) (l : List (Bytes × Bytes)) : List (Bytes × Bytes) :=
  if lim > 0 then l.take (lim - count) else l

theorem live_cons_some (k v : Bytes) (r : List KV) : live ((k, some v) :: r) = (k, v) :: live r := by simp [live]
theorem live_cons_none (k : Bytes) (r : List KV) : live ((k, none) :: r) = live r := by simp [live]

theorem consume_succ (ops : IterOps) (lim n : Nat) (c : Cur) (count : Nat) :
    consume ops lim (n + 1) c count =
      (if !ops.valid c then []
       else if lim > 0 && count ≥ lim then []
       else match c.val with
         | some v => (c.key, v) :: consume ops lim n (ops.next c).1 (count + 1)
         | none => consume ops lim n (ops.next c).1 count) := rfl

theorem consume_spec {ops : IterOps} {P : Bytes → Bool} (hg : Good ops P) (lim : Nat) :
    ∀ (fuel : Nat) (c : Cur) (count : Nat), c.rest.length + 1 ≤ fuel → skip P c.rest = c.rest →
      consume ops lim fuel c count = remaining lim count (live (c.rest.filter (fun kv => P kv.1))) := by
  intro fuel
  induction fuel with
  | zero => intro c count h; omega
  | succ n ih =>
    intro c count hlen hpos
    obtain ⟨all, rest⟩ := c
    rw [consume_succ, hg.valid, hg.next]
    cases rest with
    | nil => simp [Cur.valid, remaining, live]
    | cons x r =>
      have hx : P x.1 = true := skip_head P (x :: r) x r hpos
      have hlen2 : (skip P r).length + 1 ≤ n := by
        have := skip_length_le P r
        simp only [List.length_cons] at hlen
        omega
      have hrec := fun cnt => ih { all := all, rest := skip P r } cnt hlen2 (skip_idem P r)
      simp only [filter_skip] at hrec
      have hf : (x :: r).filter (fun kv => P kv.1) = x :: r.filter (fun kv => P kv.1) := by simp [List.filter, hx]
      simp only [hf, Cur.valid, List.isEmpty_cons, Bool.not_false, Cur.key, hx, Bool.and_self, Bool.not_true, Bool.false_eq_true,
        ↓reduceIte, adv, List.tail_cons, Cur.val]
      by_cases hl : lim > 0 ∧ count ≥ lim
      · have h1 : (decide (lim > 0) && decide (count ≥ lim)) = true := by simp [hl.1, hl.2]
        rw [if_pos h1]
        have : lim - count = 0 := by omega
        simp [remaining, hl.1, this]
      · have h1 : ¬ ((decide (lim > 0) && decide (count ≥ lim)) = true) := by
          intro h
          simp only [Bool.and_eq_true, decide_eq_true_eq] at h
          exact hl h
        rw [if_neg h1]
        obtain ⟨k, v⟩ := x
        cases v with
        | none => simp only [hrec, live_cons_none]
        | some v =>
          simp only [hrec, live_cons_some, remaining]
          by_cases hp : lim > 0
          · have : lim - count = (lim - (count + 1)) + 1 := by omega
            simp [hp, this, List.take_succ_cons]
          · simp [hp]

theorem consume_first {ops : IterOps} {P : Bytes → Bool} (hg : Good ops P) (lim : Nat) (all : List KV) :
    consume ops lim (all.length + 1) (ops.first { all := all }) 0 = takeLimit lim (live (all.filter (fun kv => P kv.1))) := by
  rw [hg.first, consume_spec hg lim _ _ 0 (by have := skip_length_le P all; show (skip P all).length + 1 ≤ all.length + 1; omega) (skip_idem P all)]
  simp [remaining, takeLimit, filter_skip]

/-- the iterator built for each option combination, consumed by the loop, is the specified filter -/
theorem scanRun_eq_scanSpec (o : ScanOpts) (full : List KV) (range : Option Bytes → Option Bytes → List KV) :
    scanRun o full range = scanSpec o full range := by
  unfold scanRun scanSpec
  cases hb : chooseBranch o with
  | prefixSuffix =>
    simp only [consume_first (good_filt (good_filt good_base _) _), specPred]
    simp
  | pfx =>
    simp only [consume_first (good_filt good_base _), specPred]
    simp
  | sfx =>
    simp only [consume_first (good_filt good_base _), specPred]
    simp
  | range =>
    simp only [consume_first good_base, specPred]
    simp
  | full =>
    simp only [consume_first good_base, specPred]
    simp

/-! ## Option combinations select exactly one branch -/

/-- the condition under which each branch of the Scan / TxScan chain is taken -/
def branchCond (o : ScanOpts) : Branch → Prop
  | .prefixSuffix => o.pfx ≠ [] ∧ o.sfx ≠ []
  | .pfx => o.pfx ≠ [] ∧ o.sfx = []
  | .sfx => o.pfx = [] ∧ o.sfx ≠ []
  | .range => o.pfx = [] ∧ o.sfx = [] ∧ (o.start ≠ [] ∨ o.stop ≠ [])
  | .full => o.pfx = [] ∧ o.sfx = [] ∧ o.start = [] ∧ o.stop = []

theorem length_pos_iff (b : Bytes) : (decide (b.length > 0)) = !b.isEmpty := by
  cases b <;> simp

theorem chooseBranch_iff (o : ScanOpts) (b : Branch) : chooseBranch o = b ↔ branchCond o b := by
  obtain ⟨p, s, a, z, l⟩ := o
  unfold chooseBranch
  cases p <;> cases s <;> cases a <;> cases z <;> cases b <;> simp [branchCond]

/-! ## Facade rows -/

theorem run_rejected {row : Row} {a : Arg} {e : Eng} {err : Err} (h : guardErr row.guards e.closed e.readOnly = some err) :
    run row a e = { err := some err, eng := e } := by
  simp [run, h]

/-- the generic lemma: a guard that returns before the delegate leaves the engine exactly as it was -/
theorem guard_returns_no_effect (row : Row) (a : Arg) (e : Eng) (h : (guardErr row.guards e.closed e.readOnly).isSome) :
    (run row a e).eng = e ∧ (run row a e).err = guardErr row.guards e.closed e.readOnly := by
  cases hg : guardErr row.guards e.closed e.readOnly with
  | none => simp [hg] at h
  | some err => simp [run_rejected hg]

/-- decidable per row: with the read-only flag set the chain returns the read-only error (and returns at all when closed) -/
def roCheck (gs : List Guard) : Bool :=
  guardErr gs false true == some .readOnlyMode && (guardErr gs true true).isSome

theorem ro_rejects (row : Row) (hchk : roCheck row.guards = true) (a : Arg) (e : Eng) (hro : e.readOnly = true) :
    (run row a e).eng = e ∧ (run row a e).err.isSome ∧ (e.closed = false → (run row a e).err = some .readOnlyMode) := by
  simp only [roCheck, Bool.and_eq_true, beq_iff_eq] at hchk
  cases hc : e.closed with
  | false =>
    have hg : guardErr row.guards e.closed e.readOnly = some .readOnlyMode := by rw [hc, hro]; exact hchk.1
    simp [run_rejected hg]
  | true =>
    have hs : (guardErr row.guards e.closed e.readOnly).isSome := by rw [hc, hro]; exact hchk.2
    have := guard_returns_no_effect row a e hs
    simp [this.1, this.2, hs]

/-- the chain lets an open engine through whatever the read-only flag says, and does not touch the caller's flag -/
def passCheck (gs : List Guard) : Bool :=
  guardErr gs false true == none && guardErr gs false false == none && !gs.contains .downgrade

theorem effArg_noDowngrade (gs : List Guard) (ro : Bool) (a : Arg) (h : gs.contains .downgrade = false) : effArg gs ro a = a := by
  cases a <;> simp only [effArg, h, Bool.false_and, Bool.or_false]

theorem run_unguarded (row : Row) (hchk : passCheck row.guards = true) (hop : row.op ≠ .txBegin) (a : Arg) (e : Eng)
    (hc : e.closed = false) :
    run row a e = { val := (applyOp row.op a e).1, eng := (applyOp row.op a e).2 } := by
  simp only [passCheck, Bool.and_eq_true, beq_iff_eq, Bool.not_eq_true'] at hchk
  have hg : guardErr row.guards e.closed e.readOnly = none := by
    rw [hc]; cases e.readOnly
    · exact hchk.1.2
    · exact hchk.1.1
  have ha := effArg_noDowngrade row.guards e.readOnly a hchk.2
  unfold run
  simp only [hg, ha]
  split
  · next heq => exact absurd heq hop
  · rfl

def isReadOp : Op → Bool
  | .storageGet | .storageIsDeleted | .storageIter | .storageRangeIter => true
  | _ => false

theorem applyOp_read (op : Op) (hop : isReadOp op = true) (a : Arg) (e : Eng) :
    (applyOp op a e).2 = e ∧ ∀ b, (applyOp op a { e with readOnly := b }).1 = (applyOp op a e).1 := by
  cases op <;> simp [isReadOp] at hop <;> cases a <;> simp [applyOp]

/-! ## Transactions of a read-only engine -/

theorem put_ro (t : Tx) (h : t.ro = true) (k v : Bytes) :
    t.put k v = (some (if t.active then .roTx else .txClosed), t) := by
  unfold Tx.put; cases ha : t.active <;> simp [h]

theorem delete_ro (t : Tx) (h : t.ro = true) (k : Bytes) :
    t.delete k = (some (if t.active then .roTx else .txClosed), t) := by
  unfold Tx.delete; cases ha : t.active <;> simp [h]

theorem unlock_store (t : Tx) (e : Eng) : (unlock t e).store = e.store ∧ (unlock t e).readOnly = e.readOnly ∧ (unlock t e).closed = e.closed := by
  unfold unlock; split <;> simp

theorem commit_ro (t : Tx) (h : t.ro = true) (e : Eng) : (t.commit e).2.2.store = e.store := by
  unfold Tx.commit
  split
  · rfl
  · simp [h, (unlock_store t e).1]

theorem rollback_store (t : Tx) (e : Eng) : (t.rollback e).2.2.store = e.store := by
  unfold Tx.rollback
  split
  · rfl
  · simp [(unlock_store t e).1]

/-- a write through a transaction -/
inductive TxWrite where
  | put (k v : Bytes)
  | del (k : Bytes)

def txWrite (t : Tx) : TxWrite → Option Err × Tx
  | .put k v => t.put k v
  | .del k => t.delete k

/-- any sequence of writes: the results, and the transaction afterwards -/
def txWrites : Tx → List TxWrite → List (Option Err) × Tx
  | t, [] => ([], t)
  | t, w :: ws => let (r, t') := txWrite t w; let (rs, t'') := txWrites t' ws; (r :: rs, t'')

theorem txWrites_ro (t : Tx) (h : t.ro = true) (ha : t.active = true) (ws : List TxWrite) :
    (txWrites t ws).2 = t ∧ ∀ r ∈ (txWrites t ws).1, r = some .roTx := by
  induction ws with
  | nil => simp [txWrites]
  | cons w rest ih =>
    have hw : txWrite t w = (some .roTx, t) := by
      cases w <;> simp [txWrite, put_ro t h, delete_ro t h, ha]
    simp only [txWrites, hw]
    refine ⟨ih.1, ?_⟩
    intro r hr
    simp only [List.mem_cons] at hr
    rcases hr with rfl | hr
    · rfl
    · exact ih.2 r hr

/-! ## The handle table -/

theorem lookup_filter_ne (l : List (Nat × Tx)) (id : Nat) : (l.filter (fun p => p.1 != id)).lookup id = none := by
  induction l with
  | nil => rfl
  | cons p r ih =>
    by_cases h : p.1 = id
    · simp [List.filter, h, ih]
    · have : (p.1 != id) = true := by simpa using h
      simp only [List.filter, this]
      obtain ⟨a, b⟩ := p
      have hne : (id == a) = false := by
        simp only [beq_eq_false_iff_ne, ne_eq]; exact fun h' => h h'.symm
      simp only [List.lookup, hne]
      exact ih

theorem lookup_filter_none (l : List (Nat × Tx)) (id j : Nat) (h : l.lookup id = none) :
    (l.filter (fun p => p.1 != j)).lookup id = none := by
  induction l with
  | nil => rfl
  | cons p r ih =>
    obtain ⟨a, b⟩ := p
    simp only [List.lookup] at h
    split at h
    · cases h
    · rename_i hne
      simp only [List.filter]
      split
      · simp only [List.lookup, hne]; exact ih h
      · exact ih h

theorem lookup_map_none (l : List (Nat × Tx)) (id j : Nat) (t : Tx) (h : l.lookup id = none) :
    (l.map (fun p => if p.1 == j then (j, t) else p)).lookup id = none := by
  induction l with
  | nil => rfl
  | cons p r ih =>
    obtain ⟨a, b⟩ := p
    simp only [List.lookup] at h
    split at h
    · cases h
    · rename_i hne
      simp only [List.map]
      by_cases haj : a = j
      · subst haj
        simp only [beq_self_eq_true, ↓reduceIte, List.lookup, hne]
        exact ih h
      · have : (a == j) = false := by simpa using haj
        simp only [this, Bool.false_eq_true, ↓reduceIte, List.lookup, hne]
        exact ih h

end Kevo.Proofs.Service
