import Kevo.Proofs.MergeDefs
namespace Kevo.Proofs.Merge
open Kevo Kevo.Merge

def total (Ls : List (List KV)) : Nat := (Ls.map List.length).sum

/-! ### generalities on keys -/

theorem ltB_ne {a b : Bytes} (h : ltB a b = true) : a ≠ b := by
  intro hab
  rw [hab, ltB_irrefl] at h
  contradiction

theorem beq_false_of_ltB {a b : Bytes} (h : ltB a b = true) : (a == b) = false := by
  simpa using ltB_ne h

theorem beq_false_of_ltB' {a b : Bytes} (h : ltB a b = true) : (b == a) = false := by
  have := ltB_ne h
  simpa using fun hh => this hh.symm

/-- trichotomy -/
theorem ltB_tri (a b : Bytes) : ltB a b = true ∨ a = b ∨ ltB b a = true := by
  cases h1 : ltB a b with
  | true => exact Or.inl rfl
  | false =>
    cases h2 : ltB b a with
    | true => exact Or.inr (Or.inr rfl)
    | false => exact Or.inr (Or.inl (ltB_total h1 h2))

theorem ltB_of_lt_of_le {a b c : Bytes} (h1 : ltB a b = true) (h2 : ltB c b = false) : ltB a c = true := by
  rcases ltB_tri b c with h | h | h
  · exact ltB_trans h1 h
  · rw [← h]; exact h1
  · rw [h] at h2; contradiction

theorem ltB_of_le_of_lt {a b c : Bytes} (h1 : ltB b a = false) (h2 : ltB b c = true) : ltB a c = true := by
  rcases ltB_tri a b with h | h | h
  · exact ltB_trans h h2
  · rw [h]; exact h2
  · rw [h] at h1; contradiction

theorem leB_trans {a b c : Bytes} (h1 : ltB b a = false) (h2 : ltB c b = false) : ltB c a = false := by
  cases h : ltB c a with
  | false => rfl
  | true =>
    have := ltB_of_lt_of_le h h1
    rw [this] at h2; contradiction

/-! ### 1. lookups in strictly ascending lists -/

theorem lookup_nil (k : Bytes) : lookup [] k = none := rfl

theorem lookup_cons (a : KV) (l : List KV) (k : Bytes) :
    lookup (a :: l) k = if a.1 = k then some a else lookup l k := by
  unfold lookup
  rw [List.find?_cons]
  by_cases h : a.1 = k
  · simp [h]
  · have hb : (a.1 == k) = false := by simpa using h
    simp only [hb, if_neg h]

theorem lookup_key {l : List KV} {k : Bytes} {e : KV} (h : lookup l k = some e) : e.1 = k := by
  unfold lookup at h
  have := List.find?_some h
  simpa using this

theorem lookup_mem {l : List KV} {k : Bytes} {e : KV} (h : lookup l k = some e) : e ∈ l := by
  unfold lookup at h
  exact List.mem_of_find?_eq_some h

theorem lookup_eq_none {l : List KV} {k : Bytes} : lookup l k = none ↔ ∀ x ∈ l, x.1 ≠ k := by
  unfold lookup
  simp

theorem asc_cons {a : KV} {l : List KV} : Asc (a :: l) ↔ (∀ x ∈ l, ltB a.1 x.1 = true) ∧ Asc l := by
  unfold Asc
  rw [List.pairwise_cons]

theorem nondec_cons {a : KV} {l : List KV} : Nondec (a :: l) ↔ (∀ x ∈ l, ltB x.1 a.1 = false) ∧ Nondec l := by
  unfold Nondec
  rw [List.pairwise_cons]

theorem mem_iff_lookup {l : List KV} (h : Asc l) (e : KV) : e ∈ l ↔ lookup l e.1 = some e := by
  constructor
  · intro he
    induction l with
    | nil => simp at he
    | cons a l ih =>
      rw [asc_cons] at h
      rw [lookup_cons]
      rcases List.mem_cons.mp he with rfl | hm
      · simp
      · have := ltB_ne (h.1 e hm)
        rw [if_neg this]
        exact ih h.2 hm
  · exact lookup_mem

theorem asc_ext {l₁ l₂ : List KV} (h₁ : Asc l₁) (h₂ : Asc l₂) (h : ∀ k, lookup l₁ k = lookup l₂ k) : l₁ = l₂ := by
  induction l₁ generalizing l₂ with
  | nil =>
    cases l₂ with
    | nil => rfl
    | cons b l₂ =>
      have := h b.1
      rw [lookup_cons] at this
      simp [lookup_nil] at this
  | cons a l₁ ih =>
    cases l₂ with
    | nil =>
      have := h a.1
      rw [lookup_cons] at this
      simp [lookup_nil] at this
    | cons b l₂ =>
      have ha := (mem_iff_lookup h₁ a).mp (by simp)
      have hb := (mem_iff_lookup h₂ b).mp (by simp)
      rw [h] at ha
      rw [← h] at hb
      have ha' := lookup_mem ha
      have hb' := lookup_mem hb
      rw [asc_cons] at h₁ h₂
      have hab : a = b := by
        rcases List.mem_cons.mp ha' with e | hm
        · exact e
        · rcases List.mem_cons.mp hb' with e | hm'
          · exact e.symm
          · have x1 := h₂.1 a hm
            have x2 := h₁.1 b hm'
            rw [ltB_asymm x1] at x2
            contradiction
      subst hab
      congr 1
      apply ih h₁.2 h₂.2
      intro k
      have hk := h k
      rw [lookup_cons, lookup_cons] at hk
      by_cases e : a.1 = k
      · have n1 : lookup l₁ k = none := lookup_eq_none.mpr (fun x hx => by rw [← e]; exact (ltB_ne (h₁.1 x hx)).symm)
        have n2 : lookup l₂ k = none := lookup_eq_none.mpr (fun x hx => by rw [← e]; exact (ltB_ne (h₂.1 x hx)).symm)
        rw [n1, n2]
      · rw [if_neg e, if_neg e] at hk
        exact hk

/-! ### 2. the specification list -/

theorem mem_insertKey (k x : Bytes) (l : List Bytes) : x ∈ insertKey k l ↔ x = k ∨ x ∈ l := by
  induction l with
  | nil => simp [insertKey]
  | cons y ys ih =>
    unfold insertKey
    by_cases h1 : ltB k y = true
    · rw [if_pos h1]; simp
    · rw [if_neg h1]
      by_cases h2 : (k == y) = true
      · rw [if_pos h2]
        have : k = y := by simpa using h2
        subst this
        simp
      · rw [if_neg h2, List.mem_cons, ih, List.mem_cons]
        constructor
        · rintro (h | h | h)
          · exact Or.inr (Or.inl h)
          · exact Or.inl h
          · exact Or.inr (Or.inr h)
        · rintro (h | h | h)
          · exact Or.inr (Or.inl h)
          · exact Or.inl h
          · exact Or.inr (Or.inr h)

def SortedK (l : List Bytes) : Prop := l.Pairwise (fun a b => ltB a b = true)

theorem insertKey_sorted (k : Bytes) (l : List Bytes) (h : SortedK l) : SortedK (insertKey k l) := by
  induction l with
  | nil => simp [insertKey, SortedK]
  | cons y ys ih =>
    unfold SortedK at h ih ⊢
    rw [List.pairwise_cons] at h
    unfold insertKey
    by_cases h1 : ltB k y = true
    · rw [if_pos h1, List.pairwise_cons, List.pairwise_cons]
      refine ⟨?_, h.1, h.2⟩
      intro x hx
      rcases List.mem_cons.mp hx with rfl | hm
      · exact h1
      · exact ltB_trans h1 (h.1 x hm)
    · rw [if_neg h1]
      by_cases h2 : (k == y) = true
      · rw [if_pos h2, List.pairwise_cons]; exact h
      · rw [if_neg h2, List.pairwise_cons]
        refine ⟨?_, ih h.2⟩
        intro x hx
        rcases (mem_insertKey k x ys).mp hx with rfl | hm
        · have hne : x ≠ y := by simpa using h2
          rcases ltB_tri x y with t | t | t
          · exact absurd t h1
          · exact absurd t hne
          · exact t
        · exact h.1 x hm

theorem foldl_insertKey_sorted (es : List KV) (acc : List Bytes) (h : SortedK acc) :
    SortedK (es.foldl (fun acc e => insertKey e.1 acc) acc) := by
  induction es generalizing acc with
  | nil => exact h
  | cons e es ih => rw [List.foldl_cons]; exact ih _ (insertKey_sorted _ _ h)

theorem mem_foldl_insertKey (es : List KV) (acc : List Bytes) (x : Bytes) :
    x ∈ es.foldl (fun acc e => insertKey e.1 acc) acc ↔ x ∈ acc ∨ ∃ e ∈ es, e.1 = x := by
  induction es generalizing acc with
  | nil => simp
  | cons e es ih =>
    rw [List.foldl_cons, ih, mem_insertKey]
    constructor
    · rintro ((h | h) | ⟨e', he', hx⟩)
      · exact Or.inr ⟨e, by simp, h.symm⟩
      · exact Or.inl h
      · exact Or.inr ⟨e', by simp [he'], hx⟩
    · rintro (h | ⟨e', he', hx⟩)
      · exact Or.inl (Or.inr h)
      · rcases List.mem_cons.mp he' with rfl | hm
        · exact Or.inl (Or.inl hx.symm)
        · exact Or.inr ⟨e', hm, hx⟩

theorem allKeys_sorted (srcs : List (List KV)) : SortedK (allKeys srcs) := by
  unfold allKeys
  apply foldl_insertKey_sorted
  simp [SortedK]

theorem mem_allKeys (srcs : List (List KV)) (k : Bytes) :
    k ∈ allKeys srcs ↔ ∃ s ∈ srcs, ∃ e ∈ s, e.1 = k := by
  unfold allKeys
  rw [mem_foldl_insertKey]
  constructor
  · rintro (h | ⟨e, he, hk⟩)
    · simp at h
    · rcases List.mem_flatten.mp he with ⟨s, hs, hes⟩
      exact ⟨s, hs, e, hes, hk⟩
  · rintro ⟨s, hs, e, hes, hk⟩
    exact Or.inr ⟨e, List.mem_flatten.mpr ⟨s, hs, hes⟩, hk⟩

theorem newest_nil (k : Bytes) : newest [] k = none := rfl

theorem newest_cons (L : List KV) (Ls : List (List KV)) (k : Bytes) :
    newest (L :: Ls) k = match lookup L k with
      | some e => some e
      | none => newest Ls k := by
  unfold newest lookup
  rw [List.findSome?_cons]
  cases List.find? (fun e => e.fst == k) L <;> rfl

theorem newest_key {srcs : List (List KV)} {k : Bytes} {e : KV} (h : newest srcs k = some e) : e.1 = k := by
  induction srcs with
  | nil => simp [newest_nil] at h
  | cons L Ls ih =>
    rw [newest_cons] at h
    cases hl : lookup L k with
    | none => rw [hl] at h; exact ih h
    | some e' =>
      rw [hl] at h
      simp only [Option.some.injEq] at h
      subst h
      exact lookup_key hl

theorem newest_eq_none {srcs : List (List KV)} {k : Bytes} :
    newest srcs k = none ↔ ∀ s ∈ srcs, ∀ e ∈ s, e.1 ≠ k := by
  induction srcs with
  | nil => simp [newest_nil]
  | cons L Ls ih =>
    rw [newest_cons]
    cases hl : lookup L k with
    | none =>
      simp only [ih]
      rw [lookup_eq_none] at hl
      constructor
      · intro h s hs
        rcases List.mem_cons.mp hs with rfl | hm
        · exact hl
        · exact h s hm
      · intro h s hs
        exact h s (by simp [hs])
    | some e' =>
      simp only
      constructor
      · intro h; contradiction
      · intro h
        exact absurd (lookup_key hl) (h L (by simp) e' (lookup_mem hl))

theorem newest_mem {srcs : List (List KV)} {k : Bytes} {e : KV} (h : newest srcs k = some e) :
    ∃ s ∈ srcs, e ∈ s := by
  induction srcs with
  | nil => simp [newest_nil] at h
  | cons L Ls ih =>
    rw [newest_cons] at h
    cases hl : lookup L k with
    | none =>
      rw [hl] at h
      rcases ih h with ⟨s, hs, hes⟩
      exact ⟨s, by simp [hs], hes⟩
    | some e' =>
      rw [hl] at h
      simp only [Option.some.injEq] at h
      subst h
      exact ⟨L, by simp, lookup_mem hl⟩

theorem filterMap_asc (g : Bytes → Option KV) (hg : ∀ k e, g k = some e → e.1 = k) (ks : List Bytes)
    (h : SortedK ks) : Asc (ks.filterMap g) := by
  induction ks with
  | nil => simp [Asc]
  | cons x xs ih =>
    unfold SortedK at h ih
    rw [List.pairwise_cons] at h
    rw [List.filterMap_cons]
    cases hx : g x with
    | none => exact ih h.2
    | some e =>
      simp only
      rw [asc_cons]
      refine ⟨?_, ih h.2⟩
      intro y hy
      rcases List.mem_filterMap.mp hy with ⟨k', hk', hgk⟩
      rw [hg _ _ hx, hg _ _ hgk]
      exact h.1 k' hk'

theorem filterMap_lookup (g : Bytes → Option KV) (hg : ∀ k e, g k = some e → e.1 = k) (ks : List Bytes)
    (h : SortedK ks) (k : Bytes) : lookup (ks.filterMap g) k = if k ∈ ks then g k else none := by
  induction ks with
  | nil => simp [lookup_nil]
  | cons x xs ih =>
    unfold SortedK at h ih
    rw [List.pairwise_cons] at h
    rw [List.filterMap_cons]
    have hxk : x = k → k ∉ xs := by
      intro e hm
      subst e
      have := h.1 x hm
      rw [ltB_irrefl] at this
      contradiction
    cases hx : g x with
    | none =>
      simp only
      rw [ih h.2]
      by_cases e : x = k
      · have := hxk e
        subst e
        simp [this, hx]
      · have : (k ∈ x :: xs) ↔ k ∈ xs := by
          rw [List.mem_cons]
          constructor
          · rintro (h | h)
            · exact absurd h.symm e
            · exact h
          · exact Or.inr
        simp only [this]
    | some e' =>
      simp only
      rw [lookup_cons, hg _ _ hx]
      by_cases e : x = k
      · subst e
        simp [hx]
      · rw [if_neg e, ih h.2]
        have : (k ∈ x :: xs) ↔ k ∈ xs := by
          rw [List.mem_cons]
          constructor
          · rintro (h | h)
            · exact absurd h.symm e
            · exact h
          · exact Or.inr
        simp only [this]

theorem mergeSpec_asc (srcs : List (List KV)) : Asc (mergeSpec srcs) :=
  filterMap_asc _ (fun _ _ h => newest_key h) _ (allKeys_sorted srcs)

theorem lookup_mergeSpec (srcs : List (List KV)) (k : Bytes) : lookup (mergeSpec srcs) k = newest srcs k := by
  unfold mergeSpec
  rw [filterMap_lookup _ (fun _ _ h => newest_key h) _ (allKeys_sorted srcs)]
  by_cases hm : k ∈ allKeys srcs
  · rw [if_pos hm]
  · rw [if_neg hm]
    symm
    rw [newest_eq_none]
    intro s hs e he hk
    exact hm ((mem_allKeys srcs k).mpr ⟨s, hs, e, he, hk⟩)

/-! ### 3. the merge loop on arbitrary lists -/

theorem pickMin_eq_none {l : List KV} (h : pickMin l = none) : l = [] := by
  cases l with
  | nil => rfl
  | cons a l =>
    unfold pickMin at h
    cases hp : pickMin l with
    | none => rw [hp] at h; simp at h
    | some b =>
      rw [hp] at h
      by_cases c : ltB b.1 a.1 = true
      · simp [c] at h
      · simp [c] at h

/-- `pickMin` returns the first element carrying the smallest key -/
theorem pickMin_spec {l : List KV} {e : KV} (h : pickMin l = some e) :
    e ∈ l ∧ (∀ x ∈ l, ltB x.1 e.1 = false) ∧ lookup l e.1 = some e := by
  induction l generalizing e with
  | nil => simp [pickMin] at h
  | cons a l ih =>
    unfold pickMin at h
    cases hp : pickMin l with
    | none =>
      rw [hp] at h
      simp only [Option.some.injEq] at h
      subst h
      have := pickMin_eq_none hp
      subst this
      refine ⟨by simp, ?_, ?_⟩
      · intro x hx
        simp only [List.mem_singleton] at hx
        subst hx
        exact ltB_irrefl _
      · rw [lookup_cons]; simp
    | some b =>
      rw [hp] at h
      have ⟨hb1, hb2, hb3⟩ := ih hp
      by_cases c : ltB b.1 a.1 = true
      · simp only [c, if_true, Option.some.injEq] at h
        subst h
        refine ⟨by simp [hb1], ?_, ?_⟩
        · intro x hx
          rcases List.mem_cons.mp hx with rfl | hm
          · exact ltB_asymm c
          · exact hb2 x hm
        · rw [lookup_cons, if_neg (ltB_ne c).symm]
          exact hb3
      · have c' : ltB b.1 a.1 = false := by simpa using c
        simp only [c'] at h
        simp only [Bool.false_eq_true, if_false, Option.some.injEq] at h
        subst h
        refine ⟨by simp, ?_, ?_⟩
        · intro x hx
          rcases List.mem_cons.mp hx with rfl | hm
          · exact ltB_irrefl _
          · exact leB_trans c' (hb2 x hm)
        · rw [lookup_cons]; simp

theorem head?_dropWhile {α : Type} (p : α → Bool) (l : List α) {h : α}
    (hh : (l.dropWhile p).head? = some h) : p h = false := by
  induction l with
  | nil => simp at hh
  | cons a l ih =>
    rw [List.dropWhile_cons] at hh
    by_cases c : p a = true
    · rw [if_pos c] at hh; exact ih hh
    · rw [if_neg c] at hh
      simp only [List.head?_cons, Option.some.injEq] at hh
      subst hh
      simpa using c

theorem mem_heads {Ls : List (List KV)} {h : KV} : h ∈ heads Ls ↔ ∃ L ∈ Ls, L.head? = some h := by
  unfold heads
  rw [List.mem_filterMap]

theorem heads_dropLE (p : Bytes) (Ls : List (List KV)) : ∀ h ∈ heads (Ls.map (dropLE p)), ltB p h.1 = true := by
  intro h hh
  rcases mem_heads.mp hh with ⟨L', hL', hd⟩
  rcases List.mem_map.mp hL' with ⟨L, _, rfl⟩
  unfold dropLE at hd
  have := head?_dropWhile _ _ hd
  simpa using this

theorem mergeRun_zero (Ls : List (List KV)) : mergeRun 0 Ls = [] := rfl

theorem mergeRun_succ (n : Nat) (Ls : List (List KV)) :
    mergeRun (n + 1) Ls = match pickMin (heads Ls) with
      | none => []
      | some e => e :: mergeRun n (Ls.map (dropLE e.1)) := rfl

theorem mergeRun_gt (p : Bytes) (n : Nat) (Ls : List (List KV)) (h : ∀ x ∈ heads Ls, ltB p x.1 = true) :
    ∀ x ∈ mergeRun n Ls, ltB p x.1 = true := by
  induction n generalizing Ls p with
  | zero => intro x hx; simp [mergeRun_zero] at hx
  | succ n ih =>
    intro x hx
    rw [mergeRun_succ] at hx
    cases hp : pickMin (heads Ls) with
    | none => rw [hp] at hx; simp at hx
    | some e =>
      rw [hp] at hx
      simp only [List.mem_cons] at hx
      have he := h e (pickMin_spec hp).1
      rcases hx with rfl | hm
      · exact he
      · exact ltB_trans he (ih e.1 _ (heads_dropLE e.1 Ls) x hm)

theorem mergeRun_asc (n : Nat) (Ls : List (List KV)) : Asc (mergeRun n Ls) := by
  induction n generalizing Ls with
  | zero => simp [mergeRun_zero, Asc]
  | succ n ih =>
    rw [mergeRun_succ]
    cases hp : pickMin (heads Ls) with
    | none => simp [Asc]
    | some e =>
      simp only
      rw [asc_cons]
      exact ⟨mergeRun_gt e.1 n _ (heads_dropLE e.1 Ls), ih _⟩

/-! ### 4. the merge loop on sorted sources -/

theorem total_nil : total [] = 0 := rfl
theorem total_cons (L : List KV) (Ls : List (List KV)) : total (L :: Ls) = L.length + total Ls := by
  simp [total]

theorem heads_nil : heads [] = [] := rfl
theorem heads_cons_nil (Ls : List (List KV)) : heads ([] :: Ls) = heads Ls := by
  unfold heads
  rw [List.filterMap_cons]
  rfl
theorem heads_cons_cons (a : KV) (L : List KV) (Ls : List (List KV)) : heads ((a :: L) :: Ls) = a :: heads Ls := by
  unfold heads
  rw [List.filterMap_cons]
  rfl

theorem nondec_dropWhile {l : List KV} (h : Nondec l) (p : KV → Bool) : Nondec (l.dropWhile p) :=
  List.Pairwise.sublist (List.dropWhile_sublist p) h

theorem sourcesOK_cons {L : List KV} {Ls : List (List KV)} : SourcesOK (L :: Ls) ↔ Nondec L ∧ SourcesOK Ls := by
  unfold SourcesOK
  simp

theorem sourcesOK_map {Ls : List (List KV)} (h : SourcesOK Ls) (f : List KV → List KV)
    (hf : ∀ L, Nondec L → Nondec (f L)) : SourcesOK (Ls.map f) := by
  intro s hs
  rcases List.mem_map.mp hs with ⟨L, hL, rfl⟩
  exact hf L (h L hL)

/-- sources whose heads are all ≥ k: the newest entry of k is the first head carrying k -/
theorem newest_eq_lookup_heads {Ls : List (List KV)} (h : SourcesOK Ls) (k : Bytes)
    (hk : ∀ x ∈ heads Ls, ltB x.1 k = false) : newest Ls k = lookup (heads Ls) k := by
  induction Ls with
  | nil => rfl
  | cons L Ls ih =>
    rw [sourcesOK_cons] at h
    rw [newest_cons]
    cases L with
    | nil =>
      rw [heads_cons_nil] at hk ⊢
      rw [lookup_nil]
      exact ih h.2 hk
    | cons a L =>
      rw [heads_cons_cons] at hk ⊢
      rw [lookup_cons, lookup_cons]
      by_cases c : a.1 = k
      · rw [if_pos c, if_pos c]
      · rw [if_neg c, if_neg c]
        have hak : ltB k a.1 = true := by
          rcases ltB_tri k a.1 with t | t | t
          · exact t
          · exact absurd t.symm c
          · rw [hk a (by simp)] at t; contradiction
        have hn := nondec_cons.mp h.1
        have : lookup L k = none := by
          rw [lookup_eq_none]
          intro x hx
          exact (ltB_ne (ltB_of_lt_of_le hak (hn.1 x hx))).symm
        rw [this]
        exact ih h.2 (fun x hx => hk x (by simp [hx]))

theorem length_dropLE_le (p : Bytes) (L : List KV) : (dropLE p L).length ≤ L.length :=
  (List.dropWhile_sublist _).length_le

theorem total_map_dropLE_le (p : Bytes) (Ls : List (List KV)) : total (Ls.map (dropLE p)) ≤ total Ls := by
  induction Ls with
  | nil => simp [total]
  | cons L Ls ih =>
    rw [List.map_cons, total_cons, total_cons]
    have := length_dropLE_le p L
    omega

theorem total_map_dropLE_lt {e : KV} {Ls : List (List KV)} (he : e ∈ heads Ls) :
    total (Ls.map (dropLE e.1)) < total Ls := by
  induction Ls with
  | nil => simp [heads_nil] at he
  | cons L Ls ih =>
    rw [List.map_cons, total_cons, total_cons]
    cases L with
    | nil =>
      rw [heads_cons_nil] at he
      have := ih he
      simp [dropLE]
      exact this
    | cons a L =>
      rw [heads_cons_cons] at he
      rcases List.mem_cons.mp he with rfl | hm
      · have h1 : dropLE e.1 (e :: L) = dropLE e.1 L := by
          unfold dropLE
          rw [List.dropWhile_cons]
          simp [ltB_irrefl]
        rw [h1]
        have h2 := length_dropLE_le e.1 L
        have h3 := total_map_dropLE_le e.1 Ls
        simp only [List.length_cons]
        omega
      · have := ih hm
        have h2 := length_dropLE_le e.1 (a :: L)
        omega

theorem lookup_dropLE {p k : Bytes} (h : ltB p k = true) (L : List KV) : lookup (dropLE p L) k = lookup L k := by
  induction L with
  | nil => rfl
  | cons a L ih =>
    unfold dropLE at ih ⊢
    rw [List.dropWhile_cons]
    by_cases c : ltB p a.1 = true
    · simp [c]
    · have c' : ltB p a.1 = false := by simpa using c
      simp only [c', Bool.not_false, if_true]
      rw [ih, lookup_cons]
      have : a.1 ≠ k := by
        intro e
        rw [e] at c'
        rw [h] at c'
        contradiction
      rw [if_neg this]

theorem newest_map_congr {Ls : List (List KV)} (f : List KV → List KV) (k : Bytes)
    (h : ∀ L ∈ Ls, lookup (f L) k = lookup L k) : newest (Ls.map f) k = newest Ls k := by
  induction Ls with
  | nil => rfl
  | cons L Ls ih =>
    rw [List.map_cons, newest_cons, newest_cons, h L (by simp), ih (fun L' hL' => h L' (by simp [hL']))]

theorem lookup_mergeRun {Ls : List (List KV)} (h : SourcesOK Ls) {n : Nat} (hn : total Ls < n) (k : Bytes) :
    lookup (mergeRun n Ls) k = newest Ls k := by
  induction n generalizing Ls with
  | zero => omega
  | succ n ih =>
    rw [mergeRun_succ]
    cases hp : pickMin (heads Ls) with
    | none =>
      simp only [lookup_nil]
      have hh := pickMin_eq_none hp
      rw [newest_eq_lookup_heads h k (by rw [hh]; simp), hh, lookup_nil]
    | some e =>
      simp only
      have ⟨he1, he2, he3⟩ := pickMin_spec hp
      have hok : SourcesOK (Ls.map (dropLE e.1)) := sourcesOK_map h _ (fun L hL => nondec_dropWhile hL _)
      have htot : total (Ls.map (dropLE e.1)) < n := by
        have := total_map_dropLE_lt he1
        omega
      have hrest := mergeRun_gt e.1 n _ (heads_dropLE e.1 Ls)
      rw [lookup_cons]
      rcases ltB_tri e.1 k with t | t | t
      · rw [if_neg (ltB_ne t), ih hok htot]
        exact newest_map_congr _ _ (fun L _ => lookup_dropLE t L)
      · rw [if_pos t]
        subst t
        rw [newest_eq_lookup_heads h e.1 he2, he3]
      · rw [if_neg (ltB_ne t).symm]
        have h1 : lookup (mergeRun n (Ls.map (dropLE e.1))) k = none := by
          rw [lookup_eq_none]
          intro x hx
          exact (ltB_ne (ltB_trans t (hrest x hx))).symm
        rw [h1, newest_eq_lookup_heads h k (fun x hx => ltB_asymm (ltB_of_lt_of_le t (he2 x hx)))]
        symm
        rw [lookup_eq_none]
        intro x hx
        exact (ltB_ne (ltB_of_lt_of_le t (he2 x hx))).symm

theorem mergeRun_eq_mergeSpec {Ls : List (List KV)} (h : SourcesOK Ls) {n : Nat} (hn : total Ls < n) :
    mergeRun n Ls = mergeSpec Ls := by
  apply asc_ext (mergeRun_asc n Ls) (mergeSpec_asc Ls)
  intro k
  rw [lookup_mergeRun h hn, lookup_mergeSpec]

/-! ### 5. seek -/

theorem filter_nondec {l : List KV} (h : Nondec l) (p : KV → Bool) : Nondec (l.filter p) :=
  List.Pairwise.sublist List.filter_sublist h

theorem filter_asc {l : List KV} (h : Asc l) (p : KV → Bool) : Asc (l.filter p) :=
  List.Pairwise.sublist List.filter_sublist h

theorem asc_nondec {l : List KV} (h : Asc l) : Nondec l :=
  List.Pairwise.imp (fun hab => ltB_asymm hab) h

theorem dropLT_eq_filter {l : List KV} (h : Nondec l) (t : Bytes) :
    dropLT t l = l.filter (fun e => !ltB e.1 t) := by
  induction l with
  | nil => rfl
  | cons a l ih =>
    have hn := nondec_cons.mp h
    unfold dropLT at ih ⊢
    rw [List.dropWhile_cons, List.filter_cons]
    by_cases c : ltB a.1 t = true
    · simp only [c, if_true, Bool.not_true, Bool.false_eq_true, if_false]
      exact ih hn.2
    · have c' : ltB a.1 t = false := by simpa using c
      simp only [c', Bool.false_eq_true, if_false, Bool.not_false, if_true]
      congr 1
      symm
      rw [List.filter_eq_self]
      intro x hx
      have : ltB x.1 t = false := leB_trans c' (hn.1 x hx)
      simp [this]

theorem lookup_filter_key (r : Bytes → Bool) (l : List KV) (k : Bytes) :
    lookup (l.filter (fun e => r e.1)) k = if r k = true then lookup l k else none := by
  induction l with
  | nil => simp [lookup_nil]
  | cons a l ih =>
    rw [List.filter_cons]
    by_cases c : r a.1 = true
    · rw [if_pos c, lookup_cons, lookup_cons, ih]
      by_cases e : a.1 = k
      · rw [if_pos e, if_pos e, ← e, if_pos c]
      · rw [if_neg e, if_neg e]
    · rw [if_neg c, ih, lookup_cons]
      by_cases e : a.1 = k
      · rw [← e, if_neg c, if_neg c]
      · rw [if_neg e]

theorem newest_filter_key (r : Bytes → Bool) (Ls : List (List KV)) (k : Bytes) :
    newest (Ls.map (fun L => L.filter (fun e => r e.1))) k = if r k = true then newest Ls k else none := by
  induction Ls with
  | nil => simp [newest_nil]
  | cons L Ls ih =>
    rw [List.map_cons, newest_cons, newest_cons, ih, lookup_filter_key]
    by_cases c : r k = true
    · simp only [if_pos c]
    · simp only [if_neg c]

theorem total_map_le (f : List KV → List KV) (hf : ∀ L, (f L).length ≤ L.length) (Ls : List (List KV)) :
    total (Ls.map f) ≤ total Ls := by
  induction Ls with
  | nil => simp [total]
  | cons L Ls ih =>
    rw [List.map_cons, total_cons, total_cons]
    have := hf L
    omega

theorem mergeRun_seek {Ls : List (List KV)} (h : SourcesOK Ls) {n : Nat} (hn : total Ls < n) (t : Bytes) :
    mergeRun n (Ls.map (dropLT t)) = (mergeSpec Ls).filter (fun e => !ltB e.1 t) := by
  apply asc_ext (mergeRun_asc n _) (filter_asc (mergeSpec_asc Ls) _)
  intro k
  have hok : SourcesOK (Ls.map (dropLT t)) := sourcesOK_map h _ (fun L hL => nondec_dropWhile hL _)
  have htot : total (Ls.map (dropLT t)) < n := by
    have := total_map_le (dropLT t) (fun L => (List.dropWhile_sublist _).length_le) Ls
    omega
  rw [lookup_mergeRun hok htot]
  have hmap : Ls.map (dropLT t) = Ls.map (fun L => L.filter (fun e => (fun k => !ltB k t) e.1)) :=
    List.map_congr_left (fun L hL => dropLT_eq_filter (h L hL) t)
  rw [hmap, newest_filter_key (fun k => !ltB k t), lookup_filter_key (fun k => !ltB k t), lookup_mergeSpec]

/-! ### 6. bounds -/

theorem takeWhile_eq_filter {α : Type} (p : α → Bool) (l : List α)
    (h : l.Pairwise (fun a b => p a = false → p b = false)) : l.takeWhile p = l.filter p := by
  induction l with
  | nil => rfl
  | cons a l ih =>
    rw [List.pairwise_cons] at h
    rw [List.takeWhile_cons, List.filter_cons]
    by_cases c : p a = true
    · rw [if_pos c, if_pos c, ih h.2]
    · rw [if_neg c, if_neg c]
      have c' : p a = false := by simpa using c
      symm
      rw [List.filter_eq_nil_iff]
      intro x hx
      rw [h.1 x hx c']
      simp

theorem takeWhile_inRange_none {l : List KV} (h : Asc l) (hi : Option Bytes) :
    l.takeWhile (fun e => inRange none hi e.1) = l.filter (fun e => inRange none hi e.1) := by
  apply takeWhile_eq_filter
  apply List.Pairwise.imp _ h
  intro a b hab
  cases hi with
  | none => simp [inRange]
  | some hb =>
    simp only [inRange, Bool.true_and]
    intro ha
    cases hbb : ltB b.1 hb with
    | false => rfl
    | true => rw [ltB_trans hab hbb] at ha; contradiction

theorem takeWhile_inRange_some {l : List KV} (h : Asc l) (lo : Bytes) (hi : Option Bytes) :
    (l.filter (fun e => !ltB e.1 lo)).takeWhile (fun e => inRange (some lo) hi e.1) =
      l.filter (fun e => inRange (some lo) hi e.1) := by
  have hp : (l.filter (fun e => !ltB e.1 lo)).Pairwise
      (fun a b => inRange (some lo) hi a.1 = false → inRange (some lo) hi b.1 = false) := by
    have hf := filter_asc h (fun e => !ltB e.1 lo)
    apply List.Pairwise.imp_of_mem _ hf
    intro a b ha hb hab
    have ha' : ltB a.1 lo = false := by simpa using (List.mem_filter.mp ha).2
    cases hi with
    | none => simp [inRange, ha']
    | some hb =>
      simp only [inRange, ha', Bool.not_false, Bool.true_and]
      intro hah
      cases hbb : ltB b.1 hb with
      | false => simp
      | true => rw [ltB_trans hab hbb] at hah; contradiction
  rw [takeWhile_eq_filter _ _ hp, List.filter_filter]
  congr 1
  funext e
  cases c : ltB e.1 lo <;> simp [inRange, c]

/-! ### 7. overlay of a transaction buffer -/

theorem mergeSpec_overlay {buf : List KV} {Ls : List (List KV)} (hb : Nondec buf) (h : SourcesOK Ls) (r : Bytes → Bool) :
    mergeSpec [buf.filter (fun e => r e.1), (mergeSpec Ls).filter (fun e => r e.1)] =
      (mergeSpec (buf :: Ls)).filter (fun e => r e.1) := by
  have _ := hb
  have _ := h
  apply asc_ext (mergeSpec_asc _) (filter_asc (mergeSpec_asc _) _)
  intro k
  rw [lookup_mergeSpec, lookup_filter_key, lookup_mergeSpec, newest_cons, newest_cons, newest_cons, newest_nil,
    lookup_filter_key, lookup_filter_key, lookup_mergeSpec]
  by_cases c : r k = true
  · simp only [if_pos c]
    cases lookup buf k with
    | some e => rfl
    | none =>
      simp only
      cases newest Ls k <;> rfl
  · simp only [if_neg c]

/-! ### 8. seek-to-last -/

theorem pickMax_eq_none {l : List KV} (h : pickMax l = none) : l = [] := by
  cases l with
  | nil => rfl
  | cons a l =>
    unfold pickMax at h
    cases hp : pickMax l with
    | none => rw [hp] at h; simp at h
    | some b =>
      rw [hp] at h
      by_cases c : ltB a.1 b.1 = true
      · simp [c] at h
      · simp [c] at h

/-- `pickMax` returns the first element carrying the greatest key -/
theorem pickMax_spec {l : List KV} {e : KV} (h : pickMax l = some e) :
    e ∈ l ∧ (∀ x ∈ l, ltB e.1 x.1 = false) ∧ lookup l e.1 = some e := by
  induction l generalizing e with
  | nil => simp [pickMax] at h
  | cons a l ih =>
    unfold pickMax at h
    cases hp : pickMax l with
    | none =>
      rw [hp] at h
      simp only [Option.some.injEq] at h
      subst h
      have := pickMax_eq_none hp
      subst this
      refine ⟨by simp, ?_, ?_⟩
      · intro x hx
        simp only [List.mem_singleton] at hx
        subst hx
        exact ltB_irrefl _
      · rw [lookup_cons]; simp
    | some b =>
      rw [hp] at h
      have ⟨hb1, hb2, hb3⟩ := ih hp
      by_cases c : ltB a.1 b.1 = true
      · simp only [c, if_true, Option.some.injEq] at h
        subst h
        refine ⟨by simp [hb1], ?_, ?_⟩
        · intro x hx
          rcases List.mem_cons.mp hx with rfl | hm
          · exact ltB_asymm c
          · exact hb2 x hm
        · rw [lookup_cons, if_neg (ltB_ne c)]
          exact hb3
      · have c' : ltB a.1 b.1 = false := by simpa using c
        simp only [c'] at h
        simp only [Bool.false_eq_true, if_false, Option.some.injEq] at h
        subst h
        refine ⟨by simp, ?_, ?_⟩
        · intro x hx
          rcases List.mem_cons.mp hx with rfl | hm
          · exact ltB_irrefl _
          · exact leB_trans (hb2 x hm) c'
        · rw [lookup_cons]; simp

theorem find?_congr_mem {α : Type} (p q : α → Bool) (l : List α) (h : ∀ x ∈ l, p x = q x) :
    l.find? p = l.find? q := by
  induction l with
  | nil => rfl
  | cons a l ih =>
    rw [List.find?_cons, List.find?_cons, h a (by simp), ih (fun x hx => h x (by simp [hx]))]

theorem lastOf_nil : lastOf [] = none := rfl

theorem nondec_getLast {es : List KV} (h : Nondec es) {l : KV} (hl : es.getLast? = some l) :
    ∀ x ∈ es, ltB l.1 x.1 = false := by
  rcases List.getLast?_eq_some_iff.mp hl with ⟨ys, rfl⟩
  unfold Nondec at h
  rw [List.pairwise_append] at h
  intro x hx
  rcases List.mem_append.mp hx with hm | hm
  · exact h.2.2 x hm l (by simp)
  · simp only [List.mem_singleton] at hm
    subst hm
    exact ltB_irrefl _

theorem lastOf_eq_none {es : List KV} (h : lastOf es = none) : es = [] := by
  cases hg : es.getLast? with
  | none => simpa using hg
  | some l =>
    unfold lastOf at h
    rw [hg] at h
    simp only [Option.bind_some] at h
    rw [List.find?_eq_none] at h
    have hm : l ∈ es := List.mem_of_getLast? hg
    have := h l hm
    simp [ltB_irrefl] at this

theorem lastOf_spec {es : List KV} (hn : Nondec es) {m : KV} (h : lastOf es = some m) :
    m ∈ es ∧ (∀ x ∈ es, ltB m.1 x.1 = false) ∧ lookup es m.1 = some m := by
  cases hg : es.getLast? with
  | none =>
    have : es = [] := by simpa using hg
    subst this
    simp [lastOf_nil] at h
  | some l =>
    unfold lastOf at h
    rw [hg] at h
    simp only [Option.bind_some] at h
    have hmax := nondec_getLast hn hg
    have hm : m ∈ es := List.mem_of_find?_eq_some h
    have h1 : ltB m.1 l.1 = false := by
      have := List.find?_some h
      simpa using this
    have h2 : m.1 = l.1 := ltB_total h1 (hmax m hm)
    refine ⟨hm, ?_, ?_⟩
    · rw [h2]; exact hmax
    · unfold lookup
      rw [← h, h2]
      apply find?_congr_mem
      intro x hx
      have hx' := hmax x hx
      by_cases c : x.1 = l.1
      · simp [c, ltB_irrefl]
      · have : ltB x.1 l.1 = true := by
          rcases ltB_tri x.1 l.1 with t | t | t
          · exact t
          · exact absurd t c
          · rw [hx'] at t; contradiction
        simp [c, this]

/-- sources whose last keys are all ≤ k: the newest entry of k is the first last-entry carrying k -/
theorem newest_eq_lookup_lasts {Ls : List (List KV)} (h : SourcesOK Ls) (k : Bytes)
    (hk : ∀ x ∈ Ls.filterMap lastOf, ltB k x.1 = false) : newest Ls k = lookup (Ls.filterMap lastOf) k := by
  induction Ls with
  | nil => rfl
  | cons L Ls ih =>
    rw [sourcesOK_cons] at h
    rw [newest_cons]
    rw [List.filterMap_cons] at hk ⊢
    cases hl : lastOf L with
    | none =>
      rw [hl] at hk
      simp only at hk ⊢
      have := lastOf_eq_none hl
      subst this
      rw [lookup_nil]
      exact ih h.2 hk
    | some m =>
      rw [hl] at hk
      simp only at hk ⊢
      have ⟨hm1, hm2, hm3⟩ := lastOf_spec h.1 hl
      rw [lookup_cons]
      by_cases c : m.1 = k
      · rw [if_pos c, ← c, hm3]
      · rw [if_neg c]
        have hmk : ltB m.1 k = true := by
          rcases ltB_tri m.1 k with t | t | t
          · exact t
          · exact absurd t c
          · rw [hk m (by simp)] at t; contradiction
        have : lookup L k = none := by
          rw [lookup_eq_none]
          intro x hx
          exact ltB_ne (ltB_of_le_of_lt (hm2 x hx) hmk)
        rw [this]
        exact ih h.2 (fun x hx => hk x (by simp [hx]))

theorem getLast?_of_max {l : List KV} (h : Asc l) {e : KV} (he : e ∈ l) (hmax : ∀ x ∈ l, ltB e.1 x.1 = false) :
    l.getLast? = some e := by
  induction l with
  | nil => simp at he
  | cons a l ih =>
    rw [asc_cons] at h
    cases l with
    | nil =>
      simp only [List.mem_singleton] at he
      subst he
      rfl
    | cons b l =>
      rw [List.getLast?_cons_cons]
      have hne : e ≠ a := by
        intro ea
        subst ea
        have h1 := h.1 b (by simp)
        rw [hmax b (by simp)] at h1
        contradiction
      have he' : e ∈ b :: l := by
        rcases List.mem_cons.mp he with t | t
        · exact absurd t hne
        · exact t
      exact ih h.2 he' (fun x hx => hmax x (List.mem_cons_of_mem _ hx))

theorem pickMax_lastOf {Ls : List (List KV)} (h : SourcesOK Ls) :
    pickMax (Ls.filterMap lastOf) = (mergeSpec Ls).getLast? := by
  -- every entry of the merged view lies in a source, whose last entry is a candidate
  have hcand : ∀ x ∈ mergeSpec Ls, ∃ m ∈ Ls.filterMap lastOf, ltB m.1 x.1 = false := by
    intro x hx
    have h1 := (mem_iff_lookup (mergeSpec_asc Ls) x).mp hx
    rw [lookup_mergeSpec] at h1
    rcases newest_mem h1 with ⟨s, hs, hxs⟩
    cases hl : lastOf s with
    | none =>
      have := lastOf_eq_none hl
      subst this
      simp at hxs
    | some m =>
      have ⟨_, hm2, _⟩ := lastOf_spec (h s hs) hl
      exact ⟨m, List.mem_filterMap.mpr ⟨s, hs, hl⟩, hm2 x hxs⟩
  cases hp : pickMax (Ls.filterMap lastOf) with
  | none =>
    have hnil := pickMax_eq_none hp
    cases hm : mergeSpec Ls with
    | nil => rfl
    | cons x rest =>
      rcases hcand x (by rw [hm]; simp) with ⟨m, hm', _⟩
      rw [hnil] at hm'
      simp at hm'
  | some e =>
    have ⟨he1, he2, he3⟩ := pickMax_spec hp
    symm
    apply getLast?_of_max (mergeSpec_asc Ls)
    · rw [mem_iff_lookup (mergeSpec_asc Ls), lookup_mergeSpec, newest_eq_lookup_lasts h e.1 he2]
      exact he3
    · intro x hx
      rcases hcand x hx with ⟨m, hm1, hm2⟩
      exact leB_trans hm2 (he2 m hm1)

end Kevo.Proofs.Merge
