/-
  Kevo.Proofs.TxLock — serializability of the lock protocol (C04): invariants over all schedules.
-/
import Kevo.Model.TxLock
set_option linter.unusedSimpArgs false
namespace Kevo.Proofs.TxLock
open Kevo Kevo.Spec Kevo.Conc Kevo.TxLock

/-! ### the sequential specification -/

theorem txStep_fin (r : TxRun) (a : Action) (h : r.fin = true) : txStep r a = r := by
  simp [txStep, h]

theorem fold_fin (r : TxRun) (ops : List Action) (h : r.fin = true) : ops.foldl txStep r = r := by
  induction ops with
  | nil => rfl
  | cons a ops ih => simp [List.foldl, txStep_fin r a h, ih]

theorem txStep_mode (r : TxRun) (a : Action) : (txStep r a).mode = r.mode := by
  unfold txStep
  split
  · rfl
  · cases a <;> simp <;> split <;> rfl

theorem fold_mode (r : TxRun) (ops : List Action) : (ops.foldl txStep r).mode = r.mode := by
  induction ops generalizing r with
  | nil => rfl
  | cons a ops ih => simp [List.foldl, ih, txStep_mode]

theorem txStep_fin_eq (r : TxRun) (a : Action) : (txStep r a).fin = (r.fin || a.isFinish) := by
  unfold txStep
  split
  · next h => simp [h]
  · next h =>
    cases a <;> simp [Action.isFinish, h] <;> split <;> simp [h]

theorem fold_fin_eq (r : TxRun) (ops : List Action) :
    (ops.foldl txStep r).fin = (r.fin || ops.any Action.isFinish) := by
  induction ops generalizing r with
  | nil => simp
  | cons a ops ih => simp [List.foldl, ih, txStep_fin_eq, Bool.or_assoc]

/-- a call that does not finish the transaction leaves the database alone. -/
theorem txStep_db (r : TxRun) (a : Action) (h : (txStep r a).fin = false) : (txStep r a).db = r.db := by
  unfold txStep at h ⊢
  split
  · rfl
  · next hf =>
    cases a <;> simp_all <;> (cases hm : r.mode <;> simp_all)

theorem fold_db_unfinished (r : TxRun) (ops : List Action) (h : (ops.foldl txStep r).fin = false) :
    (ops.foldl txStep r).db = r.db := by
  induction ops generalizing r with
  | nil => rfl
  | cons a ops ih =>
    simp only [List.foldl] at h ⊢
    have h1 : (txStep r a).fin = false := by
      rw [fold_fin_eq] at h
      simp at h
      simp [h.1]
    rw [ih _ h, txStep_db r a h1]

/-- a read-only program never changes the database. -/
theorem txStep_db_ro (r : TxRun) (a : Action) (h : r.mode = .ro) : (txStep r a).db = r.db := by
  unfold txStep
  split
  · rfl
  · cases a <;> simp [h]

theorem fold_db_ro (r : TxRun) (ops : List Action) (h : r.mode = .ro) : (ops.foldl txStep r).db = r.db := by
  induction ops generalizing r with
  | nil => rfl
  | cons a ops ih =>
    simp only [List.foldl]
    rw [ih _ (by rw [txStep_mode]; exact h), txStep_db_ro r a h]

theorem fold_snoc (r : TxRun) (ops : List Action) (a : Action) :
    (ops ++ [a]).foldl txStep r = txStep (ops.foldl txStep r) a := by
  simp [List.foldl_append]

/-- calls after the first commit/rollback do not change what the program does. -/
theorem runTx_snoc_finished (db : KVMap) (m : Mode) (ops : List Action) (a : Action)
    (h : ops.any Action.isFinish = true) :
    runTx db (.begin m :: ops ++ [a]) = runTx db (.begin m :: ops) := by
  have hf : (ops.foldl txStep (startRun m db)).fin = true := by rw [fold_fin_eq]; simp [h]
  simp only [runTx, List.cons_append, fold_snoc, txStep_fin _ _ hf]

/-- a program that has not finished is neutral on every database. -/
theorem runTx_unfinished (db : KVMap) (m : Mode) (ops : List Action) (h : ops.any Action.isFinish = false) :
    (runTx db (.begin m :: ops)).1 = db := by
  simp only [runTx]
  apply fold_db_unfinished
  rw [fold_fin_eq]; simp [startRun, h]

theorem runTx_ro (db : KVMap) (ops : List Action) : (runTx db (.begin .ro :: ops)).1 = db := by
  simp only [runTx]
  exact fold_db_ro _ _ rfl

/-! ### "the serial run over `l` from `db` ends in `dbf` and reproduces the recorded reads `rd`" -/

def SerOK (P : Tid → List Action) (rd : Tid → List Read) : KVMap → List Tid → KVMap → Prop
  | db, [], dbf => db = dbf
  | db, t :: ts, dbf => (runTx db (P t)).2 = rd t ∧ SerOK P rd (runTx db (P t)).1 ts dbf

theorem serOK_iff (P : Tid → List Action) (rd : Tid → List Read) (db : KVMap) (l : List Tid) (dbf : KVMap) :
    SerOK P rd db l dbf ↔ serialFrom P db l = (dbf, l.map fun t => (t, rd t)) := by
  induction l generalizing db with
  | nil => simp [SerOK, serialFrom]
  | cons t ts ih =>
    simp only [SerOK, serialFrom, List.map_cons, ih]
    constructor
    · rintro ⟨h1, h2⟩
      rw [h2, h1]
    · intro h
      have h1 := congrArg Prod.fst h
      have h2 := congrArg Prod.snd h
      simp only [List.cons.injEq, Prod.mk.injEq, true_and] at h1 h2
      refine ⟨h2.1, ?_⟩
      exact Prod.ext h1 h2.2

theorem serOK_append (P : Tid → List Action) (rd : Tid → List Read) (db : KVMap) (l1 l2 : List Tid) (dbf : KVMap) :
    SerOK P rd db (l1 ++ l2) dbf ↔ ∃ d, SerOK P rd db l1 d ∧ SerOK P rd d l2 dbf := by
  induction l1 generalizing db with
  | nil => simp [SerOK]
  | cons t ts ih =>
    simp only [List.cons_append, SerOK, ih]
    constructor
    · rintro ⟨h1, d, h2, h3⟩; exact ⟨d, ⟨h1, h2⟩, h3⟩
    · rintro ⟨d, ⟨h1, h2⟩, h3⟩; exact ⟨h1, d, h2, h3⟩

theorem serOK_congr (P P' : Tid → List Action) (rd rd' : Tid → List Read) (db : KVMap) (l : List Tid) (dbf : KVMap)
    (h : ∀ u ∈ l, P u = P' u ∧ rd u = rd' u) : SerOK P rd db l dbf → SerOK P' rd' db l dbf := by
  induction l generalizing db with
  | nil => simp [SerOK]
  | cons t ts ih =>
    simp only [SerOK]
    rintro ⟨h1, h2⟩
    have ht := h t (by simp)
    rw [← ht.1, ← ht.2]
    exact ⟨h1, ih _ (fun u hu => h u (by simp [hu])) h2⟩

theorem serOK_neutral (P : Tid → List Action) (rd : Tid → List Read) (db : KVMap) (l : List Tid) (dbf : KVMap)
    (h : ∀ u ∈ l, ∀ d, (runTx d (P u)).1 = d) : SerOK P rd db l dbf → dbf = db := by
  induction l generalizing db with
  | nil => simp [SerOK]; intro e; exact e.symm
  | cons t ts ih =>
    simp only [SerOK]
    rintro ⟨_, h2⟩
    have := ih _ (fun u hu => h u (by simp [hu])) h2
    rw [this, h t (by simp)]

/-- dropping transactions that are neutral on every database changes neither the final database nor the others' reads. -/
theorem serOK_filter (P : Tid → List Action) (rd : Tid → List Read) (keep : Tid → Bool) (db : KVMap) (l : List Tid)
    (dbf : KVMap) (h : ∀ u ∈ l, keep u = false → ∀ d, (runTx d (P u)).1 = d) :
    SerOK P rd db l dbf → SerOK P rd db (l.filter keep) dbf := by
  induction l generalizing db with
  | nil => simp [SerOK]
  | cons t ts ih =>
    simp only [SerOK]
    rintro ⟨h1, h2⟩
    have ih' := ih (runTx db (P t)).1 (fun u hu => h u (by simp [hu])) h2
    cases hk : keep t with
    | true => simp only [List.filter, hk, SerOK]; exact ⟨h1, ih'⟩
    | false =>
      simp only [List.filter, hk]
      rw [h t (by simp) hk db] at ih'
      exact ih'

/-! ### the lock discipline (all schedules, raw writes included) -/

@[simp] theorem setFn_same {β : Type} (f : Tid → β) (t : Tid) (v : β) : setFn f t v t = v := by simp [setFn]
theorem setFn_other {β : Type} (f : Tid → β) (t u : Tid) (v : β) (h : u ≠ t) : setFn f t v u = f u := by simp [setFn, h]

structure LockInv (s : State) : Prop where
  wExcl : ∀ t, s.lock.writer = some t → s.lock.readers = []
  rw_iff : ∀ t, ((s.tx t).phase = .active ∧ (s.tx t).mode = .rw) ↔ s.lock.writer = some t
  ro_iff : ∀ t, ((s.tx t).phase = .active ∧ (s.tx t).mode = .ro) ↔ t ∈ s.lock.readers
  rdNodup : s.lock.readers.Nodup
  acqMem : ∀ t, t ∈ s.acq ↔ (s.tx t).phase ≠ .idle
  acqNodup : s.acq.Nodup
  finMem : ∀ t, t ∈ s.fin ↔ (s.tx t).phase = .done
  finNodup : s.fin.Nodup
  order : ∀ pre t post, s.acq = pre ++ t :: post → (s.tx t).phase = .active →
            (∀ u ∈ post, (s.tx u).mode = .ro) ∧ ((s.tx t).mode = .rw → post = [])
  acqLt : ∀ t ∈ s.acq, s.acqIdx t < s.clock
  finLt : ∀ t, (s.tx t).phase = .done → s.acqIdx t < s.finIdx t ∧ s.finIdx t < s.clock
  sorted : s.acq.Pairwise (fun a b => s.acqIdx a < s.acqIdx b)

theorem lockInv_init : LockInv sys.init := by
  constructor <;> simp [sys]

/-- steps that touch neither the lock nor phases/modes nor the ghost order keep the discipline. -/
theorem LockInv.frame {s s' : State} (h : LockInv s) (hl : s'.lock = s.lock) (ha : s'.acq = s.acq)
    (hf : s'.fin = s.fin) (hai : s'.acqIdx = s.acqIdx) (hfi : s'.finIdx = s.finIdx)
    (hp : ∀ t, (s'.tx t).phase = (s.tx t).phase) (hm : ∀ t, (s'.tx t).mode = (s.tx t).mode)
    (hc : s.clock ≤ s'.clock) : LockInv s' := by
  constructor
  · simpa [hl] using h.wExcl
  · simpa [hl, hp, hm] using h.rw_iff
  · simpa [hl, hp, hm] using h.ro_iff
  · simpa [hl] using h.rdNodup
  · simpa [ha, hp] using h.acqMem
  · simpa [ha] using h.acqNodup
  · simpa [hf, hp] using h.finMem
  · simpa [hf] using h.finNodup
  · simpa [ha, hp, hm] using h.order
  · intro t ht; rw [ha] at ht; rw [hai]; exact Nat.lt_of_lt_of_le (h.acqLt t ht) hc
  · intro t ht; rw [hp] at ht; rw [hai, hfi]
    exact ⟨(h.finLt t ht).1, Nat.lt_of_lt_of_le (h.finLt t ht).2 hc⟩
  · simpa [ha, hai] using h.sorted

theorem snoc_eq_split {β : Type} (l pre post : List β) (t u : β) (h : l ++ [t] = pre ++ u :: post) :
    (post = [] ∧ u = t ∧ pre = l) ∨ ∃ post0, post = post0 ++ [t] ∧ l = pre ++ u :: post0 := by
  induction pre generalizing l with
  | nil =>
    cases l with
    | nil => simp at h; left; exact ⟨h.2, h.1.symm, rfl⟩
    | cons a l => simp at h; right; exact ⟨l, h.2.symm, by simp [h.1]⟩
  | cons a pre ih =>
    cases l with
    | nil => simp at h
    | cons b l =>
      simp at h
      rcases ih l h.2 with ⟨h1, h2, h3⟩ | ⟨p0, h1, h2⟩
      · left; exact ⟨h1, h2, by rw [h.1, h3]⟩
      · right; exact ⟨p0, h1, by rw [h.1, h2]; rfl⟩

def beginState (s : State) (t : Tid) (m : Mode) : State :=
  tick { s with lock := acquire s.lock t m,
                tx := setFn s.tx t { mode := m, buf := [], phase := .active, reads := [], closedCalls := 0 },
                acq := s.acq ++ [t], acqIdx := setFn s.acqIdx t s.clock }

theorem lockInv_begin {s : State} (h : LockInv s) (t : Tid) (m : Mode) (hid : (s.tx t).phase = .idle)
    (hc : compatible s.lock m = true) : LockInv (beginState s t m) := by
  have htacq : t ∉ s.acq := by rw [h.acqMem]; simp [hid]
  have htrd : t ∉ s.lock.readers := by rw [← h.ro_iff]; simp [hid]
  have hw : s.lock.writer = none := by cases m <;> simp [compatible] at hc <;> simp [hc]
  have hrd : m = .rw → s.lock.readers = [] := by intro e; subst e; simp [compatible] at hc; exact hc.2
  have hnoRW : ∀ u, ¬ ((s.tx u).phase = .active ∧ (s.tx u).mode = .rw) := by
    intro u hu; rw [h.rw_iff, hw] at hu; cases hu
  have htx : ∀ u, u ≠ t → (beginState s t m).tx u = s.tx u := by
    intro u hu; simp [beginState, tick, setFn, hu]
  have htt : (beginState s t m).tx t = { mode := m, buf := [], phase := .active, reads := [], closedCalls := 0 } := by
    simp [beginState, tick]
  constructor
  · intro u hu
    cases m with
    | ro => simp [beginState, tick, acquire, hw] at hu
    | rw => simp [beginState, tick, acquire]; exact hrd rfl
  · intro u
    by_cases hu : u = t
    · subst hu; rw [htt]; cases m <;> simp [beginState, tick, acquire, hw]
    · rw [htx u hu]
      have := hnoRW u
      cases m with
      | ro => simp [beginState, tick, acquire, hw]; simpa using this
      | rw =>
        simp only [beginState, tick, acquire, Option.some.injEq]
        constructor
        · intro h'; exact absurd h' this
        · intro h'; exact absurd h'.symm hu
  · intro u
    by_cases hu : u = t
    · subst hu; rw [htt]; cases m <;> simp [beginState, tick, acquire, htrd]
    · rw [htx u hu, h.ro_iff]
      cases m <;> simp [beginState, tick, acquire, hu]
  · cases m
    · simp [beginState, tick, acquire, htrd, h.rdNodup]
    · simpa [beginState, tick, acquire] using h.rdNodup
  · intro u
    by_cases hu : u = t
    · subst hu; rw [htt]; simp [beginState, tick]
    · rw [htx u hu, ← h.acqMem]; simp [beginState, tick, hu]
  · simp only [beginState, tick]
    rw [List.nodup_append]
    refine ⟨h.acqNodup, by simp, ?_⟩
    intro a ha b hb; simp at hb; subst hb; intro e; subst e; exact htacq ha
  · intro u
    by_cases hu : u = t
    · subst hu; rw [htt]
      have : u ∉ s.fin := by rw [h.finMem]; simp [hid]
      simp [beginState, tick, this]
    · rw [htx u hu, ← h.finMem]; simp [beginState, tick]
  · simpa [beginState, tick] using h.finNodup
  · intro pre u post hsplit hact
    simp only [beginState, tick] at hsplit
    rcases snoc_eq_split _ _ _ _ _ hsplit with ⟨h1, _, _⟩ | ⟨post0, h1, h2⟩
    · subst h1; simp
    · have hut : u ≠ t := by intro e; subst e; apply htacq; rw [h2]; simp
      rw [htx u hut] at hact ⊢
      have ho := h.order pre u post0 h2 hact
      have hmode : (s.tx u).mode = .ro := by
        cases hm : (s.tx u).mode with
        | ro => rfl
        | rw => exact absurd ⟨hact, hm⟩ (hnoRW u)
      have hmro : m = .ro := by
        cases m with
        | ro => rfl
        | rw =>
          have : u ∈ s.lock.readers := (h.ro_iff u).1 ⟨hact, hmode⟩
          rw [hrd rfl] at this; cases this
      refine ⟨?_, by rw [hmode]; intro e; cases e⟩
      intro v hv
      rw [h1] at hv
      simp at hv
      rcases hv with hv | hv
      · have : v ≠ t := by intro e; subst e; apply htacq; rw [h2]; simp [hv]
        rw [htx v this]; exact ho.1 v hv
      · subst hv; rw [htt]; exact hmro
  · intro u hu
    simp only [beginState, tick] at hu ⊢
    simp at hu
    rcases hu with hu | hu
    · have : u ≠ t := by intro e; subst e; exact htacq hu
      rw [setFn_other _ _ _ _ this]; exact Nat.lt_succ_of_lt (h.acqLt u hu)
    · subst hu; simp
  · intro u hu
    have hut : u ≠ t := by intro e; subst e; rw [htt] at hu; cases hu
    rw [htx u hut] at hu
    simp only [beginState, tick, setFn_other _ _ _ _ hut]
    exact ⟨(h.finLt u hu).1, Nat.lt_succ_of_lt (h.finLt u hu).2⟩
  · simp only [beginState, tick]
    rw [List.pairwise_append]
    refine ⟨?_, by simp, ?_⟩
    · refine List.Pairwise.imp_of_mem ?_ h.sorted
      intro a b ha hb hab
      have h1 : a ≠ t := by intro e; subst e; exact htacq ha
      have h2 : b ≠ t := by intro e; subst e; exact htacq hb
      rwa [setFn_other _ _ _ _ h1, setFn_other _ _ _ _ h2]
    · intro a ha b hb
      simp at hb; subst hb
      have h1 : a ≠ b := by intro e; subst e; exact htacq ha
      rw [setFn_other _ _ _ _ h1, setFn_same]
      exact h.acqLt a ha

theorem lockInv_finish {s : State} (h : LockInv s) (t : Tid) (db' : KVMap) (buf' : Buf)
    (hact : (s.tx t).phase = .active) : LockInv (tick (finish s t (s.tx t) db' buf')) := by
  have htx : ∀ u, u ≠ t → (tick (finish s t (s.tx t) db' buf')).tx u = s.tx u := by
    intro u hu; simp [finish, tick, setFn, hu]
  have htp : ((tick (finish s t (s.tx t) db' buf')).tx t).phase = .done := by simp [finish, tick]
  have htm : ((tick (finish s t (s.tx t) db' buf')).tx t).mode = (s.tx t).mode := by simp [finish, tick]
  have hlock : (tick (finish s t (s.tx t) db' buf')).lock = release s.lock t (s.tx t).mode := by simp [finish, tick]
  have hacq : (tick (finish s t (s.tx t) db' buf')).acq = s.acq := by simp [finish, tick]
  have htacq : t ∈ s.acq := by rw [h.acqMem]; simp [hact]
  have htfin : t ∉ s.fin := by rw [h.finMem]; simp [hact]
  have hmodes : ∀ u, ((tick (finish s t (s.tx t) db' buf')).tx u).mode = (s.tx u).mode := by
    intro u; by_cases hu : u = t
    · subst hu; exact htm
    · rw [htx u hu]
  constructor
  · intro u hu
    rw [hlock] at hu ⊢
    cases hm : (s.tx t).mode with
    | ro => rw [hm] at hu; simp [release] at hu ⊢; simp [h.wExcl u hu]
    | rw => rw [hm] at hu; simp [release] at hu
  · intro u
    rw [hlock]
    by_cases hu : u = t
    · subst hu; rw [htp]
      cases hm : (s.tx u).mode with
      | ro =>
        simp [release]
        intro hw
        have := (h.rw_iff u).2 hw
        rw [hm] at this; cases this.2
      | rw => simp [release]
    · rw [htx u hu, h.rw_iff]
      cases hm : (s.tx t).mode with
      | ro => simp [release]
      | rw =>
        simp [release]
        have : s.lock.writer = some t := (h.rw_iff t).1 ⟨hact, hm⟩
        rw [this]; simp; exact fun e => hu e.symm
  · intro u
    rw [hlock]
    by_cases hu : u = t
    · subst hu; rw [htp]
      cases hm : (s.tx u).mode with
      | ro => simp [release]; rw [h.rdNodup.mem_erase_iff]; simp
      | rw =>
        simp [release]
        rw [← h.ro_iff, hm]; simp
    · rw [htx u hu, h.ro_iff]
      cases hm : (s.tx t).mode with
      | ro => simp [release]; rw [h.rdNodup.mem_erase_iff]; simp [hu]
      | rw => simp [release]
  · rw [hlock]
    cases hm : (s.tx t).mode with
    | ro => simp [release]; exact h.rdNodup.erase t
    | rw => simp [release]; exact h.rdNodup
  · intro u
    rw [hacq, h.acqMem]
    by_cases hu : u = t
    · subst hu; rw [htp, hact]; simp
    · rw [htx u hu]
  · rw [hacq]; exact h.acqNodup
  · intro u
    by_cases hu : u = t
    · subst hu; rw [htp]; simp [finish, tick]
    · rw [htx u hu, ← h.finMem]; simp [finish, tick, hu]
  · simp only [finish, tick]
    rw [List.nodup_append]
    refine ⟨h.finNodup, by simp, ?_⟩
    intro a ha b hb; simp at hb; subst hb; intro e; subst e; exact htfin ha
  · intro pre u post hsplit hu
    rw [hacq] at hsplit
    have hut : u ≠ t := by intro e; subst e; rw [htp] at hu; cases hu
    rw [htx u hut] at hu
    have ho := h.order pre u post hsplit hu
    rw [hmodes u]
    refine ⟨?_, ho.2⟩
    intro v hv; rw [hmodes v]; exact ho.1 v hv
  · intro u hu
    rw [hacq] at hu
    simp only [finish, tick]
    exact Nat.lt_succ_of_lt (h.acqLt u hu)
  · intro u hu
    simp only [finish, tick]
    by_cases hut : u = t
    · subst hut; simp; exact h.acqLt u htacq
    · rw [htx u hut] at hu
      rw [setFn_other _ _ _ _ hut]
      exact ⟨(h.finLt u hu).1, Nat.lt_succ_of_lt (h.finLt u hu).2⟩
  · rw [hacq]; simpa [finish, tick] using h.sorted

/-- every reachable state obeys the lock discipline. -/
theorem lockInv_step {s s' : State} (t : Tid) (a : Action) (h : LockInv s) (hs : step s t a = some s') : LockInv s' := by
  have frame_tx : ∀ (x : Tx), x.phase = (s.tx t).phase → x.mode = (s.tx t).mode →
      LockInv (tick { s with tx := setFn s.tx t x }) := by
    intro x hp hm
    refine h.frame rfl rfl rfl rfl rfl ?_ ?_ (Nat.le_succ _)
    · intro u; by_cases hu : u = t
      · subst hu; simp [tick, hp]
      · simp [tick, setFn, hu]
    · intro u; by_cases hu : u = t
      · subst hu; simp [tick, hm]
      · simp [tick, setFn, hu]
  have frame_id : LockInv (tick s) := h.frame rfl rfl rfl rfl rfl (fun _ => rfl) (fun _ => rfl) (Nat.le_succ _)
  cases a with
  | rawPut k v => simp [step] at hs; subst hs; exact h.frame rfl rfl rfl rfl rfl (fun _ => rfl) (fun _ => rfl) (Nat.le_succ _)
  | rawDel k => simp [step] at hs; subst hs; exact h.frame rfl rfl rfl rfl rfl (fun _ => rfl) (fun _ => rfl) (Nat.le_succ _)
  | «begin» m =>
    simp only [step] at hs
    split at hs
    · next hc => simp at hs; subst hs; exact lockInv_begin h t m hc.1 hc.2
    · cases hs
  | get k =>
    simp only [step, txOp] at hs
    split at hs
    · cases hs
    · simp at hs; subst hs; exact frame_tx _ rfl rfl
    · simp at hs; subst hs; exact frame_tx _ rfl rfl
  | scan lo hi =>
    simp only [step, txOp] at hs
    split at hs
    · cases hs
    · simp at hs; subst hs; exact frame_tx _ rfl rfl
    · simp at hs; subst hs; exact frame_tx _ rfl rfl
  | put k v =>
    simp only [step, txOp] at hs
    split at hs
    · cases hs
    · simp at hs; subst hs; exact frame_tx _ rfl rfl
    · simp at hs; subst hs
      split
      · exact frame_tx _ rfl rfl
      · exact frame_id
  | del k =>
    simp only [step, txOp] at hs
    split at hs
    · cases hs
    · simp at hs; subst hs; exact frame_tx _ rfl rfl
    · simp at hs; subst hs
      split
      · exact frame_tx _ rfl rfl
      · exact frame_id
  | commit =>
    simp only [step, txOp] at hs
    split at hs
    · cases hs
    · simp at hs; subst hs; exact frame_tx _ rfl rfl
    · next hact =>
      simp at hs; subst hs
      split <;> exact lockInv_finish h t _ _ hact
  | rollback =>
    simp only [step, txOp] at hs
    split at hs
    · cases hs
    · simp at hs; subst hs; exact frame_tx _ rfl rfl
    · next hact => simp at hs; subst hs; exact lockInv_finish h t _ _ hact

theorem lockInv_reach (sched : Sched) (s : State) (h : reach sys sched = some s) : LockInv s :=
  reach_invariant sys LockInv lockInv_init (fun _ t a _ hi hs => lockInv_step t a hi hs) sched s h

/-! ### the serial-run invariant (schedules without raw writes) -/

theorem serOK_congr' (P P' : Tid → List Action) (rd rd' : Tid → List Read) (db : KVMap) (l : List Tid) (dbf : KVMap)
    (h : ∀ u ∈ l, (∀ d, runTx d (P u) = runTx d (P' u)) ∧ rd u = rd' u) : SerOK P rd db l dbf → SerOK P' rd' db l dbf := by
  induction l generalizing db with
  | nil => simp [SerOK]
  | cons t ts ih =>
    simp only [SerOK]
    rintro ⟨h1, h2⟩
    have ht := h t (by simp)
    rw [← ht.1, ← ht.2]
    exact ⟨h1, ih _ (fun u hu => h u (by simp [hu])) h2⟩

structure SerInv (sched : Sched) (s : State) : Prop where
  idle : ∀ t, (s.tx t).phase = .idle → progOf sched t = []
  act : ∀ t, (s.tx t).phase = .active → ∃ ops, progOf sched t = .begin (s.tx t).mode :: ops ∧
          ops.foldl txStep (startRun (s.tx t).mode s.db) = ⟨(s.tx t).mode, (s.tx t).buf, (s.tx t).reads, false, s.db⟩
  done : ∀ t, (s.tx t).phase = .done → ∃ ops, progOf sched t = .begin (s.tx t).mode :: ops ∧ ops.any Action.isFinish = true
  ser : SerOK (progOf sched) (readsOf s) emptyMap s.acq s.db

theorem serInv_init : SerInv [] sys.init := by
  constructor <;> simp [sys, progOf, SerOK]

/-- every transaction that holds or held the lock has a program `begin mode :: _`. -/
theorem SerInv.shape {sched : Sched} {s : State} (hI : SerInv sched s) (t : Tid) (h : (s.tx t).phase ≠ .idle) :
    ∃ ops, progOf sched t = .begin (s.tx t).mode :: ops := by
  cases hp : (s.tx t).phase with
  | idle => exact absurd hp h
  | active => obtain ⟨ops, h1, _⟩ := hI.act t hp; exact ⟨ops, h1⟩
  | done => obtain ⟨ops, h1, _⟩ := hI.done t hp; exact ⟨ops, h1⟩

theorem txStep_db_or (r : TxRun) (a : Action) : (txStep r a).db = r.db ∨ r.mode = .rw := by
  cases hm : r.mode with
  | ro => left; exact txStep_db_ro r a hm
  | rw => right; rfl

theorem serInv_closed {sched : Sched} {s s' : State} (hI : SerInv sched s) (t : Tid) (a : Action)
    (hdone : (s.tx t).phase = .done) (hdb : s'.db = s.db) (hacq : s'.acq = s.acq)
    (hph : ∀ u, (s'.tx u).phase = (s.tx u).phase) (hmo : ∀ u, (s'.tx u).mode = (s.tx u).mode)
    (hbu : ∀ u, (s'.tx u).buf = (s.tx u).buf) (hre : ∀ u, (s'.tx u).reads = (s.tx u).reads) :
    SerInv (sched ++ [(t, a)]) s' := by
  have hP : ∀ u, u ≠ t → progOf (sched ++ [(t, a)]) u = progOf sched u := by
    intro u hu; rw [progOf_snoc]; simp [hu]
  have hPt : progOf (sched ++ [(t, a)]) t = progOf sched t ++ [a] := by rw [progOf_snoc]; simp
  obtain ⟨ops, hops, hany⟩ := hI.done t hdone
  constructor
  · intro u hu
    rw [hph] at hu
    have : u ≠ t := by intro e; subst e; rw [hdone] at hu; cases hu
    rw [hP u this]; exact hI.idle u hu
  · intro u hu
    rw [hph] at hu
    have : u ≠ t := by intro e; subst e; rw [hdone] at hu; cases hu
    rw [hP u this, hmo, hbu, hre, hdb]; exact hI.act u hu
  · intro u hu
    rw [hph] at hu
    by_cases hut : u = t
    · subst hut
      refine ⟨ops ++ [a], ?_, by simp [hany]⟩
      rw [hPt, hops, hmo]; rfl
    · rw [hP u hut, hmo]; exact hI.done u hu
  · rw [hacq, hdb]
    refine serOK_congr' _ _ _ _ _ _ _ ?_ hI.ser
    intro u _
    refine ⟨?_, by simp [readsOf, hre]⟩
    intro d
    by_cases hut : u = t
    · subst hut; rw [hPt, hops]; exact (runTx_snoc_finished d _ ops a hany).symm
    · rw [hP u hut]

theorem serInv_op {sched : Sched} {s s' : State} (hI : SerInv sched s) (hL : LockInv s) (t : Tid) (a : Action)
    (hact : (s.tx t).phase = .active) (r' : TxRun)
    (hr : txStep ⟨(s.tx t).mode, (s.tx t).buf, (s.tx t).reads, false, s.db⟩ a = r')
    (hacq : s'.acq = s.acq) (hoth : ∀ u, u ≠ t → s'.tx u = s.tx u)
    (hmode : (s'.tx t).mode = (s.tx t).mode) (hreads : (s'.tx t).reads = r'.reads) (hdb : s'.db = r'.db)
    (hph : (s'.tx t).phase = if r'.fin then .done else .active)
    (hbuf : r'.fin = false → (s'.tx t).buf = r'.buf) :
    SerInv (sched ++ [(t, a)]) s' := by
  have hP : ∀ u, u ≠ t → progOf (sched ++ [(t, a)]) u = progOf sched u := by
    intro u hu; rw [progOf_snoc]; simp [hu]
  have hPt : progOf (sched ++ [(t, a)]) t = progOf sched t ++ [a] := by rw [progOf_snoc]; simp
  obtain ⟨ops, hops, hfold⟩ := hI.act t hact
  have hr'mode : r'.mode = (s.tx t).mode := by rw [← hr, txStep_mode]
  have hr'fin : r'.fin = a.isFinish := by rw [← hr, txStep_fin_eq]; simp
  have hanyf : ops.any Action.isFinish = false := by
    have := congrArg TxRun.fin hfold
    rw [fold_fin_eq] at this
    simpa [startRun] using this
  -- the database changes only when a read-write transaction commits, and then nobody else is active
  have hdbor : s'.db = s.db ∨ (s.tx t).mode = .rw := by
    rcases txStep_db_or ⟨(s.tx t).mode, (s.tx t).buf, (s.tx t).reads, false, s.db⟩ a with h | h
    · left; rw [hdb, ← hr, h]
    · right; exact h
  have hothers : ∀ u, u ≠ t → (s.tx u).phase = .active → s'.db = s.db := by
    intro u hut hu
    rcases hdbor with h | h
    · exact h
    · exfalso
      have hw : s.lock.writer = some t := (hL.rw_iff t).1 ⟨hact, h⟩
      cases hm : (s.tx u).mode with
      | rw =>
        have := (hL.rw_iff u).1 ⟨hu, hm⟩
        rw [hw] at this; simp at this; exact hut this.symm
      | ro =>
        have := (hL.ro_iff u).1 ⟨hu, hm⟩
        rw [hL.wExcl t hw] at this; cases this
  have hnewfold : (ops ++ [a]).foldl txStep (startRun (s.tx t).mode s.db) = r' := by
    rw [fold_snoc, hfold, hr]
  constructor
  · intro u hu
    have hut : u ≠ t := by
      intro e; subst e; rw [hph] at hu; split at hu <;> cases hu
    rw [hoth u hut] at hu
    rw [hP u hut]; exact hI.idle u hu
  · intro u hu
    by_cases hut : u = t
    · subst hut
      rw [hph] at hu
      have hfin : r'.fin = false := by
        cases hf : r'.fin with
        | false => rfl
        | true => rw [hf] at hu; simp at hu
      have hdbs : s'.db = s.db := by
        rw [hdb, ← hr]; apply txStep_db; rw [hr]; exact hfin
      refine ⟨ops ++ [a], ?_, ?_⟩
      · rw [hPt, hops, hmode]; rfl
      · rw [hmode, hdbs, hnewfold, hreads, hbuf hfin]
        cases r' with
        | mk m b rds f d =>
          simp only at hfin hr'mode hdbs hdb
          simp only [TxRun.mk.injEq, true_and]
          exact ⟨hr'mode, hfin, by rw [← hdb, hdbs]⟩
    · rw [hoth u hut] at hu ⊢
      rw [hP u hut, hothers u hut hu]; exact hI.act u hu
  · intro u hu
    by_cases hut : u = t
    · subst hut
      refine ⟨ops ++ [a], ?_, ?_⟩
      · rw [hPt, hops, hmode]; rfl
      · rw [hph] at hu
        have hfin : r'.fin = true := by
          cases hf : r'.fin with
          | true => rfl
          | false => rw [hf] at hu; simp at hu
        rw [hr'fin] at hfin
        simp [hfin]
    · rw [hoth u hut] at hu ⊢
      rw [hP u hut]; exact hI.done u hu
  · -- the serial run: split the acquisition order at t
    have htacq : t ∈ s.acq := by rw [hL.acqMem]; simp [hact]
    obtain ⟨pre, post, hsplit⟩ := List.append_of_mem htacq
    have hnd := hL.acqNodup
    rw [hsplit] at hnd
    have htpre : t ∉ pre := by
      intro hm
      rw [List.nodup_append] at hnd
      exact hnd.2.2 t hm t (by simp) rfl
    have htpost : t ∉ post := by
      rw [List.nodup_append] at hnd
      have := hnd.2.1
      simp at this
      exact this.1
    have hser := hI.ser
    rw [hsplit, serOK_append] at hser
    obtain ⟨d1, hpre, htl⟩ := hser
    simp only [SerOK] at htl
    obtain ⟨hrt, hpost⟩ := htl
    have hord := hL.order pre t post hsplit hact
    -- everything after t is read-only, hence neutral
    have hneutral : ∀ u ∈ post, ∀ d, (runTx d (progOf sched u)).1 = d := by
      intro u hu d
      have hne : (s.tx u).phase ≠ .idle := by rw [← hL.acqMem, hsplit]; simp [hu]
      obtain ⟨opsu, hopsu⟩ := hI.shape u hne
      rw [hopsu, hord.1 u hu]; exact runTx_ro d opsu
    have hd2 : (runTx d1 (progOf sched t)).1 = d1 := by
      rw [hops]; exact runTx_unfinished d1 _ ops hanyf
    have hsdb : s.db = d1 := by
      have := serOK_neutral _ _ _ _ _ hneutral hpost
      rw [this, hd2]
    subst hsdb
    rw [hacq, hsplit, serOK_append]
    refine ⟨s.db, ?_, ?_⟩
    · refine serOK_congr' _ _ _ _ _ _ _ ?_ hpre
      intro u hu
      have hut : u ≠ t := by intro e; subst e; exact htpre hu
      exact ⟨fun d => by rw [hP u hut], by simp [readsOf, hoth u hut]⟩
    · simp only [SerOK]
      have hrun : runTx s.db (progOf (sched ++ [(t, a)]) t) = (r'.db, r'.reads) := by
        rw [hPt, hops]
        show runTx s.db (Action.begin (s.tx t).mode :: (ops ++ [a])) = _
        simp only [runTx, hnewfold]
      rw [hrun]
      refine ⟨by simp [readsOf, hreads], ?_⟩
      simp only
      rcases hdbor with h | h
      · rw [hd2] at hpost
        rw [← hdb, h]
        refine serOK_congr' _ _ _ _ _ _ _ ?_ hpost
        intro u hu
        have hut : u ≠ t := by intro e; subst e; exact htpost hu
        exact ⟨fun d => by rw [hP u hut], by simp [readsOf, hoth u hut]⟩
      · rw [hord.2 h]; simp [SerOK, hdb]

theorem serInv_begin {sched : Sched} {s : State} (hI : SerInv sched s) (hL : LockInv s) (t : Tid) (m : Mode)
    (hid : (s.tx t).phase = .idle) : SerInv (sched ++ [(t, .begin m)]) (beginState s t m) := by
  have hP : ∀ u, u ≠ t → progOf (sched ++ [(t, Action.begin m)]) u = progOf sched u := by
    intro u hu; rw [progOf_snoc]; simp [hu]
  have hPt : progOf (sched ++ [(t, Action.begin m)]) t = [.begin m] := by
    rw [progOf_snoc]; simp [hI.idle t hid]
  have htx : ∀ u, u ≠ t → (beginState s t m).tx u = s.tx u := by
    intro u hu; simp [beginState, tick, setFn, hu]
  have htt : (beginState s t m).tx t = { mode := m, buf := [], phase := .active, reads := [], closedCalls := 0 } := by
    simp [beginState, tick]
  have hdb : (beginState s t m).db = s.db := by simp [beginState, tick]
  have htacq : t ∉ s.acq := by rw [hL.acqMem]; simp [hid]
  constructor
  · intro u hu
    have hut : u ≠ t := by intro e; subst e; rw [htt] at hu; cases hu
    rw [htx u hut] at hu; rw [hP u hut]; exact hI.idle u hu
  · intro u hu
    by_cases hut : u = t
    · subst hut; rw [htt, hPt, hdb]; exact ⟨[], rfl, rfl⟩
    · rw [htx u hut] at hu ⊢; rw [hP u hut, hdb]; exact hI.act u hu
  · intro u hu
    have hut : u ≠ t := by intro e; subst e; rw [htt] at hu; cases hu
    rw [htx u hut] at hu ⊢; rw [hP u hut]; exact hI.done u hu
  · have hacq : (beginState s t m).acq = s.acq ++ [t] := by simp [beginState, tick]
    rw [hacq, hdb, serOK_append]
    refine ⟨s.db, ?_, ?_⟩
    · refine serOK_congr' _ _ _ _ _ _ _ ?_ hI.ser
      intro u hu
      have hut : u ≠ t := by intro e; subst e; exact htacq hu
      exact ⟨fun d => by rw [hP u hut], by simp [readsOf, htx u hut]⟩
    · simp [SerOK, hPt, runTx, readsOf, htt, startRun]

theorem serInv_step {sched : Sched} {s s' : State} (t : Tid) (a : Action) (hI : SerInv sched s) (hL : LockInv s)
    (hraw : a.isRaw = false) (hs : step s t a = some s') : SerInv (sched ++ [(t, a)]) s' := by
  have closed : ∀ (c : Nat), (s.tx t).phase = .done →
      SerInv (sched ++ [(t, a)]) (tick { s with tx := setFn s.tx t { s.tx t with closedCalls := c } }) := by
    intro c hd
    refine serInv_closed hI t a hd rfl rfl ?_ ?_ ?_ ?_ <;>
    · intro u; by_cases hu : u = t
      · subst hu; simp [tick]
      · simp [tick, setFn, hu]
  cases a with
  | rawPut k v => simp [Action.isRaw] at hraw
  | rawDel k => simp [Action.isRaw] at hraw
  | «begin» m =>
    simp only [step] at hs
    split at hs
    · next hc => simp at hs; subst hs; exact serInv_begin hI hL t m hc.1
    · cases hs
  | get k =>
    simp only [step, txOp] at hs
    split at hs
    · cases hs
    · next hd => simp at hs; subst hs; exact closed _ hd
    · next hact =>
      simp at hs; subst hs
      refine serInv_op hI hL t _ hact _ rfl rfl ?_ ?_ ?_ ?_ ?_ ?_ <;>
        simp (config := { contextual := true }) [hact, tick, txStep, setFn]
  | scan lo hi =>
    simp only [step, txOp] at hs
    split at hs
    · cases hs
    · next hd => simp at hs; subst hs; exact closed _ hd
    · next hact =>
      simp at hs; subst hs
      refine serInv_op hI hL t _ hact _ rfl rfl ?_ ?_ ?_ ?_ ?_ ?_ <;>
        simp (config := { contextual := true }) [hact, tick, txStep, setFn]
  | put k v =>
    simp only [step, txOp] at hs
    split at hs
    · cases hs
    · next hd => simp at hs; subst hs; exact closed _ hd
    · next hact =>
      simp at hs; subst hs
      cases hm : (s.tx t).mode <;>
      · refine serInv_op hI hL t _ hact _ rfl rfl ?_ ?_ ?_ ?_ ?_ ?_ <;>
          simp (config := { contextual := true }) [hact, tick, txStep, setFn, hm]
  | del k =>
    simp only [step, txOp] at hs
    split at hs
    · cases hs
    · next hd => simp at hs; subst hs; exact closed _ hd
    · next hact =>
      simp at hs; subst hs
      cases hm : (s.tx t).mode <;>
      · refine serInv_op hI hL t _ hact _ rfl rfl ?_ ?_ ?_ ?_ ?_ ?_ <;>
          simp (config := { contextual := true }) [hact, tick, txStep, setFn, hm]
  | commit =>
    simp only [step, txOp] at hs
    split at hs
    · cases hs
    · next hd => simp at hs; subst hs; exact closed _ hd
    · next hact =>
      simp at hs; subst hs
      cases hm : (s.tx t).mode <;>
      · refine serInv_op hI hL t _ hact _ rfl rfl ?_ ?_ ?_ ?_ ?_ ?_ <;>
          simp (config := { contextual := true }) [hact, tick, finish, txStep, setFn, hm]
  | rollback =>
    simp only [step, txOp] at hs
    split at hs
    · cases hs
    · next hd => simp at hs; subst hs; exact closed _ hd
    · next hact =>
      simp at hs; subst hs
      refine serInv_op hI hL t _ hact _ rfl rfl ?_ ?_ ?_ ?_ ?_ ?_ <;>
        simp (config := { contextual := true }) [hact, tick, finish, txStep, setFn]

theorem noRaw_snoc (sched : Sched) (x : Tid × Action) :
    noRawWrites (sched ++ [x]) ↔ noRawWrites sched ∧ x.2.isRaw = false := by
  simp only [noRawWrites, List.mem_append, List.mem_singleton]
  constructor
  · intro h; exact ⟨fun y hy => h y (Or.inl hy), h x (Or.inr rfl)⟩
  · rintro ⟨h1, h2⟩ y (hy | hy)
    · exact h1 y hy
    · subst hy; exact h2

theorem serInv_reach (sched : Sched) (s : State) (h : reach sys sched = some s) (hraw : noRawWrites sched) :
    SerInv sched s := by
  have := reach_induction sys (fun sched s => noRawWrites sched → SerInv sched s)
    (fun _ => serInv_init)
    (fun sched s t a s' hr ih hs hraw' => by
      rw [noRaw_snoc] at hraw'
      exact serInv_step t a (ih hraw'.1) (lockInv_reach sched s hr) hraw'.2 hs)
  exact this sched s h hraw

/-! ### the theorems -/

def doneB (s : State) (t : Tid) : Bool := (s.tx t).phase == .done

/-- lock-acquisition order restricted to the transactions that have ended. -/
def lockOrder (s : State) : List Tid := s.acq.filter (doneB s)

theorem mem_lockOrder {s : State} (hL : LockInv s) (t : Tid) : t ∈ lockOrder s ↔ (s.tx t).phase = .done := by
  simp only [lockOrder, List.mem_filter, doneB, beq_iff_eq, hL.acqMem]
  constructor
  · exact fun h => h.2
  · intro h; exact ⟨by rw [h]; simp, h⟩

theorem lockOrder_perm {s : State} (hL : LockInv s) : (lockOrder s).Perm (finished s) := by
  have h1 : (lockOrder s).Nodup := hL.acqNodup.sublist List.filter_sublist
  have h2 : (finished s).Nodup := hL.finNodup
  rw [List.perm_ext_iff_of_nodup h1 h2]
  intro t; rw [mem_lockOrder hL, finished, hL.finMem]

theorem lockOrder_realTime {s : State} (hL : LockInv s) : respectsRealTime (lockOrder s) s := by
  unfold respectsRealTime lockOrder
  refine List.Pairwise.imp_of_mem ?_ (hL.sorted.filter _)
  intro a b _ hb hab
  have hbd : (s.tx b).phase = .done := (mem_lockOrder hL b).1 hb
  have := (hL.finLt b hbd).1
  omega

theorem lockOrder_serial {sched : Sched} {s : State} (hL : LockInv s) (hI : SerInv sched s) :
    serialRun sched (lockOrder s) = (s.db, (lockOrder s).map fun t => (t, readsOf s t)) := by
  unfold serialRun
  rw [← serOK_iff]
  refine serOK_filter _ _ _ _ _ _ ?_ hI.ser
  intro u hu hk d
  have hne : (s.tx u).phase ≠ .idle := (hL.acqMem u).1 hu
  have hact : (s.tx u).phase = .active := by
    cases hp : (s.tx u).phase with
    | idle => exact absurd hp hne
    | active => rfl
    | done => simp [doneB, hp] at hk
  obtain ⟨ops, hops, hfold⟩ := hI.act u hact
  have hanyf : ops.any Action.isFinish = false := by
    have := congrArg TxRun.fin hfold
    rw [fold_fin_eq] at this
    simpa [startRun] using this
  rw [hops]; exact runTx_unfinished d _ ops hanyf

theorem tx_strict_serializable (sched : Sched) (s : State) (h : reach sys sched = some s) (hraw : noRawWrites sched) :
    ∃ order, order.Perm (finished s) ∧ respectsRealTime order s ∧
      serialRun sched order = (s.db, order.map fun t => (t, readsOf s t)) :=
  have hL := lockInv_reach sched s h
  ⟨lockOrder s, lockOrder_perm hL, lockOrder_realTime hL, lockOrder_serial hL (serInv_reach sched s h hraw)⟩

/-- buffer contents = last write of the program (read-write, not finished). -/
theorem fold_buf_lookup (k : Bytes) (ops : List Action) (r : TxRun) (hm : r.mode = .rw) (hf : r.fin = false)
    (hany : ops.any Action.isFinish = false) :
    (ops.foldl txStep r).buf.lookup k = (match lastWrite k ops with | some w => some w | none => r.buf.lookup k) := by
  induction ops generalizing r with
  | nil => simp [lastWrite]
  | cons a ops ih =>
    simp only [List.any_cons, Bool.or_eq_false_iff] at hany
    have hf1 : (txStep r a).fin = false := by rw [txStep_fin_eq]; simp [hf, hany.1]
    simp only [List.foldl]
    rw [ih (txStep r a) (by rw [txStep_mode]; exact hm) hf1 hany.2]
    simp only [lastWrite]
    cases hl : lastWrite k ops with
    | some w => rfl
    | none =>
      simp only
      cases a <;> simp [txStep, hf, hm, Action.isFinish] at hany ⊢
      · next k' v =>
        by_cases hk : k' = k
        · subst hk; simp [List.lookup]
        · have : (k == k') = false := by simp; exact fun e => hk e.symm
          simp [List.lookup, this, hk]
      · next k' =>
        by_cases hk : k' = k
        · subst hk; simp [List.lookup]
        · have : (k == k') = false := by simp; exact fun e => hk e.symm
          simp [List.lookup, this, hk]

theorem lastWrite_begin (k : Bytes) (m : Mode) (ops : List Action) :
    lastWrite k (.begin m :: ops) = lastWrite k ops := by
  simp only [lastWrite]; cases lastWrite k ops <;> rfl

theorem buf_lookup_of_prog {sched : Sched} {s : State} (hI : SerInv sched s) (t : Tid) (k : Bytes)
    (hact : (s.tx t).phase = .active) (hm : (s.tx t).mode = .rw) :
    (s.tx t).buf.lookup k = lastWrite k (progOf sched t) := by
  obtain ⟨ops, hops, hfold⟩ := hI.act t hact
  have hanyf : ops.any Action.isFinish = false := by
    have := congrArg TxRun.fin hfold
    rw [fold_fin_eq] at this
    simpa [startRun] using this
  have := fold_buf_lookup k ops (startRun (s.tx t).mode s.db) (by simp [startRun, hm]) rfl hanyf
  rw [hfold] at this
  simp only [startRun, List.lookup] at this
  rw [this, hops, lastWrite_begin]
  cases lastWrite k ops <;> rfl

theorem get_step_reads {s s' : State} (t : Tid) (k : Bytes) (hact : (s.tx t).phase = .active)
    (hs : step s t (.get k) = some s') :
    readsOf s' t = readsOf s t ++ [.get k (view s.db (s.tx t).buf k)] := by
  simp [step, txOp, hact] at hs
  subst hs
  simp [readsOf, tick]

theorem ro_buf_empty {sched : Sched} {s : State} (hI : SerInv sched s) (t : Tid)
    (hact : (s.tx t).phase = .active) (hm : (s.tx t).mode = .ro) : (s.tx t).buf = [] := by
  obtain ⟨ops, _, hfold⟩ := hI.act t hact
  have key : ∀ (ops : List Action) (r : TxRun), r.mode = .ro → r.buf = [] → (ops.foldl txStep r).buf = [] := by
    intro ops
    induction ops with
    | nil => intro r _ h; exact h
    | cons a ops ih =>
      intro r h1 h2
      simp only [List.foldl]
      apply ih
      · rw [txStep_mode]; exact h1
      · unfold txStep; split
        · exact h2
        · cases a <;> simp [h1, h2]
  have := key ops (startRun (s.tx t).mode s.db) (by simp [startRun, hm]) rfl
  rw [hfold] at this
  exact this

/-- all reads of a read-only program are evaluated on the database it started on. -/
theorem fold_reads_ro (ops : List Action) (r : TxRun) (hm : r.mode = .ro) (hb : r.buf = [])
    (hr : ∀ x ∈ r.reads, x.evaluatedOn r.db) : ∀ x ∈ (ops.foldl txStep r).reads, x.evaluatedOn r.db := by
  have hview : ∀ db : KVMap, view db [] = db := by intro db; funext k; simp [view, List.lookup]
  induction ops generalizing r with
  | nil => exact hr
  | cons a ops ih =>
    simp only [List.foldl]
    have hdb := txStep_db_ro r a hm
    rw [← hdb]
    apply ih
    · rw [txStep_mode]; exact hm
    · unfold txStep; split
      · exact hb
      · cases a <;> simp [hm, hb]
    · rw [hdb]
      unfold txStep; split
      · exact hr
      · cases a <;> simp [hm, hb] <;> try exact hr
        · intro x hx
          rcases hx with hx | hx
          · exact hr x hx
          · subst hx; simp [Read.evaluatedOn, hview]
        · intro x hx
          rcases hx with hx | hx
          · exact hr x hx
          · subst hx; simp [Read.evaluatedOn, hview]

end Kevo.Proofs.TxLock
