/-
  Kevo.Proofs.CompactionLemmas — order, sorting and lookup lemmas behind Kevo.Proofs.Compaction (C12).
-/
import Kevo.Model.Compaction
namespace Kevo.Proofs.Compaction
open Kevo Kevo.Engine Kevo.Compaction

/-! ### the recency order on files -/

theorem sstOlder_iff (a b : SST) : sstOlder a b = true ↔
    a.level > b.level ∨ (a.level = b.level ∧ (a.ts < b.ts ∨ (a.ts = b.ts ∧ a.fileNum ≤ b.fileNum))) := by
  unfold sstOlder
  by_cases h1 : a.level = b.level
  · by_cases h2 : a.ts = b.ts
    · simp [h1, h2]
    · simp [h1, h2]
  · simp [h1] <;> omega

theorem sstOlder_total (a b : SST) : sstOlder a b = true ∨ sstOlder b a = true := by
  rw [sstOlder_iff, sstOlder_iff]; omega

theorem sstOlder_refl (a : SST) : sstOlder a a = true := by
  rw [sstOlder_iff]; omega

theorem sstOlder_trans {a b c : SST} (h1 : sstOlder a b = true) (h2 : sstOlder b c = true) : sstOlder a c = true := by
  rw [sstOlder_iff] at *; omega

theorem sstOlder_antisymm {a b : SST} (h1 : sstOlder a b = true) (h2 : sstOlder b a = true) : a.ts = b.ts := by
  rw [sstOlder_iff] at *; omega

theorem sstOlder_of_level {a b : SST} (h : a.level > b.level) : sstOlder a b = true := by
  rw [sstOlder_iff]; exact Or.inl h

/-! ### insertion sort -/

theorem mem_insertBy (le : SST → SST → Bool) (t x : SST) (l : List SST) : x ∈ insertBy le t l ↔ x = t ∨ x ∈ l := by
  induction l with
  | nil => simp [insertBy]
  | cons y ys ih =>
    unfold insertBy
    split
    · simp only [List.mem_cons, ih]
      constructor
      · rintro (h | h | h) <;> simp [h]
      · rintro (h | h | h) <;> simp [h]
    · simp only [List.mem_cons]

theorem insertBy_pairwise (le : SST → SST → Bool) (htot : ∀ a b, le a b = true ∨ le b a = true)
    (htr : ∀ a b c, le a b = true → le b c = true → le a c = true) (t : SST) (l : List SST)
    (h : l.Pairwise (fun a b => le a b = true)) : (insertBy le t l).Pairwise (fun a b => le a b = true) := by
  induction l with
  | nil => simp [insertBy]
  | cons y ys ih =>
    rw [List.pairwise_cons] at h
    unfold insertBy
    split
    · rename_i hyt
      rw [List.pairwise_cons]
      refine ⟨?_, ih h.2⟩
      intro x hx
      rcases (mem_insertBy le t x ys).mp hx with rfl | hx
      · exact hyt
      · exact h.1 x hx
    · rename_i hyt
      have hty : le t y = true := by
        rcases htot t y with h' | h'
        · exact h'
        · exact absurd h' hyt
      rw [List.pairwise_cons]
      refine ⟨?_, List.pairwise_cons.mpr h⟩
      intro x hx
      rcases List.mem_cons.mp hx with rfl | hx
      · exact hty
      · exact htr _ _ _ hty (h.1 x hx)

theorem foldl_insertBy (le : SST → SST → Bool) (htot : ∀ a b, le a b = true ∨ le b a = true)
    (htr : ∀ a b c, le a b = true → le b c = true → le a c = true) (l : List SST) :
    ∀ acc : List SST, acc.Pairwise (fun a b => le a b = true) →
      (l.foldl (fun acc t => insertBy le t acc) acc).Pairwise (fun a b => le a b = true) ∧
      ∀ x, x ∈ l.foldl (fun acc t => insertBy le t acc) acc ↔ x ∈ acc ∨ x ∈ l := by
  induction l with
  | nil => intro acc h; simp [h]
  | cons y ys ih =>
    intro acc h
    obtain ⟨h1, h2⟩ := ih (insertBy le y acc) (insertBy_pairwise le htot htr y acc h)
    refine ⟨h1, ?_⟩
    intro x
    simp only [List.foldl_cons, h2, mem_insertBy, List.mem_cons]
    constructor
    · rintro ((h | h) | h) <;> simp [h]
    · rintro (h | h | h) <;> simp [h]

theorem sortBy_pairwise (le : SST → SST → Bool) (htot : ∀ a b, le a b = true ∨ le b a = true)
    (htr : ∀ a b c, le a b = true → le b c = true → le a c = true) (l : List SST) :
    (sortBy le l).Pairwise (fun a b => le a b = true) :=
  (foldl_insertBy le htot htr l [] List.Pairwise.nil).1

theorem mem_sortBy (le : SST → SST → Bool) (htot : ∀ a b, le a b = true ∨ le b a = true)
    (htr : ∀ a b c, le a b = true → le b c = true → le a c = true) (l : List SST) (x : SST) :
    x ∈ sortBy le l ↔ x ∈ l := by
  have := (foldl_insertBy le htot htr l [] List.Pairwise.nil).2 x
  simpa [sortBy] using this

theorem insertSST_eq (t : SST) (l : List SST) : insertSST t l = insertBy sstOlder t l := by
  induction l with
  | nil => rfl
  | cons y ys ih => simp only [insertSST, insertBy, ih]

theorem sortSSTs_eq (l : List SST) : sortSSTs l = sortBy sstOlder l := by
  unfold sortSSTs sortBy
  congr 1
  funext acc t
  exact insertSST_eq t acc

theorem sortSSTs_pairwise (l : List SST) : (sortSSTs l).Pairwise (fun a b => sstOlder a b = true) := by
  rw [sortSSTs_eq]
  exact sortBy_pairwise sstOlder sstOlder_total (fun _ _ _ => sstOlder_trans) l

theorem mem_sortSSTs (l : List SST) (x : SST) : x ∈ sortSSTs l ↔ x ∈ l := by
  rw [sortSSTs_eq]
  exact mem_sortBy sstOlder sstOlder_total (fun _ _ _ => sstOlder_trans) l x

/-! ### searching a sorted list from its newest end -/

theorem findSome_rev_sorted {β : Type} (f : SST → Option β) :
    ∀ (L : List SST), L.Pairwise (fun a b => sstOlder a b = true) → ∀ r, L.reverse.findSome? f = some r →
      ∃ t ∈ L, f t = some r ∧ ∀ t' ∈ L, (f t').isSome = true → sstOlder t' t = true := by
  intro L
  induction L with
  | nil => intro _ r h; simp at h
  | cons x xs ih =>
    intro hp r h
    rw [List.pairwise_cons] at hp
    rw [List.reverse_cons, List.findSome?_append] at h
    cases hxs : xs.reverse.findSome? f with
    | some r' =>
      rw [hxs] at h
      simp at h
      subst h
      obtain ⟨t, ht, hft, hmax⟩ := ih hp.2 r' hxs
      refine ⟨t, List.mem_cons_of_mem _ ht, hft, ?_⟩
      intro t' ht' hs
      rcases List.mem_cons.mp ht' with rfl | ht'
      · exact hp.1 t ht
      · exact hmax t' ht' hs
    | none =>
      rw [hxs] at h
      simp only [Option.none_or, List.findSome?_cons, List.findSome?_nil] at h
      have hfx : f x = some r := by
        cases hfx : f x with
        | none => rw [hfx] at h; simp at h
        | some v => rw [hfx] at h; simpa using h
      refine ⟨x, List.mem_cons_self, hfx, ?_⟩
      intro t' ht' hs
      rcases List.mem_cons.mp ht' with rfl | ht'
      · exact sstOlder_refl _
      · rw [List.findSome?_eq_none_iff] at hxs
        have := hxs t' (List.mem_reverse.mpr ht')
        rw [this] at hs
        simp at hs

/-! ### holders of a key -/

/-- `t` is the newest file of `D` that holds `k` -/
def Top (D : List SST) (k : Bytes) (t : SST) : Prop :=
  t ∈ D ∧ has t k = true ∧ ∀ t' ∈ D, has t' k = true → sstOlder t' t = true

/-- time stamps identify files -/
def DistinctTs (D : List SST) : Prop := D.Pairwise (fun a b => a.ts ≠ b.ts)

theorem eq_of_ts_eq {D : List SST} (hd : DistinctTs D) {a b : SST} (ha : a ∈ D) (hb : b ∈ D) (h : a.ts = b.ts) : a = b := by
  unfold DistinctTs at hd
  induction D with
  | nil => simp at ha
  | cons x xs ih =>
    rw [List.pairwise_cons] at hd
    rcases List.mem_cons.mp ha with rfl | ha' <;> rcases List.mem_cons.mp hb with rfl | hb'
    · rfl
    · exact absurd h (hd.1 b hb')
    · exact absurd h.symm (hd.1 a ha')
    · exact ih hd.2 ha' hb'

theorem viewEntry_none {D : List SST} {k : Bytes} (h : ∀ t ∈ D, has t k = false) : viewEntry D k = none := by
  unfold viewEntry
  rw [List.findSome?_eq_none_iff]
  intro t ht
  have := h t ((mem_sortSSTs D t).mp (List.mem_reverse.mp ht))
  unfold has at this
  cases hg : t.get k with
  | none => rfl
  | some v => rw [hg] at this; simp at this

theorem viewEntry_top {D : List SST} {k : Bytes} {t : SST} (hd : DistinctTs D) (ht : Top D k t) :
    viewEntry D k = t.get k := by
  obtain ⟨hmem, hhas, hmax⟩ := ht
  unfold has at hhas
  cases hv : viewEntry D k with
  | none =>
    unfold viewEntry at hv
    rw [List.findSome?_eq_none_iff] at hv
    have := hv t (List.mem_reverse.mpr ((mem_sortSSTs D t).mpr hmem))
    rw [this] at hhas
    simp at hhas
  | some r =>
    unfold viewEntry at hv
    obtain ⟨t0, ht0, hf0, hmax0⟩ := findSome_rev_sorted (fun t => t.get k) (sortSSTs D) (sortSSTs_pairwise D) r hv
    have ht0D : t0 ∈ D := (mem_sortSSTs D t0).mp ht0
    have h1 : sstOlder t t0 = true := hmax0 t ((mem_sortSSTs D t).mpr hmem) hhas
    have h2 : sstOlder t0 t = true := hmax t0 ht0D (by unfold has; rw [hf0]; rfl)
    have : t0 = t := eq_of_ts_eq hd ht0D hmem (sstOlder_antisymm h2 h1)
    rw [← this, hf0]

theorem exists_top (D : List SST) (k : Bytes) (h : ∃ t ∈ D, has t k = true) : ∃ t, Top D k t := by
  induction D with
  | nil => obtain ⟨t, ht, _⟩ := h; simp at ht
  | cons x xs ih =>
    by_cases hx : ∃ t ∈ xs, has t k = true
    · obtain ⟨t, htm, hth, htmax⟩ := ih hx
      by_cases hxk : has x k = true
      · rcases sstOlder_total x t with hxt | htx
        · refine ⟨t, List.mem_cons_of_mem _ htm, hth, ?_⟩
          intro t' ht' hk
          rcases List.mem_cons.mp ht' with rfl | ht'
          · exact hxt
          · exact htmax t' ht' hk
        · refine ⟨x, List.mem_cons_self, hxk, ?_⟩
          intro t' ht' hk
          rcases List.mem_cons.mp ht' with rfl | ht'
          · exact sstOlder_refl _
          · exact sstOlder_trans (htmax t' ht' hk) htx
      · refine ⟨t, List.mem_cons_of_mem _ htm, hth, ?_⟩
        intro t' ht' hk
        rcases List.mem_cons.mp ht' with rfl | ht'
        · exact absurd hk hxk
        · exact htmax t' ht' hk
    · obtain ⟨t, ht, hk⟩ := h
      rcases List.mem_cons.mp ht with rfl | ht
      · refine ⟨t, List.mem_cons_self, hk, ?_⟩
        intro t' ht' hk'
        rcases List.mem_cons.mp ht' with rfl | ht'
        · exact sstOlder_refl _
        · exact absurd ⟨t', ht', hk'⟩ hx
      · exact absurd ⟨t, ht, hk⟩ hx

/-! ### the merged stream -/

def SortedKV (l : List KV) : Prop := l.Pairwise (fun a b => ltB a.1 b.1 = true)

theorem beq_bytes_eq {a b : Bytes} : (a == b) = true ↔ a = b := by simp

theorem lookup_cons (x : KV) (xs : List KV) (k : Bytes) :
    lookup (x :: xs) k = if x.1 == k then some x else lookup xs k := by
  unfold lookup
  rw [List.find?_cons]
  cases (x.1 == k) <;> rfl

theorem lookup_insertKV (e : KV) (l : List KV) (k : Bytes) :
    lookup (insertKV e l) k = if e.1 == k then some e else lookup l k := by
  induction l with
  | nil => simp [insertKV, lookup]
  | cons x xs ih =>
    unfold insertKV
    split
    · rw [lookup_cons]
    · split
      · rename_i _ hex
        have hex' : e.1 = x.1 := beq_bytes_eq.mp hex
        rw [lookup_cons, lookup_cons, hex']
        cases (x.1 == k) <;> rfl
      · rename_i _ hex
        have hex' : ¬ e.1 = x.1 := fun h => hex (beq_bytes_eq.mpr h)
        rw [lookup_cons, lookup_cons, ih]
        by_cases hxk : x.1 = k
        · have hek : ¬ e.1 = k := fun h => hex' (h.trans hxk.symm)
          have h1 : (x.1 == k) = true := beq_bytes_eq.mpr hxk
          have h2 : (e.1 == k) = false := by simpa using hek
          rw [h1, h2]; rfl
        · have h1 : (x.1 == k) = false := by simpa using hxk
          rw [h1]; rfl

theorem lookup_overlay (src acc : List KV) (k : Bytes) :
    lookup (overlay src acc) k = (lookup src k).or (lookup acc k) := by
  induction src with
  | nil => simp [overlay, lookup]
  | cons e es ih =>
    have : overlay (e :: es) acc = insertKV e (overlay es acc) := rfl
    rw [this, lookup_insertKV, ih, lookup_cons]
    cases (e.1 == k) <;> rfl

theorem lookup_mergeSources (srcs : List (List KV)) (k : Bytes) :
    lookup (mergeSources srcs) k = srcs.findSome? (fun s => lookup s k) := by
  induction srcs with
  | nil => simp [mergeSources, lookup]
  | cons s ss ih =>
    have : mergeSources (s :: ss) = overlay s (mergeSources ss) := rfl
    rw [this, lookup_overlay, ih, List.findSome?_cons]
    cases lookup s k <;> rfl

theorem lookup_key {l : List KV} {k : Bytes} {e : KV} (h : lookup l k = some e) : e.1 = k ∧ e ∈ l := by
  unfold lookup at h
  exact ⟨by simpa using List.find?_some h, List.mem_of_find?_eq_some h⟩

theorem mem_insertKV {e x : KV} {l : List KV} (h : x ∈ insertKV e l) : x = e ∨ x ∈ l := by
  induction l with
  | nil => simpa [insertKV] using h
  | cons y ys ih =>
    unfold insertKV at h
    split at h
    · simpa using h
    · split at h
      · rcases List.mem_cons.mp h with h | h
        · exact Or.inl h
        · exact Or.inr (List.mem_cons_of_mem _ h)
      · rcases List.mem_cons.mp h with h | h
        · exact Or.inr (h ▸ List.mem_cons_self)
        · rcases ih h with h | h
          · exact Or.inl h
          · exact Or.inr (List.mem_cons_of_mem _ h)

theorem insertKV_sorted (e : KV) (l : List KV) (h : SortedKV l) : SortedKV (insertKV e l) := by
  unfold SortedKV at *
  induction l with
  | nil => simp [insertKV]
  | cons y ys ih =>
    rw [List.pairwise_cons] at h
    unfold insertKV
    split
    · rename_i hlt
      rw [List.pairwise_cons]
      refine ⟨?_, List.pairwise_cons.mpr h⟩
      intro x hx
      rcases List.mem_cons.mp hx with rfl | hx
      · exact hlt
      · exact ltB_trans hlt (h.1 x hx)
    · split
      · rename_i _ heq
        have heq' : e.1 = y.1 := beq_bytes_eq.mp heq
        rw [List.pairwise_cons]
        refine ⟨?_, h.2⟩
        intro x hx
        rw [heq']
        exact h.1 x hx
      · rename_i hlt heq
        have hne : ¬ e.1 = y.1 := fun h' => heq (beq_bytes_eq.mpr h')
        have hye : ltB y.1 e.1 = true := by
          cases hc : ltB y.1 e.1 with
          | true => rfl
          | false =>
            have hlt' : ltB e.1 y.1 = false := by simpa using hlt
            exact absurd (ltB_total hlt' hc) hne
        rw [List.pairwise_cons]
        refine ⟨?_, ih h.2⟩
        intro x hx
        rcases mem_insertKV hx with rfl | hx
        · exact hye
        · exact h.1 x hx

theorem overlay_sorted (src acc : List KV) (h : SortedKV acc) : SortedKV (overlay src acc) := by
  induction src with
  | nil => exact h
  | cons e es ih => exact insertKV_sorted e _ ih

theorem mergeSources_sorted (srcs : List (List KV)) : SortedKV (mergeSources srcs) := by
  induction srcs with
  | nil => exact List.Pairwise.nil
  | cons s ss ih => exact overlay_sorted s _ ih

theorem lookup_of_mem_sorted {l : List KV} (h : SortedKV l) {e : KV} (he : e ∈ l) : lookup l e.1 = some e := by
  unfold SortedKV at h
  induction l with
  | nil => simp at he
  | cons x xs ih =>
    rw [List.pairwise_cons] at h
    rw [lookup_cons]
    rcases List.mem_cons.mp he with rfl | he
    · simp
    · have hlt := h.1 e he
      have hne : ¬ x.1 = e.1 := by
        intro heq
        rw [heq, ltB_irrefl] at hlt
        exact Bool.noConfusion hlt
      have h1 : (x.1 == e.1) = false := by simpa using hne
      rw [h1]
      exact ih h.2 he

theorem lookup_none_of_lt {x : KV} {xs : List KV} (h : ∀ y ∈ xs, ltB x.1 y.1 = true) : lookup xs x.1 = none := by
  unfold lookup
  rw [List.find?_eq_none]
  intro y hy heq
  have hlt := h y hy
  have : y.1 = x.1 := by simpa using heq
  rw [this, ltB_irrefl] at hlt
  exact Bool.noConfusion hlt

theorem lookup_filter_sorted {l : List KV} (h : SortedKV l) (p : KV → Bool) (k : Bytes) :
    lookup (l.filter p) k = (lookup l k).filter p := by
  unfold SortedKV at h
  induction l with
  | nil => simp [lookup]
  | cons x xs ih =>
    rw [List.pairwise_cons] at h
    have ih' := ih h.2
    rw [lookup_cons]
    by_cases hxk : x.1 = k
    · have hnone : lookup xs k = none := hxk ▸ lookup_none_of_lt h.1
      have h1 : (x.1 == k) = true := beq_bytes_eq.mpr hxk
      rw [h1]
      by_cases hp : p x = true
      · rw [List.filter_cons, if_pos hp, lookup_cons, h1]
        simp [Option.filter, hp]
      · have hp' : p x = false := by simpa using hp
        rw [List.filter_cons, if_neg hp, ih', hnone]
        simp [Option.filter, hp']
    · have h1 : (x.1 == k) = false := by simpa using hxk
      rw [h1]
      by_cases hp : p x = true
      · rw [List.filter_cons, if_pos hp, lookup_cons, h1]
        exact ih'
      · rw [List.filter_cons, if_neg hp, ih']
        rfl

theorem get_eq_lookup (t : SST) (k : Bytes) : t.get k = (lookup (kvs t) k).map (·.2) := by
  unfold SST.get lookup kvs
  rw [List.find?_map, Option.map_map]
  rfl

theorem has_iff_lookup (t : SST) (k : Bytes) : has t k = (lookup (kvs t) k).isSome := by
  unfold has
  rw [get_eq_lookup]
  simp

/-! ### output cutting -/

theorem cut_flatten (n : Nat) (es cur : List KV) : (cut n es cur).flatten = cur.reverse ++ es := by
  induction es generalizing cur with
  | nil =>
    unfold cut
    by_cases h : cur.isEmpty = true
    · have : cur = [] := by simpa using h
      simp [this]
    · simp [h]
  | cons e es ih =>
    unfold cut
    simp only
    split
    · rw [List.flatten_cons, ih]; simp
    · rw [ih]; simp

theorem chunks_flatten (n : Nat) (es : List KV) : (chunks n es).flatten = es := by
  unfold chunks; rw [cut_flatten]; rfl

theorem cut_nonempty (n : Nat) (es cur : List KV) : ∀ c ∈ cut n es cur, c ≠ [] := by
  induction es generalizing cur with
  | nil =>
    unfold cut
    intro c hc
    by_cases h : cur.isEmpty = true
    · simp [h] at hc
    · simp [h] at hc
      subst hc
      intro h'
      apply h
      simpa using h'
  | cons e es ih =>
    unfold cut
    simp only
    intro c hc
    split at hc
    · rcases List.mem_cons.mp hc with rfl | hc
      · simp
      · exact ih [] c hc
    · exact ih _ c hc

theorem kvs_mkOutput (target clock i : Nat) (c : List KV) : kvs (mkOutput target clock i c) = c := by
  unfold kvs mkOutput
  simp [List.map_map, Function.comp_def]

theorem mem_mkOutputs {target clock : Nat} : ∀ (cs : List (List KV)) (i : Nat) (o : SST),
    o ∈ mkOutputs target clock i cs → o.level = target ∧ clock + i ≤ o.ts ∧ kvs o ∈ cs := by
  intro cs
  induction cs with
  | nil => intro i o h; simp [mkOutputs] at h
  | cons c cs ih =>
    intro i o h
    unfold mkOutputs at h
    rcases List.mem_cons.mp h with rfl | h
    · refine ⟨rfl, Nat.le_refl _, ?_⟩
      rw [kvs_mkOutput]; exact List.mem_cons_self
    · obtain ⟨h1, h2, h3⟩ := ih (i + 1) o h
      exact ⟨h1, by omega, List.mem_cons_of_mem _ h3⟩

theorem mkOutputs_covers {target clock : Nat} : ∀ (cs : List (List KV)) (i : Nat) (c : List KV), c ∈ cs →
    ∃ o ∈ mkOutputs target clock i cs, kvs o = c := by
  intro cs
  induction cs with
  | nil => intro i c h; simp at h
  | cons c' cs ih =>
    intro i c h
    unfold mkOutputs
    rcases List.mem_cons.mp h with rfl | h
    · exact ⟨_, List.mem_cons_self, kvs_mkOutput _ _ _ _⟩
    · obtain ⟨o, ho, hk⟩ := ih (i + 1) c h
      exact ⟨o, List.mem_cons_of_mem _ ho, hk⟩

theorem mkOutputs_distinct {target clock : Nat} : ∀ (cs : List (List KV)) (i : Nat),
    DistinctTs (mkOutputs target clock i cs) := by
  intro cs
  induction cs with
  | nil => intro i; exact List.Pairwise.nil
  | cons c cs ih =>
    intro i
    unfold mkOutputs DistinctTs
    rw [List.pairwise_cons]
    refine ⟨?_, ih (i + 1)⟩
    intro o ho
    have := (mem_mkOutputs cs (i + 1) o ho).2.1
    show clock + i ≠ o.ts
    omega

end Kevo.Proofs.Compaction
