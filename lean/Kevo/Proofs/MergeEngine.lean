/-
  Kevo.Proofs.MergeEngine — what a scan of the engine model reads: the sources are sorted by key and the
  newest entry of a key over the sources is the newest entry of the history (link between C01's engine
  invariant and the merge specification of C05).
-/
import Kevo.Proofs.Engine
import Kevo.Proofs.MergeDefs
namespace Kevo.Proofs.Merge
open Kevo Kevo.Engine Kevo.Spec Kevo.Merge Kevo.Proofs.Engine

def kvOf (e : MEntry) : KV := (e.key, e.val)

/-- the sources of a scan as lists of (key, value-or-deletion-marker), newest source first -/
def kvSources (s : St) : List (List KV) := (sources s).map (fun es => es.map kvOf)

/-- the final abstract map of a program -/
def mapRun (m : KVMap) (ops : List Op) : KVMap := ops.foldl (fun m o => (mapStep m o).1) m

/-! ### order facts -/

/-- `a ≤ b ≤ c → a ≤ c` for the byte order, in the "not greater" form -/
theorem notLt_trans {a b c : Bytes} (h1 : ltB b a = false) (h2 : ltB c b = false) : ltB c a = false := by
  cases h : ltB c a with
  | false => rfl
  | true =>
    exfalso
    cases hab : ltB a b with
    | true =>
      have hcb := ltB_trans h hab
      rw [h2] at hcb
      contradiction
    | false =>
      have : a = b := ltB_total hab h1
      subst this
      rw [h2] at h
      contradiction

/-- entries in key order (non-decreasing) -/
def KSorted (l : List MEntry) : Prop := l.Pairwise (fun a b => ltB b.key a.key = false)

theorem ksorted_iff (l : List MEntry) :
    (l.map kvOf).Pairwise (fun a b => ltB b.1 a.1 = false) ↔ KSorted l := by
  unfold KSorted
  rw [List.pairwise_map]
  rfl

theorem entryLt_true_le {x e : MEntry} (h : entryLt x e = true) : ltB e.key x.key = false := by
  unfold entryLt at h
  rcases Bool.or_eq_true _ _ |>.mp h with h | h
  · exact ltB_asymm h
  · have hk : x.key = e.key := by
      have := (Bool.and_eq_true _ _ |>.mp h).1
      simpa using this
    rw [hk, ltB_irrefl]

theorem entryLt_false_ge {x e : MEntry} (h : ¬ entryLt x e = true) : ltB x.key e.key = false := by
  unfold entryLt at h
  cases hl : ltB x.key e.key with
  | false => rfl
  | true => simp [hl] at h

theorem mem_insertSorted {e y : MEntry} : ∀ (L : List MEntry), y ∈ insertSorted e L ↔ y = e ∨ y ∈ L := by
  intro L
  induction L with
  | nil => simp [insertSorted]
  | cons x xs ih =>
    unfold insertSorted
    split
    · simp only [List.mem_cons, ih]
      constructor
      · rintro (h | h | h)
        · exact Or.inr (Or.inl h)
        · exact Or.inl h
        · exact Or.inr (Or.inr h)
      · rintro (h | h | h)
        · exact Or.inr (Or.inl h)
        · exact Or.inl h
        · exact Or.inr (Or.inr h)
    · simp only [List.mem_cons]

theorem ksorted_insertSorted (e : MEntry) : ∀ (L : List MEntry), KSorted L → KSorted (insertSorted e L) := by
  intro L
  induction L with
  | nil => intro _; simp [insertSorted, KSorted]
  | cons x xs ih =>
    intro h
    unfold KSorted at h
    rw [List.pairwise_cons] at h
    obtain ⟨hx, hxs⟩ := h
    unfold insertSorted
    by_cases hlt : entryLt x e = true
    · rw [if_pos hlt]
      unfold KSorted
      rw [List.pairwise_cons]
      refine ⟨?_, ih hxs⟩
      intro y hy
      rcases (mem_insertSorted xs).mp hy with rfl | hy
      · exact entryLt_true_le hlt
      · exact hx y hy
    · rw [if_neg hlt]
      have hxe := entryLt_false_ge hlt
      unfold KSorted
      rw [List.pairwise_cons]
      refine ⟨?_, List.pairwise_cons.mpr ⟨hx, hxs⟩⟩
      intro y hy
      rcases List.mem_cons.mp hy with rfl | hy
      · exact hxe
      · -- e ≤ x ≤ y
        exact notLt_trans hxe (hx y hy)


/-! ### one memtable -/

/-- key order and visibility of a memtable (not part of EInv) -/
def MOK (m : MemTable) : Prop :=
  (m.entries.map kvOf).Pairwise (fun a b => ltB b.1 a.1 = false) ∧ ∀ e ∈ m.entries, e.seq ≤ m.nextSeq

theorem MOK.visible {m : MemTable} (h : MOK m) : m.visible = m.entries := by
  unfold MemTable.visible
  split
  · rfl
  · exact List.filter_eq_self.mpr (fun e he => by simpa using h.2 e he)

theorem MOK.empty : MOK ({} : MemTable) := ⟨List.Pairwise.nil, by simp⟩

theorem MOK.freeze {m : MemTable} (h : MOK m) : MOK { m with immutable := true } := h

theorem MOK.add {m : MemTable} (h : MOK m) (e : MEntry) : MOK (m.add e) := by
  unfold MemTable.add
  split
  · exact h
  · refine ⟨(ksorted_iff _).mpr (ksorted_insertSorted e _ ((ksorted_iff _).mp h.1)), ?_⟩
    intro y hy
    show y.seq ≤ (if e.seq > m.nextSeq then e.seq + 1 else m.nextSeq)
    rcases (mem_insertSorted _).mp hy with rfl | hy
    · split <;> omega
    · have := h.2 y hy
      split <;> omega

/-! ### flushing -/

theorem newestPerKeyAux_sublist : ∀ (es : List MEntry) (prev : Option Bytes),
    (newestPerKeyAux prev es).Sublist es := by
  intro es
  induction es with
  | nil => intro prev; simp [newestPerKeyAux]
  | cons x xs ih =>
    intro prev
    unfold newestPerKeyAux
    split
    · exact (ih _).cons _
    · exact (ih _).cons_cons _

theorem ksorted_newestPerKey {m : MemTable} (h : MOK m) : KSorted (newestPerKey m.visible) := by
  rw [h.visible]
  exact ((ksorted_iff _).mp h.1).sublist (newestPerKeyAux_sublist _ _)

structure SInv (s : St) : Prop where
  active : MOK s.pool.active
  imms : ∀ m ∈ s.pool.immutables, MOK m
  mgr : ∀ m ∈ s.mgrImm, MOK m
  ssts : ∀ t ∈ s.ssts, (t.entries.map kvOf).Pairwise (fun a b => ltB b.1 a.1 = false)

theorem flushOne_sinv {s : St} (h : SInv s) {m : MemTable} (hm : MOK m) : SInv (flushOne s m) := by
  unfold flushOne
  split
  · exact h
  · dsimp only
    split
    · exact ⟨h.active, h.imms, h.mgr, h.ssts⟩
    · refine ⟨h.active, h.imms, h.mgr, ?_⟩
      intro t ht
      rcases List.mem_append.mp ht with ht | ht
      · exact h.ssts t ht
      · simp only [List.mem_singleton] at ht
        subst ht
        exact (ksorted_iff _).mpr (ksorted_newestPerKey hm)

theorem foldl_flushOne_sinv : ∀ (ms : List MemTable) (s : St), SInv s → (∀ m ∈ ms, MOK m) →
    SInv (ms.foldl flushOne s) := by
  intro ms
  induction ms with
  | nil => intro s h _; exact h
  | cons m ms ih =>
    intro s h hm
    exact ih _ (flushOne_sinv h (hm m (by simp))) (fun m' hm' => hm m' (by simp [hm']))

theorem rotate_sinv {s : St} (h : SInv s) : SInv (rotate s) := ⟨h.active, h.imms, h.mgr, h.ssts⟩

theorem flushMemTables_sinv {s : St} (h : SInv s) : SInv (flushMemTables s) := by
  unfold flushMemTables
  split
  · split
    · exact flushOne_sinv (rotate_sinv h) h.active
    · exact h
  · have h' := foldl_flushOne_sinv s.mgrImm (rotate s) (rotate_sinv h) h.mgr
    exact ⟨h'.active, h'.imms, by simp, h'.ssts⟩

theorem maybeFlush_sinv {s : St} (h : SInv s) : SInv (maybeFlush s) := by
  unfold maybeFlush
  split
  · apply flushMemTables_sinv
    refine ⟨MOK.empty, ?_, ?_, h.ssts⟩
    · intro m hm
      rcases List.mem_append.mp hm with hm | hm
      · exact h.imms m hm
      · simp only [List.mem_singleton] at hm
        subst hm
        exact h.active.freeze
    · intro m hm
      rcases List.mem_append.mp hm with hm | hm
      · exact h.mgr m hm
      · simp only [List.mem_singleton] at hm
        subst hm
        exact h.active.freeze
  · exact h

/-! ### writes -/

theorem put_sinv {s : St} (h : SInv s) (k v : Bytes) : SInv (put s k v) := by
  unfold put
  apply maybeFlush_sinv
  exact ⟨h.active.add _, h.imms, h.mgr, h.ssts⟩

theorem delete_sinv {s : St} (h : SInv s) (k : Bytes) : SInv (delete s k) := by
  unfold delete
  apply maybeFlush_sinv
  exact ⟨h.active.add _, h.imms, h.mgr, h.ssts⟩

theorem foldl_add_ok (cfg : Cfg) (seq : Nat) : ∀ (ops : List (Bool × Bytes × Bytes)) (p : Pool),
    MOK p.active → (∀ m ∈ p.immutables, MOK m) →
    MOK (ops.foldl (fun p o => p.add cfg (mkE seq o)) p).active ∧
    ∀ m ∈ (ops.foldl (fun p o => p.add cfg (mkE seq o)) p).immutables, MOK m := by
  intro ops
  induction ops with
  | nil => intro p ha hi; exact ⟨ha, hi⟩
  | cons o os ih =>
    intro p ha hi
    exact ih (p.add cfg (mkE seq o)) (ha.add _) hi

theorem batch_sinv {s : St} (h : SInv s) (ops : List (Bool × Bytes × Bytes)) : SInv (batch s ops) := by
  by_cases hne : ops = []
  · subst hne
    simp only [batch, List.isEmpty_nil, if_true]
    exact maybeFlush_sinv h
  · rw [batch_eq s ops hne]
    apply maybeFlush_sinv
    have := foldl_add_ok s.cfg s.walNext ops s.pool h.active h.imms
    exact ⟨this.1, this.2, h.mgr, h.ssts⟩


/-! ### reopen -/

theorem recStep_ok (cfg : Cfg) {acc : List MemTable × MemTable × Nat}
    (h : (∀ t ∈ acc.1, MOK t) ∧ MOK acc.2.1) (e : LogEntry) :
    (∀ t ∈ (recStep cfg acc e).1, MOK t) ∧ MOK (recStep cfg acc e).2.1 := by
  obtain ⟨done, cur, mx⟩ := acc
  obtain ⟨hd, hc⟩ := h
  simp only at hd hc
  by_cases hsz : cur.size ≥ cfg.memTableSize
  · simp only [recStep, hsz, if_true]
    constructor
    · intro t ht
      rcases List.mem_append.mp ht with ht | ht
      · exact hd t ht
      · simp only [List.mem_singleton] at ht
        subst ht
        exact hc.freeze
    · split
      · exact MOK.empty.add _
      · exact MOK.empty
  · simp only [recStep, hsz, if_false]
    refine ⟨hd, ?_⟩
    split
    · exact hc.add _
    · exact hc

theorem foldl_recStep_ok (cfg : Cfg) : ∀ (es : List LogEntry) (acc : List MemTable × MemTable × Nat),
    ((∀ t ∈ acc.1, MOK t) ∧ MOK acc.2.1) →
    (∀ t ∈ (es.foldl (recStep cfg) acc).1, MOK t) ∧ MOK (es.foldl (recStep cfg) acc).2.1 := by
  intro es
  induction es with
  | nil => intro acc h; exact h
  | cons e es ih =>
    intro acc h
    exact ih _ (recStep_ok cfg h e)

theorem poolStep_ok {p : Pool} (h : MOK p.active ∧ ∀ m ∈ p.immutables, MOK m) {t : MemTable} (ht : MOK t) :
    MOK (poolStep p t).active ∧ ∀ m ∈ (poolStep p t).immutables, MOK m := by
  unfold poolStep
  split
  · refine ⟨ht, ?_⟩
    intro m hm
    rcases List.mem_append.mp hm with hm | hm
    · exact h.2 m hm
    · simp only [List.mem_singleton] at hm
      subst hm
      exact h.1.freeze
  · exact ⟨ht, h.2⟩

theorem foldl_poolStep_ok : ∀ (ts : List MemTable) (p : Pool), (MOK p.active ∧ ∀ m ∈ p.immutables, MOK m) →
    (∀ t ∈ ts, MOK t) →
    MOK (ts.foldl poolStep p).active ∧ ∀ m ∈ (ts.foldl poolStep p).immutables, MOK m := by
  intro ts
  induction ts with
  | nil => intro p h _; exact h
  | cons t ts ih =>
    intro p h hts
    exact ih _ (poolStep_ok h (hts t (by simp))) (fun t' ht' => hts t' (by simp [ht']))

theorem reopen_sinv {s : St} (h : SInv s) : SInv (reopen s) := by
  rw [reopen_eq]
  have h0 : (∀ t ∈ (([] : List MemTable), ({} : MemTable), 0).1, MOK t) ∧
      MOK (([] : List MemTable), ({} : MemTable), 0).2.1 := ⟨by simp, MOK.empty⟩
  have hr := foldl_recStep_ok s.cfg s.wal.flatten _ h0
  generalize s.wal.flatten.foldl (recStep s.cfg) ([], {}, 0) = r at hr
  obtain ⟨done, cur, mx⟩ := r
  obtain ⟨hd, hc⟩ := hr
  simp only at hd hc
  have hall : ∀ t ∈ done ++ [cur], MOK t := by
    intro t ht
    rcases List.mem_append.mp ht with ht | ht
    · exact hd t ht
    · simp only [List.mem_singleton] at ht
      subst ht
      exact hc
  have hp := foldl_poolStep_ok (done ++ [cur]) {} ⟨MOK.empty, by simp⟩ hall
  refine ⟨hp.1, hp.2, ?_, ?_⟩
  · intro m hm
    simp only [List.dropLast_concat, List.mem_map] at hm
    obtain ⟨t, ht, rfl⟩ := hm
    exact (hd t ht).freeze
  · intro t ht
    exact h.ssts t (mem_sortSSTs ht)

theorem reopenC_sinv {s : St} (h : SInv s) : SInv (reopenC s) := by
  have hr := reopen_sinv h
  unfold reopenC reopenFresh
  split
  · split
    · exact hr
    · exact ⟨hr.active, hr.imms, hr.mgr, hr.ssts⟩
  · exact hr

/-! ### the invariant along a program -/

theorem init_sinv (cfg : Cfg) : SInv (init cfg) :=
  ⟨MOK.empty, by simp [init], by simp [init], by simp [init]⟩

theorem step_sinv {s : St} (h : SInv s) (o : Op) : SInv (engStep s o).1 := by
  cases o with
  | put k v => exact put_sinv h k v
  | del k => exact delete_sinv h k
  | batch ops => exact batch_sinv h ops
  | get k => exact h
  | flush => exact flushMemTables_sinv h
  | reopen => exact reopenC_sinv h

theorem mapRun_cons (m : KVMap) (o : Op) (ops : List Op) : mapRun m (o :: ops) = mapRun (mapStep m o).1 ops := rfl

theorem run_invs_from : ∀ (ops : List Op) (s : St) (hist : List MEntry), EInv s hist → SInv s →
    ∃ hist', EInv (engRun s ops) hist' ∧ SInv (engRun s ops) ∧ absOf hist' = mapRun (absOf hist) ops := by
  intro ops
  induction ops with
  | nil => intro s hist h hs; exact ⟨hist, h, hs, rfl⟩
  | cons o rest ih =>
    intro s hist h hs
    obtain ⟨hist', h1, h2, h3⟩ := ih _ _ (step_inv h o) (step_sinv hs o)
    refine ⟨hist', h1, h2, ?_⟩
    rw [h3, step_abs, mapRun_cons]

/-- FINAL 1: along every program both invariants hold and the history abstracts to the final abstract map -/
theorem run_invs (cfg : Cfg) (ops : List Op) :
    ∃ hist, EInv (engRun (init cfg) ops) hist ∧ SInv (engRun (init cfg) ops) ∧ absOf hist = mapRun emptyMap ops := by
  have := run_invs_from ops (init cfg) [] (init_inv cfg) (init_sinv cfg)
  rwa [absOf_nil] at this

/-! ### the scan sources -/

/-- FINAL 2: the scan sources are sorted -/
theorem sources_ok {s : St} (h : SInv s) : SourcesOK (kvSources s) := by
  intro l hl
  unfold kvSources sources at hl
  simp only [List.map_append, List.map_cons, List.map_nil, List.map_map, List.mem_append, List.mem_cons,
    List.not_mem_nil, or_false, List.mem_map, List.mem_reverse, Function.comp] at hl
  unfold Nondec
  rcases hl with (rfl | ⟨m, hm, rfl⟩) | ⟨t, ht, rfl⟩
  · rw [h.active.visible]; exact h.active.1
  · rw [(h.imms m hm).visible]; exact (h.imms m hm).1
  · exact h.ssts t ht

theorem findSome_find_flatten {α : Type} (p : α → Bool) : ∀ (Ls : List (List α)),
    Ls.findSome? (fun l => l.find? p) = Ls.flatten.find? p := by
  intro Ls
  induction Ls with
  | nil => rfl
  | cons l ls ih =>
    simp only [List.findSome?_cons, List.flatten_cons, List.find?_append, ih]
    cases l.find? p <;> rfl

theorem map_visible_eq : ∀ (ms : List MemTable), (∀ m ∈ ms, MOK m) →
    ms.map (·.visible) = ms.map (·.entries) := by
  intro ms h
  apply List.map_congr_left
  intro m hm
  exact (h m hm).visible

/-- FINAL 3: newest-wins over the scan sources = the newest history entry of the key -/
theorem newest_sources {s : St} {hist : List MEntry} (h : EInv s hist) (hs : SInv s) (k : Bytes) :
    newest (kvSources s) k = (hist.find? (fun e => e.key == k)).map kvOf := by
  have hsrc : (sources s).flatten = poolList s.pool ++ (s.ssts.reverse.map (·.entries)).flatten := by
    unfold sources poolList
    rw [hs.active.visible, map_visible_eq _ (fun m hm => hs.imms m (List.mem_reverse.mp hm))]
    simp [List.flatMap_def]
  have hfind : ∀ (l : List MEntry), (l.map kvOf).find? (fun e => e.1 == k) = (l.find? (fun e => e.key == k)).map kvOf := by
    intro l
    rw [List.find?_map]
    rfl
  have hpool : (poolList s.pool).find? (fun e => e.key == k) = hist.find? (fun e => e.key == k) := by
    rw [← List.head?_filter, ← List.head?_filter, h.pool.1 k]
  unfold newest kvSources
  rw [findSome_find_flatten, ← List.map_flatten, hfind, hsrc, List.find?_append, hpool]
  cases hf : hist.find? (fun e => e.key == k) with
  | some e => rfl
  | none =>
    have hnone : (s.ssts.reverse.map (·.entries)).flatten.find? (fun e => e.key == k) = none := by
      rw [List.find?_eq_none]
      intro e he
      simp only [List.mem_flatten, List.mem_map, List.mem_reverse] at he
      obtain ⟨l, ⟨t, ht, rfl⟩, he⟩ := he
      rw [List.find?_eq_none] at hf
      exact hf e (h.sst t ht e he)
    rw [hnone]
    rfl

end Kevo.Proofs.Merge
