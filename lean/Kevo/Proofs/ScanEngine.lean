/-
  Kevo.Proofs.ScanEngine — scans of the engine model and of a transaction against the abstract map:
  composition of Kevo.Proofs.Scan with the engine invariants (Kevo.Proofs.Engine / MergeEngine).
-/
import Kevo.Proofs.Scan
import Kevo.Proofs.MergeEngine
namespace Kevo.Proofs.Merge
open Kevo Kevo.Engine Kevo.Spec Kevo.Merge Kevo.Proofs.Engine

theorem filter_true' {α : Type} (l : List α) : l.filter (fun _ => true) = l := by
  induction l with
  | nil => rfl
  | cons a l ih => simp

/-! ### the names the engine driver uses -/

theorem fuel_eq (h : Hier) : h.fuel = total (h.srcs.map (·.es)) + 2 := by
  simp [Hier.fuel, total, List.map_map, Function.comp_def]

theorem settle_srcs {σ : Type} (O : Ops σ) (ok : σ → Bool) (h : HierG σ) : (HierG.settle O ok h).srcs = h.srcs := by
  unfold HierG.settle; split <;> rfl

theorem first_es (f : Nat) (h : Hier) : ((storageOps f).first h).srcs.map (·.es) = h.srcs.map (·.es) := by
  simp only [storageOps, hierOps, HierG.findNext, settle_srcs, List.map_map]
  apply List.map_congr_left
  intro s _
  rfl

theorem seek_es (f : Nat) (h : Hier) (t : Bytes) : ((storageOps f).seek h t).1.srcs.map (·.es) = h.srcs.map (·.es) := by
  simp only [storageOps, hierOps, settle_srcs, List.map_map]
  apply List.map_congr_left
  intro s _
  rfl

theorem mkHier_fuel (srcs : List (List KV)) : (mkHier srcs).fuel = total srcs + 2 := by
  rw [fuel_eq, mkHier_over]

/-- (a) as the engine driver runs it -/
theorem hier_collect_wrapper (srcs : List (List KV)) (hok : SourcesOK srcs) (n : Nat) (hn : total srcs < n) :
    Hier.collect n (mkHier srcs).first = mergeSpec srcs := by
  unfold Hier.collect Hier.first
  rw [fuel_eq, first_es, mkHier_over, mkHier_fuel]
  exact storage_collect srcs hok _ n _ (mkHier_over srcs) (by omega) hn

/-- (b) as the engine driver runs it: ANY source contents, any fuel -/
theorem hier_ascending_wrapper (srcs : List (List KV)) (n : Nat) : Asc (Hier.collect n (mkHier srcs).first) := by
  unfold Hier.collect Hier.first
  rw [fuel_eq, first_es, mkHier_over, mkHier_fuel]
  exact storage_ascending srcs _ n _ (mkHier_over srcs) (by omega)

theorem bounded_first_es (lo hi : Option Bytes) (f : Nat) (h : Hier) :
    ((bOps lo hi f).first h).srcs.map (·.es) = h.srcs.map (·.es) := by
  cases lo with
  | none => exact first_es f h
  | some l => exact seek_es f h l

/-- (d) as the engine driver runs it -/
theorem bounded_collect_wrapper (srcs : List (List KV)) (hok : SourcesOK srcs) (lo hi : Option Bytes) (n : Nat)
    (hn : total srcs < n) :
    Bounded.collect n ({ h := mkHier srcs, lo := lo, hi := hi } : Bounded).first =
      (mergeSpec srcs).filter (fun e => inRange lo hi e.1) := by
  have he := bounded_first_emits srcs hok lo hi (total srcs + 2) n (mkHier srcs) (mkHier_over srcs) (by omega) hn
  have hops : ∀ (b : Bounded), b.ops = bOps b.lo b.hi b.h.fuel := fun _ => rfl
  unfold Bounded.collect Bounded.first
  simp only [hops, mkHier_fuel]
  rw [fuel_eq, bounded_first_es, mkHier_over]
  apply collect_emits _ _ n he
  have := length_mergeSpec_le hok
  have := List.length_filter_le (fun e : KV => inRange lo hi e.1) (mergeSpec srcs)
  omega

/-! ### the merged view of the engine's sources is the abstract map -/

theorem lookup_engine {s : St} {hist : List MEntry} (h : EInv s hist) (hs : SInv s) (k : Bytes) (x : Bytes) :
    lookup (mergeSpec (kvSources s)) k = some (k, some x) ↔ absOf hist k = some x := by
  rw [lookup_mergeSpec, newest_sources h hs k]
  unfold absOf
  cases hf : hist.find? (fun e => e.key == k) with
  | none => simp
  | some e =>
    have hk : e.key = k := by simpa using List.find?_some hf
    simp only [Option.map_some, Option.bind_some, kvOf, Option.some.injEq, Prod.mk.injEq, hk, true_and]

theorem mem_live_filter {M : List KV} (hasc : Asc M) (r : Bytes → Bool) (k x : Bytes) :
    (k, some x) ∈ live (M.filter (fun e => r e.1)) ↔ r k = true ∧ lookup M k = some (k, some x) := by
  unfold live
  rw [List.mem_filter, List.mem_filter, mem_iff_lookup hasc (k, some x)]
  simp only [Option.isSome_some, and_true]
  exact And.comm

theorem live_some {l : List KV} : ∀ e ∈ live l, ∃ x, e.2 = some x := by
  intro e he
  have := (List.mem_filter.mp he).2
  cases h : e.2 with
  | none => simp [h] at this
  | some x => exact ⟨x, rfl⟩

theorem live_asc {l : List KV} (h : Asc l) : Asc (live l) := filter_asc h _

/-- (f) the range scan of the engine model after ANY program = the live keys of the final abstract map in [lo,hi),
    strictly ascending (hence each once), each with its latest value -/
theorem engine_scan_range (cfg : Cfg) (ops : List Op) (lo hi : Option Bytes) (n : Nat)
    (hn : total (kvSources (engRun (init cfg) ops)) < n) :
    let out := live (Bounded.collect n ({ h := mkHier (kvSources (engRun (init cfg) ops)), lo := lo, hi := hi } : Bounded).first)
    Asc out ∧ (∀ e ∈ out, ∃ x, e.2 = some x) ∧
    ∀ k x, (k, some x) ∈ out ↔ (inRange lo hi k = true ∧ mapRun emptyMap ops k = some x) := by
  obtain ⟨hist, he, hs, habs⟩ := run_invs cfg ops
  intro out
  have hout : out = live ((mergeSpec (kvSources (engRun (init cfg) ops))).filter (fun e => inRange lo hi e.1)) := by
    show live _ = _
    rw [bounded_collect_wrapper _ (sources_ok hs) lo hi n hn]
  rw [hout]
  refine ⟨live_asc (filter_asc (mergeSpec_asc _) _), fun e he' => live_some e he', ?_⟩
  intro k x
  rw [mem_live_filter (mergeSpec_asc _) (inRange lo hi) k x, lookup_engine he hs k x, habs]

/-- (f) the full scan -/
theorem engine_scan_full (cfg : Cfg) (ops : List Op) (n : Nat)
    (hn : total (kvSources (engRun (init cfg) ops)) < n) :
    let out := live (Hier.collect n (mkHier (kvSources (engRun (init cfg) ops))).first)
    Asc out ∧ (∀ e ∈ out, ∃ x, e.2 = some x) ∧ ∀ k x, (k, some x) ∈ out ↔ mapRun emptyMap ops k = some x := by
  obtain ⟨hist, he, hs, habs⟩ := run_invs cfg ops
  intro out
  have hout : out = live (mergeSpec (kvSources (engRun (init cfg) ops))) := by
    show live _ = _
    rw [hier_collect_wrapper _ (sources_ok hs) n hn]
  rw [hout]
  refine ⟨live_asc (mergeSpec_asc _), fun e he' => live_some e he', ?_⟩
  intro k x
  have := mem_live_filter (mergeSpec_asc (kvSources (engRun (init cfg) ops))) (fun _ => true) k x
  rw [filter_true'] at this
  simp only [true_and] at this
  rw [this, lookup_engine he hs k x, habs]

/-! ### the transaction's iterators -/

theorem bufSrc_es (buf : List KV) : (bufSrc buf).es = buf := rfl

theorem bounded_src_first_emits (buf : List KV) (hb : Asc buf) (lo hi : Option Bytes) (fuel : Nat) (b : Src) (hes : b.es = buf) :
    Emits (boundedOps srcOps lo hi fuel) ((boundedOps srcOps lo hi fuel).first b) (buf.filter (fun e => inRange lo hi e.1)) := by
  cases lo with
  | none =>
    have he := src_first_emits b
    rw [hes] at he
    have := bounded_emits srcOps none hi fuel _ _ he
    rwa [takeWhile_inRange_none hb hi] at this
  | some l =>
    have he := src_seek_emits b l
    rw [hes, dropLT_eq_filter (asc_nondec hb) l] at he
    have := bounded_emits srcOps (some l) hi fuel _ _ he
    rwa [takeWhile_inRange_some hb l hi] at this

theorem total_pair (A B : List KV) : total [A, B] = A.length + B.length := by
  simp [total]

/-- Hierarchical[child showing buf', child showing M'] where buf' / M' are the r-parts of the buffer and of the
    merged storage view: shows the r-part of the overlay -/
theorem tx_emits_gen (buf : List KV) (srcs : List (List KV)) (hb : Asc buf) (hok : SourcesOK srcs) (r : Bytes → Bool)
    (A : Ops Src) (B : Ops Hier) (fuel : Nat)
    (hA : Emits A (A.first (bufSrc buf)) (buf.filter (fun e => r e.1)))
    (hB : Emits B (B.first (mkHier srcs)) ((mergeSpec srcs).filter (fun e => r e.1)))
    (hf : total srcs + buf.length + 1 ≤ fuel) :
    Emits (hierOps (sumOps A B) fuel) ((hierOps (sumOps A B) fuel).first (mkTx buf srcs))
      ((mergeSpec (buf :: srcs)).filter (fun e => r e.1)) := by
  have hlenM := length_mergeSpec_le hok
  have hl1 := List.length_filter_le (fun e : KV => r e.1) buf
  have hl2 := List.length_filter_le (fun e : KV => r e.1) (mergeSpec srcs)
  have hall : EmitsAll (sumOps A B) ((mkTx buf srcs).srcs.map (sumOps A B).first)
      [buf.filter (fun e => r e.1), (mergeSpec srcs).filter (fun e => r e.1)] :=
    ⟨sum_emits_inl A B _ _ hA, sum_emits_inr A B _ _ hB, trivial⟩
  have he := hier_first_emits (sumOps A B) fuel (fuel + 1) (mkTx buf srcs) _ hall
    (by rw [total_pair]; omega)
    (by
      intro L hL
      simp only [List.mem_cons, List.not_mem_nil, or_false] at hL
      rcases hL with rfl | rfl <;> omega)
  have hsok : SourcesOK [buf.filter (fun e => r e.1), (mergeSpec srcs).filter (fun e => r e.1)] := by
    intro L hL
    simp only [List.mem_cons, List.not_mem_nil, or_false] at hL
    rcases hL with rfl | rfl
    · exact filter_nondec (asc_nondec hb) _
    · exact filter_nondec (asc_nondec (mergeSpec_asc srcs)) _
  rw [mergeRun_eq_mergeSpec hsok (by rw [total_pair]; omega), mergeSpec_overlay (asc_nondec hb) hok r] at he
  exact he

/-- Transaction.NewIterator with buffered operations: the buffer overlays the storage view -/
theorem tx_first_emits (buf : List KV) (srcs : List (List KV)) (hb : Asc buf) (hok : SourcesOK srcs) (fuel : Nat)
    (hf : total srcs + buf.length + 1 ≤ fuel) :
    Emits (txOps fuel) ((txOps fuel).first (mkTx buf srcs)) (mergeSpec (buf :: srcs)) := by
  have hA : Emits srcOps (srcOps.first (bufSrc buf)) (buf.filter (fun e => (fun _ => true) e.1)) := by
    rw [filter_true']; exact src_first_emits (bufSrc buf)
  have hB : Emits (storageOps fuel) ((storageOps fuel).first (mkHier srcs)) ((mergeSpec srcs).filter (fun e => (fun _ => true) e.1)) := by
    rw [filter_true']
    have := storage_first_emits srcs fuel (total srcs + 1) (mkHier srcs) (mkHier_over srcs) (by omega) (by omega)
    rwa [mergeRun_eq_mergeSpec hok (Nat.lt_succ_self _)] at this
  have := tx_emits_gen buf srcs hb hok (fun _ => true) srcOps (storageOps fuel) fuel hA hB hf
  rw [filter_true'] at this
  exact this

/-- Transaction.NewRangeIterator with buffered operations -/
theorem txRange_first_emits (buf : List KV) (srcs : List (List KV)) (hb : Asc buf) (hok : SourcesOK srcs) (lo hi : Option Bytes)
    (fuel : Nat) (hf : total srcs + buf.length + 1 ≤ fuel) :
    Emits (txRangeOps lo hi fuel) ((txRangeOps lo hi fuel).first (mkTx buf srcs))
      ((mergeSpec (buf :: srcs)).filter (fun e => inRange lo hi e.1)) :=
  tx_emits_gen buf srcs hb hok (inRange lo hi) (boundedOps srcOps lo hi fuel) (boundedOps (storageOps fuel) lo hi fuel) fuel
    (bounded_src_first_emits buf hb lo hi fuel (bufSrc buf) rfl)
    (bounded_first_emits srcs hok lo hi fuel (total srcs + 1) (mkHier srcs) (mkHier_over srcs) (by omega) (by omega)) hf

theorem mergeSpec_nil_cons (srcs : List (List KV)) : mergeSpec ([] :: srcs) = mergeSpec srcs := by
  apply asc_ext (mergeSpec_asc _) (mergeSpec_asc _)
  intro k
  rw [lookup_mergeSpec, lookup_mergeSpec, newest_cons, lookup_nil]

/-- TxScan of the service = the specification over the buffer as the newest source -/
theorem service_tx_scan (o : ScanOpts) (buf : List KV) (srcs : List (List KV)) (hb : Asc buf) (hok : SourcesOK srcs) :
    serviceTxScan o buf srcs = serviceSpec o (buf :: srcs) := by
  unfold serviceTxScan
  by_cases hbe : buf.isEmpty = true
  · have : buf = [] := by simpa using hbe
    subst this
    rw [if_pos hbe, service_scan o srcs hok, serviceSpec_eq, serviceSpec_eq, mergeSpec_nil_cons]
  · rw [if_neg hbe, serviceSpec_eq]
    have htl : totalLen srcs = total srcs := rfl
    simp only [htl]
    have hsok : SourcesOK (buf :: srcs) := sourcesOK_cons.mpr ⟨asc_nondec hb, hok⟩
    have hlen := length_mergeSpec_le hsok
    rw [total_cons] at hlen
    have hbase := tx_first_emits buf srcs hb hok (total srcs + buf.length + 2) (by omega)
    have hrange := txRange_first_emits buf srcs hb hok (optB o.start) (optB o.stop) (total srcs + buf.length + 2) (by omega)
    have hw := serviceWrap_emits o (txOps (total srcs + buf.length + 2))
      (txRangeOps (optB o.start) (optB o.stop) (total srcs + buf.length + 2)) (total srcs + buf.length + 2)
      (mkTx buf srcs) (mergeSpec (buf :: srcs)) hbase hrange (by omega)
    exact runScan_emits _ _ _ _ _ hw (by have := length_serviceView_le o (mergeSpec (buf :: srcs)); omega)

/-! ### the buffer as the first source = the abstract map with the buffered operations applied -/

theorem bufferKV_asc (bops : List (Bool × Bytes × Bytes)) : Asc (bufferKV bops) := mergeSpec_asc _

theorem lookup_bufferKV (bops : List (Bool × Bytes × Bytes)) (k : Bytes) :
    lookup (bufferKV bops) k = (bops.reverse.find? (fun o => o.2.1 == k)).map opKV := by
  unfold bufferKV
  rw [lookup_mergeSpec, newest_cons, newest_nil]
  have : lookup (bops.map opKV).reverse k = (bops.reverse.find? (fun o => o.2.1 == k)).map opKV := by
    unfold lookup
    rw [← List.map_reverse, List.find?_map]
    rfl
  rw [this]
  cases (bops.reverse.find? (fun o => o.2.1 == k)) <;> rfl

theorem applyBatch_eq (k : Bytes) : ∀ (bops : List (Bool × Bytes × Bytes)) (m : KVMap),
    applyBatch m bops k = match bops.reverse.find? (fun o => o.2.1 == k) with
      | some o => (opKV o).2
      | none => m k := by
  intro bops
  induction bops with
  | nil => intro m; rfl
  | cons o rest ih =>
    intro m
    have hstep : applyBatch m (o :: rest) = applyBatch (m.set o.2.1 (if o.1 then none else some o.2.2)) rest := by
      rcases o with ⟨d, k', v⟩; rfl
    rw [hstep, ih, List.reverse_cons, List.find?_append]
    cases hf : rest.reverse.find? (fun o => o.2.1 == k) with
    | some o' => rfl
    | none =>
      simp only [Option.none_or, List.find?_cons, List.find?_nil]
      by_cases hk : o.2.1 = k
      · simp [hk, KVMap.set, opKV]
      · have : (o.2.1 == k) = false := by simpa using hk
        simp only [this]
        have hk' : ¬ k = o.2.1 := fun h => hk h.symm
        simp [KVMap.set, hk']

/-- the overlay of the buffer on the engine's merged view reads as the abstract map after the buffered operations -/
theorem lookup_overlay {s : St} {hist : List MEntry} (h : EInv s hist) (hs : SInv s) (bops : List (Bool × Bytes × Bytes))
    (k x : Bytes) :
    lookup (mergeSpec (bufferKV bops :: kvSources s)) k = some (k, some x) ↔ applyBatch (absOf hist) bops k = some x := by
  rw [lookup_mergeSpec, newest_cons, lookup_bufferKV, applyBatch_eq]
  cases hf : bops.reverse.find? (fun o => o.2.1 == k) with
  | some o =>
    have hk : o.2.1 = k := by simpa using List.find?_some hf
    simp only [Option.map_some, Option.some.injEq]
    constructor
    · intro h'; rw [h']
    · intro h'
      have : opKV o = ((opKV o).1, (opKV o).2) := rfl
      rw [this, h']
      simp [opKV, hk]
  | none =>
    simp only [Option.map_none]
    rw [← lookup_mergeSpec]
    exact lookup_engine h hs k x

end Kevo.Proofs.Merge
