/-
  Kevo.Proofs.BlockCodec — round trip of the block serialisation (helper file for Proofs/Table).
-/
import Kevo.Model.Block
namespace Kevo.Proofs.TableAux
open Kevo Kevo.Block

/-- same body as `Kevo.Proofs.Table.EntryWF` (that file imports this one). -/
def EWF (e : BEntry) : Prop :=
  e.key.length ≤ 65535 ∧ (∀ v, e.val = some v → v.length < 2 ^ 32 - 1) ∧ e.seq < 2 ^ 64

def HOK (hash : Bytes → Nat) : Prop := ∀ bs, hash bs < 2 ^ 64

/-! ### generic list / slice lemmas -/

theorem slice_mid (a b c : Bytes) (n m : Nat) (hn : a.length = n) (hm : b.length = m) :
    slice (a ++ b ++ c) n m = b := by
  unfold slice
  rw [List.append_assoc, List.drop_left' hn]
  exact List.take_left' hm

theorem slice_mid' (a b : Bytes) (n m : Nat) (hn : a.length = n) (hm : b.length = m) :
    slice (a ++ b) n m = b := by
  have := slice_mid a b [] n m hn hm
  simpa using this

theorem slice_zero (b c : Bytes) (m : Nat) (hm : b.length = m) : slice (b ++ c) 0 m = b := by
  unfold slice
  rw [List.drop_zero]
  exact List.take_left' hm

/-! ### commonPrefix -/

theorem commonPrefix_le_left (a b : Bytes) : commonPrefix a b ≤ a.length := by
  induction a generalizing b with
  | nil => simp [commonPrefix]
  | cons x xs ih =>
    cases b with
    | nil => simp [commonPrefix]
    | cons y ys =>
      simp only [commonPrefix]
      split
      · have := ih ys; simp; omega
      · omega

theorem commonPrefix_le_right (a b : Bytes) : commonPrefix a b ≤ b.length := by
  induction a generalizing b with
  | nil => simp [commonPrefix]
  | cons x xs ih =>
    cases b with
    | nil => simp [commonPrefix]
    | cons y ys =>
      simp only [commonPrefix]
      split
      · have := ih ys; simp; omega
      · omega

theorem commonPrefix_take (a b : Bytes) :
    a.take (commonPrefix a b) ++ b.drop (commonPrefix a b) = b := by
  induction a generalizing b with
  | nil => simp [commonPrefix]
  | cons x xs ih =>
    cases b with
    | nil => simp [commonPrefix]
    | cons y ys =>
      simp only [commonPrefix]
      split
      · rename_i h; subst h; simp [ih ys]
      · simp

/-! ### decodeAt in two stages -/

def decodeKey (data : Bytes) (isRestart : Bool) (pk : Bytes) : Option (Bytes × Nat) :=
  if isRestart then
    if data.length < 2 then none
    else
      let kl := unle (data.take 2)
      if data.length - 2 < kl then none else some (slice data 2 kl, 2 + kl)
  else
    if data.length < 4 then none
    else
      let sh := unle (data.take 2)
      let un := unle (slice data 2 2)
      if sh > pk.length then none
      else if data.length - 4 < un then none
      else if sh + un > 65536 then none
      else some (pk.take sh ++ slice data 4 un, 4 + un)

def decodeTail (data : Bytes) (key : Bytes) (base : Nat) : Option (BEntry × Nat) :=
  let (seq, used2) := if data.length ≥ 12 then (unle (data.take 8), 8) else (0, 0)
  let data := data.drop used2
  if data.length < 4 then none
  else
    let vl := unle (data.take 4)
    if vl = tombMarker then some ({ key, val := none, seq }, base + used2 + 4)
    else if data.length - 4 < vl then none
    else some ({ key, val := some (slice data 4 vl), seq }, base + used2 + 4 + vl)

theorem decodeAt_eq (r : Reader) (pos : Nat) (prev : Option Bytes) :
    decodeAt r pos prev =
      if pos ≥ r.dataEnd then none
      else match decodeKey (r.data.drop pos) (r.restarts.contains pos || prev.isNone) (prev.getD []) with
        | none => none
        | some (key, used) => decodeTail ((r.data.drop pos).drop used) key (pos + used) := by
  rfl

theorem decodeKey_restart (key rest pk : Bytes) (hk : key.length ≤ 65535) :
    decodeKey (le 2 key.length ++ key ++ rest) true pk = some (key, 2 + key.length) := by
  have hl : (le 2 key.length ++ key ++ rest).length = 2 + key.length + rest.length := by simp; omega
  have h2 : (le 2 key.length ++ key ++ rest).take 2 = le 2 key.length := by
    rw [List.append_assoc]; exact List.take_left' (le_length _ _)
  have hu : unle (le 2 key.length) = key.length := unle_le 2 _ (by omega)
  have hs : slice (le 2 key.length ++ key ++ rest) 2 key.length = key := slice_mid _ _ _ _ _ (le_length _ _) rfl
  unfold decodeKey
  simp only [if_true, hl, h2, hu, hs]
  have c1 : ¬ (2 + key.length + rest.length < 2) := by omega
  have c2 : ¬ (2 + key.length + rest.length - 2 < key.length) := by omega
  simp only [if_neg c1, if_neg c2]

theorem decodeKey_delta (key rest pk : Bytes) (hk : key.length ≤ 65535) :
    decodeKey (le 2 (commonPrefix pk key) ++ le 2 (key.length - commonPrefix pk key) ++
        key.drop (commonPrefix pk key) ++ rest) false pk =
      some (key, 4 + (key.length - commonPrefix pk key)) := by
  generalize hc : commonPrefix pk key = c
  have hcl : c ≤ pk.length := by rw [← hc]; exact commonPrefix_le_left _ _
  have hcr : c ≤ key.length := by rw [← hc]; exact commonPrefix_le_right _ _
  have hkey : pk.take c ++ key.drop c = key := by rw [← hc]; exact commonPrefix_take _ _
  generalize hD : le 2 c ++ le 2 (key.length - c) ++ key.drop c ++ rest = D
  have hl : D.length = 4 + (key.length - c) + rest.length := by
    rw [← hD]; simp; omega
  have h2 : D.take 2 = le 2 c := by
    rw [← hD, List.append_assoc, List.append_assoc]; exact List.take_left' (le_length _ _)
  have h22 : slice D 2 2 = le 2 (key.length - c) := by
    rw [← hD, List.append_assoc]; exact slice_mid _ _ _ _ _ (le_length _ _) (le_length _ _)
  have h4 : slice D 4 (key.length - c) = key.drop c := by
    rw [← hD]; exact slice_mid _ _ _ _ _ (by simp) (by simp)
  have hu1 : unle (le 2 c) = c := unle_le 2 _ (by omega)
  have hu2 : unle (le 2 (key.length - c)) = key.length - c := unle_le 2 _ (by omega)
  unfold decodeKey
  simp only [Bool.false_eq_true, if_false, hl, h2, h22, hu1, hu2, h4, hkey]
  have c1 : ¬ (4 + (key.length - c) + rest.length < 4) := by omega
  have c2 : ¬ (c > pk.length) := by omega
  have c3 : ¬ (4 + (key.length - c) + rest.length - 4 < key.length - c) := by omega
  have c4 : ¬ (c + (key.length - c) > 65536) := by omega
  simp only [if_neg c1, if_neg c2, if_neg c3, if_neg c4]

theorem encValue_length (v : Option Bytes) : (encValue v).length = 4 + (v.getD []).length := by
  cases v <;> simp [encValue]

theorem decodeTail_enc (key rest : Bytes) (base seq : Nat) (val : Option Bytes) (hseq : seq < 2 ^ 64)
    (hv : ∀ v, val = some v → v.length < 2 ^ 32 - 1) :
    decodeTail (le 8 seq ++ encValue val ++ rest) key base =
      some ({ key, val, seq }, base + 8 + (encValue val).length) := by
  generalize hD : le 8 seq ++ encValue val ++ rest = D
  have hl : D.length = 8 + (encValue val).length + rest.length := by rw [← hD]; simp; omega
  have hvl := encValue_length val
  have h8 : D.take 8 = le 8 seq := by
    rw [← hD, List.append_assoc]; exact List.take_left' (le_length _ _)
  have hd8 : D.drop 8 = encValue val ++ rest := by
    rw [← hD, List.append_assoc]; exact List.drop_left' (le_length _ _)
  have hu : unle (le 8 seq) = seq := unle_le 8 _ (by omega)
  have c0 : D.length ≥ 12 := by omega
  unfold decodeTail
  simp only [if_pos c0, h8, hu, hd8]
  cases val with
  | none =>
    have h4 : (encValue none ++ rest).take 4 = le 4 tombMarker := by
      simp only [encValue]; exact List.take_left' (le_length _ _)
    have hu4 : unle (le 4 tombMarker) = tombMarker := unle_le 4 _ (by simp [tombMarker])
    have c1 : ¬ ((encValue none ++ rest).length < 4) := by simp [encValue]
    simp only [if_neg c1, h4, hu4, if_true]
    simp [encValue]
  | some v =>
    have hvv := hv v rfl
    have h4 : (encValue (some v) ++ rest).take 4 = le 4 v.length := by
      simp only [encValue]; rw [List.append_assoc]; exact List.take_left' (le_length _ _)
    have hu4 : unle (le 4 v.length) = v.length := unle_le 4 _ (by omega)
    have c1 : ¬ ((encValue (some v) ++ rest).length < 4) := by simp [encValue]
    have c2 : ¬ (v.length = tombMarker) := by simp [tombMarker]; omega
    have c3 : ¬ ((encValue (some v) ++ rest).length - 4 < v.length) := by simp [encValue]
    have hs : slice (encValue (some v) ++ rest) 4 v.length = v := by
      simp only [encValue]; exact slice_mid _ _ _ _ _ (le_length _ _) rfl
    simp only [if_neg c1, h4, hu4, if_neg c2, if_neg c3, hs]
    simp [encValue]; omega

theorem encEntry_length (isR : Bool) (prev : Bytes) (e : BEntry) :
    (encEntry isR prev e).length =
      (if isR then 2 + e.key.length else 4 + (e.key.length - commonPrefix prev e.key)) + 8 + (encValue e.val).length := by
  unfold encEntry
  cases isR <;> simp <;> omega

theorem encEntry_length_ge (isR : Bool) (prev : Bytes) (e : BEntry) : 14 ≤ (encEntry isR prev e).length := by
  rw [encEntry_length, encValue_length]
  cases isR <;> simp <;> omega

theorem decodeAt_enc (r : Reader) (pfx rest : Bytes) (isR : Bool) (prev : Bytes) (prevOpt : Option Bytes) (e : BEntry)
    (he : EWF e) (hdata : r.data = pfx ++ encEntry isR prev e ++ rest)
    (hend : pfx.length < r.dataEnd)
    (hR : (r.restarts.contains pfx.length || prevOpt.isNone) = isR)
    (hprev : isR = false → prevOpt = some prev) :
    decodeAt r pfx.length prevOpt = some (e, pfx.length + (encEntry isR prev e).length) := by
  obtain ⟨hk2, hv, hs⟩ := he
  have hdrop : r.data.drop pfx.length = encEntry isR prev e ++ rest := by
    rw [hdata, List.append_assoc]; exact List.drop_left' rfl
  rw [decodeAt_eq, if_neg (by omega), hdrop, hR, encEntry_length]
  cases isR with
  | true =>
    have e1 : encEntry true prev e ++ rest = le 2 e.key.length ++ e.key ++ (le 8 e.seq ++ encValue e.val ++ rest) := by
      simp [encEntry]
    have e2 : (le 2 e.key.length ++ e.key ++ (le 8 e.seq ++ encValue e.val ++ rest)).drop (2 + e.key.length) =
        le 8 e.seq ++ encValue e.val ++ rest := List.drop_left' (by simp)
    rw [e1, decodeKey_restart _ _ _ hk2]
    simp only [e2, decodeTail_enc _ _ _ _ _ hs hv, if_true]
    simp only [Nat.add_assoc]
  | false =>
    have hp := hprev rfl
    subst hp
    have e1 : encEntry false prev e ++ rest = le 2 (commonPrefix prev e.key) ++ le 2 (e.key.length - commonPrefix prev e.key) ++
        e.key.drop (commonPrefix prev e.key) ++ (le 8 e.seq ++ encValue e.val ++ rest) := by
      simp [encEntry]
    have e2 : (le 2 (commonPrefix prev e.key) ++ le 2 (e.key.length - commonPrefix prev e.key) ++
        e.key.drop (commonPrefix prev e.key) ++ (le 8 e.seq ++ encValue e.val ++ rest)).drop
          (4 + (e.key.length - commonPrefix prev e.key)) = le 8 e.seq ++ encValue e.val ++ rest :=
      List.drop_left' (by simp; omega)
    rw [e1, Option.getD_some, decodeKey_delta _ _ _ hk2]
    simp only [e2, decodeTail_enc _ _ _ _ _ hs hv, Bool.false_eq_true, if_false]
    simp only [Nat.add_assoc]

/-! ### encEntries -/

theorem encEntries_cons (ri cnt : Nat) (prev : Bytes) (off : Nat) (e : BEntry) (es : List BEntry) :
    encEntries ri cnt prev off (e :: es) =
      (encEntry (decide (cnt ≥ ri)) prev e ++
        (encEntries ri ((if decide (cnt ≥ ri) then 0 else cnt) + 1) e.key
          (off + (encEntry (decide (cnt ≥ ri)) prev e).length) es).1,
       if decide (cnt ≥ ri) then
         off :: (encEntries ri ((if decide (cnt ≥ ri) then 0 else cnt) + 1) e.key
          (off + (encEntry (decide (cnt ≥ ri)) prev e).length) es).2
       else (encEntries ri ((if decide (cnt ≥ ri) then 0 else cnt) + 1) e.key
          (off + (encEntry (decide (cnt ≥ ri)) prev e).length) es).2) := by
  rfl

theorem encEntries_rs_bounds (ri : Nat) (es : List BEntry) : ∀ (cnt : Nat) (prev : Bytes) (off : Nat),
    ∀ x ∈ (encEntries ri cnt prev off es).2, off ≤ x ∧ x < off + (encEntries ri cnt prev off es).1.length := by
  induction es with
  | nil => intro cnt prev off x hx; simp [encEntries] at hx
  | cons e es ih =>
    intro cnt prev off x hx
    rw [encEntries_cons] at hx ⊢
    generalize (if decide (cnt ≥ ri) = true then 0 else cnt) + 1 = cnt' at *
    generalize decide (cnt ≥ ri) = isR at *
    have hge := encEntry_length_ge isR prev e
    simp only [List.length_append]
    have hrec : ∀ y ∈ (encEntries ri cnt' e.key (off + (encEntry isR prev e).length) es).2, off ≤ y ∧ y < off +
          ((encEntry isR prev e).length + (encEntries ri cnt' e.key (off + (encEntry isR prev e).length) es).1.length) := by
      intro y hy
      have := ih _ _ _ y hy
      omega
    cases isR with
    | true =>
      simp only [if_true] at hx
      rcases List.mem_cons.mp hx with rfl | hx
      · omega
      · exact hrec x hx
    | false => exact hrec x hx

theorem encEntries_body_ge (ri : Nat) (es : List BEntry) : ∀ (cnt : Nat) (prev : Bytes) (off : Nat),
    14 * es.length ≤ (encEntries ri cnt prev off es).1.length := by
  induction es with
  | nil => intro cnt prev off; simp
  | cons e es ih =>
    intro cnt prev off
    rw [encEntries_cons]
    have hge := encEntry_length_ge (decide (cnt ≥ ri)) prev e
    have := ih ((if decide (cnt ≥ ri) then 0 else cnt) + 1) e.key (off + (encEntry (decide (cnt ≥ ri)) prev e).length)
    simp only [List.length_append, List.length_cons]
    omega

theorem encEntries_rs_length (ri : Nat) (es : List BEntry) : ∀ (cnt : Nat) (prev : Bytes) (off : Nat),
    (encEntries ri cnt prev off es).2.length ≤ es.length := by
  induction es with
  | nil => intro cnt prev off; simp [encEntries]
  | cons e es ih =>
    intro cnt prev off
    rw [encEntries_cons]
    generalize (if decide (cnt ≥ ri) = true then 0 else cnt) + 1 = cnt' at *
    generalize decide (cnt ≥ ri) = isR at *
    have := ih cnt' e.key (off + (encEntry isR prev e).length)
    cases isR <;> simp <;> omega

theorem decodeAllAux_enc (r : Reader) (ri : Nat) : ∀ (es : List BEntry) (cnt : Nat) (prev : Bytes)
    (prevOpt : Option Bytes) (pfx rest : Bytes) (off fuel : Nat),
    pfx.length = off →
    r.data = pfx ++ (encEntries ri cnt prev off es).1 ++ rest →
    r.dataEnd = off + (encEntries ri cnt prev off es).1.length →
    (∀ x, off ≤ x → r.restarts.contains x = (encEntries ri cnt prev off es).2.contains x) →
    (prevOpt = some prev ∨ (prevOpt = none ∧ ri ≤ cnt)) →
    (∀ e ∈ es, EWF e) →
    es.length < fuel →
    decodeAllAux r fuel off prevOpt = es := by
  intro es
  induction es with
  | nil =>
    intro cnt prev prevOpt pfx rest off fuel hoff hdata hend hrs hprev hwf hfuel
    obtain ⟨f, rfl⟩ : ∃ f, fuel = f + 1 := ⟨fuel - 1, by simp at hfuel; omega⟩
    simp only [encEntries, List.length_nil, Nat.add_zero] at hend
    rw [decodeAllAux, decodeAt_eq, if_pos (by omega)]
  | cons e es ih =>
    intro cnt prev prevOpt pfx rest off fuel hoff hdata hend hrs hprev hwf hfuel
    obtain ⟨f, rfl⟩ : ∃ f, fuel = f + 1 := ⟨fuel - 1, by simp at hfuel; omega⟩
    rw [encEntries_cons] at hdata hend hrs
    generalize (if decide (cnt ≥ ri) = true then 0 else cnt) + 1 = cnt' at *
    generalize hisR : decide (cnt ≥ ri) = isR at *
    have hge := encEntry_length_ge isR prev e
    have hbnd := encEntries_rs_bounds ri es cnt' e.key (off + (encEntry isR prev e).length)
    simp only [List.length_append] at hend
    subst hoff
    have hstep := decodeAt_enc r pfx ((encEntries ri cnt' e.key (pfx.length + (encEntry isR prev e).length) es).1 ++ rest)
      isR prev prevOpt e (hwf e (by simp)) (by rw [hdata]; simp) (by omega)
      (by
        have h1 := hrs pfx.length (Nat.le_refl _)
        cases isR with
        | true => simp only [if_true] at h1; rw [h1]; simp
        | false =>
          simp only [Bool.false_eq_true, if_false] at h1
          have hp : prevOpt = some prev := by
            rcases hprev with h | ⟨_, h⟩
            · exact h
            · simp at hisR; omega
          rw [h1, hp]
          simp only [Option.isNone_some, Bool.or_false]
          cases hc : (encEntries ri cnt' e.key (pfx.length + (encEntry false prev e).length) es).2.contains pfx.length with
          | false => rfl
          | true =>
            have := hbnd pfx.length (by simpa using hc)
            omega)
      (by
        intro h
        rcases hprev with h' | ⟨_, h'⟩
        · exact h'
        · subst h; simp at hisR; omega)
    rw [decodeAllAux, hstep]
    simp only
    congr 1
    apply ih cnt' e.key (some e.key) (pfx ++ encEntry isR prev e) rest _ f (by simp)
    · rw [hdata]; simp
    · omega
    · intro x hx
      rw [hrs x (by omega)]
      cases isR with
      | true =>
        simp only [if_true, List.contains_cons]
        have : (x == pfx.length) = false := by simp; omega
        rw [this, Bool.false_or]
      | false => simp
    · exact Or.inl rfl
    · intro e' he'; exact hwf e' (by simp [he'])
    · simp at hfuel; omega

/-! ### trailer: restart array, count, checksum -/

theorem flatMap_le4_length (rs : List Nat) : (rs.flatMap (le 4)).length = 4 * rs.length := by
  induction rs with
  | nil => rfl
  | cons x rs ih => simp [List.flatMap_cons, ih]; omega

theorem readRestarts_flatMap : ∀ (rs : List Nat) (pfx rest : Bytes) (off : Nat), pfx.length = off →
    (∀ x ∈ rs, x < 2 ^ 32) →
    readRestarts (pfx ++ rs.flatMap (le 4) ++ rest) off rs.length = rs := by
  intro rs
  induction rs with
  | nil => intro pfx rest off _ _; rfl
  | cons x rs ih =>
    intro pfx rest off hoff hlt
    simp only [List.length_cons, readRestarts, List.flatMap_cons]
    have e1 : pfx ++ (le 4 x ++ rs.flatMap (le 4)) ++ rest = pfx ++ le 4 x ++ (rs.flatMap (le 4) ++ rest) := by simp
    have e2 : pfx ++ (le 4 x ++ rs.flatMap (le 4)) ++ rest = (pfx ++ le 4 x) ++ rs.flatMap (le 4) ++ rest := by simp
    congr 1
    · rw [e1, slice_mid _ _ _ _ _ hoff (le_length _ _)]
      exact unle_le 4 _ (by have := hlt x (by simp); omega)
    · rw [e2]
      exact ih (pfx ++ le 4 x) rest (off + 4) (by simp [hoff]) (fun y hy => hlt y (by simp [hy]))

theorem encode_eq (ri : Nat) (hash : Bytes → Nat) (es : List BEntry) :
    encode ri hash es =
      ((encEntries ri ri [] 0 es).1 ++ (encEntries ri ri [] 0 es).2.flatMap (le 4) ++ le 4 (encEntries ri ri [] 0 es).2.length) ++
        le 8 (hash ((encEntries ri ri [] 0 es).1 ++ (encEntries ri ri [] 0 es).2.flatMap (le 4) ++
          le 4 (encEntries ri ri [] 0 es).2.length)) := by
  rfl

theorem openBlock_shape (hash : Bytes → Nat) (hh : HOK hash) (body : Bytes) (rs : List Nat)
    (hrs : ∀ x ∈ rs, x < 2 ^ 32) (hn : rs.length < 2 ^ 32) :
    openBlock hash ((body ++ rs.flatMap (le 4) ++ le 4 rs.length) ++ le 8 (hash (body ++ rs.flatMap (le 4) ++ le 4 rs.length))) =
      some { data := (body ++ rs.flatMap (le 4) ++ le 4 rs.length) ++ le 8 (hash (body ++ rs.flatMap (le 4) ++ le 4 rs.length)),
             restarts := rs, dataEnd := body.length } := by
  generalize hpre : body ++ rs.flatMap (le 4) ++ le 4 rs.length = pre
  generalize hD : pre ++ le 8 (hash pre) = D
  have hF := flatMap_le4_length rs
  have hprel : pre.length = body.length + 4 * rs.length + 4 := by rw [← hpre]; simp [hF]; omega
  have hl : D.length = body.length + 4 * rs.length + 12 := by rw [← hD]; simp [hprel]
  have hfo : D.length - footerSize = body.length + 4 * rs.length := by simp [footerSize, hl]
  have h1 : slice D (body.length + 4 * rs.length) 4 = le 4 rs.length := by
    rw [← hD, ← hpre]; exact slice_mid _ _ _ _ _ (by simp [hF]) (le_length _ _)
  have h2 : slice D (body.length + 4 * rs.length + 4) 8 = le 8 (hash pre) := by
    rw [← hD]; exact slice_mid' _ _ _ _ hprel (le_length _ _)
  have h3 : D.take (D.length - 8) = pre := by
    rw [← hD]; exact List.take_left' (by simp)
  have h4 : readRestarts D body.length rs.length = rs := by
    rw [← hD, ← hpre]
    have : body ++ rs.flatMap (le 4) ++ le 4 rs.length ++ le 8 (hash (body ++ rs.flatMap (le 4) ++ le 4 rs.length)) =
        body ++ rs.flatMap (le 4) ++ (le 4 rs.length ++ le 8 (hash (body ++ rs.flatMap (le 4) ++ le 4 rs.length))) := by simp
    rw [this]
    exact readRestarts_flatMap rs body _ _ rfl hrs
  have hu1 : unle (le 4 rs.length) = rs.length := unle_le 4 _ (by omega)
  have hu2 : unle (le 8 (hash pre)) = hash pre := unle_le 8 _ (by have := hh pre; omega)
  unfold openBlock
  have c1 : ¬ (D.length < footerSize) := by simp [footerSize, hl]
  simp only [if_neg c1, hfo, h1, h2, h3, hu1, hu2, ne_eq, not_true, if_false]
  have c2 : ¬ (body.length + 4 * rs.length < rs.length * 4) := by omega
  have e : body.length + 4 * rs.length - rs.length * 4 = body.length := by omega
  simp only [if_neg c2, e, h4]

theorem encode_length (ri : Nat) (hash : Bytes → Nat) (es : List BEntry) :
    (encode ri hash es).length =
      (encEntries ri ri [] 0 es).1.length + 4 * (encEntries ri ri [] 0 es).2.length + 12 := by
  rw [encode_eq]
  simp only [List.length_append, le_length, flatMap_le4_length]

theorem encode_length_ge (ri : Nat) (hash : Bytes → Nat) (es : List BEntry) :
    14 * es.length + 12 ≤ (encode ri hash es).length := by
  rw [encode_length]
  have := encEntries_body_ge ri es ri [] 0
  omega

/-- the round trip without the side conditions `0 < ri`, `es ≠ []` (neither is needed). -/
theorem block_roundtrip_aux (ri : Nat) (hash : Bytes → Nat) (hh : HOK hash) (es : List BEntry)
    (hwf : ∀ e ∈ es, EWF e) (hsz : (encode ri hash es).length < 2 ^ 32) :
    ∃ r, openBlock hash (encode ri hash es) = some r ∧ decodeAll r = es := by
  have hlen := encode_length ri hash es
  have hb := encEntries_rs_bounds ri es ri [] 0
  have hrl := encEntries_rs_length ri es ri [] 0
  have hbg := encEntries_body_ge ri es ri [] 0
  rw [encode_eq] at hsz hlen ⊢
  generalize hbody : (encEntries ri ri [] 0 es).1 = body at *
  generalize hrs : (encEntries ri ri [] 0 es).2 = rs at *
  have hopen := openBlock_shape hash hh body rs (fun x hx => by have := hb x hx; omega) (by omega)
  refine ⟨_, hopen, ?_⟩
  unfold decodeAll
  simp only
  apply decodeAllAux_enc _ ri es ri [] none [] (rs.flatMap (le 4) ++ le 4 rs.length ++
    le 8 (hash (body ++ rs.flatMap (le 4) ++ le 4 rs.length))) 0 _ rfl
  · simp [hbody]
  · simp [hbody]
  · intro x _; simp [hrs]
  · exact Or.inr ⟨rfl, Nat.le_refl _⟩
  · exact hwf
  · rw [hlen]; omega

end Kevo.Proofs.TableAux
