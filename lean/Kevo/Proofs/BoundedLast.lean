/-
  Kevo.Proofs.BoundedLast — BoundedIterator.SeekToLast as coded (repaired in 8151b8c): with an end bound the
  iterator walks forward from the start of the range, remembers the last key below the bound and seeks back to it.
-/
import Kevo.Proofs.ScanEngine
namespace Kevo.Proofs.Merge
open Kevo Kevo.Merge

variable {σ : Type}

theorem getLast?_cons_eq {α : Type} (a : α) (l : List α) :
    (a :: l).getLast? = match l.getLast? with
      | some x => some x
      | none => some a := by
  cases l with
  | nil => rfl
  | cons b t =>
    rw [List.getLast?_cons_cons]
    cases h : (b :: t).getLast? with
    | some x => rfl
    | none => simp at h

/-- the forward walk of SeekToLast returns the key of the last entry below the bound (keys non-empty: appending an
    empty key to a nil slice leaves it nil) -/
theorem walkBelow_key (O : Ops σ) (hi : Bytes) : ∀ (L : List KV) (fuel : Nat) (c : σ) (lk : Option Bytes),
    Emits O c L → L.length ≤ fuel → (∀ e ∈ L, e.1 ≠ []) →
    (walkBelow O hi fuel c lk).2 = match (L.takeWhile (fun e => ltB e.1 hi)).getLast? with
      | some e => some e.1
      | none => lk := by
  intro L
  induction L with
  | nil =>
    intro fuel c lk h _ _
    have hv : O.valid c = false := h
    cases fuel with
    | zero => rfl
    | succ f => simp [walkBelow, hv]
  | cons e rest ih =>
    intro fuel c lk h hf hne
    cases fuel with
    | zero => simp at hf
    | succ f =>
      have hk := emits_k h
      have h' := emits_cons.mp h
      have he : e.1.isEmpty = false := by
        have := hne e (by simp)
        cases hh : e.1 with
        | nil => exact absurd hh this
        | cons _ _ => rfl
      simp only [walkBelow, h'.1, hk, Bool.true_and, List.takeWhile_cons, he, Bool.false_and, Bool.false_eq_true, if_false]
      by_cases hp : ltB e.1 hi = true
      · simp only [hp, if_true]
        rw [ih f _ (some e.1) h'.2.2.2.2.2 (by simpa using hf) (fun x hx => hne x (by simp [hx])), getLast?_cons_eq]
        cases (rest.takeWhile (fun e => ltB e.1 hi)).getLast? <;> rfl
      · have hp' : ltB e.1 hi = false := by simpa using hp
        simp [hp']

/-- nothing below the bound at the current position: the walk does not move -/
theorem walkBelow_stay (O : Ops σ) (hi : Bytes) (L : List KV) (fuel : Nat) (c : σ) (lk : Option Bytes) (h : Emits O c L)
    (hT : L.takeWhile (fun e => ltB e.1 hi) = []) : walkBelow O hi fuel c lk = (c, lk) := by
  cases fuel with
  | zero => rfl
  | succ f =>
    cases L with
    | nil =>
      have hv : O.valid c = false := h
      simp [walkBelow, hv]
    | cons e rest =>
      have hk := emits_k h
      have hp : ltB e.1 hi = false := by
        cases hh : ltB e.1 hi with
        | false => rfl
        | true => simp [hh] at hT
      simp [walkBelow, hk, hp]

/-- a property of the cursor that Next preserves survives the walk -/
theorem walkBelow_inv (O : Ops σ) (hi : Bytes) (P : σ → Prop) (hP : ∀ c, P c → P (O.next c).1) :
    ∀ (fuel : Nat) (c : σ) (lk : Option Bytes), P c → P (walkBelow O hi fuel c lk).1 := by
  intro fuel
  induction fuel with
  | zero => intro c lk h; exact h
  | succ f ih =>
    intro c lk h
    simp only [walkBelow]
    split
    · exact ih _ _ (hP c h)
    · exact h

/-- where SeekToLast starts its walk: Seek(start) or SeekToFirst -/
def rangeStart (O : Ops σ) (lo : Option Bytes) (c : σ) : σ :=
  match lo with
  | some l => (O.seek c l).1
  | none => O.first c

theorem bounded_last_eq (O : Ops σ) (lo : Option Bytes) (e : Bytes) (fuel : Nat) (c : σ) :
    (boundedOps O lo (some e) fuel).last c =
      match (walkBelow O e fuel (rangeStart O lo c) none).2 with
      | some lk => (O.seek (walkBelow O e fuel (rangeStart O lo c) none).1 lk).1
      | none => (walkBelow O e fuel (rangeStart O lo c) none).1 := by
  cases lo <;> rfl

theorem head?_takeWhile {α : Type} (p : α → Bool) (l : List α) : (l.takeWhile p).head? = l.head?.filter p := by
  cases l with
  | nil => rfl
  | cons a t =>
    rw [List.takeWhile_cons]
    by_cases h : p a = true <;> simp [h, Option.filter]

/-- where a bounded iterator stands, from what the wrapped cursor emits -/
theorem bounded_head (O : Ops σ) (lo hi : Option Bytes) (fuel : Nat) (c : σ) (W : List KV) (h : Emits O c W) :
    (if (boundedOps O lo hi fuel).valid c then some ((boundedOps O lo hi fuel).k c, (boundedOps O lo hi fuel).val c) else none) =
      W.head?.filter (fun e => inRange lo hi e.1) := by
  rw [emits_head (bounded_emits O lo hi fuel W c h), head?_takeWhile]

theorem head_filter_ge {M : List KV} (hasc : Asc M) {x : KV} (hx : x ∈ M) :
    (M.filter (fun y => !ltB y.1 x.1)).head? = some x := by
  induction M with
  | nil => simp at hx
  | cons a l ih =>
    rw [asc_cons] at hasc
    rw [List.filter_cons]
    rcases List.mem_cons.mp hx with rfl | hx'
    · simp [ltB_irrefl]
    · have : ltB a.1 x.1 = true := hasc.1 x hx'
      simp only [this, Bool.not_true, Bool.false_eq_true, if_false]
      exact ih hasc.2 hx'

theorem next_es (f : Nat) (h : Hier) : ((storageOps f).next h).1.srcs.map (·.es) = h.srcs.map (·.es) := by
  have hskip : ∀ (p : Bytes) (n : Nat) (s : Src), (skipLoop srcOps p n s).es = s.es := by
    intro p n
    induction n with
    | zero => intro s; rfl
    | succ n ih =>
      intro s
      simp only [skipLoop]
      split
      · split
        · rw [ih]; show (Src.next s).es = s.es
          unfold Src.next; split
          · rfl
          · split <;> rfl
        · show (Src.next s).es = s.es
          unfold Src.next; split
          · rfl
          · split <;> rfl
      · rfl
  simp only [storageOps, hierOps]
  split
  · simp only [HierG.findNext, settle_srcs, List.map_map]
    apply List.map_congr_left
    intro s _
    exact hskip _ _ s
  · rfl

/-- (d) SeekToLast of the range iterator with an end bound (any bound, stored or not): the greatest merged key in
    [lo, end), invalid iff there is none -/
theorem bounded_last_end (srcs : List (List KV)) (hok : SourcesOK srcs) (hne : ∀ x ∈ mergeSpec srcs, x.1 ≠ [])
    (lo : Option Bytes) (e : Bytes) (fuel : Nat) (h : Hier) (hO : h.srcs.map (·.es) = srcs) (hf : total srcs + 1 ≤ fuel) :
    let B := bOps lo (some e) fuel
    let h' := B.last h
    (if B.valid h' then some (B.k h', B.val h') else none) =
      ((mergeSpec srcs).filter (fun x => inRange lo (some e) x.1)).getLast? := by
  intro B h'
  have hasc := mergeSpec_asc srcs
  have hlen := length_mergeSpec_le hok
  -- the start of the walk shows the merged entries ≥ lo
  let c0 := rangeStart (storageOps fuel) lo h
  have hO0 : c0.srcs.map (·.es) = srcs := by
    show (rangeStart (storageOps fuel) lo h).srcs.map (·.es) = srcs
    cases lo with
    | none => simp only [rangeStart]; rw [first_es]; exact hO
    | some l => simp only [rangeStart]; rw [seek_es]; exact hO
  have hstart : ∃ W0, Emits (storageOps fuel) c0 W0 ∧ W0.length ≤ fuel ∧ (∀ x ∈ W0, x.1 ≠ []) ∧
      W0.takeWhile (fun x => ltB x.1 e) = (mergeSpec srcs).filter (fun x => inRange lo (some e) x.1) := by
    cases lo with
    | none =>
      have he := storage_first_emits srcs fuel (total srcs + 1) h hO (by omega) (by omega)
      rw [mergeRun_eq_mergeSpec hok (Nat.lt_succ_self _)] at he
      refine ⟨mergeSpec srcs, he, by omega, hne, ?_⟩
      have := takeWhile_inRange_none hasc (some e)
      simpa [inRange] using this
    | some l =>
      have he := storage_seek_collect srcs hok fuel (total srcs + 1) h hO l (by omega) (by omega)
      have hl := List.length_filter_le (fun x : KV => !ltB x.1 l) (mergeSpec srcs)
      refine ⟨_, he, by omega, fun x hx => hne x (List.mem_filter.mp hx).1, ?_⟩
      rw [← takeWhile_inRange_some hasc l (some e)]
      apply takeWhile_congr_mem
      intro x hx
      have hx' : ltB x.1 l = false := by simpa using (List.mem_filter.mp hx).2
      simp [inRange, hx']
  obtain ⟨W0, hW0, hW0len, hW0ne, hT⟩ := hstart
  let w := walkBelow (storageOps fuel) e fuel c0 none
  have hwkey : w.2 = match (W0.takeWhile (fun x => ltB x.1 e)).getLast? with
      | some x => some x.1
      | none => none := walkBelow_key (storageOps fuel) e W0 fuel c0 none hW0 hW0len hW0ne
  have hOw : w.1.srcs.map (·.es) = srcs :=
    walkBelow_inv (storageOps fuel) e (fun c => c.srcs.map (·.es) = srcs) (fun c hc => by rw [next_es]; exact hc) fuel c0 none hO0
  have hlast : h' = match w.2 with
      | some lk => ((storageOps fuel).seek w.1 lk).1
      | none => w.1 := by
    show (boundedOps (storageOps fuel) lo (some e) fuel).last h = _
    rw [bounded_last_eq]
  generalize hM : mergeSpec srcs = M at *
  cases hg : (M.filter (fun x => inRange lo (some e) x.1)).getLast? with
  | none =>
    -- nothing in range: the walk does not move, and the start position is not below the bound (or exhausted)
    have hemp : W0.takeWhile (fun x => ltB x.1 e) = [] := by rw [hT]; exact List.getLast?_eq_none_iff.mp hg
    have hstay : w = (c0, none) := walkBelow_stay (storageOps fuel) e W0 fuel c0 none hW0 hemp
    rw [hstay] at hlast
    simp only at hlast
    have hb := bounded_head (storageOps fuel) lo (some e) fuel c0 W0 hW0
    rw [← hlast] at hb
    rw [show B = boundedOps (storageOps fuel) lo (some e) fuel from rfl, hb]
    cases hh : W0.head? with
    | none => rfl
    | some m =>
      have hm : ltB m.1 e = false := by
        cases W0 with
        | nil => simp at hh
        | cons a t =>
          simp only [List.head?_cons, Option.some.injEq] at hh
          subst hh
          cases hp : ltB a.1 e with
          | false => rfl
          | true => simp [hp] at hemp
      simp only [Option.filter]
      cases lo <;> simp [inRange, hm]
  | some x =>
    rw [hT, hg] at hwkey
    rw [hwkey] at hlast
    simp only at hlast
    have hxT : x ∈ M.filter (fun x => inRange lo (some e) x.1) := List.mem_of_getLast? hg
    have hxM : x ∈ M := (List.mem_filter.mp hxT).1
    have hxr : inRange lo (some e) x.1 = true := (List.mem_filter.mp hxT).2
    have hsw := storage_seek_collect srcs hok fuel (total srcs + 1) w.1 hOw x.1 (by omega) (by omega)
    rw [hM] at hsw
    have hb := bounded_head (storageOps fuel) lo (some e) fuel _ _ hsw
    rw [← hlast, head_filter_ge hasc hxM] at hb
    rw [show B = boundedOps (storageOps fuel) lo (some e) fuel from rfl, hb]
    simp [Option.filter, hxr]

/-- (d) SeekToLast of the range iterator, all bounds -/
theorem bounded_last_full (srcs : List (List KV)) (hok : SourcesOK srcs) (hne : ∀ x ∈ mergeSpec srcs, x.1 ≠ [])
    (lo hi : Option Bytes) (fuel : Nat) (h : Hier) (hO : h.srcs.map (·.es) = srcs) (hk : ∀ s ∈ h.srcs, s.kind = .mem)
    (hf : total srcs + 1 ≤ fuel) :
    let B := bOps lo hi fuel
    let h' := B.last h
    (if B.valid h' then some (B.k h', B.val h') else none) =
      ((mergeSpec srcs).filter (fun x => inRange lo hi x.1)).getLast? := by
  cases hi with
  | none => exact bounded_last_noend srcs hok lo fuel h hO hk
  | some e => exact bounded_last_end srcs hok hne lo e fuel h hO hf

end Kevo.Proofs.Merge
