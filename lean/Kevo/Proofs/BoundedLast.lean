/-
  Kevo.Proofs.BoundedLast — BoundedIterator.SeekToLast as coded, with an end bound that IS a stored key:
  Seek(end) lands on it, the iterator is rewound and walked forward to the last key below the bound.
-/
import Kevo.Proofs.ScanEngine
namespace Kevo.Proofs.Merge
open Kevo Kevo.Merge

variable {σ : Type}

theorem getLast?_cons_eq {α : Type} (a : α) (l : List α) :
    (a :: l).getLast? = match l.getLast? with
      | some x => some x
      | none => some a := by
  cases l with
  | nil => rfl
  | cons b t =>
    rw [List.getLast?_cons_cons]
    cases h : (b :: t).getLast? with
    | some x => rfl
    | none => simp at h

/-- the forward walk of SeekToLast returns the key of the last entry below the bound -/
theorem walkBelow_key (O : Ops σ) (hi : Bytes) : ∀ (L : List KV) (fuel : Nat) (c : σ) (lk : Option Bytes),
    Emits O c L → L.length ≤ fuel →
    (walkBelow O hi fuel c lk).2 = match (L.takeWhile (fun e => ltB e.1 hi)).getLast? with
      | some e => some e.1
      | none => lk := by
  intro L
  induction L with
  | nil =>
    intro fuel c lk h _
    have hv : O.valid c = false := h
    cases fuel with
    | zero => rfl
    | succ f => simp [walkBelow, hv]
  | cons e rest ih =>
    intro fuel c lk h hf
    cases fuel with
    | zero => simp at hf
    | succ f =>
      have hk := emits_k h
      have h' := emits_cons.mp h
      simp only [walkBelow, h'.1, hk, Bool.true_and, List.takeWhile_cons]
      by_cases hp : ltB e.1 hi = true
      · simp only [hp, if_true]
        rw [ih f _ (some e.1) h'.2.2.2.2.2 (by simpa using hf), getLast?_cons_eq]
        cases (rest.takeWhile (fun e => ltB e.1 hi)).getLast? <;> rfl
      · have hp' : ltB e.1 hi = false := by simpa using hp
        simp [hp']

/-- a property of the cursor that Next preserves survives the walk -/
theorem walkBelow_inv (O : Ops σ) (hi : Bytes) (P : σ → Prop) (hP : ∀ c, P c → P (O.next c).1) :
    ∀ (fuel : Nat) (c : σ) (lk : Option Bytes), P c → P (walkBelow O hi fuel c lk).1 := by
  intro fuel
  induction fuel with
  | zero => intro c lk h; exact h
  | succ f ih =>
    intro c lk h
    simp only [walkBelow]
    split
    · exact ih _ _ (hP c h)
    · exact h

theorem bounded_last_eq (O : Ops σ) (lo : Option Bytes) (e : Bytes) (fuel : Nat) (c : σ) :
    (boundedOps O lo (some e) fuel).last c =
      if O.valid (O.seek c e).1 && O.k (O.seek c e).1 == e then
        match (walkBelow O e fuel (O.first (O.seek c e).1) none).2 with
        | some lk => (O.seek (walkBelow O e fuel (O.first (O.seek c e).1) none).1 lk).1
        | none => O.first (walkBelow O e fuel (O.first (O.seek c e).1) none).1
      else (O.seek c e).1 := rfl

theorem head?_takeWhile {α : Type} (p : α → Bool) (l : List α) : (l.takeWhile p).head? = l.head?.filter p := by
  cases l with
  | nil => rfl
  | cons a t =>
    rw [List.takeWhile_cons]
    by_cases h : p a = true <;> simp [h, Option.filter]

/-- where a bounded iterator stands, from what the wrapped cursor emits -/
theorem bounded_head (O : Ops σ) (lo hi : Option Bytes) (fuel : Nat) (c : σ) (W : List KV) (h : Emits O c W) :
    (if (boundedOps O lo hi fuel).valid c then some ((boundedOps O lo hi fuel).k c, (boundedOps O lo hi fuel).val c) else none) =
      W.head?.filter (fun e => inRange lo hi e.1) := by
  rw [emits_head (bounded_emits O lo hi fuel W c h), head?_takeWhile]

theorem head_filter_ge {M : List KV} (hasc : Asc M) {x : KV} (hx : x ∈ M) :
    (M.filter (fun y => !ltB y.1 x.1)).head? = some x := by
  induction M with
  | nil => simp at hx
  | cons a l ih =>
    rw [asc_cons] at hasc
    rw [List.filter_cons]
    rcases List.mem_cons.mp hx with rfl | hx'
    · simp [ltB_irrefl]
    · have : ltB a.1 x.1 = true := hasc.1 x hx'
      simp only [this, Bool.not_true, Bool.false_eq_true, if_false]
      exact ih hasc.2 hx'

theorem next_es (f : Nat) (h : Hier) : ((storageOps f).next h).1.srcs.map (·.es) = h.srcs.map (·.es) := by
  have hskip : ∀ (p : Bytes) (n : Nat) (s : Src), (skipLoop srcOps p n s).es = s.es := by
    intro p n
    induction n with
    | zero => intro s; rfl
    | succ n ih =>
      intro s
      simp only [skipLoop]
      split
      · split
        · rw [ih]; show (Src.next s).es = s.es
          unfold Src.next; split
          · rfl
          · split <;> rfl
        · show (Src.next s).es = s.es
          unfold Src.next; split
          · rfl
          · split <;> rfl
      · rfl
  simp only [storageOps, hierOps]
  split
  · simp only [HierG.findNext, settle_srcs, List.map_map]
    apply List.map_congr_left
    intro s _
    exact hskip _ _ s
  · rfl

/-- (d) SeekToLast of the range iterator when the end bound is a stored (merged) key: the greatest merged key in
    [lo, end) -/
theorem bounded_last_end_present (srcs : List (List KV)) (hok : SourcesOK srcs) (lo : Option Bytes) (e : Bytes) (v : Option Bytes)
    (hmem : (e, v) ∈ mergeSpec srcs) (fuel : Nat) (h : Hier) (hO : h.srcs.map (·.es) = srcs) (hf : total srcs + 1 ≤ fuel) :
    let B := bOps lo (some e) fuel
    let h' := B.last h
    (if B.valid h' then some (B.k h', B.val h') else none) =
      ((mergeSpec srcs).filter (fun x => inRange lo (some e) x.1)).getLast? := by
  intro B h'
  have hasc := mergeSpec_asc srcs
  have hlen := length_mergeSpec_le hok
  -- Seek(end) lands on the end key
  have hs1 := storage_seek_collect srcs hok fuel (total srcs + 1) h hO e (by omega) (by omega)
  have hhead1 := emits_head hs1
  rw [show (fun y : KV => !ltB y.1 e) = (fun y : KV => !ltB y.1 (e, v).1) from rfl, head_filter_ge hasc hmem] at hhead1
  have hv1 : (storageOps fuel).valid ((storageOps fuel).seek h e).1 = true := by
    cases hv : (storageOps fuel).valid ((storageOps fuel).seek h e).1 with
    | true => rfl
    | false => rw [hv] at hhead1; simp at hhead1
  have hk1 : (storageOps fuel).k ((storageOps fuel).seek h e).1 = e := by
    rw [hv1] at hhead1
    simp only [if_true, Option.some.injEq, Prod.mk.injEq] at hhead1
    exact hhead1.1
  -- rewind and walk
  let c1 := ((storageOps fuel).seek h e).1
  have hO1 : c1.srcs.map (·.es) = srcs := by rw [seek_es]; exact hO
  have hfirst := storage_first_emits srcs fuel (total srcs + 1) c1 hO1 (by omega) (by omega)
  rw [mergeRun_eq_mergeSpec hok (Nat.lt_succ_self _)] at hfirst
  let w := walkBelow (storageOps fuel) e fuel ((storageOps fuel).first c1) none
  have hwkey : w.2 = match ((mergeSpec srcs).takeWhile (fun x => ltB x.1 e)).getLast? with
      | some x => some x.1
      | none => none := walkBelow_key (storageOps fuel) e _ fuel _ none hfirst (by omega)
  have hOw : w.1.srcs.map (·.es) = srcs :=
    walkBelow_inv (storageOps fuel) e (fun c => c.srcs.map (·.es) = srcs) (fun c hc => by rw [next_es]; exact hc) fuel _ none
      (by rw [first_es]; exact hO1)
  have hT : (mergeSpec srcs).takeWhile (fun x => ltB x.1 e) = (mergeSpec srcs).filter (fun x => ltB x.1 e) := by
    have := takeWhile_inRange_none hasc (some e)
    simpa [inRange] using this
  have hlast : h' = match w.2 with
      | some lk => ((storageOps fuel).seek w.1 lk).1
      | none => (storageOps fuel).first w.1 := by
    show (boundedOps (storageOps fuel) lo (some e) fuel).last h = _
    rw [bounded_last_eq, hv1, hk1]
    simp only [beq_self_eq_true, Bool.and_self, if_true]
    rfl
  generalize hM : mergeSpec srcs = M at *
  rw [hT] at hwkey
  cases hg : (M.filter (fun x => ltB x.1 e)).getLast? with
  | none =>
    -- no key below the bound: the iterator is rewound to the first key, which is not below the bound
    rw [hg] at hwkey
    rw [hwkey] at hlast
    simp only at hlast
    have hemp : M.filter (fun x => ltB x.1 e) = [] := List.getLast?_eq_none_iff.mp hg
    have hfw := storage_first_emits srcs fuel (total srcs + 1) w.1 hOw (by omega) (by omega)
    rw [mergeRun_eq_mergeSpec hok (Nat.lt_succ_self _), hM] at hfw
    have hb := bounded_head (storageOps fuel) lo (some e) fuel _ M hfw
    rw [← hlast] at hb
    rw [show B = boundedOps (storageOps fuel) lo (some e) fuel from rfl, hb]
    have hnone : M.filter (fun x => inRange lo (some e) x.1) = [] := by
      rw [List.filter_eq_nil_iff]
      intro x hx
      have := (List.filter_eq_nil_iff.mp hemp) x hx
      cases lo <;> simp [inRange, this]
    rw [hnone]
    cases hh : M.head? with
    | none => rfl
    | some m =>
      have hm : m ∈ M := List.mem_of_head? hh
      have := (List.filter_eq_nil_iff.mp hemp) m hm
      simp only [Option.filter, List.getLast?_nil]
      cases lo <;> simp [inRange, this]
  | some x =>
    rw [hg] at hwkey
    rw [hwkey] at hlast
    simp only at hlast
    have hxT : x ∈ M.filter (fun x => ltB x.1 e) := List.mem_of_getLast? hg
    have hxM : x ∈ M := (List.mem_filter.mp hxT).1
    have hxe : ltB x.1 e = true := (List.mem_filter.mp hxT).2
    -- x dominates every key below the bound
    have hdom : ∀ y ∈ M, ltB y.1 e = true → ltB x.1 y.1 = false := by
      intro y hy hye
      have hyT : y ∈ M.filter (fun x => ltB x.1 e) := List.mem_filter.mpr ⟨hy, hye⟩
      obtain ⟨ys, hys⟩ := List.getLast?_eq_some_iff.mp hg
      rw [hys] at hyT
      have hascT : Asc (ys ++ [x]) := by rw [← hys]; exact filter_asc hasc _
      rcases List.mem_append.mp hyT with hy' | hy'
      · exact ltB_asymm ((List.pairwise_append.mp hascT).2.2 y hy' x (by simp))
      · simp only [List.mem_singleton] at hy'; subst hy'; exact ltB_irrefl _
    have hsw := storage_seek_collect srcs hok fuel (total srcs + 1) w.1 hOw x.1 (by omega) (by omega)
    rw [hM] at hsw
    have hb := bounded_head (storageOps fuel) lo (some e) fuel _ _ hsw
    rw [← hlast, head_filter_ge hasc hxM] at hb
    rw [show B = boundedOps (storageOps fuel) lo (some e) fuel from rfl, hb]
    by_cases hr : inRange lo (some e) x.1 = true
    · simp only [Option.filter, hr, if_true]
      symm
      apply getLast?_of_max (filter_asc hasc _) (List.mem_filter.mpr ⟨hxM, hr⟩)
      intro y hy
      have hy' := List.mem_filter.mp hy
      have hye : ltB y.1 e = true := by
        have := hy'.2
        cases lo <;> simp [inRange] at this <;> simp [this]
      exact hdom y hy'.1 hye
    · have hr' : inRange lo (some e) x.1 = false := by simpa using hr
      simp only [Option.filter, hr', Bool.false_eq_true, if_false]
      symm
      rw [List.getLast?_eq_none_iff, List.filter_eq_nil_iff]
      intro y hy
      cases lo with
      | none => simp [inRange, hxe] at hr'
      | some l =>
        have hxl : ltB x.1 l = true := by simpa [inRange, hxe] using hr'
        cases hye : ltB y.1 e with
        | false => simp [inRange, hye]
        | true =>
          have := ltB_of_le_of_lt (hdom y hy hye) hxl
          simp [inRange, this]

end Kevo.Proofs.Merge
