/-
  Kevo.Proofs.Applier — proofs about Kevo.Model.Applier (property C13).

  1. wire codec round trip;
  2. what one run of the `ApplyEntries` loop does on genuine log entries;
  3. the invariant of a replica fed an arbitrary delivery schedule:
       committed = L[start .. expectedNext)   (for ANY callback and ANY lists of genuine entries),
       applied   = committed                  (when messages are runs of the log and the callback does not fail);
  4. monotonicity of the reported counters.
-/
import Kevo.Model.Applier
import Kevo.Spec.Log
namespace Kevo.Proofs.Applier
open Kevo Kevo.Applier

/-! ### 1. codec -/

/-- an entry as the log hands it out: known operation type, number below the uint64 maximum, sizes within the
    sanity limits of the deserialiser, and in reader normal form (a delete carries no value). -/
def EntryOK (P : Params) (e : Entry) : Prop :=
  (e.op = P.opPut ∨ e.op = P.opDelete ∨ e.op = P.opMerge) ∧ e.seq + 1 < 2 ^ 64 ∧
  e.key.length ≤ P.maxKey ∧ (e.op ≠ P.opDelete → e.val.length ≤ P.maxVal) ∧ (e.op = P.opDelete → e.val = [])

instance (P : Params) (e : Entry) : Decidable (EntryOK P e) := by unfold EntryOK; infer_instance

theorem toNat_ofNat_lt (n : Nat) (h : n < 256) : (UInt8.ofNat n).toNat = n := by
  rw [UInt8.toNat_ofNat']; omega

theorem shape (o : UInt8) (s k key tl : Bytes) (hs : s.length = 8) (hk : k.length = 4) :
    let data := [o] ++ s ++ k ++ key ++ tl
    data.length = 13 + key.length + tl.length ∧ data.getD 0 0 = o ∧ (data.drop 1).take 8 = s ∧
    (data.drop 9).take 4 = k ∧ (data.drop 13).take key.length = key ∧ data.drop (13 + key.length) = tl := by
  intro data
  have e1 : data = [o] ++ (s ++ (k ++ (key ++ tl))) := by simp [data]
  have e9 : data = ([o] ++ s) ++ (k ++ (key ++ tl)) := by simp [data]
  have e13 : data = ([o] ++ s ++ k) ++ (key ++ tl) := by simp [data]
  have ek : data = ([o] ++ s ++ k ++ key) ++ tl := by simp [data]
  have l9 : ([o] ++ s).length = 9 := by simp [hs]
  have l13 : ([o] ++ s ++ k).length = 13 := by simp [hs, hk]
  have lk : ([o] ++ s ++ k ++ key).length = 13 + key.length := by simp [hs, hk]; omega
  refine ⟨?_, ?_, ?_, ?_, ?_, ?_⟩
  · simp [data, hs, hk]; omega
  · simp [data]
  · rw [e1, List.drop_left' (by simp)]; exact List.take_left' hs
  · rw [e9, List.drop_left' l9]; exact List.take_left' hk
  · rw [e13, List.drop_left' l13]; exact List.take_left' rfl
  · rw [ek, List.drop_left' lk]

/-- `DeserializeWALEntry(SerializeWALEntry(e)) = e` -/
theorem deserialize_serialize (P : Params) (hP : P.WF) (e : Entry) (he : EntryOK P e) :
    deserialize P (serialize P e) = .ok e := by
  obtain ⟨hPut, hDel, hMrg, hK, hV, _⟩ := hP
  obtain ⟨hop, hseq, hkl, hvl, hnorm⟩ := he
  have hopn : (UInt8.ofNat e.op).toNat = e.op := toNat_ofNat_lt _ (by omega)
  have hsq : unle (le 8 e.seq) = e.seq := unle_le 8 _ (by omega)
  have hky : unle (le 4 e.key.length) = e.key.length := unle_le 4 _ (by omega)
  by_cases hdel : e.op = P.opDelete
  · have hpl : serialize P e = [UInt8.ofNat e.op] ++ le 8 e.seq ++ le 4 e.key.length ++ e.key ++ [] := by
      simp [serialize, hdel]
    obtain ⟨hl, h0, h1, h9, h13, _⟩ := shape (UInt8.ofNat e.op) (le 8 e.seq) (le 4 e.key.length) e.key []
      (le_length _ _) (le_length _ _)
    rw [← hpl] at hl h0 h1 h9 h13
    unfold deserialize
    simp only [hl, h0, h1, h9, h13, hopn, hsq, hky]
    have c1 : ¬ (13 + e.key.length + ([] : Bytes).length < 13) := by omega
    have c2 : ¬ (e.op ≠ P.opPut ∧ e.op ≠ P.opDelete ∧ e.op ≠ P.opMerge) := by omega
    have c3 : ¬ (e.key.length > P.maxKey) := by omega
    have c4 : ¬ (13 + e.key.length > 13 + e.key.length + ([] : Bytes).length) := by omega
    simp only [if_neg c1, if_neg c2, if_neg c3, if_neg c4, if_pos hdel]
    have : e.val = [] := hnorm hdel
    cases e; simp_all
  · have hv := hvl hdel
    have hvn : unle (le 4 e.val.length) = e.val.length := unle_le 4 _ (by omega)
    have hpl : serialize P e = [UInt8.ofNat e.op] ++ le 8 e.seq ++ le 4 e.key.length ++ e.key ++
        (le 4 e.val.length ++ e.val) := by
      simp [serialize, hdel]
    obtain ⟨hl, h0, h1, h9, h13, hk⟩ := shape (UInt8.ofNat e.op) (le 8 e.seq) (le 4 e.key.length) e.key
      (le 4 e.val.length ++ e.val) (le_length _ _) (le_length _ _)
    rw [← hpl] at hl h0 h1 h9 h13 hk
    have hv4 : ((serialize P e).drop (13 + e.key.length)).take 4 = le 4 e.val.length := by
      rw [hk]; exact List.take_left' (le_length _ _)
    have hvv : ((serialize P e).drop (13 + e.key.length + 4)).take e.val.length = e.val := by
      rw [← List.drop_drop, hk, List.drop_left' (le_length _ _)]; exact List.take_of_length_le (Nat.le_refl _)
    unfold deserialize
    simp only [hl, h0, h1, h9, h13, hopn, hsq, hky, hv4, hvn, hvv]
    have hlen : (le 4 e.val.length ++ e.val).length = 4 + e.val.length := by simp
    have c1 : ¬ (13 + e.key.length + (le 4 e.val.length ++ e.val).length < 13) := by omega
    have c2 : ¬ (e.op ≠ P.opPut ∧ e.op ≠ P.opDelete ∧ e.op ≠ P.opMerge) := by omega
    have c3 : ¬ (e.key.length > P.maxKey) := by omega
    have c4 : ¬ (13 + e.key.length > 13 + e.key.length + (le 4 e.val.length ++ e.val).length) := by omega
    have c5 : ¬ (13 + e.key.length + 4 > 13 + e.key.length + (le 4 e.val.length ++ e.val).length) := by omega
    have c6 : ¬ (e.val.length > P.maxVal) := by omega
    have c7 : ¬ (13 + e.key.length + 4 + e.val.length > 13 + e.key.length + (le 4 e.val.length ++ e.val).length) := by omega
    simp only [if_neg c1, if_neg c2, if_neg c3, if_neg c4, if_neg c5, if_neg c6, if_neg c7, if_neg hdel]

/-! ### 2. the loop of ApplyEntries on genuine entries -/

/-- the numbers of `m` are `a, a+1, a+2, …` -/
def SeqFrom : Nat → List Entry → Prop
  | _, [] => True
  | a, e :: m => e.seq = a ∧ SeqFrom (a + 1) m

instance instDecSeqFrom : (a : Nat) → (m : List Entry) → Decidable (SeqFrom a m)
  | _, [] => isTrue trivial
  | a, e :: m => by
    unfold SeqFrom
    exact @instDecidableAnd _ _ _ (instDecSeqFrom (a + 1) m)

theorem SeqFrom.append {a : Nat} {x y : List Entry} :
    SeqFrom a (x ++ y) ↔ SeqFrom a x ∧ SeqFrom (a + x.length) y := by
  induction x generalizing a with
  | nil => simp [SeqFrom]
  | cons e x ih =>
    simp only [List.cons_append, SeqFrom, ih, List.length_cons]
    have : a + 1 + x.length = a + (x.length + 1) := by omega
    rw [this]
    constructor
    · rintro ⟨h1, h2, h3⟩; exact ⟨⟨h1, h2⟩, h3⟩
    · rintro ⟨⟨h1, h2⟩, h3⟩; exact ⟨h1, h2, h3⟩

theorem SeqFrom.getElem {a : Nat} {L : List Entry} (h : SeqFrom a L) {j : Nat} (hj : j < L.length) :
    L[j].seq = a + j := by
  induction L generalizing a j with
  | nil => simp at hj
  | cons e L ih =>
    cases j with
    | zero => simpa using h.1
    | succ j =>
      have := ih h.2 (j := j) (by simpa using hj)
      simp only [List.getElem_cons_succ, this]; omega

theorem SeqFrom.take {a : Nat} {L : List Entry} (h : SeqFrom a L) (n : Nat) : SeqFrom a (L.take n) := by
  have := (List.take_append_drop n L) ▸ h
  exact (SeqFrom.append.mp this).1

/-- in a log without shared numbers an entry is determined by its number: a list of genuine entries numbered
    consecutively IS a run of the log. -/
theorem run_of_seq {first : Nat} {L : List Entry} (hL : SeqFrom first L) :
    ∀ (m : List Entry) (i : Nat), (∀ e ∈ m, e ∈ L) → SeqFrom (first + i) m →
      m = (L.drop i).take m.length ∧ (m ≠ [] → i + m.length ≤ L.length) := by
  intro m
  induction m with
  | nil => intro i _ _; simp
  | cons e m ih =>
    intro i hm hs
    obtain ⟨j, hj, hje⟩ := List.getElem_of_mem (hm e (by simp))
    have hseq := hL.getElem hj
    rw [hje, hs.1] at hseq
    have hij : j = i := by omega
    subst hij
    have hs2 : SeqFrom (first + (j + 1)) m := by
      have := hs.2; rwa [Nat.add_assoc] at this
    obtain ⟨h1, h2⟩ := ih (j + 1) (fun x hx => hm x (by simp [hx])) hs2
    constructor
    · rw [List.drop_eq_getElem_cons hj, hje, List.length_cons, List.take_succ_cons, ← h1]
    · intro _
      by_cases hm0 : m = []
      · subst hm0; simp; omega
      · have := h2 hm0; simp only [List.length_cons]; omega

/-- a run of a log without shared numbers is numbered consecutively from its first entry -/
theorem SeqFrom.infix {a : Nat} {L : List Entry} (hL : SeqFrom a L) {e : Entry} {m : List Entry}
    (h : (e :: m) <:+: L) : SeqFrom e.seq (e :: m) := by
  obtain ⟨s, t, rfl⟩ := h
  have h1 := (SeqFrom.append.mp hL).1
  have h2 := (SeqFrom.append.mp h1).2
  have : e.seq = a + s.length := h2.1
  rw [this]; exact h2

theorem succ64_eq {n : Nat} (h : n + 1 < 2 ^ 64) : succ64 n = n + 1 := by
  unfold succ64; exact Nat.mod_eq_of_lt h

/-- One run of the loop over the tail of a batch (previous number `p`), for an ARBITRARY callback: the entries
    handed over successfully are a prefix `m.take j` of the batch numbered `p+1, p+2, …`; the loop ends `ok`
    only when that prefix is the whole batch, and then `lastAppliedSeq = p + |m|`. -/
theorem loop_some {κ : Type} (P : Params) (hP : P.WF) (cb : κ → Entry → κ × Bool) :
    ∀ (m : List Entry) (p : Nat) (k : κ), p + 1 < 2 ^ 64 → (∀ e ∈ m, EntryOK P e) →
      let r := applyLoop P cb (some p) (m.map (toWire P)) k
      ∃ j, j ≤ m.length ∧ r.2.2.2 = m.take j ∧ SeqFrom (p + 1) (m.take j) ∧
        (r.1 = .ok → j = m.length ∧ r.2.2.1 = p + m.length) := by
  intro m
  induction m with
  | nil => intro p k _ _; exact ⟨0, by simp [applyLoop, SeqFrom]⟩
  | cons e m ih =>
    intro p k hp hok
    have he := hok e (by simp)
    simp only [List.map_cons, applyLoop, toWire, succ64_eq hp]
    by_cases hg : (e.seq != p + 1) = true
    · simp only [hg, if_true]
      exact ⟨0, by simp [SeqFrom]⟩
    · simp only [hg]
      have hseq : e.seq = p + 1 := by simpa using hg
      rw [deserialize_serialize P hP e he]
      simp only [Bool.false_eq_true, if_false]
      rcases hcb : cb k e with ⟨k', b⟩
      cases b with
      | false => exact ⟨0, by simp [SeqFrom]⟩
      | true =>
        obtain ⟨j, hj, hd, hs, hfin⟩ := ih e.seq k' he.2.1 (fun x hx => hok x (by simp [hx]))
        refine ⟨j + 1, by simp; omega, ?_, ?_, ?_⟩
        · simp only [List.take_succ_cons]; rw [← hd]
        · simp only [List.take_succ_cons, SeqFrom]
          refine ⟨hseq, ?_⟩
          rw [← hseq]; exact hs
        · intro hok'
          obtain ⟨h1, h2⟩ := hfin hok'
          refine ⟨by simp [h1], ?_⟩
          simp only [h2, List.length_cons]; omega

/-- the same loop with a callback that never fails, on a batch numbered consecutively: it ends `ok`. -/
theorem loop_some_ok {κ : Type} (P : Params) (hP : P.WF) (cb : κ → Entry → κ × Bool) (hcb : ∀ k e, (cb k e).2 = true) :
    ∀ (m : List Entry) (p : Nat) (k : κ), p + 1 < 2 ^ 64 → (∀ e ∈ m, EntryOK P e) → SeqFrom (p + 1) m →
      (applyLoop P cb (some p) (m.map (toWire P)) k).1 = .ok := by
  intro m
  induction m with
  | nil => intro p k _ _ _; simp [applyLoop]
  | cons e m ih =>
    intro p k hp hok hs
    have he := hok e (by simp)
    simp only [List.map_cons, applyLoop, toWire, succ64_eq hp]
    have hg : ¬ ((e.seq != p + 1) = true) := by simp [hs.1]
    simp only [hg]
    rw [deserialize_serialize P hP e he]
    simp only [Bool.false_eq_true, if_false]
    rcases hcb' : cb k e with ⟨k', b⟩
    have hb : b = true := by have := hcb k e; rw [hcb'] at this; exact this
    subst hb
    have := hs.2; rw [← hs.1] at this
    exact ih e.seq k' he.2.1 (fun x hx => hok x (by simp [hx])) this

/-- the whole loop as `ApplyEntries` starts it (no previous number) on a non-empty batch of genuine entries. -/
theorem loop_none {κ : Type} (P : Params) (hP : P.WF) (cb : κ → Entry → κ × Bool)
    (e : Entry) (m : List Entry) (k : κ) (hok : ∀ x ∈ e :: m, EntryOK P x) :
    let r := applyLoop P cb none ((e :: m).map (toWire P)) k
    ∃ j, j ≤ (e :: m).length ∧ r.2.2.2 = (e :: m).take j ∧ SeqFrom e.seq ((e :: m).take j) ∧
      (r.1 = .ok → j = (e :: m).length ∧ r.2.2.1 = e.seq + m.length) := by
  have he := hok e (by simp)
  simp only [List.map_cons, applyLoop, toWire]
  rw [deserialize_serialize P hP e he]
  simp only [Bool.false_eq_true, if_false]
  rcases hcb : cb k e with ⟨k', b⟩
  cases b with
  | false => exact ⟨0, by simp [SeqFrom]⟩
  | true =>
    obtain ⟨j, hj, hd, hs, hfin⟩ := loop_some P hP cb m e.seq k' he.2.1 (fun x hx => hok x (by simp [hx]))
    refine ⟨j + 1, by simp; omega, ?_, ?_, ?_⟩
    · simp only [List.take_succ_cons]; rw [← hd]
    · simp only [List.take_succ_cons, SeqFrom]; exact ⟨trivial, hs⟩
    · intro hok'
      obtain ⟨h1, h2⟩ := hfin hok'
      exact ⟨by simp [h1], h2⟩

theorem loop_none_ok {κ : Type} (P : Params) (hP : P.WF) (cb : κ → Entry → κ × Bool) (hcb : ∀ k e, (cb k e).2 = true)
    (e : Entry) (m : List Entry) (k : κ) (hok : ∀ x ∈ e :: m, EntryOK P x) (hs : SeqFrom e.seq (e :: m)) :
    (applyLoop P cb none ((e :: m).map (toWire P)) k).1 = .ok := by
  have he := hok e (by simp)
  simp only [List.map_cons, applyLoop, toWire]
  rw [deserialize_serialize P hP e he]
  simp only [Bool.false_eq_true, if_false]
  rcases hcb' : cb k e with ⟨k', b⟩
  have hb : b = true := by have := hcb k e; rw [hcb'] at this; exact this
  subst hb
  exact loop_some_ok P hP cb hcb m e.seq k' he.2.1 (fun x hx => hok x (by simp [hx])) hs.2

/-! ### 3. one `ApplyEntries` call on a batch of genuine entries -/

/-- what a call of `ApplyEntries` on a non-empty batch of genuine entries does, for an ARBITRARY callback:
    * first number ≠ expectedNext: rejected, nothing handed over, applier unchanged;
    * otherwise a prefix of the batch, numbered consecutively from expectedNext, is handed over, and
      - either the call succeeds: that prefix is the whole batch and the counters move to its last number,
      - or it fails (hole, callback error): the applier is UNCHANGED although the prefix has been applied. -/
theorem applyEntries_spec {κ : Type} (P : Params) (hP : P.WF) (cb : κ → Entry → κ × Bool) (a : Applier) (k : κ)
    (e : Entry) (m : List Entry) (hok : ∀ x ∈ e :: m, EntryOK P x) :
    let res := applyEntries P cb a k ((e :: m).map (toWire P))
    (e.seq ≠ a.expectedNext → res.outcome = .gapFirst ∧ res.app = a ∧ res.done = [] ∧ res.ret = a.maxApplied) ∧
    (e.seq = a.expectedNext →
      ∃ j, j ≤ (e :: m).length ∧ res.done = (e :: m).take j ∧ SeqFrom e.seq ((e :: m).take j) ∧
        ((res.outcome = .ok ∧ j = (e :: m).length ∧ res.ret = e.seq + m.length ∧
            res.app = { a with maxApplied := e.seq + m.length, expectedNext := succ64 (e.seq + m.length) }) ∨
         (res.outcome ≠ .ok ∧ res.app = a ∧ res.ret = a.maxApplied))) := by
  intro res
  have hl := loop_none P hP cb e m k hok
  constructor
  · intro hne
    have : (toWire P e).seq ≠ a.expectedNext := hne
    simp only [res, applyEntries, List.map_cons, this, ne_eq, not_false_eq_true, if_true, and_self]
  · intro heq
    have h0 : ¬ ((toWire P e).seq ≠ a.expectedNext) := by simp [toWire, heq]
    obtain ⟨j, hj, hd, hs, hfin⟩ := hl
    refine ⟨j, hj, ?_⟩
    simp only [res, applyEntries, List.map_cons, h0, if_false]
    simp only [List.map_cons] at hd hfin
    generalize applyLoop P cb none (toWire P e :: List.map (toWire P) m) k = r at hd hfin
    rcases r with ⟨o, k', last, done⟩
    simp only at hd hfin
    cases o with
    | ok =>
      obtain ⟨h1, h2⟩ := hfin rfl
      simp only [hd, h2, true_and]
      exact ⟨hs, Or.inl ⟨h1, trivial⟩⟩
    | gapFirst => simp [hd, hs]
    | gapIn => simp [hd, hs]
    | deserErr => simp [hd, hs]
    | applyErr => simp [hd, hs]

/-! ### "none skipped" as a property of the sequence of numbers handed to the callback -/

/-- `NoSkip f xs`: reading `xs` left to right with `f` = the smallest number never seen so far (the frontier),
    every element is at most the frontier: a number is handed over only after all smaller ones (from the
    initial frontier on) have been. Repetitions (re-application) are allowed, jumps ahead are not. -/
def NoSkip : Nat → List Nat → Prop
  | _, [] => True
  | f, s :: rest => s ≤ f ∧ NoSkip (max f (s + 1)) rest

/-- the frontier after `xs` -/
def frontier : Nat → List Nat → Nat
  | f, [] => f
  | f, s :: rest => frontier (max f (s + 1)) rest

instance instDecNoSkip : (f : Nat) → (xs : List Nat) → Decidable (NoSkip f xs)
  | _, [] => isTrue trivial
  | f, s :: rest => by
    unfold NoSkip
    exact @instDecidableAnd _ _ _ (instDecNoSkip (max f (s + 1)) rest)

theorem frontier_ge (f : Nat) (xs : List Nat) : f ≤ frontier f xs := by
  induction xs generalizing f with
  | nil => exact Nat.le_refl _
  | cons s rest ih => exact Nat.le_trans (Nat.le_max_left _ _) (ih _)

theorem frontier_append (f : Nat) (xs ys : List Nat) : frontier f (xs ++ ys) = frontier (frontier f xs) ys := by
  induction xs generalizing f with
  | nil => rfl
  | cons s rest ih => exact ih _

theorem NoSkip.append {f : Nat} {xs ys : List Nat} :
    NoSkip f (xs ++ ys) ↔ NoSkip f xs ∧ NoSkip (frontier f xs) ys := by
  induction xs generalizing f with
  | nil => simp [NoSkip, frontier]
  | cons s rest ih => simp only [List.cons_append, NoSkip, frontier, ih, and_assoc]

/-- a run numbered `a, a+1, …` that starts at or below the frontier skips nothing and pushes the frontier to
    at least its end. -/
theorem noSkip_run : ∀ (d : List Entry) (a f : Nat), SeqFrom a d → a ≤ f →
    NoSkip f (d.map (·.seq)) ∧ a + d.length ≤ frontier f (d.map (·.seq)) := by
  intro d
  induction d with
  | nil => intro a f _ h; exact ⟨trivial, by simpa [frontier] using h⟩
  | cons e d ih =>
    intro a f hs h
    obtain ⟨h1, h2⟩ := ih (a + 1) (max f (e.seq + 1)) hs.2 (by rw [hs.1]; exact Nat.le_max_right _ _)
    refine ⟨⟨by show e.seq ≤ f; rw [hs.1]; exact h, h1⟩, ?_⟩
    simp only [List.map_cons, frontier, List.length_cons]
    omega

/-! ### 4. the replica under an arbitrary delivery schedule -/

/-- the standing hypotheses: constants as extracted, a primary log WITHOUT shared numbers (numbered
    `first, first+1, …`), entries as the log reader hands them out, and a replica that starts at `start`
    (everything numbered ≤ start applied) inside or right before the log. -/
structure Ctx (P : Params) (L : List Entry) (first start : Nat) : Prop where
  wf : P.WF
  noShared : SeqFrom first L
  ok : ∀ e ∈ L, EntryOK P e
  pos : first ≤ start + 1
  bound : start + 1 < 2 ^ 64

/-- the message a replica receives for a list of log entries -/
abbrev recv {κ : Type} (P : Params) (cb : κ → Entry → κ × Bool) (r : Replica κ) (m : List Entry) : Replica κ :=
  (r.receive P cb some { entries := m.map (toWire P) }).1

/-- invariant: `c` entries are committed; they are exactly `L[start' .. start'+c)`, the counters say so, the
    reported numbers do not run ahead, and everything committed has been handed to the callback. -/
structure Inv {κ : Type} (L : List Entry) (first start : Nat) (r : Replica κ) (c : Nat) : Prop where
  next : r.app.expectedNext = start + 1 + c
  max : r.app.maxApplied = start + c
  com : r.committed = (L.drop (start + 1 - first)).take c
  len : c = 0 ∨ (start + 1 - first) + c ≤ L.length
  bnd : start + c + 1 < 2 ^ 64
  la : r.lastApplied ≤ r.app.maxApplied
  ack : r.app.lastAck ≤ r.app.maxApplied
  sub : r.committed.Sublist r.applied
  acks : ∀ x ∈ r.acks, x ≤ r.app.maxApplied
  ns : NoSkip (start + 1) (r.applied.map (·.seq))
  fr : r.app.expectedNext ≤ frontier (start + 1) (r.applied.map (·.seq))

theorem Inv.init {κ : Type} {P : Params} {L : List Entry} {first start : Nat} (hC : Ctx P L first start) (k : κ) :
    Inv L first start (Replica.new start k) 0 := by
  have hb := hC.bound
  have hn : (Replica.new start k).app.expectedNext = start + 1 + 0 := by
    simp only [Replica.new, Applier.new]
    split
    · rw [succ64_eq hb]
    · omega
  refine ⟨hn, rfl, by simp [Replica.new], Or.inl rfl, by omega, Nat.le_refl _, Nat.le_refl _, by simp [Replica.new],
    by simp [Replica.new], by simp [Replica.new, NoSkip], ?_⟩
  rw [hn]; simp [Replica.new, frontier]

/-- how `receive` folds the result of `ApplyEntries` into the replica (non-empty, uncompressed message) -/
theorem receive_shape {κ : Type} (P : Params) (cb : κ → Entry → κ × Bool) (r : Replica κ) (e : Entry) (m : List Entry) :
    let res := applyEntries P cb r.app r.sink ((e :: m).map (toWire P))
    let r' := recv P cb r (e :: m)
    r'.app = res.app ∧ r'.applied = r.applied ++ res.done ∧ r'.acks = r.acks ∧
    (res.outcome = .ok → r'.lastApplied = res.ret ∧ r'.committed = r.committed ++ res.done) ∧
    (res.outcome ≠ .ok → r'.lastApplied = r.lastApplied ∧ r'.committed = r.committed) := by
  intro res r'
  have hne : ((e :: m).map (toWire P)).isEmpty = false := by simp
  simp only [r', recv, Replica.receive, hne, Bool.false_eq_true, if_false]
  show _ ∧ _ ∧ _ ∧ (res.outcome = .ok → _) ∧ (res.outcome ≠ .ok → _)
  generalize hres : applyEntries P cb r.app r.sink ((e :: m).map (toWire P)) = res'
  have : res = res' := hres
  subst this
  rcases h : res.outcome <;> simp

theorem receive_inv {κ : Type} {P : Params} {L : List Entry} {first start : Nat} (hC : Ctx P L first start)
    (cb : κ → Entry → κ × Bool) (r : Replica κ) (c : Nat) (hI : Inv L first start r c)
    (m : List Entry) (hm : ∀ e ∈ m, e ∈ L) :
    ∃ c', c ≤ c' ∧ Inv L first start (recv P cb r m) c' ∧
      r.lastApplied ≤ (recv P cb r m).lastApplied ∧ r.app.lastAck ≤ (recv P cb r m).app.lastAck := by
  cases m with
  | nil =>
    refine ⟨c, Nat.le_refl _, ?_, ?_, ?_⟩ <;> simp [recv, Replica.receive] <;> exact hI
  | cons e m =>
    have hok : ∀ x ∈ e :: m, EntryOK P x := fun x hx => hC.ok x (hm x hx)
    have hspec := applyEntries_spec P hC.wf cb r.app r.sink e m hok
    obtain ⟨happ', happl, hacks, hcomOk, hcomNo⟩ := receive_shape P cb r e m
    generalize applyEntries P cb r.app r.sink ((e :: m).map (toWire P)) = res at hspec happ' happl hcomOk hcomNo
    generalize recv P cb r (e :: m) = r' at happ' happl hacks hcomOk hcomNo ⊢
    obtain ⟨hgap, hrun⟩ := hspec
    by_cases hseq : e.seq = r.app.expectedNext
    · obtain ⟨j, hj, hd, hs, hcase⟩ := hrun hseq
      obtain ⟨hns, hfr⟩ := noSkip_run _ _ _ hs (hseq ▸ hI.fr)
      rw [← hd] at hns hfr
      have hns' : NoSkip (start + 1) (r'.applied.map (·.seq)) := by
        rw [happl, List.map_append]; exact NoSkip.append.mpr ⟨hI.ns, hns⟩
      rcases hcase with ⟨ho, hjl, hret, happ⟩ | ⟨ho, happ, hret⟩
      · -- the whole batch was applied and is counted
        obtain ⟨hla, hcom⟩ := hcomOk ho
        subst hjl
        have hd' : res.done = e :: m := by rw [hd]; simp
        have hs' : SeqFrom e.seq (e :: m) := by simpa using hs
        have hpos : e.seq = first + ((start + 1 - first) + c) := by
          rw [hseq, hI.next]; have := hC.pos; omega
        obtain ⟨hrun1, hrun2⟩ := run_of_seq hC.noShared (e :: m) _ hm (hpos ▸ hs')
        have hlen := hrun2 (by simp)
        simp only [List.length_cons] at hlen hrun1
        have hidx : (start + 1 - first) + c + m.length < L.length := by omega
        have hlast := hC.noShared.getElem hidx
        have hlastOK := hC.ok _ (List.getElem_mem hidx)
        have hb : e.seq + m.length + 1 < 2 ^ 64 := by
          have := hlastOK.2.1; rw [hlast] at this; omega
        have hnext := hI.next
        have hmax := hI.max
        have hmax' : r'.app.maxApplied = e.seq + m.length := by rw [happ', happ]
        have hnext' : r'.app.expectedNext = e.seq + m.length + 1 := by
          rw [happ', happ]; simp only; rw [succ64_eq hb]
        refine ⟨c + (m.length + 1), by omega, ⟨?_, ?_, ?_, ?_, ?_, ?_, ?_, ?_, ?_, hns', ?_⟩, ?_, ?_⟩
        · rw [hnext']; omega
        · rw [hmax']; omega
        · rw [hcom, hd', hI.com, List.take_add, List.drop_drop]; congr 1
        · right; omega
        · omega
        · rw [hla, hret, hmax']; exact Nat.le_refl _
        · rw [happ', happ]; simp only; have := hI.ack; omega
        · rw [hcom, happl]; exact hI.sub.append (List.Sublist.refl _)
        · intro x hx; rw [hacks] at hx; have := hI.acks x hx; rw [hmax']; omega
        · rw [happl, List.map_append, frontier_append, hnext']
          have : res.done.length = m.length + 1 := by rw [hd']; simp
          omega
        · rw [hla, hret]; have := hI.la; omega
        · rw [happ', happ]; exact Nat.le_refl _
      · -- the batch was abandoned: the applier is unchanged, but `res.done` HAS been applied
        obtain ⟨hla, hcom⟩ := hcomNo ho
        refine ⟨c, Nat.le_refl _, ⟨?_, ?_, ?_, hI.len, hI.bnd, ?_, ?_, ?_, ?_, hns', ?_⟩, ?_, ?_⟩
        · rw [happ', happ]; exact hI.next
        · rw [happ', happ]; exact hI.max
        · rw [hcom]; exact hI.com
        · rw [hla, happ', happ]; exact hI.la
        · rw [happ', happ]; exact hI.ack
        · rw [hcom, happl]; exact hI.sub.trans (List.sublist_append_left _ _)
        · intro x hx; rw [hacks] at hx; rw [happ', happ]; exact hI.acks x hx
        · rw [happl, List.map_append, frontier_append, happ', happ]
          exact Nat.le_trans hI.fr (frontier_ge _ _)
        · rw [hla]; exact Nat.le_refl _
        · rw [happ', happ]; exact Nat.le_refl _
    · -- rejected by the first-number test
      obtain ⟨ho, happ, hd, hret⟩ := hgap hseq
      have hne : res.outcome ≠ .ok := by rw [ho]; simp
      obtain ⟨hla, hcom⟩ := hcomNo hne
      have happl' : r'.applied = r.applied := by rw [happl, hd]; simp
      refine ⟨c, Nat.le_refl _, ⟨?_, ?_, ?_, hI.len, hI.bnd, ?_, ?_, ?_, ?_, ?_, ?_⟩, ?_, ?_⟩
      · rw [happ', happ]; exact hI.next
      · rw [happ', happ]; exact hI.max
      · rw [hcom]; exact hI.com
      · rw [hla, happ', happ]; exact hI.la
      · rw [happ', happ]; exact hI.ack
      · rw [hcom, happl']; exact hI.sub
      · intro x hx; rw [hacks] at hx; rw [happ', happ]; exact hI.acks x hx
      · rw [happl']; exact hI.ns
      · rw [happl', happ', happ]; exact hI.fr
      · rw [hla]; exact Nat.le_refl _
      · rw [happ', happ]; exact Nat.le_refl _

/-! ### 5. schedules -/

/-- the network may do anything with genuine log entries: any selection, order, repetition -/
def Genuine (L : List Entry) : Event → Prop
  | .deliver m => ∀ e ∈ m, e ∈ L
  | _ => True

/-- messages as a sender forms them: runs of consecutive log entries (any split into batches) -/
def Contiguous (L : List Entry) : Event → Prop
  | .deliver m => m <:+: L
  | _ => True

/-- (`Entry` derives its own `BEq`, which is not registered as lawful: give membership a decision procedure
    through `DecidableEq`.) -/
instance instDecMemEntry (a : Entry) : (L : List Entry) → Decidable (a ∈ L)
  | [] => isFalse (by simp)
  | b :: L =>
    if h : a = b then isTrue (by simp [h])
    else match instDecMemEntry a L with
      | isTrue h' => isTrue (by simp [h'])
      | isFalse h' => isFalse (by simp [h, h'])

instance (L : List Entry) : DecidablePred (Genuine L) := fun ev =>
  match ev with
  | .deliver m => inferInstanceAs (Decidable (∀ e ∈ m, e ∈ L))
  | .poll | .pollAck | .ack | .reconnect => isTrue trivial

instance (L : List Entry) : DecidablePred (Contiguous L) := fun ev =>
  match ev with
  | .deliver m => inferInstanceAs (Decidable (m <:+: L))
  | .poll | .pollAck | .ack | .reconnect => isTrue trivial

theorem Contiguous.genuine {L : List Entry} {ev : Event} (h : Contiguous L ev) : Genuine L ev := by
  cases ev with
  | deliver m => exact fun e he => List.IsInfix.mem he h
  | _ => trivial

theorem select_genuine (L : List Entry) (f lim cap : Nat) : ∀ e ∈ select L f lim cap, e ∈ L :=
  fun _ he => (List.mem_filter.mp (List.mem_of_mem_take (List.mem_of_mem_take he))).1

/-- the byte cap keeps the first entry of a non-empty selection (the stream always advances) and never more than there is -/
theorem capCount_le (cap : Nat) : ∀ (l : List Entry) (i total : Nat), capCount cap i total l ≤ i + l.length := by
  intro l
  induction l with
  | nil => intro i total; simp [capCount]
  | cons e es ih =>
    intro i total
    simp only [capCount, List.length_cons]
    split
    · omega
    · have := ih (i + 1) (total + e.key.length + e.val.length); omega

theorem capCount_ge (cap : Nat) : ∀ (l : List Entry) (i total : Nat), i ≤ capCount cap i total l := by
  intro l
  induction l with
  | nil => intro i total; simp [capCount]
  | cons e es ih =>
    intro i total
    simp only [capCount]
    split
    · exact Nat.le_refl _
    · have := ih (i + 1) (total + e.key.length + e.val.length); omega

theorem capCount_pos (cap : Nat) (e : Entry) (es : List Entry) : 0 < capCount cap 0 0 (e :: es) := by
  have h : capCount cap 0 0 (e :: es) = capCount cap (0 + 1) (0 + e.key.length + e.val.length) es := by
    simp [capCount]
  rw [h]
  exact Nat.lt_of_lt_of_le (by decide) (capCount_ge cap es (0 + 1) _)

theorem filter_eq_drop (f : Nat) : ∀ (L : List Entry) (a : Nat), SeqFrom a L →
    L.filter (fun e => decide (e.seq ≥ f)) = L.drop (f - a) := by
  intro L
  induction L with
  | nil => intro a _; simp
  | cons x xs ih =>
    intro a hs
    have hx := hs.1
    have := ih (a + 1) hs.2
    by_cases hfa : f ≤ a
    · have h1 : f - a = 0 := by omega
      have h2 : f - (a + 1) = 0 := by omega
      rw [h1, List.drop_zero, List.filter_cons_of_pos (by simp; omega), this, h2, List.drop_zero]
    · have h1 : f - a = (f - (a + 1)) + 1 := by omega
      rw [h1, List.drop_succ_cons, List.filter_cons_of_neg (by simp; omega), this]

/-- the part of the log a replica that has applied everything numbered ≤ `start` still has to apply -/
def after (start : Nat) (L : List Entry) : List Entry := L.dropWhile (fun e => decide (e.seq ≤ start))

theorem after_eq_drop (s : Nat) : ∀ (L : List Entry) (a : Nat), SeqFrom a L → after s L = L.drop (s + 1 - a) := by
  intro L
  induction L with
  | nil => intro a _; simp [after]
  | cons x xs ih =>
    intro a hs
    have hx := hs.1
    have := ih (a + 1) hs.2
    unfold after at this ⊢
    by_cases hsa : s < a
    · have h1 : s + 1 - a = 0 := by omega
      rw [h1, List.drop_zero, List.dropWhile_cons_of_neg (by simp; omega)]
    · have h1 : s + 1 - a = (s + 1 - (a + 1)) + 1 := by omega
      rw [h1, List.drop_succ_cons, List.dropWhile_cons_of_pos (by simp; omega), this]

/-- in a log without shared numbers the primary's selection is a run of the log -/
theorem select_infix {first : Nat} {L : List Entry} (hL : SeqFrom first L) (f lim cap : Nat) : select L f lim cap <:+: L := by
  unfold select
  simp only []
  rw [filter_eq_drop f L first hL]
  exact (List.take_prefix _ _).isInfix.trans ((List.take_prefix _ _).isInfix.trans (List.drop_suffix _ _).isInfix)

theorem step_inv {κ : Type} {P : Params} {L : List Entry} {first start : Nat} (hC : Ctx P L first start)
    (cb : κ → Entry → κ × Bool) (r : Replica κ) (c : Nat) (hI : Inv L first start r c)
    (ev : Event) (hg : Genuine L ev) :
    ∃ c', c ≤ c' ∧ Inv L first start (r.step P cb L ev) c' ∧
      r.lastApplied ≤ (r.step P cb L ev).lastApplied ∧ r.app.lastAck ≤ (r.step P cb L ev).app.lastAck := by
  cases ev with
  | deliver m => exact receive_inv hC cb r c hI m hg
  | poll => exact receive_inv hC cb r c hI _ (select_genuine L _ _ _)
  | pollAck => exact receive_inv hC cb r c hI _ (select_genuine L _ _ _)
  | reconnect =>
    exact ⟨c, Nat.le_refl _, ⟨hI.next, hI.max, hI.com, hI.len, hI.bnd, hI.la, hI.ack, hI.sub, hI.acks, hI.ns, hI.fr⟩,
      Nat.le_refl _, Nat.le_refl _⟩
  | ack =>
    have hla := hI.la
    have hak := hI.ack
    simp only [Replica.step, Replica.ack, Applier.acknowledgeUpTo]
    split
    · refine ⟨c, Nat.le_refl _, ⟨hI.next, hI.max, hI.com, hI.len, hI.bnd, Nat.le_refl _, Nat.le_refl _, hI.sub, ?_, hI.ns, hI.fr⟩,
        hla, hak⟩
      intro x hx
      rcases List.mem_append.mp hx with h | h
      · exact hI.acks x h
      · simp at h; subst h; exact Nat.le_refl _
    · refine ⟨c, Nat.le_refl _, ⟨hI.next, hI.max, hI.com, hI.len, hI.bnd, Nat.le_refl _, hI.ack, hI.sub, ?_, hI.ns, hI.fr⟩,
        hla, Nat.le_refl _⟩
      intro x hx
      rcases List.mem_append.mp hx with h | h
      · exact hI.acks x h
      · simp at h; subst h; exact Nat.le_refl _

theorem run_inv {κ : Type} {P : Params} {L : List Entry} {first start : Nat} (hC : Ctx P L first start)
    (cb : κ → Entry → κ × Bool) : ∀ (s : List Event) (r : Replica κ) (c : Nat), Inv L first start r c →
    (∀ ev ∈ s, Genuine L ev) →
    ∃ c', c ≤ c' ∧ Inv L first start (r.run P cb L s) c' ∧
      r.lastApplied ≤ (r.run P cb L s).lastApplied ∧ r.app.lastAck ≤ (r.run P cb L s).app.lastAck := by
  intro s
  induction s with
  | nil => intro r c hI _; exact ⟨c, Nat.le_refl _, hI, Nat.le_refl _, Nat.le_refl _⟩
  | cons ev s ih =>
    intro r c hI hg
    obtain ⟨c1, h1, hI1, hl1, ha1⟩ := step_inv hC cb r c hI ev (hg ev (by simp))
    obtain ⟨c2, h2, hI2, hl2, ha2⟩ := ih _ c1 hI1 (fun x hx => hg x (by simp [hx]))
    exact ⟨c2, Nat.le_trans h1 h2, hI2, Nat.le_trans hl1 hl2, Nat.le_trans ha1 ha2⟩

/-- with a callback that does not fail, a batch that starts at expectedNext and is numbered consecutively
    is applied completely -/
theorem applyEntries_ok {κ : Type} (P : Params) (hP : P.WF) (cb : κ → Entry → κ × Bool) (hcb : ∀ k e, (cb k e).2 = true)
    (a : Applier) (k : κ) (e : Entry) (m : List Entry) (hok : ∀ x ∈ e :: m, EntryOK P x)
    (hseq : e.seq = a.expectedNext) (hs : SeqFrom e.seq (e :: m)) :
    (applyEntries P cb a k ((e :: m).map (toWire P))).outcome = .ok := by
  have h0 : ¬ ((toWire P e).seq ≠ a.expectedNext) := by simp [toWire, hseq]
  have hl := loop_none_ok P hP cb hcb e m k hok hs
  simp only [List.map_cons] at hl
  simp only [applyEntries, List.map_cons, h0, if_false]
  generalize applyLoop P cb none (toWire P e :: List.map (toWire P) m) k = r at hl
  rcases r with ⟨o, k', last, done⟩
  simp only at hl
  subst hl
  rfl

theorem recv_clean {κ : Type} {P : Params} {L : List Entry} {first start : Nat} (hC : Ctx P L first start)
    (cb : κ → Entry → κ × Bool) (hcb : ∀ k e, (cb k e).2 = true) (r : Replica κ)
    (hcl : r.applied = r.committed) (m : List Entry) (hm : m <:+: L) :
    (recv P cb r m).applied = (recv P cb r m).committed := by
  cases m with
  | nil => simpa [recv, Replica.receive] using hcl
  | cons e m =>
    have hgen : ∀ x ∈ e :: m, x ∈ L := fun x hx => List.IsInfix.mem hx hm
    have hok : ∀ x ∈ e :: m, EntryOK P x := fun x hx => hC.ok x (hgen x hx)
    obtain ⟨_, happl, _, hcomOk, hcomNo⟩ := receive_shape P cb r e m
    by_cases hseq : e.seq = r.app.expectedNext
    · have ho := applyEntries_ok P hC.wf cb hcb r.app r.sink e m hok hseq (hC.noShared.infix hm)
      rw [happl, (hcomOk ho).2, hcl]
    · obtain ⟨ho, _, hd, _⟩ := (applyEntries_spec P hC.wf cb r.app r.sink e m hok).1 hseq
      have hne : (applyEntries P cb r.app r.sink ((e :: m).map (toWire P))).outcome ≠ .ok := by rw [ho]; simp
      rw [happl, (hcomNo hne).2, hd, hcl]; simp

theorem step_clean {κ : Type} {P : Params} {L : List Entry} {first start : Nat} (hC : Ctx P L first start)
    (cb : κ → Entry → κ × Bool) (hcb : ∀ k e, (cb k e).2 = true) (r : Replica κ)
    (hcl : r.applied = r.committed) (ev : Event) (hct : Contiguous L ev) :
    (r.step P cb L ev).applied = (r.step P cb L ev).committed := by
  cases ev with
  | deliver m => exact recv_clean hC cb hcb r hcl m hct
  | poll => exact recv_clean hC cb hcb r hcl _ (select_infix hC.noShared _ _ _)
  | pollAck => exact recv_clean hC cb hcb r hcl _ (select_infix hC.noShared _ _ _)
  | reconnect => exact hcl
  | ack => exact hcl

theorem run_clean {κ : Type} {P : Params} {L : List Entry} {first start : Nat} (hC : Ctx P L first start)
    (cb : κ → Entry → κ × Bool) (hcb : ∀ k e, (cb k e).2 = true) : ∀ (s : List Event) (r : Replica κ),
    r.applied = r.committed → (∀ ev ∈ s, Contiguous L ev) →
    (r.run P cb L s).applied = (r.run P cb L s).committed := by
  intro s
  induction s with
  | nil => intro r h _; exact h
  | cons ev s ih =>
    intro r h hct
    exact ih _ (step_clean hC cb hcb r h ev (hct ev (by simp))) (fun x hx => hct x (by simp [hx]))

/-! ### 6. which primary logs have no shared numbers (link to the abstract log of C08/C09) -/

open Kevo.Spec in
/-- an operation that does not create a transaction: anything but a batch of two or more entries -/
def NoTx : LogOp → Prop
  | .batch es => es.length ≤ 1
  | _ => True

open Kevo.Spec in
instance : DecidablePred NoTx := fun o =>
  match o with
  | .batch es => inferInstanceAs (Decidable (es.length ≤ 1))
  | .append .. | .rotate | .reopen => isTrue trivial

open Kevo.Spec in
theorem noTx_step (a : ALog) (o : LogOp) (ho : NoTx o)
    (h : SeqFrom 1 a.entries ∧ a.next = 1 + a.entries.length) :
    SeqFrom 1 (a.step o).entries ∧ (a.step o).next = 1 + (a.step o).entries.length := by
  obtain ⟨h1, h2⟩ := h
  cases o with
  | append op k v =>
    simp only [ALog.step, List.length_append, List.length_cons, List.length_nil]
    exact ⟨SeqFrom.append.mpr ⟨h1, by simp [SeqFrom]; omega⟩, by omega⟩
  | batch es =>
    match es, ho with
    | [], _ => exact ⟨h1, h2⟩
    | [t], _ =>
      simp only [ALog.step, List.isEmpty_cons, Bool.false_eq_true, if_false, List.map_cons, List.map_nil,
        List.length_append, List.length_cons, List.length_nil]
      exact ⟨SeqFrom.append.mpr ⟨h1, by simp [SeqFrom]; omega⟩, by omega⟩
    | _ :: _ :: _, ho => simp [NoTx] at ho
  | rotate => exact ⟨h1, h2⟩
  | reopen => exact ⟨h1, h2⟩

open Kevo.Spec in
/-- A primary whose history contains no multi-entry batch (no transaction, no `ApplyBatch` of two or more
    operations) has a log without shared numbers, numbered from 1: the hypothesis of `applied_is_prefix`. -/
theorem noSharedSeq_of_program (ops : List LogOp) (h : ∀ o ∈ ops, NoTx o) : SeqFrom 1 (ALog.run ops).entries := by
  have : ∀ (ops : List LogOp) (a : ALog), (∀ o ∈ ops, NoTx o) →
      (SeqFrom 1 a.entries ∧ a.next = 1 + a.entries.length) →
      SeqFrom 1 (ops.foldl ALog.step a).entries ∧ (ops.foldl ALog.step a).next = 1 + (ops.foldl ALog.step a).entries.length := by
    intro ops
    induction ops with
    | nil => intro a _ h; exact h
    | cons o ops ih =>
      intro a hall h
      exact ih _ (fun x hx => hall x (by simp [hx])) (noTx_step a o (hall o (by simp)) h)
  exact (this ops {} h ⟨trivial, rfl⟩).1

end Kevo.Proofs.Applier
