/-
  Kevo.Proofs.Crash — truncation behaviour of the log reader (C10) and the process-death theorem (C02, C03).
-/
import Kevo.Model.Crash
import Kevo.Proofs.Wal
import Kevo.Proofs.CrashTrunc
import Kevo.Proofs.CrashBI
import Kevo.Proofs.CrashTx
namespace Kevo.Proofs.Crash
open Kevo Kevo.Wal Kevo.Crash Kevo.Spec
open Kevo.Proofs.CrashAux

abbrev EntryWF := Kevo.Proofs.Wal.EntryWF

/-- the entries of `es` whose encodings lie wholly within the first `n` bytes of the file -/
def wholeBefore (p : WalParams) (crc : Bytes → Nat) : Nat → List Entry → List Entry
  | _, [] => []
  | n, e :: es =>
    let l := (encodeEntry p crc e).length
    if l ≤ n then e :: wholeBefore p crc (n - l) es else []

theorem wholeBefore_eq (p : WalParams) (crc : Bytes → Nat) : ∀ (es : List Entry) (n : Nat),
    wholeBefore p crc n es = wholeB p crc n es := by
  intro es
  induction es with
  | nil => intro n; rfl
  | cons e es ih =>
    intro n
    simp only [wholeBefore, wholeB, ih]

/-- C10 (truncation): a log cut at ANY byte replays to exactly the entries completely written before the cut,
    reports no error and skips nothing — a strict prefix of a record never parses as a record. -/
theorem replay_truncated (p : WalParams) (hp : p.WF) (crc : Bytes → Nat) (hcrc : ∀ bs, crc bs < 2 ^ 32)
    (es : List Entry) (hes : ∀ e ∈ es, EntryWF p e) (n : Nat) :
    let r := replayFile p crc ((es.flatMap (encodeEntry p crc)).take n)
    r.entries = (wholeBefore p crc n es).map (norm p) ∧ r.outcome = .ok ∧ r.skipped = 0 := by
  intro r
  have h : r = _ := replayFile_trunc p hp crc hcrc es (fun e he => (hes e he).ok) n
  rw [h, wholeBefore_eq]
  exact ⟨rfl, rfl, rfl⟩

/-- C10 (damage after byte n): whatever the bytes from position n on, every entry completely written before n is
    delivered first, unaltered and in order (the reader is a function of the bytes it has consumed). -/
theorem replay_agrees_before_damage (p : WalParams) (hp : p.WF) (crc : Bytes → Nat) (hcrc : ∀ bs, crc bs < 2 ^ 32)
    (es : List Entry) (hes : ∀ e ∈ es, EntryWF p e) (n : Nat) (junk : Bytes) :
    ((wholeBefore p crc n es).map (norm p)) <+: (replayFile p crc ((es.flatMap (encodeEntry p crc)).take n ++ junk)).entries := by
  rw [wholeBefore_eq]
  exact replayFile_damage p hp crc hcrc es (fun e he => (hes e he).ok) n junk

/-- a workload operation the log accepts: sizes fit the format, batch entries fit one physical record. -/
def WOpWF (p : WalParams) : WOp → Prop
  | .put k v => k.length < 2 ^ 32 ∧ v.length < 2 ^ 32
  | .del k => k.length < 2 ^ 32
  | .tx ops => ∀ t ∈ ops, t.2.1.length < 2 ^ 32 ∧ t.2.2.length < 2 ^ 32 ∧
      payloadSize p { op := if t.1 then p.opDelete else p.opPut, seq := 0, key := t.2.1, val := t.2.2 } ≤ p.maxRecord
  | .flush => True
  | .reopen => True

def eventAt (c : CSt) (k : Nat) : Option Event := c.events.reverse[k - 1]?

/-- log entries as the reader returns them -/
def asRead (p : WalParams) (e : Engine.LogEntry) : Entry := norm p (toWal e)

/-! ### the operation-level invariant along a workload -/

theorem full_runOp {p : WalParams} {crc : Bytes → Nat} {sync : Nat} {c : CSt} {n : Nat} (hp : p.WF)
    (h : Full p crc sync c n) (o : WOp) (ho : WOpWF p o) (hn : n + 1 < 2 ^ 64) :
    Full p crc sync (runOp p crc c o) (n + 1) := by
  cases o with
  | put k v => exact full_writeOne hp h false k v ho.1 ho.2 hn
  | del k => exact full_writeOne hp h true k [] ho (by simp) hn
  | tx ops => exact full_txCommit hp h ops ho hn
  | flush => exact ((full_flushSites h).at _).mono (Nat.le_succ _)
  | reopen => exact (full_reopenSites h).mono (Nat.le_succ _)

theorem full_run {p : WalParams} {crc : Bytes → Nat} {sync : Nat} (hp : p.WF) :
    ∀ (ops : List WOp) (c : CSt) (n : Nat), Full p crc sync c n → (∀ o ∈ ops, WOpWF p o) → n + ops.length < 2 ^ 64 →
      Full p crc sync (ops.foldl (runOp p crc) c) (n + ops.length) := by
  intro ops
  induction ops with
  | nil => intro c n h _ _; exact h
  | cons o ops ih =>
    intro c n h hops hn
    simp only [List.length_cons] at hn
    have h1 := full_runOp hp h o (hops o (by simp)) (by omega)
    have h2 := ih _ (n + 1) h1 (fun o' ho' => hops o' (by simp [ho'])) (by omega)
    have e : n + (o :: ops).length = n + 1 + ops.length := by simp only [List.length_cons]; omega
    rw [e]
    exact h2

theorem full_init (p : WalParams) (crc : Bytes → Nat) (sync mem : Nat) :
    Full p crc sync { eng := { cfg := { memTableSize := mem } }, sync } 0 := by
  refine ⟨[], [], rfl, ?_, ⟨0, rfl, rfl, Nat.zero_le _⟩, rfl, Nat.le_refl _⟩
  refine ⟨rfl, ?_, ?_, ?_, Nat.le_succ _, ?_, ⟨0, ?_, Nat.zero_lt_one, fun _ => Nat.le_refl _⟩, Nat.le_refl _,
    Nat.zero_lt_one, rfl, ⟨0, ?_, ?_, Nat.zero_le _, Nat.zero_le _, Nat.zero_lt_one, fun _ => Nat.le_refl _⟩, ?_⟩
  rotate_left 5
  · simp [pcurEv, syncedOf, Good, cutList]
  · simp [pcurEv, syncedOf, Fits]
  · intro ev rest hsuf
    simp at hsuf
  · intro f hf
    simp only [List.mem_singleton] at hf
    subst hf; exact Nat.le_refl _
  · intro es hes e he
    simp only [List.nil_append, List.mem_singleton] at hes
    subst hes; simp at he
  · intro es hes e he
    simp only [List.nil_append, List.mem_singleton] at hes
    subst hes; simp at he
  · intro ev hev; simp at hev
  · simp [Good, cutList, wholeB]

theorem full_workload (p : WalParams) (hp : p.WF) (crc : Bytes → Nat) (sync mem : Nat) (ops : List WOp)
    (hops : ∀ o ∈ ops, WOpWF p o) (hseq : ops.length + 1 < p.maxSeq) :
    Full p crc sync (runWorkload p crc sync mem ops) ops.length := by
  have hmax : p.maxSeq < 2 ^ 64 := hp.2.2.2.2.2.2.2.2.2.2
  have := full_run hp ops _ 0 (full_init p crc sync mem) hops (by omega)
  rw [Nat.zero_add] at this
  exact this

/-- what a good event recovers -/
theorem recover_of_evGood (p : WalParams) (hp : p.WF) (crc : Bytes → Nat) (hcrc : ∀ bs, crc bs < 2 ^ 32)
    (sync : Nat) (c : CSt) (L : List (List Engine.LogEntry)) (nx : Nat) (h : Inv p crc sync c L nx)
    (k : Nat) (ev : Event) (hev : eventAt c k = some ev) :
    ∃ s, (replayDir p crc (diskAt c k)).entries = (L.flatten.filter (fun e => e.seq ≤ s)).map (asRead p) ∧
         (replayDir p crc (diskAt c k)).isErr = false ∧
         s ≤ ev.walNext ∧ (sync = 2 → ev.ackedSeq ≤ s) := by
  have hmem : ev ∈ c.events := by
    have := List.mem_of_getElem? hev
    simpa using this
  obtain ⟨s, hg, _, _, hw, _, ha⟩ := h.evs ev hmem
  have hdisk : diskAt c k = (L.zip ev.flushed).map (fun x => (encL p crc x.1).take x.2) := by
    unfold diskAt
    unfold eventAt at hev
    rw [hev]
    simp only []
    rw [← disk_eq p crc c.files L ev.flushed h.streams]
  rw [hdisk, replayDir_cut p hp crc hcrc L ev.flushed h.ok]
  refine ⟨s, ?_, by simp [DirReplay.isErr], hw, ha⟩
  simp only
  rw [hg, List.map_map]
  rfl

/-- C02 + C03 (process death): kill the process at ANY instrumentation site k of ANY workload, in ANY sync mode and
    for ANY memtable size; replaying what the operating system holds of the log files yields, without error, exactly
    the entries of the write history whose sequence number is at most some s — i.e. the history up to a whole write
    (all entries of a transaction share one number, so each transaction is present completely or not at all; nothing
    is reordered, duplicated or invented) — where s does not exceed what had been issued, and with synchronous
    logging s covers every acknowledged write. -/
theorem recover_prefix_proc (p : WalParams) (hp : p.WF) (crc : Bytes → Nat) (hcrc : ∀ bs, crc bs < 2 ^ 32)
    (sync mem : Nat) (ops : List WOp) (hops : ∀ o ∈ ops, WOpWF p o) (hseq : ops.length + 1 < p.maxSeq)
    (k : Nat) (ev : Event) :
    let c := runWorkload p crc sync mem ops
    eventAt c k = some ev →
    ∃ s, (replayDir p crc (diskAt c k)).entries = (c.eng.wal.flatten.filter (fun e => e.seq ≤ s)).map (asRead p) ∧
         (replayDir p crc (diskAt c k)).isErr = false ∧
         s ≤ ev.walNext ∧ (sync = 2 → ev.ackedSeq ≤ s) := by
  intro c hev
  obtain ⟨L0, last, h1, h2, _, _, _⟩ := full_workload p hp crc sync mem ops hops hseq
  have := recover_of_evGood p hp crc hcrc sync c (L0 ++ [last]) _ h2 k ev hev
  rw [← h1] at this
  exact this

/-- the events up to the k-th are a suffix of the (newest-first) event list, headed by the k-th event -/
theorem eventsUpTo_spec (c : CSt) (k : Nat) (hk : 0 < k) (ev : Event) (hev : eventAt c k = some ev) :
    ∃ rest, eventsUpTo c k = ev :: rest ∧ (ev :: rest) <:+ c.events := by
  unfold eventAt at hev
  obtain ⟨hlt, hget⟩ := List.getElem?_eq_some_iff.mp hev
  have htake : c.events.reverse.take k = c.events.reverse.take (k - 1) ++ [ev] := by
    have hk' : k = (k - 1) + 1 := by omega
    rw [hk', List.take_succ_eq_append_getElem hlt, hget]
    simp
  refine ⟨(c.events.reverse.take (k - 1)).reverse, ?_, ?_⟩
  · unfold eventsUpTo; rw [htake]; simp
  · have hpre : c.events.reverse.take k <+: c.events.reverse := List.take_prefix _ _
    have h2 := List.reverse_suffix.mpr hpre
    rw [List.reverse_reverse, htake] at h2
    simpa using h2

/-- what the synced image at a good event recovers -/
theorem recover_of_pevGood (p : WalParams) (hp : p.WF) (crc : Bytes → Nat) (hcrc : ∀ bs, crc bs < 2 ^ 32)
    (sync : Nat) (c : CSt) (L : List (List Engine.LogEntry)) (nx : Nat) (h : Inv p crc sync c L nx)
    (k : Nat) (hk : 0 < k) (ev : Event) (hev : eventAt c k = some ev) :
    ∃ s, (replayDir p crc (diskSyncedAt c k)).entries = (L.flatten.filter (fun e => e.seq ≤ s)).map (asRead p) ∧
         (replayDir p crc (diskSyncedAt c k)).isErr = false ∧
         s ≤ ev.walNext ∧ (sync = 2 → ev.ackedSeq ≤ s) := by
  obtain ⟨rest, hup, hsuf⟩ := eventsUpTo_spec c k hk ev hev
  obtain ⟨s, hg, _, _, hw, _, ha⟩ := h.pevs ev rest hsuf
  have hdisk : diskSyncedAt c k = (L.zip (syncedOf (ev :: rest))).map (fun x => (encL p crc x.1).take x.2) := by
    unfold diskSyncedAt syncedAt
    rw [hup, ← disk_eq p crc c.files L _ h.streams]
  rw [hdisk, replayDir_cut p hp crc hcrc L _ h.ok]
  refine ⟨s, ?_, by simp [DirReplay.isErr], hw, ha⟩
  simp only
  have hg' : cutList p crc L (syncedOf (ev :: rest)) = _ := hg
  rw [hg', List.map_map]
  rfl

/-- C02 (power loss, the guaranteed survivor): cut the power at ANY instrumentation site k of ANY workload, in ANY sync
    mode, and let every log file keep only what had been fsync'ed by then (the bytes flushed at the latest sync site —
    `wal.sync.synced` in syncLocked, `wal.close.synced` in Close; files created since are empty). Replaying that image
    yields, without error, exactly the entries of the write history numbered at most some s — whole writes only, nothing
    reordered, duplicated or invented — and with synchronous logging s covers EVERY write acknowledged before the cut:
    an acknowledgement is never given for a write whose record has not been synced. (Images between the synced and the
    flushed length are prefixes of the byte stream in between: `replay_truncated` / C10.) -/
theorem recover_prefix_power (p : WalParams) (hp : p.WF) (crc : Bytes → Nat) (hcrc : ∀ bs, crc bs < 2 ^ 32)
    (sync mem : Nat) (ops : List WOp) (hops : ∀ o ∈ ops, WOpWF p o) (hseq : ops.length + 1 < p.maxSeq)
    (k : Nat) (hk : 0 < k) (ev : Event) :
    let c := runWorkload p crc sync mem ops
    eventAt c k = some ev →
    ∃ s, (replayDir p crc (diskSyncedAt c k)).entries = (c.eng.wal.flatten.filter (fun e => e.seq ≤ s)).map (asRead p) ∧
         (replayDir p crc (diskSyncedAt c k)).isErr = false ∧
         s ≤ ev.walNext ∧ (sync = 2 → ev.ackedSeq ≤ s) := by
  intro c hev
  obtain ⟨L0, last, h1, h2, _, _, _⟩ := full_workload p hp crc sync mem ops hops hseq
  have := recover_of_pevGood p hp crc hcrc sync c (L0 ++ [last]) _ h2 k hk ev hev
  rw [← h1] at this
  exact this

/-- C02 (clean close): after a clean close everything written before is on disk: at the acknowledgement of a
    `reopen` the recovered entries are the whole history so far. -/
theorem clean_close_durable (p : WalParams) (hp : p.WF) (crc : Bytes → Nat) (hcrc : ∀ bs, crc bs < 2 ^ 32)
    (sync mem : Nat) (ops : List WOp) (hops : ∀ o ∈ ops, WOpWF p o) (hseq : ops.length + 2 < p.maxSeq) :
    let c := runWorkload p crc sync mem (ops ++ [.reopen])
    (replayDir p crc (diskAt c c.events.length)).entries = c.eng.wal.flatten.map (asRead p) := by
  intro c
  have hc : c = reopenSites (runWorkload p crc sync mem ops) := by
    show runWorkload p crc sync mem (ops ++ [.reopen]) = _
    unfold runWorkload
    rw [List.foldl_append]
    rfl
  obtain ⟨L0, last, h1, h2, ⟨fl, hsh⟩, _, _⟩ :=
    full_workload p hp crc sync mem (ops ++ [.reopen])
      (by intro o ho; simp only [List.mem_append, List.mem_singleton] at ho
          rcases ho with ho | rfl
          · exact hops o ho
          · trivial)
      (by simp only [List.length_append, List.length_cons, List.length_nil]; omega)
  change Inv p crc sync c (L0 ++ [last]) _ at h2
  change Shape c _ _ fl at hsh
  change c.eng.wal = _ at h1
  -- the last event is the acknowledgement of the reopen: everything is flushed
  have hb : c.buffered = 0 := by rw [hc, reopenSites_eq]; rfl
  obtain ⟨ev, rest, hevs, hfl⟩ : ∃ ev rest, c.events = ev :: rest ∧ ev.flushed = c.files.map (·.flushed) := by
    rw [hc, reopenSites_eq]
    exact ⟨_, _, at_events _ _, rfl⟩
  have hlast : c.events.reverse[c.events.length - 1]? = some ev := by
    rw [hevs]; simp
  have hdisk : diskAt c c.events.length = ((L0 ++ [last]).zip ev.flushed).map (fun x => (encL p crc x.1).take x.2) := by
    unfold diskAt
    rw [hlast]
    simp only []
    rw [← disk_eq p crc c.files (L0 ++ [last]) ev.flushed h2.streams]
  have hfull : fl = (encL p crc last).length := by have := hsh.2.1; omega
  rw [hdisk, replayDir_cut p hp crc hcrc _ _ h2.ok, hfl, shape_vec hsh, hfull, cutList_fullVec, h1]
  simp only [encL, wholeB_full, List.map_append, List.flatten_append, List.flatten_cons, List.flatten_nil,
    List.append_nil, List.map_map]
  rfl

/-- the model's flushed lengths never exceed what was handed to the writer (well-formedness of the disk model) -/
theorem flushed_le_stream (p : WalParams) (crc : Bytes → Nat) (sync mem : Nat) (ops : List WOp) :
    ∀ f ∈ (runWorkload p crc sync mem ops).files, f.flushed ≤ f.stream.length := by
  exact bi_flushed_le (bi_run p crc ops (bi_init _ sync))

/-- C03 (all-or-nothing under process death): corollary of `recover_prefix_proc` — entries sharing a sequence number
    are recovered together or not at all. -/
theorem commit_atomic_crash_proc (p : WalParams) (hp : p.WF) (crc : Bytes → Nat) (hcrc : ∀ bs, crc bs < 2 ^ 32)
    (sync mem : Nat) (ops : List WOp) (hops : ∀ o ∈ ops, WOpWF p o) (hseq : ops.length + 1 < p.maxSeq)
    (k : Nat) (ev : Event) (e₁ e₂ : Engine.LogEntry) :
    let c := runWorkload p crc sync mem ops
    eventAt c k = some ev → e₁ ∈ c.eng.wal.flatten → e₂ ∈ c.eng.wal.flatten → e₁.seq = e₂.seq →
    (asRead p e₁ ∈ (replayDir p crc (diskAt c k)).entries ↔ asRead p e₂ ∈ (replayDir p crc (diskAt c k)).entries) := by
  intro c hev h1 h2 hseq12
  obtain ⟨s, hs, _⟩ := recover_prefix_proc p hp crc hcrc sync mem ops hops hseq k ev hev
  have key : ∀ e ∈ c.eng.wal.flatten, (asRead p e ∈ (replayDir p crc (diskAt c k)).entries ↔ e.seq ≤ s) := by
    intro e he
    rw [hs]
    simp only [List.mem_map, List.mem_filter, decide_eq_true_eq]
    constructor
    · rintro ⟨e', ⟨_, hle⟩, heq⟩
      have : e'.seq = e.seq := by
        have := congrArg Entry.seq heq
        simpa [asRead, Kevo.Proofs.Wal.norm_seq, toWal] using this
      omega
    · intro hle
      exact ⟨e, ⟨he, hle⟩, rfl⟩
  rw [key e₁ h1, key e₂ h2, hseq12]

/-- C03 (buffer semantics): the committed operations are the LAST operation of every key. -/
theorem last_op_wins (ops : List (Bool × Bytes × Bytes)) (k : Bytes) :
    (bufferOps ops).find? (fun t => t.2.1 == k) = ops.reverse.find? (fun t => t.2.1 == k) := by
  rw [bufferOps_find]

end Kevo.Proofs.Crash
