/-
  Kevo.Proofs.Crash — truncation behaviour of the log reader (C10) and the process-death theorem (C02, C03).
-/
import Kevo.Model.Crash
import Kevo.Proofs.Wal
namespace Kevo.Proofs.Crash
open Kevo Kevo.Wal Kevo.Crash Kevo.Spec

abbrev EntryWF := Kevo.Proofs.Wal.EntryWF

/-- the entries of `es` whose encodings lie wholly within the first `n` bytes of the file -/
def wholeBefore (p : WalParams) (crc : Bytes → Nat) : Nat → List Entry → List Entry
  | _, [] => []
  | n, e :: es =>
    let l := (encodeEntry p crc e).length
    if l ≤ n then e :: wholeBefore p crc (n - l) es else []

/-- C10 (truncation): a log cut at ANY byte replays to exactly the entries completely written before the cut,
    reports no error and skips nothing — a strict prefix of a record never parses as a record. -/
theorem replay_truncated (p : WalParams) (hp : p.WF) (crc : Bytes → Nat) (hcrc : ∀ bs, crc bs < 2 ^ 32)
    (es : List Entry) (hes : ∀ e ∈ es, EntryWF p e) (n : Nat) :
    let r := replayFile p crc ((es.flatMap (encodeEntry p crc)).take n)
    r.entries = (wholeBefore p crc n es).map (norm p) ∧ r.outcome = .ok ∧ r.skipped = 0 := by
  sorry

/-- C10 (damage after byte n): whatever the bytes from position n on, every entry completely written before n is
    delivered first, unaltered and in order (the reader is a function of the bytes it has consumed). -/
theorem replay_agrees_before_damage (p : WalParams) (hp : p.WF) (crc : Bytes → Nat) (hcrc : ∀ bs, crc bs < 2 ^ 32)
    (es : List Entry) (hes : ∀ e ∈ es, EntryWF p e) (n : Nat) (junk : Bytes) :
    ((wholeBefore p crc n es).map (norm p)) <+: (replayFile p crc ((es.flatMap (encodeEntry p crc)).take n ++ junk)).entries := by
  sorry

/-- a workload operation the log accepts: sizes fit the format, batch entries fit one physical record. -/
def WOpWF (p : WalParams) : WOp → Prop
  | .put k v => k.length < 2 ^ 32 ∧ v.length < 2 ^ 32
  | .del k => k.length < 2 ^ 32
  | .tx ops => ∀ t ∈ ops, t.2.1.length < 2 ^ 32 ∧ t.2.2.length < 2 ^ 32 ∧
      payloadSize p { op := if t.1 then p.opDelete else p.opPut, seq := 0, key := t.2.1, val := t.2.2 } ≤ p.maxRecord
  | .flush => True
  | .reopen => True

def eventAt (c : CSt) (k : Nat) : Option Event := c.events.reverse[k - 1]?

/-- log entries as the reader returns them -/
def asRead (p : WalParams) (e : Engine.LogEntry) : Entry := norm p (toWal e)

/-- C02 + C03 (process death): kill the process at ANY instrumentation site k of ANY workload, in ANY sync mode and
    for ANY memtable size; replaying what the operating system holds of the log files yields, without error, exactly
    the entries of the write history whose sequence number is at most some s — i.e. the history up to a whole write
    (all entries of a transaction share one number, so each transaction is present completely or not at all; nothing
    is reordered, duplicated or invented) — where s does not exceed what had been issued, and with synchronous
    logging s covers every acknowledged write. -/
theorem recover_prefix_proc (p : WalParams) (hp : p.WF) (crc : Bytes → Nat) (hcrc : ∀ bs, crc bs < 2 ^ 32)
    (sync mem : Nat) (ops : List WOp) (hops : ∀ o ∈ ops, WOpWF p o) (hseq : ops.length + 1 < p.maxSeq)
    (k : Nat) (ev : Event) :
    let c := runWorkload p crc sync mem ops
    eventAt c k = some ev →
    ∃ s, (replayDir p crc (diskAt c k)).entries = (c.eng.wal.flatten.filter (fun e => e.seq ≤ s)).map (asRead p) ∧
         (replayDir p crc (diskAt c k)).isErr = false ∧
         s ≤ ev.walNext ∧ (sync = 2 → ev.ackedSeq ≤ s) := by
  sorry

/-- C02 (clean close): after a clean close everything written before is on disk: at the acknowledgement of a
    `reopen` the recovered entries are the whole history so far. -/
theorem clean_close_durable (p : WalParams) (hp : p.WF) (crc : Bytes → Nat) (hcrc : ∀ bs, crc bs < 2 ^ 32)
    (sync mem : Nat) (ops : List WOp) (hops : ∀ o ∈ ops, WOpWF p o) (hseq : ops.length + 2 < p.maxSeq) :
    let c := runWorkload p crc sync mem (ops ++ [.reopen])
    (replayDir p crc (diskAt c c.events.length)).entries = c.eng.wal.flatten.map (asRead p) := by
  sorry

/-- the model's flushed lengths never exceed what was handed to the writer (well-formedness of the disk model) -/
theorem flushed_le_stream (p : WalParams) (crc : Bytes → Nat) (sync mem : Nat) (ops : List WOp) :
    ∀ f ∈ (runWorkload p crc sync mem ops).files, f.flushed ≤ f.stream.length := by
  sorry

/-- C03 (all-or-nothing under process death): corollary of `recover_prefix_proc` — entries sharing a sequence number
    are recovered together or not at all. -/
theorem commit_atomic_crash_proc (p : WalParams) (hp : p.WF) (crc : Bytes → Nat) (hcrc : ∀ bs, crc bs < 2 ^ 32)
    (sync mem : Nat) (ops : List WOp) (hops : ∀ o ∈ ops, WOpWF p o) (hseq : ops.length + 1 < p.maxSeq)
    (k : Nat) (ev : Event) (e₁ e₂ : Engine.LogEntry) :
    let c := runWorkload p crc sync mem ops
    eventAt c k = some ev → e₁ ∈ c.eng.wal.flatten → e₂ ∈ c.eng.wal.flatten → e₁.seq = e₂.seq →
    (asRead p e₁ ∈ (replayDir p crc (diskAt c k)).entries ↔ asRead p e₂ ∈ (replayDir p crc (diskAt c k)).entries) := by
  sorry

/-- C03 (buffer semantics): the committed operations are the LAST operation of every key. -/
theorem last_op_wins (ops : List (Bool × Bytes × Bytes)) (k : Bytes) :
    (bufferOps ops).find? (fun t => t.2.1 == k) = ops.reverse.find? (fun t => t.2.1 == k) := by
  sorry

end Kevo.Proofs.Crash
