/-
  Kevo.Proofs.CrashOps — the operation-level invariant of the process-death model: every workload operation
  preserves it (helper file for Proofs/Crash).
-/
import Kevo.Proofs.CrashInv
namespace Kevo.Proofs.CrashAux
open Kevo Kevo.Wal Kevo.Crash Kevo.Spec Kevo.Proofs.Wal
open Kevo.Engine (LogEntry MemTable Pool appendLog)

def mxSeq (es : List LogEntry) : Nat := es.foldl (fun m e => max m e.seq) 0

theorem foldl_max_const' (n : Nat) : ∀ (es : List LogEntry) (m : Nat), (∀ e ∈ es, e.seq = n) → m ≤ n → es ≠ [] →
    es.foldl (fun m e => max m e.seq) m = n := by
  intro es
  induction es with
  | nil => intro m _ _ h; exact absurd rfl h
  | cons e es ih =>
    intro m h hm _
    rw [List.foldl_cons, h e (by simp)]
    have hmax : max m n = n := by omega
    rw [hmax]
    cases es with
    | nil => rfl
    | cons e' es' => exact ih n (fun e'' h' => h e'' (by simp [h'])) (Nat.le_refl _) (by simp)

theorem mxSeq_append_const (es es' : List LogEntry) (n : Nat) (h : ∀ e ∈ es', e.seq = n)
    (hm : mxSeq es ≤ n) (hne : es' ≠ []) : mxSeq (es ++ es') = n := by
  unfold mxSeq at hm ⊢
  rw [List.foldl_append]
  exact foldl_max_const' n es' _ h hm hne

/-- the invariant between operations: the logical log IS the engine's log, nothing is in flight -/
def Full (p : WalParams) (crc : Bytes → Nat) (sync : Nat) (c : CSt) (n : Nat) : Prop :=
  ∃ L0 last, c.eng.wal = L0 ++ [last] ∧ Inv p crc sync c (L0 ++ [last]) c.eng.walNext ∧ Tight p crc c L0 last ∧
    mxSeq (L0 ++ [last]).flatten + 1 = c.eng.walNext ∧ c.eng.walNext ≤ n + 1

theorem Full.congr {p : WalParams} {crc : Bytes → Nat} {sync : Nat} {c c' : CSt} {n : Nat} (h : Full p crc sync c n)
    (hf : c'.files = c.files) (hb : c'.buffered = c.buffered) (hc : c.cap ≤ c'.cap) (he : c'.events = c.events)
    (ha : c'.ackedSeq = c.ackedSeq) (hs : c'.sync = c.sync) (hw : c'.eng.wal = c.eng.wal)
    (hn : c'.eng.walNext = c.eng.walNext) (hl : c'.eng.lastSeq = c.eng.lastSeq) : Full p crc sync c' n := by
  obtain ⟨L0, last, h1, h2, h3, h4, h5⟩ := h
  refine ⟨L0, last, by rw [hw]; exact h1, ?_, h3.congr hf hb hc, by rw [hn]; exact h4, by rw [hn]; exact h5⟩
  rw [hn]
  exact h2.congr hf he (by rw [hn]; omega) hl ha hs

theorem Full.at {p : WalParams} {crc : Bytes → Nat} {sync : Nat} {c : CSt} {n : Nat} (h : Full p crc sync c n)
    (site : String) : Full p crc sync (c.at site) n := by
  obtain ⟨L0, last, h1, h2, h3, h4, h5⟩ := h
  exact ⟨L0, last, h1, h2.at site, h3.at site, h4, h5⟩

theorem Full.mono {p : WalParams} {crc : Bytes → Nat} {sync : Nat} {c : CSt} {n m : Nat} (h : Full p crc sync c n)
    (hm : n ≤ m) : Full p crc sync c m := by
  obtain ⟨L0, last, h1, h2, h3, h4, h5⟩ := h
  exact ⟨L0, last, h1, h2, h3, h4, by omega⟩

theorem Full.ats {p : WalParams} {crc : Bytes → Nat} {sync : Nat} {n : Nat} : ∀ (sites : List String) {c : CSt},
    Full p crc sync c n → Full p crc sync (sites.foldl CSt.at c) n := by
  intro sites
  induction sites with
  | nil => intro c h; exact h
  | cons s sites ih => intro c h; exact ih (h.at s)

/-- an update of the engine that leaves the log, its counter and the last sequence number alone -/
theorem Full.eng {p : WalParams} {crc : Bytes → Nat} {sync : Nat} {c : CSt} {n : Nat} (h : Full p crc sync c n)
    (e' : Engine.St) (hw : e'.wal = c.eng.wal) (hn : e'.walNext = c.eng.walNext) (hl : e'.lastSeq = c.eng.lastSeq) :
    Full p crc sync { c with eng := e' } n :=
  h.congr rfl rfl (Nat.le_refl _) rfl rfl rfl hw hn hl

/-! ### engine facts -/

theorem flushOne_fields (s : Engine.St) (m : MemTable) :
    (Engine.flushOne s m).wal = s.wal ∧ (Engine.flushOne s m).walNext = s.walNext ∧
    (Engine.flushOne s m).lastSeq = s.lastSeq := by
  unfold Engine.flushOne
  by_cases h : m.size = 0
  · rw [if_pos h]; exact ⟨rfl, rfl, rfl⟩
  · rw [if_neg h]
    simp only []
    split <;> exact ⟨rfl, rfl, rfl⟩

theorem recoverTables_snd (cfg : Engine.Cfg) (es : List LogEntry) : (Engine.recoverTables cfg es).2 = mxSeq es := by
  unfold Engine.recoverTables mxSeq
  simp only []
  generalize hacc : ((([] : List MemTable), ({} : MemTable), 0) : List MemTable × MemTable × Nat) = acc
  have h0 : (0 : Nat) = acc.2.2 := by rw [← hacc]
  conv => rhs; rw [h0]
  clear hacc h0
  induction es generalizing acc with
  | nil => rfl
  | cons e es ih =>
    simp only [List.foldl_cons]
    rw [ih]

/-! ### flushing memtables (no effect on the log apart from the rotation) -/

theorem full_flushPublish {p : WalParams} {crc : Bytes → Nat} {sync : Nat} {c : CSt} {n : Nat}
    (h : Full p crc sync c n) (m : MemTable) :
    Full p crc sync (({ c with eng := Engine.flushOne c.eng m }).at "flush.published") n := by
  obtain ⟨f1, f2, f3⟩ := flushOne_fields (c.eng) m
  refine Full.at ?_ _
  exact h.congr rfl rfl (Nat.le_refl _) rfl rfl rfl f1 f2 f3

theorem full_flushOneSites {p : WalParams} {crc : Bytes → Nat} {sync : Nat} {c : CSt} {n : Nat}
    (h : Full p crc sync c n) (m : MemTable) : Full p crc sync (flushOneSites c m) n := by
  unfold Kevo.Crash.flushOneSites
  by_cases hm : m.size = 0
  · rw [if_pos hm]; exact h
  · rw [if_neg hm]
    simp only []
    have h6 := (((((h.at "flush.beforeFinish").at "sst.finish.written").at "sst.finish.synced").at
      "sst.finish.renamed").at "flush.sstFinished").at "flush.beforePublish"
    exact full_flushPublish h6 m

theorem full_flushFold {p : WalParams} {crc : Bytes → Nat} {sync : Nat} {n : Nat} : ∀ (ms : List MemTable) {c : CSt},
    Full p crc sync c n → Full p crc sync (ms.foldl flushOneSites c) n := by
  intro ms
  induction ms with
  | nil => intro c h; exact h
  | cons m ms ih => intro c h; exact ih (full_flushOneSites h m)

theorem full_rotateSites {p : WalParams} {crc : Bytes → Nat} {sync : Nat} {c : CSt} {n : Nat}
    (h : Full p crc sync c n) : Full p crc sync (rotateSites c) n := by
  obtain ⟨L0, last, h1, h2, h3, h4, h5⟩ := h
  obtain ⟨r1, r2, r3, _⟩ := inv_rotateSites h2 h3
  refine ⟨L0 ++ [last], [], ?_, ?_, r2, ?_, ?_⟩
  · rw [r3]; simp only [Engine.rotate]; rw [h1]
  · rw [r3]; exact r1
  · rw [r3]; simp only [Engine.rotate]; rw [← h4]; simp
  · rw [r3]; exact h5

theorem full_flushSites {p : WalParams} {crc : Bytes → Nat} {sync : Nat} {c : CSt} {n : Nat}
    (h : Full p crc sync c n) : Full p crc sync (flushSites c) n := by
  unfold Kevo.Crash.flushSites
  simp only []
  have h1 := h.at "mgr.flush.start"
  split
  · split
    · exact full_flushOneSites (full_rotateSites h1) _
    · exact h1
  · have h2 := (full_flushFold (c.at "mgr.flush.start").eng.mgrImm (full_rotateSites h1)).at "mgr.flush.beforeClear"
    exact h2.congr rfl rfl (Nat.le_refl _) rfl rfl rfl rfl rfl rfl

theorem full_schedule {p : WalParams} {crc : Bytes → Nat} {sync : Nat} {c : CSt} {n : Nat}
    (h : Full p crc sync c n) : Full p crc sync (schedule c).1 n := by
  unfold Kevo.Crash.schedule
  split
  · simp only []
    have h1 := (h.eng { c.eng with pool := c.eng.pool.switch.1 } rfl rfl rfl).at "pool.switch.immutable"
    refine Full.at ?_ _
    exact h1.congr rfl rfl (Nat.le_refl _) rfl rfl rfl rfl rfl rfl
  · exact h

/-- the common tail of every write: schedule a flush if the pool asks for one, acknowledge, run the flush -/
def opTail (c : CSt) (sites : List String) : CSt :=
  match schedule c with
  | (c, sched) =>
    let c := sites.foldl CSt.at c
    if sched then flushSites c else c

theorem full_opTail {p : WalParams} {crc : Bytes → Nat} {sync : Nat} {c : CSt} {n : Nat}
    (h : Full p crc sync c n) (sites : List String) : Full p crc sync (opTail c sites) n := by
  unfold CrashAux.opTail
  have h1 := full_schedule h
  rcases hs : Kevo.Crash.schedule c with ⟨c', sched⟩
  rw [hs] at h1
  simp only []
  split
  · exact full_flushSites (Full.ats sites h1)
  · exact Full.ats sites h1


/-! ### clean close + reopen -/

theorem full_flushCur {p : WalParams} {crc : Bytes → Nat} {sync : Nat} {c : CSt} {n : Nat}
    (h : Full p crc sync c n) : Full p crc sync (flushCur c) n ∧ (flushCur c).buffered = 0 := by
  obtain ⟨L0, last, h1, h2, h3, h4, h5⟩ := h
  obtain ⟨i1, t1, b1⟩ := inv_flushCur h2 h3
  exact ⟨⟨L0, last, h1, i1, t1, h4, h5⟩, b1⟩

theorem full_reopenEng {p : WalParams} {crc : Bytes → Nat} {sync : Nat} {c : CSt} {n : Nat}
    (h : Full p crc sync c n) (hb : c.buffered = 0) (hps : syncedOf c.events = c.files.map (·.flushed)) :
    Full p crc sync { c with eng := Engine.reopen c.eng, buffered := 0, cap := 65536, batchBytes := 0 } n := by
  obtain ⟨L0, last, h1, h2, h3, h4, h5⟩ := h
  have hmx : (Engine.recoverTables c.eng.cfg c.eng.wal.flatten).2 = c.eng.walNext - 1 := by
    rw [recoverTables_snd, h1]; omega
  have hwn : (Engine.reopen c.eng).walNext = c.eng.walNext := by
    show (if (Engine.recoverTables c.eng.cfg c.eng.wal.flatten).2 > 0 then
      max 1 ((Engine.recoverTables c.eng.cfg c.eng.wal.flatten).2 + 1) else 1) = _
    rw [hmx]; split <;> omega
  have hls : (Engine.reopen c.eng).lastSeq = c.eng.walNext - 1 := hmx
  refine ⟨L0, last, h1, ?_, ?_, ?_, ?_⟩
  · show Inv p crc sync _ _ (Engine.reopen c.eng).walNext
    rw [hwn]
    exact h2.setLast h3 (fun _ => hb) (fun _ => hps) rfl rfl
      (by show _ ≤ (Engine.reopen c.eng).walNext + 1; rw [hwn]; omega) hls rfl rfl
  · obtain ⟨fl, s1, s2, s3⟩ := h3
    exact ⟨fl, s1, by rw [hb] at s2; exact s2, Nat.zero_le _⟩
  · show _ = (Engine.reopen c.eng).walNext
    rw [hwn]; exact h4
  · show (Engine.reopen c.eng).walNext ≤ _
    rw [hwn]; exact h5

theorem reopenSites_eq (c : CSt) : reopenSites c =
    ({ (((flushCur c).at "wal.close.flushed").at "wal.close.synced").at "wal.close.closed" with
       eng := Engine.reopen c.eng, buffered := 0, cap := 65536, batchBytes := 0 }).at "harness.ack" := rfl

theorem full_reopenSites {p : WalParams} {crc : Bytes → Nat} {sync : Nat} {c : CSt} {n : Nat}
    (h : Full p crc sync c n) : Full p crc sync (reopenSites c) n := by
  rw [reopenSites_eq]
  refine Full.at ?_ _
  obtain ⟨f1, b1⟩ := full_flushCur h
  have f2 := ((f1.at "wal.close.flushed").at "wal.close.synced").at "wal.close.closed"
  refine full_reopenEng f2 b1 ?_
  rw [syncedOf_at, if_neg (by decide), syncedOf_at, if_pos (by decide)]
  rfl

/-! ### the window between "bytes handed to the writer" and "logical log updated" -/

def Mid (p : WalParams) (crc : Bytes → Nat) (sync : Nat) (c : CSt) (n : Nat) (les : List LogEntry) : Prop :=
  ∃ L0 last, c.eng.wal = L0 ++ [last] ∧ Inv p crc sync c (L0 ++ [last ++ les]) (c.eng.walNext + 1) ∧
    Tight p crc c L0 (last ++ les) ∧ mxSeq (L0 ++ [last]).flatten + 1 = c.eng.walNext ∧ c.eng.walNext ≤ n + 1

def wPre (p : WalParams) (crc : Bytes → Nat) (c : CSt) (le : LogEntry) : CSt :=
  (maybeSync ((writeEntry p crc (c.at "wal.append.pre") (toWal le)).at "wal.append.buffered")).at "wal.append.done"
def wLog (c : CSt) (les : List LogEntry) (seq : Nat) (site : String) : CSt :=
  { c with eng := { c.eng with wal := appendLog c.eng.wal les, walNext := seq + 1 } }.at site
def wMem (c : CSt) (k : Bytes) (seq : Nat) (val : Option Bytes) (site : String) : CSt :=
  { c with eng := { c.eng with pool := c.eng.pool.add c.eng.cfg { key := k, seq, val }, lastSeq := seq } }.at site
def mkLe (isDel : Bool) (seq : Nat) (k v : Bytes) : LogEntry :=
  { op := if isDel then 2 else 1, seq, key := k, val := if isDel then [] else v }

theorem writeOne_eq (p : WalParams) (crc : Bytes → Nat) (c : CSt) (isDel : Bool) (k v : Bytes) :
    writeOne p crc c isDel k v =
      opTail (wMem (wLog (wPre p crc c (mkLe isDel c.eng.walNext k v)) [mkLe isDel c.eng.walNext k v] c.eng.walNext
        ((if isDel then "mgr.del" else "mgr.put") ++ ".afterLog")) k c.eng.walNext (if isDel then none else some v)
        ((if isDel then "mgr.del" else "mgr.put") ++ ".afterMem")) ["harness.ack"] := rfl

theorem mid_of_write {p : WalParams} {crc : Bytes → Nat} {sync : Nat} {c : CSt} {n : Nat} (hp : p.WF)
    (h : Full p crc sync c n) (le : LogEntry) (hseq : le.seq = c.eng.walNext) (hok : EntryOK p (toWal le)) :
    Mid p crc sync (wPre p crc c le) n [le] ∧ (sync = 2 → (wPre p crc c le).buffered = 0) ∧
    (wPre p crc c le).eng = c.eng ∧
    (sync = 2 → syncedOf (wPre p crc c le).events = (wPre p crc c le).files.map (·.flushed)) := by
  obtain ⟨L0, last, h1, h2, h3, h4, h5⟩ := h
  obtain ⟨a1, a2, a3⟩ := Inv.write hp (h2.at "wal.append.pre") (h3.at "wal.append.pre") le hseq hok
  obtain ⟨b1, b2, b3, b4, b5⟩ := inv_maybeSync (a1.at "wal.append.buffered") (a2.at "wal.append.buffered")
  have hps : sync = 2 → syncedOf (wPre p crc c le).events = (wPre p crc c le).files.map (·.flushed) := by
    intro h2'
    show syncedOf ((maybeSync _).at "wal.append.done").events = _
    rw [syncedOf_at, if_neg (by decide)]
    exact b5 h2'
  have heng : (wPre p crc c le).eng = c.eng := by
    show (maybeSync _).eng = _
    rw [b4]
    exact a3
  refine ⟨?_, b3, heng, hps⟩
  unfold Mid
  rw [heng]
  exact ⟨L0, last, h1, (b1.at "wal.append.done").congr rfl rfl (by rw [heng]; exact Nat.le_refl _) rfl rfl rfl,
    b2.at "wal.append.done", h4, h5⟩

theorem appendLog_snoc (L0 : List (List LogEntry)) (last les : List LogEntry) :
    appendLog (L0 ++ [last]) les = L0 ++ [last ++ les] := by
  simp [appendLog]

theorem mid_commit {p : WalParams} {crc : Bytes → Nat} {sync : Nat} {c : CSt} {n : Nat} {les : List LogEntry}
    (h : Mid p crc sync c n les) (hne : les ≠ []) (hs : ∀ e ∈ les, e.seq = c.eng.walNext)
    (seq : Nat) (hseq : seq = c.eng.walNext) (site : String) : Full p crc sync (wLog c les seq site) (n + 1) := by
  subst hseq
  obtain ⟨L0, last, m1, m2, m3, m4, m5⟩ := h
  unfold wLog
  refine Full.at ?_ _
  refine ⟨L0, last ++ les, ?_, ?_, ?_, ?_, ?_⟩
  · show appendLog c.eng.wal les = _
    rw [m1, appendLog_snoc]
  · exact m2.congr rfl rfl (Nat.le_succ _) rfl rfl rfl
  · exact m3.congr rfl rfl (Nat.le_refl _)
  · show _ = c.eng.walNext + 1
    have : (L0 ++ [last ++ les]).flatten = (L0 ++ [last]).flatten ++ les := by simp
    rw [this, mxSeq_append_const _ les c.eng.walNext hs (by omega) hne]
  · show c.eng.walNext + 1 ≤ n + 1 + 1
    omega

theorem full_setLast {p : WalParams} {crc : Bytes → Nat} {sync : Nat} {c : CSt} {n : Nat}
    (h : Full p crc sync c n) (hb : sync = 2 → c.buffered = 0)
    (hps : sync = 2 → syncedOf c.events = c.files.map (·.flushed)) (sq : Nat) (hsq : sq + 1 = c.eng.walNext) (P : Pool) :
    Full p crc sync { c with eng := { c.eng with pool := P, lastSeq := sq } } n := by
  obtain ⟨L0, last, h1, h2, h3, h4, h5⟩ := h
  refine ⟨L0, last, h1, ?_, h3.congr rfl rfl (Nat.le_refl _), h4, h5⟩
  exact h2.setLast h3 hb hps rfl rfl (Nat.le_succ _) (by show sq = c.eng.walNext - 1; omega) rfl rfl

theorem full_writeOne {p : WalParams} {crc : Bytes → Nat} {sync : Nat} {c : CSt} {n : Nat} (hp : p.WF)
    (h : Full p crc sync c n) (isDel : Bool) (k v : Bytes) (hk : k.length < 2 ^ 32) (hv : v.length < 2 ^ 32)
    (hn : n + 1 < 2 ^ 64) : Full p crc sync (writeOne p crc c isDel k v) (n + 1) := by
  have hwn : c.eng.walNext ≤ n + 1 := by obtain ⟨_, _, _, _, _, _, h5⟩ := h; exact h5
  have hp' := hp
  obtain ⟨_, _, _, _, _, _, _, hP, hD, hM, _⟩ := hp'
  have hok : EntryOK p (toWal (mkLe isDel c.eng.walNext k v)) := by
    refine ⟨?_, ?_, hk, ?_⟩
    · cases isDel
      · left; simp [toWal, mkLe, hP]
      · right; left; simp [toWal, mkLe, hD]
    · show c.eng.walNext < 2 ^ 64; omega
    · cases isDel
      · intro _; exact hv
      · intro hne; exact absurd (by simp [toWal, mkLe, hD]) hne
  obtain ⟨m1, m2, m3, m4⟩ := mid_of_write hp h (mkLe isDel c.eng.walNext k v) rfl hok
  rw [writeOne_eq]
  apply full_opTail
  unfold wMem
  refine Full.at ?_ _
  have hwl : (wLog (wPre p crc c (mkLe isDel c.eng.walNext k v)) [mkLe isDel c.eng.walNext k v] c.eng.walNext
        ((if isDel then "mgr.del" else "mgr.put") ++ ".afterLog")).eng.walNext = c.eng.walNext + 1 := rfl
  apply full_setLast
  · apply mid_commit m1 (by simp)
    · intro e he
      simp only [List.mem_singleton] at he
      rw [he, m3]; rfl
    · rw [m3]
  · exact m2
  · intro h2
    unfold wLog
    rw [syncedOf_at, if_neg (by cases isDel <;> decide)]
    exact m4 h2
  · exact hwl.symm


/-! ### transactions -/

def txLes (bo : List (Bool × Bytes × Bytes)) (seq : Nat) : List LogEntry :=
  bo.map (fun (d, k, v) => ({ op := if d then 2 else 1, seq, key := k, val := if d then [] else v } : LogEntry))
def txTotal (p : WalParams) (les : List LogEntry) : Nat :=
  (les.map (fun e => p.headerSize + Wal.payloadSize p (toWal e))).foldl (· + ·) 0
def preFlush (c : CSt) (total : Nat) : CSt :=
  if total > c.cap - c.buffered then
    let c := flushCur c
    if total > c.cap then { c with cap := total + 1024 } else c
  else c
def tPre (p : WalParams) (crc : Bytes → Nat) (c : CSt) (les : List LogEntry) : CSt :=
  (maybeSync ((les.foldl (fun c e => writeEntry p crc (c.at "wal.batch.record") (toWal e))
    (preFlush (c.at "wal.batch.pre") (txTotal p les))).at "wal.batch.buffered")).at "wal.batch.done"
def memFold (bo : List (Bool × Bytes × Bytes)) (seq : Nat) (c : CSt) : CSt :=
  bo.foldl (fun c (d, k, v) =>
      { c with eng := { c.eng with pool := c.eng.pool.add c.eng.cfg { key := k, seq, val := if d then none else some v },
                                   lastSeq := seq } }.at "mgr.batch.entry") c

theorem txCommit_eq (p : WalParams) (crc : Bytes → Nat) (c : CSt) (ops : List (Bool × Bytes × Bytes)) :
    txCommit p crc c ops =
      if (bufferOps ops).isEmpty then (((c.at "tx.begin.beforeLock").at "tx.begin.locked").at "tx.commit.applied").at "harness.ack"
      else opTail (memFold (bufferOps ops) c.eng.walNext
        (wLog (tPre p crc (((c.at "tx.begin.beforeLock").at "tx.begin.locked").at "tx.commit.beforeApply")
          (txLes (bufferOps ops) c.eng.walNext)) (txLes (bufferOps ops) c.eng.walNext) c.eng.walNext "mgr.batch.afterLog"))
        ["tx.commit.applied", "harness.ack"] := rfl

theorem sum_foldl : ∀ (l : List Nat) (a : Nat), l.foldl (· + ·) a = a + l.foldl (· + ·) 0 := by
  intro l
  induction l with
  | nil => intro a; rfl
  | cons x l ih =>
    intro a
    rw [List.foldl_cons, List.foldl_cons, ih (a + x), ih (0 + x)]
    omega

theorem encodeEntry_length_fit (p : WalParams) (crc : Bytes → Nat) (e : Entry) (h : payloadSize p e ≤ p.maxRecord) :
    (encodeEntry p crc e).length = 7 + payloadSize p e := by
  unfold encodeEntry
  simp only []
  rw [if_pos h, record_length, payload_length]

theorem txTotal_eq (p : WalParams) (hp : p.WF) (crc : Bytes → Nat) : ∀ (les : List LogEntry),
    (∀ e ∈ les, payloadSize p (toWal e) ≤ p.maxRecord) → txTotal p les = (encL p crc les).length := by
  intro les
  induction les with
  | nil => intro _; rfl
  | cons e les ih =>
    intro h
    have hcons : e :: les = [e] ++ les := rfl
    have ih' := ih (fun e' he' => h e' (by simp [he']))
    unfold txTotal at ih' ⊢
    rw [List.map_cons, List.foldl_cons, sum_foldl, ih', hcons, encL_append, encL_singleton, List.length_append,
      encodeEntry_length_fit p crc _ (h e (by simp)), hp.1]
    omega

theorem full_preFlush {p : WalParams} {crc : Bytes → Nat} {sync : Nat} {c : CSt} {n : Nat}
    (h : Full p crc sync c n) (total : Nat) :
    Full p crc sync (preFlush c total) n ∧ total ≤ (preFlush c total).cap - (preFlush c total).buffered ∧
    (preFlush c total).eng = c.eng := by
  unfold preFlush
  by_cases h1 : total > c.cap - c.buffered
  · rw [if_pos h1]
    simp only []
    obtain ⟨f1, b1⟩ := full_flushCur h
    by_cases h2 : total > (flushCur c).cap
    · rw [if_pos h2]
      refine ⟨f1.congr rfl rfl (by show (flushCur c).cap ≤ total + 1024; omega) rfl rfl rfl rfl rfl rfl, ?_, rfl⟩
      show total ≤ total + 1024 - (flushCur c).buffered
      omega
    · rw [if_neg h2]
      exact ⟨f1, by rw [b1]; omega, rfl⟩
  · rw [if_neg h1]
    exact ⟨h, by omega, rfl⟩

theorem mid_of_batch {p : WalParams} {crc : Bytes → Nat} {sync : Nat} {c : CSt} {n : Nat} (hp : p.WF)
    (h : Full p crc sync c n) (les : List LogEntry) (hseq : ∀ e ∈ les, e.seq = c.eng.walNext)
    (hok : ∀ e ∈ les, EntryOK p (toWal e)) (hfit : ∀ e ∈ les, payloadSize p (toWal e) ≤ p.maxRecord) :
    Mid p crc sync (tPre p crc c les) n les ∧ (sync = 2 → (tPre p crc c les).buffered = 0) ∧
    (tPre p crc c les).eng = c.eng ∧
    (sync = 2 → syncedOf (tPre p crc c les).events = (tPre p crc c les).files.map (·.flushed)) := by
  obtain ⟨f1, r1, e1⟩ := full_preFlush (h.at "wal.batch.pre") (txTotal p les)
  have e1' : (preFlush (c.at "wal.batch.pre") (txTotal p les)).eng = c.eng := e1
  obtain ⟨L0, last, g1, g2, g3, g4, g5⟩ := f1
  obtain ⟨a1, a2, a3⟩ := Inv.batch hp g2 g3 les (by rw [e1']; exact hseq) hok hfit
    (by rw [← txTotal_eq p hp crc les hfit]; exact r1)
  obtain ⟨b1, b2, b3, b4, b5⟩ := inv_maybeSync (a1.at "wal.batch.buffered") (a2.at "wal.batch.buffered")
  have hps : sync = 2 → syncedOf (tPre p crc c les).events = (tPre p crc c les).files.map (·.flushed) := by
    intro h2'
    show syncedOf ((maybeSync _).at "wal.batch.done").events = _
    rw [syncedOf_at, if_neg (by decide)]
    exact b5 h2'
  have heng : (tPre p crc c les).eng = c.eng := by
    show (maybeSync _).eng = _
    rw [b4]
    show CSt.eng (List.foldl _ _ les) = _
    rw [a3, e1']
  refine ⟨?_, b3, heng, hps⟩
  unfold Mid
  rw [heng]
  rw [e1'] at g1 g4 g5
  refine ⟨L0, last, g1, ?_, b2.at "wal.batch.done", g4, g5⟩
  have b1' := b1.at "wal.batch.done"
  rw [e1'] at b1'
  exact b1'.congr rfl rfl (by rw [heng]; exact Nat.le_refl _) rfl rfl rfl

theorem full_memFold {p : WalParams} {crc : Bytes → Nat} {sync : Nat} {n : Nat} (sq : Nat) :
    ∀ (bo : List (Bool × Bytes × Bytes)) (c : CSt), Full p crc sync c n → (sync = 2 → c.buffered = 0) →
      (sync = 2 → syncedOf c.events = c.files.map (·.flushed)) →
      sq + 1 = c.eng.walNext → Full p crc sync (memFold bo sq c) n := by
  intro bo
  induction bo with
  | nil => intro c h _ _ _; exact h
  | cons t bo ih =>
    intro c h hb hps hs
    obtain ⟨d, k, v⟩ := t
    unfold memFold
    rw [List.foldl_cons]
    refine ih _ (Full.at (full_setLast h hb hps sq hs _) _) hb ?_ hs
    intro h2
    rw [syncedOf_at, if_neg (by decide)]
    exact hps h2

theorem mem_bufferOps (ops : List (Bool × Bytes × Bytes)) (t : Bool × Bytes × Bytes) (h : t ∈ bufferOps ops) :
    t ∈ ops := by
  unfold bufferOps at h
  simp only [List.mem_filterMap] at h
  obtain ⟨k, _, hfind⟩ := h
  have := List.mem_of_find?_eq_some hfind
  simpa using this

theorem full_txCommit {p : WalParams} {crc : Bytes → Nat} {sync : Nat} {c : CSt} {n : Nat} (hp : p.WF)
    (h : Full p crc sync c n) (ops : List (Bool × Bytes × Bytes))
    (hops : ∀ t ∈ ops, t.2.1.length < 2 ^ 32 ∧ t.2.2.length < 2 ^ 32 ∧
      payloadSize p { op := if t.1 then p.opDelete else p.opPut, seq := 0, key := t.2.1, val := t.2.2 } ≤ p.maxRecord)
    (hn : n + 1 < 2 ^ 64) : Full p crc sync (txCommit p crc c ops) (n + 1) := by
  have hwn : c.eng.walNext ≤ n + 1 := by obtain ⟨_, _, _, _, _, _, h5⟩ := h; exact h5
  have hp' := hp
  obtain ⟨_, _, _, _, _, _, _, hP, hD, hM, _⟩ := hp'
  rw [txCommit_eq]
  by_cases hemp : (bufferOps ops).isEmpty
  · rw [if_pos hemp]
    exact ((((h.at _).at _).at _).at _).mono (Nat.le_succ _)
  · rw [if_neg hemp]
    have h0 := ((h.at "tx.begin.beforeLock").at "tx.begin.locked").at "tx.commit.beforeApply"
    have hmem : ∀ e ∈ txLes (bufferOps ops) c.eng.walNext, ∃ t ∈ ops,
        e = { op := if t.1 then 2 else 1, seq := c.eng.walNext, key := t.2.1, val := if t.1 then [] else t.2.2 } := by
      intro e he
      simp only [txLes, List.mem_map] at he
      obtain ⟨t, ht, rfl⟩ := he
      exact ⟨t, mem_bufferOps ops t ht, rfl⟩
    have hseq : ∀ e ∈ txLes (bufferOps ops) c.eng.walNext, e.seq = c.eng.walNext := by
      intro e he
      obtain ⟨t, _, rfl⟩ := hmem e he
      rfl
    have hok : ∀ e ∈ txLes (bufferOps ops) c.eng.walNext, EntryOK p (toWal e) := by
      intro e he
      obtain ⟨t, ht, rfl⟩ := hmem e he
      obtain ⟨hk, hv, _⟩ := hops t ht
      obtain ⟨d, k, v⟩ := t
      refine ⟨?_, ?_, hk, ?_⟩
      · cases d
        · left; simp [toWal, hP]
        · right; left; simp [toWal, hD]
      · show c.eng.walNext < 2 ^ 64; omega
      · cases d
        · intro _; exact hv
        · intro hne; exact absurd (by simp [toWal, hD]) hne
    have hfit : ∀ e ∈ txLes (bufferOps ops) c.eng.walNext, payloadSize p (toWal e) ≤ p.maxRecord := by
      intro e he
      obtain ⟨t, ht, rfl⟩ := hmem e he
      obtain ⟨_, _, hsz⟩ := hops t ht
      obtain ⟨d, k, v⟩ := t
      cases d
      · simpa [payloadSize, toWal, hP, hD] using hsz
      · simpa [payloadSize, toWal, hP, hD] using hsz
    have hne : txLes (bufferOps ops) c.eng.walNext ≠ [] := by
      intro hnil
      apply hemp
      simp only [txLes, List.map_eq_nil_iff] at hnil
      rw [hnil]; rfl
    obtain ⟨m1, m2, m3, m4⟩ := mid_of_batch hp h0 (txLes (bufferOps ops) c.eng.walNext) hseq hok hfit
    apply full_opTail
    apply full_memFold
    · apply mid_commit m1 hne
      · intro e he
        rw [hseq e he, m3]; rfl
      · rw [m3]; rfl
    · exact m2
    · intro h2
      unfold wLog
      rw [syncedOf_at, if_neg (by decide)]
      exact m4 h2
    · rfl

end Kevo.Proofs.CrashAux
