/-
  Kevo.Proofs.CrashTrunc — the log reader on truncated / damaged files (helper file for Proofs/Crash, C10).
-/
import Kevo.Proofs.Wal
namespace Kevo.Proofs.CrashAux
open Kevo Kevo.Wal Kevo.Spec Kevo.Proofs.Wal

/-- same as `Kevo.Proofs.Crash.wholeBefore` -/
def wholeB (p : WalParams) (crc : Bytes → Nat) : Nat → List Entry → List Entry
  | _, [] => []
  | n, e :: es =>
    let l := (encodeEntry p crc e).length
    if l ≤ n then e :: wholeB p crc (n - l) es else []

/-- results of `readEntry` that end a file silently -/
def Benign (r : (Except RErr Entry) × RState × Bytes) : Prop :=
  r.1 = .error .eof ∨ r.1 = .error .unexpectedEof ∨ r.1 = .error .eofInFragments

theorem readRecord_record_prefix (p : WalParams) (hp : p.WF) (crc : Bytes → Nat)
    (ty : Nat) (h1 : 1 ≤ ty) (h4 : ty ≤ 4) (data : Bytes) (hd : data.length < 65536) (m : Nat)
    (hm : m < (record crc ty data).length) :
    readRecord p crc ((record crc ty data).take m) = .error (.eof, []) ∨
    readRecord p crc ((record crc ty data).take m) = .error (.unexpectedEof, []) := by
  obtain ⟨hh, _, _, hF, _, _, hL, _⟩ := hp
  rw [record_length] at hm
  by_cases h7 : m < 7
  · have hlen : ((record crc ty data).take m).length = m := by
      rw [List.length_take, record_length]; omega
    unfold readRecord
    rw [hlen, hh]
    by_cases h0 : m = 0
    · left; simp [h0]
    · right; simp [h0, h7]
  · have e1 : (record crc ty data).take m =
        le 4 (crc data) ++ le 2 data.length ++ [UInt8.ofNat ty] ++ data.take (m - 7) := by
      have hl : (le 4 (crc data) ++ le 2 data.length ++ [UInt8.ofNat ty]).length = 7 := by simp
      unfold record
      rw [List.take_append, hl, List.take_of_length_le (by omega)]
    rw [e1, readRecord_hdr p hh crc _ _ _ _ (le_length _ _) (le_length _ _)]
    have ht : (UInt8.ofNat ty).toNat = ty := toNat_ofNat_lt ty (by omega)
    have hl : unle (le 2 data.length) = data.length := unle_le 2 _ (by simpa using hd)
    rw [ht, hl, hF, hL]
    have c1 : ¬ (ty < 1 ∨ ty > 4) := by omega
    have hlt : (data.take (m - 7)).length = m - 7 := by rw [List.length_take]; omega
    rw [if_neg c1, hlt]
    by_cases c2 : data.length > 0 ∧ m - 7 = 0
    · left; rw [if_pos c2]
    · right; rw [if_neg c2, if_pos (by omega)]

theorem readEntry_of_readRecord_eof (p : WalParams) (crc : Bytes → Nat) (f : Nat) (st : RState) (bs : Bytes)
    (h : readRecord p crc bs = .error (.eof, []) ∨ readRecord p crc bs = .error (.unexpectedEof, [])) :
    Benign (readEntry p crc (f + 1) st bs) := by
  rw [readEntry]
  rcases h with h | h
  · rw [h]
    simp only []
    by_cases hf : st.frags.length > 0
    · rw [if_pos hf]; right; right; rfl
    · rw [if_neg hf]; left; rfl
  · rw [h]
    right; left; rfl

theorem benign_fuel_zero (p : WalParams) (crc : Bytes → Nat) (st : RState) (bs : Bytes) :
    Benign (readEntry p crc 0 st bs) := by
  left; rfl

theorem readEntry_record_prefix (p : WalParams) (hp : p.WF) (crc : Bytes → Nat)
    (ty : Nat) (h1 : 1 ≤ ty) (h4 : ty ≤ 4) (data : Bytes) (hd : data.length < 65536) (m : Nat)
    (hm : m < (record crc ty data).length) (fuel : Nat) (st : RState) :
    Benign (readEntry p crc fuel st ((record crc ty data).take m)) := by
  cases fuel with
  | zero => exact benign_fuel_zero p crc st _
  | succ f => exact readEntry_of_readRecord_eof p crc f st _ (readRecord_record_prefix p hp crc ty h1 h4 data hd m hm)

theorem take_append_ge {α} (a b : List α) (m : Nat) (h : a.length ≤ m) :
    (a ++ b).take m = a ++ b.take (m - a.length) := by
  rw [List.take_append, List.take_of_length_le h]

theorem take_append_lt {α} (a b : List α) (m : Nat) (h : m ≤ a.length) :
    (a ++ b).take m = a.take m := by
  rw [List.take_append]
  have : m - a.length = 0 := by omega
  rw [this]; simp

theorem readEntry_tail_prefix (p : WalParams) (hp : p.WF) (crc : Bytes → Nat) (hcrc : CrcOK crc) :
    ∀ (tf : Nat) (chunk : Bytes) (fs : List Bytes) (fuel m : Nat),
      fs ≠ [] → m < (tailFragments p crc tf chunk).length →
      Benign (readEntry p crc fuel { frags := fs } ((tailFragments p crc tf chunk).take m)) := by
  have hp' := hp
  obtain ⟨hh, hM13, hM, hF, hFi, hMi, hL, _⟩ := hp'
  intro tf
  induction tf with
  | zero => intro chunk fs fuel m _ h; simp [tailFragments] at h
  | succ tf ih =>
    intro chunk fs fuel m hfs hm
    have hfl : fs.length ≠ 0 := by
      intro h; exact hfs (List.length_eq_zero_iff.mp h)
    unfold tailFragments at hm ⊢
    by_cases hbig : chunk.length > p.maxRecord
    · simp only [if_pos hbig] at hm ⊢
      have htl : (chunk.take p.maxRecord).length = p.maxRecord := by
        rw [List.length_take]; omega
      by_cases hin : m < (record crc p.tMiddle (chunk.take p.maxRecord)).length
      · rw [take_append_lt _ _ _ (by omega)]
        exact readEntry_record_prefix p hp crc _ (by omega) (by omega) _ (by omega) m hin fuel _
      · rw [take_append_ge _ _ _ (by omega)]
        rw [List.length_append] at hm
        cases fuel with
        | zero => exact benign_fuel_zero p crc _ _
        | succ f =>
          rw [readEntry_step p hp crc hcrc p.tMiddle (by omega) (by omega) _ _ (by omega)]
          have n1 : ¬ p.tMiddle = p.tFull := by omega
          have n2 : ¬ p.tMiddle = p.tFirst := by omega
          simp only [if_neg n1, if_neg n2, if_true, if_neg hfl]
          exact ih _ _ f _ (by simp) (by omega)
    · by_cases hpos : chunk.length > 0
      · simp only [if_neg hbig, if_pos hpos] at hm ⊢
        exact readEntry_record_prefix p hp crc _ (by omega) (by omega) _ (by omega) m hm fuel _
      · simp only [if_neg hbig, if_neg hpos] at hm
        simp at hm

theorem readEntry_encodeEntry_prefix (p : WalParams) (hp : p.WF) (crc : Bytes → Nat) (hcrc : CrcOK crc) (e : Entry)
    (fuel m : Nat) (st : RState) (hm : m < (encodeEntry p crc e).length) :
    Benign (readEntry p crc fuel st ((encodeEntry p crc e).take m)) := by
  have hp' := hp
  obtain ⟨hh, hM13, hM, hF, hFi, hMi, hL, _⟩ := hp'
  have hpl := payload_length p e
  unfold encodeEntry at hm ⊢
  simp only [] at hm ⊢
  by_cases hfit : payloadSize p e ≤ p.maxRecord
  · simp only [if_pos hfit] at hm ⊢
    exact readEntry_record_prefix p hp crc _ (by omega) (by omega) _ (by omega) m hm fuel _
  · simp only [if_neg hfit] at hm ⊢
    have htl : ((payload p e).take (13 + min e.key.length (p.maxRecord - 13))).length =
        13 + min e.key.length (p.maxRecord - 13) := by
      rw [List.length_take]; omega
    by_cases hin : m < (record crc p.tFirst ((payload p e).take (13 + min e.key.length (p.maxRecord - 13)))).length
    · rw [take_append_lt _ _ _ (by omega)]
      exact readEntry_record_prefix p hp crc _ (by omega) (by omega) _ (by omega) m hin fuel _
    · rw [take_append_ge _ _ _ (by omega)]
      rw [List.length_append] at hm
      cases fuel with
      | zero => exact benign_fuel_zero p crc _ _
      | succ f =>
        rw [readEntry_step p hp crc hcrc p.tFirst (by omega) (by omega) _ _ (by omega)]
        have n1 : ¬ p.tFirst = p.tFull := by omega
        have n2 : ¬ ((payload p e).take (13 + min e.key.length (p.maxRecord - 13))).length = 0 := by omega
        simp only [if_neg n1, if_true, if_neg n2]
        exact readEntry_tail_prefix p hp crc hcrc _ _ _ f _ (by simp) (by omega)

/-- a benign read result ends the replay of the file without touching the accumulator -/
theorem replayFileAux_benign (p : WalParams) (crc : Bytes → Nat) (fuel : Nat) (st : RState) (bs : Bytes) (acc : Replay)
    (h : Benign (readEntry p crc (bs.length + 1) st bs)) :
    replayFileAux p crc fuel st bs acc = acc := by
  cases fuel with
  | zero => rfl
  | succ f =>
    rw [replayFileAux]
    rcases hr : readEntry p crc (bs.length + 1) st bs with ⟨r, st', rest⟩
    rw [hr] at h
    rcases h with h | h | h <;> simp only at h <;> subst h <;> rfl

/-- the truncated file: induction over the entries -/
theorem replayFileAux_trunc (p : WalParams) (hp : p.WF) (crc : Bytes → Nat) (hcrc : CrcOK crc) :
    ∀ (es : List Entry) (n fuel : Nat) (acc : Replay), (∀ e ∈ es, EntryOK p e) →
      ((encFile p crc es).take n).length < fuel →
      replayFileAux p crc fuel {} ((encFile p crc es).take n) acc =
        { acc with entries := acc.entries ++ (wholeB p crc n es).map (norm p),
                   processed := acc.processed + (wholeB p crc n es).length } := by
  intro es
  induction es with
  | nil =>
    intro n fuel acc _ hf
    obtain ⟨f, rfl⟩ : ∃ f, fuel = f + 1 := ⟨fuel - 1, by omega⟩
    rw [encFile_nil, List.take_nil, replayFileAux, readEntry_nil]
    simp [wholeB]
  | cons e es ih =>
    intro n fuel acc hes hf
    obtain ⟨f, rfl⟩ : ∃ f, fuel = f + 1 := ⟨fuel - 1, by omega⟩
    have hge := encodeEntry_length_ge p crc e
    rw [encFile_cons] at hf ⊢
    by_cases hl : (encodeEntry p crc e).length ≤ n
    · rw [take_append_ge _ _ _ hl] at hf ⊢
      rw [List.length_append] at hf
      rw [replayFileAux,
        readEntry_encodeEntry_ok p hp crc hcrc e (hes e (by simp)) _ _ (by rw [List.length_append]; omega)]
      simp only []
      rw [ih (n - (encodeEntry p crc e).length) f _ (fun e' h => hes e' (by simp [h])) (by omega)]
      simp [wholeB, hl, List.append_assoc]; omega
    · rw [take_append_lt _ _ _ (by omega)]
      rw [replayFileAux_benign p crc _ _ _ _
        (readEntry_encodeEntry_prefix p hp crc hcrc e _ n {} (by omega))]
      simp [wholeB, hl]

theorem replayFile_trunc (p : WalParams) (hp : p.WF) (crc : Bytes → Nat) (hcrc : CrcOK crc)
    (es : List Entry) (hes : ∀ e ∈ es, EntryOK p e) (n : Nat) :
    replayFile p crc ((encFile p crc es).take n) =
      { entries := (wholeB p crc n es).map (norm p), processed := (wholeB p crc n es).length,
        skipped := 0, outcome := .ok } := by
  unfold replayFile
  rw [replayFileAux_trunc p hp crc hcrc es n _ _ hes (by omega)]
  simp

/-- the replay loop only ever appends to the delivered entries -/
theorem replayFileAux_mono (p : WalParams) (crc : Bytes → Nat) :
    ∀ (fuel : Nat) (st : RState) (bs : Bytes) (acc : Replay),
      acc.entries <+: (replayFileAux p crc fuel st bs acc).entries := by
  intro fuel
  induction fuel with
  | zero => intro st bs acc; exact List.prefix_refl _
  | succ f ih =>
    intro st bs acc
    rw [replayFileAux]
    split
    · refine List.IsPrefix.trans ?_ (ih _ _ _)
      exact List.prefix_append _ _
    · exact List.prefix_refl _
    · exact List.prefix_refl _
    · exact List.prefix_refl _
    · exact List.prefix_refl _
    · simp only []
      split
      · exact List.prefix_refl _
      · split
        · exact List.prefix_refl _
        · exact ih _ _ { acc with skipped := acc.skipped + 1 }

theorem replayFileAux_damage (p : WalParams) (hp : p.WF) (crc : Bytes → Nat) (hcrc : CrcOK crc) (junk : Bytes) :
    ∀ (es : List Entry) (n fuel : Nat) (acc : Replay), (∀ e ∈ es, EntryOK p e) →
      ((encFile p crc es).take n ++ junk).length < fuel →
      (acc.entries ++ (wholeB p crc n es).map (norm p)) <+:
        (replayFileAux p crc fuel {} ((encFile p crc es).take n ++ junk) acc).entries := by
  intro es
  induction es with
  | nil =>
    intro n fuel acc _ _
    simp only [wholeB, List.map_nil, List.append_nil]
    exact replayFileAux_mono p crc _ _ _ _
  | cons e es ih =>
    intro n fuel acc hes hf
    obtain ⟨f, rfl⟩ : ∃ f, fuel = f + 1 := ⟨fuel - 1, by omega⟩
    have hge := encodeEntry_length_ge p crc e
    rw [encFile_cons] at hf ⊢
    by_cases hl : (encodeEntry p crc e).length ≤ n
    · rw [take_append_ge _ _ _ hl, List.append_assoc] at hf ⊢
      rw [List.length_append] at hf
      rw [replayFileAux,
        readEntry_encodeEntry_ok p hp crc hcrc e (hes e (by simp)) _ _ (by rw [List.length_append]; omega)]
      simp only []
      have := ih (n - (encodeEntry p crc e).length) f
        { acc with entries := acc.entries ++ [norm p e], processed := acc.processed + 1 }
        (fun e' h => hes e' (by simp [h])) (by omega)
      simpa [wholeB, hl, List.append_assoc] using this
    · simp only [wholeB, hl, if_false, List.map_nil, List.append_nil]
      exact replayFileAux_mono p crc _ _ _ _

theorem replayFile_damage (p : WalParams) (hp : p.WF) (crc : Bytes → Nat) (hcrc : CrcOK crc)
    (es : List Entry) (hes : ∀ e ∈ es, EntryOK p e) (n : Nat) (junk : Bytes) :
    ((wholeB p crc n es).map (norm p)) <+: (replayFile p crc ((encFile p crc es).take n ++ junk)).entries := by
  unfold replayFile
  have := replayFileAux_damage p hp crc hcrc junk es n _ {} hes (Nat.lt_succ_self _)
  simpa using this

end Kevo.Proofs.CrashAux
