/-
  Kevo.Proofs.TableGet — point lookup on a written table: no bloom false negatives, candidate block choice
  (helper file for Proofs/Table).
-/
import Kevo.Model.Table
import Kevo.Proofs.TableCodec
namespace Kevo.Proofs.TableAux
open Kevo Kevo.Block Kevo.Table

/-! ### bits -/

theorem u8_and_or_distrib_right (x y z : UInt8) : (x ||| y) &&& z = (x &&& z) ||| (y &&& z) := by
  simp [← UInt8.toBitVec_inj, BitVec.and_or_distrib_right]

theorem mask_ne_zero (m : Nat) (hm : m < 8) : (1 : UInt8) <<< UInt8.ofNat m ≠ 0 := by
  have : m = 0 ∨ m = 1 ∨ m = 2 ∨ m = 3 ∨ m = 4 ∨ m = 5 ∨ m = 6 ∨ m = 7 := by omega
  rcases this with rfl | rfl | rfl | rfl | rfl | rfl | rfl | rfl <;> decide

theorem set_and_mask_ne (b mask : UInt8) (h : mask ≠ 0) : (b ||| mask) &&& mask ≠ 0 := by
  rw [u8_and_or_distrib_right, UInt8.and_self]
  intro h'
  exact h (UInt8.or_eq_zero_iff.mp h').2

theorem or_and_mask_ne (b m2 mask : UInt8) (h : b &&& mask ≠ 0) : (b ||| m2) &&& mask ≠ 0 := by
  rw [u8_and_or_distrib_right]
  intro h'
  exact h (UInt8.or_eq_zero_iff.mp h').1

theorem setBit_getD (a : Array UInt8) (q j : Nat) :
    (setBit a q).toList.getD j 0 =
      if q / 8 = j ∧ j < a.size then a.toList.getD j 0 ||| (1 <<< UInt8.ofNat (q % 8)) else a.toList.getD j 0 := by
  simp only [setBit, List.getD_eq_getElem?_getD, Array.getElem?_toList, Array.getElem?_modify]
  by_cases h1 : q / 8 = j
  · by_cases h2 : j < a.size
    · simp [h1, h2]
    · simp [h1, h2]
  · simp [h1]

theorem testBit_setBit_same (a : Array UInt8) (pos : Nat) (h : pos / 8 < a.size) :
    testBit (setBit a pos).toList pos = true := by
  unfold testBit
  rw [setBit_getD, if_pos ⟨rfl, h⟩]
  simpa using set_and_mask_ne _ _ (mask_ne_zero (pos % 8) (Nat.mod_lt _ (by omega)))

theorem testBit_setBit_mono (a : Array UInt8) (q pos : Nat) (h : testBit a.toList pos = true) :
    testBit (setBit a q).toList pos = true := by
  unfold testBit at h ⊢
  rw [setBit_getD]
  split
  · simp only [bne_iff_ne, ne_eq] at h ⊢
    exact or_and_mask_ne _ _ _ h
  · exact h

theorem setBit_size (a : Array UInt8) (q : Nat) : (setBit a q).size = a.size := by simp [setBit]

theorem testBit_foldl_mono (ps : List Nat) (a : Array UInt8) (pos : Nat) (h : testBit a.toList pos = true) :
    testBit (ps.foldl setBit a).toList pos = true := by
  induction ps generalizing a with
  | nil => exact h
  | cons q ps ih => exact ih _ (testBit_setBit_mono a q pos h)

theorem testBit_foldl_mem (ps : List Nat) (a : Array UInt8) (pos : Nat) (hp : pos ∈ ps) (hs : pos / 8 < a.size) :
    testBit (ps.foldl setBit a).toList pos = true := by
  induction ps generalizing a with
  | nil => simp at hp
  | cons q ps ih =>
    rw [List.foldl_cons]
    rcases List.mem_cons.mp hp with rfl | hp
    · exact testBit_foldl_mono ps _ pos (testBit_setBit_same a pos hs)
    · exact ih _ hp (by rw [setBit_size]; exact hs)

theorem testBit_keys_mono (p : Params) (fnv : Bytes → Nat) (keys : List Bytes) (a : Array UInt8) (pos : Nat)
    (h : testBit a.toList pos = true) :
    testBit (keys.foldl (fun a k => (bloomPositions p fnv k).foldl setBit a) a).toList pos = true := by
  induction keys generalizing a with
  | nil => exact h
  | cons k keys ih => exact ih _ (testBit_foldl_mono _ a pos h)

theorem testBit_keys_mem (p : Params) (fnv : Bytes → Nat) (keys : List Bytes) (a : Array UInt8) (key : Bytes) (pos : Nat)
    (hk : key ∈ keys) (hp : pos ∈ bloomPositions p fnv key) (hs : pos / 8 < a.size) :
    testBit (keys.foldl (fun a k => (bloomPositions p fnv k).foldl setBit a) a).toList pos = true := by
  induction keys generalizing a with
  | nil => simp at hk
  | cons k keys ih =>
    rw [List.foldl_cons]
    rcases List.mem_cons.mp hk with rfl | hk
    · exact testBit_keys_mono p fnv keys _ pos (testBit_foldl_mem _ a pos hp hs)
    · exact ih _ hk (by rw [foldl_setBit_size]; exact hs)

/-! ### no false negatives -/

theorem filterContains_member (p : Params) (hp : PWF p) (fnv : Bytes → Nat) (keys : List Bytes) (off : Nat)
    (key : Bytes) (hk : key ∈ keys) :
    filterContains fnv (filterOf off (bloomBytes p fnv keys)) key = true := by
  rw [filterOf_bloomBytes p hp]
  have hb0 : 0 < p.bloomBits := hp.2.2.2.2.2.1
  simp only [filterContains, List.all_eq_true, List.mem_range]
  intro i hi
  apply testBit_keys_mem p fnv keys _ key _ hk
  · simp only [bloomPositions, List.mem_map, List.mem_range]
    exact ⟨i, hi, rfl⟩
  · have : fnv (key ++ le 8 i) % p.bloomBits < p.bloomBits := Nat.mod_lt _ hb0
    simp only [Array.size_replicate]
    omega

/-! ### each filter is found by its own block's offset -/

theorem layBlocks_offsets (p : Params) (hash : Bytes → Nat) : ∀ (bl : List (List BEntry)) (off : Nat),
    (layBlocks p hash bl off).Pairwise (fun a b => a.1 < b.1) := by
  intro bl
  induction bl with
  | nil => intro off; exact List.Pairwise.nil
  | cons b0 bl ih =>
    intro off
    rw [layBlocks_cons]
    refine List.Pairwise.cons ?_ (ih _)
    intro b hb
    have h1 := (layBlocks_slice p hash bl (off + (Block.encode p.ri hash b0).length)
      (List.replicate (off + (Block.encode p.ri hash b0).length) 0) [] (by simp) b hb).2.1
    have h2 := encode_length_ge p.ri hash b0
    simp only
    omega

theorem find_filter (p : Params) (fnv : Bytes → Nat) : ∀ (blocks : List LBlock),
    blocks.Pairwise (fun a b => a.1 < b.1) → ∀ b ∈ blocks,
      (filtersOf p fnv true blocks).find? (fun f => f.blockOff = b.1) =
        some (filterOf b.1 (bloomBytes p fnv (b.2.2.map (·.key)))) := by
  intro blocks
  induction blocks with
  | nil => intro _ b hb; simp at hb
  | cons b0 rest ih =>
    intro hpw b hb
    have hcons := List.pairwise_cons.mp hpw
    have hf : filtersOf p fnv true (b0 :: rest) =
        filterOf b0.1 (bloomBytes p fnv (b0.2.2.map (·.key))) :: filtersOf p fnv true rest := by
      simp [filtersOf, filterRec]
    rw [hf, List.find?_cons]
    by_cases h : b0.1 = b.1
    · have hb' : b = b0 := by
        rcases List.mem_cons.mp hb with rfl | hb
        · rfl
        · have := hcons.1 b hb; omega
      subst hb'
      simp [filterOf]
    · have hb' : b ∈ rest := by
        rcases List.mem_cons.mp hb with rfl | hb
        · exact absurd rfl h
        · exact hb
      have : decide ((filterOf b0.1 (bloomBytes p fnv (b0.2.2.map (·.key)))).blockOff = b.1) = false := by
        simp [filterOf, h]
      rw [this]
      exact ih hcons.2 b hb'

/-! ### getAux over a run of blocks -/

def skipOf (fnv : Bytes → Nat) (r : Table.Reader) (key : Bytes) (off : Nat) : Bool :=
  r.hasBloom && !(match r.filters.find? (fun f => f.blockOff = off) with
    | some f => filterContains fnv f key
    | none => false)

theorem getAux_cons (hash fnv : Bytes → Nat) (r : Table.Reader) (key : Bytes) (b : LBlock) (rest : List BEntry)
    (h1 : b.1 < 2 ^ 64) (h2 : b.2.1.length < 2 ^ 32) :
    getAux hash fnv r key (idxEntry b :: rest) =
      if skipOf fnv r key b.1 then getAux hash fnv r key rest
      else match blockEntries hash r b.1 b.2.1.length with
        | none => .error
        | some es => match es.find? (fun e => e.key = key) with
          | some e => .found e.val
          | none => getAux hash fnv r key rest := by
  rw [getAux, locator_idxEntry b h1 h2]
  rfl

def resOf (o : Option BEntry) : GetRes :=
  match o with
  | some e => .found e.val
  | none => .notFound

theorem getAux_blocks (ri : Nat) (hash fnv : Bytes → Nat) (hh : HOK hash) (r : Table.Reader) (key : Bytes) :
    ∀ (bs : List LBlock), (∀ b ∈ bs, BlockOK ri hash r.file b) →
      (∀ b ∈ bs, ∀ e ∈ b.2.2, e.key = key → skipOf fnv r key b.1 = false) →
      getAux hash fnv r key (bs.map idxEntry) =
        resOf ((bs.flatMap (fun b => b.2.2)).find? (fun e => e.key = key)) := by
  intro bs
  induction bs with
  | nil => intro _ _; simp [getAux, resOf]
  | cons b bs ih =>
    intro hok hskip
    have hb := hok b (by simp)
    have ih' := ih (fun b' h => hok b' (by simp [h])) (fun b' h => hskip b' (by simp [h]))
    rw [List.map_cons, getAux_cons hash fnv r key b _ hb.1 hb.2.1, List.flatMap_cons, List.find?_append,
      blockEntries_ok ri hash hh r b hb]
    cases hs : skipOf fnv r key b.1 with
    | true =>
      have hnone : b.2.2.find? (fun e => e.key = key) = none := by
        cases hf : b.2.2.find? (fun e => e.key = key) with
        | none => rfl
        | some e =>
          have h1 := List.mem_of_find?_eq_some hf
          have h2 := List.find?_some hf
          have := hskip b (by simp) e h1 (by simpa using h2)
          rw [hs] at this; cases this
      rw [hnone]
      simpa using ih'
    | false =>
      simp only [Bool.false_eq_true, if_false]
      cases hf : b.2.2.find? (fun e => e.key = key) with
      | none => simpa using ih'
      | some e => simp [resOf]

/-! ### candidate block -/

theorem takeWhile_getElem {α : Type} (P : α → Bool) : ∀ (l : List α) (i : Nat), i < (l.takeWhile P).length →
    ∃ h : i < l.length, P l[i] = true := by
  intro l
  induction l with
  | nil => intro i hi; simp at hi
  | cons a l ih =>
    intro i hi
    rw [List.takeWhile_cons] at hi
    by_cases hP : P a = true
    · simp only [hP, if_true, List.length_cons] at hi
      cases i with
      | zero => exact ⟨by simp, by simpa using hP⟩
      | succ i =>
        obtain ⟨h, hp⟩ := ih i (by omega)
        exact ⟨by simp; omega, by simpa using hp⟩
    · simp [hP] at hi

theorem idxEntry_key (b : LBlock) (e : BEntry) (rest : List BEntry) (h : b.2.2 = e :: rest) :
    (idxEntry b).key = e.key := by
  simp [idxEntry, h]

/-- no entry stored before the candidate block has the key looked up. -/
theorem before_candidate (blocks : List LBlock) (hne : ∀ b ∈ blocks, b.2.2 ≠ [])
    (hasc : strictAsc (blocks.flatMap (fun b => b.2.2)) = true) (k : Bytes) :
    ∀ e ∈ (blocks.take (candidateIdx (blocks.map idxEntry) k)).flatMap (fun b => b.2.2), e.key ≠ k := by
  intro e he
  unfold candidateIdx at he
  simp only at he
  generalize hn : ((blocks.map idxEntry).takeWhile (fun e => !ltB k e.key)).length = n at he
  by_cases hn0 : n = 0
  · simp [hn0] at he
  · rw [if_neg hn0] at he
    obtain ⟨hlt, hP⟩ := takeWhile_getElem (fun e => !ltB k e.key) (blocks.map idxEntry) (n - 1) (by omega)
    rw [List.length_map] at hlt
    simp only [List.getElem_map, Bool.not_eq_eq_eq_not, Bool.not_true] at hP
    -- the candidate block and its first entry
    have hsplit : blocks = blocks.take (n - 1) ++ blocks[n - 1] :: blocks.drop (n - 1 + 1) := by
      rw [← List.drop_eq_getElem_cons hlt, List.take_append_drop]
    have hbne := hne blocks[n - 1] (List.getElem_mem hlt)
    obtain ⟨h, tl, hht⟩ := List.exists_cons_of_ne_nil hbne
    rw [idxEntry_key _ h tl hht] at hP
    have hpw := strictAsc_pairwise _ hasc
    rw [hsplit, List.flatMap_append, List.flatMap_cons, hht] at hpw
    have := (List.pairwise_append.mp hpw).2.2 e he h (by simp)
    intro hek
    rw [hek, hP] at this
    cases this

/-! ### Reader.Get on a written table -/

theorem get_readerOf (p : Params) (hp : PWF p) (hash fnv : Bytes → Nat) (hh : HOK hash) (ts : Nat) (bloom : Bool)
    (bl : List (List BEntry)) (n : Nat) (hne : ∀ b ∈ bl, b ≠ []) (hwf : ∀ b ∈ bl, ∀ e ∈ b, EWF e)
    (hasc : strictAsc bl.flatten = true)
    (hsz : (tableOf p hash fnv ts bloom (layBlocks p hash bl 0) n).length < 2 ^ 32) (k : Bytes) :
    Table.get hash fnv (readerOf p hash fnv ts bloom (layBlocks p hash bl 0) n) k =
      resOf (bl.flatten.find? (fun e => e.key = k)) := by
  have hok := readerOf_blockOK p hash fnv ts bloom bl n hwf hsz
  have hpw := layBlocks_offsets p hash bl 0
  have hents := layBlocks_ents p hash bl 0
  have hmem := layBlocks_mem p hash bl 0
  generalize hblocks : layBlocks p hash bl 0 = blocks at *
  have hflat : blocks.flatMap (fun b => b.2.2) = bl.flatten := by
    rw [List.flatMap_def, hents]
  have hbne : ∀ b ∈ blocks, b.2.2 ≠ [] := fun b hb => hne _ (hmem b hb).2
  have hbefore := before_candidate blocks hbne (by rw [hflat]; exact hasc) k
  generalize hR : readerOf p hash fnv ts bloom blocks n = R at *
  have hidx : R.index = blocks.map idxEntry := by rw [← hR]; rfl
  have hfil : R.filters = filtersOf p fnv bloom blocks := by rw [← hR]; rfl
  have hhb : R.hasBloom = bloom := by rw [← hR]; rfl
  unfold Table.get
  rw [hidx]
  generalize candidateIdx (blocks.map idxEntry) k = c at *
  rw [← List.map_drop, getAux_blocks p.ri hash fnv hh R k (blocks.drop c)
    (fun b hb => hok b (List.mem_of_mem_drop hb))]
  · rw [← hflat]
    conv => rhs; rw [← List.take_append_drop c blocks, List.flatMap_append, List.find?_append]
    have : ((blocks.take c).flatMap (fun b => b.2.2)).find? (fun e => e.key = k) = none := by
      rw [List.find?_eq_none]
      intro e he
      simpa using hbefore e he
    rw [this]
    simp
  · intro b hb e he hek
    have hb' := List.mem_of_mem_drop hb
    unfold skipOf
    rw [hhb, hfil]
    cases bloom with
    | false => rfl
    | true =>
      rw [find_filter p fnv blocks hpw b hb']
      simp only
      rw [filterContains_member p hp fnv _ _ k (by rw [← hek]; exact List.mem_map.mpr ⟨e, he, rfl⟩)]
      rfl

theorem table_get_aux (p : Params) (hp : PWF p) (hash fnv : Bytes → Nat) (hh : HOK hash) (ts : Nat)
    (hts : ts < 2 ^ 64) (bloom : Bool) (hfit : BloomFits p bloom) (es : List BEntry) (hne : es ≠ [])
    (hasc : strictAsc es = true) (hwf : ∀ e ∈ es, EWF e)
    (hsz : (Table.encode p hash fnv ts bloom es).length < 2 ^ 32) (k : Bytes) (r : Table.Reader)
    (hr : openTable p hash (Table.encode p hash fnv ts bloom es) = some r) :
    Table.get hash fnv r k = resOf (es.find? (fun e => e.key = k)) := by
  have hopen := (table_roundtrip_aux p hp hash fnv hh ts hts bloom hfit es hne hwf hsz).1
  rw [hopen] at hr
  cases hr
  rw [tencode_eq] at hsz
  have hflat : (cutBlocks p es [] 0).flatten = es := by rw [cutBlocks_flatten]; simp
  have hbwf : ∀ b ∈ cutBlocks p es [] 0, ∀ e ∈ b, EWF e := by
    intro b hb e he
    apply hwf
    rw [← hflat]
    exact List.mem_flatten.mpr ⟨b, hb, he⟩
  have := get_readerOf p hp hash fnv hh ts bloom (cutBlocks p es [] 0) es.length (cutBlocks_ne_nil p es [] 0) hbwf
    (by rw [hflat]; exact hasc) hsz k
  rw [hflat] at this
  exact this

end Kevo.Proofs.TableAux
