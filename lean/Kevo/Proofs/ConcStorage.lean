/-
  Kevo.Proofs.ConcStorage — proofs about the interleaving model of storage.Manager (Kevo.Model.ConcStorage):
  A. the ghost trace is a well-formed linearization witness ⇒ every reachable history is linearizable (C06);
  B. what the log files contain: a successful write is logged; as long as `late = 0` a failed write leaves no record
     and a successful one exactly one (the `_partial` lemmas);
  C. the storage lock: a writer excludes everybody else;
  D. a thread inside Append never finds its log closed (Close needs the mutex of the WAL object), so `late = 0` in
     every reachable state (D19 repaired): `error_no_effect` and `log_once` hold unconditionally.
-/
import Kevo.Model.ConcStorage
import Kevo.Proofs.Lin
namespace Kevo.ConcStorage
open Kevo Kevo.Spec Kevo.Lin

variable {S : Store}

/-! ### projections of `setTh` -/

@[simp] theorem setTh_th (s : St S) (t : Nat) (r : Option Run) (u : Nat) :
    (setTh s t r).th u = if u = t then r else s.th u := rfl
@[simp] theorem setTh_tr (s : St S) (t : Nat) (r : Option Run) : (setTh s t r).tr = s.tr := rfl
@[simp] theorem setTh_writer (s : St S) (t : Nat) (r : Option Run) : (setTh s t r).writer = s.writer := rfl
@[simp] theorem setTh_readers (s : St S) (t : Nat) (r : Option Run) : (setTh s t r).readers = s.readers := rfl
@[simp] theorem setTh_store (s : St S) (t : Nat) (r : Option Run) : (setTh s t r).store = s.store := rfl
@[simp] theorem setTh_wals (s : St S) (t : Nat) (r : Option Run) : (setTh s t r).wals = s.wals := rfl
@[simp] theorem setTh_cur (s : St S) (t : Nat) (r : Option Run) : (setTh s t r).cur = s.cur := rfl
@[simp] theorem setTh_fpc (s : St S) (t : Nat) (r : Option Run) : (setTh s t r).fpc = s.fpc := rfl
@[simp] theorem setTh_nextId (s : St S) (t : Nat) (r : Option Run) : (setTh s t r).nextId = s.nextId := rfl
@[simp] theorem setTh_late (s : St S) (t : Nat) (r : Option Run) : (setTh s t r).late = s.late := rfl

/-! ### the micro-steps of a client thread as a relation (one constructor per branch of `stepThread`) -/

def isGet : COp → Bool
  | .get _ => true
  | _ => false

/-- thread `t` continues in phase `ph` -/
def upd (s : St S) (t : Nat) (r : Run) (ph : Phase) : St S := setTh s t (some { r with ph := ph })

inductive TStep (cfg : Cfg) (s : St S) (t : Nat) (r : Run) : St S → Prop
  | rlock (k : Bytes) : r.ph = .called → r.op = .get k → s.writer = none →
      TStep cfg s t r { upd s t r .rLocked with readers := t :: s.readers }
  | wlock : r.ph = .called → isGet r.op = false → s.writer = none → s.readers = [] →
      TStep cfg s t r { upd s t r (.wLocked 0) with writer := some t }
  | getwal (a : Nat) : r.ph = .wLocked a → TStep cfg s t r (upd s t r (.wGot a s.cur))
  | chkActive (a w : Nat) : r.ph = .wGot a w → walStatus s w = .active → TStep cfg s t r (upd s t r (.wChecked a w))
  | chkRot (a w : Nat) : r.ph = .wGot a w → walStatus s w = .rotating → TStep cfg s t r (upd s t r (.wFailed a))
  | chkClosed (a w : Nat) : r.ph = .wGot a w → walStatus s w = .closed →
      TStep cfg s t r { upd s t r (.done .err) with tr := .lin r.id r.op .err :: s.tr }
  | buffer (a w : Nat) : r.ph = .wChecked a w →
      TStep cfg s t r { upd s t r (if cfg.syncImmediate then .wBuffered a w else .wAppended) with
                        wals := addRec s.wals w r.id }
  | syncOk (a w : Nat) : r.ph = .wBuffered a w → walStatus s w ≠ .closed → TStep cfg s t r (upd s t r .wAppended)
  | syncClosed (a w : Nat) : r.ph = .wBuffered a w → walStatus s w = .closed →
      TStep cfg s t r { upd s t r (.done .err) with tr := .lin r.id r.op .err :: s.tr, late := s.late + 1 }
  | apply (k : Bytes) (v : Option Bytes) : r.ph = .wAppended → opKV r.op = some (k, v) →
      TStep cfg s t r { upd s t r (.done .ok) with store := S.write s.store k v, tr := .lin r.id r.op .ok :: s.tr }
  | retry (a : Nat) : r.ph = .wFailed a → a + 1 < cfg.maxRetries → TStep cfg s t r (upd s t r (.wLocked (a + 1)))
  | giveup (a : Nat) : r.ph = .wFailed a → ¬ a + 1 < cfg.maxRetries →
      TStep cfg s t r { upd s t r (.done .err) with tr := .lin r.id r.op .err :: s.tr }
  | lookup (k : Bytes) : r.ph = .rLocked → r.op = .get k →
      TStep cfg s t r { upd s t r (.done (.val (S.view s.store k))) with
                        tr := .lin r.id r.op (.val (S.view s.store k)) :: s.tr }
  | runlock (out : COut) (k : Bytes) : r.ph = .done out → r.op = .get k →
      TStep cfg s t r { upd s t r (.retp out) with readers := s.readers.erase t }
  | wunlock (out : COut) : r.ph = .done out → isGet r.op = false →
      TStep cfg s t r { upd s t r (.retp out) with writer := none }
  | ret (out : COut) : r.ph = .retp out → TStep cfg s t r { setTh s t none with tr := .ret r.id out :: s.tr }

theorem stepThread_TStep {cfg : Cfg} {s s' : St S} {t : Nat} (h : stepThread cfg s t = some s') :
    ∃ r, s.th t = some r ∧ TStep cfg s t r s' := by
  unfold stepThread at h
  cases hth : s.th t with
  | none => simp [hth] at h
  | some r =>
    refine ⟨r, rfl, ?_⟩
    simp only [hth] at h
    obtain ⟨id, op, ph⟩ := r
    cases ph with
    | called =>
      cases op with
      | get k =>
        simp only at h
        split at h
        · rename_i hw
          cases h
          exact TStep.rlock k rfl rfl (by simpa using hw)
        · cases h
      | put k v =>
        simp only at h
        split at h
        · rename_i hw
          cases h
          simp only [Bool.and_eq_true, Option.isNone_iff_eq_none, List.isEmpty_iff] at hw
          exact TStep.wlock rfl rfl hw.1 hw.2
        · cases h
      | del k =>
        simp only at h
        split at h
        · rename_i hw
          cases h
          simp only [Bool.and_eq_true, Option.isNone_iff_eq_none, List.isEmpty_iff] at hw
          exact TStep.wlock rfl rfl hw.1 hw.2
        · cases h
    | wLocked a => simp only at h; cases h; exact TStep.getwal a rfl
    | wGot a w =>
      simp only at h
      split at h
      · rename_i hs; cases h; exact TStep.chkActive a w rfl hs
      · rename_i hs; cases h; exact TStep.chkRot a w rfl hs
      · rename_i hs; cases h; exact TStep.chkClosed a w rfl hs
    | wChecked a w => simp only at h; cases h; exact TStep.buffer a w rfl
    | wBuffered a w =>
      simp only at h
      split at h
      · rename_i hs; cases h; exact TStep.syncClosed a w rfl hs
      · rename_i hs; cases h; exact TStep.syncOk a w rfl hs
    | wAppended =>
      simp only at h
      split at h
      · rename_i k v hkv; cases h; exact TStep.apply k v rfl hkv
      · cases h
    | wFailed a =>
      simp only at h
      split at h
      · rename_i hlt; cases h; exact TStep.retry a rfl hlt
      · rename_i hlt; cases h; exact TStep.giveup a rfl hlt
    | rLocked =>
      cases op with
      | get k => simp only at h; cases h; exact TStep.lookup k rfl rfl
      | put k v => simp at h
      | del k => simp at h
    | done out =>
      cases op with
      | get k => simp only at h; cases h; exact TStep.runlock out k rfl rfl
      | put k v => simp only at h; cases h; exact TStep.wunlock out rfl rfl
      | del k => simp only at h; cases h; exact TStep.wunlock out rfl rfl
    | retp out => simp only at h; cases h; exact TStep.ret out rfl

/-! ## PART A — the trace invariant and linearizability -/

def linIds (tr : List (TEv COp COut)) : List Nat := (tr.filterMap TEv.toLin).map (·.1)
def callIds (tr : List (TEv COp COut)) : List Nat := tr.filterMap TEv.callId

@[simp] theorem linIds_cons_lin (i : Nat) (op : COp) (out : COut) (tr : List (TEv COp COut)) :
    linIds (.lin i op out :: tr) = i :: linIds tr := rfl
@[simp] theorem linIds_cons_call (i : Nat) (op : COp) (tr : List (TEv COp COut)) :
    linIds (.call i op :: tr) = linIds tr := rfl
@[simp] theorem linIds_cons_ret (i : Nat) (out : COut) (tr : List (TEv COp COut)) :
    linIds (.ret i out :: tr) = linIds tr := rfl
@[simp] theorem callIds_cons_lin (i : Nat) (op : COp) (out : COut) (tr : List (TEv COp COut)) :
    callIds (.lin i op out :: tr) = callIds tr := rfl
@[simp] theorem callIds_cons_call (i : Nat) (op : COp) (tr : List (TEv COp COut)) :
    callIds (.call i op :: tr) = i :: callIds tr := rfl
@[simp] theorem callIds_cons_ret (i : Nat) (out : COut) (tr : List (TEv COp COut)) :
    callIds (.ret i out :: tr) = callIds tr := rfl

theorem mem_linIds (tr : List (TEv COp COut)) (i : Nat) : i ∈ linIds tr ↔ ∃ op out, TEv.lin i op out ∈ tr := by
  induction tr with
  | nil => simp [linIds]
  | cons e rest ih =>
    cases e with
    | call j op => simp [ih]
    | ret j out => simp [ih]
    | lin j op out =>
      simp only [linIds_cons_lin, List.mem_cons, ih, TEv.lin.injEq]
      constructor
      · rintro (h | ⟨op', out', h⟩)
        · exact ⟨op, out, Or.inl ⟨h, rfl, rfl⟩⟩
        · exact ⟨op', out', Or.inr h⟩
      · rintro ⟨op', out', h | h⟩
        · exact Or.inl h.1
        · exact Or.inr ⟨op', out', h⟩

theorem mem_callIds (tr : List (TEv COp COut)) (i : Nat) : i ∈ callIds tr ↔ ∃ op, TEv.call i op ∈ tr := by
  induction tr with
  | nil => simp [callIds]
  | cons e rest ih =>
    cases e with
    | lin j op out => simp [ih]
    | ret j out => simp [ih]
    | call j op =>
      simp only [callIds_cons_call, List.mem_cons, ih, TEv.call.injEq]
      constructor
      · rintro (h | ⟨op', h⟩)
        · exact ⟨op, Or.inl ⟨h, rfl⟩⟩
        · exact ⟨op', Or.inr h⟩
      · rintro ⟨op', h | h⟩
        · exact Or.inl h.1
        · exact Or.inr ⟨op', h⟩

/-- the output decided at the linearization point, once it has been passed -/
def postLP : Phase → Option COut
  | .done out => some out
  | .retp out => some out
  | _ => none

/-- the phases in which a writer holds `mu` before its linearization point -/
def wph : Phase → Bool
  | .wLocked _ | .wGot _ _ | .wChecked _ _ | .wBuffered _ _ | .wAppended | .wFailed _ => true
  | _ => false

structure Inv (S : Store) (s : St S) : Prop where
  wf : WF s.tr
  legal : legalTo mapSpec emptyMap ((linlog s.tr).map (·.2)) (S.view s.store)
  sinv : S.inv s.store
  fresh : ∀ i ∈ callIds s.tr, i < s.nextId
  run : ∀ t r, s.th t = some r → TEv.call r.id r.op ∈ s.tr ∧
          (∀ out, postLP r.ph = some out → TEv.lin r.id r.op out ∈ s.tr) ∧
          (postLP r.ph = none → r.id ∉ linIds s.tr)
  distinct : ∀ t u r r', s.th t = some r → s.th u = some r' → t ≠ u → r.id ≠ r'.id
  /-- only write operations enter the writer phases -/
  typ : ∀ t r, s.th t = some r → wph r.ph = true → isGet r.op = false

theorem Inv.id_lt {s : St S} (inv : Inv S s) {t : Nat} {r : Run} (hr : s.th t = some r) : r.id < s.nextId :=
  inv.fresh _ ((mem_callIds _ _).mpr ⟨r.op, (inv.run t r hr).1⟩)

theorem Inv.lin_lt {s : St S} (inv : Inv S s) {i : Nat} {op : COp} {out : COut} (h : TEv.lin i op out ∈ s.tr) :
    i < s.nextId :=
  inv.fresh _ ((mem_callIds _ _).mpr ⟨op, WF_lin_call _ inv.wf _ _ _ h⟩)

theorem inv_init (S : Store) : Inv S (init S) := by
  refine ⟨trivial, ?_, S.inv_init, ?_, ?_, ?_, ?_⟩
  · show legalTo mapSpec emptyMap [] (S.view S.init)
    rw [S.view_init]; rfl
  · intro i hi; cases hi
  · intro t r h; cases h
  · intro t u r r' h; cases h
  · intro t r h; cases h

/-- nothing the invariant talks about changes, except that the store takes an invisible step -/
theorem inv_frame {s s' : St S} (inv : Inv S s) (hth : s'.th = s.th) (htr : s'.tr = s.tr)
    (hn : s'.nextId = s.nextId) (hi : S.inv s'.store) (hv : S.view s'.store = S.view s.store) : Inv S s' := by
  refine ⟨?_, ?_, hi, ?_, ?_, ?_, ?_⟩
  · rw [htr]; exact inv.wf
  · rw [htr, hv]; exact inv.legal
  · rw [htr, hn]; exact inv.fresh
  · rw [htr, hth]; exact inv.run
  · rw [hth]; exact inv.distinct
  · rw [hth]; exact inv.typ

/-- thread `t` moves to another phase on the same side of its linearization point -/
theorem inv_silent {s s' : St S} {t : Nat} {r : Run} (inv : Inv S s) (hr : s.th t = some r) (ph' : Phase)
    (hp : postLP ph' = postLP r.ph) (hw : wph ph' = true → wph r.ph = true ∨ isGet r.op = false)
    (hth : s'.th = fun u => if u = t then some { r with ph := ph' } else s.th u)
    (htr : s'.tr = s.tr) (hst : s'.store = s.store) (hn : s'.nextId = s.nextId) : Inv S s' := by
  refine ⟨?_, ?_, ?_, ?_, ?_, ?_, ?_⟩
  · rw [htr]; exact inv.wf
  · rw [htr, hst]; exact inv.legal
  · rw [hst]; exact inv.sinv
  · rw [htr, hn]; exact inv.fresh
  · intro u r' hu
    rw [hth] at hu
    rw [htr]
    by_cases hut : u = t
    · simp only [hut, if_true, Option.some.injEq] at hu
      subst hu
      simp only [hp]
      exact inv.run t r hr
    · simp only [hut, if_false] at hu
      exact inv.run u r' hu
  · intro u v r1 r2 hu hv huv
    rw [hth] at hu hv
    by_cases hut : u = t
    · by_cases hvt : v = t
      · exact absurd (hut.trans hvt.symm) huv
      · simp only [hut, if_true, Option.some.injEq] at hu
        simp only [hvt, if_false] at hv
        subst hu
        exact inv.distinct t v r r2 hr hv (fun h => hvt h.symm)
    · simp only [hut, if_false] at hu
      by_cases hvt : v = t
      · simp only [hvt, if_true, Option.some.injEq] at hv
        subst hv
        exact inv.distinct u t r1 r hu hr hut
      · simp only [hvt, if_false] at hv
        exact inv.distinct u v r1 r2 hu hv huv
  · intro u r' hu hwp
    rw [hth] at hu
    by_cases hut : u = t
    · simp only [hut, if_true, Option.some.injEq] at hu
      subst hu
      rcases hw hwp with h | h
      · exact inv.typ t r hr h
      · exact h
    · simp only [hut, if_false] at hu
      exact inv.typ u r' hu hwp

/-- thread `t` passes its linearization point with output `out` -/
theorem inv_lp {s s' : St S} {t : Nat} {r : Run} (inv : Inv S s) (hr : s.th t = some r) (out : COut)
    (hp : postLP r.ph = none)
    (hth : s'.th = fun u => if u = t then some { r with ph := .done out } else s.th u)
    (htr : s'.tr = .lin r.id r.op out :: s.tr)
    (hi : S.inv s'.store) (hstep : mapStep (S.view s.store) r.op out (S.view s'.store))
    (hn : s'.nextId = s.nextId) : Inv S s' := by
  obtain ⟨hcall, _, hnot⟩ := inv.run t r hr
  refine ⟨?_, ?_, hi, ?_, ?_, ?_, ?_⟩
  · rw [htr]; exact ⟨inv.wf, hcall, hnot hp⟩
  · rw [htr, linlog_cons_lin, List.map_append]
    exact legalTo_snoc mapSpec _ _ _ _ r.op out inv.legal hstep
  · rw [htr, hn]; exact inv.fresh
  · intro u r' hu
    rw [hth] at hu
    rw [htr]
    by_cases hut : u = t
    · simp only [hut, if_true, Option.some.injEq] at hu
      subst hu
      refine ⟨List.mem_cons_of_mem _ hcall, ?_, ?_⟩
      · intro o ho
        simp only [postLP, Option.some.injEq] at ho
        subst ho
        exact List.mem_cons_self
      · intro h; simp [postLP] at h
    · simp only [hut, if_false] at hu
      obtain ⟨h1, h2, h3⟩ := inv.run u r' hu
      refine ⟨List.mem_cons_of_mem _ h1, fun o ho => List.mem_cons_of_mem _ (h2 o ho), ?_⟩
      intro hnone
      simp only [linIds_cons_lin, List.mem_cons, not_or]
      exact ⟨inv.distinct u t r' r hu hr hut, h3 hnone⟩
  · intro u v r1 r2 hu hv huv
    rw [hth] at hu hv
    by_cases hut : u = t
    · by_cases hvt : v = t
      · exact absurd (hut.trans hvt.symm) huv
      · simp only [hut, if_true, Option.some.injEq] at hu
        simp only [hvt, if_false] at hv
        subst hu
        exact inv.distinct t v r r2 hr hv (fun h => hvt h.symm)
    · simp only [hut, if_false] at hu
      by_cases hvt : v = t
      · simp only [hvt, if_true, Option.some.injEq] at hv
        subst hv
        exact inv.distinct u t r1 r hu hr hut
      · simp only [hvt, if_false] at hv
        exact inv.distinct u v r1 r2 hu hv huv
  · intro u r' hu hwp
    rw [hth] at hu
    by_cases hut : u = t
    · simp only [hut, if_true, Option.some.injEq] at hu
      subst hu
      simp [wph] at hwp
    · simp only [hut, if_false] at hu
      exact inv.typ u r' hu hwp

/-- thread `t` returns -/
theorem inv_ret {s s' : St S} {t : Nat} {r : Run} (inv : Inv S s) (hr : s.th t = some r) (out : COut)
    (hp : r.ph = .retp out)
    (hth : s'.th = fun u => if u = t then none else s.th u)
    (htr : s'.tr = .ret r.id out :: s.tr) (hst : s'.store = s.store) (hn : s'.nextId = s.nextId) : Inv S s' := by
  obtain ⟨_, hlin, _⟩ := inv.run t r hr
  refine ⟨?_, ?_, ?_, ?_, ?_, ?_, ?_⟩
  · rw [htr]; exact ⟨inv.wf, r.op, hlin out (by rw [hp]; rfl)⟩
  · rw [htr, hst, linlog_cons_ret]; exact inv.legal
  · rw [hst]; exact inv.sinv
  · rw [htr, hn]; exact inv.fresh
  · intro u r' hu
    rw [hth] at hu
    rw [htr]
    by_cases hut : u = t
    · simp [hut] at hu
    · simp only [hut, if_false] at hu
      obtain ⟨h1, h2, h3⟩ := inv.run u r' hu
      exact ⟨List.mem_cons_of_mem _ h1, fun o ho => List.mem_cons_of_mem _ (h2 o ho), h3⟩
  · intro u v r1 r2 hu hv huv
    rw [hth] at hu hv
    by_cases hut : u = t
    · simp [hut] at hu
    · by_cases hvt : v = t
      · simp [hvt] at hv
      · simp only [hut, if_false] at hu
        simp only [hvt, if_false] at hv
        exact inv.distinct u v r1 r2 hu hv huv
  · intro u r' hu hwp
    rw [hth] at hu
    by_cases hut : u = t
    · simp [hut] at hu
    · simp only [hut, if_false] at hu
      exact inv.typ u r' hu hwp

/-- an idle thread invokes an operation -/
theorem inv_start {s : St S} (inv : Inv S s) (t : Nat) (op : COp) :
    Inv S { setTh s t (some { id := s.nextId, op := op, ph := .called }) with
            nextId := s.nextId + 1, tr := .call s.nextId op :: s.tr } := by
  have hfreshLin : s.nextId ∉ linIds s.tr := by
    intro h
    obtain ⟨op', out', hl⟩ := (mem_linIds _ _).mp h
    exact Nat.lt_irrefl _ (inv.lin_lt hl)
  refine ⟨?_, ?_, inv.sinv, ?_, ?_, ?_, ?_⟩
  · refine ⟨inv.wf, ?_⟩
    intro h
    exact Nat.lt_irrefl _ (inv.fresh _ h)
  · show legalTo mapSpec emptyMap ((linlog (TEv.call s.nextId op :: s.tr)).map (·.2)) (S.view s.store)
    rw [linlog_cons_call]; exact inv.legal
  · intro i hi
    show i < s.nextId + 1
    simp only [callIds_cons_call, List.mem_cons] at hi
    rcases hi with h | h
    · omega
    · exact Nat.lt_succ_of_lt (inv.fresh i h)
  · intro u r' hu
    simp only [setTh_th] at hu
    show TEv.call r'.id r'.op ∈ TEv.call s.nextId op :: s.tr ∧
      (∀ out, postLP r'.ph = some out → TEv.lin r'.id r'.op out ∈ TEv.call s.nextId op :: s.tr) ∧
      (postLP r'.ph = none → r'.id ∉ linIds (TEv.call s.nextId op :: s.tr))
    by_cases hut : u = t
    · simp only [hut, if_true, Option.some.injEq] at hu
      subst hu
      refine ⟨List.mem_cons_self, ?_, fun _ => hfreshLin⟩
      intro o ho; simp [postLP] at ho
    · simp only [hut, if_false] at hu
      obtain ⟨h1, h2, h3⟩ := inv.run u r' hu
      exact ⟨List.mem_cons_of_mem _ h1, fun o ho => List.mem_cons_of_mem _ (h2 o ho), h3⟩
  · intro u v r1 r2 hu hv huv
    simp only [setTh_th] at hu hv
    by_cases hut : u = t
    · by_cases hvt : v = t
      · exact absurd (hut.trans hvt.symm) huv
      · simp only [hut, if_true, Option.some.injEq] at hu
        simp only [hvt, if_false] at hv
        subst hu
        have := inv.id_lt hv
        show s.nextId ≠ r2.id
        omega
    · simp only [hut, if_false] at hu
      by_cases hvt : v = t
      · simp only [hvt, if_true, Option.some.injEq] at hv
        subst hv
        have := inv.id_lt hu
        show r1.id ≠ s.nextId
        omega
      · simp only [hvt, if_false] at hv
        exact inv.distinct u v r1 r2 hu hv huv
  · intro u r' hu hwp
    simp only [setTh_th] at hu
    by_cases hut : u = t
    · simp only [hut, if_true, Option.some.injEq] at hu
      subst hu
      simp [wph] at hwp
    · simp only [hut, if_false] at hu
      exact inv.typ u r' hu hwp

theorem mapStep_err (m : KVMap) (op : COp) (h : isGet op = false) : mapStep m op .err m := by
  cases op <;> simp [Lin.mapStep, isGet] at h ⊢

theorem mapStep_ok (m : KVMap) (op : COp) (k : Bytes) (v : Option Bytes) (h : opKV op = some (k, v)) :
    mapStep m op .ok (m.set k v) := by
  cases op <;> simp [opKV] at h <;> obtain ⟨rfl, rfl⟩ := h <;> simp [Lin.mapStep]

theorem inv_thread {cfg : Cfg} {s s' : St S} {t : Nat} {r : Run} (inv : Inv S s) (hr : s.th t = some r)
    (h : TStep cfg s t r s') : Inv S s' := by
  cases h with
  | rlock k h1 h2 h3 => exact inv_silent inv hr _ (by rw [h1]; rfl) (by simp [wph]) rfl rfl rfl rfl
  | wlock h1 h2 h3 h4 => exact inv_silent inv hr _ (by rw [h1]; rfl) (fun _ => Or.inr h2) rfl rfl rfl rfl
  | getwal a h1 => exact inv_silent inv hr _ (by rw [h1]; rfl) (by simp [wph, h1]) rfl rfl rfl rfl
  | chkActive a w h1 h2 => exact inv_silent inv hr _ (by rw [h1]; rfl) (by simp [wph, h1]) rfl rfl rfl rfl
  | chkRot a w h1 h2 => exact inv_silent inv hr _ (by rw [h1]; rfl) (by simp [wph, h1]) rfl rfl rfl rfl
  | chkClosed a w h1 h2 =>
    refine inv_lp inv hr .err (by rw [h1]; rfl) rfl rfl inv.sinv ?_ rfl
    exact mapStep_err _ _ (inv.typ t r hr (by rw [h1]; rfl))
  | buffer a w h1 =>
    refine inv_silent inv hr _ ?_ (by simp [wph, h1]) rfl rfl rfl rfl
    rw [h1]; cases cfg.syncImmediate <;> rfl
  | syncOk a w h1 h2 => exact inv_silent inv hr _ (by rw [h1]; rfl) (by simp [wph, h1]) rfl rfl rfl rfl
  | syncClosed a w h1 h2 =>
    refine inv_lp inv hr .err (by rw [h1]; rfl) rfl rfl inv.sinv ?_ rfl
    exact mapStep_err _ _ (inv.typ t r hr (by rw [h1]; rfl))
  | apply k v h1 h2 =>
    refine inv_lp inv hr .ok (by rw [h1]; rfl) rfl rfl (S.inv_write _ _ _ inv.sinv) ?_ rfl
    show mapStep (S.view s.store) r.op .ok (S.view (S.write s.store k v))
    rw [S.view_write _ _ _ inv.sinv]
    exact mapStep_ok _ _ _ _ h2
  | retry a h1 h2 => exact inv_silent inv hr _ (by rw [h1]; rfl) (by simp [wph, h1]) rfl rfl rfl rfl
  | giveup a h1 h2 =>
    refine inv_lp inv hr .err (by rw [h1]; rfl) rfl rfl inv.sinv ?_ rfl
    exact mapStep_err _ _ (inv.typ t r hr (by rw [h1]; rfl))
  | lookup k h1 h2 =>
    refine inv_lp inv hr _ (by rw [h1]; rfl) rfl rfl inv.sinv ?_ rfl
    show mapStep (S.view s.store) r.op (.val (S.view s.store k)) (S.view s.store)
    rw [h2]; exact ⟨rfl, rfl⟩
  | runlock out k h1 h2 => exact inv_silent inv hr _ (by rw [h1]; rfl) (by simp [wph]) rfl rfl rfl rfl
  | wunlock out h1 h2 => exact inv_silent inv hr _ (by rw [h1]; rfl) (by simp [wph]) rfl rfl rfl rfl
  | ret out h1 => exact inv_ret inv hr out h1 rfl rfl rfl rfl

theorem stepRot_frame {s s' : St S} (h : stepRot s = some s') :
    s'.th = s.th ∧ s'.tr = s.tr ∧ s'.nextId = s.nextId ∧ s'.store = s.store ∧ s'.late = s.late ∧
    s'.writer = s.writer ∧ s'.readers = s.readers := by
  unfold stepRot at h
  split at h
  · cases h; exact ⟨rfl, rfl, rfl, rfl, rfl, rfl, rfl⟩
  · split at h
    · cases h; exact ⟨rfl, rfl, rfl, rfl, rfl, rfl, rfl⟩
    · cases h
  · split at h
    · cases h; exact ⟨rfl, rfl, rfl, rfl, rfl, rfl, rfl⟩
    · cases h

theorem inv_step {cfg : Cfg} {s s' : St S} (a : Act) (inv : Inv S s) (h : stepAct cfg s a = some s') : Inv S s' := by
  cases a with
  | start t op =>
    simp only [stepAct] at h
    split at h
    · cases h
    · rename_i hnone; cases h; exact inv_start inv t op
  | step t =>
    obtain ⟨r, hr, hs⟩ := stepThread_TStep (show stepThread cfg s t = some s' from h)
    exact inv_thread inv hr hs
  | rot =>
    obtain ⟨h1, h2, h3, h4, _⟩ := stepRot_frame (show stepRot s = some s' from h)
    exact inv_frame inv h1 h2 h3 (by rw [h4]; exact inv.sinv) (by rw [h4])
  | bg n =>
    simp only [stepAct] at h
    split at h
    · cases h
    · cases h
      exact inv_frame inv rfl rfl rfl (S.inv_bg n _ inv.sinv) (S.view_bg n _ inv.sinv)

theorem reachFrom_induct {cfg : Cfg} (P : St S → Prop) (hstep : ∀ s s' a, P s → stepAct cfg s a = some s' → P s') :
    ∀ (sched : List Act) (s s' : St S), P s → reachFrom cfg s sched = some s' → P s'
  | [], s, s', hp, h => by
    simp only [reachFrom] at h; cases h; exact hp
  | a :: rest, s, s', hp, h => by
    simp only [reachFrom] at h
    split at h
    · cases h
    · rename_i s1 hs1
      exact reachFrom_induct P hstep rest s1 s' (hstep s s1 a hp hs1) h

theorem inv_reach (S : Store) (cfg : Cfg) (sched : List Act) (s : St S) (h : reach S cfg sched = some s) : Inv S s :=
  reachFrom_induct (Inv S) (fun _ _ a hp hs => inv_step a hp hs) sched (init S) s (inv_init S) h

/-- C06: every history of the storage manager under concurrent clients is linearizable w.r.t. the Map
    specification with failing writes. -/
theorem linearizable (S : Store) (cfg : Cfg) (sched : List Act) (s : St S) (h : reach S cfg sched = some s) :
    Lin.linearizable mapSpec (hist s) := by
  have inv := inv_reach S cfg sched s h
  exact witness_linearizable mapSpec s.tr inv.wf ⟨_, inv.legal⟩

theorem nodup_map_inj {α β : Type} (f : α → β) : ∀ (l : List α), (l.map f).Nodup →
    ∀ a b, a ∈ l → b ∈ l → f a = f b → a = b
  | [], _, a, _, ha, _, _ => by cases ha
  | x :: l, hnd, a, b, ha, hb, hab => by
    rw [List.map_cons, List.nodup_cons] at hnd
    rcases List.mem_cons.mp ha with ha1 | ha1
    · rcases List.mem_cons.mp hb with hb1 | hb1
      · rw [ha1, hb1]
      · rw [ha1] at hab; exact absurd (hab ▸ List.mem_map_of_mem hb1) hnd.1
    · rcases List.mem_cons.mp hb with hb1 | hb1
      · rw [hb1] at hab; exact absurd (hab ▸ List.mem_map_of_mem ha1) hnd.1
      · exact nodup_map_inj f l hnd.2 a b ha1 hb1 hab

/-- an operation that returned `ok` took effect exactly once -/
theorem success_once (S : Store) (cfg : Cfg) (sched : List Act) (s : St S) (h : reach S cfg sched = some s)
    (i : Nat) (hr : Ev.ret i COut.ok ∈ hist s) :
    ∃ op, (i, op, COut.ok) ∈ linlog s.tr ∧ ∀ q ∈ linlog s.tr, q.1 = i → q = (i, op, COut.ok) := by
  have inv := inv_reach S cfg sched s h
  obtain ⟨op, hlin⟩ := WF_ret_lin s.tr inv.wf i .ok ((mem_history_ret s.tr i .ok).mp hr)
  have hmem := (mem_linlog s.tr i op .ok).mpr hlin
  refine ⟨op, hmem, ?_⟩
  intro q hq hqi
  exact nodup_map_inj (·.1) _ (WF_linlog_nodup s.tr inv.wf) q _ hq hmem hqi

/-! ## PART B — the records in the log files (D19) -/

/-- number of records of operation `i` in all log files -/
def cntW (wals : List WalObj) (i : Nat) : Nat := (wals.flatMap (·.recs)).count i

theorem flatMap_set_same (f : WalObj → List Nat) : ∀ (l : List WalObj) (w : Nat) (x : WalObj),
    f x = f (l.getD w {}) → (l.set w x).flatMap f = l.flatMap f
  | [], _, _, _ => rfl
  | a :: l, 0, x, h => by
    simp only [List.getD_cons_zero] at h
    simp only [List.set_cons_zero, List.flatMap_cons, h]
  | a :: l, w + 1, x, h => by
    simp only [List.getD_cons_succ] at h
    simp only [List.set_cons_succ, List.flatMap_cons, flatMap_set_same f l w x h]

theorem count_flatMap_set (f : WalObj → List Nat) (j : Nat) : ∀ (l : List WalObj) (w : Nat) (x : WalObj),
    w < l.length →
    ((l.set w x).flatMap f).count j + (f (l.getD w {})).count j = (l.flatMap f).count j + (f x).count j
  | [], _, _, h => by simp at h
  | a :: l, 0, x, _ => by
    simp only [List.set_cons_zero, List.flatMap_cons, List.getD_cons_zero, List.count_append]
    omega
  | a :: l, w + 1, x, h => by
    have ih := count_flatMap_set f j l w x (by simpa using h)
    simp only [List.set_cons_succ, List.flatMap_cons, List.getD_cons_succ, List.count_append]
    omega

theorem cntW_addRec (wals : List WalObj) (w : Nat) (hw : w < wals.length) (i j : Nat) :
    cntW (addRec wals w i) j = cntW wals j + if j = i then 1 else 0 := by
  have h := count_flatMap_set (·.recs) j wals w
    { wals.getD w {} with recs := (wals.getD w {}).recs ++ [i] } hw
  simp only [List.count_append, List.count_singleton, beq_iff_eq] at h
  unfold cntW addRec
  by_cases hji : j = i
  · subst hji; simp only [if_true] at h ⊢; omega
  · have hij : ¬ i = j := fun e => hji e.symm
    simp only [hij, hji, if_false] at h ⊢; omega

theorem cntW_setStatus (wals : List WalObj) (w : Nat) (st : WStatus) (j : Nat) :
    cntW (setStatus wals w st) j = cntW wals j := by
  unfold cntW setStatus
  exact congrArg _ (flatMap_set_same (·.recs) wals w _ rfl)

theorem cntW_append_empty (wals : List WalObj) (j : Nat) : cntW (wals ++ [({} : WalObj)]) j = cntW wals j := by
  simp [cntW, List.flatMap_append]

@[simp] theorem length_addRec (wals : List WalObj) (w i : Nat) : (addRec wals w i).length = wals.length := by
  simp [addRec]

@[simp] theorem length_setStatus (wals : List WalObj) (w : Nat) (st : WStatus) :
    (setStatus wals w st).length = wals.length := by
  simp [setStatus]

/-- the number of records an operation is expected to have in the log, by phase / by output -/
def expOut : COut → Nat
  | .ok => 1
  | _ => 0

def expPh : Phase → Nat
  | .wBuffered _ _ | .wAppended => 1
  | .done out | .retp out => expOut out
  | _ => 0

def walIdx : Phase → Option Nat
  | .wGot _ w | .wChecked _ w | .wBuffered _ w => some w
  | _ => none

def isBuf : Phase → Bool
  | .wBuffered _ _ => true
  | _ => false

/-- `c` records where `n` are expected: never fewer, and exactly `n` as long as no append was late -/
def CntOK (late n c : Nat) : Prop := n ≤ c ∧ (late = 0 → c = n)

theorem CntOK.mono {late late' n c : Nat} (h : CntOK late n c) (hl : late ≤ late') : CntOK late' n c :=
  ⟨h.1, fun h0 => h.2 (by omega)⟩

structure RunOK (cfg : Cfg) (wals : List WalObj) (late : Nat) (r : Run) : Prop where
  idx : ∀ w, walIdx r.ph = some w → w < wals.length
  cnt : CntOK late (expPh r.ph) (cntW wals r.id)
  nobuf : cfg.syncImmediate = false → isBuf r.ph = false

theorem RunOK.mono {cfg : Cfg} {wals wals' : List WalObj} {late late' : Nat} {r : Run}
    (h : RunOK cfg wals late r) (hlen : wals.length ≤ wals'.length) (hc : cntW wals' r.id = cntW wals r.id)
    (hl : late ≤ late') : RunOK cfg wals' late' r :=
  ⟨fun w hw => Nat.lt_of_lt_of_le (h.idx w hw) hlen, by rw [hc]; exact h.cnt.mono hl, h.nobuf⟩

structure LogInv (cfg : Cfg) (s : St S) : Prop where
  cur : s.cur < s.wals.length
  recsLt : ∀ i, 0 < cntW s.wals i → i < s.nextId
  runs : ∀ t r, s.th t = some r → RunOK cfg s.wals s.late r
  lins : ∀ i op out, TEv.lin i op out ∈ s.tr → CntOK s.late (expOut out) (cntW s.wals i)
  nolate : cfg.syncImmediate = false → s.late = 0

theorem logInv_init (S : Store) (cfg : Cfg) : LogInv cfg (init S) := by
  refine ⟨Nat.zero_lt_one, ?_, ?_, ?_, fun _ => rfl⟩
  · intro i hi; simp [init, cntW] at hi
  · intro t r h; cases h
  · intro i op out h; cases h

/-- the log files change only in ways that keep every record (rotation steps, store steps) -/
theorem logInv_wals {cfg : Cfg} {s s' : St S} (li : LogInv cfg s) (hth : s'.th = s.th) (htr : s'.tr = s.tr)
    (hn : s'.nextId = s.nextId) (hlate : s'.late = s.late) (hlen : s.wals.length ≤ s'.wals.length)
    (hc : ∀ j, cntW s'.wals j = cntW s.wals j) (hcur : s'.cur < s'.wals.length) : LogInv cfg s' := by
  refine ⟨hcur, ?_, ?_, ?_, ?_⟩
  · intro i hi; rw [hc] at hi; rw [hn]; exact li.recsLt i hi
  · intro t r hr; rw [hth] at hr; rw [hlate]
    exact (li.runs t r hr).mono hlen (hc _) (Nat.le_refl _)
  · intro i op out h; rw [htr] at h; rw [hlate, hc]; exact li.lins i op out h
  · rw [hlate]; exact li.nolate

/-- thread `t` moves to phase `ph'` without touching the log files -/
theorem logInv_move {cfg : Cfg} {s s' : St S} {t : Nat} {r : Run} (li : LogInv cfg s) (hr : s.th t = some r)
    (ph' : Phase)
    (hth : s'.th = fun u => if u = t then some { r with ph := ph' } else s.th u)
    (hwals : s'.wals = s.wals) (hcur : s'.cur = s.cur) (hn : s'.nextId = s.nextId)
    (hlate : s'.late = s.late ∨ (s'.late = s.late + 1 ∧ isBuf r.ph = true))
    (hidx : ∀ w, walIdx ph' = some w → walIdx r.ph = some w ∨ w = s.cur)
    (hexp : expPh ph' = expPh r.ph ∨ (s'.late ≠ 0 ∧ expPh ph' ≤ expPh r.ph))
    (hbuf : isBuf ph' = true → isBuf r.ph = true)
    (htr : s'.tr = s.tr ∨ ∃ out, ph' = .done out ∧ s'.tr = .lin r.id r.op out :: s.tr) : LogInv cfg s' := by
  have hR := li.runs t r hr
  have hle : s.late ≤ s'.late := by rcases hlate with h | ⟨h, _⟩ <;> omega
  have hnew : CntOK s'.late (expPh ph') (cntW s.wals r.id) := by
    rcases hexp with h | ⟨h1, h2⟩
    · rw [h]; exact hR.cnt.mono hle
    · exact ⟨Nat.le_trans h2 hR.cnt.1, fun h0 => absurd h0 h1⟩
  refine ⟨?_, ?_, ?_, ?_, ?_⟩
  · rw [hwals, hcur]; exact li.cur
  · rw [hwals, hn]; exact li.recsLt
  · intro u r' hu
    rw [hth] at hu
    rw [hwals]
    by_cases hut : u = t
    · simp only [hut, if_true, Option.some.injEq] at hu
      subst hu
      refine ⟨?_, hnew, ?_⟩
      · intro w hw
        rcases hidx w hw with h | h
        · exact hR.idx w h
        · rw [h]; exact li.cur
      · intro hc
        cases hb : isBuf ph' with
        | false => rfl
        | true => rw [hR.nobuf hc] at hbuf; exact absurd (hbuf hb) (by simp)
    · simp only [hut, if_false] at hu
      exact (li.runs u r' hu).mono (Nat.le_refl _) rfl hle
  · intro i op out h
    rw [hwals]
    rcases htr with htr | ⟨o, ho, htr⟩
    · rw [htr] at h; exact (li.lins i op out h).mono hle
    · rw [htr] at h
      rcases List.mem_cons.mp h with heq | hin
      · simp only [TEv.lin.injEq] at heq
        obtain ⟨h1, _, h3⟩ := heq
        rw [h1, h3]
        rw [ho] at hnew
        exact hnew
      · exact (li.lins i op out hin).mono hle
  · intro hc
    rcases hlate with h | ⟨_, h⟩
    · rw [h]; exact li.nolate hc
    · rw [hR.nobuf hc] at h; cases h

/-- thread `t` writes its record to log file `w` -/
theorem logInv_buffer {cfg : Cfg} {s : St S} {t : Nat} {r : Run} (inv : Inv S s) (li : LogInv cfg s)
    (hr : s.th t = some r) (a w : Nat) (h1 : r.ph = .wChecked a w) :
    LogInv cfg { upd s t r (if cfg.syncImmediate then .wBuffered a w else .wAppended) with
                 wals := addRec s.wals w r.id } := by
  have hR := li.runs t r hr
  have hw : w < s.wals.length := hR.idx w (by rw [h1]; rfl)
  have hc0 := hR.cnt
  rw [h1] at hc0
  have hnot : r.id ∉ linIds s.tr := (inv.run t r hr).2.2 (by rw [h1]; rfl)
  refine ⟨?_, ?_, ?_, ?_, li.nolate⟩
  · show s.cur < (addRec s.wals w r.id).length
    rw [length_addRec]; exact li.cur
  · intro i hi
    show i < s.nextId
    change 0 < cntW (addRec s.wals w r.id) i at hi
    rw [cntW_addRec _ _ hw] at hi
    by_cases hir : i = r.id
    · rw [hir]; exact inv.id_lt hr
    · simp only [hir, if_false] at hi; exact li.recsLt i hi
  · intro u r' hu
    show RunOK cfg (addRec s.wals w r.id) s.late r'
    simp only [upd, setTh_th] at hu
    by_cases hut : u = t
    · simp only [hut, if_true, Option.some.injEq] at hu
      subst hu
      refine ⟨?_, ?_, ?_⟩
      · intro w' hw'
        rw [length_addRec]
        cases hs : cfg.syncImmediate <;> simp only [hs, if_true, if_false, Bool.false_eq_true, walIdx] at hw'
        · cases hw'
        · cases hw'; exact hw
      · show CntOK s.late (expPh (if cfg.syncImmediate then .wBuffered a w else .wAppended))
          (cntW (addRec s.wals w r.id) r.id)
        rw [cntW_addRec _ _ hw]
        have he : expPh (if cfg.syncImmediate then .wBuffered a w else .wAppended) = 1 := by
          cases cfg.syncImmediate <;> rfl
        rw [he]
        simp only [if_true]
        exact ⟨by have := hc0.1; omega, fun h0 => by have := hc0.2 h0; simp only [expPh] at this; omega⟩
      · intro hs
        show isBuf (if cfg.syncImmediate then .wBuffered a w else .wAppended) = false
        rw [hs]; rfl
    · simp only [hut, if_false] at hu
      have hne : r'.id ≠ r.id := inv.distinct u t r' r hu hr hut
      refine (li.runs u r' hu).mono (by rw [length_addRec]; exact Nat.le_refl _) ?_ (Nat.le_refl _)
      rw [cntW_addRec _ _ hw]; simp [hne]
  · intro i op out h
    show CntOK s.late (expOut out) (cntW (addRec s.wals w r.id) i)
    have hne : i ≠ r.id := by
      intro e; subst e
      exact hnot ((mem_linIds _ _).mpr ⟨op, out, h⟩)
    rw [cntW_addRec _ _ hw]; simp only [hne, if_false, Nat.add_zero]
    exact li.lins i op out h

theorem logInv_ret {cfg : Cfg} {s : St S} {t : Nat} {r : Run} (li : LogInv cfg s) (out : COut) :
    LogInv cfg { setTh s t none with tr := .ret r.id out :: s.tr } := by
  refine ⟨li.cur, li.recsLt, ?_, ?_, li.nolate⟩
  · intro u r' hu
    simp only [setTh_th] at hu
    by_cases hut : u = t
    · simp [hut] at hu
    · simp only [hut, if_false] at hu
      exact li.runs u r' hu
  · intro i op o h
    rcases List.mem_cons.mp h with heq | hin
    · cases heq
    · exact li.lins i op o hin

theorem logInv_start {cfg : Cfg} {s : St S} (li : LogInv cfg s) (t : Nat) (op : COp) :
    LogInv cfg { setTh s t (some { id := s.nextId, op := op, ph := .called }) with
                 nextId := s.nextId + 1, tr := .call s.nextId op :: s.tr } := by
  refine ⟨li.cur, ?_, ?_, ?_, li.nolate⟩
  · intro i hi
    exact Nat.lt_succ_of_lt (li.recsLt i hi)
  · intro u r' hu
    simp only [setTh_th] at hu
    by_cases hut : u = t
    · simp only [hut, if_true, Option.some.injEq] at hu
      subst hu
      refine ⟨fun w hw => (by cases hw), ?_, fun _ => rfl⟩
      have h0 : cntW s.wals s.nextId = 0 := by
        cases hc : cntW s.wals s.nextId with
        | zero => rfl
        | succ n => exact absurd (li.recsLt s.nextId (by omega)) (Nat.lt_irrefl _)
      show CntOK s.late 0 (cntW s.wals s.nextId)
      rw [h0]; exact ⟨Nat.le_refl _, fun _ => rfl⟩
    · simp only [hut, if_false] at hu
      exact li.runs u r' hu
  · intro i op' o h
    rcases List.mem_cons.mp h with heq | hin
    · cases heq
    · exact li.lins i op' o hin

theorem logInv_thread {cfg : Cfg} {s s' : St S} {t : Nat} {r : Run} (inv : Inv S s) (li : LogInv cfg s)
    (hr : s.th t = some r) (h : TStep cfg s t r s') : LogInv cfg s' := by
  cases h with
  | rlock k h1 h2 h3 =>
    exact logInv_move li hr _ rfl rfl rfl rfl (Or.inl rfl) (by simp [walIdx]) (Or.inl (by rw [h1]; rfl))
      (by simp [isBuf]) (Or.inl rfl)
  | wlock h1 h2 h3 h4 =>
    exact logInv_move li hr _ rfl rfl rfl rfl (Or.inl rfl) (by simp [walIdx]) (Or.inl (by rw [h1]; rfl))
      (by simp [isBuf]) (Or.inl rfl)
  | getwal a h1 =>
    exact logInv_move li hr _ rfl rfl rfl rfl (Or.inl rfl) (by simp [walIdx]) (Or.inl (by rw [h1]; rfl))
      (by simp [isBuf]) (Or.inl rfl)
  | chkActive a w h1 h2 =>
    exact logInv_move li hr _ rfl rfl rfl rfl (Or.inl rfl) (by simp [walIdx, h1]) (Or.inl (by rw [h1]; rfl))
      (by simp [isBuf]) (Or.inl rfl)
  | chkRot a w h1 h2 =>
    exact logInv_move li hr _ rfl rfl rfl rfl (Or.inl rfl) (by simp [walIdx]) (Or.inl (by rw [h1]; rfl))
      (by simp [isBuf]) (Or.inl rfl)
  | chkClosed a w h1 h2 =>
    exact logInv_move li hr _ rfl rfl rfl rfl (Or.inl rfl) (by simp [walIdx]) (Or.inl (by rw [h1]; rfl))
      (by simp [isBuf]) (Or.inr ⟨_, rfl, rfl⟩)
  | buffer a w h1 => exact logInv_buffer inv li hr a w h1
  | syncOk a w h1 h2 =>
    exact logInv_move li hr _ rfl rfl rfl rfl (Or.inl rfl) (by simp [walIdx]) (Or.inl (by rw [h1]; rfl))
      (by simp [isBuf]) (Or.inl rfl)
  | syncClosed a w h1 h2 =>
    exact logInv_move li hr _ rfl rfl rfl rfl (Or.inr ⟨rfl, by rw [h1]; rfl⟩) (by simp [walIdx])
      (Or.inr ⟨Nat.succ_ne_zero _, by rw [h1]; exact Nat.zero_le _⟩) (by simp [isBuf]) (Or.inr ⟨_, rfl, rfl⟩)
  | apply k v h1 h2 =>
    exact logInv_move li hr _ rfl rfl rfl rfl (Or.inl rfl) (by simp [walIdx]) (Or.inl (by rw [h1]; rfl))
      (by simp [isBuf]) (Or.inr ⟨_, rfl, rfl⟩)
  | retry a h1 h2 =>
    exact logInv_move li hr _ rfl rfl rfl rfl (Or.inl rfl) (by simp [walIdx]) (Or.inl (by rw [h1]; rfl))
      (by simp [isBuf]) (Or.inl rfl)
  | giveup a h1 h2 =>
    exact logInv_move li hr _ rfl rfl rfl rfl (Or.inl rfl) (by simp [walIdx]) (Or.inl (by rw [h1]; rfl))
      (by simp [isBuf]) (Or.inr ⟨_, rfl, rfl⟩)
  | lookup k h1 h2 =>
    exact logInv_move li hr _ rfl rfl rfl rfl (Or.inl rfl) (by simp [walIdx]) (Or.inl (by rw [h1]; rfl))
      (by simp [isBuf]) (Or.inr ⟨_, rfl, rfl⟩)
  | runlock out k h1 h2 =>
    exact logInv_move li hr _ rfl rfl rfl rfl (Or.inl rfl) (by simp [walIdx]) (Or.inl (by rw [h1]; rfl))
      (by simp [isBuf]) (Or.inl rfl)
  | wunlock out h1 h2 =>
    exact logInv_move li hr _ rfl rfl rfl rfl (Or.inl rfl) (by simp [walIdx]) (Or.inl (by rw [h1]; rfl))
      (by simp [isBuf]) (Or.inl rfl)
  | ret out h1 => exact logInv_ret li out

theorem logInv_rot {cfg : Cfg} {s s' : St S} (li : LogInv cfg s) (h : stepRot s = some s') : LogInv cfg s' := by
  unfold stepRot at h
  split at h
  · cases h
    exact logInv_wals li rfl rfl rfl rfl (by simp) (fun j => cntW_setStatus _ _ _ j)
      (by show s.cur < (setStatus s.wals s.cur .rotating).length; rw [length_setStatus]; exact li.cur)
  · split at h
    · cases h
      exact logInv_wals li rfl rfl rfl rfl (by simp) (fun j => cntW_append_empty _ j)
        (by show s.wals.length < (s.wals ++ [({} : WalObj)]).length; simp)
    · cases h
  · split at h
    · rename_i old _ _
      cases h
      exact logInv_wals li rfl rfl rfl rfl (by simp) (fun j => cntW_setStatus _ _ _ j)
        (by show s.cur < (setStatus s.wals old .closed).length; rw [length_setStatus]; exact li.cur)
    · cases h

theorem logInv_step {cfg : Cfg} {s s' : St S} (a : Act) (inv : Inv S s) (li : LogInv cfg s)
    (h : stepAct cfg s a = some s') : LogInv cfg s' := by
  cases a with
  | start t op =>
    simp only [stepAct] at h
    split at h
    · cases h
    · cases h; exact logInv_start li t op
  | step t =>
    obtain ⟨r, hr, hs⟩ := stepThread_TStep (show stepThread cfg s t = some s' from h)
    exact logInv_thread inv li hr hs
  | rot => exact logInv_rot li (show stepRot s = some s' from h)
  | bg n =>
    simp only [stepAct] at h
    split at h
    · cases h
    · cases h
      exact logInv_wals li rfl rfl rfl rfl (Nat.le_refl _) (fun _ => rfl) li.cur

theorem logInv_reach (S : Store) (cfg : Cfg) (sched : List Act) (s : St S) (h : reach S cfg sched = some s) :
    Inv S s ∧ LogInv cfg s :=
  reachFrom_induct (fun s => Inv S s ∧ LogInv cfg s)
    (fun _ _ a hp hs => ⟨inv_step a hp.1 hs, logInv_step a hp.1 hp.2 hs⟩) sched (init S) s
    ⟨inv_init S, logInv_init S cfg⟩ h

theorem ret_lin {s : St S} (inv : Inv S s) (i : Nat) (out : COut) (hr : Ev.ret i out ∈ hist s) :
    ∃ op, TEv.lin i op out ∈ s.tr :=
  WF_ret_lin s.tr inv.wf i out ((mem_history_ret s.tr i out).mp hr)

/-- a write that returned `ok` is in the log -/
theorem success_in_log (S : Store) (cfg : Cfg) (sched : List Act) (s : St S) (h : reach S cfg sched = some s)
    (i : Nat) (hr : Ev.ret i COut.ok ∈ hist s) : i ∈ allRecs s := by
  obtain ⟨inv, li⟩ := logInv_reach S cfg sched s h
  obtain ⟨op, hl⟩ := ret_lin inv i .ok hr
  have := (li.lins i op .ok hl).1
  exact List.count_pos_iff.mp this

/-- as long as no append observed `Rotating` after buffering its record, a write that returned an error left no
    record behind -/
theorem error_no_effect_partial (S : Store) (cfg : Cfg) (sched : List Act) (s : St S)
    (h : reach S cfg sched = some s) (hl : s.late = 0) (i : Nat) (hr : Ev.ret i COut.err ∈ hist s) :
    (∃ op, (i, op, COut.err) ∈ linlog s.tr) ∧ i ∉ allRecs s := by
  obtain ⟨inv, li⟩ := logInv_reach S cfg sched s h
  obtain ⟨op, hlin⟩ := ret_lin inv i .err hr
  refine ⟨⟨op, (mem_linlog s.tr i op .err).mpr hlin⟩, ?_⟩
  have := (li.lins i op .err hlin).2 hl
  exact List.count_eq_zero.mp this

/-- ... and a write that returned `ok` has exactly one record -/
theorem log_once_partial (S : Store) (cfg : Cfg) (sched : List Act) (s : St S)
    (h : reach S cfg sched = some s) (hl : s.late = 0) (i : Nat) (hr : Ev.ret i COut.ok ∈ hist s) :
    (allRecs s).count i = 1 := by
  obtain ⟨inv, li⟩ := logInv_reach S cfg sched s h
  obtain ⟨op, hlin⟩ := ret_lin inv i .ok hr
  exact (li.lins i op .ok hlin).2 hl

/-! ## PART C — the storage lock -/

/-- the thread is between `mu.Lock` and `mu.Unlock` -/
def holdsW (r : Run) : Bool :=
  match r.ph with
  | .wLocked _ | .wGot _ _ | .wChecked _ _ | .wBuffered _ _ | .wAppended | .wFailed _ => true
  | .done _ => !isGet r.op
  | _ => false

/-- the thread is between `mu.RLock` and `mu.RUnlock` -/
def holdsR (r : Run) : Bool :=
  match r.ph with
  | .rLocked => true
  | .done _ => isGet r.op
  | _ => false

structure LockInv (s : St S) : Prop where
  w1 : ∀ t r, s.th t = some r → holdsW r = true → s.writer = some t
  r1 : ∀ t r, s.th t = some r → holdsR r = true → t ∈ s.readers
  w2 : ∀ t, s.writer = some t → s.readers = [] ∧ ∃ r, s.th t = some r ∧ holdsW r = true
  r2 : ∀ t, t ∈ s.readers → ∃ r, s.th t = some r ∧ holdsR r = true
  nd : s.readers.Nodup

theorem lockInv_init (S : Store) : LockInv (init S) := by
  refine ⟨?_, ?_, ?_, ?_, List.nodup_nil⟩
  · intro t r h; cases h
  · intro t r h; cases h
  · intro t h; cases h
  · intro t h; cases h

/-- the run of thread `t` is replaced (or removed); the lock words stay as they are -/
theorem lockInv_set {s s' : St S} {t : Nat} (lk : LockInv s) (onew : Option Run)
    (hth : s'.th = fun u => if u = t then onew else s.th u)
    (hwr : s'.writer = s.writer) (hrd : s'.readers = s.readers)
    (hW : ∀ r', onew = some r' → holdsW r' = true → s.writer = some t)
    (hR : ∀ r', onew = some r' → holdsR r' = true → t ∈ s.readers)
    (hW2 : s.writer = some t → ∃ r', onew = some r' ∧ holdsW r' = true)
    (hR2 : t ∈ s.readers → ∃ r', onew = some r' ∧ holdsR r' = true) : LockInv s' := by
  refine ⟨?_, ?_, ?_, ?_, ?_⟩
  · intro u r' hu hw
    rw [hth] at hu; rw [hwr]
    by_cases hut : u = t
    · simp only [hut, if_true] at hu
      rw [hut]; exact hW r' hu hw
    · simp only [hut, if_false] at hu
      exact lk.w1 u r' hu hw
  · intro u r' hu hw
    rw [hth] at hu; rw [hrd]
    by_cases hut : u = t
    · simp only [hut, if_true] at hu
      rw [hut]; exact hR r' hu hw
    · simp only [hut, if_false] at hu
      exact lk.r1 u r' hu hw
  · intro u hu
    rw [hwr] at hu; rw [hrd, hth]
    refine ⟨(lk.w2 u hu).1, ?_⟩
    by_cases hut : u = t
    · simp only [hut, if_true]
      rw [hut] at hu
      obtain ⟨r', h1, h2⟩ := hW2 hu
      exact ⟨r', h1, h2⟩
    · simp only [hut, if_false]
      exact (lk.w2 u hu).2
  · intro u hu
    rw [hrd] at hu; rw [hth]
    by_cases hut : u = t
    · simp only [hut, if_true]
      rw [hut] at hu
      exact hR2 hu
    · simp only [hut, if_false]
      exact lk.r2 u hu
  · rw [hrd]; exact lk.nd

/-- thread `t` moves to a phase in which it holds the same locks -/
theorem lockInv_move {s s' : St S} {t : Nat} {r : Run} (lk : LockInv s) (hr : s.th t = some r) (ph' : Phase)
    (hth : s'.th = fun u => if u = t then some { r with ph := ph' } else s.th u)
    (hwr : s'.writer = s.writer) (hrd : s'.readers = s.readers)
    (hW : holdsW { r with ph := ph' } = holdsW r) (hR : holdsR { r with ph := ph' } = holdsR r) : LockInv s' := by
  refine lockInv_set lk _ hth hwr hrd ?_ ?_ ?_ ?_
  · intro r' h1 h2; cases h1; rw [hW] at h2; exact lk.w1 t r hr h2
  · intro r' h1 h2; cases h1; rw [hR] at h2; exact lk.r1 t r hr h2
  · intro h
    obtain ⟨_, r0, h0, h1⟩ := lk.w2 t h
    rw [hr] at h0; cases h0
    exact ⟨_, rfl, by rw [hW]; exact h1⟩
  · intro h
    obtain ⟨r0, h0, h1⟩ := lk.r2 t h
    rw [hr] at h0; cases h0
    exact ⟨_, rfl, by rw [hR]; exact h1⟩

theorem holdsW_lp {r : Run} (out : COut) (hg : isGet r.op = false) : holdsW { r with ph := .done out } = true := by
  simp [holdsW, hg]

theorem holdsR_lp {r : Run} (out : COut) (hg : isGet r.op = false) : holdsR { r with ph := .done out } = false := by
  simp [holdsR, hg]

theorem lockInv_thread {cfg : Cfg} {s s' : St S} {t : Nat} {r : Run} (inv : Inv S s) (lk : LockInv s)
    (hr : s.th t = some r) (h : TStep cfg s t r s') : LockInv s' := by
  have hnotW : r.ph = .called → s.writer ≠ some t := by
    intro h1 hw
    obtain ⟨_, r0, h0, h2⟩ := lk.w2 t hw
    rw [hr] at h0; cases h0
    simp [holdsW, h1] at h2
  have hnotR : r.ph = .called → t ∉ s.readers := by
    intro h1 hw
    obtain ⟨r0, h0, h2⟩ := lk.r2 t hw
    rw [hr] at h0; cases h0
    simp [holdsR, h1] at h2
  cases h with
  | rlock k h1 h2 h3 =>
    refine ⟨?_, ?_, ?_, ?_, ?_⟩
    · intro u r' hu hw
      simp only [upd, setTh_th] at hu
      by_cases hut : u = t
      · simp only [hut, if_true, Option.some.injEq] at hu
        subst hu; simp [holdsW] at hw
      · simp only [hut, if_false] at hu
        exact lk.w1 u r' hu hw
    · intro u r' hu hw
      show u ∈ t :: s.readers
      simp only [upd, setTh_th] at hu
      by_cases hut : u = t
      · rw [hut]; exact List.mem_cons_self
      · simp only [hut, if_false] at hu
        exact List.mem_cons_of_mem _ (lk.r1 u r' hu hw)
    · intro u hu
      have : s.writer = some u := hu
      rw [h3] at this; cases this
    · intro u hu
      simp only [upd, setTh_th]
      by_cases hut : u = t
      · simp only [hut, if_true]
        exact ⟨_, rfl, rfl⟩
      · simp only [hut, if_false]
        have hu' : u ∈ t :: s.readers := hu
        rcases List.mem_cons.mp hu' with h | h
        · exact absurd h hut
        · exact lk.r2 u h
    · show (t :: s.readers).Nodup
      exact List.nodup_cons.mpr ⟨hnotR h1, lk.nd⟩
  | wlock h1 h2 h3 h4 =>
    refine ⟨?_, ?_, ?_, ?_, lk.nd⟩
    · intro u r' hu hw
      show some t = some u
      simp only [upd, setTh_th] at hu
      by_cases hut : u = t
      · rw [hut]
      · simp only [hut, if_false] at hu
        have := lk.w1 u r' hu hw
        rw [h3] at this; cases this
    · intro u r' hu hw
      show u ∈ s.readers
      simp only [upd, setTh_th] at hu
      by_cases hut : u = t
      · simp only [hut, if_true, Option.some.injEq] at hu
        subst hu; simp [holdsR] at hw
      · simp only [hut, if_false] at hu
        exact lk.r1 u r' hu hw
    · intro u hu
      have hu' : some t = some u := hu
      cases hu'
      refine ⟨h4, ?_⟩
      simp only [upd, setTh_th, if_true]
      exact ⟨_, rfl, rfl⟩
    · intro u hu
      have hu' : u ∈ s.readers := hu
      rw [h4] at hu'; cases hu'
  | getwal a h1 => exact lockInv_move lk hr _ rfl rfl rfl (by simp [holdsW, h1]) (by simp [holdsR, h1])
  | chkActive a w h1 h2 => exact lockInv_move lk hr _ rfl rfl rfl (by simp [holdsW, h1]) (by simp [holdsR, h1])
  | chkRot a w h1 h2 => exact lockInv_move lk hr _ rfl rfl rfl (by simp [holdsW, h1]) (by simp [holdsR, h1])
  | chkClosed a w h1 h2 =>
    have hg := inv.typ t r hr (by rw [h1]; rfl)
    exact lockInv_move lk hr _ rfl rfl rfl (by rw [holdsW_lp _ hg]; simp [holdsW, h1])
      (by rw [holdsR_lp _ hg]; simp [holdsR, h1])
  | buffer a w h1 =>
    refine lockInv_move lk hr _ rfl rfl rfl ?_ ?_
    · cases cfg.syncImmediate <;> simp [holdsW, h1]
    · cases cfg.syncImmediate <;> simp [holdsR, h1]
  | syncOk a w h1 h2 => exact lockInv_move lk hr _ rfl rfl rfl (by simp [holdsW, h1]) (by simp [holdsR, h1])
  | syncClosed a w h1 h2 =>
    have hg := inv.typ t r hr (by rw [h1]; rfl)
    exact lockInv_move lk hr _ rfl rfl rfl (by rw [holdsW_lp _ hg]; simp [holdsW, h1])
      (by rw [holdsR_lp _ hg]; simp [holdsR, h1])
  | apply k v h1 h2 =>
    have hg := inv.typ t r hr (by rw [h1]; rfl)
    exact lockInv_move lk hr _ rfl rfl rfl (by rw [holdsW_lp _ hg]; simp [holdsW, h1])
      (by rw [holdsR_lp _ hg]; simp [holdsR, h1])
  | retry a h1 h2 => exact lockInv_move lk hr _ rfl rfl rfl (by simp [holdsW, h1]) (by simp [holdsR, h1])
  | giveup a h1 h2 =>
    have hg := inv.typ t r hr (by rw [h1]; rfl)
    exact lockInv_move lk hr _ rfl rfl rfl (by rw [holdsW_lp _ hg]; simp [holdsW, h1])
      (by rw [holdsR_lp _ hg]; simp [holdsR, h1])
  | lookup k h1 h2 =>
    exact lockInv_move lk hr _ rfl rfl rfl (by simp [holdsW, h1, h2, isGet]) (by simp [holdsR, h1, h2, isGet])
  | runlock out k h1 h2 =>
    have hRr : holdsR r = true := by simp [holdsR, h1, h2, isGet]
    have hWr : holdsW r = false := by simp [holdsW, h1, h2, isGet]
    refine ⟨?_, ?_, ?_, ?_, ?_⟩
    · intro u r' hu hw
      simp only [upd, setTh_th] at hu
      by_cases hut : u = t
      · simp only [hut, if_true, Option.some.injEq] at hu
        subst hu; simp [holdsW] at hw
      · simp only [hut, if_false] at hu
        exact lk.w1 u r' hu hw
    · intro u r' hu hw
      show u ∈ s.readers.erase t
      simp only [upd, setTh_th] at hu
      by_cases hut : u = t
      · simp only [hut, if_true, Option.some.injEq] at hu
        subst hu; simp [holdsR] at hw
      · simp only [hut, if_false] at hu
        exact (List.mem_erase_of_ne hut).mpr (lk.r1 u r' hu hw)
    · intro u hu
      have hu' : s.writer = some u := hu
      obtain ⟨he, r0, h0, h3⟩ := lk.w2 u hu'
      have hut : u ≠ t := by
        intro e; rw [e, hr] at h0; cases h0
        rw [hWr] at h3; cases h3
      refine ⟨by show s.readers.erase t = []; rw [he]; rfl, r0, ?_, h3⟩
      simp only [upd, setTh_th, hut, if_false]; exact h0
    · intro u hu
      have hu' : u ∈ s.readers.erase t := hu
      obtain ⟨hut, hin⟩ := (List.Nodup.mem_erase_iff lk.nd).mp hu'
      simp only [upd, setTh_th, hut, if_false]
      exact lk.r2 u hin
    · show (s.readers.erase t).Nodup
      exact lk.nd.erase t
  | wunlock out h1 h2 =>
    have hWr : holdsW r = true := by simp [holdsW, h1, h2]
    have hw := lk.w1 t r hr hWr
    have hemp := (lk.w2 t hw).1
    refine ⟨?_, ?_, ?_, ?_, lk.nd⟩
    · intro u r' hu hw'
      simp only [upd, setTh_th] at hu
      by_cases hut : u = t
      · simp only [hut, if_true, Option.some.injEq] at hu
        subst hu; simp [holdsW] at hw'
      · simp only [hut, if_false] at hu
        have := lk.w1 u r' hu hw'
        rw [hw] at this
        exact absurd (Option.some.inj this).symm hut
    · intro u r' hu hw'
      show u ∈ s.readers
      simp only [upd, setTh_th] at hu
      by_cases hut : u = t
      · simp only [hut, if_true, Option.some.injEq] at hu
        subst hu; simp [holdsR] at hw'
      · simp only [hut, if_false] at hu
        exact lk.r1 u r' hu hw'
    · intro u hu
      have hu' : (none : Option Nat) = some u := hu
      cases hu'
    · intro u hu
      have hu' : u ∈ s.readers := hu
      rw [hemp] at hu'; cases hu'
  | ret out h1 =>
    have hWr : holdsW r = false := by simp [holdsW, h1]
    have hRr : holdsR r = false := by simp [holdsR, h1]
    refine lockInv_set lk none rfl rfl rfl ?_ ?_ ?_ ?_
    · intro r' h; cases h
    · intro r' h; cases h
    · intro h
      obtain ⟨_, r0, h0, h2⟩ := lk.w2 t h
      rw [hr] at h0; cases h0
      rw [hWr] at h2; cases h2
    · intro h
      obtain ⟨r0, h0, h2⟩ := lk.r2 t h
      rw [hr] at h0; cases h0
      rw [hRr] at h2; cases h2

theorem lockInv_step {cfg : Cfg} {s s' : St S} (a : Act) (inv : Inv S s) (lk : LockInv s)
    (h : stepAct cfg s a = some s') : LockInv s' := by
  cases a with
  | start t op =>
    simp only [stepAct] at h
    split at h
    · cases h
    · rename_i hnone
      cases h
      refine lockInv_set lk _ rfl rfl rfl ?_ ?_ ?_ ?_
      · intro r' h1 h2; cases h1; simp [holdsW] at h2
      · intro r' h1 h2; cases h1; simp [holdsR] at h2
      · intro hw
        obtain ⟨_, r0, h0, _⟩ := lk.w2 t hw
        rw [hnone] at h0; cases h0
      · intro hw
        obtain ⟨r0, h0, _⟩ := lk.r2 t hw
        rw [hnone] at h0; cases h0
  | step t =>
    obtain ⟨r, hr, hs⟩ := stepThread_TStep (show stepThread cfg s t = some s' from h)
    exact lockInv_thread inv lk hr hs
  | rot =>
    obtain ⟨h1, _, _, _, _, h6, h7⟩ := stepRot_frame (show stepRot s = some s' from h)
    refine ⟨?_, ?_, ?_, ?_, ?_⟩
    · rw [h1, h6]; exact lk.w1
    · rw [h1, h7]; exact lk.r1
    · rw [h1, h6, h7]; exact lk.w2
    · rw [h1, h7]; exact lk.r2
    · rw [h7]; exact lk.nd
  | bg n =>
    simp only [stepAct] at h
    split at h
    · cases h
    · cases h
      exact ⟨lk.w1, lk.r1, lk.w2, lk.r2, lk.nd⟩

theorem lockInv_reach (S : Store) (cfg : Cfg) (sched : List Act) (s : St S) (h : reach S cfg sched = some s) :
    LockInv s :=
  (reachFrom_induct (fun s => Inv S s ∧ LockInv s)
    (fun _ _ a hp hs => ⟨inv_step a hp.1 hs, lockInv_step a hp.1 hp.2 hs⟩) sched (init S) s
    ⟨inv_init S, lockInv_init S⟩ h).2

/-- a thread inside a write critical section excludes every other thread from `mu`, readers included -/
theorem mutual_exclusion (S : Store) (cfg : Cfg) (sched : List Act) (s : St S) (h : reach S cfg sched = some s)
    (t u : Nat) (r r' : Run) (ht : s.th t = some r) (hu : s.th u = some r') (hw : holdsW r = true)
    (hx : holdsW r' = true ∨ holdsR r' = true) : t = u := by
  have lk := lockInv_reach S cfg sched s h
  have hwt := lk.w1 t r ht hw
  rcases hx with hx | hx
  · have := lk.w1 u r' hu hx
    rw [hwt] at this
    exact Option.some.inj this
  · have := lk.r1 u r' hu hx
    rw [(lk.w2 t hwt).1] at this
    cases this

/-! ## PART D — a thread inside Append never finds its log closed, hence no append is late (D19 repaired) -/

/-- the WAL object whose mutex the thread holds (inside Append) -/
def appIdx : Phase → Option Nat
  | .wChecked _ w | .wBuffered _ w => some w
  | _ => none

theorem insideAppend_of_appIdx (r : Run) (w : Nat) (h : appIdx r.ph = some w) : insideAppend (some r) w = true := by
  obtain ⟨id, op, ph⟩ := r
  cases ph <;> simp [appIdx] at h <;> simp [insideAppend, h]

theorem holdsW_of_appIdx (r : Run) (w : Nat) (h : appIdx r.ph = some w) : holdsW r = true := by
  obtain ⟨id, op, ph⟩ := r
  cases ph <;> simp [appIdx] at h <;> simp [holdsW]

theorem getD_set_wal : ∀ (l : List WalObj) (o w : Nat) (x : WalObj),
    (l.set o x).getD w {} = if w = o ∧ o < l.length then x else l.getD w {}
  | [], o, w, x => by simp
  | a :: l, 0, 0, x => by simp
  | a :: l, 0, w + 1, x => by simp
  | a :: l, o + 1, 0, x => by simp
  | a :: l, o + 1, w + 1, x => by
    simp only [List.set_cons_succ, List.getD_cons_succ, getD_set_wal l o w x, List.length_cons,
      Nat.add_right_cancel_iff, Nat.add_lt_add_iff_right]

theorem getD_append_empty : ∀ (wals : List WalObj) (w : Nat), (wals ++ [({} : WalObj)]).getD w {} = wals.getD w {}
  | [], 0 => rfl
  | [], w + 1 => rfl
  | a :: l, 0 => rfl
  | a :: l, w + 1 => by
    simp only [List.cons_append, List.getD_cons_succ, getD_append_empty l w]

theorem status_addRec (wals : List WalObj) (w i w' : Nat) :
    ((addRec wals w i).getD w' {}).status = (wals.getD w' {}).status := by
  unfold addRec
  rw [getD_set_wal]
  split
  · rename_i h; rw [h.1]
  · rfl

theorem status_setStatus (wals : List WalObj) (o : Nat) (st : WStatus) (w : Nat) :
    ((setStatus wals o st).getD w {}).status = st ∨
    ((setStatus wals o st).getD w {}).status = (wals.getD w {}).status := by
  unfold setStatus
  rw [getD_set_wal]
  split
  · exact Or.inl rfl
  · exact Or.inr rfl

theorem status_setStatus_ne (wals : List WalObj) (o : Nat) (st : WStatus) (w : Nat) (h : w ≠ o) :
    ((setStatus wals o st).getD w {}).status = (wals.getD w {}).status := by
  unfold setStatus
  rw [getD_set_wal]
  split
  · rename_i h'; exact absurd h'.1 h
  · rfl

structure AppInv (s : St S) : Prop where
  /-- the log of an append in progress is not closed: `Close` needs the mutex of the WAL object -/
  opn : ∀ t r w, s.th t = some r → appIdx r.ph = some w → walStatus s w ≠ .closed
  late0 : s.late = 0

theorem appInv_init (S : Store) : AppInv (init S) := by
  refine ⟨?_, rfl⟩
  intro t r w h; cases h

/-- the run of thread `t` is replaced (or removed); no status word changes -/
theorem appInv_set {s s' : St S} {t : Nat} (ai : AppInv s) (onew : Option Run)
    (hth : s'.th = fun u => if u = t then onew else s.th u)
    (hst : ∀ w, walStatus s' w = walStatus s w) (hlate : s'.late = s.late)
    (hnew : ∀ r' w, onew = some r' → appIdx r'.ph = some w → walStatus s w ≠ .closed) : AppInv s' := by
  refine ⟨?_, by rw [hlate]; exact ai.late0⟩
  intro u r' w hu hw
  rw [hth] at hu; rw [hst]
  by_cases hut : u = t
  · simp only [hut, if_true] at hu
    exact hnew r' w hu hw
  · simp only [hut, if_false] at hu
    exact ai.opn u r' w hu hw

theorem appInv_thread {cfg : Cfg} {s s' : St S} {t : Nat} {r : Run} (ai : AppInv s)
    (hr : s.th t = some r) (h : TStep cfg s t r s') : AppInv s' := by
  cases h with
  | rlock k h1 h2 h3 =>
    exact appInv_set ai _ rfl (fun _ => rfl) rfl (by intro r' w e hw; cases e; simp [appIdx] at hw)
  | wlock h1 h2 h3 h4 =>
    exact appInv_set ai _ rfl (fun _ => rfl) rfl (by intro r' w e hw; cases e; simp [appIdx] at hw)
  | getwal a h1 =>
    exact appInv_set ai _ rfl (fun _ => rfl) rfl (by intro r' w e hw; cases e; simp [appIdx] at hw)
  | chkActive a w h1 h2 =>
    refine appInv_set ai _ rfl (fun _ => rfl) rfl ?_
    intro r' w' e hw
    cases e
    simp only [appIdx, Option.some.injEq] at hw
    rw [← hw, h2]; simp
  | chkRot a w h1 h2 =>
    exact appInv_set ai _ rfl (fun _ => rfl) rfl (by intro r' w e hw; cases e; simp [appIdx] at hw)
  | chkClosed a w h1 h2 =>
    exact appInv_set ai _ rfl (fun _ => rfl) rfl (by intro r' w e hw; cases e; simp [appIdx] at hw)
  | buffer a w h1 =>
    refine appInv_set ai _ rfl (fun w' => ?_) rfl ?_
    · show ((addRec s.wals w r.id).getD w' {}).status = (s.wals.getD w' {}).status
      exact status_addRec _ _ _ _
    · intro r' w' e hw
      cases e
      have hw' : w' = w := by
        cases hs : cfg.syncImmediate <;> simp [hs, appIdx] at hw
        exact hw.symm
      rw [hw']
      exact ai.opn t r w hr (by rw [h1]; rfl)
  | syncOk a w h1 h2 =>
    exact appInv_set ai _ rfl (fun _ => rfl) rfl (by intro r' w e hw; cases e; simp [appIdx] at hw)
  | syncClosed a w h1 h2 => exact absurd h2 (ai.opn t r w hr (by rw [h1]; rfl))
  | apply k v h1 h2 =>
    exact appInv_set ai _ rfl (fun _ => rfl) rfl (by intro r' w e hw; cases e; simp [appIdx] at hw)
  | retry a h1 h2 =>
    exact appInv_set ai _ rfl (fun _ => rfl) rfl (by intro r' w e hw; cases e; simp [appIdx] at hw)
  | giveup a h1 h2 =>
    exact appInv_set ai _ rfl (fun _ => rfl) rfl (by intro r' w e hw; cases e; simp [appIdx] at hw)
  | lookup k h1 h2 =>
    exact appInv_set ai _ rfl (fun _ => rfl) rfl (by intro r' w e hw; cases e; simp [appIdx] at hw)
  | runlock out k h1 h2 =>
    exact appInv_set ai _ rfl (fun _ => rfl) rfl (by intro r' w e hw; cases e; simp [appIdx] at hw)
  | wunlock out h1 h2 =>
    exact appInv_set ai _ rfl (fun _ => rfl) rfl (by intro r' w e hw; cases e; simp [appIdx] at hw)
  | ret out h1 =>
    exact appInv_set ai none rfl (fun _ => rfl) rfl (by intro r' w e; cases e)

theorem appInv_rot {s s' : St S} (lk : LockInv s) (ai : AppInv s) (h : stepRot s = some s') : AppInv s' := by
  unfold stepRot at h
  split at h
  · -- SetRotating: the only status written is `rotating`
    cases h
    refine ⟨?_, ai.late0⟩
    intro t r w hr hw
    have hold := ai.opn t r w hr hw
    show ((setStatus s.wals s.cur .rotating).getD w {}).status ≠ .closed
    rcases status_setStatus s.wals s.cur .rotating w with h | h
    · rw [h]; simp
    · rw [h]; exact hold
  · split at h
    · -- pointer swap: a fresh object is appended
      cases h
      refine ⟨?_, ai.late0⟩
      intro t r w hr hw
      show ((s.wals ++ [({} : WalObj)]).getD w {}).status ≠ .closed
      rw [getD_append_empty]
      exact ai.opn t r w hr hw
    · cases h
  · split at h
    · -- Close(old): needs the mutex of `old`, which a thread inside Append on `old` would hold
      rename_i old _ hfree
      cases h
      refine ⟨?_, ai.late0⟩
      intro t r w hr hw
      have hwr := lk.w1 t r hr (holdsW_of_appIdx r w hw)
      have hne : w ≠ old := by
        intro e
        rw [e] at hw
        have hin := insideAppend_of_appIdx r old hw
        have hr' : s.th t = some r := hr
        simp [walMuFree, hwr, hr', hin] at hfree
      show ((setStatus s.wals old .closed).getD w {}).status ≠ .closed
      rw [status_setStatus_ne _ _ _ _ hne]
      exact ai.opn t r w hr hw
    · cases h

theorem appInv_step {cfg : Cfg} {s s' : St S} (a : Act) (lk : LockInv s) (ai : AppInv s)
    (h : stepAct cfg s a = some s') : AppInv s' := by
  cases a with
  | start t op =>
    simp only [stepAct] at h
    split at h
    · cases h
    · cases h
      exact appInv_set ai _ rfl (fun _ => rfl) rfl (by intro r' w e hw; cases e; simp [appIdx] at hw)
  | step t =>
    obtain ⟨r, hr, hs⟩ := stepThread_TStep (show stepThread cfg s t = some s' from h)
    exact appInv_thread ai hr hs
  | rot => exact appInv_rot lk ai (show stepRot s = some s' from h)
  | bg n =>
    simp only [stepAct] at h
    split at h
    · cases h
    · cases h
      exact ⟨ai.opn, ai.late0⟩

theorem appInv_reach (S : Store) (cfg : Cfg) (sched : List Act) (s : St S) (h : reach S cfg sched = some s) :
    AppInv s :=
  (reachFrom_induct (fun s => Inv S s ∧ LockInv s ∧ AppInv s)
    (fun _ _ a hp hs => ⟨inv_step a hp.1 hs, lockInv_step a hp.1 hp.2.1 hs, appInv_step a hp.2.1 hp.2.2 hs⟩)
    sched (init S) s ⟨inv_init S, lockInv_init S, appInv_init S⟩ h).2.2

/-- no append ever observes a closed log after buffering its record (the D19 window is closed) -/
theorem no_late (S : Store) (cfg : Cfg) (sched : List Act) (s : St S) (h : reach S cfg sched = some s) :
    s.late = 0 :=
  (appInv_reach S cfg sched s h).late0

/-- a write that returned an error left no record in any log file -/
theorem error_no_effect (S : Store) (cfg : Cfg) (sched : List Act) (s : St S) (h : reach S cfg sched = some s)
    (i : Nat) (hr : Ev.ret i COut.err ∈ hist s) :
    (∃ op, (i, op, COut.err) ∈ linlog s.tr) ∧ i ∉ allRecs s :=
  error_no_effect_partial S cfg sched s h (no_late S cfg sched s h) i hr

/-- a write that returned `ok` has exactly one record -/
theorem log_once (S : Store) (cfg : Cfg) (sched : List Act) (s : St S) (h : reach S cfg sched = some s)
    (i : Nat) (hr : Ev.ret i COut.ok ∈ hist s) : (allRecs s).count i = 1 :=
  log_once_partial S cfg sched s h (no_late S cfg sched s h) i hr

/-! ### non-vacuity -/

def cfgImm : Cfg := { syncImmediate := true }
def wput : COp := .put [1] [7]

/-- the flush goroutine marks the WAL Rotating between buffering and sync: the sync still succeeds -/
def schedRotInside : List Act :=
  [.start 0 wput, .step 0, .step 0, .step 0, .step 0,   -- lock, getWAL, status check (Active), buffer the record
   .rot,                                                 -- SetRotating
   .step 0,                                              -- syncLocked on a Rotating log: succeeds
   .step 0, .step 0, .step 0]                            -- memtable insert, unlock, return

/-- the WAL is Rotating before the put starts and stays so: three attempts, then an error; nothing was logged -/
def schedFail : List Act :=
  [.rot, .start 0 wput, .step 0,                         -- SetRotating; call; lock
   .step 0, .step 0, .step 0,                            -- attempt 0: getWAL, Rotating, retry
   .step 0, .step 0, .step 0,                            -- attempt 1
   .step 0, .step 0, .step 0,                            -- attempt 2: getWAL, Rotating, give up
   .step 0, .step 0]                                     -- unlock, return

theorem rotation_inside_append_ok : ∃ sched s, reach mapStore { syncImmediate := true } sched = some s ∧
    Ev.ret 0 COut.ok ∈ hist s ∧ (allRecs s).count 0 = 1 ∧ s.late = 0 := by
  have hs : (reach mapStore cfgImm schedRotInside).isSome = true := rfl
  refine ⟨schedRotInside, (reach mapStore cfgImm schedRotInside).get hs, (Option.some_get hs).symm, ?_, rfl, rfl⟩
  have hh : hist ((reach mapStore cfgImm schedRotInside).get hs) = [.call 0 wput, .ret 0 .ok] := rfl
  rw [hh]; exact List.mem_cons_of_mem _ List.mem_cons_self

theorem error_reachable_witness : ∃ sched s, reach mapStore { syncImmediate := true } sched = some s ∧
    Ev.ret 0 COut.err ∈ hist s ∧ allRecs s = [] := by
  have hs : (reach mapStore cfgImm schedFail).isSome = true := rfl
  refine ⟨schedFail, (reach mapStore cfgImm schedFail).get hs, (Option.some_get hs).symm, ?_, rfl⟩
  have hh : hist ((reach mapStore cfgImm schedFail).get hs) = [.call 0 wput, .ret 0 .err] := rfl
  rw [hh]; exact List.mem_cons_of_mem _ List.mem_cons_self

end Kevo.ConcStorage
