/-
  Kevo.Spec.Log — the abstract log: what a write-ahead log is supposed to be. A list of operations in
  append order; replay returns the list; reading from a sequence number filters it.
-/
import Kevo.Model.WalLog
namespace Kevo.Spec
open Kevo Kevo.Wal

/-- an operation submitted to the log -/
inductive LogOp where
  | append (op : Nat) (key val : Bytes)
  | batch (es : List (Nat × Bytes × Bytes))
  | rotate
  | reopen
  deriving Repr

/-- the entry as it is read back: a delete carries no value. -/
def norm (p : WalParams) (e : Entry) : Entry := if e.op = p.opDelete then { e with val := [] } else e

/-- abstract log state: the entries appended so far (append order) and the next sequence number. -/
structure ALog where
  entries : List Entry := []
  next : Nat := 1
  deriving Repr

/-- abstract semantics of one (successful) operation: an append adds one entry stamped `next`; a batch adds
    all its entries stamped with the one number `next`; both advance the counter by one. -/
def ALog.step (a : ALog) : LogOp → ALog
  | .append op k v => { entries := a.entries ++ [{ op, seq := a.next, key := k, val := v }], next := a.next + 1 }
  | .batch es =>
    if es.isEmpty then a
    else { entries := a.entries ++ es.map (fun (op, k, v) => { op, seq := a.next, key := k, val := v }), next := a.next + 1 }
  | .rotate => a
  | .reopen => a

def ALog.run (ops : List LogOp) : ALog := ops.foldl ALog.step {}

end Kevo.Spec
