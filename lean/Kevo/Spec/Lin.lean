/-
  Kevo.Spec.Lin — linearizability (Herlihy & Wing), stated once, independent of any model.

  A history is a list of call/return events. It is linearizable w.r.t. a sequential specification iff there is a
  sequence π of operations (all completed ones, plus any subset of the pending ones with freely chosen outputs),
  without repetition, that respects real-time precedence (`ret a` before `call b` in the history ⇒ a before b in π)
  and is legal for the specification.
-/
import Kevo.Spec.Map
namespace Kevo.Lin
open Kevo Kevo.Spec

/-- sequential specification as a transition relation (a relation, so that "may fail without effect" is expressible) -/
structure SeqSpec (Op Out : Type) where
  σ : Type
  init : σ
  step : σ → Op → Out → σ → Prop

/-- `legalTo S s l s'`: executing the operations of `l` in order from `s` can produce exactly the recorded outputs, ending in `s'` -/
def legalTo {Op Out : Type} (S : SeqSpec Op Out) : S.σ → List (Op × Out) → S.σ → Prop
  | s, [], s' => s = s'
  | s, (op, out) :: rest, s' => ∃ m, S.step s op out m ∧ legalTo S m rest s'

def legal {Op Out : Type} (S : SeqSpec Op Out) (l : List (Op × Out)) : Prop := ∃ s', legalTo S S.init l s'

inductive Ev (Op Out : Type) where
  | call (id : Nat) (op : Op)
  | ret (id : Nat) (out : Out)

/-- `x` occurs strictly before `y` in `l` -/
def Before {α : Type} (l : List α) (x y : α) : Prop := ∃ l1 l2 l3, l = l1 ++ x :: (l2 ++ y :: l3)

/-- the standard definition. π lists (id, operation, output). -/
def linearizable {Op Out : Type} (S : SeqSpec Op Out) (h : List (Ev Op Out)) : Prop :=
  ∃ π : List (Nat × Op × Out),
    (π.map (·.1)).Nodup ∧
    -- π ⊆ invoked operations (with the operation that was invoked)
    (∀ p ∈ π, Ev.call p.1 p.2.1 ∈ h) ∧
    -- completed operations ⊆ π (with the output that was returned)
    (∀ i out, Ev.ret i out ∈ h → ∃ op, (i, op, out) ∈ π) ∧
    -- real-time order
    (∀ pa pb oa, pa ∈ π → pb ∈ π → Before h (Ev.ret pa.1 oa) (Ev.call pb.1 pb.2.1) → Before π pa pb) ∧
    -- legal sequential execution
    legal S (π.map (·.2))

/-! ### the witness format used by the models: one trace with call / linearization-point / return events -/

inductive TEv (Op Out : Type) where
  | call (id : Nat) (op : Op)
  | lin (id : Nat) (op : Op) (out : Out)
  | ret (id : Nat) (out : Out)

def TEv.toEv {Op Out : Type} : TEv Op Out → Option (Ev Op Out)
  | .call i op => some (.call i op)
  | .ret i out => some (.ret i out)
  | .lin _ _ _ => none

def TEv.toLin {Op Out : Type} : TEv Op Out → Option (Nat × Op × Out)
  | .lin i op out => some (i, op, out)
  | _ => none

def TEv.callId {Op Out : Type} : TEv Op Out → Option Nat
  | .call i _ => some i
  | _ => none

/-- the client-visible history of a trace given NEWEST FIRST (the models cons events onto the trace) -/
def history {Op Out : Type} (rtr : List (TEv Op Out)) : List (Ev Op Out) := rtr.reverse.filterMap TEv.toEv

/-- the linearization log of a trace given newest first, in linearization order -/
def linlog {Op Out : Type} (rtr : List (TEv Op Out)) : List (Nat × Op × Out) := rtr.reverse.filterMap TEv.toLin

/-- well-formed witness trace (newest event first): an operation is called at most once, linearized at most once,
    its linearization point comes after its call (same operation) and before its return (same output). -/
def WF {Op Out : Type} : List (TEv Op Out) → Prop
  | [] => True
  | .call i _ :: rest => WF rest ∧ i ∉ rest.filterMap TEv.callId
  | .lin i op _ :: rest => WF rest ∧ TEv.call i op ∈ rest ∧ i ∉ (rest.filterMap TEv.toLin).map (·.1)
  | .ret i out :: rest => WF rest ∧ ∃ op, TEv.lin i op out ∈ rest

/-- the Map specification of the embedded key-value API with failing writes: a write either succeeds and takes
    effect, or reports an error and has no effect; a get returns the current binding. -/
inductive COp where
  | put (k v : Bytes)
  | del (k : Bytes)
  | get (k : Bytes)
  deriving Repr, DecidableEq

inductive COut where
  | ok
  | err
  | val (v : Option Bytes)
  deriving Repr, DecidableEq

def mapStep (s : KVMap) : COp → COut → KVMap → Prop
  | .put k v, .ok, s' => s' = s.set k (some v)
  | .put _ _, .err, s' => s' = s
  | .del k, .ok, s' => s' = s.set k none
  | .del _, .err, s' => s' = s
  | .get k, .val r, s' => r = s k ∧ s' = s
  | _, _, _ => False

def mapSpec : SeqSpec COp COut := { σ := KVMap, init := emptyMap, step := mapStep }

end Kevo.Lin
