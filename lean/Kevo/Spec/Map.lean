/-
  Kevo.Spec.Map — the abstract key-value map a client believes it is talking to.
-/
import Kevo.Base.Bytes
namespace Kevo.Spec

/-- client operations of the embedded API (maintenance operations are identities on the abstract state). -/
inductive Op where
  | put (k v : Bytes)
  | del (k : Bytes)
  | batch (ops : List (Bool × Bytes × Bytes))   -- (isDelete, key, value), applied in order, atomically
  | get (k : Bytes)
  | flush
  | reopen
  deriving Repr

abbrev KVMap := Bytes → Option Bytes

def KVMap.set (m : KVMap) (k : Bytes) (v : Option Bytes) : KVMap := fun x => if x = k then v else m x

def applyBatch (m : KVMap) (ops : List (Bool × Bytes × Bytes)) : KVMap :=
  ops.foldl (fun m (d, k, v) => m.set k (if d then none else some v)) m

/-- abstract step: new state and, for a get, the value read. -/
def mapStep (m : KVMap) : Op → KVMap × Option (Option Bytes)
  | .put k v => (m.set k (some v), none)
  | .del k => (m.set k none, none)
  | .batch ops => (applyBatch m ops, none)
  | .get k => (m, some (m k))
  | .flush => (m, none)
  | .reopen => (m, none)

/-- the outputs of all gets of a program, in order: last preceding write wins, delete ⇒ none. -/
def mapOutputs : KVMap → List Op → List (Option Bytes)
  | _, [] => []
  | m, o :: rest =>
    let (m', out) := mapStep m o
    match out with
    | some r => r :: mapOutputs m' rest
    | none => mapOutputs m' rest

def emptyMap : KVMap := fun _ => none

end Kevo.Spec
