/-
  C10 — Log damage is contained: exact prefix recovered, nothing fabricated.

  Proved here: the truncation clause at full strength (`replay_truncated`: every cut offset, every entry mix incl.
  fragmented entries and batches) and the "everything before the first damaged byte is recovered" clause
  (`replay_agrees_before_damage`). The "never returns an operation that was not appended" clause for CORRUPTED
  bytes depends on CRC-32 detecting the damage and on the resynchronisation policy of the reader (blind 32 KB skip,
  stale fragments): kept as an open statement, see DESIGN.md (known finding KF-C10-resync).
  Tie: component `walfault` (every truncation offset and single-byte corruption of small logs: replay output and
  engine open compared with Kevo.Model.Wal on the same bytes) + component `crash` (torn tails produced by process death).
-/
import Kevo.Proofs.Crash
import Kevo.Gen.Consts
namespace Kevo.Props.C10
open Kevo Kevo.Wal Kevo.Spec Kevo.Proofs.Crash

theorem replay_truncated (p : WalParams) (hp : p.WF) (crc : Bytes → Nat) (hcrc : ∀ bs, crc bs < 2 ^ 32)
    (es : List Entry) (hes : ∀ e ∈ es, EntryWF p e) (n : Nat) :
    let r := replayFile p crc ((es.flatMap (encodeEntry p crc)).take n)
    r.entries = (wholeBefore p crc n es).map (norm p) ∧ r.outcome = .ok ∧ r.skipped = 0 :=
  Kevo.Proofs.Crash.replay_truncated p hp crc hcrc es hes n

theorem replay_agrees_before_damage (p : WalParams) (hp : p.WF) (crc : Bytes → Nat) (hcrc : ∀ bs, crc bs < 2 ^ 32)
    (es : List Entry) (hes : ∀ e ∈ es, EntryWF p e) (n : Nat) (junk : Bytes) :
    ((wholeBefore p crc n es).map (norm p)) <+: (replayFile p crc ((es.flatMap (encodeEntry p crc)).take n ++ junk)).entries :=
  Kevo.Proofs.Crash.replay_agrees_before_damage p hp crc hcrc es hes n junk

/-- full statement of the no-fabrication clause (open: depends on checksum strength and the resync policy). -/
def no_fabrication_statement : Prop :=
  ∀ (p : WalParams) (crc : Bytes → Nat) (es : List Entry) (bs : Bytes),
    p.WF → (∀ e ∈ es, EntryWF p e) → bs.length = (es.flatMap (encodeEntry p crc)).length →
    ∀ e ∈ (replayFile p crc bs).entries, e ∈ es.map (norm p)

example : wholeBefore Kevo.Gen.walParams (fun _ => 0) 30 [{ op := 1, seq := 1, key := [1], val := [2] }, { op := 2, seq := 2, key := [3], val := [] }]
    = [{ op := 1, seq := 1, key := [1], val := [2] }] := by decide

end Kevo.Props.C10
