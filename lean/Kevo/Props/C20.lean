/-
  C20 — Configuration is validated and persists with the database.

  Objects (Kevo.Model.Config):
    `validate`   = Kevo.Gen.Config.validate, TRANSLATED from `Config.Validate` by kvfacts on every run
                   (index of the first guard that fires, none = valid);
    `Valid`      = every documented constraint (hand-written, one per error message);
    `save`       = Config.SaveManifest, `load` = config.LoadConfigFromManifest, `openConfig` = the load-or-create
                   decision of engine.NewEngineFacade; `J : Codec Doc` = encoding/json, abstract, with the ASSUMED
                   laws `J.Laws` (round trip for `Encodable` configurations; no proper prefix of an encoded
                   configuration decodes).
  Tie to the code: the translator output itself (`validate_iff` is re-proved against it), the shape facts
  `facts:config.*` (call order of SaveManifest / LoadConfigFromManifest / NewEngineFacade, defaults, JSON tags), and
  the differential component `config` (real Validate / SaveManifest / LoadConfigFromManifest / NewEngineFacade
  against this model, including every truncation of stored manifests).
-/
import Kevo.Model.Config
import Kevo.Proofs.Config
namespace Kevo.Props.C20
open Kevo.GoVal Kevo.Gen.Config Kevo.Config

variable {Doc : Type}

/-- (1) THE TIE. The guard chain of the Go source accepts exactly the configurations that satisfy every documented
    constraint. Re-checked against the regenerated function on every run. -/
theorem validate_iff (c : Cfg) : validate c = none ↔ Valid c :=
  Kevo.Proofs.Config.validate_iff c

/-- `Valid` spelled out (so that the statement above can be read without the `Constraint` table). -/
theorem valid_unfold (c : Cfg) : Valid c ↔
    (0 < c.Version ∧ c.WALDir ≠ [] ∧ c.SSTDir ≠ [] ∧ 0 < c.MemTableSize ∧ 0 < c.MaxMemTables ∧
     0 < c.SSTableBlockSize ∧ 0 < c.SSTableIndexSize ∧ 0 < c.CompactionLevels ∧
     GreaterThanOne c.CompactionRatio ∧ Finite c.CompactionRatio ∧
     0 < c.ReadOnlyTxTTL ∧ 0 < c.ReadWriteTxTTL ∧ 0 < c.IdleTxTimeout ∧ 0 < c.TxCleanupInterval ∧
     (1 ≤ c.TxWarningThreshold ∧ c.TxWarningThreshold ≤ 99) ∧
     (c.TxWarningThreshold < c.TxCriticalThreshold ∧ c.TxCriticalThreshold ≤ 99) ∧
     (ValidUTF8 c.WALDir ∧ ValidUTF8 c.SSTDir)) :=
  Kevo.Proofs.Config.valid_iff_conj c

/-- the error reported names a constraint that is really violated; there is one message per constraint. -/
theorem validate_error_sound (c : Cfg) (k : Nat) (h : validate c = some k) :
    k < numConstraints ∧ ¬ Constraint c k :=
  Kevo.Proofs.Config.validate_some_sound c k h

theorem messages_cover_constraints : guardTexts.length = numConstraints ∧ guardConds.length = numConstraints ∧
    ∀ e ∈ guardErrs, e = "ErrInvalidConfig" := by decide

/-- (2) a configuration violating a documented constraint is rejected before anything is written: the result is the
    error of a violated constraint, the directory is unchanged, and it was never anything else during the call. -/
theorem save_rejects_invalid (J : Codec Doc) (c : Cfg) (d : Dir Doc) (h : ¬ Valid c) :
    ∃ k, k < numConstraints ∧ ¬ Constraint c k ∧ save J c d = (some (.invalid k), d) ∧ saveTrace J c d = [d] :=
  Kevo.Proofs.Config.save_rejects_invalid J c d h

/-- (3) every valid, encodable configuration is stored and loads back unchanged, whatever was in the directory.
    Assumptions, by name: `hJ` (encoding/json round trip), `he : Encodable c` (strings valid UTF-8, float finite,
    integers in range — necessary, see `save_load_id_needs_encodable`), `hio` (the manifest path is not occupied by
    something unreadable; no other I/O error is modelled). -/
theorem save_load_id (J : Codec Doc) (hJ : J.Laws) (c : Cfg) (d : Dir Doc) (hv : Valid c) (he : Encodable c)
    (hio : d.manifest ≠ .unreadable) :
    ∃ d', save J c d = (none, d') ∧ load J d' = .ok c ∧ d'.tmp = none ∧ d'.present = true :=
  Kevo.Proofs.Config.save_load_id J hJ c d hv he hio

/-- (3, FULL STRENGTH since the repair of KF-C20-utf8) EVERY configuration that passes validation is stored and loads back
    unchanged: `Encodable` follows from `Valid` (directory paths are valid UTF-8 — constraint 16 —, the ratio is finite)
    plus `representable` (every integer is a value of its Go type: true of every `config.Config` a Go program can hold). -/
theorem save_load_id_valid (J : Codec Doc) (hJ : J.Laws) (c : Cfg) (d : Dir Doc) (hv : Valid c) (hr : representable c)
    (hio : d.manifest ≠ .unreadable) :
    ∃ d', save J c d = (none, d') ∧ load J d' = .ok c ∧ d'.tmp = none ∧ d'.present = true :=
  Kevo.Proofs.Config.save_load_id J hJ c d hv (Kevo.Proofs.Config.valid_encodable c hv hr) hio

theorem valid_encodable (c : Cfg) (hv : Valid c) (hr : representable c) : Encodable c :=
  Kevo.Proofs.Config.valid_encodable c hv hr

/-- (4) whatever is loaded satisfies every documented constraint. -/
theorem load_validates (J : Codec Doc) (d : Dir Doc) (c : Cfg) (h : load J d = .ok c) : Valid c :=
  Kevo.Proofs.Config.load_validates J d c h

/-- (5) a database is opened with the configuration stored in it — never with the defaults in force. -/
theorem open_uses_stored (J : Codec Doc) (dflt : Cfg) (d : Dir Doc) (c : Cfg) (h : load J d = .ok c) :
    openConfig J dflt d = .ok (c, { d with present := true }) :=
  Kevo.Proofs.Config.open_uses_stored J dflt d c h

/-- (5') created with `c` ⇒ reopened with `c`: after a successful save, every later open (under any defaults)
    returns exactly `c` and leaves the directory alone. -/
theorem reopen_same (J : Codec Doc) (hJ : J.Laws) (c : Cfg) (d d' : Dir Doc) (he : Encodable c)
    (hs : save J c d = (none, d')) (dflt : Cfg) : openConfig J dflt d' = .ok (c, d') :=
  Kevo.Proofs.Config.reopen_same J hJ c d d' he hs dflt

/-- (5'') "always reopened with the configuration it was created with": whatever the first open decided (stored or
    freshly created defaults), every later open decides the same, even if the built-in defaults have changed. -/
theorem open_stable (J : Codec Doc) (hJ : J.Laws) (dflt : Cfg) (d d' : Dir Doc) (c : Cfg)
    (ho : openConfig J dflt d = .ok (c, d')) (he : Encodable c) (dflt' : Cfg) :
    openConfig J dflt' d' = .ok (c, d') :=
  Kevo.Proofs.Config.open_stable J hJ dflt d d' c ho he dflt'

/-- (6) manifest present and unreadable / undecodable / invalid ⇒ opening fails with the load error; it never
    falls back to the defaults. -/
theorem open_fails_on_bad_manifest (J : Codec Doc) (dflt : Cfg) (d : Dir Doc)
    (hbad : d.manifest = .unreadable ∨
            ∃ b, d.manifest = .data b ∧ (J.decode b = none ∨ ∃ c, J.decode b = some c ∧ ¬ Valid c)) :
    ∃ e, e ≠ .notFound ∧ load J d = .error e ∧ openConfig J dflt d = .error (.load e) :=
  Kevo.Proofs.Config.open_fails_on_bad_manifest J dflt d hbad

/-- (6') the default branch is reachable only from "no manifest". -/
theorem open_default_only_when_absent (J : Codec Doc) (dflt : Cfg) (d d' : Dir Doc) (c : Cfg)
    (ho : openConfig J dflt d = .ok (c, d')) :
    load J d = .ok c ∨ (d.manifest = .absent ∧ c = dflt ∧ Valid dflt) :=
  Kevo.Proofs.Config.open_default_only_when_absent J dflt d d' c ho

/-- (7) under the JSON assumption "a proper prefix of an encoded configuration does not decode": EVERY truncation
    of a saved manifest makes load and open fail (with ErrInvalidManifest) — never a silent start with defaults. -/
theorem truncation_never_silent (J : Codec Doc) (hJ : J.Laws) (c : Cfg) (d d' : Dir Doc)
    (hs : save J c d = (none, d')) :
    ∃ b, d'.manifest = .data b ∧ ∀ n, n < J.size b → ∀ dflt,
      load J { d' with manifest := .data (J.trunc b n) } = .error .invalidManifest ∧
      openConfig J dflt { d' with manifest := .data (J.trunc b n) } = .error (.load .invalidManifest) :=
  Kevo.Proofs.Config.truncation_never_silent J hJ c d d' hs

/-- (8) temp file + rename: at every moment of a save the manifest is the old one or the complete new one, so a
    process death during SaveManifest leaves a directory that loads as before or loads the new configuration. -/
theorem crash_during_save (J : Codec Doc) (hJ : J.Laws) (c : Cfg) (d : Dir Doc) (he : Encodable c) :
    (saveTrace J c d).getLast? = some (save J c d).2 ∧
    ∀ s ∈ saveTrace J c d, load J s = load J d ∨ load J s = .ok c :=
  ⟨Kevo.Proofs.Config.saveTrace_last J c d, Kevo.Proofs.Config.crash_during_save J hJ c d he⟩

/-- (9) the built-in defaults (regenerated from NewDefaultConfig) are valid for every database path. -/
theorem default_valid (sub : String → GoStr) (h : ∀ s, sub s ≠ []) (hu : ∀ s, ValidUTF8 (sub s)) :
    Valid (defaults sub) :=
  Kevo.Proofs.Config.default_valid sub h hu

/-! ### non-vacuity and necessity of the hypotheses -/

/-- the assumed laws are satisfiable (by the stand-in codec the model driver runs) -/
theorem laws_consistent : goCodec.Laws := Kevo.Proofs.Config.goCodec_laws

/-- a concrete valid + encodable configuration: the defaults under the path "w" -/
def sampleCfg : Cfg := defaults (fun _ => [0x77])

theorem sample_valid_encodable : Valid sampleCfg ∧ Encodable sampleCfg := by
  refine ⟨default_valid _ (by intro _; simp) (by intro _; decide), ?_, ?_, ?_⟩
  · intro s hs
    simp [sampleCfg, defaults, zero, strings] at hs
    subst hs
    decide
  · intro r hr
    simp [sampleCfg, defaults, zero, ratios] at hr
    subst hr
    trivial
  · simp [sampleCfg, defaults, zero, representable]

/-- the hypotheses of (3), (5'), (7) hold together for the sample, and their conclusions are reached -/
example : ∃ d', save goCodec sampleCfg {} = (none, d') ∧ load goCodec d' = .ok sampleCfg :=
  let ⟨d', h1, h2, _⟩ := save_load_id goCodec laws_consistent sampleCfg {} sample_valid_encodable.1
    sample_valid_encodable.2 (by simp)
  ⟨d', h1, h2⟩

/-- (6) is not vacuous: a directory whose manifest is unreadable -/
example : ∃ e, e ≠ .notFound ∧ openConfig goCodec sampleCfg { manifest := .unreadable } = .error (.load e) :=
  let ⟨e, h1, _, h3⟩ := open_fails_on_bad_manifest goCodec sampleCfg { manifest := .unreadable } (Or.inl rfl)
  ⟨e, h1, h3⟩

/-- (2) is not vacuous: the zero configuration is invalid -/
example : ¬ Valid zero := fun h => absurd (h 0 (by decide)) (by simp [Constraint, zero])

/-- HISTORY (KF-C20-utf8, repaired): before the repair a directory name that is not valid UTF-8 passed every constraint, was
    stored without error and loaded back as a DIFFERENT configuration (each offending byte replaced by U+FFFD). The
    configuration below is that witness; `Validate` now rejects it (constraint 16), so `save` writes nothing — while the
    codec would still rewrite it if it were let through (the hazard is real, the guard is what removes it). -/
def badUtf8Cfg : Cfg := { sampleCfg with WALDir := [0x77, 0xff] }

theorem bad_utf8_rejected :
    ¬ Valid badUtf8Cfg ∧ validate badUtf8Cfg = some 16 ∧
    (∀ d : Dir GoDoc, (save goCodec badUtf8Cfg d).2 = d) ∧
    (mapStrings sanitize badUtf8Cfg).WALDir = [0x77, 0xef, 0xbf, 0xbd] := by
  have hval : validate badUtf8Cfg = some 16 := by
    simp [validate, guards, badUtf8Cfg, sampleCfg, defaults, zero, firstTrue, Ratio.le, Ratio.isNaN, Ratio.isInf]
    decide
  refine ⟨?_, hval, ?_, ?_⟩
  · intro hv
    have := (validate_iff _).2 hv
    rw [hval] at this
    cases this
  · intro d
    simp [save, hval]
  · simp [mapStrings, badUtf8Cfg]
    decide

end Kevo.Props.C20
