/-
  C08 — Write sequence numbers strictly increase for the life of the database.
  Model/spec/tie as for C01 (component `engine` compares `storage_last_sequence` and the WAL counter after every
  write and the numbers stored in the log and in the tables after every program).
-/
import Kevo.Proofs.Engine
import Kevo.Proofs.Retention
namespace Kevo.Props.C08
open Kevo Kevo.Engine Kevo.Spec Kevo.Proofs.Engine

theorem seq_strictly_increasing (cfg : Cfg) (hcfg : 0 < cfg.memTableSize) (ops : List Op) :
    (stamps (init cfg) ops).Pairwise (· < ·) :=
  Kevo.Proofs.Engine.seq_strictly_increasing cfg hcfg ops

theorem log_order_is_seq_order (cfg : Cfg) (hcfg : 0 < cfg.memTableSize) (ops : List Op) :
    let s := engRun (init cfg) ops
    (s.wal.flatten.map (·.seq)).Pairwise (· ≤ ·) ∧ (∀ n ∈ allSeqs s, n < s.walNext) ∧ s.lastSeq < s.walNext :=
  Kevo.Proofs.Engine.log_order_is_seq_order cfg hcfg ops

theorem last_seq_monotone (cfg : Cfg) (hcfg : 0 < cfg.memTableSize) (ops : List Op) (o : Op) :
    (engRun (init cfg) ops).lastSeq ≤ (engRun (init cfg) (ops ++ [o])).lastSeq ∧
    (engRun (init cfg) ops).walNext ≤ (engRun (init cfg) (ops ++ [o])).walNext :=
  Kevo.Proofs.Engine.last_seq_monotone cfg hcfg ops o

example : stamps (init { memTableSize := 30 }) [.put [1] [1], .batch [(false, [2], [2]), (true, [1], [])], .flush, .reopen, .del [3]]
    = [1, 2, 3] := by decide

/-- the configuration in which the newest log file is never reused (`freshLog`: cfg.WALMaxSize reached, wal.ReuseWAL returns
    nil, the storage manager starts a new file at every open) is inside the theorems above — they hold for every `cfg`; here
    the restart really starts a second file and the numbers continue -/
example : (engRun (init { memTableSize := 1000, freshLog := true }) [.put [1] [1], .reopen, .put [2] [2]]).wal.map (·.map (·.seq))
    = [[1], [2]] := by decide
example : stamps (init { memTableSize := 30, freshLog := true }) [.put [1] [1], .reopen, .put [2] [2], .reopen, .reopen, .del [1]]
    = [1, 2, 3] := by decide

/-! ### log retention (pkg/wal/retention.go, driven by replica acknowledgements) and the counter

  The counter is restored at start-up from the greatest number found in the log directory. `WAL.ManageRetention` deletes
  closed log files; component `walret` compares the real function with `Kevo.Model.Retention` (files deleted, bytes left,
  replay) and then restarts and writes again. -/

/-- the sequence rule alone (count and age rules off) never deletes the file that holds the greatest number, as long as
    `MinSequenceKeep` does not exceed it (an acknowledged number is a written number): the greatest number in the directory
    — hence the counter restored by a restart — is the same before and after retention. This discharges, for this rule, the
    hypothesis of the restart theorems that the newest non-empty log file has not been retired. -/
theorem retention_keeps_max (cfg : Kevo.Retention.Cfg) (hc : cfg.maxFileCount = 0) (ha : cfg.maxAge = 0)
    (files : List (List Nat)) (ages : List Nat)
    (hM : cfg.minSeqKeep ≤ Kevo.Proofs.Retention.maxOf files.flatten) :
    Kevo.Proofs.Retention.maxOf (Kevo.Retention.retainL cfg files ages).flatten =
      Kevo.Proofs.Retention.maxOf files.flatten :=
  Kevo.Proofs.Retention.retain_keeps_max cfg hc ha files ages hM

/-- what the sequence rule deletes: only files with readable entries whose GREATEST number is below `MinSequenceKeep` -/
theorem retention_seq_rule_only (cfg : Kevo.Retention.Cfg) (hc : cfg.maxFileCount = 0) (ha : cfg.maxAge = 0)
    (infos : List Kevo.Retention.Info) (i : Nat) (x : Kevo.Retention.Info)
    (h : Kevo.Retention.deleted cfg infos i x = true) : ∃ lo hi, x.bounds = some (lo, hi) ∧ hi < cfg.minSeqKeep :=
  Kevo.Proofs.Retention.seq_rule_only cfg hc ha infos i x h

/-- REPORTED (not repaired, outside the claimed envelope): the AGE rule — `Primary.maybeManageWALRetention` passes 24 h
    together with the sequence rule — can delete the only file that holds the greatest number while the current file is
    empty (right after a flush, more than a day without writes): after a restart the numbering starts at 1 again. -/
theorem age_rule_can_lose_max_witness :
    let cfg : Kevo.Retention.Cfg := { maxAge := 24, minSeqKeep := 5 }
    Kevo.Retention.retainL cfg [[1, 2, 3, 4, 5], []] [25] = [[]] ∧
    Kevo.Proofs.Retention.maxOf ([[1, 2, 3, 4, 5], []] : List (List Nat)).flatten = 5 ∧
    Kevo.Proofs.Retention.maxOf (Kevo.Retention.retainL cfg [[1, 2, 3, 4, 5], []] [25]).flatten = 0 :=
  Kevo.Proofs.Retention.age_rule_can_lose_max_witness

/-- non-vacuity: the replica acknowledged 5 = the greatest number; the closed file survives although every number in it is
    acknowledged -/
example : Kevo.Retention.retainL { minSeqKeep := 5 } [[1, 2, 3, 4, 5], []] [1] = [[1, 2, 3, 4, 5], []] := by decide

end Kevo.Props.C08
