/-
  C08 — Write sequence numbers strictly increase for the life of the database.
  Model/spec/tie as for C01 (component `engine` compares `storage_last_sequence` and the WAL counter after every
  write and the numbers stored in the log and in the tables after every program).
-/
import Kevo.Proofs.Engine
namespace Kevo.Props.C08
open Kevo Kevo.Engine Kevo.Spec Kevo.Proofs.Engine

theorem seq_strictly_increasing (cfg : Cfg) (hcfg : 0 < cfg.memTableSize) (ops : List Op) :
    (stamps (init cfg) ops).Pairwise (· < ·) :=
  Kevo.Proofs.Engine.seq_strictly_increasing cfg hcfg ops

theorem log_order_is_seq_order (cfg : Cfg) (hcfg : 0 < cfg.memTableSize) (ops : List Op) :
    let s := engRun (init cfg) ops
    (s.wal.flatten.map (·.seq)).Pairwise (· ≤ ·) ∧ (∀ n ∈ allSeqs s, n < s.walNext) ∧ s.lastSeq < s.walNext :=
  Kevo.Proofs.Engine.log_order_is_seq_order cfg hcfg ops

theorem last_seq_monotone (cfg : Cfg) (hcfg : 0 < cfg.memTableSize) (ops : List Op) (o : Op) :
    (engRun (init cfg) ops).lastSeq ≤ (engRun (init cfg) (ops ++ [o])).lastSeq ∧
    (engRun (init cfg) ops).walNext ≤ (engRun (init cfg) (ops ++ [o])).walNext :=
  Kevo.Proofs.Engine.last_seq_monotone cfg hcfg ops o

example : stamps (init { memTableSize := 30 }) [.put [1] [1], .batch [(false, [2], [2]), (true, [1], [])], .flush, .reopen, .del [3]]
    = [1, 2, 3] := by decide

end Kevo.Props.C08
