/-
  C05 — Scans return exactly the live keys, once, in order, within bounds.

  Model: Kevo.Model.Merge — cursors as (state, operation table): memtable/sstable adapters and the transaction's
  buffer iterator (`srcOps`), composite.HierarchicalIterator (`hierOps`), bounded.BoundedIterator (`boundedOps`),
  filtered.FilteredIterator (`filteredOps`; prefix, suffix, their nesting), the iterators a transaction hands out
  (`txOps`, `txRangeOps`: buffer first), the service's choice of iterator per option combination (`serviceWrap`) and
  its consumer loop (`consume`), all as coded. Spec: `mergeSpec` (every key once, ascending, newest value),
  `serviceSpec`, and the abstract map of Kevo.Spec.Map for the engine-level statements.
  Tie: differential components `iter` (every cursor call on real memtables / SSTables / transactions / the real
  service) and `engine` (range scans after random programs), facts `iter.*` (source order, comparison operators).

  Proof layers: Kevo.Proofs.Merge (cursor compositions ↦ list functions, for ANY children), Kevo.Proofs.MergeSpec
  (list functions ↦ specification), Kevo.Proofs.Scan (storage iterator, bounds, filters, service),
  Kevo.Proofs.MergeEngine + ScanEngine (composition with C01's invariant along every program).

  SeekToLast under an end bound follows the repaired code (8151b8c): bounded_last_spec holds at full strength.
  The concurrent clause of C05 is represented only by hier_strictly_ascending (any source contents).
-/
import Kevo.Proofs.ScanEngine
import Kevo.Proofs.BoundedLast
namespace Kevo.Props.C05
open Kevo Kevo.Engine Kevo.Spec Kevo.Merge Kevo.Proofs.Engine Kevo.Proofs.Merge


/-- the key selection of a service scan: filters if a prefix or suffix is given, else the range -/
def scanSel (o : ScanOpts) : Bytes → Bool :=
  if !o.pre.isEmpty || !o.suf.isEmpty then fun k => hasPrefix k o.pre && hasSuffix k o.suf
  else inRange (optB o.start) (optB o.stop)

/-! ### (a) full iteration = newest-wins merge -/

theorem hier_collect (srcs : List (List KV)) (hok : SourcesOK srcs) (n : Nat) (hn : total srcs < n) :
    Hier.collect n (mkHier srcs).first = mergeSpec srcs :=
  hier_collect_wrapper srcs hok n hn

/-- what `mergeSpec` means: keys strictly ascending (each once), and the entry of a key is its first entry in the
    first (newest) source that has it -/
theorem mergeSpec_meaning (srcs : List (List KV)) :
    Asc (mergeSpec srcs) ∧ ∀ e, e ∈ mergeSpec srcs ↔ newest srcs e.1 = some e := by
  refine ⟨mergeSpec_asc srcs, fun e => ?_⟩
  rw [mem_iff_lookup (mergeSpec_asc srcs), lookup_mergeSpec]

/-! ### (b) robustness: ANY source contents (unsorted, duplicated, adversarial), any fuel -/

theorem hier_strictly_ascending (srcs : List (List KV)) (n : Nat) : Asc (Hier.collect n (mkHier srcs).first) :=
  hier_ascending_wrapper srcs n

theorem hier_seek_strictly_ascending (srcs : List (List KV)) (fuel n : Nat) (h : Hier) (hO : h.srcs.map (·.es) = srcs)
    (t : Bytes) (hf : total srcs ≤ fuel) : Asc (collect (storageOps fuel) n ((storageOps fuel).seek h t).1) :=
  storage_seek_ascending srcs fuel n h hO t hf

/-- the same for ANY kind of children (cursors that emit arbitrary lists): the emitted list is `mergeRun`, which is
    strictly ascending whatever the lists are -/
theorem hier_any_children_ascending {σ : Type} (O : Ops σ) (fuel n : Nat) (h : HierG σ) (Ls : List (List KV))
    (hall : EmitsAll O (h.srcs.map O.first) Ls) (hn : total Ls < n) (hfuel : ∀ L ∈ Ls, L.length ≤ fuel) :
    ∃ out, Emits (hierOps O fuel) ((hierOps O fuel).first h) out ∧ Asc out :=
  ⟨_, hier_first_emits O fuel n h Ls hall hn hfuel, mergeRun_asc n Ls⟩

/-! ### (c) Seek and SeekToLast -/

/-- Seek(t), from any position: reports whether a merged key ≥ t exists, lands on the smallest such key with its
    newest value, and the iteration continues with exactly the merged entries ≥ t -/
theorem hier_seek_spec (srcs : List (List KV)) (hok : SourcesOK srcs) (fuel n : Nat) (h : Hier)
    (hO : h.srcs.map (·.es) = srcs) (t : Bytes) (hf : total srcs ≤ fuel) (hn : total srcs < n) :
    let r := (storageOps fuel).seek h t
    let want := (mergeSpec srcs).filter (fun e => !ltB e.1 t)
    r.2 = !want.isEmpty ∧ (if r.1.valid then some (r.1.key, r.1.val) else none) = want.head? ∧
    collect (storageOps fuel) n r.1 = want := by
  intro r want
  have he : Emits (storageOps fuel) r.1 want := storage_seek_collect srcs hok fuel n h hO t hf hn
  have hret : r.2 = (storageOps fuel).valid r.1 := (storage_seek_emits srcs fuel n h hO t hf hn).2
  refine ⟨by rw [hret]; exact emits_valid_iff he, ?_, ?_⟩
  · have := emits_head he
    cases hv : r.1.valid with
    | false =>
      have hv' : (storageOps fuel).valid r.1 = false := hv
      rw [hv'] at this
      simpa using this
    | true =>
      have hv' : (storageOps fuel).valid r.1 = true := hv
      rw [hv'] at this
      rw [← this]
      simp [storageOps, hierOps, Ops.k, hv]
  · apply collect_emits _ _ n he
    have := length_mergeSpec_le hok
    have := List.length_filter_le (fun e : KV => !ltB e.1 t) (mergeSpec srcs)
    show ((mergeSpec srcs).filter (fun e : KV => !ltB e.1 t)).length ≤ n
    omega

theorem hier_last_spec (srcs : List (List KV)) (hok : SourcesOK srcs) (fuel : Nat) :
    let h' := (storageOps fuel).last (mkHier srcs)
    (if h'.valid then some (h'.key, h'.val) else none) = (mergeSpec srcs).getLast? :=
  storage_last srcs hok fuel (mkHier srcs) (mkHier_over srcs) (by intro s hs; simp [mkHier] at hs; obtain ⟨_, _, rfl⟩ := hs; rfl)

/-! ### (d) bounds -/

theorem bounded_spec (srcs : List (List KV)) (hok : SourcesOK srcs) (lo hi : Option Bytes) (n : Nat) (hn : total srcs < n) :
    Bounded.collect n ({ h := mkHier srcs, lo := lo, hi := hi } : Bounded).first =
      (mergeSpec srcs).filter (fun e => inRange lo hi e.1) :=
  bounded_collect_wrapper srcs hok lo hi n hn

/-- Seek(t) of the range iterator, from any position: true iff some merged key ≥ t lies in [lo,hi); then the iteration
    continues with exactly those entries -/
theorem bounded_seek_spec (srcs : List (List KV)) (hok : SourcesOK srcs) (lo hi : Option Bytes) (fuel n : Nat) (h : Hier)
    (hO : h.srcs.map (·.es) = srcs) (t : Bytes) (hf : total srcs ≤ fuel) (hn : total srcs < n) :
    let r := (bOps lo hi fuel).seek h t
    let want := (mergeSpec srcs).filter (fun e => inRange lo hi e.1 && !ltB e.1 t)
    r.2 = !want.isEmpty ∧ (r.2 = true → collect (bOps lo hi fuel) n r.1 = want) := by
  intro r want
  have hb := bounded_seek srcs hok lo hi fuel n h hO t hf hn
  refine ⟨hb.1, fun hr => ?_⟩
  apply collect_emits _ _ n (hb.2 hr)
  have := length_mergeSpec_le hok
  have := List.length_filter_le (fun e : KV => inRange lo hi e.1 && !ltB e.1 t) (mergeSpec srcs)
  show ((mergeSpec srcs).filter (fun e : KV => inRange lo hi e.1 && !ltB e.1 t)).length ≤ n
  omega

/-- SeekToLast of the range iterator, all bounds (the end bound need not be a stored key): the greatest merged key
    in [lo,hi) with its newest value, invalid iff the range holds no merged key. Keys are non-empty (as everywhere in
    the engine; the coded walk keeps `lastKey` nil after appending an empty key).
    History: before repair 8151b8c the code called Seek(end) and walked back only when the key found equalled `end`;
    this statement was then false (one stored key 01, end 02: invalid) and was kept as an open `bounded_last_statement`
    with a partial theorem and a `decide` witness. -/
theorem bounded_last_spec (srcs : List (List KV)) (hok : SourcesOK srcs) (hne : ∀ x ∈ mergeSpec srcs, x.1 ≠ [])
    (lo hi : Option Bytes) :
    (if (bOps lo hi (total srcs + 2)).valid ((bOps lo hi (total srcs + 2)).last (mkHier srcs))
      then some ((bOps lo hi (total srcs + 2)).k ((bOps lo hi (total srcs + 2)).last (mkHier srcs)),
                 (bOps lo hi (total srcs + 2)).val ((bOps lo hi (total srcs + 2)).last (mkHier srcs)))
      else none) = ((mergeSpec srcs).filter (fun e => inRange lo hi e.1)).getLast? :=
  bounded_last_full srcs hok hne lo hi (total srcs + 2) (mkHier srcs) (mkHier_over srcs)
    (by intro s hs; simp [mkHier] at hs; obtain ⟨_, _, rfl⟩ := hs; rfl) (by omega)

/-- the case that failed before the repair, on the model: one stored key 01, end bound 02 -/
example : (bOps none (some [2]) 3).valid ((bOps none (some [2]) 3).last (mkHier [[([1], some [1])]])) = true := by decide

/-! ### (e) filters, limit, and the service's option combinations -/

theorem prefix_spec (srcs : List (List KV)) (hok : SourcesOK srcs) (p : Bytes) (fuel n : Nat)
    (hf : total srcs + 1 ≤ fuel) (hn : total srcs < n) :
    collect (prefixOps (storageOps fuel) p fuel) n ((prefixOps (storageOps fuel) p fuel).first (mkHier srcs)) =
      (mergeSpec srcs).filter (fun e => hasPrefix e.1 p) := by
  apply collect_emits _ _ n (storage_filtered srcs hok (fun k => hasPrefix k p) fuel n (mkHier srcs) (mkHier_over srcs) hf hn)
  have := length_mergeSpec_le hok
  have := List.length_filter_le (fun e : KV => hasPrefix e.1 p) (mergeSpec srcs)
  omega

theorem suffix_spec (srcs : List (List KV)) (hok : SourcesOK srcs) (s : Bytes) (fuel n : Nat)
    (hf : total srcs + 1 ≤ fuel) (hn : total srcs < n) :
    collect (suffixOps (storageOps fuel) s fuel) n ((suffixOps (storageOps fuel) s fuel).first (mkHier srcs)) =
      (mergeSpec srcs).filter (fun e => hasSuffix e.1 s) := by
  apply collect_emits _ _ n (storage_filtered srcs hok (fun k => hasSuffix k s) fuel n (mkHier srcs) (mkHier_over srcs) hf hn)
  have := length_mergeSpec_le hok
  have := List.length_filter_le (fun e : KV => hasSuffix e.1 s) (mergeSpec srcs)
  omega

/-- the nesting the service builds: Suffix(Prefix(base)) -/
theorem prefix_suffix_spec (srcs : List (List KV)) (hok : SourcesOK srcs) (p s : Bytes) (fuel n : Nat)
    (hf : total srcs + 1 ≤ fuel) (hn : total srcs < n) :
    collect (suffixOps (prefixOps (storageOps fuel) p fuel) s fuel) n
        ((suffixOps (prefixOps (storageOps fuel) p fuel) s fuel).first (mkHier srcs)) =
      (mergeSpec srcs).filter (fun e => hasPrefix e.1 p && hasSuffix e.1 s) := by
  have h1 := storage_filtered srcs hok (fun k => hasPrefix k p) fuel n (mkHier srcs) (mkHier_over srcs) hf hn
  have hlen := length_mergeSpec_le hok
  have hl1 := List.length_filter_le (fun e : KV => hasPrefix e.1 p) (mergeSpec srcs)
  have h2 := filtered_first_emits (prefixOps (storageOps fuel) p fuel) (fun k => hasSuffix k s) fuel _ (mkHier srcs) h1 (by omega)
  rw [List.filter_filter] at h2
  have hfun : (fun a : KV => hasSuffix a.1 s && hasPrefix a.1 p) = (fun e : KV => hasPrefix e.1 p && hasSuffix e.1 s) := by
    funext e; exact Bool.and_comm _ _
  rw [hfun] at h2
  apply collect_emits _ _ n h2
  have := List.length_filter_le (fun e : KV => hasPrefix e.1 p && hasSuffix e.1 s) (mergeSpec srcs)
  omega

/-- Scan of the service for every option combination (prefix, suffix, both, start/end, none) and every limit:
    the live merged entries of the selection, cut at the limit (the limit counts live entries only) -/
theorem limit_spec (o : ScanOpts) (srcs : List (List KV)) (hok : SourcesOK srcs) :
    serviceScan o srcs =
      (if o.limit > 0 then (live ((mergeSpec srcs).filter (fun e => scanSel o e.1))).take o.limit
       else live ((mergeSpec srcs).filter (fun e => scanSel o e.1))) := by
  rw [service_scan o srcs hok]; rfl

/-! ### (f) the engine and transactions against the abstract map -/

/-- for every program (put/delete/batch/flush/reopen), every memtable size and all bounds: the range scan of the
    engine model yields exactly the keys that the final abstract map holds in [lo,hi), strictly ascending (each
    once), each with its latest value; deleted keys do not appear -/
theorem engine_scan (cfg : Cfg) (ops : List Op) (lo hi : Option Bytes) (n : Nat)
    (hn : total (kvSources (engRun (init cfg) ops)) < n) :
    let out := live (Bounded.collect n ({ h := mkHier (kvSources (engRun (init cfg) ops)), lo := lo, hi := hi } : Bounded).first)
    Asc out ∧ (∀ e ∈ out, ∃ x, e.2 = some x) ∧
    ∀ k x, (k, some x) ∈ out ↔ (inRange lo hi k = true ∧ mapRun emptyMap ops k = some x) :=
  engine_scan_range cfg ops lo hi n hn

theorem engine_scan_all (cfg : Cfg) (ops : List Op) (n : Nat) (hn : total (kvSources (engRun (init cfg) ops)) < n) :
    let out := live (Hier.collect n (mkHier (kvSources (engRun (init cfg) ops))).first)
    Asc out ∧ (∀ e ∈ out, ∃ x, e.2 = some x) ∧ ∀ k x, (k, some x) ∈ out ↔ mapRun emptyMap ops k = some x :=
  engine_scan_full cfg ops n hn

/-- a service scan inside a transaction (TxScan; Scan is the case of no buffered operations) after any program:
    the transaction's own puts and deletes are overlaid on the engine's state; the result is the live selection of
    `applyBatch (final map) buffered-operations`, ascending, cut at the limit -/
theorem tx_scan_overlay (cfg : Cfg) (ops : List Op) (bops : List (Bool × Bytes × Bytes)) (o : ScanOpts) :
    let V := live ((mergeSpec (bufferKV bops :: kvSources (engRun (init cfg) ops))).filter (fun e => scanSel o e.1))
    serviceTxScan o (bufferKV bops) (kvSources (engRun (init cfg) ops)) = (if o.limit > 0 then V.take o.limit else V) ∧
    Asc V ∧ (∀ e ∈ V, ∃ x, e.2 = some x) ∧
    ∀ k x, (k, some x) ∈ V ↔ (scanSel o k = true ∧ applyBatch (mapRun emptyMap ops) bops k = some x) := by
  obtain ⟨hist, he, hs, habs⟩ := run_invs cfg ops
  intro V
  refine ⟨?_, live_asc (filter_asc (mergeSpec_asc _) _), fun e he' => live_some e he', ?_⟩
  · rw [service_tx_scan o _ _ (bufferKV_asc bops) (sources_ok hs)]; rfl
  · intro k x
    show (k, some x) ∈ live _ ↔ _
    rw [mem_live_filter (mergeSpec_asc _) (scanSel o) k x, lookup_overlay he hs bops k x, habs]

/-- the transaction's plain and range iterators, cursor level: buffer first, storage second -/
theorem tx_iter_collect (buf : List KV) (srcs : List (List KV)) (hb : Asc buf) (hok : SourcesOK srcs) (lo hi : Option Bytes)
    (fuel n : Nat) (hf : total srcs + buf.length + 1 ≤ fuel) (hn : total srcs + buf.length + 1 ≤ n) :
    collect (txOps fuel) n ((txOps fuel).first (mkTx buf srcs)) = mergeSpec (buf :: srcs) ∧
    collect (txRangeOps lo hi fuel) n ((txRangeOps lo hi fuel).first (mkTx buf srcs)) =
      (mergeSpec (buf :: srcs)).filter (fun e => inRange lo hi e.1) := by
  have hsok : SourcesOK (buf :: srcs) := sourcesOK_cons.mpr ⟨asc_nondec hb, hok⟩
  have hlen := length_mergeSpec_le hsok
  rw [total_cons] at hlen
  have hl := List.length_filter_le (fun e : KV => inRange lo hi e.1) (mergeSpec (buf :: srcs))
  exact ⟨collect_emits _ _ n (tx_first_emits buf srcs hb hok fuel hf) (by omega),
    collect_emits _ _ n (txRange_first_emits buf srcs hb hok lo hi fuel hf) (by omega)⟩

/-! ### non-vacuity: the hypotheses are satisfiable and the model computes -/

example : SourcesOK [[([1], some [1]), ([1], some [0]), ([3], none)], [([1], none), ([2], some [2]), ([3], some [3])]] := by
  intro s hs
  simp at hs
  rcases hs with rfl | rfl <;> simp [Kevo.Proofs.Merge.Nondec] <;> decide

example : Hier.collect 10 (mkHier [[([1], some [1]), ([1], some [0]), ([3], none)], [([1], none), ([2], some [2]), ([3], some [3])]]).first
    = [([1], some [1]), ([2], some [2]), ([3], none)] := by decide

example : serviceTxScan { pre := [1], limit := 1 } (bufferKV [(false, [1, 5], [9]), (true, [1, 4], [])])
    [[([1, 4], some [7]), ([1, 6], some [8])]] = [([1, 5], some [9])] := by decide

example : total (kvSources (engRun (init { memTableSize := 40 }) [.put [1] [10], .put [2] (List.replicate 40 7), .del [1], .flush])) < 10 := by
  decide

end Kevo.Props.C05
