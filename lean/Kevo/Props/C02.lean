/-
  C02 — Acknowledged writes survive a crash; recovery yields a history prefix.

  Model: Kevo.Model.Crash (engine + byte-level log files behind a bufio model, every operation unfolded into the
  instrumentation sites of the implementation). Crash relation: process death (every log file keeps exactly the bytes
  flushed to the OS). Power loss / torn sectors are represented by truncation (C10: `replay_truncated` covers every cut).
  Tie: component `crash` — the model predicts the ordered site plan of each workload and the exact recovered state for a
  kill at every site; the harness kills a child process at that site, reopens, and the two are compared.
-/
import Kevo.Proofs.Crash
import Kevo.Gen.Consts
namespace Kevo.Props.C02
open Kevo Kevo.Wal Kevo.Crash Kevo.Proofs.Crash

theorem recover_prefix_proc (p : WalParams) (hp : p.WF) (crc : Bytes → Nat) (hcrc : ∀ bs, crc bs < 2 ^ 32)
    (sync mem : Nat) (ops : List WOp) (hops : ∀ o ∈ ops, WOpWF p o) (hseq : ops.length + 1 < p.maxSeq)
    (k : Nat) (ev : Event) :
    let c := runWorkload p crc sync mem ops
    eventAt c k = some ev →
    ∃ s, (replayDir p crc (diskAt c k)).entries = (c.eng.wal.flatten.filter (fun e => e.seq ≤ s)).map (asRead p) ∧
         (replayDir p crc (diskAt c k)).isErr = false ∧
         s ≤ ev.walNext ∧ (sync = 2 → ev.ackedSeq ≤ s) :=
  Kevo.Proofs.Crash.recover_prefix_proc p hp crc hcrc sync mem ops hops hseq k ev

/-- POWER LOSS (the guaranteed survivor): cut the power at any instrumentation site of any workload, in any sync mode;
    every log file keeps only what had been fsync'ed by then (`Crash.syncedAt`: the flushed lengths recorded at the latest
    `wal.sync.synced` / `wal.close.synced` site; files created since are empty). Replaying that image yields, without
    error, exactly the history up to a whole write s, and with synchronous logging s covers every acknowledged write.
    The implementation's synced lengths (fsync calls seen by strace) and the state it recovers from exactly those bytes
    are compared with `syncedLens` / `recoveredPower` after every acknowledgement by component `power`. -/
theorem recover_prefix_power (p : WalParams) (hp : p.WF) (crc : Bytes → Nat) (hcrc : ∀ bs, crc bs < 2 ^ 32)
    (sync mem : Nat) (ops : List WOp) (hops : ∀ o ∈ ops, WOpWF p o) (hseq : ops.length + 1 < p.maxSeq)
    (k : Nat) (hk : 0 < k) (ev : Event) :
    let c := runWorkload p crc sync mem ops
    eventAt c k = some ev →
    ∃ s, (replayDir p crc (diskSyncedAt c k)).entries = (c.eng.wal.flatten.filter (fun e => e.seq ≤ s)).map (asRead p) ∧
         (replayDir p crc (diskSyncedAt c k)).isErr = false ∧
         s ≤ ev.walNext ∧ (sync = 2 → ev.ackedSeq ≤ s) :=
  Kevo.Proofs.Crash.recover_prefix_power p hp crc hcrc sync mem ops hops hseq k hk ev

theorem clean_close_durable (p : WalParams) (hp : p.WF) (crc : Bytes → Nat) (hcrc : ∀ bs, crc bs < 2 ^ 32)
    (sync mem : Nat) (ops : List WOp) (hops : ∀ o ∈ ops, WOpWF p o) (hseq : ops.length + 2 < p.maxSeq) :
    let c := runWorkload p crc sync mem (ops ++ [.reopen])
    (replayDir p crc (diskAt c c.events.length)).entries = c.eng.wal.flatten.map (asRead p) :=
  Kevo.Proofs.Crash.clean_close_durable p hp crc hcrc sync mem ops hops hseq

theorem flushed_le_stream (p : WalParams) (crc : Bytes → Nat) (sync mem : Nat) (ops : List WOp) :
    ∀ f ∈ (runWorkload p crc sync mem ops).files, f.flushed ≤ f.stream.length :=
  Kevo.Proofs.Crash.flushed_le_stream p crc sync mem ops

/-! non-vacuity: a workload with a transaction, a flush and a reopen is well-formed; the model produces events. -/
example : ∀ o ∈ [WOp.put [1] [2], .tx [(false, [3], [4]), (true, [1], [])], .flush, .reopen, .del [3]], WOpWF Kevo.Gen.walParams o := by
  intro o ho
  simp at ho
  rcases ho with rfl | rfl | rfl | rfl | rfl <;> simp [WOpWF] <;> decide

/-! non-vacuity of the power-loss theorem: with synchronous logging the synced image at the first acknowledgement holds
    the whole first record (28 bytes: 7 header + 1 + 8 + 4 + 2 + 4 + 2), with sync mode "none" it holds nothing. -/
example : (let c := runWorkload Kevo.Gen.walParams (fun _ => 0) 2 4096 [WOp.put [1, 2] [3, 4]]
           (ackPositions c, syncedLens c 8)) = ([8], [28]) := by decide
example : (let c := runWorkload Kevo.Gen.walParams (fun _ => 0) 0 4096 [WOp.put [1, 2] [3, 4]]
           (ackPositions c, syncedLens c 6)) = ([6], [0]) := by decide

end Kevo.Props.C02
